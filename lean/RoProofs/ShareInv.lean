/-
  RoProofs.ShareInv — the invariant `Inv` of RoModel.Share is preserved by every event
  (any configuration: connector, flags, synchronous prefixes).
-/
import RoProofs.ShareBasic
namespace Ro.Share
attribute [local simp] St.modGen St.modSub St.drop

macro "sim_close" : tactic => `(tactic| (constructor <;> intros <;> simp <;> (try split) <;> simp_all))

/-! ### steps that only touch traces, stored values and the drop log -/

theorem dNext_sim (i : Nat) (v : Int) (s : St) : Sim s (dNext i v s) := by
  unfold dNext
  split <;> sim_close

theorem foldl_sim {α : Type} (f : St → α → St) (hf : ∀ s a, Sim s (f s a)) (l : List α) (s : St) :
    Sim s (l.foldl f s) := by
  induction l generalizing s with
  | nil => exact Sim.refl s
  | cons a l ih => exact (hf s a).trans (ih (f s a))

theorem sim_modGen (g : Nat) (f : Gen → Gen)
    (hf : ∀ x, (f x).subj.status = x.subj.status ∧ (f x).subj.obs = x.subj.obs ∧ (f x).ssDone = x.ssDone ∧
      (f x).ssFins = x.ssFins ∧ (f x).pStatus = x.pStatus ∧ (f x).pDone = x.pDone ∧ (f x).pFin = x.pFin ∧
      (f x).upSub = x.upSub ∧ (f x).upTorn = x.upTorn) (s : St) : Sim s (s.modGen g f) := by
  constructor <;> intros <;> simp <;> split <;> simp_all

theorem sim_drop (x : Ev) (s : St) : Sim s (s.drop x) := by sim_close

theorem subjStore_sim (conn : Conn) (g : Nat) (v : Int) (s : St) : Sim s (subjStore conn g v s) := by
  cases conn <;> first | exact Sim.refl s | (unfold subjStore; exact sim_modGen g _ (fun _ => by simp) s)

theorem bcastNext_sim (g : Nat) (v : Int) (s : St) : Sim s (bcastNext g v s) :=
  foldl_sim _ (fun s i => dNext_sim i v s) _ s

theorem subjBuffer_sim (conn : Conn) (g : Nat) (v : Int) (s : St) : Sim s (subjBuffer conn g v s) := by
  cases conn
  · exact Sim.refl s
  · exact Sim.refl s
  · unfold subjBuffer
    simp only []
    split
    · exact (sim_drop _ s).trans (sim_modGen g _ (fun _ => by simp) _)
    · exact sim_modGen g _ (fun _ => by simp) s
  · unfold subjBuffer
    exact sim_modGen g _ (fun _ => by simp) s

theorem subjNext_sim (conn : Conn) (g : Nat) (v : Int) (s : St) : Sim s (subjNext conn g v s) := by
  unfold subjNext
  split
  · exact ((subjStore_sim conn g v s).trans (bcastNext_sim g v _)).trans (subjBuffer_sim conn g v _)
  · exact sim_drop _ s

theorem pNext_sim (cfg : Cfg) (g : Nat) (v : Int) (s : St) : Sim s (pNext cfg g v s) := by
  unfold pNext
  split
  · exact subjNext_sim _ g v s
  · exact sim_drop _ s

theorem subjReplay_sim (conn : Conn) (g i : Nat) (s : St) : Sim s (subjReplay conn g i s) := by
  cases conn <;> first | exact Sim.refl s | exact foldl_sim _ (fun s v => dNext_sim i v s) _ s

theorem subjLast_sim (conn : Conn) (g i : Nat) (s : St) : Sim s (subjLast conn g i s) := by
  cases conn <;> first | exact Sim.refl s | exact dNext_sim i _ s

/-! ### `reset` -/

/-- on a generation whose `sourceSubscription` is already done and that is not the shared one,
    `reset` changes nothing -/
theorem reset_stale {s : St} {g : Nat} (h1 : (s.gens g).ssDone = true) (h2 : s.subject ≠ some g)
    (h3 : s.sourceSubscription ≠ some g) : reset g s = s := by
  simp [reset, ssUnsub, h1, clearShared, h2, h3]

/-- effect of `reset g` on the live current generation: upstream released, shared pair cleared -/
def resetState (g : Nat) (s : St) : St :=
  { s with subject := none, sourceSubscription := none,
           gens := fun k => if k = g then { (s.gens g) with ssDone := true, ssFins := [], pStatus := 2, pDone := true, pFin := false, upTorn := true } else s.gens k }

theorem reset_active {s : St} {g : Nat} (h1 : (s.gens g).pStatus = 0) (h2 : (s.gens g).pDone = false)
    (h3 : (s.gens g).pFin = true) (h4 : (s.gens g).ssFins = [g]) (h5 : (s.gens g).ssDone = false)
    (h6 : s.subject = some g) (h7 : s.sourceSubscription = some g) : reset g s = resetState g s := by
  simp [reset, clearShared, ssUnsub, h5, h4, pUnsubscribe, h1, pSubnUnsub, h2, h3, h6, h7, resetState]
  funext k
  split <;> simp_all

/-! ### a downstream subscriber of generation g ends or leaves -/

/-- subscriber `i` (open, attached to `g`) after its finalizers ran, up to the reset test -/
def closeState (c : Nat) (tr : List Ev) (i g : Nat) (s : St) : St :=
  { s with subs := fun k => if k = i then { status := c, trace := tr, done := true, delFin := none, tearFin := none } else s.subs k,
           gens := fun k => if k = g then { (s.gens g) with subj := { (s.gens g).subj with obs := (s.gens g).subj.obs.erase i } } else s.gens k,
           refCount := s.refCount - 1 }

theorem dUnsubscribe_open {s : St} {i g : Nat} (fl : Flags) (ho : SubOpen g (s.subs i)) :
    dUnsubscribe fl i s = zeroReset fl g (closeState 2 (s.subs i).trace i g s) := by
  simp [dUnsubscribe, ho.status, dSubnUnsub, ho.done, ho.delFin, ho.tearFin, runDel, runTear, teardownT, casClose, decRef, closeState]
  congr 1
  simp
  refine ⟨?_, ?_⟩ <;> funext k <;> split <;> simp_all

theorem dTerm_open {s : St} {i g : Nat} (fl : Flags) (t : Ev) (ht : t.isTerminal = true) (ho : SubOpen g (s.subs i)) :
    dTerm fl i t s = zeroReset fl g (closeState t.code ((s.subs i).trace ++ [t]) i g s) := by
  have hc : t.code ≠ 0 := by cases t <;> simp [Ev.code] at *
  simp [dTerm, dDeliver, ho.status, dSubnUnsub, ho.done, ho.delFin, ho.tearFin, runDel, runTear, teardownT, casClose, decRef, closeState, hc]
  congr 1
  simp
  refine ⟨?_, ?_⟩ <;> funext k <;> split <;> simp_all

theorem dTerm_closed {s : St} {i : Nat} (fl : Flags) (t : Ev) (hc : SubClosed (s.subs i)) :
    dTerm fl i t s = s.drop t := by
  simp [dTerm, dDeliver, hc.status, dSubnUnsub, hc.done]

theorem openSubs_closeState {s : St} {c : Nat} {tr : List Ev} {i g : Nat} (hc : c ≠ 0) :
    openSubs (closeState c tr i g s) = (openSubs s).erase i := by
  apply openSubs_close (s := s) (s' := closeState c tr i g s) (i := i) rfl
  · simp [closeState, hc]
  · intro k hk
    simp [closeState, hk]

theorem length_erase_open {s : St} {i : Nat} (hlt : i < s.nsubs) (hs : (s.subs i).status = 0) :
    ((openSubs s).erase i).length + 1 = (openSubs s).length := by
  have hmem : i ∈ openSubs s := mem_openSubs.mpr ⟨hlt, hs⟩
  rw [List.length_erase_of_mem hmem]
  have := List.length_pos_of_mem hmem
  omega

/-- leaving without reset: the generation stays active -/
theorem inv_closeState {P : Pend} {s : St} {c : Nat} {tr : List Ev} {i g : Nat} (hi : Inv P s) (hc : c ≠ 0) (hlt : i < s.nsubs)
    (hsub : s.subject = some g) (ha : GenActive P s g) (hs : (s.subs i).status = 0) (hna : P.ua ≠ some i) :
    Inv P (closeState c tr i g s) ∧ GenActive P (closeState c tr i g s) g := by
  have hos := openSubs_closeState (s := s) (c := c) (tr := tr) (i := i) (g := g) hc
  have hlen := length_erase_open hlt hs
  have hother : ∀ k, k ≠ i → (closeState c tr i g s).subs k = s.subs k := by
    intro k hk; simp [closeState, hk]
  have hgother : ∀ k, k ≠ g → (closeState c tr i g s).gens k = s.gens k := by
    intro k hk; simp [closeState, hk]
  have hact : GenActive P (closeState c tr i g s) g := by
    constructor
    case obs => rw [hos]; simp [closeState, ha.obs]
    case fin => intro hne; simp [closeState]; exact ha.fin hne
    case unf =>
      intro he
      obtain ⟨h1, h2, A, hA, hltA, hu⟩ := ha.unf he
      have hAi : A ≠ i := fun h => hna (by rw [← h]; exact hA)
      exact ⟨by simp [closeState]; exact h1, by simp [closeState]; exact h2, A, hA, hltA, by rw [hother A hAi]; exact hu⟩
    case subs =>
      intro k hk hks hne
      by_cases hki : k = i
      · subst hki; simp [closeState, hc] at hks
      · rw [hother k hki] at hks ⊢
        exact ha.subs k hk hks hne
    all_goals (simp [closeState]; first | exact ha.pStatus | exact ha.pDone | exact ha.upSub | exact ha.upTorn | exact ha.ssDone | exact ha.isOpen | exact ha.flagE | exact ha.flagC)
  refine ⟨?_, hact⟩
  constructor
  case shared => exact hi.shared
  case closed =>
    intro k hk hks
    by_cases hki : k = i
    · subst hki; constructor <;> simp [closeState, hc]
    · rw [hother k hki] at hks ⊢
      exact hi.closed k hk hks
  case stale =>
    intro k hk hne hu
    have hkg : k ≠ g := fun h => hne (by rw [h]; exact hsub)
    rw [hgother k hkg]
    exact hi.stale k hk hne hu
  case ended =>
    intro k hk hne hu
    have hkg : k ≠ g := fun h => hne (by rw [h]; exact hsub)
    rw [hgother k hkg]
    exact hi.ended k hk hne hu
  case count =>
    rw [hos]
    have := hi.count
    simp only [closeState]
    omega
  case idle =>
    intro hn
    simp [closeState, hsub] at hn
  case cur =>
    intro g' hg'
    have : g' = g := by
      have : (closeState c tr i g s).subject = s.subject := rfl
      rw [this, hsub] at hg'
      exact (Option.some.inj hg').symm
    subst this
    exact ⟨(hi.cur g' hsub).1, Or.inl hact⟩
  case ugb => exact hi.ugb
  case uab => exact hi.uab

/-- the last one leaves and `ResetOnRefCountZero` fires: upstream released -/
theorem inv_resetState {P : Pend} {s : St} {g : Nat} (hi : Inv P s) (hsub : s.subject = some g) (ha : GenActive P s g)
    (hfin : P.ug ≠ some g) (hno : openSubs s = []) : Inv P (resetState g s) := by
  have hos : openSubs (resetState g s) = openSubs s := openSubs_congr rfl (fun i _ => Iff.rfl)
  have hgother : ∀ k, k ≠ g → (resetState g s).gens k = s.gens k := by
    intro k hk; simp [resetState, hk]
  have hua : P.ua = none := by
    cases h : P.ua with
    | none => rfl
    | some A => exact absurd ((hi.uab A h).1.trans hsub) hfin
  constructor
  case shared => rfl
  case closed => exact hi.closed
  case stale =>
    intro k hk _ hu
    by_cases hkg : k = g
    · subst hkg
      constructor <;> simp [resetState]
      · exact ha.upSub
      · rw [ha.obs, hno]
    · rw [hgother k hkg]
      exact hi.stale k hk (fun h => hkg (by rw [hsub] at h; exact (Option.some.inj h).symm)) hu
  case ended =>
    intro k hk _ hu
    have hkg : k ≠ g := fun h => hfin (by rw [← h]; exact hu)
    rw [hgother k hkg]
    exact hi.ended k hk (fun h => hkg (by rw [hsub] at h; exact (Option.some.inj h).symm)) hu
  case count => rw [hos]; exact hi.count
  case idle =>
    intro _
    exact ⟨ha.flagE, ha.flagC, by rw [hos]; exact hno⟩
  case cur =>
    intro g' hg'
    simp [resetState] at hg'
  case ugb => exact hi.ugb
  case uab => intro A hA; rw [hua] at hA; cases hA

theorem zeroReset_noop {fl : Flags} {g : Nat} {s : St} (h : (fl.onZero && s.refCount == 0 && !s.flagE && !s.flagC) = false) :
    zeroReset fl g s = s := by
  simp [zeroReset, h]

/-- an open subscriber is attached to the live current generation -/
theorem open_active {P : Pend} {s : St} (hi : Inv P s) {i : Nat} (hlt : i < s.nsubs) (hs : (s.subs i).status = 0) :
    ∃ g, s.subject = some g ∧ GenActive P s g := by
  have hmem : i ∈ openSubs s := mem_openSubs.mpr ⟨hlt, hs⟩
  cases hsub : s.subject with
  | none => rw [(hi.idle hsub).2.2] at hmem; cases hmem
  | some g =>
    rcases (hi.cur g hsub).2 with ha | hl
    · exact ⟨g, rfl, ha⟩
    · rw [hl.noOpen] at hmem; cases hmem

theorem inv_dUnsubscribe (fl : Flags) {P : Pend} {s : St} (hi : Inv P s) (i : Nat) (hlt : i < s.nsubs) (hna : P.ua ≠ some i) :
    Inv P (dUnsubscribe fl i s) := by
  by_cases hs : (s.subs i).status = 0
  · obtain ⟨g, hsub, ha⟩ := open_active hi hlt hs
    have ho := ha.subs i hlt hs hna
    rw [dUnsubscribe_open fl ho]
    obtain ⟨hi', ha'⟩ := inv_closeState (c := 2) (tr := (s.subs i).trace) hi (by decide) hlt hsub ha hs hna
    unfold zeroReset
    split
    next hcond =>
      simp at hcond
      have hz := hcond.1.1.2
      have hcount := hi'.count
      have hno : openSubs (closeState 2 (s.subs i).trace i g s) = [] := by
        apply List.eq_nil_of_length_eq_zero
        omega
      have hfin : P.ug ≠ some g := by
        intro he
        obtain ⟨_, _, A, _, hltA, hu⟩ := ha'.unf he
        have : A ∈ openSubs (closeState 2 (s.subs i).trace i g s) := mem_openSubs.mpr ⟨hltA, hu.status⟩
        rw [hno] at this; cases this
      rw [reset_active ha'.pStatus ha'.pDone (ha'.fin hfin).1 (ha'.fin hfin).2 ha'.ssDone (by exact hsub)
        (by have := hi'.shared; rw [this]; exact hsub)]
      exact inv_resetState hi' hsub ha' hfin hno
    next => exact hi'
  · simp [dUnsubscribe, hs]
    exact hi

/-! ### a source terminal reaches the proxy of the live current generation -/

/-- `reset g` from inside the proxy's own terminal callback: the proxy is already closed, so the
    `sourceSubscription`'s finalizer finds nothing to do; the shared pair is cleared -/
def termResetState (g : Nat) (s : St) : St :=
  { s with subject := none, sourceSubscription := none,
           gens := fun k => if k = g then { (s.gens g) with ssDone := true, ssFins := [] } else s.gens k }

theorem reset_terminated {s : St} {g : Nat} (h1 : (s.gens g).pStatus ≠ 0)
    (h4 : (s.gens g).ssFins = [g] ∨ (s.gens g).ssFins = []) (h5 : (s.gens g).ssDone = false)
    (h6 : s.subject = some g) (h7 : s.sourceSubscription = some g) : reset g s = termResetState g s := by
  rcases h4 with h4 | h4 <;>
    (simp [reset, clearShared, ssUnsub, h5, h4, pUnsubscribe, h1, h6, h7, termResetState]
     funext k
     split <;> simp_all)

/-- the pending creator (Share's teardown not registered) is closed: like `closeState`, but its
    reference is not given back -/
def closeStateU (c : Nat) (tr : List Ev) (i g : Nat) (s : St) : St :=
  { closeState c tr i g s with refCount := s.refCount }

theorem dTerm_openU {s : St} {i g : Nat} (fl : Flags) (t : Ev) (ht : t.isTerminal = true) (ho : SubOpenU g (s.subs i)) :
    dTerm fl i t s = closeStateU t.code ((s.subs i).trace ++ [t]) i g s := by
  have hc : t.code ≠ 0 := by cases t <;> simp [Ev.code] at *
  simp [dTerm, dDeliver, ho.status, dSubnUnsub, ho.done, ho.delFin, ho.tearFin, runDel, runTear, closeStateU, closeState, hc]
  refine ⟨?_, ?_⟩ <;> funext k <;> split <;> simp_all

theorem openSubs_closeStateU {s : St} {c : Nat} {tr : List Ev} {i g : Nat} (hc : c ≠ 0) :
    openSubs (closeStateU c tr i g s) = (openSubs s).erase i := by
  apply openSubs_close (s := s) (s' := closeStateU c tr i g s) (i := i) rfl
  · simp [closeStateU, closeState, hc]
  · intro k hk
    simp [closeStateU, closeState, hk]

/-- references held by the pending creator `xa` once it has been closed -/
def pendClosed (xa : Option Nat) (s : St) : Nat :=
  match xa with
  | some A => if (s.subs A).status = 0 then 0 else 1
  | none => 0

/-- what holds while the subject of generation `g` broadcasts a terminal; `xa` = the pending creator
    of `g` (registered, its teardown not), `c` = references pending from elsewhere -/
structure TInv (xa : Option Nat) (c : Nat) (g : Nat) (s : St) : Prop where
  shared : s.sourceSubscription = s.subject
  quiet : (s.flagE = true ∨ s.flagC = true) ∨ ((s.gens g).ssDone = true ∧ s.subject = none)
  closed : ∀ i, i < s.nsubs → (s.subs i).status ≠ 0 → SubClosed (s.subs i)
  opened : ∀ i, i < s.nsubs → (s.subs i).status = 0 → xa ≠ some i → SubOpen g (s.subs i)
  openedU : ∀ A, xa = some A → A < s.nsubs ∧ ((s.subs A).status = 0 → SubOpenU g (s.subs A))
  obs : (s.gens g).subj.obs = openSubs s
  count : s.refCount = ((openSubs s).length + c + pendClosed xa s : Nat)

/-- what a terminal delivery leaves alone -/
structure TFrame (g : Nat) (s s' : St) : Prop where
  subject : s'.subject = s.subject
  sourceSubscription : s'.sourceSubscription = s.sourceSubscription
  flagE : s'.flagE = s.flagE
  flagC : s'.flagC = s.flagC
  ngens : s'.ngens = s.ngens
  nsubs : s'.nsubs = s.nsubs
  gens : ∀ k, k ≠ g → s'.gens k = s.gens k
  ssDone : (s'.gens g).ssDone = (s.gens g).ssDone
  ssFins : (s'.gens g).ssFins = (s.gens g).ssFins
  pStatus : (s'.gens g).pStatus = (s.gens g).pStatus
  pDone : (s'.gens g).pDone = (s.gens g).pDone
  pFin : (s'.gens g).pFin = (s.gens g).pFin
  upSub : (s'.gens g).upSub = (s.gens g).upSub
  upTorn : (s'.gens g).upTorn = (s.gens g).upTorn
  gStatus : (s'.gens g).subj.status = (s.gens g).subj.status
  mono : ∀ k, (s.subs k).status ≠ 0 → (s'.subs k).status ≠ 0

theorem TFrame.refl (g : Nat) (s : St) : TFrame g s s := by
  constructor <;> intros <;> first | rfl | assumption

theorem TFrame.trans {g : Nat} {a b c : St} (h1 : TFrame g a b) (h2 : TFrame g b c) : TFrame g a c where
  subject := h2.subject.trans h1.subject
  sourceSubscription := h2.sourceSubscription.trans h1.sourceSubscription
  flagE := h2.flagE.trans h1.flagE
  flagC := h2.flagC.trans h1.flagC
  ngens := h2.ngens.trans h1.ngens
  nsubs := h2.nsubs.trans h1.nsubs
  gens := fun k hk => (h2.gens k hk).trans (h1.gens k hk)
  ssDone := h2.ssDone.trans h1.ssDone
  ssFins := h2.ssFins.trans h1.ssFins
  pStatus := h2.pStatus.trans h1.pStatus
  pDone := h2.pDone.trans h1.pDone
  pFin := h2.pFin.trans h1.pFin
  upSub := h2.upSub.trans h1.upSub
  upTorn := h2.upTorn.trans h1.upTorn
  gStatus := h2.gStatus.trans h1.gStatus
  mono := fun k hk => h2.mono k (h1.mono k hk)

theorem zeroReset_quiet {fl : Flags} {g : Nat} {s : St} (hsh : s.sourceSubscription = s.subject)
    (hq : (s.flagE = true ∨ s.flagC = true) ∨ ((s.gens g).ssDone = true ∧ s.subject = none)) :
    zeroReset fl g s = s := by
  unfold zeroReset
  split
  next hcond =>
    simp at hcond
    rcases hq with hf | ⟨hd, hn⟩
    · rcases hf with hf | hf <;> simp [hf] at hcond
    · exact reset_stale hd (by simp [hn]) (by simp [hsh, hn])
  next => rfl

theorem dTerm_tinv {fl : Flags} {xa : Option Nat} {c : Nat} {g : Nat} {s : St} (t : Ev) (ht : t.isTerminal = true) (h : TInv xa c g s)
    (i : Nat) (hlt : i < s.nsubs) :
    TInv xa c g (dTerm fl i t s) ∧ TFrame g s (dTerm fl i t s) ∧ ((dTerm fl i t s).subs i).status ≠ 0 := by
  have hc : t.code ≠ 0 := by cases t <;> simp [Ev.code, Ev.isTerminal] at *
  by_cases hs : (s.subs i).status = 0
  · have hlen := length_erase_open hlt hs
    by_cases hxa : xa = some i
    · -- the pending creator: closed without giving its reference back
      have ho := (h.openedU i hxa).2 hs
      rw [dTerm_openU fl t ht ho]
      have hos := openSubs_closeStateU (s := s) (c := t.code) (tr := (s.subs i).trace ++ [t]) (i := i) (g := g) hc
      have hother : ∀ k, k ≠ i → (closeStateU t.code ((s.subs i).trace ++ [t]) i g s).subs k = s.subs k := by
        intro k hk; simp [closeStateU, closeState, hk]
      have hp0 : pendClosed xa s = 0 := by simp [pendClosed, hxa, hs]
      have hp1 : pendClosed xa (closeStateU t.code ((s.subs i).trace ++ [t]) i g s) = 1 := by
        simp [pendClosed, hxa, closeStateU, closeState, hc]
      refine ⟨?_, ?_, ?_⟩
      · constructor
        case shared => exact h.shared
        case quiet =>
          rcases h.quiet with hf | ⟨hd, hn⟩
          · exact Or.inl hf
          · exact Or.inr ⟨by simp [closeStateU, closeState, hd], hn⟩
        case closed =>
          intro k hk hks
          by_cases hki : k = i
          · subst hki; constructor <;> simp [closeStateU, closeState, hc]
          · rw [hother k hki] at hks ⊢
            exact h.closed k hk hks
        case opened =>
          intro k hk hks hne
          by_cases hki : k = i
          · subst hki; simp [closeStateU, closeState, hc] at hks
          · rw [hother k hki] at hks ⊢
            exact h.opened k hk hks hne
        case openedU =>
          intro A hA
          have hAi : A = i := by rw [hxa] at hA; exact (Option.some.inj hA).symm
          subst hAi
          exact ⟨hlt, fun h0 => by simp [closeStateU, closeState, hc] at h0⟩
        case obs => rw [hos]; simp [closeStateU, closeState, h.obs]
        case count =>
          rw [hos, hp1]
          have := h.count
          rw [hp0] at this
          simp only [closeStateU, closeState]
          omega
      · constructor <;> intros <;> simp [closeStateU, closeState] <;> (try split) <;> simp_all
      · simp [closeStateU, closeState, hc]
    · have ho := h.opened i hlt hs hxa
      rw [dTerm_open fl t ht ho]
      have hq : zeroReset fl g (closeState t.code ((s.subs i).trace ++ [t]) i g s) = closeState t.code ((s.subs i).trace ++ [t]) i g s := by
        apply zeroReset_quiet
        · exact h.shared
        · rcases h.quiet with hf | ⟨hd, hn⟩
          · exact Or.inl hf
          · exact Or.inr ⟨by simp [closeState, hd], hn⟩
      rw [hq]
      have hos := openSubs_closeState (s := s) (c := t.code) (tr := (s.subs i).trace ++ [t]) (i := i) (g := g) hc
      have hother : ∀ k, k ≠ i → (closeState t.code ((s.subs i).trace ++ [t]) i g s).subs k = s.subs k := by
        intro k hk; simp [closeState, hk]
      have hp : pendClosed xa (closeState t.code ((s.subs i).trace ++ [t]) i g s) = pendClosed xa s := by
        cases hx : xa with
        | none => rfl
        | some A =>
          have hAi : A ≠ i := fun hh => hxa (by rw [hx, hh])
          simp [pendClosed, hother A hAi]
      refine ⟨?_, ?_, ?_⟩
      · constructor
        case shared => exact h.shared
        case quiet =>
          rcases h.quiet with hf | ⟨hd, hn⟩
          · exact Or.inl hf
          · exact Or.inr ⟨by simp [closeState, hd], hn⟩
        case closed =>
          intro k hk hks
          by_cases hki : k = i
          · subst hki; constructor <;> simp [closeState, hc]
          · rw [hother k hki] at hks ⊢
            exact h.closed k hk hks
        case opened =>
          intro k hk hks hne
          by_cases hki : k = i
          · subst hki; simp [closeState, hc] at hks
          · rw [hother k hki] at hks ⊢
            exact h.opened k hk hks hne
        case openedU =>
          intro A hA
          have hAi : A ≠ i := fun hh => hxa (by rw [hA, hh])
          rw [hother A hAi]
          exact h.openedU A hA
        case obs => rw [hos]; simp [closeState, h.obs]
        case count =>
          rw [hos, hp]
          have := h.count
          simp only [closeState]
          omega
      · constructor <;> intros <;> simp [closeState] <;> (try split) <;> simp_all
      · simp [closeState, hc]
  · have hcl := h.closed i hlt hs
    rw [dTerm_closed fl t hcl]
    refine ⟨?_, ?_, ?_⟩
    · exact ⟨h.shared, h.quiet, h.closed, h.opened, h.openedU, h.obs, h.count⟩
    · constructor <;> intros <;> first | rfl | assumption
    · exact hs

theorem bcast_tinv {fl : Flags} {xa : Option Nat} {c : Nat} {g : Nat} (t : Ev) (ht : t.isTerminal = true) (l : List Nat) {s : St}
    (h : TInv xa c g s) (hl : ∀ i, i ∈ l → i < s.nsubs) :
    TInv xa c g (l.foldl (fun s i => dTerm fl i t s) s) ∧ TFrame g s (l.foldl (fun s i => dTerm fl i t s) s) ∧
      ∀ i, i ∈ l → ((l.foldl (fun s i => dTerm fl i t s) s).subs i).status ≠ 0 := by
  induction l generalizing s with
  | nil => exact ⟨h, TFrame.refl g s, fun _ hi => by cases hi⟩
  | cons a l ih =>
    obtain ⟨h1, f1, c1⟩ := dTerm_tinv (fl := fl) t ht h a (hl a (List.mem_cons_self))
    obtain ⟨h2, f2, c2⟩ := ih h1 (fun i hi => by rw [f1.nsubs]; exact hl i (List.mem_cons_of_mem _ hi))
    refine ⟨h2, f1.trans f2, ?_⟩
    intro i hi
    rcases List.mem_cons.mp hi with rfl | hi
    · exact f2.mono _ c1
    · exact c2 i hi

/-- the decision of the proxy's terminal callback: reset, or latch one of the two flags -/
theorem pDecide_cases (fl : Flags) (g : Nat) (t : Ev) (ht : t.isTerminal = true) (u : St) :
    pDecide fl g t u = reset g u ∨ pDecide fl g t u = { u with flagE := true } ∨ pDecide fl g t u = { u with flagC := true } := by
  unfold pDecide
  cases t with
  | next v => simp [Ev.isTerminal] at ht
  | error e => simp only []; split <;> simp
  | complete => simp only []; split <;> simp

/-- the decision in terms of the specification's `resetsOn` -/
theorem pDecide_eq (fl : Flags) (g : Nat) (t : Ev) (ht : t.isTerminal = true) (u : St) :
    pDecide fl g t u = if fl.resetsOn t then reset g u
      else match t with
        | .error _ => { u with flagE := true }
        | _ => { u with flagC := true } := by
  cases t with
  | next v => simp [Ev.isTerminal] at ht
  | error e => simp only [pDecide, Flags.resetsOn]; by_cases h : fl.onError = true <;> simp [h]
  | complete => simp only [pDecide, Flags.resetsOn]; by_cases h : fl.onComplete = true <;> simp [h]

theorem pDecide_cases' (fl : Flags) (g : Nat) (t : Ev) (ht : t.isTerminal = true) (u : St) :
    (fl.resetsOn t = true ∧ pDecide fl g t u = reset g u) ∨
    (fl.resetsOn t = false ∧ pDecide fl g t u = { u with flagE := true }) ∨
    (fl.resetsOn t = false ∧ pDecide fl g t u = { u with flagC := true }) := by
  rw [pDecide_eq fl g t ht u]
  cases hr : fl.resetsOn t with
  | true => exact Or.inl ⟨rfl, by simp⟩
  | false =>
    cases t with
    | next v => simp [Ev.isTerminal] at ht
    | error e => exact Or.inr (Or.inl ⟨rfl, by simp⟩)
    | complete => exact Or.inr (Or.inr ⟨rfl, by simp⟩)

/-- the pending creator of the live generation `g`, if `g` is the pending generation -/
def Pend.xa (P : Pend) (g : Nat) : Option Nat := if P.ug = some g then P.ua else none

/-- the pending state after a terminal on the live generation `g` -/
def Pend.afterTerm (P : Pend) (g : Nat) : Pend := if P.ug = some g then P.drop else P

@[simp] theorem Pend.afterTerm_idle (g : Nat) : Pend.idle.afterTerm g = Pend.idle := rfl
@[simp] theorem Pend.xa_idle (g : Nat) : Pend.idle.xa g = none := rfl

/-- the state just before the broadcast: proxy closed, reset-or-latch decided, subject terminated -/
theorem tinv_start {P : Pend} {s : St} {g : Nat} (t : Ev) (_ht : t.isTerminal = true) (hi : Inv P s)
    (hsub : s.subject = some g) (ha : GenActive P s g) (s2 : St)
    (h2 : s2 = termResetState g (s.modGen g fun x => { x with pStatus := t.code }) ∨
          s2 = { (s.modGen g fun x => { x with pStatus := t.code }) with flagE := true } ∨
          s2 = { (s.modGen g fun x => { x with pStatus := t.code }) with flagC := true })
    (s3 : St) (h3 : s3 = s2.modGen g fun x => { x with subj := { x.subj with status := Status.ofTerminal t } }) :
    TInv (P.xa g) P.c g s3 ∧ s3.ngens = s.ngens ∧ s3.nsubs = s.nsubs ∧
    (∀ k, k ≠ g → s3.gens k = s.gens k) ∧ (s3.gens g).pStatus = t.code ∧ (s3.gens g).pDone = false ∧
    (s3.gens g).pFin = (s.gens g).pFin ∧ (s3.gens g).upSub = true ∧ (s3.gens g).upTorn = false ∧
    (s3.gens g).subj.status = Status.ofTerminal t ∧
    ((s3.subject = none ∧ s3.flagE = false ∧ s3.flagC = false ∧ (s3.gens g).ssDone = true ∧ (s3.gens g).ssFins = []) ∨
     (s3.subject = some g ∧ (s3.flagE = true ∨ s3.flagC = true) ∧ (s3.gens g).ssDone = false ∧ (s3.gens g).ssFins = (s.gens g).ssFins)) := by
  have hss : s.sourceSubscription = some g := by rw [hi.shared]; exact hsub
  have hobs := ha.obs
  have hclosed := hi.closed
  have hcount := hi.count
  have hos : openSubs s3 = openSubs s := by
    rcases h2 with k | k | k <;> rw [h3, k] <;> exact openSubs_congr rfl (fun i _ => Iff.rfl)
  have hsubs : s3.subs = s.subs := by rcases h2 with k | k | k <;> rw [h3, k] <;> rfl
  have hns : s3.nsubs = s.nsubs := by rcases h2 with k | k | k <;> rw [h3, k] <;> rfl
  have hrc : s3.refCount = s.refCount := by rcases h2 with k | k | k <;> rw [h3, k] <;> rfl
  -- the pending creator, if this is the pending generation, is open: nothing pending-closed yet
  have hpend : pendClosed (P.xa g) s3 = 0 := by
    unfold Pend.xa
    split
    next he =>
      obtain ⟨_, _, A, hA, _, hu⟩ := ha.unf he
      simp [pendClosed, hA, hsubs, hu.status]
    next => rfl
  refine ⟨?_, ?_⟩
  · constructor
    case shared => rcases h2 with k | k | k <;> rw [h3, k] <;> simp [termResetState, hss, hsub]
    case quiet => rcases h2 with k | k | k <;> rw [h3, k] <;> simp [termResetState]
    case closed =>
      intro i hlt hs
      rw [hsubs] at hs ⊢
      exact hclosed i (by rw [hns] at hlt; exact hlt) hs
    case opened =>
      intro i hlt hs hne
      rw [hsubs] at hs ⊢
      apply ha.subs i (by rw [hns] at hlt; exact hlt) hs
      intro hua
      by_cases he : P.ug = some g
      · exact hne (by simp [Pend.xa, he, hua])
      · exact he (by rw [(hi.uab i hua).1]; exact hsub)
    case openedU =>
      intro A hA
      unfold Pend.xa at hA
      split at hA
      next he =>
        obtain ⟨_, _, A', hA', hltA, hu⟩ := ha.unf he
        rw [hA] at hA'
        have : A = A' := Option.some.inj hA'
        subst this
        rw [hsubs, hns]
        exact ⟨hltA, fun _ => hu⟩
      next => cases hA
    case obs =>
      rw [hos, ← hobs]
      rcases h2 with k | k | k <;> rw [h3, k] <;> simp [termResetState]
    case count => rw [hos, hrc, hpend]; exact hcount
  · rcases h2 with k | k | k <;> rw [h3, k] <;>
      simp [termResetState, ha.pDone, ha.upSub, ha.upTorn, ha.flagE, ha.flagC, ha.ssDone, hsub] <;>
      (intro k' hk'; simp [hk'])

theorem inv_pTerm {cfg : Cfg} {P : Pend} {s : St} {g : Nat} (t : Ev) (ht : t.isTerminal = true) (hi : Inv P s)
    (hsub : s.subject = some g) (ha : GenActive P s g) :
    Inv (P.afterTerm g) (pTerm cfg g t s) ∧ (pTerm cfg g t s).ngens = s.ngens ∧ (pTerm cfg g t s).nsubs = s.nsubs ∧
      (P.ug ≠ some g → ((pTerm cfg g t s).gens g).upTorn = true) ∧ (∀ k, k ≠ g → (pTerm cfg g t s).gens k = s.gens k) ∧
      (pTerm cfg g t s).subject = (if cfg.flags.resetsOn t then none else some g) ∧
      openSubs (pTerm cfg g t s) = [] := by
  have hc : t.code ≠ 0 := by cases t <;> simp [Ev.code, Ev.isTerminal] at *
  have hterm : Status.ofTerminal t ≠ Status.open := by cases t <;> simp [Status.ofTerminal, Ev.isTerminal] at *
  have hss : s.sourceSubscription = some g := by rw [hi.shared]; exact hsub
  have hg := (hi.cur g hsub).1
  have hssf : (s.gens g).ssFins = [g] ∨ (s.gens g).ssFins = [] := by
    by_cases he : P.ug = some g
    · exact Or.inr (ha.unf he).2.1
    · exact Or.inl (ha.fin he).2
  have hr : reset g (s.modGen g fun x => { x with pStatus := t.code }) = termResetState g (s.modGen g fun x => { x with pStatus := t.code }) :=
    reset_terminated (by simp [hc]) (by simpa using hssf) (by simp [ha.ssDone]) hsub hss
  have h2 := pDecide_cases cfg.flags g t ht (s.modGen g fun x => { x with pStatus := t.code })
  rw [hr] at h2
  have hp : pTerm cfg g t s = pSubnUnsub g (subjTerm cfg.flags g t (pDecide cfg.flags g t (s.modGen g fun x => { x with pStatus := t.code }))) := by
    unfold pTerm
    rw [if_pos ha.pStatus]
  rw [hp]
  have hsubj2 : (pDecide cfg.flags g t (s.modGen g fun x => { x with pStatus := t.code })).subject =
      (if cfg.flags.resetsOn t then none else some g) := by
    rw [pDecide_eq _ _ _ ht]
    split
    · rw [hr]; rfl
    · cases t <;> exact hsub
  generalize pDecide cfg.flags g t (s.modGen g fun x => { x with pStatus := t.code }) = s2 at h2 hsubj2
  have hopen : (s2.gens g).subj.status = Status.open := by
    rcases h2 with k | k | k <;> rw [k] <;> simp [termResetState, ha.isOpen]
  obtain ⟨hT, hng, hns, hgens, hps, hpd, hpf, hup, hut, hst3, hmode⟩ := tinv_start t ht hi hsub ha s2 h2 _ rfl
  have hst : subjTerm cfg.flags g t s2 = subjClear g (bcastTerm cfg.flags g t (s2.modGen g fun x => { x with subj := { x.subj with status := Status.ofTerminal t } })) := by
    unfold subjTerm
    rw [hopen]
  rw [hst]
  have hsubj3 : (s2.modGen g fun x => { x with subj := { x.subj with status := Status.ofTerminal t } }).subject = s2.subject := rfl
  generalize (s2.modGen g fun x => { x with subj := { x.subj with status := Status.ofTerminal t } }) = s3 at *
  obtain ⟨h4, f4, c4⟩ := bcast_tinv (fl := cfg.flags) t ht ((s3.gens g).subj.obs) hT
    (fun i hi' => by rw [hT.obs] at hi'; exact (mem_openSubs.mp hi').1)
  have hb : bcastTerm cfg.flags g t s3 = ((s3.gens g).subj.obs).foldl (fun s i => dTerm cfg.flags i t s) s3 := rfl
  rw [hb]
  generalize ((s3.gens g).subj.obs).foldl (fun s i => dTerm cfg.flags i t s) s3 = s4 at *
  have hallclosed : ∀ k, k < s4.nsubs → (s4.subs k).status ≠ 0 := by
    intro k hk
    by_cases hk3 : (s3.subs k).status = 0
    · apply c4
      rw [hT.obs]
      exact mem_openSubs.mpr ⟨by rw [← f4.nsubs]; exact hk, hk3⟩
    · exact f4.mono k hk3
  have hno4 : openSubs s4 = [] := openSubs_eq_nil.mpr hallclosed
  -- the pending creator (if any) is closed now
  have hpend4 : pendClosed (P.xa g) s4 = (if P.ug = some g then 1 else 0) := by
    unfold Pend.xa
    split
    next he =>
      obtain ⟨_, _, A, hA, _, _⟩ := ha.unf he
      have hltA := (h4.openedU A (by simp [Pend.xa, he, hA])).1
      simp [pendClosed, hA, hallclosed A hltA]
    next => rfl
  have hcnew : (P.c + (if P.ug = some g then 1 else 0) : Nat) = (P.afterTerm g).c := by
    unfold Pend.afterTerm
    split
    next he =>
      obtain ⟨_, _, A, hA, _, _⟩ := ha.unf he
      simp [Pend.c, Pend.drop, he, hA]
    next => simp
  have hug' : (P.afterTerm g).ug = P.ug := by unfold Pend.afterTerm; split <;> rfl
  have hua' : (P.afterTerm g).ua = none := by
    unfold Pend.afterTerm
    split
    · rfl
    next he =>
      cases h : P.ua with
      | none => rfl
      | some A => exact absurd ((hi.uab A h).1.trans hsub) he
  -- the final state
  have e6 : pSubnUnsub g (subjClear g s4) =
      (subjClear g s4).modGen g fun x => { x with pDone := true, pFin := false, upTorn := (s.gens g).pFin || x.upTorn } := by
    have hd4 : ((subjClear g s4).gens g).pDone = false := by simp [subjClear, f4.pDone, hpd]
    have hf4 : ((subjClear g s4).gens g).pFin = (s.gens g).pFin := by simp [subjClear, f4.pFin, hpf]
    unfold pSubnUnsub
    rw [if_neg (by simp [hd4])]
    cases hpf0 : (s.gens g).pFin
    · rw [if_neg (by simp [hf4, hpf0])]
      simp only [St.modGen]
      congr 1
      funext k
      by_cases hk : k = g
      · subst hk
        have hpk : ((subjClear k s4).gens k).pFin = false := by rw [hf4, hpf0]
        simp only [if_true, Bool.false_or]
        cases hgk : (subjClear k s4).gens k
        simp [hgk] at hpk
        simp [hpk]
      · simp [hk]
    · rw [if_pos (by simp [hf4, hpf0])]
      simp
  rw [e6]
  have hos6 : openSubs ((subjClear g s4).modGen g fun x => { x with pDone := true, pFin := false, upTorn := (s.gens g).pFin || x.upTorn }) = openSubs s4 :=
    openSubs_congr rfl (fun i _ => Iff.rfl)
  have hut6 : (((subjClear g s4).modGen g fun x => { x with pDone := true, pFin := false, upTorn := (s.gens g).pFin || x.upTorn }).gens g).upTorn = (s.gens g).pFin := by
    simp [subjClear, f4.upTorn, hut]
  refine ⟨?_, by simp [subjClear, f4.ngens, hng], by simp [subjClear, f4.nsubs, hns],
    fun hne => by rw [hut6]; exact (ha.fin hne).1,
    fun k hkg => by simp [subjClear, hkg, f4.gens k hkg, hgens k hkg],
    by simp [subjClear, f4.subject, hsubj3, hsubj2], by rw [hos6]; exact hno4⟩
  constructor
  case shared => simp [subjClear]; exact h4.shared
  case closed =>
    intro i hlt hs
    exact h4.closed i hlt hs
  case stale =>
    intro k hk hne hu
    rw [hug'] at hu
    by_cases hkg : k = g
    · subst hkg
      rcases hmode with ⟨hsn, _, _, hsd, hsf⟩ | ⟨hsg, _⟩
      · constructor <;> simp [subjClear, f4.pStatus, hps, hc, f4.upSub, hup, f4.ssFins, hsf, f4.ssDone, hsd, f4.upTorn, hut, (ha.fin hu).1]
      · exfalso
        apply hne
        simp [subjClear, f4.subject, hsg]
    · have : ((subjClear g s4).modGen g fun x => { x with pDone := true, pFin := false, upTorn := (s.gens g).pFin || x.upTorn }).gens k = s.gens k := by
        simp [subjClear, hkg, f4.gens k hkg, hgens k hkg]
      rw [this]
      apply hi.stale k
      · simp [subjClear, f4.ngens, hng] at hk; exact hk
      · rw [hsub]; intro h; exact hkg (Option.some.inj h).symm
      · exact hu
  case ended =>
    intro k hk hne hu
    rw [hug'] at hu
    refine ⟨?_, hua'⟩
    by_cases hkg : k = g
    · subst hkg
      rcases hmode with ⟨hsn, _, _, hsd, hsf⟩ | ⟨hsg, _⟩
      · constructor <;> simp [subjClear, f4.pStatus, hps, hc, f4.upSub, hup, f4.ssFins, hsf, f4.ssDone, hsd, f4.upTorn, hut, (ha.unf hu).1]
      · exfalso
        apply hne
        simp [subjClear, f4.subject, hsg]
    · have : ((subjClear g s4).modGen g fun x => { x with pDone := true, pFin := false, upTorn := (s.gens g).pFin || x.upTorn }).gens k = s.gens k := by
        simp [subjClear, hkg, f4.gens k hkg, hgens k hkg]
      rw [this]
      refine (hi.ended k ?_ ?_ hu).1
      · simp [subjClear, f4.ngens, hng] at hk; exact hk
      · rw [hsub]; intro h; exact hkg (Option.some.inj h).symm
  case count =>
    rw [hos6, ← hcnew]
    have := h4.count
    rw [hpend4] at this
    simp [subjClear]
    rw [this]
    omega
  case idle =>
    intro hn
    simp [subjClear, f4.subject] at hn
    rcases hmode with ⟨_, hfe, hfc, _, _⟩ | ⟨hsg, _⟩
    · refine ⟨by simp [subjClear, f4.flagE, hfe], by simp [subjClear, f4.flagC, hfc], ?_⟩
      rw [hos6]; exact hno4
    · rw [hsg] at hn; cases hn
  case cur =>
    intro g' hg'
    simp [subjClear, f4.subject] at hg'
    rcases hmode with ⟨hsn, _⟩ | ⟨hsg, hfl, hsd, hsf⟩
    · rw [hsn] at hg'; cases hg'
    · rw [hsg] at hg'
      have : g' = g := (Option.some.inj hg').symm
      subst this
      refine ⟨by simp [subjClear, f4.ngens, hng]; exact hg, Or.inr ?_⟩
      constructor
      case noOpen => rw [hos6]; exact hno4
      case closed => simp [subjClear, f4.gStatus, hst3]; exact hterm
      case fin =>
        intro hne
        rw [hug'] at hne
        simp [subjClear, f4.upTorn, hut, f4.ssFins, hsf, (ha.fin hne).1, (ha.fin hne).2]
      case unf =>
        intro he
        rw [hug'] at he
        simp [subjClear, f4.upTorn, hut, f4.ssFins, hsf, (ha.unf he).1, (ha.unf he).2.1, hua']
      all_goals simp [subjClear, f4.pStatus, hps, hc, f4.upSub, hup, f4.ssDone, hsd, f4.flagE, f4.flagC, hfl]
  case ugb =>
    intro k hk
    rw [hug'] at hk
    simp [subjClear, f4.ngens, hng]
    exact hi.ugb k hk
  case uab =>
    intro A hA
    rw [hua'] at hA; cases hA

/-! ### the probe pushes a notification -/

/-- a notification reaches the proxy of the live current generation -/
theorem inv_pEmit {cfg : Cfg} {P : Pend} {s : St} {g : Nat} (x : Ev) (hi : Inv P s) (hsub : s.subject = some g) (ha : GenActive P s g) :
    ((Inv P (pEmit cfg g x s) ∧ (openSubs s = [] → openSubs (pEmit cfg g x s) = [])) ∨
     (Inv (P.afterTerm g) (pEmit cfg g x s) ∧ openSubs (pEmit cfg g x s) = [])) ∧
      (pEmit cfg g x s).ngens = s.ngens ∧ (pEmit cfg g x s).nsubs = s.nsubs ∧
      (∀ k, k ≠ g → (pEmit cfg g x s).upLive k = s.upLive k) := by
  cases x with
  | next v =>
    have hs := pNext_sim cfg g v s
    exact ⟨Or.inl ⟨hi.sim hs, fun h => by show openSubs (pNext cfg g v s) = []; rw [hs.openSubs]; exact h⟩, hs.ngens, hs.nsubs,
      fun k _ => by simp [St.upLive, pEmit, hs.upSub, hs.upTorn]⟩
  | error e =>
    obtain ⟨h1, h2, h3, _, h5, _, h7⟩ := inv_pTerm (cfg := cfg) (.error e) rfl hi hsub ha
    exact ⟨Or.inr ⟨h1, h7⟩, h2, h3, fun k hk => by simp [St.upLive, pEmit, h5 k hk]⟩
  | complete =>
    obtain ⟨h1, h2, h3, _, h5, _, h7⟩ := inv_pTerm (cfg := cfg) .complete rfl hi hsub ha
    exact ⟨Or.inr ⟨h1, h7⟩, h2, h3, fun k hk => by simp [St.upLive, pEmit, h5 k hk]⟩

/-- a closed proxy only feeds the drop hook -/
theorem pEmit_closed_sim (cfg : Cfg) (g : Nat) (x : Ev) {u : St} (h1 : (u.gens g).pStatus ≠ 0) (h2 : (u.gens g).pDone = true) :
    Sim u (pEmit cfg g x u) := by
  cases x <;> simp [pEmit, pNext, pTerm, h1, pSubnUnsub, h2] <;> exact sim_drop _ u

/-- which upstream subscriptions the probe still pushes to: the live current generation, and the
    pending generation (its teardown is not even registered) -/
theorem upLive_cases {P : Pend} {s : St} (hi : Inv P s) (k : Nat) (hk : k < s.ngens) (hl : s.upLive k = true) :
    (s.subject = some k ∧ GenActive P s k) ∨
    (P.ug = some k ∧ (s.gens k).pStatus ≠ 0 ∧ (s.gens k).pDone = true) := by
  by_cases hsub : s.subject = some k
  · rcases (hi.cur k hsub).2 with ha | hl'
    · exact Or.inl ⟨hsub, ha⟩
    · by_cases he : P.ug = some k
      · exact Or.inr ⟨he, hl'.pStatus, hl'.pDone⟩
      · simp [St.upLive, (hl'.fin he).1] at hl
  · by_cases he : P.ug = some k
    · have := (hi.ended k hk hsub he).1
      exact Or.inr ⟨he, this.pStatus, this.pDone⟩
    · have := hi.stale k hk hsub he
      simp [St.upLive, this.upTorn] at hl

/-- the invariant survives a push; a terminal on the pending generation closes its creator (and
    everybody else) -/
theorem inv_push (cfg : Cfg) (x : Ev) {P : Pend} {s : St} (hi : Inv P s) :
    Inv P (push cfg x s) ∨ (Inv P.drop (push cfg x s) ∧ openSubs (push cfg x s) = []) := by
  unfold push
  suffices h : ∀ (l : List Nat) (u : St), (Inv P u ∨ (Inv P.drop u ∧ openSubs u = [])) → u.ngens = s.ngens → (∀ k, k ∈ l → k < s.ngens) →
      (Inv P (l.foldl (fun s g => if s.upLive g then pEmit cfg g x s else s) u) ∨
       (Inv P.drop (l.foldl (fun s g => if s.upLive g then pEmit cfg g x s else s) u) ∧
        openSubs (l.foldl (fun s g => if s.upLive g then pEmit cfg g x s else s) u) = [])) from
    h _ s (Or.inl hi) rfl (fun k hk => List.mem_range.mp hk)
  intro l
  induction l with
  | nil => intro u hu _ _; exact hu
  | cons a l ih =>
    intro u hu hn hl
    rw [List.foldl_cons]
    have ha : a < u.ngens := by rw [hn]; exact hl a List.mem_cons_self
    have hrest : ∀ k, k ∈ l → k < s.ngens := fun k hk => hl k (List.mem_cons_of_mem _ hk)
    by_cases hlive : u.upLive a = true
    · rw [if_pos hlive]
      -- one step from a state satisfying `Inv Q`, Q ∈ {P, P.drop}
      have step : ∀ Q : Pend, Inv Q u →
          ((Inv Q (pEmit cfg a x u) ∧ (openSubs u = [] → openSubs (pEmit cfg a x u) = [])) ∨
           (Inv Q.drop (pEmit cfg a x u) ∧ openSubs (pEmit cfg a x u) = [])) ∧ (pEmit cfg a x u).ngens = u.ngens := by
        intro Q hq
        rcases upLive_cases hq a ha hlive with ⟨hsub, hact⟩ | ⟨_, h1, h2⟩
        · obtain ⟨h, hng, _, _⟩ := inv_pEmit (cfg := cfg) x hq hsub hact
          refine ⟨?_, hng⟩
          rcases h with h | ⟨h, hno⟩
          · exact Or.inl h
          · unfold Pend.afterTerm at h
            split at h
            · exact Or.inr ⟨h, hno⟩
            · exact Or.inl ⟨h, fun _ => hno⟩
        · have hsim := pEmit_closed_sim cfg a x h1 h2
          exact ⟨Or.inl ⟨hq.sim hsim, fun h => by rw [hsim.openSubs]; exact h⟩, hsim.ngens⟩
      rcases hu with hu | ⟨hu, hno⟩
      · obtain ⟨h, hng⟩ := step P hu
        refine ih _ ?_ (by rw [hng, hn]) hrest
        rcases h with ⟨h, _⟩ | h
        · exact Or.inl h
        · exact Or.inr h
      · obtain ⟨h, hng⟩ := step P.drop hu
        refine ih _ ?_ (by rw [hng, hn]) hrest
        rcases h with ⟨h, hk⟩ | ⟨h, hk⟩
        · exact Or.inr ⟨h, hk hno⟩
        · exact Or.inr ⟨by simpa [Pend.drop] using h, hk⟩
    · rw [if_neg hlive]
      exact ih _ hu hn hrest

/-! ### with nothing pending: the probe reaches exactly the live current generation -/

theorem upLive_iff {s : St} (hi : Inv Pend.idle s) (k : Nat) (hk : k < s.ngens) :
    s.upLive k = true ↔ (s.subject = some k ∧ GenActive Pend.idle s k) := by
  constructor
  · intro hl
    rcases upLive_cases hi k hk hl with h | ⟨h, _⟩
    · exact h
    · simp at h
  · intro ⟨_, ha⟩
    simp [St.upLive, ha.upSub, ha.upTorn]

theorem push_fold_none (cfg : Cfg) (x : Ev) (s : St) (n : Nat) (h : ∀ k, k < n → s.upLive k = false) :
    (List.range n).foldl (fun s g => if s.upLive g then pEmit cfg g x s else s) s = s := by
  induction n with
  | zero => rfl
  | succ n ih =>
    rw [List.range_succ, List.foldl_append, ih (fun k hk => h k (Nat.lt_succ_of_lt hk))]
    simp [h n (Nat.lt_succ_self n)]

theorem push_fold_one (cfg : Cfg) (x : Ev) (s : St) (g n : Nat) (hg : g < n) (hl : s.upLive g = true)
    (h : ∀ k, k < n → k ≠ g → s.upLive k = false)
    (h' : ∀ k, k < n → k ≠ g → (pEmit cfg g x s).upLive k = false) :
    (List.range n).foldl (fun s g => if s.upLive g then pEmit cfg g x s else s) s = pEmit cfg g x s := by
  induction n with
  | zero => omega
  | succ n ih =>
    rw [List.range_succ, List.foldl_append]
    by_cases hgn : g = n
    · subst hgn
      rw [push_fold_none cfg x s g (fun k hk => h k (Nat.lt_succ_of_lt hk) (by omega))]
      simp [hl]
    · rw [ih (by omega) (fun k hk => h k (Nat.lt_succ_of_lt hk)) (fun k hk => h' k (Nat.lt_succ_of_lt hk))]
      simp [h' n (Nat.lt_succ_self n) (fun h => hgn h.symm)]

/-- the probe reaches at most the proxy of the live current generation -/
theorem push_eq (cfg : Cfg) (x : Ev) {s : St} (hi : Inv Pend.idle s) :
    (∃ g, s.subject = some g ∧ GenActive Pend.idle s g ∧ push cfg x s = pEmit cfg g x s) ∨
    ((∀ k, k < s.ngens → s.upLive k = false) ∧ push cfg x s = s) := by
  by_cases hex : ∃ g, s.subject = some g ∧ GenActive Pend.idle s g
  · obtain ⟨g, hsub, ha⟩ := hex
    refine Or.inl ⟨g, hsub, ha, ?_⟩
    have hg := (hi.cur g hsub).1
    have hother : ∀ k, k < s.ngens → k ≠ g → s.upLive k = false := by
      intro k hk hkg
      cases hl : s.upLive k with
      | false => rfl
      | true =>
        have := ((upLive_iff hi k hk).mp hl).1
        rw [hsub] at this
        exact absurd (Option.some.inj this).symm hkg
    obtain ⟨_, _, _, hfr⟩ := inv_pEmit (cfg := cfg) x hi hsub ha
    exact push_fold_one cfg x s g s.ngens hg ((upLive_iff hi g hg).mpr ⟨hsub, ha⟩) hother
      (fun k hk hkg => by rw [hfr k hkg]; exact hother k hk hkg)
  · refine Or.inr ⟨?_, ?_⟩
    · intro k hk
      cases hl : s.upLive k with
      | false => rfl
      | true => exact absurd ⟨k, (upLive_iff hi k hk).mp hl⟩ hex
    · apply push_fold_none
      intro k hk
      cases hl : s.upLive k with
      | false => rfl
      | true => exact absurd ⟨k, (upLive_iff hi k hk).mp hl⟩ hex

end Ro.Share

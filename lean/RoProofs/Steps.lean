/-
  RoProofs.Steps — C08, synchronous half: in a machine run every delivery happens *during* the
  call that caused it. `steps[k]` is the number of notifications delivered to the final observer
  while the k-th upstream notification was being handled (measured the same way by the harness:
  the length of the recorder's trace after each `Next`/`Error`/`Complete` call has returned).
  The theorem: nothing is delivered outside those calls — the delivered trace is exactly the
  subscribe-time emissions plus the per-call deliveries, call by call.
-/
import RoProofs.Gate
namespace Ro
variable {σ α β : Type}

theorem push_out_len_ge (r : RunSt σ α β) (n : Notif β) : r.out.length ≤ (r.push n).out.length := by
  unfold RunSt.push; split <;> simp

theorem pushAll_out_len_ge (r : RunSt σ α β) (ns : List (Notif β)) : r.out.length ≤ (r.pushAll ns).out.length := by
  induction ns generalizing r with
  | nil => exact Nat.le_refl _
  | cons n ns ih =>
    simp only [RunSt.pushAll, List.foldl] at *
    exact Nat.le_trans (push_out_len_ge r n) (ih (r.push n))

@[simp] theorem push_steps (r : RunSt σ α β) (n) : (r.push n).steps = r.steps := by
  unfold RunSt.push; split <;> rfl
@[simp] theorem pushAll_steps (r : RunSt σ α β) (ns) : (r.pushAll ns).steps = r.steps := by
  induction ns generalizing r with
  | nil => rfl
  | cons n ns ih => simp [RunSt.pushAll, List.foldl] at *; rw [ih]; simp

/-- one upstream notification: one more entry in `steps`, accounting exactly for the growth of `out` -/
theorem feed_steps (m : Machine σ α β) (mode) (r : RunSt σ α β) (x : Notif α) :
    ∃ k, (r.feed m mode x).steps = r.steps ++ [k] ∧ (r.feed m mode x).out.length = r.out.length + k := by
  unfold RunSt.feed
  split
  · refine ⟨(({ r with st := (m.step r.st x).1 } : RunSt σ α β).pushAll (m.step r.st x).2).out.length - r.out.length, ?_, ?_⟩
    · simp [RunSt.settle]
    · have := pushAll_out_len_ge ({ r with st := (m.step r.st x).1 } : RunSt σ α β) (m.step r.st x).2
      simp only [RunSt.settle]
      simp only at this
      omega
  · exact ⟨0, by simp, by simp⟩

theorem fold_steps (m : Machine σ α β) (mode) (raw : List (Notif α)) (r : RunSt σ α β) :
    ((raw.foldl (RunSt.feed m mode) r).steps.length = r.steps.length + raw.length) ∧
    ((raw.foldl (RunSt.feed m mode) r).out.length + r.steps.sum =
        r.out.length + (raw.foldl (RunSt.feed m mode) r).steps.sum) := by
  induction raw generalizing r with
  | nil => simp
  | cons x xs ih =>
    obtain ⟨k, hk1, hk2⟩ := feed_steps m mode r x
    have := ih (r.feed m mode x)
    simp only [List.foldl]
    constructor
    · rw [this.1, hk1]; simp; omega
    · have h2 := this.2
      rw [hk1, hk2] at h2
      simp at h2
      omega

/-- **C08 (synchronous half).** For every machine, raw script and source mode: there is exactly
    one `steps` entry per upstream call, and the delivered trace is accounted for entirely by the
    subscribe-time emissions plus what was delivered during each call — nothing is handed to a
    hidden queue or goroutine to be delivered later. -/
theorem runOp_steps (m : Machine σ α β) (mode : SrcMode) (sub : Ctx) (raw : List (Notif α))
    (hs : m.subscribes = true) :
    (runOp m mode sub raw).steps.length = raw.length ∧
    (runOp m mode sub raw).out.length = (m.start sub).out.length + (runOp m mode sub raw).steps.sum := by
  unfold runOp
  simp only [hs, if_true]
  have h := fold_steps m mode raw ((m.start sub).afterSubscribe mode)
  have h0 : ((m.start sub).afterSubscribe mode).steps = [] := by
    unfold RunSt.afterSubscribe; split <;> simp [Machine.start]
  have h1 : ((m.start sub).afterSubscribe mode).out = (m.start sub).out := by
    unfold RunSt.afterSubscribe; split <;> rfl
  rw [h0, h1] at h
  simp at h
  exact ⟨h.1, by omega⟩

end Ro

/-
  RoProofs.ShareSub — the `sub` event of RoModel.Share preserves `Inv`: joining a live generation,
  meeting a latched one, and creating a generation (R1, R2, R3 with a synchronous prefix, including
  the nil dereference of `sourceSubscription`).
-/
import RoProofs.ShareInv
namespace Ro.Share
attribute [local simp] St.modGen St.modSub St.drop

/-! ### a new subscriber joins the current generation -/

/-- control state after a subscriber joined the live generation `g` -/
def joinState (g : Nat) (s : St) : St :=
  { s with refCount := s.refCount + 1, nsubs := s.nsubs + 1,
           subs := fun k => if k = s.nsubs then { status := 0, trace := [], done := false, delFin := some g, tearFin := some g } else s.subs k,
           gens := fun k => if k = g then { (s.gens g) with subj := { (s.gens g).subj with obs := (s.gens g).subj.obs ++ [s.nsubs] } } else s.gens k }

theorem inv_joinState {P : Pend} {s : St} {g : Nat} (hi : Inv P s) (hsub : s.subject = some g) (ha : GenActive P s g) :
    Inv P (joinState g s) ∧ GenActive P (joinState g s) g := by
  have hos : openSubs (joinState g s) = openSubs s ++ [s.nsubs] :=
    openSubs_new (s := s) (s' := joinState g s) rfl (by simp [joinState])
      (fun k hk => by have : k ≠ s.nsubs := by omega
                      simp [joinState, this])
  have hother : ∀ k, k ≠ s.nsubs → (joinState g s).subs k = s.subs k := by
    intro k hk; simp [joinState, hk]
  have hgother : ∀ k, k ≠ g → (joinState g s).gens k = s.gens k := by
    intro k hk; simp [joinState, hk]
  have hact : GenActive P (joinState g s) g := by
    constructor
    case obs => rw [hos]; simp [joinState, ha.obs]
    case fin => intro hne; simp [joinState]; exact ha.fin hne
    case unf =>
      intro he
      obtain ⟨h1, h2, A, hA, hltA, hu⟩ := ha.unf he
      have hAn : A ≠ s.nsubs := by omega
      exact ⟨by simp [joinState]; exact h1, by simp [joinState]; exact h2, A, hA, by simp [joinState]; omega,
        by rw [hother A hAn]; exact hu⟩
    case subs =>
      intro k hk hks hne
      by_cases hki : k = s.nsubs
      · subst hki; constructor <;> simp [joinState]
      · rw [hother k hki] at hks ⊢
        exact ha.subs k (by simp [joinState] at hk; omega) hks hne
    all_goals (simp [joinState]; first | exact ha.pStatus | exact ha.pDone | exact ha.upSub | exact ha.upTorn | exact ha.ssDone | exact ha.isOpen | exact ha.flagE | exact ha.flagC)
  refine ⟨?_, hact⟩
  constructor
  case shared => exact hi.shared
  case closed =>
    intro k hk hks
    by_cases hki : k = s.nsubs
    · subst hki; simp [joinState] at hks
    · rw [hother k hki] at hks ⊢
      exact hi.closed k (by simp [joinState] at hk; omega) hks
  case stale =>
    intro k hk hne hu
    have hkg : k ≠ g := fun h => hne (by rw [h]; exact hsub)
    rw [hgother k hkg]
    exact hi.stale k hk hne hu
  case ended =>
    intro k hk hne hu
    have hkg : k ≠ g := fun h => hne (by rw [h]; exact hsub)
    rw [hgother k hkg]
    exact hi.ended k hk hne hu
  case count =>
    rw [hos]
    have := hi.count
    simp [joinState]
    omega
  case idle =>
    intro hn
    simp [joinState, hsub] at hn
  case cur =>
    intro g' hg'
    have : g' = g := by
      have : (joinState g s).subject = s.subject := rfl
      rw [this, hsub] at hg'
      exact (Option.some.inj hg').symm
    subst this
    exact ⟨(hi.cur g' hsub).1, Or.inl hact⟩
  case ugb => exact hi.ugb
  case uab => exact hi.uab

theorem needsNew_iff {P : Pend} {s : St} (hi : Inv P s) : needsNew s = true ↔ s.subject = none := by
  unfold needsNew
  rw [hi.shared]
  cases s.subject <;> simp

theorem subscribe_join_active (cfg : Cfg) {P : Pend} {s : St} {g : Nat} (hi : Inv P s) (hsub : s.subject = some g) (ha : GenActive P s g) :
    Sim (joinState g s) (subscribe cfg s) := by
  have hnn : needsNew s = false := by
    cases h : needsNew s with
    | false => rfl
    | true => rw [(needsNew_iff hi).mp h] at hsub; cases hsub
  have hnn' : needsNew (newSub s) = false := hnn
  have e1 : r1 cfg (newSub s) = { (newSub s) with refCount := s.refCount + 1 } := by
    simp [r1, hnn']; rfl
  have hR := subjReplay_sim cfg.conn g s.nsubs (r1 cfg (newSub s))
  have hL := hR.trans (subjLast_sim cfg.conn g s.nsubs _)
  have hopen : ((subjReplay cfg.conn g s.nsubs (r1 cfg (newSub s))).gens g).subj.status = Status.open := by
    rw [hR.gStatus, e1]; exact ha.isOpen
  have hsubscribe : subscribe cfg s = addTeardown cfg.flags s.nsubs g (subjRegister g s.nsubs
      (subjLast cfg.conn g s.nsubs (subjReplay cfg.conn g s.nsubs (r1 cfg (newSub s))))) := by
    simp only [subscribe, hnn, hsub, Option.getD_some, subjSubscribe, hopen]
    simp
  rw [hsubscribe]
  generalize subjLast cfg.conn g s.nsubs (subjReplay cfg.conn g s.nsubs (r1 cfg (newSub s))) = sL at hL
  rw [e1] at hL
  have hd : (sL.subs s.nsubs).done = false := by rw [hL.done]; simp [newSub]
  constructor
  all_goals intros
  all_goals simp [addTeardown, subjRegister, hd, joinState, hL.refCount, hL.subject, hL.sourceSubscription, hL.flagE, hL.flagC, hL.ngens, hL.nsubs, newSub]
  all_goals (try split)
  all_goals simp_all [hL.status, hL.done, hL.delFin, hL.tearFin, hL.gStatus, hL.gObs, hL.ssDone, hL.ssFins, hL.pStatus, hL.pDone, hL.pFin, hL.upSub, hL.upTorn, newSub]

/-! ### a new subscriber meets a latched (terminated, not reset) generation -/

/-- control state after a subscriber was served the stored terminal at once -/
def lateState (c : Nat) (s : St) : St :=
  { s with nsubs := s.nsubs + 1,
           subs := fun k => if k = s.nsubs then { status := c, trace := [], done := true, delFin := none, tearFin := none } else s.subs k }

theorem inv_lateState {P : Pend} {s : St} {g : Nat} {c : Nat} (hc : c ≠ 0) (hi : Inv P s) (hsub : s.subject = some g) (hl : GenLatched P s g) :
    Inv P (lateState c s) ∧ GenLatched P (lateState c s) g := by
  have hos : openSubs (lateState c s) = openSubs s :=
    openSubs_new_closed (s := s) (s' := lateState c s) rfl (by simp [lateState, hc])
      (fun k hk => by have : k ≠ s.nsubs := by omega
                      simp [lateState, this])
  have hlat : GenLatched P (lateState c s) g :=
    { pStatus := hl.pStatus, pDone := hl.pDone, pFin := hl.pFin, upSub := hl.upSub, ssDone := hl.ssDone,
      closed := hl.closed, obs := hl.obs, flag := hl.flag, noOpen := by rw [hos]; exact hl.noOpen,
      fin := hl.fin, unf := hl.unf }
  refine ⟨?_, hlat⟩
  constructor
  case shared => exact hi.shared
  case closed =>
    intro k hk hks
    by_cases hki : k = s.nsubs
    · subst hki; constructor <;> simp [lateState, hc]
    · have : (lateState c s).subs k = s.subs k := by simp [lateState, hki]
      rw [this] at hks ⊢
      exact hi.closed k (by simp [lateState] at hk; omega) hks
  case stale => exact hi.stale
  case ended => exact hi.ended
  case count => rw [hos]; exact hi.count
  case idle =>
    intro hn
    have : (lateState c s).subject = s.subject := rfl
    rw [this, hsub] at hn; cases hn
  case cur =>
    intro g' hg'
    have : g' = g := by
      have : (lateState c s).subject = s.subject := rfl
      rw [this, hsub] at hg'
      exact (Option.some.inj hg').symm
    subst this
    exact ⟨(hi.cur g' hsub).1, Or.inr hlat⟩
  case ugb => exact hi.ugb
  case uab => exact hi.uab

theorem zeroReset_flag {fl : Flags} {g : Nat} {s : St} (h : s.flagE = true ∨ s.flagC = true) : zeroReset fl g s = s := by
  unfold zeroReset
  rcases h with h | h <;> simp [h]

/-- a subscriber that is served a stored terminal inside the subject's `Subscribe`, and whose
    Share teardown therefore runs as soon as it is `Add`ed; no reset because a flag is latched -/
theorem late_effect (fl : Flags) (i g : Nat) (t : Ev) (ht : t.isTerminal = true) (u : St)
    (h0 : (u.subs i).status = 0) (hd : (u.subs i).done = false) (hdf : (u.subs i).delFin = none)
    (htf : (u.subs i).tearFin = none) (hflag : u.flagE = true ∨ u.flagC = true) :
    addTeardown fl i g (dTerm fl i t u) =
      { u with subs := fun k => if k = i then { status := t.code, trace := (u.subs i).trace ++ [t], done := true, delFin := none, tearFin := none } else u.subs k,
               refCount := u.refCount - 1 } := by
  have hc : t.code ≠ 0 := by cases t <;> simp [Ev.code, Ev.isTerminal] at *
  have hD : dTerm fl i t u = { u with subs := fun k => if k = i then { status := t.code, trace := (u.subs i).trace ++ [t], done := true, delFin := none, tearFin := none } else u.subs k } := by
    simp [dTerm, dDeliver, h0, dSubnUnsub, hd, hdf, htf, runDel, runTear]
    funext k
    split <;> simp_all
  rw [hD]
  simp only [addTeardown, if_pos]
  simp [teardownT, casClose, hc, decRef]
  rw [zeroReset_flag (by exact hflag)]

theorem subscribe_join_latched (cfg : Cfg) {P : Pend} {s : St} {g : Nat} (hi : Inv P s) (hsub : s.subject = some g) (hl : GenLatched P s g) :
    ∃ c, c ≠ 0 ∧ Sim (lateState c s) (subscribe cfg s) := by
  have hnn : needsNew s = false := by
    cases h : needsNew s with
    | false => rfl
    | true => rw [(needsNew_iff hi).mp h] at hsub; cases hsub
  have hnn' : needsNew (newSub s) = false := hnn
  have e1 : r1 cfg (newSub s) = { (newSub s) with refCount := s.refCount + 1 } := by
    simp [r1, hnn']; rfl
  have hR := subjReplay_sim cfg.conn g s.nsubs (r1 cfg (newSub s))
  have hstat : ((subjReplay cfg.conn g s.nsubs (r1 cfg (newSub s))).gens g).subj.status = (s.gens g).subj.status := by
    rw [hR.gStatus, e1]; rfl
  have hsubscribe : subscribe cfg s = addTeardown cfg.flags s.nsubs g (subjSubscribe cfg g s.nsubs (r1 cfg (newSub s))) := by
    simp only [subscribe, hnn, hsub, Option.getD_some]
    simp
  rw [hsubscribe]
  unfold subjSubscribe
  rw [hstat]
  generalize subjReplay cfg.conn g s.nsubs (r1 cfg (newSub s)) = sR at hR
  rw [e1] at hR
  have h0 : (sR.subs s.nsubs).status = 0 := by rw [hR.status]; simp [newSub]
  have hd : (sR.subs s.nsubs).done = false := by rw [hR.done]; simp [newSub]
  have hdf : (sR.subs s.nsubs).delFin = none := by rw [hR.delFin]; simp [newSub]
  have htf : (sR.subs s.nsubs).tearFin = none := by rw [hR.tearFin]; simp [newSub]
  have hfl : sR.flagE = true ∨ sR.flagC = true := by
    rw [hR.flagE, hR.flagC]; exact hl.flag
  have hcl := hl.closed
  have key : ∀ t : Ev, t.isTerminal = true → Sim (lateState t.code s) (addTeardown cfg.flags s.nsubs g (dTerm cfg.flags s.nsubs t sR)) := by
    intro t ht
    have hc : t.code ≠ 0 := by cases t <;> simp [Ev.code, Ev.isTerminal] at *
    rw [late_effect cfg.flags s.nsubs g t ht sR h0 hd hdf htf hfl]
    constructor
    all_goals intros
    all_goals simp [lateState, hR.refCount, hR.subject, hR.sourceSubscription, hR.flagE, hR.flagC, hR.ngens, hR.nsubs, newSub]
    all_goals (try split)
    all_goals simp_all [hR.status, hR.done, hR.delFin, hR.tearFin, hR.gStatus, hR.gObs, hR.ssDone, hR.ssFins, hR.pStatus, hR.pDone, hR.pFin, hR.upSub, hR.upTorn, newSub]
  cases hst : (s.gens g).subj.status with
  | «open» => exact absurd hst hcl
  | errored e => exact ⟨1, by decide, key (.error e) rfl⟩
  | completed => exact ⟨2, by decide, key .complete rfl⟩

/-! ### the first subscriber of a generation: R3 with a synchronous prefix -/

/-- rewrite every control field of `s'` into the one of `s` -/
macro "sim_rw" h:ident : tactic => `(tactic| simp only [($h).refCount, ($h).subject, ($h).sourceSubscription, ($h).flagE,
  ($h).flagC, ($h).ngens, ($h).nsubs, ($h).status, ($h).done, ($h).delFin, ($h).tearFin, ($h).gStatus, ($h).gObs,
  ($h).ssDone, ($h).ssFins, ($h).pStatus, ($h).pDone, ($h).pFin, ($h).upSub, ($h).upTorn])

/-- the older generations while generation `g` is being created: all reset, except possibly the
    pending one of an enclosing `Subscribe` (`P`), which has ended but is not torn down yet -/
structure FOuter (P : Pend) (g : Nat) (u : St) : Prop where
  stale : ∀ k, k < g → P.ug ≠ some k → GenStale (u.gens k)
  ended : ∀ k, k < g → P.ug = some k → GenEnded (u.gens k)
  pua : P.ua = none
  pug : ∀ k, P.ug = some k → k < g

theorem FOuter.sim {P : Pend} {g : Nat} {u u' : St} (h : Sim u u') (c : FOuter P g u) : FOuter P g u' :=
  ⟨fun k hk hu => (c.stale k hk hu).sim h, fun k hk hu => (c.ended k hk hu).sim h, c.pua, c.pug⟩

theorem FOuter.frame {P : Pend} {g : Nat} {u u' : St} (c : FOuter P g u) (h : ∀ k, k < g → u'.gens k = u.gens k) : FOuter P g u' :=
  ⟨fun k hk hu => by rw [h k hk]; exact c.stale k hk hu, fun k hk hu => by rw [h k hk]; exact c.ended k hk hu, c.pua, c.pug⟩

/-- common to the three phases of R3 for generation `g` created by subscriber `i` -/
structure FCommon (P : Pend) (g i : Nat) (u : St) : Prop where
  shared : u.sourceSubscription = u.subject
  ngens : u.ngens = g + 1
  nsubs : u.nsubs = i + 1
  stale : FOuter P g u
  closed : ∀ k, k < i → SubClosed (u.subs k)
  count : u.refCount = (1 + P.c : Nat)
  upSub : (u.gens g).upSub = true
  upTorn : (u.gens g).upTorn = false
  pFin : (u.gens g).pFin = false
  ssFins : (u.gens g).ssFins = []
  tearFin : (u.subs i).tearFin = none

/-- the prefix has not terminated: proxy open, the creator registered on the fresh subject -/
structure FLive (P : Pend) (g i : Nat) (u : St) : Prop extends FCommon P g i u where
  subject : u.subject = some g
  flagE : u.flagE = false
  flagC : u.flagC = false
  pStatus : (u.gens g).pStatus = 0
  pDone : (u.gens g).pDone = false
  ssDone : (u.gens g).ssDone = false
  isOpen : (u.gens g).subj.status = Status.open
  obs : (u.gens g).subj.obs = [i]
  status : (u.subs i).status = 0
  done : (u.subs i).done = false
  delFin : (u.subs i).delFin = some g

/-- the prefix terminated and the configuration reset on it: the shared pair is already nil -/
structure FReset (P : Pend) (g i : Nat) (u : St) : Prop extends FCommon P g i u where
  subject : u.subject = none
  flagE : u.flagE = false
  flagC : u.flagC = false
  pStatus : (u.gens g).pStatus ≠ 0
  pDone : (u.gens g).pDone = true
  ssDone : (u.gens g).ssDone = true
  obs : (u.gens g).subj.obs = []
  sub : SubClosed (u.subs i)

/-- the prefix terminated and the configuration does not reset on it -/
structure FLatch (P : Pend) (g i : Nat) (u : St) : Prop extends FCommon P g i u where
  subject : u.subject = some g
  flag : u.flagE = true ∨ u.flagC = true
  pStatus : (u.gens g).pStatus ≠ 0
  pDone : (u.gens g).pDone = true
  ssDone : (u.gens g).ssDone = false
  closedSubj : (u.gens g).subj.status ≠ Status.open
  obs : (u.gens g).subj.obs = []
  sub : SubClosed (u.subs i)

theorem FCommon.sim {P : Pend} {g i : Nat} {u u' : St} (h : Sim u u') (c : FCommon P g i u) : FCommon P g i u' := by
  obtain ⟨c1, c2, c3, c4, c5, c6, c7, c8, c9, c10, c11⟩ := c
  constructor
  case stale => exact c4.sim h
  case closed => exact fun k hk => (c5 k hk).sim h
  all_goals sim_rw h
  all_goals assumption

theorem FLive.sim {P : Pend} {g i : Nat} {u u' : St} (h : Sim u u') (c : FLive P g i u) : FLive P g i u' := by
  obtain ⟨c0, c1, c2, c3, c4, c5, c6, c7, c8, c9, c10, c11⟩ := c
  refine ⟨c0.sim h, ?_, ?_, ?_, ?_, ?_, ?_, ?_, ?_, ?_, ?_, ?_⟩
  all_goals sim_rw h
  all_goals assumption

theorem FReset.sim {P : Pend} {g i : Nat} {u u' : St} (h : Sim u u') (c : FReset P g i u) : FReset P g i u' := by
  obtain ⟨c0, c1, c2, c3, c4, c5, c6, c7, c8⟩ := c
  refine ⟨c0.sim h, ?_, ?_, ?_, ?_, ?_, ?_, ?_, c8.sim h⟩
  all_goals sim_rw h
  all_goals assumption

theorem FLatch.sim {P : Pend} {g i : Nat} {u u' : St} (h : Sim u u') (c : FLatch P g i u) : FLatch P g i u' := by
  obtain ⟨c0, c1, c2, c3, c4, c5, c6, c7, c8⟩ := c
  refine ⟨c0.sim h, ?_, ?_, ?_, ?_, ?_, ?_, ?_, c8.sim h⟩
  all_goals sim_rw h
  all_goals assumption

/-- state after the synchronous prefix terminated inside R3 (before the decision's effect on the
    shared pair / flags) -/
def syncTermState (t : Ev) (i g : Nat) (u : St) : St :=
  { u with subs := fun k => if k = i then { status := t.code, trace := (u.subs i).trace ++ [t], done := true, delFin := none, tearFin := none } else u.subs k,
           gens := fun k => if k = g then { (u.gens g) with pStatus := t.code, pDone := true, subj := { (u.gens g).subj with status := Status.ofTerminal t, obs := [] } } else u.gens k }

theorem reset_fresh {s : St} {g : Nat} (h1 : (s.gens g).ssFins = []) (h5 : (s.gens g).ssDone = false)
    (h6 : s.subject = some g) (h7 : s.sourceSubscription = some g) :
    reset g s = { s with subject := none, sourceSubscription := none,
                         gens := fun k => if k = g then { (s.gens g) with ssDone := true } else s.gens k } := by
  simp [reset, clearShared, ssUnsub, h5, h1, h6, h7]
  funext k
  split <;> simp_all

theorem flive_pTerm (cfg : Cfg) {P : Pend} {g i : Nat} {u : St} (t : Ev) (ht : t.isTerminal = true) (h : FLive P g i u) :
    (cfg.flags.resetsOn t = true ∧ pTerm cfg g t u = { (syncTermState t i g u) with subject := none, sourceSubscription := none, gens := fun k => if k = g then { ((syncTermState t i g u).gens g) with ssDone := true } else (syncTermState t i g u).gens k }) ∨
    (cfg.flags.resetsOn t = false ∧ pTerm cfg g t u = { (syncTermState t i g u) with flagE := true }) ∨
    (cfg.flags.resetsOn t = false ∧ pTerm cfg g t u = { (syncTermState t i g u) with flagC := true }) := by
  have hc : t.code ≠ 0 := by cases t <;> simp [Ev.code, Ev.isTerminal] at *
  have hpf := h.pFin
  have hsf := h.ssFins
  have hss : u.sourceSubscription = some g := by rw [h.shared]; exact h.subject
  have hr := reset_fresh (s := u.modGen g fun x => { x with pStatus := t.code }) (g := g) (by simp [hsf]) (by simp [h.ssDone]) h.subject hss
  have hd := pDecide_cases' cfg.flags g t ht (u.modGen g fun x => { x with pStatus := t.code })
  rw [hr] at hd
  unfold pTerm
  rw [if_pos h.pStatus]
  rcases hd with ⟨hf, hd⟩ | ⟨hf, hd⟩ | ⟨hf, hd⟩
  · left
    refine ⟨hf, ?_⟩
    rw [hd]
    simp [subjTerm, h.isOpen, bcastTerm, h.obs, dTerm, dDeliver, h.status, dSubnUnsub, h.done, h.delFin, h.tearFin, runDel, runTear,
      subjClear, pSubnUnsub, h.pDone, hpf, syncTermState]
    refine ⟨?_, ?_⟩ <;> funext k <;> split <;> simp_all
  · right; left
    refine ⟨hf, ?_⟩
    rw [hd]
    simp [subjTerm, h.isOpen, bcastTerm, h.obs, dTerm, dDeliver, h.status, dSubnUnsub, h.done, h.delFin, h.tearFin, runDel, runTear,
      subjClear, pSubnUnsub, h.pDone, hpf, syncTermState]
    refine ⟨?_, ?_⟩ <;> funext k <;> split <;> simp_all
  · right; right
    refine ⟨hf, ?_⟩
    rw [hd]
    simp [subjTerm, h.isOpen, bcastTerm, h.obs, dTerm, dDeliver, h.status, dSubnUnsub, h.done, h.delFin, h.tearFin, runDel, runTear,
      subjClear, pSubnUnsub, h.pDone, hpf, syncTermState]
    refine ⟨?_, ?_⟩ <;> funext k <;> split <;> simp_all
theorem flive_pTerm_phase (cfg : Cfg) {P : Pend} {g i : Nat} {u : St} (t : Ev) (ht : t.isTerminal = true) (h : FLive P g i u) :
    (cfg.flags.resetsOn t = true ∧ FReset P g i (pTerm cfg g t u)) ∨ (cfg.flags.resetsOn t = false ∧ FLatch P g i (pTerm cfg g t u)) := by
  have hc : t.code ≠ 0 := by cases t <;> simp [Ev.code, Ev.isTerminal] at *
  have hterm : Status.ofTerminal t ≠ Status.open := by cases t <;> simp [Status.ofTerminal, Ev.isTerminal] at *
  have hstale : FOuter P g (syncTermState t i g u) := by
    apply h.stale.frame
    intro k hk
    have : k ≠ g := by omega
    simp [syncTermState, this]
  have hclosed : ∀ k, k < i → SubClosed ((syncTermState t i g u).subs k) := by
    intro k hk
    have : k ≠ i := by omega
    simp [syncTermState, this]
    exact h.closed k hk
  have hsub : SubClosed ((syncTermState t i g u).subs i) := by
    constructor <;> simp [syncTermState, hc]
  have hss : u.sourceSubscription = some g := by rw [h.shared]; exact h.subject
  rcases flive_pTerm cfg t ht h with ⟨hf, e⟩ | ⟨hf, e⟩ | ⟨hf, e⟩
  · left
    rw [e]
    refine ⟨hf, ⟨rfl, h.ngens, h.nsubs, ?_, hclosed, h.count, ?_, ?_, ?_, ?_, ?_⟩, rfl, h.flagE, h.flagC, ?_, ?_, ?_, ?_, hsub⟩
    · apply hstale.frame
      intro k hk
      have : k ≠ g := by omega
      simp [this]
    all_goals simp [syncTermState, h.upSub, h.upTorn, h.pFin, h.ssFins, hc]
  · right
    rw [e]
    refine ⟨hf, ⟨h.shared, h.ngens, h.nsubs, hstale.frame (fun _ _ => rfl), hclosed, h.count, ?_, ?_, ?_, ?_, ?_⟩, h.subject, Or.inl rfl, ?_, ?_, ?_, ?_, ?_, hsub⟩
    all_goals simp [syncTermState, h.upSub, h.upTorn, h.pFin, h.ssFins, hc, h.ssDone, hterm]
  · right
    rw [e]
    refine ⟨hf, ⟨h.shared, h.ngens, h.nsubs, hstale.frame (fun _ _ => rfl), hclosed, h.count, ?_, ?_, ?_, ?_, ?_⟩, h.subject, Or.inr rfl, ?_, ?_, ?_, ?_, ?_, hsub⟩
    all_goals simp [syncTermState, h.upSub, h.upTorn, h.pFin, h.ssFins, hc, h.ssDone, hterm]

theorem playPre_reset (cfg : Cfg) {P : Pend} {g i : Nat} (pre : List Ev) {u : St} (h : FReset P g i u) : FReset P g i (playPre cfg g pre u) := by
  unfold playPre
  induction pre generalizing u with
  | nil => exact h
  | cons x xs ih => exact ih (h.sim (pEmit_closed_sim cfg g x h.pStatus h.pDone))

theorem playPre_latch (cfg : Cfg) {P : Pend} {g i : Nat} (pre : List Ev) {u : St} (h : FLatch P g i u) : FLatch P g i (playPre cfg g pre u) := by
  unfold playPre
  induction pre generalizing u with
  | nil => exact h
  | cons x xs ih => exact ih (h.sim (pEmit_closed_sim cfg g x h.pStatus h.pDone))

/-- after the prefix: still live, or already reset, or latched -/
theorem playPre_live (cfg : Cfg) {P : Pend} {g i : Nat} (pre : List Ev) {u : St} (h : FLive P g i u) :
    FLive P g i (playPre cfg g pre u) ∨ FReset P g i (playPre cfg g pre u) ∨ FLatch P g i (playPre cfg g pre u) := by
  induction pre generalizing u with
  | nil => exact Or.inl h
  | cons x xs ih =>
    have hstep : playPre cfg g (x :: xs) u = playPre cfg g xs (pEmit cfg g x u) := rfl
    rw [hstep]
    cases x with
    | next v => exact ih (h.sim (pNext_sim cfg g v u))
    | error e =>
      rcases flive_pTerm_phase cfg (.error e) rfl h with ⟨_, hr⟩ | ⟨_, hl⟩
      · exact Or.inr (Or.inl (playPre_reset cfg xs hr))
      · exact Or.inr (Or.inr (playPre_latch cfg xs hl))
    | complete =>
      rcases flive_pTerm_phase cfg .complete rfl h with ⟨_, hr⟩ | ⟨_, hl⟩
      · exact Or.inr (Or.inl (playPre_reset cfg xs hr))
      · exact Or.inr (Or.inr (playPre_latch cfg xs hl))

theorem openSubs_single {s : St} {i : Nat} (hn : s.nsubs = i + 1) (hcl : ∀ k, k < i → (s.subs k).status ≠ 0)
    (hi : (s.subs i).status = 0) : openSubs s = [i] := by
  unfold openSubs
  rw [hn, List.range_succ, List.filter_append]
  have : List.filter (fun i => decide ((s.subs i).status = 0)) (List.range i) = [] := by
    rw [List.filter_eq_nil_iff]
    intro a ha
    simp [hcl a (List.mem_range.mp ha)]
  rw [this]
  simp [hi]

theorem openSubs_none {s : St} {i : Nat} (hn : s.nsubs = i + 1) (hcl : ∀ k, k < i → (s.subs k).status ≠ 0)
    (hi : (s.subs i).status ≠ 0) : openSubs s = [] := by
  apply openSubs_eq_nil.mpr
  intro k hk
  by_cases hki : k = i
  · subst hki; exact hi
  · exact hcl k (by omega)

/-! ### after the prefix: the three ways R3 ends -/

def liveDone (i g : Nat) (u : St) : St :=
  { u with subs := fun k => if k = i then { (u.subs i) with tearFin := some g } else u.subs k,
           gens := fun k => if k = g then { (u.gens g) with pFin := true, ssFins := [g] } else u.gens k }

def latchDone (g : Nat) (u : St) : St :=
  { u with refCount := u.refCount - 1,
           gens := fun k => if k = g then { (u.gens g) with upTorn := true, ssFins := [g] } else u.gens k }

/-- the new generation `g` is not the pending one of an enclosing `Subscribe` -/
theorem FOuter.notPending {P : Pend} {g : Nat} {u : St} (c : FOuter P g u) : P.ug ≠ some g :=
  fun h => Nat.lt_irrefl g (c.pug g h)

theorem finish_live (fl : Flags) {P : Pend} {g i : Nat} {u : St} (h : FLive P g i u) :
    r3tail fl i g (upAddTeardown g u) = liveDone i g u ∧ Inv P (r3tail fl i g (upAddTeardown g u)) ∧ GenActive P (r3tail fl i g (upAddTeardown g u)) g ∧
      (r3tail fl i g (upAddTeardown g u)).subject = some g := by
  have hss : u.sourceSubscription = some g := by rw [h.shared]; exact h.subject
  have h1 := h.ssDone
  have h2 := h.ssFins
  have h3 := h.pDone
  have h4 := h.done
  have hnp := h.stale.notPending
  have e : r3tail fl i g (upAddTeardown g u) = liveDone i g u := by
    simp [r3tail, ssAdd, upAddTeardown, h.pDone, h.ssDone, addTeardown, h.done, h.ssFins, liveDone]
    refine ⟨?_, ?_⟩ <;> funext k <;> split <;> simp_all
  refine ⟨e, ?_⟩
  rw [e]
  generalize hF : liveDone i g u = F
  simp only [liveDone] at hF
  have hsubs : ∀ k, k ≠ i → F.subs k = u.subs k := by intro k hk; rw [← hF]; simp [hk]
  have hgens : ∀ k, k ≠ g → F.gens k = u.gens k := by intro k hk; rw [← hF]; simp [hk]
  have hst : ∀ k, (F.subs k).status = (u.subs k).status := by intro k; rw [← hF]; simp; split <;> simp_all
  have hcl : ∀ k, k < i → (F.subs k).status ≠ 0 := by
    intro k hk; rw [hst]; exact (h.closed k hk).status
  have hns : F.nsubs = i + 1 := by rw [← hF]; exact h.nsubs
  have hng : F.ngens = g + 1 := by rw [← hF]; exact h.ngens
  have hos : openSubs F = [i] := openSubs_single hns hcl (by rw [hst]; exact h.status)
  have hsubj : F.subject = some g := by rw [← hF]; exact h.subject
  have hact : GenActive P F g := by
    constructor
    case obs => rw [hos, ← hF]; simp [h.obs]
    case fin => intro _; rw [← hF]; simp
    case unf => intro he; exact absurd he hnp
    case subs =>
      intro k hk hks _
      have : k = i := by
        by_cases hki : k = i
        · exact hki
        · exact absurd hks (hcl k (by omega))
      subst this
      rw [← hF]
      constructor <;> simp [h.status, h.done, h.delFin]
    all_goals (rw [← hF]; simp [h.pStatus, h.pDone, h.upSub, h.upTorn, h.ssDone, h.isOpen, h.flagE, h.flagC])
  refine ⟨?_, hact, hsubj⟩
  constructor
  case shared => rw [← hF]; exact h.shared
  case closed =>
    intro k hk hks
    have hki : k ≠ i := fun hh => hks (by rw [hh, hst]; exact h.status)
    rw [hsubs k hki]
    exact h.closed k (by omega)
  case stale =>
    intro k hk hne hu
    have hkg : k ≠ g := fun hh => hne (by rw [hh]; exact hsubj)
    rw [hgens k hkg]
    exact h.stale.stale k (by omega) hu
  case ended =>
    intro k hk hne hu
    have hkg : k ≠ g := fun hh => hne (by rw [hh]; exact hsubj)
    rw [hgens k hkg]
    exact ⟨h.stale.ended k (by omega) hu, h.stale.pua⟩
  case count =>
    rw [hos]
    have := h.count
    have h1 : F.refCount = u.refCount := by rw [← hF]
    rw [h1, this]; simp
  case idle => intro hn; rw [hsubj] at hn; cases hn
  case cur =>
    intro g' hg'
    rw [hsubj] at hg'
    have : g' = g := (Option.some.inj hg').symm
    subst this
    exact ⟨by omega, Or.inl hact⟩
  case ugb => intro k hk; have := h.stale.pug k hk; omega
  case uab => intro A hA; rw [h.stale.pua] at hA; cases hA

theorem finish_latch (fl : Flags) {P : Pend} {g i : Nat} {u : St} (h : FLatch P g i u) :
    r3tail fl i g (upAddTeardown g u) = latchDone g u ∧ Inv P (r3tail fl i g (upAddTeardown g u)) ∧ GenLatched P (r3tail fl i g (upAddTeardown g u)) g ∧
      (r3tail fl i g (upAddTeardown g u)).subject = some g := by
  have hss : u.sourceSubscription = some g := by rw [h.shared]; exact h.subject
  have hc := h.sub.status
  have h1 := h.ssDone
  have h2 := h.ssFins
  have h3 := h.pDone
  have hnp := h.stale.notPending
  have e : r3tail fl i g (upAddTeardown g u) = latchDone g u := by
    simp [r3tail, ssAdd, upAddTeardown, h.pDone, h.ssDone, addTeardown, h.sub.done, h.ssFins, teardownT, casClose, hc, decRef, latchDone]
    rw [zeroReset_flag (by exact h.flag)]
    simp
    funext k
    split <;> simp_all
  refine ⟨e, ?_⟩
  rw [e]
  generalize hF : latchDone g u = F
  simp only [latchDone] at hF
  have hsubs : F.subs = u.subs := by rw [← hF]
  have hgens : ∀ k, k ≠ g → F.gens k = u.gens k := by intro k hk; rw [← hF]; simp [hk]
  have hns : F.nsubs = i + 1 := by rw [← hF]; exact h.nsubs
  have hng : F.ngens = g + 1 := by rw [← hF]; exact h.ngens
  have hsubj : F.subject = some g := by rw [← hF]; exact h.subject
  have hos : openSubs F = [] := openSubs_none hns (fun k hk => by rw [hsubs]; exact (h.closed k hk).status) (by rw [hsubs]; exact h.sub.status)
  have hlat : GenLatched P F g := by
    constructor
    case noOpen => exact hos
    case flag => rw [← hF]; exact h.flag
    case fin => intro _; rw [← hF]; simp
    case unf => intro he; exact absurd he hnp
    all_goals (rw [← hF]; simp [h.pStatus, h.pDone, h.pFin, h.upSub, h.ssDone, h.closedSubj, h.obs])
  refine ⟨?_, hlat, hsubj⟩
  constructor
  case shared => rw [← hF]; exact h.shared
  case closed =>
    intro k hk hks
    rw [hsubs]
    by_cases hki : k = i
    · subst hki; exact h.sub
    · exact h.closed k (by omega)
  case stale =>
    intro k hk hne hu
    have hkg : k ≠ g := fun hh => hne (by rw [hh]; exact hsubj)
    rw [hgens k hkg]; exact h.stale.stale k (by omega) hu
  case ended =>
    intro k hk hne hu
    have hkg : k ≠ g := fun hh => hne (by rw [hh]; exact hsubj)
    rw [hgens k hkg]; exact ⟨h.stale.ended k (by omega) hu, h.stale.pua⟩
  case count =>
    rw [hos]
    have := h.count
    have h1 : F.refCount = u.refCount - 1 := by rw [← hF]
    rw [h1, this]; simp; omega
  case idle => intro hn; rw [hsubj] at hn; cases hn
  case cur =>
    intro g' hg'
    rw [hsubj] at hg'
    have : g' = g := (Option.some.inj hg').symm
    subst this
    exact ⟨by omega, Or.inr hlat⟩
  case ugb => intro k hk; have := h.stale.pug k hk; omega
  case uab => intro A hA; rw [h.stale.pua] at hA; cases hA

/-- the prefix ended on a terminal the configuration resets on: the local `currentSourceSubscription`
    is already done, so the proxy's `Unsubscribe` is run at once (a no-op: the proxy has ended) and
    Share's teardown is registered as usual — it runs at once and gives the reference back -/
def resetDone (g : Nat) (u : St) : St :=
  { (u.modGen g fun x => { x with upTorn := true }) with refCount := u.refCount - 1 }

theorem finish_reset (fl : Flags) {P : Pend} {g i : Nat} {u : St} (h : FReset P g i u) :
    r3tail fl i g (upAddTeardown g u) = resetDone g u ∧ Inv P (r3tail fl i g (upAddTeardown g u)) ∧
      (r3tail fl i g (upAddTeardown g u)).subject = none := by
  have hss : u.sourceSubscription = none := by rw [h.shared]; exact h.subject
  have hc := h.sub.status
  have hps := h.pStatus
  have hnp := h.stale.notPending
  have e : r3tail fl i g (upAddTeardown g u) = resetDone g u := by
    have e1 : upAddTeardown g u = u.modGen g fun x => { x with upTorn := true } := by simp [upAddTeardown, h.pDone]
    rw [e1]
    have hz : ∀ w : St, w.subject = none → w.sourceSubscription = none → (w.gens g).ssDone = true → zeroReset fl g w = w := by
      intro w h1 h2 h3
      unfold zeroReset
      split
      · exact reset_stale h3 (by simp [h1]) (by simp [h2])
      · rfl
    simp [r3tail, ssAdd, h.ssDone, pUnsubscribe, hps, addTeardown, h.sub.done, teardownT, casClose, hc, decRef]
    rw [hz _ (by exact h.subject) (by exact hss) (by simp [h.ssDone])]
    rfl
  refine ⟨e, ?_⟩
  rw [e]
  generalize hF : resetDone g u = F
  simp only [resetDone] at hF
  have hsubs : F.subs = u.subs := by rw [← hF]; rfl
  have hgens : ∀ k, k ≠ g → F.gens k = u.gens k := by intro k hk; rw [← hF]; simp [St.modGen, hk]
  have hns : F.nsubs = i + 1 := by rw [← hF]; exact h.nsubs
  have hng : F.ngens = g + 1 := by rw [← hF]; exact h.ngens
  have hsubj : F.subject = none := by rw [← hF]; exact h.subject
  have hos : openSubs F = [] := openSubs_none hns (fun k hk => by rw [hsubs]; exact (h.closed k hk).status) (by rw [hsubs]; exact h.sub.status)
  refine ⟨?_, hsubj⟩
  constructor
  case shared => rw [← hF]; exact h.shared
  case closed =>
    intro k hk hks
    rw [hsubs]
    by_cases hki : k = i
    · subst hki; exact h.sub
    · exact h.closed k (by omega)
  case stale =>
    intro k hk _ hu
    by_cases hkg : k = g
    · subst hkg
      rw [← hF]
      constructor <;> simp [St.modGen, h.pStatus, h.pDone, h.pFin, h.upSub, h.ssFins, h.ssDone, h.obs]
    · rw [hgens k hkg]; exact h.stale.stale k (by omega) hu
  case ended =>
    intro k hk _ hu
    have hkg : k ≠ g := fun hh => hnp (by rw [← hh]; exact hu)
    rw [hgens k hkg]; exact ⟨h.stale.ended k (by omega) hu, h.stale.pua⟩
  case count =>
    rw [hos]
    have := h.count
    have h1 : F.refCount = u.refCount - 1 := by rw [← hF]
    rw [h1, this]; simp; omega
  case idle =>
    intro _
    exact ⟨by rw [← hF]; exact h.flagE, by rw [← hF]; exact h.flagC, hos⟩
  case cur => intro g' hg'; rw [hsubj] at hg'; cases hg'
  case ugb => intro k hk; have := h.stale.pug k hk; omega
  case uab => intro A hA; rw [h.stale.pua] at hA; cases hA

/-! ### the creator of a generation enters R3 -/

/-- control state when the creator of generation `s.ngens` enters R3's `source.Subscribe` -/
def freshState (conn : Conn) (s : St) : St :=
  { s with refCount := s.refCount + 1, nsubs := s.nsubs + 1, ngens := s.ngens + 1,
           subject := some s.ngens, sourceSubscription := some s.ngens, flagE := false, flagC := false,
           subs := fun k => if k = s.nsubs then { status := 0, trace := [], done := false, delFin := some s.ngens, tearFin := none } else s.subs k,
           gens := fun k => if k = s.ngens then { subj := { (Subj.new conn) with obs := [s.nsubs] }, upSub := true } else s.gens k }

theorem subjNew_open (conn : Conn) : (Subj.new conn).status = Status.open := by cases conn <;> rfl
theorem subjNew_obs (conn : Conn) : (Subj.new conn).obs = [] := by cases conn <;> rfl

theorem flive_freshState (conn : Conn) {P : Pend} {s : St} (hi : Inv P s) (hsub : s.subject = none) :
    FLive P s.ngens s.nsubs (freshState conn s) := by
  obtain ⟨_, _, hno⟩ := hi.idle hsub
  have hcount := hi.count
  rw [hno] at hcount
  have hua : P.ua = none := by
    cases h : P.ua with
    | none => rfl
    | some A => exact absurd hsub (hi.uab A h).2
  have hout : FOuter P s.ngens (freshState conn s) := by
    refine ⟨?_, ?_, hua, hi.ugb⟩
    · intro k hk hu
      have hne : k ≠ s.ngens := by omega
      simp [freshState, hne]
      exact hi.stale k hk (by rw [hsub]; simp) hu
    · intro k hk hu
      have hne : k ≠ s.ngens := by omega
      simp [freshState, hne]
      exact (hi.ended k hk (by rw [hsub]; simp) hu).1
  refine ⟨⟨rfl, rfl, rfl, hout, ?_, ?_, ?_, ?_, ?_, ?_, ?_⟩, rfl, rfl, rfl, ?_, ?_, ?_, ?_, ?_, ?_, ?_, ?_⟩
  · intro k hk
    have hne : k ≠ s.nsubs := by omega
    simp [freshState, hne]
    exact hi.closed k hk (openSubs_eq_nil.mp hno k hk)
  · simp [freshState, hcount]; omega
  all_goals simp [freshState, subjNew_open]

theorem subscribe_fresh_eq (cfg : Cfg) {P : Pend} {s : St} (hi : Inv P s) (hsub : s.subject = none) :
    ∃ u0 k, Sim (freshState cfg.conn s) u0 ∧
      subscribe cfg s = r3tail cfg.flags s.nsubs s.ngens (upAddTeardown s.ngens (playPre cfg s.ngens (cfg.pre k) u0)) := by
  have hnn : needsNew s = true := (needsNew_iff hi).mpr hsub
  have hnn' : needsNew (newSub s) = true := hnn
  have e1 : r1 cfg (newSub s) =
      { (newSub s) with refCount := s.refCount + 1,
                        gens := (fun k => if k = s.ngens then { subj := Subj.new cfg.conn, creator := s.nsubs } else s.gens k),
                        ngens := s.ngens + 1, subject := some s.ngens, sourceSubscription := some s.ngens } := by
    unfold r1
    rw [if_pos hnn']
    rfl
  have hR := subjReplay_sim cfg.conn s.ngens s.nsubs (r1 cfg (newSub s))
  have hL := hR.trans (subjLast_sim cfg.conn s.ngens s.nsubs _)
  have hopen : ((subjReplay cfg.conn s.ngens s.nsubs (r1 cfg (newSub s))).gens s.ngens).subj.status = Status.open := by
    rw [hR.gStatus, e1]; simp [subjNew_open]
  have hsubscribe : subscribe cfg s = r3 cfg s.nsubs s.ngens (subjRegister s.ngens s.nsubs
      (subjLast cfg.conn s.ngens s.nsubs (subjReplay cfg.conn s.ngens s.nsubs (r1 cfg (newSub s))))) := by
    simp only [subscribe, hnn, subjSubscribe, hopen]
    simp
  rw [hsubscribe]
  generalize subjLast cfg.conn s.ngens s.nsubs (subjReplay cfg.conn s.ngens s.nsubs (r1 cfg (newSub s))) = sL at hL
  rw [e1] at hL
  have hd : (sL.subs s.nsubs).done = false := by rw [hL.done]; simp [newSub]
  refine ⟨_, _, ?_, rfl⟩
  constructor
  all_goals intros
  all_goals simp [subjRegister, hd, freshState, hL.refCount, hL.subject, hL.sourceSubscription, hL.flagE, hL.flagC, hL.ngens, hL.nsubs, newSub]
  all_goals (try split)
  all_goals simp_all [hL.status, hL.done, hL.delFin, hL.tearFin, hL.gStatus, hL.gObs, hL.ssDone, hL.ssFins, hL.pStatus, hL.pDone, hL.pFin, hL.upSub, hL.upTorn, newSub, subjNew_open, subjNew_obs]
/-- how a `sub` event ends, with the invariant: joined the live generation, was served a latched
    terminal, or created a generation whose prefix left it live / reset / latched -/
theorem subscribe_cases (cfg : Cfg) {P : Pend} {s : St} (hi : Inv P s) :
    Inv P (subscribe cfg s) := by
  cases hsub : s.subject with
  | none =>
    obtain ⟨u0, k, hsim, he⟩ := subscribe_fresh_eq cfg hi hsub
    rw [he]
    have hl := (flive_freshState cfg.conn hi hsub).sim hsim
    rcases playPre_live cfg (cfg.pre k) hl with h | h | h
    · exact (finish_live cfg.flags h).2.1
    · exact (finish_reset cfg.flags h).2.1
    · exact (finish_latch cfg.flags h).2.1
  | some g =>
    rcases (hi.cur g hsub).2 with ha | hl
    · exact (inv_joinState hi hsub ha).1.sim (subscribe_join_active cfg hi hsub ha)
    · obtain ⟨c, hc, hsim⟩ := subscribe_join_latched cfg hi hsub hl
      exact (inv_lateState hc hi hsub hl).1.sim hsim

/-- a plain event keeps the invariant; a source terminal may close the pending creator -/
theorem inv_step' (cfg : Cfg) {P : Pend} {s : St} (hi : Inv P s) (e : Event) (hself : ∀ A, P.ua = some A → e ≠ .unsub A) :
    Inv P (step cfg s e) ∨ (Inv P.drop (step cfg s e) ∧ openSubs (step cfg s e) = []) := by
  cases e with
  | sub => exact Or.inl (subscribe_cases cfg hi)
  | unsub i =>
    simp only [step]
    split
    next hlt => exact Or.inl (inv_dUnsubscribe cfg.flags hi i hlt (fun h => hself i h rfl))
    next => exact Or.inl hi
  | src x => exact inv_push cfg x hi

theorem inv_step (cfg : Cfg) {s : St} (hi : Inv Pend.idle s) (e : Event) : Inv Pend.idle (step cfg s e) := by
  rcases inv_step' cfg hi e (fun A hA => by simp at hA) with h | ⟨h, _⟩
  · exact h
  · simpa using h

theorem inv_foldl (cfg : Cfg) (evs : List Event) {s : St} (hi : Inv Pend.idle s) : Inv Pend.idle (evs.foldl (step cfg) s) := by
  induction evs generalizing s with
  | nil => exact hi
  | cons e es ih => exact ih (inv_step cfg hi e)

/-- every reachable state satisfies the invariant -/
theorem inv_run (cfg : Cfg) (evs : List Event) : Inv Pend.idle (run cfg evs) := inv_foldl cfg evs Inv.init

end Ro.Share

/-
  RoProofs.PromPairsAll — `Pair` for every machine `Ro.Driver.Drivers.Prom.stageOf` can return
  (the int→int catalogue operators the harness chains), except `maxM` (nil context on an empty
  source, `max_emits_nil`).

  Two families:
  * machines that keep no context in their state (`Pair.refl`, related states are equal): the
    emissions are computed from the values and forward / derive contexts pointwise, so equal
    states react to notifications that agree up to the private key with emissions that agree up
    to the private key; user callbacks enter through an obliviousness hypothesis (they cannot
    read the unexported key and do not return a nil context), proved for the callbacks the
    driver builds (`tagWith`);
  * machines that keep (context, value) pairs in their state (`skipLastM`, `tailM`, `lastM`,
    `minM`, `reduceM`; `takeLastM` is in PromPairs): related states agree up to the private key
    and hold no nil context that can be emitted.

  `stageOf_related`: every stage the driver can build, other than `Max`, is related to itself;
  `standalone_related`: every stand-alone counter with the licence on is related to the same
  element with the licence off.
-/
import RoProofs.PromPairs
import RoModel.Drivers.Prom
namespace Ro.Prom
open Ro

variable {α β κ : Type}

/-! ### simp support -/

@[simp] theorem nonNil_nil_iff : NonNil ([] : List (Notif α)) ↔ True := ⟨fun _ => trivial, fun _ => nonNil_nil⟩

@[simp] theorem nonNil_cons_iff {x : Notif α} {l : List (Notif α)} :
    NonNil (x :: l) ↔ x.ctx.isNil = false ∧ NonNil l :=
  ⟨fun h => ⟨h.head, h.tail⟩, fun h => nonNil_cons h.1 h.2⟩

@[simp] theorem nonNil_append_iff {a b : List (Notif α)} : NonNil (a ++ b) ↔ NonNil a ∧ NonNil b :=
  ⟨fun h => ⟨fun x hx => h x (List.mem_append_left _ hx), fun x hx => h x (List.mem_append_right _ hx)⟩,
   fun h => nonNil_append h.1 h.2⟩

@[simp] theorem ctx_next (c : Ctx) (v : α) : (Notif.next c v).ctx = c := rfl
@[simp] theorem ctx_error (c : Ctx) (e : Err) : (Notif.error c e : Notif α).ctx = c := rfl
@[simp] theorem ctx_complete (c : Ctx) : (Notif.complete c : Notif α).ctx = c := rfl

@[simp] theorem eraseN_next (c : Ctx) (v : α) : eraseN (Notif.next c v) = Notif.next (eraseCtx c) v := rfl
@[simp] theorem eraseN_error (c : Ctx) (e : Err) : eraseN (Notif.error c e : Notif α) = Notif.error (eraseCtx c) e := rfl
@[simp] theorem eraseN_complete (c : Ctx) : eraseN (Notif.complete c : Notif α) = Notif.complete (eraseCtx c) := rfl

/-- the three cases of a pair of notifications that agree up to the private key -/
theorem erase_cases {n n' : Notif α} (h : eraseN n = eraseN n') :
    (∃ c c' v, n = .next c v ∧ n' = .next c' v ∧ eraseCtx c = eraseCtx c') ∨
    (∃ c c' e, n = .error c e ∧ n' = .error c' e ∧ eraseCtx c = eraseCtx c') ∨
    (∃ c c', n = .complete c ∧ n' = .complete c' ∧ eraseCtx c = eraseCtx c') := by
  cases n <;> cases n' <;> simp at h
  · exact Or.inl ⟨_, _, _, rfl, by rw [h.2], h.1⟩
  · exact Or.inr (Or.inl ⟨_, _, _, rfl, by rw [h.2], h.1⟩)
  · exact Or.inr (Or.inr ⟨_, _, rfl, rfl, h⟩)

/-! ### obliviousness of the other callback shapes -/

/-- a boolean predicate that ignores what it cannot read -/
def ObliviousB (p : Ctx → α → Nat → Bool) : Prop :=
  ∀ c c' v i, eraseCtx c = eraseCtx c' → p c v i = p c' v i

/-- a key selector (`DistinctBy`) -/
def ObliviousK (key : Ctx → α → Ctx × κ) : Prop :=
  ∀ c c' v, eraseCtx c = eraseCtx c' → c.isNil = false →
    eraseCtx (key c v).1 = eraseCtx (key c' v).1 ∧ (key c v).2 = (key c' v).2 ∧ (key c v).1.isNil = false

/-- a projection that may fail (`MapErr`) -/
def ObliviousE (f : Ctx → α → Nat → β × Ctx × Option Err) : Prop :=
  ∀ c c' v i, eraseCtx c = eraseCtx c' → c.isNil = false →
    (f c v i).1 = (f c' v i).1 ∧ eraseCtx (f c v i).2.1 = eraseCtx (f c' v i).2.1 ∧
    (f c v i).2.2 = (f c' v i).2.2 ∧ (f c v i).2.1.isNil = false

/-- an accumulator (`Scan`, `Reduce`) -/
def ObliviousR (f : Ctx → β → α → Nat → Ctx × β) : Prop :=
  ∀ c c' a v i, eraseCtx c = eraseCtx c' → c.isNil = false →
    eraseCtx (f c a v i).1 = eraseCtx (f c' a v i).1 ∧ (f c a v i).2 = (f c' a v i).2 ∧ (f c a v i).1.isNil = false

/-! ### family 1: no context in the state -/

def pairIgnoreElements : Pair α :=
  Pair.refl (AnyM.of ignoreElementsM) (fun _ _ _ => nonNil_nil) (by
    intro s n n' hn hnil
    rcases erase_cases hn with ⟨c, c', v, rfl, rfl, h⟩ | ⟨c, c', e, rfl, rfl, h⟩ | ⟨c, c', rfl, rfl, h⟩ <;>
      (simp_all [AnyM.of, Machine.step, ignoreElementsM, fwdE, fwdC] <;> try rfl))

def pairMapTo (b : α) : Pair α :=
  Pair.refl (AnyM.of (mapToM (α := α) b)) (fun _ _ _ => nonNil_nil) (by
    intro s n n' hn hnil
    rcases erase_cases hn with ⟨c, c', v, rfl, rfl, h⟩ | ⟨c, c', e, rfl, rfl, h⟩ | ⟨c, c', rfl, rfl, h⟩ <;>
      (simp_all [AnyM.of, Machine.step, mapToM, fwdE, fwdC] <;> try rfl))

def pairHead : Pair α :=
  Pair.refl (AnyM.of headM) (fun _ _ _ => nonNil_nil) (by
    intro s n n' hn hnil
    rcases erase_cases hn with ⟨c, c', v, rfl, rfl, h⟩ | ⟨c, c', e, rfl, rfl, h⟩ | ⟨c, c', rfl, rfl, h⟩ <;>
      (simp_all [AnyM.of, Machine.step, headM, fwdE, fwdC] <;> try rfl))

def pairElementAt (nth : Nat) : Pair α :=
  Pair.refl (AnyM.of (elementAtM nth)) (fun _ _ _ => nonNil_nil) (by
    intro s n n' hn hnil
    rcases erase_cases hn with ⟨c, c', v, rfl, rfl, h⟩ | ⟨c, c', e, rfl, rfl, h⟩ | ⟨c, c', rfl, rfl, h⟩
    · simp only [AnyM.of, Machine.step, elementAtM]
      split <;> (simp_all <;> try rfl)
    · (simp_all [AnyM.of, Machine.step, elementAtM, fwdE] <;> try rfl)
    · (simp_all [AnyM.of, Machine.step, elementAtM] <;> try rfl))

def pairElementAtOrDefault (nth : Nat) (d : α) : Pair α :=
  Pair.refl (AnyM.of (elementAtOrDefaultM nth d)) (fun _ _ _ => nonNil_nil) (by
    intro s n n' hn hnil
    rcases erase_cases hn with ⟨c, c', v, rfl, rfl, h⟩ | ⟨c, c', e, rfl, rfl, h⟩ | ⟨c, c', rfl, rfl, h⟩
    · simp only [AnyM.of, Machine.step, elementAtOrDefaultM]
      split <;> (simp_all <;> try rfl)
    · (simp_all [AnyM.of, Machine.step, elementAtOrDefaultM, fwdE] <;> try rfl)
    · (simp_all [AnyM.of, Machine.step, elementAtOrDefaultM] <;> try rfl))

def pairOnErrorReturn (v : α) : Pair α :=
  Pair.refl (AnyM.of (onErrorReturnM v)) (fun _ _ _ => nonNil_nil) (by
    intro s n n' hn hnil
    rcases erase_cases hn with ⟨c, c', v, rfl, rfl, h⟩ | ⟨c, c', e, rfl, rfl, h⟩ | ⟨c, c', rfl, rfl, h⟩ <;>
      (simp_all [AnyM.of, Machine.step, onErrorReturnM, fwdE, fwdC] <;> try rfl))

def pairThrowIfEmpty (e : Err) : Pair α :=
  Pair.refl (AnyM.of (throwIfEmptyM (α := α) e)) (fun _ _ _ => nonNil_nil) (by
    intro s n n' hn hnil
    rcases erase_cases hn with ⟨c, c', v, rfl, rfl, h⟩ | ⟨c, c', e, rfl, rfl, h⟩ | ⟨c, c', rfl, rfl, h⟩
    · (simp_all [AnyM.of, Machine.step, throwIfEmptyM] <;> try rfl)
    · (simp_all [AnyM.of, Machine.step, throwIfEmptyM, fwdE] <;> try rfl)
    · simp only [AnyM.of, Machine.step, throwIfEmptyM]
      split <;> (simp_all <;> try rfl))

def pairSum : Pair Int :=
  Pair.refl (AnyM.of sumM) (fun _ _ _ => nonNil_nil) (by
    intro (s : Int) n n' hn hnil
    rcases erase_cases hn with ⟨c, c', v, rfl, rfl, h⟩ | ⟨c, c', e, rfl, rfl, h⟩ | ⟨c, c', rfl, rfl, h⟩ <;>
      (simp_all [AnyM.of, Machine.step, sumM, fwdE, fwdC] <;> try rfl))

def pairClamp (lo hi : Int) : Pair Int :=
  Pair.refl (AnyM.of (clampM lo hi)) (fun _ _ _ => nonNil_nil) (by
    intro s n n' hn hnil
    rcases erase_cases hn with ⟨c, c', v, rfl, rfl, h⟩ | ⟨c, c', e, rfl, rfl, h⟩ | ⟨c, c', rfl, rfl, h⟩ <;>
      (simp_all [AnyM.of, Machine.step, clampM, fwdE, fwdC] <;> try rfl))

def pairMaterializeDematerialize : Pair α :=
  Pair.refl (AnyM.of ((materializeM (α := α)).seq dematerializeM)) (fun _ _ _ => nonNil_nil) (by
    intro s n n' hn hnil
    rcases erase_cases hn with ⟨c, c', v, rfl, rfl, h⟩ | ⟨c, c', e, rfl, rfl, h⟩ | ⟨c, c', rfl, rfl, h⟩ <;>
      (simp only [AnyM.of, Machine.step, Machine.seq, materializeM, dematerializeM, List.foldl]
       cases s.2.2 <;> (simp_all [Machine.step, fwdE, fwdC] <;> try rfl)))

def pairFind (p : Ctx → α → Nat → Bool) (hp : ObliviousB p) : Pair α :=
  Pair.refl (AnyM.of (findM p)) (fun _ _ _ => nonNil_nil) (by
    intro s n n' hn hnil
    rcases erase_cases hn with ⟨c, c', v, rfl, rfl, h⟩ | ⟨c, c', e, rfl, rfl, h⟩ | ⟨c, c', rfl, rfl, h⟩
    · simp only [AnyM.of, Machine.step, findM, hp c c' v s h]
      split <;> (simp_all <;> try rfl)
    · (simp_all [AnyM.of, Machine.step, findM, fwdE] <;> try rfl)
    · (simp_all [AnyM.of, Machine.step, findM, fwdC] <;> try rfl))

def pairSkipWhile (p : Pred α) (hp : Oblivious p) : Pair α :=
  Pair.refl (AnyM.of (skipWhileM p)) (fun _ _ _ => nonNil_nil) (by
    intro s n n' hn hnil
    rcases erase_cases hn with ⟨c, c', v, rfl, rfl, h⟩ | ⟨c, c', e, rfl, rfl, h⟩ | ⟨c, c', rfl, rfl, h⟩
    · have hc : c.isNil = false := hnil
      have ho := hp c c' v s.2 h hc
      simp only [AnyM.of, Machine.step, skipWhileM, ← ho.2.1]
      split
      · (simp_all <;> try rfl)
      · split <;> (simp_all <;> try rfl)
    · (simp_all [AnyM.of, Machine.step, skipWhileM, fwdE] <;> try rfl)
    · (simp_all [AnyM.of, Machine.step, skipWhileM, fwdC] <;> try rfl))

def pairTakeWhile (p : Pred α) (hp : Oblivious p) : Pair α :=
  Pair.refl (AnyM.of (takeWhileM p)) (fun _ _ _ => nonNil_nil) (by
    intro s n n' hn hnil
    rcases erase_cases hn with ⟨c, c', v, rfl, rfl, h⟩ | ⟨c, c', e, rfl, rfl, h⟩ | ⟨c, c', rfl, rfl, h⟩
    · have hc : c.isNil = false := hnil
      have ho := hp c c' v s.2 h hc
      simp only [AnyM.of, Machine.step, takeWhileM, ← ho.2.1]
      split
      · (simp_all <;> try rfl)
      · split <;> (simp_all <;> try rfl)
    · simp only [AnyM.of, Machine.step, takeWhileM]
      split <;> (simp_all <;> try rfl)
    · simp only [AnyM.of, Machine.step, takeWhileM]
      split <;> (simp_all <;> try rfl))

def pairFirst (p : Pred α) (hp : Oblivious p) : Pair α :=
  Pair.refl (AnyM.of (firstM p)) (fun _ _ _ => nonNil_nil) (by
    intro s n n' hn hnil
    rcases erase_cases hn with ⟨c, c', v, rfl, rfl, h⟩ | ⟨c, c', e, rfl, rfl, h⟩ | ⟨c, c', rfl, rfl, h⟩
    · have hc : c.isNil = false := hnil
      have ho := hp c c' v s h hc
      simp only [AnyM.of, Machine.step, firstM, ← ho.2.1]
      split <;> (simp_all <;> try rfl)
    · (simp_all [AnyM.of, Machine.step, firstM, fwdE] <;> try rfl)
    · (simp_all [AnyM.of, Machine.step, firstM] <;> try rfl))

def pairMapErr (f : Ctx → α → Nat → α × Ctx × Option Err) (hf : ObliviousE f) : Pair α :=
  Pair.refl (AnyM.of (mapErrM f)) (fun _ _ _ => nonNil_nil) (by
    intro s n n' hn hnil
    rcases erase_cases hn with ⟨c, c', v, rfl, rfl, h⟩ | ⟨c, c', e, rfl, rfl, h⟩ | ⟨c, c', rfl, rfl, h⟩
    · have hc : c.isNil = false := hnil
      have ho := hf c c' v s h hc
      simp only [AnyM.of, Machine.step, mapErrM, ← ho.2.2.1, ← ho.1]
      split <;> (simp_all <;> try rfl)
    · (simp_all [AnyM.of, Machine.step, mapErrM, fwdE] <;> try rfl)
    · (simp_all [AnyM.of, Machine.step, mapErrM, fwdC] <;> try rfl))

def pairScan (f : Ctx → α → α → Nat → Ctx × α) (hf : ObliviousR f) (seed : α) : Pair α :=
  Pair.refl (AnyM.of (scanM f seed)) (fun _ _ _ => nonNil_nil) (by
    intro s n n' hn hnil
    rcases erase_cases hn with ⟨c, c', v, rfl, rfl, h⟩ | ⟨c, c', e, rfl, rfl, h⟩ | ⟨c, c', rfl, rfl, h⟩
    · have hc : c.isNil = false := hnil
      have ho := hf c c' s.1 v s.2 h hc
      (simp_all [AnyM.of, Machine.step, scanM] <;> try rfl)
    · (simp_all [AnyM.of, Machine.step, scanM, fwdE] <;> try rfl)
    · (simp_all [AnyM.of, Machine.step, scanM, fwdC] <;> try rfl))

def pairDistinctBy [DecidableEq κ] (key : Ctx → α → Ctx × κ) (hk : ObliviousK key) : Pair α :=
  Pair.refl (AnyM.of (distinctByM key)) (fun _ _ _ => nonNil_nil) (by
    intro s n n' hn hnil
    rcases erase_cases hn with ⟨c, c', v, rfl, rfl, h⟩ | ⟨c, c', e, rfl, rfl, h⟩ | ⟨c, c', rfl, rfl, h⟩
    · have hc : c.isNil = false := hnil
      have ho := hk c c' v h hc
      simp only [AnyM.of, Machine.step, distinctByM, ← ho.2.1]
      split <;> (simp_all <;> try rfl)
    · (simp_all [AnyM.of, Machine.step, distinctByM, fwdE] <;> try rfl)
    · (simp_all [AnyM.of, Machine.step, distinctByM, fwdC] <;> try rfl))

/-! ### family 2: (context, value) pairs in the state -/

def erasePair (p : Ctx × α) : Ctx × α := (eraseCtx p.1, p.2)

/-- related optional (context, value) pairs: equal up to the private key, context not nil -/
def OptR (o o' : Option (Ctx × α)) : Prop :=
  o.map erasePair = o'.map erasePair ∧ ∀ p, o = some p → p.1.isNil = false

theorem optR_none : OptR (none : Option (Ctx × α)) none := ⟨rfl, fun _ h => by cases h⟩

theorem optR_some {c c' : Ctx} (v : α) (h : eraseCtx c = eraseCtx c') (hc : c.isNil = false) :
    OptR (some (c, v)) (some (c', v)) :=
  ⟨by simp [erasePair, h], fun p hp => by cases hp; exact hc⟩

theorem optR_cases {o o' : Option (Ctx × α)} (h : OptR o o') :
    (o = none ∧ o' = none) ∨
    (∃ c c' v, o = some (c, v) ∧ o' = some (c', v) ∧ eraseCtx c = eraseCtx c' ∧ c.isNil = false) := by
  obtain ⟨he, hn⟩ := h
  cases o with
  | none => cases o' with
    | none => exact Or.inl ⟨rfl, rfl⟩
    | some p' => simp at he
  | some p => cases o' with
    | none => simp at he
    | some p' =>
      obtain ⟨c, v⟩ := p
      obtain ⟨c', v'⟩ := p'
      simp only [Option.map_some, Option.some.injEq, erasePair, Prod.mk.injEq] at he
      exact Or.inr ⟨c, c', v, rfl, by rw [he.2], he.1, hn (c, v) rfl⟩

theorem tail_step (o o' : Option (Ctx × α)) (n n' : Notif α) (hR : OptR o o')
    (hn : eraseN n = eraseN n') (hnil : n.ctx.isNil = false) :
    OptR ((tailM (α := α)).step o n).1 ((tailM (α := α)).step o' n').1 ∧
    eraseL ((tailM (α := α)).step o n).2 = eraseL ((tailM (α := α)).step o' n').2 ∧
    NonNil ((tailM (α := α)).step o n).2 := by
  rcases erase_cases hn with ⟨c, c', v, rfl, rfl, h⟩ | ⟨c, c', e, rfl, rfl, h⟩ | ⟨c, c', rfl, rfl, h⟩
  · exact ⟨optR_some v h hnil, rfl, nonNil_nil⟩
  · exact ⟨hR, by simp [Machine.step, tailM, fwdE, h], by simpa [Machine.step, tailM, fwdE] using hnil⟩
  · have hc : c.isNil = false := hnil
    rcases optR_cases hR with ⟨rfl, rfl⟩ | ⟨c0, c0', v0, rfl, rfl, h0, hc0⟩
    · exact ⟨optR_none, by simp [Machine.step, tailM, h], by simp [Machine.step, tailM, hc]⟩
    · exact ⟨optR_some v0 h0 hc0, by simp [Machine.step, tailM, h, h0], by simp [Machine.step, tailM, hc, hc0]⟩

def pairTail : Pair α where
  I := AnyM.of tailM
  P := AnyM.of tailM
  R := OptR
  init := optR_none
  subscribes := rfl
  sub := fun _ _ _ h _ => ⟨h, rfl, nonNil_nil⟩
  step := fun o o' n n' hR hn hnil => tail_step o o' n n' hR hn hnil

theorem min_step (o o' : Option (Ctx × Int)) (n n' : Notif Int) (hR : OptR o o')
    (hn : eraseN n = eraseN n') (hnil : n.ctx.isNil = false) :
    OptR (minM.step o n).1 (minM.step o' n').1 ∧
    eraseL (minM.step o n).2 = eraseL (minM.step o' n').2 ∧ NonNil (minM.step o n).2 := by
  rcases erase_cases hn with ⟨c, c', v, rfl, rfl, h⟩ | ⟨c, c', e, rfl, rfl, h⟩ | ⟨c, c', rfl, rfl, h⟩
  · have hc : c.isNil = false := hnil
    refine ⟨?_, rfl, nonNil_nil⟩
    rcases optR_cases hR with ⟨rfl, rfl⟩ | ⟨c0, c0', v0, rfl, rfl, h0, hc0⟩
    · exact optR_some v h hc
    · simp only [Machine.step, minM]
      split
      · exact optR_some v h hc
      · exact optR_some v0 h0 hc0
  · exact ⟨hR, by simp [Machine.step, minM, fwdE, h], by simpa [Machine.step, minM, fwdE] using hnil⟩
  · have hc : c.isNil = false := hnil
    rcases optR_cases hR with ⟨rfl, rfl⟩ | ⟨c0, c0', v0, rfl, rfl, h0, hc0⟩
    · exact ⟨optR_none, by simp [Machine.step, minM, h], by simp [Machine.step, minM, hc]⟩
    · exact ⟨optR_some v0 h0 hc0, by simp [Machine.step, minM, h, h0], by simp [Machine.step, minM, hc, hc0]⟩

def pairMin : Pair Int where
  I := AnyM.of minM
  P := AnyM.of minM
  R := OptR
  init := optR_none
  subscribes := rfl
  sub := fun _ _ _ h _ => ⟨h, rfl, nonNil_nil⟩
  step := fun o o' n n' hR hn hnil => min_step o o' n n' hR hn hnil

/-- `Last`: (last match, index) -/
def LastR (s s' : Option (Ctx × α) × Nat) : Prop := OptR s.1 s'.1 ∧ s.2 = s'.2

theorem last_step (p : Pred α) (hp : Oblivious p) (s s' : Option (Ctx × α) × Nat) (n n' : Notif α) (hR : LastR s s')
    (hn : eraseN n = eraseN n') (hnil : n.ctx.isNil = false) :
    LastR ((lastM p).step s n).1 ((lastM p).step s' n').1 ∧
    eraseL ((lastM p).step s n).2 = eraseL ((lastM p).step s' n').2 ∧ NonNil ((lastM p).step s n).2 := by
  obtain ⟨o, i⟩ := s
  obtain ⟨o', i'⟩ := s'
  obtain ⟨hO, hi⟩ := hR
  simp only at hO hi
  subst hi
  rcases erase_cases hn with ⟨c, c', v, rfl, rfl, h⟩ | ⟨c, c', e, rfl, rfl, h⟩ | ⟨c, c', rfl, rfl, h⟩
  · have hc : c.isNil = false := hnil
    have ho := hp c c' v i h hc
    refine ⟨⟨?_, rfl⟩, rfl, nonNil_nil⟩
    simp only [Machine.step, lastM, ← ho.2.1]
    split
    · exact optR_some v ho.1 ho.2.2
    · exact hO
  · exact ⟨⟨hO, rfl⟩, by simp [Machine.step, lastM, fwdE, h], by simpa [Machine.step, lastM, fwdE] using hnil⟩
  · have hc : c.isNil = false := hnil
    refine ⟨⟨hO, rfl⟩, ?_, ?_⟩
    · rcases optR_cases hO with ⟨rfl, rfl⟩ | ⟨c0, c0', v0, rfl, rfl, h0, hc0⟩
      · simp [Machine.step, lastM, h]
      · simp [Machine.step, lastM, h0]
    · rcases optR_cases hO with ⟨rfl, rfl⟩ | ⟨c0, c0', v0, rfl, rfl, h0, hc0⟩
      · simp [Machine.step, lastM, hc]
      · simp [Machine.step, lastM, hc0]

def pairLast (p : Pred α) (hp : Oblivious p) : Pair α where
  I := AnyM.of (lastM p)
  P := AnyM.of (lastM p)
  R := LastR
  init := ⟨optR_none, rfl⟩
  subscribes := rfl
  sub := fun _ _ _ h _ => ⟨h, rfl, nonNil_nil⟩
  step := fun s s' n n' hR hn hnil => last_step p hp s s' n n' hR hn hnil

/-- `Reduce`: (accumulator, last context, index); the last context is only used once a value
    has arrived -/
def ReduceR (s s' : α × Ctx × Nat) : Prop :=
  s.1 = s'.1 ∧ s.2.2 = s'.2.2 ∧ (s.2.2 = 0 ∨ (eraseCtx s.2.1 = eraseCtx s'.2.1 ∧ s.2.1.isNil = false))

theorem reduce_step (f : Ctx → α → α → Nat → Ctx × α) (hf : ObliviousR f) (seed : α)
    (s s' : α × Ctx × Nat) (n n' : Notif α) (hR : ReduceR s s')
    (hn : eraseN n = eraseN n') (hnil : n.ctx.isNil = false) :
    ReduceR ((reduceM f seed).step s n).1 ((reduceM f seed).step s' n').1 ∧
    eraseL ((reduceM f seed).step s n).2 = eraseL ((reduceM f seed).step s' n').2 ∧
    NonNil ((reduceM f seed).step s n).2 := by
  obtain ⟨a, lc, i⟩ := s
  obtain ⟨a', lc', i'⟩ := s'
  obtain ⟨ha, hi, hl⟩ := hR
  simp only at ha hi hl
  subst ha hi
  rcases erase_cases hn with ⟨c, c', v, rfl, rfl, h⟩ | ⟨c, c', e, rfl, rfl, h⟩ | ⟨c, c', rfl, rfl, h⟩
  · have hc : c.isNil = false := hnil
    have ho := hf c c' a v i h hc
    exact ⟨⟨ho.2.1, rfl, Or.inr ⟨ho.1, ho.2.2⟩⟩, rfl, nonNil_nil⟩
  · exact ⟨⟨rfl, rfl, hl⟩, by simp [Machine.step, reduceM, fwdE, h], by simpa [Machine.step, reduceM, fwdE] using hnil⟩
  · have hc : c.isNil = false := hnil
    refine ⟨⟨rfl, rfl, hl⟩, ?_, ?_⟩
    · simp only [Machine.step, reduceM]
      rcases hl with h0 | ⟨he, _⟩
      · simp [h0, h]
      · split <;> simp [h, he]
    · simp only [Machine.step, reduceM]
      rcases hl with h0 | ⟨_, hne⟩
      · simp [h0, hc]
      · split <;> simp [hc, hne]

def pairReduce (f : Ctx → α → α → Nat → Ctx × α) (hf : ObliviousR f) (seed : α) : Pair α where
  I := AnyM.of (reduceM f seed)
  P := AnyM.of (reduceM f seed)
  R := ReduceR
  init := ⟨rfl, rfl, Or.inl rfl⟩
  subscribes := rfl
  sub := fun _ _ _ h _ => ⟨h, rfl, nonNil_nil⟩
  step := fun s s' n n' hR hn hnil => reduce_step f hf seed s s' n n' hR hn hnil

theorem skipLast_step (count : Nat) (q q' : List (Ctx × α)) (n n' : Notif α) (hR : TakeLastR q q')
    (hn : eraseN n = eraseN n') (hnil : n.ctx.isNil = false) :
    TakeLastR ((skipLastM count).step q n).1 ((skipLastM count).step q' n').1 ∧
    eraseL ((skipLastM count).step q n).2 = eraseL ((skipLastM count).step q' n').2 ∧
    NonNil ((skipLastM count).step q n).2 := by
  obtain ⟨hq, hqn⟩ := hR
  have hlen : q.length = q'.length := by
    have := congrArg List.length hq
    simp only [List.length_map] at this
    exact this
  rcases erase_cases hn with ⟨c, c', v, rfl, rfl, h⟩ | ⟨c, c', e, rfl, rfl, h⟩ | ⟨c, c', rfl, rfl, h⟩
  · have hc : c.isNil = false := hnil
    simp only [Machine.step, skipLastM, hlen]
    by_cases hlt : q'.length < count
    · simp only [hlt, if_true]
      refine ⟨⟨by simp [hq, h], ?_⟩, by simp, by simp⟩
      intro p hp
      rcases List.mem_append.mp hp with h1 | h1
      · exact hqn p h1
      · simp only [List.mem_singleton] at h1; rw [h1]; exact hc
    · simp only [hlt, if_false]
      cases q with
      | nil =>
        cases q' with
        | nil => exact ⟨⟨by simp [h], fun p hp => by simp only [List.mem_singleton] at hp; rw [hp]; exact hc⟩, by simp, by simp⟩
        | cons y ys => simp at hlen
      | cons x xs =>
        cases q' with
        | nil => simp at hlen
        | cons y ys =>
          obtain ⟨c0, v0⟩ := x
          obtain ⟨c0', v0'⟩ := y
          simp only [List.map_cons, List.cons.injEq, Prod.mk.injEq] at hq
          obtain ⟨⟨h0, hv0⟩, hrest⟩ := hq
          subst hv0
          have hc0 : c0.isNil = false := hqn (c0, v0) (List.mem_cons_self ..)
          refine ⟨⟨by simp [hrest, h], ?_⟩, by simp [h0], by simp [hc0]⟩
          intro p hp
          rcases List.mem_append.mp hp with h1 | h1
          · exact hqn p (List.mem_cons_of_mem _ h1)
          · simp only [List.mem_singleton] at h1; rw [h1]; exact hc
  · exact ⟨⟨hq, hqn⟩, by simp [Machine.step, skipLastM, fwdE, h], by simpa [Machine.step, skipLastM, fwdE] using hnil⟩
  · exact ⟨⟨hq, hqn⟩, by simp [Machine.step, skipLastM, fwdC, h], by simpa [Machine.step, skipLastM, fwdC] using hnil⟩

def pairSkipLast (count : Nat) : Pair α where
  I := AnyM.of (skipLastM count)
  P := AnyM.of (skipLastM count)
  R := TakeLastR
  init := ⟨rfl, fun _ h => by simp [AnyM.of, skipLastM] at h⟩
  subscribes := rfl
  sub := fun _ _ _ h _ => ⟨h, rfl, nonNil_nil⟩
  step := fun q q' n n' hR hn hnil => skipLast_step count q q' n n' hR hn hnil

/-! ### every stage the driver builds -/

/-- the two stages cannot be told apart from outside the plugin's package -/
def Related (aI aP : AnyM α) : Prop := ∃ p : Pair α, p.I = aI ∧ p.P = aP

open Ro.Driver Ro.Driver.Drivers.Prom

theorem oblivious_tagWith {β : Type} (g : α → Nat → β) (t : Option Nat) (ht : t ≠ some ckKey) :
    Oblivious (fun c v i => (tagWith t c, g v i)) := oblivious_tag g t ht

theorem tagOf_ne (var : String) (cb : Cb) (h : cb.tag ≠ some ckKey) :
    (if hasCtx var then cb.tag else none) ≠ some ckKey := by
  split
  · exact h
  · simp

theorem mkProj_oblivious {var : String} {cb : Cb} {f : Ctx → Int → Nat → Ctx × Int}
    (h : mkProj var cb = some f) (ht : cb.tag ≠ some ckKey) : Oblivious f := by
  unfold mkProj at h
  simp only at h
  split at h
  · obtain ⟨g, _, rfl⟩ := Option.map_eq_some_iff.mp h
    exact oblivious_tagWith (fun v i => g v i) _ (tagOf_ne var cb ht)
  · obtain ⟨g, _, rfl⟩ := Option.map_eq_some_iff.mp h
    exact oblivious_tagWith (fun v _ => g v) _ (tagOf_ne var cb ht)

theorem mkPred_oblivious {var : String} {cb : Cb} {f : Pred Int}
    (h : mkPred var cb = some f) (ht : cb.tag ≠ some ckKey) : Oblivious f := by
  unfold mkPred at h
  simp only at h
  split at h
  · obtain ⟨g, _, rfl⟩ := Option.map_eq_some_iff.mp h
    exact oblivious_tagWith (fun v i => g v i) _ (tagOf_ne var cb ht)
  · obtain ⟨g, _, rfl⟩ := Option.map_eq_some_iff.mp h
    exact oblivious_tagWith (fun v _ => g v) _ (tagOf_ne var cb ht)

theorem mkBoolPred_oblivious {var : String} {cb : Cb} {f : Ctx → Int → Nat → Bool}
    (h : mkBoolPred var cb = some f) : ObliviousB f := by
  unfold mkBoolPred at h
  split at h <;> (obtain ⟨g, _, rfl⟩ := Option.map_eq_some_iff.mp h; intro _ _ _ _ _; rfl)

theorem obliviousR_tagWith (g : Int → Int → Nat → Int) (t : Option Nat) (ht : t ≠ some ckKey) :
    ObliviousR (fun c a v i => (tagWith t c, g a v i)) := by
  intro c c' a v i h hc
  have := oblivious_tagWith (fun (_ : Int) (_ : Nat) => ()) t ht c c' 0 0 h hc
  exact ⟨this.1, rfl, this.2.2⟩

theorem mkRed_oblivious {var : String} {cb : Cb} {f : Ctx → Int → Int → Nat → Ctx × Int}
    (h : mkRed var cb = some f) (ht : cb.tag ≠ some ckKey) : ObliviousR f := by
  unfold mkRed at h
  simp only at h
  split at h
  · obtain ⟨g, _, rfl⟩ := Option.map_eq_some_iff.mp h
    exact obliviousR_tagWith (fun a v i => g a v i) _ (tagOf_ne var cb ht)
  · obtain ⟨g, _, rfl⟩ := Option.map_eq_some_iff.mp h
    exact obliviousR_tagWith (fun a v _ => g a v) _ (tagOf_ne var cb ht)

theorem mkProjErr_oblivious {var : String} {cb : Cb} {k : Int} {f : Ctx → Int → Nat → Int × Ctx × Option Err}
    (h : mkProjErr var cb k = some f) (ht : cb.tag ≠ some ckKey) : ObliviousE f := by
  unfold mkProjErr at h
  obtain ⟨g, hg, rfl⟩ := Option.map_eq_some_iff.mp h
  have ho := mkProj_oblivious hg ht
  intro c c' v i he hc
  have := ho c c' v i he hc
  exact ⟨this.2.1, this.1, rfl, this.2.2⟩

theorem obliviousK_id : ObliviousK (fun c (v : Int) => (c, v)) :=
  fun _ _ _ h hc => ⟨h, rfl, hc⟩

theorem obliviousK_tagWith (g : Int → Int) (t : Option Nat) (ht : t ≠ some ckKey) :
    ObliviousK (fun c (v : Int) => (tagWith t c, g v)) := by
  intro c c' v h hc
  have := oblivious_tagWith (fun (_ : Int) (_ : Nat) => ()) t ht c c' 0 0 h hc
  exact ⟨this.1, rfl, this.2.2⟩

theorem related_refl_of (p : Pair α) (h : p.P = p.I) : Related p.I p.I := ⟨p, rfl, h⟩

/-- the callbacks of a case do not use the reserved marker -/
def GoodTags (cbs : List Cb) : Prop := ∀ cb ∈ cbs, cb.tag ≠ some ckKey

/-- every stage a builder can return is related to itself -/
def BuilderOk (b : Builder) : Prop :=
  ∀ p var cbs a, GoodTags cbs → b p var cbs = some a → Related a a

theorem b0_ok (a : AnyM Int) (h : Related a a) : BuilderOk (b0 a) := by
  intro p var cbs x _ hx
  unfold b0 at hx
  split at hx
  · cases hx; exact h
  · cases hx

theorem b1_ok (f : Int → AnyM Int) (h : ∀ n, Related (f n) (f n)) : BuilderOk (b1 f) := by
  intro p var cbs x _ hx
  unfold b1 at hx
  split at hx
  · cases hx; exact h _
  · cases hx

theorem b2_ok (f : Int → Int → AnyM Int) (h : ∀ n d, Related (f n d) (f n d)) : BuilderOk (b2 f) := by
  intro p var cbs x _ hx
  unfold b2 at hx
  split at hx
  · cases hx; exact h _ _
  · cases hx

theorem bList_ok (f : List Int → AnyM Int) (h : ∀ l, Related (f l) (f l)) : BuilderOk (bList f) := by
  intro p var cbs x _ hx
  unfold bList at hx
  split at hx
  · cases hx; exact h _
  · cases hx

theorem bPred_ok (f : Pred Int → AnyM Int) (h : ∀ g, Oblivious g → Related (f g) (f g)) : BuilderOk (bPred f) := by
  intro p var cbs x ht hx
  unfold bPred at hx
  split at hx
  · obtain ⟨g, hg, rfl⟩ := Option.map_eq_some_iff.mp hx
    exact h g (mkPred_oblivious hg (ht _ (List.mem_singleton.mpr rfl)))
  · cases hx

theorem bProj_ok (f : (Ctx → Int → Nat → Ctx × Int) → AnyM Int) (h : ∀ g, Oblivious g → Related (f g) (f g)) :
    BuilderOk (bProj f) := by
  intro p var cbs x ht hx
  unfold bProj at hx
  split at hx
  · obtain ⟨g, hg, rfl⟩ := Option.map_eq_some_iff.mp hx
    exact h g (mkProj_oblivious hg (ht _ (List.mem_singleton.mpr rfl)))
  · cases hx

theorem bBool_ok (f : (Ctx → Int → Nat → Bool) → AnyM Int) (h : ∀ g, ObliviousB g → Related (f g) (f g)) :
    BuilderOk (bBool f) := by
  intro p var cbs x _ hx
  unfold bBool at hx
  split at hx
  · obtain ⟨g, hg, rfl⟩ := Option.map_eq_some_iff.mp hx
    exact h g (mkBoolPred_oblivious hg)
  · cases hx

theorem bProjErr_ok (f : (Ctx → Int → Nat → Int × Ctx × Option Err) → AnyM Int)
    (h : ∀ g, ObliviousE g → Related (f g) (f g)) : BuilderOk (bProjErr f) := by
  intro p var cbs x ht hx
  unfold bProjErr at hx
  split at hx
  · obtain ⟨g, hg, rfl⟩ := Option.map_eq_some_iff.mp hx
    exact h g (mkProjErr_oblivious hg (ht _ (List.mem_singleton.mpr rfl)))
  · cases hx

theorem bRed_ok (f : (Ctx → Int → Int → Nat → Ctx × Int) → Int → AnyM Int)
    (h : ∀ g seed, ObliviousR g → Related (f g seed) (f g seed)) : BuilderOk (bRed f) := by
  intro p var cbs x ht hx
  unfold bRed at hx
  split at hx
  · obtain ⟨g, hg, rfl⟩ := Option.map_eq_some_iff.mp hx
    exact h g _ (mkRed_oblivious hg (ht _ (List.mem_singleton.mpr rfl)))
  · cases hx

theorem bKey_ok (f : (Ctx → Int → Ctx × Int) → AnyM Int) (h : ∀ k, ObliviousK k → Related (f k) (f k)) :
    BuilderOk (bKey f) := by
  intro p var cbs x ht hx
  unfold bKey at hx
  split at hx
  · obtain ⟨g, _, rfl⟩ := Option.map_eq_some_iff.mp hx
    exact h _ (obliviousK_tagWith g _ (tagOf_ne var _ (ht _ (List.mem_singleton.mpr rfl))))
  · cases hx

/-- every entry of the driver's table other than `Max` only builds stages related to themselves -/
theorem stageTable_ok : ∀ e ∈ stageTable, e.1 ≠ "Max" → BuilderOk e.2 := by
  intro e he hmax
  simp only [stageTable, List.mem_cons, List.not_mem_nil, or_false] at he
  rcases he with rfl | rfl | rfl | rfl | rfl | rfl | rfl | rfl | rfl | rfl | rfl | rfl | rfl | rfl | rfl | rfl |
    rfl | rfl | rfl | rfl | rfl | rfl | rfl | rfl | rfl | rfl | rfl | rfl | rfl | rfl | rfl | rfl | rfl | rfl | rfl | rfl | rfl
  · exact bPred_ok _ (fun g hg => ⟨pairFilter g hg, rfl, rfl⟩)
  · exact b0_ok _ ⟨pairDistinctBy _ obliviousK_id, rfl, rfl⟩
  · exact bKey_ok _ (fun k hk => ⟨pairDistinctBy k hk, rfl, rfl⟩)
  · exact b0_ok _ ⟨pairIgnoreElements, rfl, rfl⟩
  · exact b1_ok _ (fun n => ⟨pairSkip _, rfl, rfl⟩)
  · exact bPred_ok _ (fun g hg => ⟨pairSkipWhile g hg, rfl, rfl⟩)
  · exact b1_ok _ (fun n => ⟨pairSkipLast _, rfl, rfl⟩)
  · refine b1_ok _ (fun n => ?_)
    split
    · exact ⟨pairEmpty, rfl, rfl⟩
    · exact ⟨pairTake _, rfl, rfl⟩
  · exact bPred_ok _ (fun g hg => ⟨pairTakeWhile g hg, rfl, rfl⟩)
  · refine b1_ok _ (fun n => ?_)
    split
    · exact ⟨pairEmpty, rfl, rfl⟩
    · exact ⟨pairTakeLast _, rfl, rfl⟩
  · exact b0_ok _ ⟨pairHead, rfl, rfl⟩
  · exact b0_ok _ ⟨pairTail, rfl, rfl⟩
  · exact bPred_ok _ (fun g hg => ⟨pairFirst g hg, rfl, rfl⟩)
  · exact bPred_ok _ (fun g hg => ⟨pairLast g hg, rfl, rfl⟩)
  · exact b1_ok _ (fun n => ⟨pairElementAt _, rfl, rfl⟩)
  · exact b2_ok _ (fun n d => ⟨pairElementAtOrDefault _ _, rfl, rfl⟩)
  · exact bProj_ok _ (fun g hg => ⟨pairMap g hg, rfl, rfl⟩)
  · exact b1_ok _ (fun n => ⟨pairMapTo _, rfl, rfl⟩)
  · exact bProjErr_ok _ (fun g hg => ⟨pairMapErr g hg, rfl, rfl⟩)
  · exact bRed_ok _ (fun g seed hg => ⟨pairScan g hg seed, rfl, rfl⟩)
  · exact bList_ok _ (fun l => ⟨pairStartWith l, rfl, rfl⟩)
  · exact bList_ok _ (fun l => ⟨pairEndWith l, rfl, rfl⟩)
  · exact b0_ok _ ⟨pairId, rfl, rfl⟩
  · exact b0_ok _ ⟨pairId, rfl, rfl⟩
  · exact b0_ok _ ⟨pairId, rfl, rfl⟩
  · exact b0_ok _ ⟨pairId, rfl, rfl⟩
  · exact b1_ok _ (fun n => ⟨pairOnErrorReturn _, rfl, rfl⟩)
  · exact b1_ok _ (fun n => ⟨pairThrowIfEmpty _, rfl, rfl⟩)
  · exact b0_ok _ ⟨pairMaterializeDematerialize, rfl, rfl⟩
  · exact bBool_ok _ (fun g hg => ⟨pairFind g hg, rfl, rfl⟩)
  · exact b1_ok _ (fun n => ⟨pairDefaultIfEmpty _ _ rfl, rfl, rfl⟩)
  · exact b2_ok _ (fun n d => ⟨pairDefaultIfEmpty _ _ rfl, rfl, rfl⟩)
  · exact b0_ok _ ⟨pairSum, rfl, rfl⟩
  · exact b0_ok _ ⟨pairMin, rfl, rfl⟩
  · exact absurd rfl hmax
  · exact b2_ok _ (fun n d => ⟨pairClamp _ _, rfl, rfl⟩)
  · exact bRed_ok _ (fun g seed hg => ⟨pairReduce g hg seed, rfl, rfl⟩)

/-- Every stage the driver can build for the harness's chains — every int→int catalogue
    operator, parameters, variant and named callback — other than `Max`, is related to itself,
    provided the callbacks' context markers are not the reserved one. -/
theorem stageOf_related (op : String) (p : List Int) (var : String) (cbs : List Cb) (a : AnyM Int)
    (h : stageOf op p var cbs = some a) (hmax : op ≠ "Max") (htag : GoodTags cbs) : Related a a := by
  unfold stageOf at h
  cases hf : stageTable.find? (fun e => e.1 == op) with
  | none => rw [hf] at h; cases h
  | some e =>
    rw [hf] at h
    have hmem : e ∈ stageTable := List.mem_of_find?_eq_some hf
    have hname : e.1 = op := by
      have := List.find?_some hf
      simpa using this
    exact stageTable_ok e hmem (hname ▸ hmax) p var cbs a htag h

/-- a stand-alone counting operator with the licence on is related to the same element with the
    licence off (`return source`) -/
theorem standalone_related (name : String) (aI aP : AnyM Int)
    (hI : standalone true name = some aI) (hP : standalone false name = some aP) : Related aI aP := by
  unfold standalone at hI hP
  split at hI <;> simp at hI hP
  · subst hI hP; exact ⟨pairCntNext, rfl, rfl⟩
  · subst hI hP; exact ⟨pairCntError, rfl, rfl⟩
  · subst hI hP; exact ⟨pairCntComplete, rfl, rfl⟩
  · subst hI hP; exact ⟨pairCntSub, rfl, rfl⟩
  · subst hI hP; exact ⟨pairLag, rfl, rfl⟩

/-- related position by position -/
def RelatedL : List (AnyM α) → List (AnyM α) → Prop
  | [], [] => True
  | a :: as, b :: bs => Related a b ∧ RelatedL as bs
  | _, _ => False

/-- related stages, position by position, are the two sides of a list of `Pair`s -/
theorem pairs_of_related (msI msP : List (AnyM α)) (h : RelatedL msI msP) :
    ∃ ws : List (Pair α), chainI ws = msI ∧ chainP ws = msP := by
  induction msI generalizing msP with
  | nil =>
    cases msP with
    | nil => exact ⟨[], rfl, rfl⟩
    | cons b bs => exact absurd h (by simp [RelatedL])
  | cons a as ih =>
    cases msP with
    | nil => exact absurd h (by simp [RelatedL])
    | cons b bs =>
      obtain ⟨⟨p, hI, hP⟩, hrest⟩ := h
      obtain ⟨ws, hwI, hwP⟩ := ih bs hrest
      exact ⟨p :: ws, by simp [chainI, hI, hwI], by simp [chainP, hP, hwP]⟩

theorem relatedL_self (ms : List (AnyM α)) (h : ∀ a ∈ ms, Related a a) : RelatedL ms ms := by
  induction ms with
  | nil => trivial
  | cons a as ih =>
    exact ⟨h a (List.mem_cons_self ..), ih (fun x hx => h x (List.mem_cons_of_mem _ hx))⟩

end Ro.Prom

/-
  RoProofs.TimedRange — RangeWithInterval = Interval |> Map |> Take: the k-th value is `a ± k`, not
  before `k+1` periods; completion after the last value or after cancellation.
-/
import RoProofs.TimedPeriodic
namespace Ro.Timed

theorem range_vals_getElem? (r : RangeRun) (n k : Nat) (dl : Ev)
    (h : ((r.ticks.take n).mapIdx (fun k t => Ev.at t (.next (rangeVal r.a r.b r.step k))))[k]? = some dl) :
    k < n ∧ ∃ t, r.ticks[k]? = some t ∧ dl = Ev.at t (.next (rangeVal r.a r.b r.step k)) := by
  rw [List.getElem?_mapIdx, List.getElem?_take] at h
  split at h
  next hlt =>
    cases ht : r.ticks[k]? with
    | none => rw [ht] at h; cases h
    | some t => rw [ht] at h; simp at h; exact ⟨hlt, t, rfl, h.symm⟩
  next => cases h

theorem range_model_clause (r : RangeRun) (h : RangeWF r) :
    Clause { op := .rangeWithInterval, d := r.p, a := r.a, b := r.b, step := r.step } (rangeTrace r) := by
  refine ⟨grammarOK_down _ r.unsub _ rfl, silentOK_stopCut _ r.stop r.unsub _ rfl rfl ?_, ?_⟩
  · intro c x hs
    have hfair := h.selectFair c x hs
    have hvals : ∀ n, lateCount c ((r.ticks.take n).mapIdx (fun k t => Ev.at t (.next (rangeVal r.a r.b r.step k)))) ≤ cancelSlack := by
      intro n
      rw [lateCount_mapIdx c _ _ (fun _ _ => rfl)]
      exact Nat.le_trans ((List.take_sublist n r.ticks).filter _).length_le hfair
    unfold rangeAttempts
    simp only
    split
    · have := lateCount_le_length c [Ev.at r.sub .complete]; simp at this; omega
    · split
      · rw [lateCount_append]
        have h2 := lateCount_le_length c [Ev.at ((r.ticks[(rangeCount r.a r.b r.step) - 1]?).getD 0) .complete]
        have := hvals (rangeCount r.a r.b r.step)
        simp at h2; omega
      · rw [lateCount_append]
        have := lateCount_stopAttempt c r.stop
        have := hvals (rangeCount r.a r.b r.step)
        omega
  apply opOK_of_getElem?
  intro k dl hk
  have h1 := down_getElem? hk
  show RangeAt r.a r.b r.step r.p (rangeTrace r) k dl
  unfold rangeAttempts at h1
  simp only at h1
  have valueCase : ∀ t, k < rangeCount r.a r.b r.step → r.ticks[k]? = some t →
      RangeAt r.a r.b r.step r.p (rangeTrace r) k (Ev.at t (.next (rangeVal r.a r.b r.step k))) := by
    intro t hlt ht
    have := h.neverEarly k t ht
    simp only [RangeAt, Ev.at, rangeVal, rangeTrace]
    exact ⟨hlt, trivial, this⟩
  split at h1
  next hz =>
    cases k with
    | zero => simp at h1; subst h1; simp [RangeAt, Ev.at, hz]
    | succ k => simp at h1
  next hnz =>
    split at h1
    next hle =>
      rw [List.getElem?_append] at h1
      split at h1
      next hlt =>
        obtain ⟨hkn, t, ht, rfl⟩ := range_vals_getElem? r _ k dl h1
        exact valueCase t hkn ht
      next hge =>
        have hlen : ((r.ticks.take (rangeCount r.a r.b r.step)).mapIdx (fun k t => Ev.at t (.next (rangeVal r.a r.b r.step k)))).length
            = rangeCount r.a r.b r.step := by simp; omega
        rw [hlen] at hge h1
        cases hj : k - rangeCount r.a r.b r.step with
        | zero =>
          rw [hj] at h1; simp at h1; subst h1
          simp only [RangeAt, Ev.at]; left; omega
        | succ j => rw [hj] at h1; simp at h1
    next hgt =>
      rw [List.getElem?_append] at h1
      split at h1
      next hlt =>
        obtain ⟨hkn, t, ht, rfl⟩ := range_vals_getElem? r _ k dl h1
        exact valueCase t hkn ht
      next hge =>
        obtain ⟨c, x, hs, rfl⟩ := stopAttempt_getElem? h1
        have hcx := h.stopLate c x hs
        simp only [RangeAt, Ev.at]; right
        exact cancelledBy_stopCut _ c x r.unsub (by simp [rangeTrace, hs]) hcx

theorem range_model_accepts (r : RangeRun) (h : RangeWF r) :
    accepts { op := .rangeWithInterval, d := r.p, a := r.a, b := r.b, step := r.step } (rangeTrace r) = true :=
  decide_eq_true (range_model_clause r h)

-- non-vacuity: 5 down to 3 (exclusive), period 10, late ticks
example : (rangeTrace { a := 5, b := 3, p := 10, sub := 0, ticks := [11, 25, 31], stop := none, unsub := none }).dels
    = [Ev.at 11 (.next 5), Ev.at 25 (.next 4), Ev.at 25 .complete] := by decide

end Ro.Timed

/-
  RoProofs.ShareBasic — list helpers, the invariant of RoModel.Share at event boundaries, and the
  "same control state" relation used to discard everything that only touches traces, stored values
  and the drop log.
-/
import RoModel.Share
import RoModel.Spec.Share
namespace Ro.Share

/-! ### lists -/

theorem filter_range_le_one (p : Nat → Bool) (g n : Nat) (h : ∀ k, k < n → p k = true → k = g) :
    ((List.range n).filter p).length ≤ 1 := by
  induction n with
  | zero => simp
  | succ n ih =>
    rw [List.range_succ, List.filter_append]
    by_cases hp : p n = true
    · have hn : n = g := h n (Nat.lt_succ_self n) hp
      have : (List.range n).filter p = [] := by
        rw [List.filter_eq_nil_iff]
        intro a ha hpa
        have := h a (Nat.lt_succ_of_lt (List.mem_range.mp ha)) hpa
        have := List.mem_range.mp ha
        omega
      simp [this, hp]
    · have := ih (fun k hk => h k (Nat.lt_succ_of_lt hk))
      simp [hp, this]

theorem filter_range_eq_nil (p : Nat → Bool) (n : Nat) (h : ∀ k, k < n → p k = false) :
    (List.range n).filter p = [] := by
  rw [List.filter_eq_nil_iff]
  intro a ha
  simp [h a (List.mem_range.mp ha)]

theorem filter_range_all (p : Nat → Bool) (n : Nat) (h : ∀ k, k < n → p k = true) :
    ((List.range n).filter p).length = n := by
  have : (List.range n).filter p = List.range n := by
    rw [List.filter_eq_self]
    intro a ha
    exact h a (List.mem_range.mp ha)
  simp [this]

theorem filter_range_single (p : Nat → Bool) (g n : Nat) (hg : g < n) (hp : p g = true)
    (h : ∀ k, k < n → p k = true → k = g) : ((List.range n).filter p).length = 1 := by
  have h1 := filter_range_le_one p g n h
  have : g ∈ (List.range n).filter p := by
    rw [List.mem_filter]
    exact ⟨List.mem_range.mpr hg, hp⟩
  have : 0 < ((List.range n).filter p).length := List.length_pos_of_mem this
  omega

/-! ### `openSubs` -/

theorem mem_openSubs {s : St} {i : Nat} : i ∈ openSubs s ↔ i < s.nsubs ∧ (s.subs i).status = 0 := by
  simp [openSubs, List.mem_filter]

theorem openSubs_nodup (s : St) : (openSubs s).Nodup :=
  (List.nodup_range).sublist List.filter_sublist

theorem openSubs_eq_nil {s : St} : openSubs s = [] ↔ ∀ i, i < s.nsubs → (s.subs i).status ≠ 0 := by
  simp [openSubs, List.filter_eq_nil_iff]

/-- the open subscribers are the same when the statuses are -/
theorem openSubs_congr {s s' : St} (hn : s'.nsubs = s.nsubs)
    (h : ∀ i, i < s.nsubs → ((s'.subs i).status = 0 ↔ (s.subs i).status = 0)) : openSubs s' = openSubs s := by
  unfold openSubs
  rw [hn]
  apply List.filter_congr
  intro i hi
  have := h i (List.mem_range.mp hi)
  simp [this]

/-- closing subscriber `i` removes it from the list -/
theorem openSubs_close {s s' : St} {i : Nat} (hn : s'.nsubs = s.nsubs)
    (hi : (s'.subs i).status ≠ 0)
    (h : ∀ k, k ≠ i → (s'.subs k).status = (s.subs k).status) : openSubs s' = (openSubs s).erase i := by
  rw [(openSubs_nodup s).erase_eq_filter]
  unfold openSubs
  rw [hn, List.filter_filter]
  apply List.filter_congr
  intro k _
  by_cases hk : k = i
  · subst hk; simp [hi]
  · simp [h k hk, hk]

/-- a new open subscriber is appended -/
theorem openSubs_new {s s' : St} (hn : s'.nsubs = s.nsubs + 1) (hi : (s'.subs s.nsubs).status = 0)
    (h : ∀ k, k < s.nsubs → (s'.subs k).status = (s.subs k).status) : openSubs s' = openSubs s ++ [s.nsubs] := by
  unfold openSubs
  rw [hn, List.range_succ, List.filter_append]
  congr 1
  · apply List.filter_congr
    intro k hk
    simp [h k (List.mem_range.mp hk)]
  · simp [hi]

/-- a new closed subscriber is not -/
theorem openSubs_new_closed {s s' : St} (hn : s'.nsubs = s.nsubs + 1) (hi : (s'.subs s.nsubs).status ≠ 0)
    (h : ∀ k, k < s.nsubs → (s'.subs k).status = (s.subs k).status) : openSubs s' = openSubs s := by
  unfold openSubs
  rw [hn, List.range_succ, List.filter_append]
  have : List.filter (fun i => decide ((s'.subs i).status = 0)) [s.nsubs] = [] := by simp [hi]
  rw [this, List.append_nil]
  apply List.filter_congr
  intro k hk
  simp [h k (List.mem_range.mp hk)]

/-! ### shapes of the objects at event boundaries -/

/-- an open downstream subscriber attached to generation `g` -/
structure SubOpen (g : Nat) (d : DSub) : Prop where
  status : d.status = 0
  done : d.done = false
  delFin : d.delFin = some g
  tearFin : d.tearFin = some g

/-- a downstream subscriber that has ended or left: nothing of it remains registered -/
structure SubClosed (d : DSub) : Prop where
  status : d.status ≠ 0
  done : d.done = true
  delFin : d.delFin = none
  tearFin : d.tearFin = none

/-- the creator of a generation while it is still inside the source's `Subscribe` (region R3 not
    finished): registered on the subject, Share's teardown not registered yet -/
structure SubOpenU (g : Nat) (d : DSub) : Prop where
  status : d.status = 0
  done : d.done = false
  delFin : d.delFin = some g
  tearFin : d.tearFin = none

/-- **pending creator** (nesting depth one): `ug` = the generation whose creator is still inside the
    source's `Subscribe` (its R3 is unfinished: upstream teardown not registered on the proxy, proxy not
    yet added to the `sourceSubscription`, Share's teardown not registered); `ua` = that creator as long
    as it is still open. Between top-level events nothing is pending: `Pend.idle`. -/
structure Pend where
  ug : Option Nat := none
  ua : Option Nat := none

def Pend.idle : Pend := {}

/-- the pending creator has ended (terminal inside its own `Subscribe`) -/
def Pend.drop (P : Pend) : Pend := { P with ua := none }

/-- references counted in `refCount` that belong to no open subscriber: the pending creator once it
    has been closed (it gives its reference back only when its `Subscribe` returns) -/
def Pend.c (P : Pend) : Nat := if P.ug.isSome && P.ua.isNone then 1 else 0

@[simp] theorem Pend.c_idle : Pend.idle.c = 0 := rfl
@[simp] theorem Pend.drop_idle : Pend.idle.drop = Pend.idle := rfl
@[simp] theorem Pend.idle_ug : Pend.idle.ug = none := rfl
@[simp] theorem Pend.idle_ua : Pend.idle.ua = none := rfl

/-- the current generation while its upstream subscription is live -/
structure GenActive (P : Pend) (s : St) (g : Nat) : Prop where
  pStatus : (s.gens g).pStatus = 0
  pDone : (s.gens g).pDone = false
  upSub : (s.gens g).upSub = true
  upTorn : (s.gens g).upTorn = false
  ssDone : (s.gens g).ssDone = false
  isOpen : (s.gens g).subj.status = .open
  flagE : s.flagE = false
  flagC : s.flagC = false
  obs : (s.gens g).subj.obs = openSubs s
  /-- R3 of its creator is finished -/
  fin : P.ug ≠ some g → (s.gens g).pFin = true ∧ (s.gens g).ssFins = [g]
  /-- … or still running: then the creator is the pending open subscriber -/
  unf : P.ug = some g → (s.gens g).pFin = false ∧ (s.gens g).ssFins = [] ∧
    ∃ A, P.ua = some A ∧ A < s.nsubs ∧ SubOpenU g (s.subs A)
  subs : ∀ i, i < s.nsubs → (s.subs i).status = 0 → P.ua ≠ some i → SubOpen g (s.subs i)

/-- the current generation after a source terminal that the configuration does not reset on:
    the terminated subject stays the shared one for ever -/
structure GenLatched (P : Pend) (s : St) (g : Nat) : Prop where
  pStatus : (s.gens g).pStatus ≠ 0
  pDone : (s.gens g).pDone = true
  pFin : (s.gens g).pFin = false
  upSub : (s.gens g).upSub = true
  ssDone : (s.gens g).ssDone = false
  closed : (s.gens g).subj.status ≠ .open
  obs : (s.gens g).subj.obs = []
  flag : s.flagE = true ∨ s.flagC = true
  noOpen : openSubs s = []
  fin : P.ug ≠ some g → (s.gens g).upTorn = true ∧ (s.gens g).ssFins = [g]
  unf : P.ug = some g → (s.gens g).upTorn = false ∧ (s.gens g).ssFins = [] ∧ P.ua = none

/-- a generation that has been reset -/
structure GenStale (x : Gen) : Prop where
  pStatus : x.pStatus ≠ 0
  pDone : x.pDone = true
  pFin : x.pFin = false
  upSub : x.upSub = true
  upTorn : x.upTorn = true
  ssFins : x.ssFins = []
  ssDone : x.ssDone = true
  obs : x.subj.obs = []

/-- the pending generation after it has been reset (by a terminal inside its creator's `Subscribe`):
    ended by the source, its teardown not run yet (it is not even registered) -/
structure GenEnded (x : Gen) : Prop where
  pStatus : x.pStatus ≠ 0
  pDone : x.pDone = true
  pFin : x.pFin = false
  upSub : x.upSub = true
  upTorn : x.upTorn = false
  ssFins : x.ssFins = []
  ssDone : x.ssDone = true
  obs : x.subj.obs = []

/-- what holds of every reachable state between two events (`P = Pend.idle`), and — with a pending
    creator `P` — between two events that happen inside the source's `Subscribe` -/
structure Inv (P : Pend) (s : St) : Prop where
  shared : s.sourceSubscription = s.subject
  closed : ∀ i, i < s.nsubs → (s.subs i).status ≠ 0 → SubClosed (s.subs i)
  stale : ∀ g, g < s.ngens → s.subject ≠ some g → P.ug ≠ some g → GenStale (s.gens g)
  ended : ∀ g, g < s.ngens → s.subject ≠ some g → P.ug = some g → GenEnded (s.gens g) ∧ P.ua = none
  count : s.refCount = ((openSubs s).length + P.c : Nat)
  idle : s.subject = none → s.flagE = false ∧ s.flagC = false ∧ openSubs s = []
  cur : ∀ g, s.subject = some g → g < s.ngens ∧ (GenActive P s g ∨ GenLatched P s g)
  ugb : ∀ g, P.ug = some g → g < s.ngens
  uab : ∀ A, P.ua = some A → P.ug = s.subject ∧ s.subject ≠ none

theorem Inv.init : Inv Pend.idle {} := by
  constructor <;> simp [openSubs]

/-! ### same control state -/

/-- `s'` differs from `s` at most in traces, the subjects' stored values and the drop log -/
structure Sim (s s' : St) : Prop where
  refCount : s'.refCount = s.refCount
  subject : s'.subject = s.subject
  sourceSubscription : s'.sourceSubscription = s.sourceSubscription
  flagE : s'.flagE = s.flagE
  flagC : s'.flagC = s.flagC
  ngens : s'.ngens = s.ngens
  nsubs : s'.nsubs = s.nsubs
  status : ∀ k, (s'.subs k).status = (s.subs k).status
  done : ∀ k, (s'.subs k).done = (s.subs k).done
  delFin : ∀ k, (s'.subs k).delFin = (s.subs k).delFin
  tearFin : ∀ k, (s'.subs k).tearFin = (s.subs k).tearFin
  gStatus : ∀ k, (s'.gens k).subj.status = (s.gens k).subj.status
  gObs : ∀ k, (s'.gens k).subj.obs = (s.gens k).subj.obs
  ssDone : ∀ k, (s'.gens k).ssDone = (s.gens k).ssDone
  ssFins : ∀ k, (s'.gens k).ssFins = (s.gens k).ssFins
  pStatus : ∀ k, (s'.gens k).pStatus = (s.gens k).pStatus
  pDone : ∀ k, (s'.gens k).pDone = (s.gens k).pDone
  pFin : ∀ k, (s'.gens k).pFin = (s.gens k).pFin
  upSub : ∀ k, (s'.gens k).upSub = (s.gens k).upSub
  upTorn : ∀ k, (s'.gens k).upTorn = (s.gens k).upTorn

theorem Sim.refl (s : St) : Sim s s := by constructor <;> intros <;> rfl

theorem Sim.trans {a b c : St} (h1 : Sim a b) (h2 : Sim b c) : Sim a c := by
  constructor
  all_goals first
    | (intro k; first
        | exact (h2.status k).trans (h1.status k) | exact (h2.done k).trans (h1.done k)
        | exact (h2.delFin k).trans (h1.delFin k) | exact (h2.tearFin k).trans (h1.tearFin k)
        | exact (h2.gStatus k).trans (h1.gStatus k) | exact (h2.gObs k).trans (h1.gObs k)
        | exact (h2.ssDone k).trans (h1.ssDone k) | exact (h2.ssFins k).trans (h1.ssFins k)
        | exact (h2.pStatus k).trans (h1.pStatus k) | exact (h2.pDone k).trans (h1.pDone k)
        | exact (h2.pFin k).trans (h1.pFin k) | exact (h2.upSub k).trans (h1.upSub k)
        | exact (h2.upTorn k).trans (h1.upTorn k))
    | exact h2.refCount.trans h1.refCount | exact h2.subject.trans h1.subject
    | exact h2.sourceSubscription.trans h1.sourceSubscription | exact h2.flagE.trans h1.flagE
    | exact h2.flagC.trans h1.flagC | exact h2.ngens.trans h1.ngens | exact h2.nsubs.trans h1.nsubs


theorem Sim.openSubs {s s' : St} (h : Sim s s') : openSubs s' = openSubs s :=
  openSubs_congr h.nsubs (fun i _ => by rw [h.status i])

theorem Sim.live {s s' : St} (h : Sim s s') : s'.live = s.live := by
  unfold St.live St.upLive
  rw [h.ngens]
  congr 1
  apply List.filter_congr
  intro k _
  rw [h.upSub k, h.upTorn k]

theorem Sim.total {s s' : St} (h : Sim s s') : s'.total = s.total := by
  unfold St.total
  rw [h.ngens]
  congr 1
  apply List.filter_congr
  intro k _
  rw [h.upSub k]

theorem SubOpen.sim {s s' : St} (h : Sim s s') {g k : Nat} (ho : SubOpen g (s.subs k)) : SubOpen g (s'.subs k) :=
  ⟨by rw [h.status]; exact ho.status, by rw [h.done]; exact ho.done, by rw [h.delFin]; exact ho.delFin,
   by rw [h.tearFin]; exact ho.tearFin⟩

theorem SubClosed.sim {s s' : St} (h : Sim s s') {k : Nat} (ho : SubClosed (s.subs k)) : SubClosed (s'.subs k) :=
  ⟨by rw [h.status]; exact ho.status, by rw [h.done]; exact ho.done, by rw [h.delFin]; exact ho.delFin,
   by rw [h.tearFin]; exact ho.tearFin⟩

theorem GenStale.sim {s s' : St} (h : Sim s s') {g : Nat} (ho : GenStale (s.gens g)) : GenStale (s'.gens g) :=
  ⟨by rw [h.pStatus]; exact ho.pStatus, by rw [h.pDone]; exact ho.pDone, by rw [h.pFin]; exact ho.pFin,
   by rw [h.upSub]; exact ho.upSub, by rw [h.upTorn]; exact ho.upTorn, by rw [h.ssFins]; exact ho.ssFins,
   by rw [h.ssDone]; exact ho.ssDone, by rw [h.gObs]; exact ho.obs⟩

theorem SubOpenU.sim {s s' : St} (h : Sim s s') {g k : Nat} (ho : SubOpenU g (s.subs k)) : SubOpenU g (s'.subs k) :=
  ⟨by rw [h.status]; exact ho.status, by rw [h.done]; exact ho.done, by rw [h.delFin]; exact ho.delFin,
   by rw [h.tearFin]; exact ho.tearFin⟩

theorem GenEnded.sim {s s' : St} (h : Sim s s') {g : Nat} (ho : GenEnded (s.gens g)) : GenEnded (s'.gens g) :=
  ⟨by rw [h.pStatus]; exact ho.pStatus, by rw [h.pDone]; exact ho.pDone, by rw [h.pFin]; exact ho.pFin,
   by rw [h.upSub]; exact ho.upSub, by rw [h.upTorn]; exact ho.upTorn, by rw [h.ssFins]; exact ho.ssFins,
   by rw [h.ssDone]; exact ho.ssDone, by rw [h.gObs]; exact ho.obs⟩

theorem GenActive.sim {P : Pend} {s s' : St} (h : Sim s s') {g : Nat} (ho : GenActive P s g) : GenActive P s' g where
  pStatus := by rw [h.pStatus]; exact ho.pStatus
  pDone := by rw [h.pDone]; exact ho.pDone
  upSub := by rw [h.upSub]; exact ho.upSub
  upTorn := by rw [h.upTorn]; exact ho.upTorn
  ssDone := by rw [h.ssDone]; exact ho.ssDone
  isOpen := by rw [h.gStatus]; exact ho.isOpen
  flagE := by rw [h.flagE]; exact ho.flagE
  flagC := by rw [h.flagC]; exact ho.flagC
  obs := by rw [h.gObs, h.openSubs]; exact ho.obs
  fin := fun hne => by rw [h.pFin, h.ssFins]; exact ho.fin hne
  unf := fun he => by
    obtain ⟨h1, h2, A, hA, hlt, hu⟩ := ho.unf he
    exact ⟨by rw [h.pFin]; exact h1, by rw [h.ssFins]; exact h2, A, hA, by rw [h.nsubs]; exact hlt, hu.sim h⟩
  subs := fun i hi hs hne => (ho.subs i (by rw [← h.nsubs]; exact hi) (by rw [← h.status]; exact hs) hne).sim h

theorem GenLatched.sim {P : Pend} {s s' : St} (h : Sim s s') {g : Nat} (ho : GenLatched P s g) : GenLatched P s' g where
  pStatus := by rw [h.pStatus]; exact ho.pStatus
  pDone := by rw [h.pDone]; exact ho.pDone
  pFin := by rw [h.pFin]; exact ho.pFin
  upSub := by rw [h.upSub]; exact ho.upSub
  ssDone := by rw [h.ssDone]; exact ho.ssDone
  closed := by rw [h.gStatus]; exact ho.closed
  obs := by rw [h.gObs]; exact ho.obs
  flag := by rw [h.flagE, h.flagC]; exact ho.flag
  noOpen := by rw [h.openSubs]; exact ho.noOpen
  fin := fun hne => by rw [h.upTorn, h.ssFins]; exact ho.fin hne
  unf := fun he => by rw [h.upTorn, h.ssFins]; exact ho.unf he

/-- the invariant does not see traces, stored values or drops -/
theorem Inv.sim {P : Pend} {s s' : St} (hi : Inv P s) (h : Sim s s') : Inv P s' where
  shared := by rw [h.sourceSubscription, h.subject]; exact hi.shared
  closed := fun i hlt hs => (hi.closed i (by rw [← h.nsubs]; exact hlt) (by rw [← h.status]; exact hs)).sim h
  stale := fun g hg hne hu => (hi.stale g (by rw [← h.ngens]; exact hg) (by rw [← h.subject]; exact hne) hu).sim h
  ended := fun g hg hne hu => by
    have := hi.ended g (by rw [← h.ngens]; exact hg) (by rw [← h.subject]; exact hne) hu
    exact ⟨this.1.sim h, this.2⟩
  count := by rw [h.refCount, h.openSubs]; exact hi.count
  idle := fun hn => by
    rw [h.flagE, h.flagC, h.openSubs]
    exact hi.idle (by rw [← h.subject]; exact hn)
  cur := fun g hg => by
    have := hi.cur g (by rw [← h.subject]; exact hg)
    refine ⟨by rw [h.ngens]; exact this.1, ?_⟩
    rcases this.2 with ha | hl
    · exact Or.inl (ha.sim h)
    · exact Or.inr (hl.sim h)
  ugb := fun g hg => by rw [h.ngens]; exact hi.ugb g hg
  uab := fun A hA => by rw [h.subject]; exact hi.uab A hA

/-- with nothing pending the current live generation is finished -/
theorem GenActive.pFin {s : St} {g : Nat} (h : GenActive Pend.idle s g) : (s.gens g).pFin = true := (h.fin (by simp)).1
theorem GenActive.ssFins {s : St} {g : Nat} (h : GenActive Pend.idle s g) : (s.gens g).ssFins = [g] := (h.fin (by simp)).2
theorem GenLatched.upTorn {s : St} {g : Nat} (h : GenLatched Pend.idle s g) : (s.gens g).upTorn = true := (h.fin (by simp)).1
theorem GenLatched.ssFins {s : St} {g : Nat} (h : GenLatched Pend.idle s g) : (s.gens g).ssFins = [g] := (h.fin (by simp)).2

end Ro.Share

/-
  RoProofs.PromChain — generic facts about chains with one gate per stage (`Ro.Prom.push`,
  `subscribePhase`, `settle`, `closeAll`, `run`): how head gates move, and the local-invariant
  principle (a per-stage invariant over (state, accepted notifications) that holds initially and
  is kept by the stage's own reactions holds in every configuration a run can reach).
-/
import RoModel.Prom
import RoProofs.Gate
namespace Ro.Prom
open Ro

variable {α : Type}

/-! ### feedAll -/

@[simp] theorem feedAll_nil {C : Type} (f : C → Notif α → C × List (Notif α)) (c : C) :
    feedAll f c [] = (c, []) := rfl

theorem feedAll_cons {C : Type} (f : C → Notif α → C × List (Notif α)) (c : C) (n : Notif α) (ns) :
    feedAll f c (n :: ns) = ((feedAll f (f c n).1 ns).1, (f c n).2 ++ (feedAll f (f c n).1 ns).2) := rfl

theorem feedAll_append {C : Type} (f : C → Notif α → C × List (Notif α)) (c : C) (a b : List (Notif α)) :
    feedAll f c (a ++ b) = ((feedAll f (feedAll f c a).1 b).1, (feedAll f c a).2 ++ (feedAll f (feedAll f c a).1 b).2) := by
  induction a generalizing c with
  | nil => simp
  | cons x xs ih => simp [feedAll_cons, ih, List.append_assoc]

/-- an invariant kept by every single step is kept by `feedAll` -/
theorem feedAll_inv {C : Type} (f : C → Notif α → C × List (Notif α)) (P : C → Prop)
    (h : ∀ c n, P c → P (f c n).1) (c : C) (ns : List (Notif α)) (hc : P c) : P (feedAll f c ns).1 := by
  induction ns generalizing c with
  | nil => simpa
  | cons x xs ih => rw [feedAll_cons]; exact ih _ (h _ _ hc)

/-! ### unfolding one level -/

theorem push_cons_open (hot : Bool) (a : AnyM α) (rest : List (AnyM α)) (c : Cfg (a :: rest)) (n : Notif α)
    (h : c.1.gate = true) :
    push hot (a :: rest) c n =
      (({ c.1 with st := (a.m.step c.1.st n).1,
                   gate := !n.isTerminal && !(hot && !headOpen rest (feedAll (push hot rest) c.2 (a.m.step c.1.st n).2).1),
                   seen := c.1.seen ++ [n] },
        (feedAll (push hot rest) c.2 (a.m.step c.1.st n).2).1),
       (feedAll (push hot rest) c.2 (a.m.step c.1.st n).2).2) := by
  simp only [push, h, if_true]
  rfl

theorem push_sink_open (hot : Bool) (c : Cfg ([] : List (AnyM α))) (n : Notif α) (h : SinkSt.gate c = true) :
    push hot [] c n = (({ gate := !n.isTerminal } : SinkSt), [n]) := by
  simp only [push, h, if_true]
  rfl

theorem subscribePhase_cons_reached (sub : Ctx) (a : AnyM α) (rest : List (AnyM α)) (c : Cfg (a :: rest))
    (h : (subscribePhase sub rest c.2).reached = true) :
    subscribePhase sub (a :: rest) c =
      { cfg := ({ c.1 with st := (a.m.onSubscribe c.1.st sub).1, subd := c.1.subd + 1 },
                (feedAll (push false rest) (subscribePhase sub rest c.2).cfg (a.m.onSubscribe c.1.st sub).2).1),
        out := (subscribePhase sub rest c.2).out ++
               (feedAll (push false rest) (subscribePhase sub rest c.2).cfg (a.m.onSubscribe c.1.st sub).2).2,
        reached := a.m.subscribes } := by
  simp [subscribePhase, h]

theorem subscribePhase_cons_unreached (sub : Ctx) (a : AnyM α) (rest : List (AnyM α)) (c : Cfg (a :: rest))
    (h : (subscribePhase sub rest c.2).reached = false) :
    subscribePhase sub (a :: rest) c =
      { cfg := (c.1, (subscribePhase sub rest c.2).cfg), out := (subscribePhase sub rest c.2).out, reached := false } := by
  simp [subscribePhase, h]

/-! ### head gates -/

theorem push_closed (hot : Bool) (ms : List (AnyM α)) (c : Cfg ms) (n : Notif α)
    (h : headOpen ms c = false) : push hot ms c n = (c, []) := by
  cases ms with
  | nil => simp only [headOpen] at h; simp [push, h]
  | cons a rest => simp only [headOpen] at h; simp [push, h]

/-- a head gate that is open after a push was open before it, and the notification was a value -/
theorem push_headOpen_le (hot : Bool) (ms : List (AnyM α)) (c : Cfg ms) (n : Notif α)
    (h : headOpen ms (push hot ms c n).1 = true) : headOpen ms c = true ∧ n.isTerminal = false := by
  cases ms with
  | nil =>
    simp only [push] at h
    by_cases hg : SinkSt.gate c = true
    · simp only [hg, if_true, headOpen] at h
      exact ⟨by simpa [headOpen] using hg, by simpa using h⟩
    · simp only [hg] at h
      simp [headOpen] at h
      exact absurd h hg
  | cons a rest =>
    simp only [push] at h
    by_cases hg : c.1.gate = true
    · simp only [hg, if_true, headOpen] at h
      simp only [Bool.and_eq_true, Bool.not_eq_true'] at h
      exact ⟨by simpa [headOpen] using hg, h.1⟩
    · simp only [hg] at h
      simp [headOpen] at h
      exact absurd h hg

/-- without registered teardowns a head gate closes at a terminal and at nothing else -/
theorem push_headOpen_sync (ms : List (AnyM α)) (c : Cfg ms) (n : Notif α)
    (h : headOpen ms c = true) : headOpen ms (push false ms c n).1 = !n.isTerminal := by
  cases ms with
  | nil => simp only [headOpen] at h; simp [push, h, headOpen]
  | cons a rest => simp only [headOpen] at h; simp [push, h, headOpen]

theorem feedAll_push_closed (hot : Bool) (ms : List (AnyM α)) (c : Cfg ms) (ns : List (Notif α))
    (h : headOpen ms c = false) : feedAll (push hot ms) c ns = (c, []) := by
  induction ns with
  | nil => rfl
  | cons x xs ih => rw [feedAll_cons, push_closed hot ms c x h]; simp [ih]

theorem subscribePhase_headOpen (sub : Ctx) (ms : List (AnyM α)) (c : Cfg ms) :
    headOpen ms (subscribePhase sub ms c).cfg = headOpen ms c := by
  cases ms with
  | nil => rfl
  | cons a rest =>
    simp only [subscribePhase]
    split <;> rfl

theorem settle_headOpen_le (ms : List (AnyM α)) (c : Cfg ms)
    (h : headOpen ms (settle ms c) = true) : headOpen ms c = true := by
  cases ms with
  | nil => simpa [settle] using h
  | cons a rest =>
    simp only [settle, headOpen, Bool.and_eq_true] at h
    simpa [headOpen] using h.1

theorem closeAll_headOpen (ms : List (AnyM α)) (c : Cfg ms) : headOpen ms (closeAll ms c) = false := by
  cases ms with
  | nil => rfl
  | cons a rest => rfl

theorem allOpen_headOpen (ms : List (AnyM α)) (c : Cfg ms) (h : allOpen ms c = true) : headOpen ms c = true := by
  cases ms with
  | nil => simpa [allOpen, headOpen] using h
  | cons a rest =>
    simp only [allOpen, Bool.and_eq_true] at h
    simpa [headOpen] using h.1

/-! ### the four shapes of a run -/

theorem run_unreached (hot : Bool) (sub : Ctx) (ms : List (AnyM α)) (raw : List (Notif α)) (cut : Option Nat)
    (h : (subscribePhase sub ms (initCfg ms)).reached = false) :
    run hot sub ms raw cut =
      { cfg := (subscribePhase sub ms (initCfg ms)).cfg, out := (subscribePhase sub ms (initCfg ms)).out,
        srcSubs := 0, rel := 0 } := by
  simp [run, h]

theorem run_sync (sub : Ctx) (ms : List (AnyM α)) (raw : List (Notif α)) (cut : Option Nat)
    (h : (subscribePhase sub ms (initCfg ms)).reached = true) :
    run false sub ms raw cut =
      { cfg := settle ms (feedAll (push false ms) (subscribePhase sub ms (initCfg ms)).cfg raw).1,
        out := (subscribePhase sub ms (initCfg ms)).out ++ (feedAll (push false ms) (subscribePhase sub ms (initCfg ms)).cfg raw).2,
        srcSubs := 1,
        rel := if allOpen ms (settle ms (feedAll (push false ms) (subscribePhase sub ms (initCfg ms)).cfg raw).1) then 0 else 1 } := by
  simp [run, h]

theorem run_hot_none (sub : Ctx) (ms : List (AnyM α)) (raw : List (Notif α))
    (h : (subscribePhase sub ms (initCfg ms)).reached = true) :
    run true sub ms raw none =
      { cfg := (feedAll (push true ms) (settle ms (subscribePhase sub ms (initCfg ms)).cfg) raw).1,
        out := (subscribePhase sub ms (initCfg ms)).out ++ (feedAll (push true ms) (settle ms (subscribePhase sub ms (initCfg ms)).cfg) raw).2,
        srcSubs := 1,
        rel := if allOpen ms (feedAll (push true ms) (settle ms (subscribePhase sub ms (initCfg ms)).cfg) raw).1 then 0 else 1 } := by
  simp [run, h]

theorem run_hot_some (sub : Ctx) (ms : List (AnyM α)) (raw : List (Notif α)) (k : Nat)
    (h : (subscribePhase sub ms (initCfg ms)).reached = true) :
    run true sub ms raw (some k) =
      { cfg := (feedAll (push true ms) (closeAll ms (feedAll (push true ms) (settle ms (subscribePhase sub ms (initCfg ms)).cfg) (raw.take k)).1) (raw.drop k)).1,
        out := (subscribePhase sub ms (initCfg ms)).out ++ (feedAll (push true ms) (settle ms (subscribePhase sub ms (initCfg ms)).cfg) (raw.take k)).2
                ++ (feedAll (push true ms) (closeAll ms (feedAll (push true ms) (settle ms (subscribePhase sub ms (initCfg ms)).cfg) (raw.take k)).1) (raw.drop k)).2,
        srcSubs := 1, rel := 1 } := by
  simp [run, h]

/-! ### local invariants -/

/-- a per-stage predicate over (machine state, notifications accepted so far, runs of the
    subscribe function so far) -/
def AllInv (I : (a : AnyM α) → a.σ → List (Notif α) → Nat → Prop) : (ms : List (AnyM α)) → Cfg ms → Prop
  | [], _ => True
  | a :: rest, c => I a c.1.st c.1.seen c.1.subd ∧ AllInv I rest c.2

/-- … that holds initially and is kept by the stage's own reactions -/
structure LocalInv (I : (a : AnyM α) → a.σ → List (Notif α) → Nat → Prop) : Prop where
  init : ∀ a, I a a.m.init [] 0
  sub : ∀ a s l k c, I a s l k → I a (a.m.onSubscribe s c).1 l (k + 1)
  step : ∀ a s l k n, I a s l k → I a (a.m.step s n).1 (l ++ [n]) k

variable {I : (a : AnyM α) → a.σ → List (Notif α) → Nat → Prop}

theorem allInv_init (h : LocalInv I) (ms : List (AnyM α)) : AllInv I ms (initCfg ms) := by
  induction ms with
  | nil => trivial
  | cons a rest ih => exact ⟨h.init a, ih⟩

theorem allInv_push (h : LocalInv I) (hot : Bool) (ms : List (AnyM α)) (c : Cfg ms) (n : Notif α)
    (hc : AllInv I ms c) : AllInv I ms (push hot ms c n).1 := by
  induction ms generalizing n with
  | nil => trivial
  | cons a rest ih =>
    simp only [push]
    split
    · refine ⟨h.step a _ _ _ n hc.1, ?_⟩
      exact feedAll_inv _ (AllInv I rest) (fun c' n' hc' => ih c' n' hc') _ _ hc.2
    · exact hc

theorem allInv_feedAll (h : LocalInv I) (hot : Bool) (ms : List (AnyM α)) (c : Cfg ms) (ns : List (Notif α))
    (hc : AllInv I ms c) : AllInv I ms (feedAll (push hot ms) c ns).1 :=
  feedAll_inv _ (AllInv I ms) (fun c' n' hc' => allInv_push h hot ms c' n' hc') _ _ hc

theorem allInv_settle (ms : List (AnyM α)) (c : Cfg ms) (hc : AllInv I ms c) : AllInv I ms (settle ms c) := by
  induction ms with
  | nil => trivial
  | cons a rest ih => exact ⟨hc.1, ih c.2 hc.2⟩

theorem allInv_closeAll (ms : List (AnyM α)) (c : Cfg ms) (hc : AllInv I ms c) : AllInv I ms (closeAll ms c) := by
  induction ms with
  | nil => trivial
  | cons a rest ih => exact ⟨hc.1, ih c.2 hc.2⟩

theorem allInv_subscribePhase (h : LocalInv I) (sub : Ctx) (ms : List (AnyM α)) (c : Cfg ms)
    (hc : AllInv I ms c) : AllInv I ms (subscribePhase sub ms c).cfg := by
  induction ms with
  | nil => trivial
  | cons a rest ih =>
    simp only [subscribePhase]
    split
    · exact ⟨h.sub a _ _ _ sub hc.1, allInv_feedAll h false rest _ _ (ih c.2 hc.2)⟩
    · exact ⟨hc.1, ih c.2 hc.2⟩

/-- the local-invariant principle: every configuration at the end of a run -/
theorem allInv_run (h : LocalInv I) (hot : Bool) (sub : Ctx) (ms : List (AnyM α)) (raw : List (Notif α))
    (cut : Option Nat) : AllInv I ms (run hot sub ms raw cut).cfg := by
  have h0 := allInv_subscribePhase h sub ms (initCfg ms) (allInv_init h ms)
  unfold run
  simp only
  split
  · exact h0
  · split
    · exact allInv_settle ms _ (allInv_feedAll h false ms _ raw h0)
    · cases cut with
      | none => exact allInv_feedAll h true ms _ raw (allInv_settle ms _ h0)
      | some k =>
        exact allInv_feedAll h true ms _ _ (allInv_closeAll ms _ (allInv_feedAll h true ms _ _ (allInv_settle ms _ h0)))

end Ro.Prom

/-
  RoProofs.ChanFrom — invariants of the `From` transition system (FromChannel,
  operator_creation.go:340-364) of RoModel/Chan.lean, for every schedule of the user of the input
  channel, the FromChannel goroutine (both branches of its select) and the unsubscribing thread.
-/
import RoModel.Chan
import RoProofs.Gate
namespace Ro.Chan
open Ro
variable {α : Type}

def ufin : UPc α → Bool
  | .fin => true
  | _ => false

/-- the consumer has not yet seen the channel closed -/
def freading : FPc α → Bool
  | .sel | .hold _ | .complete => true
  | _ => false

def FCpcOK (s : FSt α) : Prop :=
  match s.cpc with
  | .complete => s.closed = true ∧ s.q = []
  | _ => True

def b2n (b : Bool) : Nat := if b then 1 else 0

def fAtClose : FPc α → Bool
  | .closeDone => true
  | _ => false

structure FInv (inp₀ : List α) (s : FSt α) : Prop where
  /-- FIFO, nothing lost, nothing invented -/
  cons : inp₀ = s.recvd ++ s.q ++ uhand s.upc ++ s.inp
  handledPre : s.recvd = s.handled ++ fhold s.cpc
  room : s.q.length ≤ s.cap
  closedFin : s.closed = true → ufin s.upc = true ∧ s.inp = []
  finClosed : ufin s.upc = true → s.willClose = true → s.closed = true
  cpc : FCpcOK s
  /-- while the downstream is open everything handled was delivered -/
  outOpen : s.downOpen = true → s.out = s.handled.map (Notif.next s.sub)
  /-- nobody unsubscribed and the downstream is closed: the stream was completed after everything
      had been read and delivered -/
  outDone : s.tpc = .cas → s.downOpen = false →
    s.out = s.handled.map (Notif.next s.sub) ++ [.complete s.sub] ∧ s.inp = [] ∧ s.q = [] ∧
      uhand s.upc = [] ∧ fhold s.cpc = []
  outPre : ∃ t, s.out ++ t = inp₀.map (Notif.next s.sub) ++ [.complete s.sub]
  readingOpen : s.tpc = .cas → freading s.cpc = true → s.downOpen = true
  leftClosed : s.tpc = .cas → freading s.cpc = false → s.downOpen = false
  doneExited : s.tpc = .cas → s.doneClosed = true → freading s.cpc = false
  /-- `close(done)` is guarded by the test-and-set of `Subscription.done` -/
  once : s.doneCloses + b2n (fAtClose s.cpc) + b2n (s.tpc == .closeDone) = b2n s.subDone
  doneSub : s.doneClosed = true → s.subDone = true
  /-- nobody unsubscribed: the goroutine stops reading only because the channel was closed -/
  leftCh : s.tpc = .cas → freading s.cpc = false → s.closed = true

theorem finv_init (cap : Nat) (sub : Ctx) (inp₀ : List α) (wc : Bool) : FInv inp₀ (finit cap sub inp₀ wc) := by
  constructor <;> simp [finit, uhand, fhold, ufin, freading, FCpcOK, b2n, fAtClose]

macro "finv_auto" : tactic =>
  `(tactic| (constructor <;> dsimp only [uhand, fhold, ufin, freading, FCpcOK, b2n, fAtClose] at * <;>
      first
      | assumption
      | (simp_all; done)
      | (intros; (try simp only [List.length_append, List.length_cons, List.length_nil] at *); omega)
      | (split <;> simp_all; done)
      | skip))

theorem finv_user {inp₀ : List α} {s s' : FSt α} (h : FInv inp₀ s) (hs : fstepUser s = some s') : FInv inp₀ s' := by
  obtain ⟨hcons, hhp, hroom, hcf, hfc, hc, hoo, hod, hop, hro, hlc, hde, honce, hds, hlch⟩ := h
  unfold fstepUser at hs
  repeat' split at hs
  all_goals first | (simp at hs; done) | (simp only [Option.some.injEq] at hs; subst hs; finv_auto)

theorem finv_cons {inp₀ : List α} {s s' : FSt α} (h : FInv inp₀ s) (hs : fstepCons s = some s') : FInv inp₀ s' := by
  obtain ⟨hcons, hhp, hroom, hcf, hfc, hc, hoo, hod, hop, hro, hlc, hde, honce, hds, hlch⟩ := h
  have hroomq : ∀ v q', s.q = v :: q' → q'.length ≤ s.cap := by
    intro v q' hq; rw [hq] at hroom; simp at hroom; omega
  have hsub1 : fAtClose s.cpc = true → s.subDone = true := by
    intro h1; cases hsd : s.subDone <;> simp_all [b2n]
  have hsub2 : s.tpc = .closeDone → s.subDone = true := by
    intro h1; cases hsd : s.subDone <;> simp_all [b2n]
  have hcomp : s.cpc = .complete → s.downOpen = true →
      ∃ t, s.out ++ [.complete s.sub] ++ t = inp₀.map (Notif.next s.sub) ++ [.complete s.sub] := by
    intro h1 h2
    refine ⟨[], ?_⟩
    simp only [FCpcOK, h1] at hc
    have ⟨hu, hi⟩ := hcf hc.1
    have hu' : uhand s.upc = [] := by cases hup : s.upc <;> simp_all [ufin, uhand]
    rw [hoo h2, hcons, hhp, h1, hc.2, hu', hi]; simp [fhold]
  unfold fstepCons at hs
  repeat' split at hs
  all_goals first | (simp at hs; done) | (simp only [Option.some.injEq] at hs; subst hs; finv_auto)

theorem finv_quit {inp₀ : List α} {s s' : FSt α} (h : FInv inp₀ s) (hs : fstepQuit s = some s') : FInv inp₀ s' := by
  obtain ⟨hcons, hhp, hroom, hcf, hfc, hc, hoo, hod, hop, hro, hlc, hde, honce, hds, hlch⟩ := h
  unfold fstepQuit at hs
  repeat' split at hs
  all_goals first | (simp at hs; done) | (simp only [Option.some.injEq] at hs; subst hs; finv_auto)

theorem finv_ctl {inp₀ : List α} {s s' : FSt α} (h : FInv inp₀ s) (hs : fstepCtl s = some s') : FInv inp₀ s' := by
  obtain ⟨hcons, hhp, hroom, hcf, hfc, hc, hoo, hod, hop, hro, hlc, hde, honce, hds, hlch⟩ := h
  have hroomq : ∀ v q', s.q = v :: q' → q'.length ≤ s.cap := by
    intro v q' hq; rw [hq] at hroom; simp at hroom; omega
  have hsub1 : fAtClose s.cpc = true → s.subDone = true := by
    intro h1; cases hsd : s.subDone <;> simp_all [b2n]
  have hsub2 : s.tpc = .closeDone → s.subDone = true := by
    intro h1; cases hsd : s.subDone <;> simp_all [b2n]
  have hcomp : s.cpc = .complete → s.downOpen = true →
      ∃ t, s.out ++ [.complete s.sub] ++ t = inp₀.map (Notif.next s.sub) ++ [.complete s.sub] := by
    intro h1 h2
    refine ⟨[], ?_⟩
    simp only [FCpcOK, h1] at hc
    have ⟨hu, hi⟩ := hcf hc.1
    have hu' : uhand s.upc = [] := by cases hup : s.upc <;> simp_all [ufin, uhand]
    rw [hoo h2, hcons, hhp, h1, hc.2, hu', hi]; simp [fhold]
  unfold fstepCtl at hs
  repeat' split at hs
  all_goals first | (simp at hs; done) | (simp only [Option.some.injEq] at hs; subst hs; finv_auto)

theorem finv_step {inp₀ : List α} {s s' : FSt α} (h : FInv inp₀ s) (t : Tid) (hs : fstep s t = some s') :
    FInv inp₀ s' := by
  cases t
  · exact finv_user h hs
  · exact finv_cons h hs
  · exact finv_ctl h hs
  · exact finv_quit h hs

theorem finv_next {inp₀ : List α} {s : FSt α} (h : FInv inp₀ s) (t : Tid) : FInv inp₀ (fnext s t) := by
  unfold fnext
  cases hs : fstep s t with
  | none => simpa using h
  | some s' => simpa using finv_step h t hs

theorem finv_run_from {inp₀ : List α} (sched : List Tid) : ∀ {s : FSt α}, FInv inp₀ s → FInv inp₀ (frun s sched) := by
  induction sched with
  | nil => intro s h; exact h
  | cons t ts ih => intro s h; exact ih (finv_next h t)

/-- the invariant holds after every schedule, for every capacity, input and closing behaviour -/
theorem finv_run (cap : Nat) (sub : Ctx) (inp₀ : List α) (wc : Bool) (sched : List Tid) :
    FInv inp₀ (frun (finit cap sub inp₀ wc) sched) :=
  finv_run_from sched (finv_init cap sub inp₀ wc)

/-- `sub` is the subscription context, never changed -/
theorem fstep_sub {s s' : FSt α} (t : Tid) (hs : fstep s t = some s') : s'.sub = s.sub := by
  cases t <;> simp only [fstep, fstepUser, fstepCons, fstepCtl, fstepQuit] at hs <;> repeat' split at hs
  all_goals first | (simp at hs; done) | (simp only [Option.some.injEq] at hs; subst hs; rfl)

/-! ### exactness -/

/-- what FromChannel has delivered is a prefix of "every value sent, in order, then Complete" -/
theorem from_prefix {inp₀ : List α} {s : FSt α} (h : FInv inp₀ s) :
    ∃ t, s.out ++ t = inp₀.map (Notif.next s.sub) ++ [.complete s.sub] := h.outPre

/-- nobody unsubscribed: every value whose delivery call has returned is in the trace, in order,
    and Complete is there iff the downstream was completed -/
theorem from_values {inp₀ : List α} {s : FSt α} (h : FInv inp₀ s) (ht : s.tpc = .cas) :
    s.out = s.handled.map (Notif.next s.sub) ++ (if s.downOpen then [] else [.complete s.sub]) := by
  cases hd : s.downOpen
  · simpa using (h.outDone ht hd).1
  · simpa using h.outOpen hd

/-- the user closes the channel, nobody unsubscribes, both goroutines have nothing left to do:
    exactly every value, in order, then Complete -/
theorem from_exact {inp₀ : List α} {s : FSt α} (h : FInv inp₀ s) (ht : s.tpc = .cas) (hw : s.willClose = true)
    (hp : fstep s .prod = none) (hc : fstep s .cons = none) :
    s.out = inp₀.map (Notif.next s.sub) ++ [.complete s.sub] := by
  simp only [fstep, fstepUser, fstepCons] at hp hc
  -- the user is finished (a blocked send would find the consumer waiting, or the channel closed)
  have hfin : ufin s.upc = true := by
    cases hup : s.upc with
    | fin => rfl
    | idle => simp only [hup] at hp; repeat' split at hp
              all_goals simp at hp
    | send v =>
      simp only [hup] at hp
      split at hp
      · simp at hp
      next hq =>
        cases hcp : s.cpc with
        | sel =>
          cases hqq : s.q with
          | nil => simp [hcp, hqq] at hp
          | cons y q' => simp [hcp, hqq] at hc
        | hold v => simp [hcp] at hc; split at hc <;> simp at hc
        | complete => simp [hcp] at hc; split at hc <;> simp at hc
        | claim => simp [hcp] at hc; split at hc <;> simp at hc
        | closeDone => simp [hcp] at hc
        | exited =>
          have := h.leftClosed ht (by simp [hcp, freading])
          have := (h.outDone ht this).2.2.2.1
          simp [hup, uhand] at this
  have hcl := h.finClosed hfin hw
  have hleft : freading s.cpc = false := by
    cases hcp : s.cpc with
    | sel =>
      simp only [hcp] at hc
      cases hqq : s.q with
      | nil => simp [hqq, hcl] at hc
      | cons y q' => simp [hqq] at hc
    | hold v => simp [hcp] at hc; split at hc <;> simp at hc
    | complete => simp [hcp] at hc; split at hc <;> simp at hc
    | claim => rfl
    | closeDone => rfl
    | exited => rfl
  have hd := h.leftClosed ht hleft
  obtain ⟨ho, hi, hq, hu, hh⟩ := h.outDone ht hd
  have hc0 := h.cons
  have hhp := h.handledPre
  rw [hh, List.append_nil] at hhp
  rw [hq, hu, hi, hhp] at hc0
  rw [ho, hc0]; simp

/-- the user abandons the channel (never closes it), nobody unsubscribes: everything received and
    handled so far has been delivered, and no Complete -/
theorem from_abandoned {inp₀ : List α} {s : FSt α} (h : FInv inp₀ s) (ht : s.tpc = .cas)
    (hcl : s.closed = false) : s.out = s.handled.map (Notif.next s.sub) := by
  have hr : freading s.cpc = true := by
    cases hf : freading s.cpc
    · have := h.leftCh ht hf
      rw [hcl] at this; exact Bool.noConfusion this
    · rfl
  exact h.outOpen (h.readingOpen ht hr)

/-- after `Unsubscribe()` (or the completion) nothing more is delivered, whatever is still read -/
theorem from_frozen (s : FSt α) (t : Tid) (hd : s.downOpen = false) : (fnext s t).out = s.out ∧ (fnext s t).downOpen = false := by
  unfold fnext
  cases hs : fstep s t with
  | none => simp [hd]
  | some s' =>
    simp only [Option.getD_some]
    cases t <;> simp only [fstep, fstepUser, fstepCons, fstepCtl, fstepQuit] at hs <;> repeat' split at hs
    all_goals first | (simp at hs; done) | (simp only [Option.some.injEq] at hs; subst hs; simp_all)

theorem from_frozen_run (sched : List Tid) : ∀ (s : FSt α), s.downOpen = false → (frun s sched).out = s.out := by
  induction sched with
  | nil => intro s _; rfl
  | cons t ts ih =>
    intro s hd
    have := from_frozen s t hd
    show (frun (fnext s t) ts).out = s.out
    rw [ih _ this.2, this.1]

/-- `close(done)` runs at most once -/
theorem from_done_once {inp₀ : List α} {s : FSt α} (h : FInv inp₀ s) : s.doneCloses ≤ 1 := by
  have := h.once
  simp only [b2n] at this
  repeat' split at this
  all_goals omega

/-- select on `done`: once the teardown has closed `done`, the goroutine can leave at its next
    select, whether or not the input channel ever delivers or closes (it is never stuck in a
    receive) -/
theorem from_quit_enabled (s : FSt α) (hd : s.doneClosed = true) (hc : s.cpc = .sel) :
    (fstep s .quit).isSome := by
  simp [fstep, fstepQuit, hc, hd]

/-- … and the unsubscribing thread is never blocked -/
theorem from_ctl_enabled (s : FSt α) (h : s.tpc ≠ .done) : (fstep s .ctl).isSome := by
  simp only [fstep, fstepCtl]
  cases ht : s.tpc <;> simp_all <;> split <;> simp

end Ro.Chan

/-
  RoProofs.ResubRetry — RetryWithConfig / Retry (C15).
-/
import RoProofs.Resub
namespace Ro.Resub
open Ro Ro.Resub Ro.Resub.Spec

variable (cfg : RetryCfg) (sub : Ctx)

/-- the log is sᵢ tᵢ sᵢ₊₁ tᵢ₊₁ …, whatever the configuration and the cancellation point -/
theorem retryLoop_log (cancel : Option Nat) (outs : List Outcome) (i r : Nat) :
    (retryLoop cfg sub cancel outs i r).log = seqLog i (retryLoop cfg sub cancel outs i r).attempts := by
  induction outs generalizing i r with
  | nil => unfold retryLoop; split <;> simp
  | cons o rest ih =>
    unfold retryLoop
    split
    · simp
    · cases o.fin with
      | complete => simp
      | error e =>
        simp only []
        split
        · split
          · simp
          · simp [ih]
        · simp

theorem charge_eq (r : Nat) (o : Outcome) : charge cfg.reset r o = retriesAfter cfg r o := rfl

theorem retryStopsFrom_shift (r : Nat) (o : Outcome) (rest : List Outcome) :
    (fun j => retryStopsFrom cfg r (o :: rest) (j + 1)) = retryStopsFrom cfg (retriesAfter cfg r o) rest := by
  funext j
  unfold retryStopsFrom chargedFrom
  rw [failsAt_cons_succ, List.take_succ_cons, List.foldl_cons]
  rfl

theorem retryStopsFrom_zero_fail (r : Nat) (o : Outcome) (rest : List Outcome) (hf : o.fails = true) :
    retryStopsFrom cfg r (o :: rest) 0 = !shouldRetry cfg (retriesAfter cfg r o) := by
  have hc : chargedFrom cfg.reset r ((o :: rest).take (0 + 1)) = retriesAfter cfg r o := rfl
  unfold retryStopsFrom shouldRetry
  rw [hc, failsAt_cons_zero, hf]
  have hd : decide (cfg.maxRetries < retriesAfter cfg r o) = !decide (retriesAfter cfg r o ≤ cfg.maxRetries) := by
    by_cases h : retriesAfter cfg r o ≤ cfg.maxRetries
    · have h' : ¬ cfg.maxRetries < retriesAfter cfg r o := by omega
      simp [h, h']
    · have h' : cfg.maxRetries < retriesAfter cfg r o := by omega
      simp [h, h']
  rw [hd]
  cases h : (cfg.maxRetries == 0) <;> simp [bne, h]

/-- uncancelled: the number of attempts is the closed form -/
theorem retryLoop_attempts (outs : List Outcome) (i r : Nat) :
    (retryLoop cfg sub none outs i r).attempts = firstStop (retryStopsFrom cfg r outs) (outs.length + 1) := by
  induction outs generalizing i r with
  | nil => simp [retryLoop, cancelledBefore, firstStop]
  | cons o rest ih =>
    unfold retryLoop
    simp only [cancelledBefore, Bool.false_eq_true, if_false, Bool.and_false]
    unfold firstStop
    cases h : o.fin with
    | complete =>
      have : retryStopsFrom cfg r (o :: rest) 0 = true := by simp [retryStopsFrom, not_fails_of_complete h]
      simp [this]
    | error e =>
      rw [retryStopsFrom_zero_fail cfg r o rest (fails_of_error h)]
      simp only []
      by_cases hs : shouldRetry cfg (retriesAfter cfg r o) = true
      · rw [if_pos hs]
        simp only [hs, Bool.not_true, Bool.false_eq_true, if_false, after_attempts, ih, retryStopsFrom_shift, List.length_cons]
        omega
      · rw [if_neg hs]
        simp [hs]

/-- cancelled during attempt `k`: the attempts of the uncancelled run, cut off after `k` -/
theorem retryLoop_attempts_cancel (k : Nat) (outs : List Outcome) (i r : Nat) :
    (retryLoop cfg sub (some k) outs i r).attempts = min (k + 1 - i) (retryLoop cfg sub none outs i r).attempts := by
  induction outs generalizing i r with
  | nil =>
    unfold retryLoop
    simp only [cancelledBefore]
    by_cases hk : k < i
    · simp [hk]; omega
    · simp [hk]; omega
  | cons o rest ih =>
    unfold retryLoop
    by_cases hk : k < i
    · simp [cancelledBefore, hk]; omega
    · have hc : cancelledBefore (some k) i = false := by simp [cancelledBefore, hk]
      have hn : cancelledBefore none i = false := rfl
      have hn1 : cancelledBefore none (i + 1) = false := rfl
      simp only [hc, hn, hn1, Bool.false_eq_true, if_false, Bool.and_false]
      cases o.fin with
      | complete => simp; omega
      | error e =>
        simp only []
        split
        · split
          · rename_i hd
            have : k < i + 1 := by simp [cancelledBefore] at hd; exact hd.2
            simp; omega
          · simp only [after_attempts, ih]
            omega
        · simp; omega

theorem retryLoop_attempts_pos (outs : List Outcome) (i r : Nat) : 0 < (retryLoop cfg sub none outs i r).attempts := by
  cases outs with
  | nil => simp [retryLoop, cancelledBefore]
  | cons o rest =>
    unfold retryLoop
    simp only [cancelledBefore, Bool.false_eq_true, if_false, Bool.and_false]
    cases o.fin with
    | complete => simp
    | error e => simp only []; split <;> simp

theorem termAfter_cons_succ (o : Outcome) (rest : List Outcome) (n : Nat) (hn : 0 < n) :
    termAfter (o :: rest) (n + 1) = termAfter rest n := by
  cases n with
  | zero => omega
  | succ m => simp [termAfter]

/-- the values of all attempts made are forwarded in order (and nothing else) -/
theorem retryLoop_vals (cancel : Option Nat) (outs : List Outcome) (i r : Nat) :
    outVals (retryLoop cfg sub cancel outs i r).raw = valuesOf (outs.take (retryLoop cfg sub cancel outs i r).attempts) := by
  induction outs generalizing i r with
  | nil => unfold retryLoop; split <;> simp
  | cons o rest ih =>
    unfold retryLoop
    split
    · simp
    · cases o.fin with
      | complete => simp [outVals_nexts_append]
      | error e =>
        simp only []
        split
        · split
          · simp [outVals_nexts_append]
          · simp [outVals_nexts_append, ih]
        · simp [outVals_nexts_append]

/-- uncancelled: the final terminal is the one of the last attempt — its completion, or its error
    when the retries are spent -/
theorem retryLoop_term (outs : List Outcome) (i r : Nat) :
    outTerm (retryLoop cfg sub none outs i r).raw = some (termAfter outs (retryLoop cfg sub none outs i r).attempts) := by
  induction outs generalizing i r with
  | nil => simp [retryLoop, cancelledBefore, termAfter]
  | cons o rest ih =>
    unfold retryLoop
    simp only [cancelledBefore, Bool.false_eq_true, if_false, Bool.and_false]
    cases h : o.fin with
    | complete => simp [outTerm_nexts_append, termAfter, h]
    | error e =>
      simp only []
      split
      · simp only [after_raw, after_attempts, outTerm_nexts_append, ih]
        rw [termAfter_cons_succ _ _ _ (retryLoop_attempts_pos cfg sub rest _ _)]
      · simp [outTerm_nexts_append, termAfter, h]

/-- cancelled during attempt `k`: the cancellation error if it is observed before the loop ends by
    itself, the uncancelled terminal otherwise -/
theorem retryLoop_term_cancel (k : Nat) (outs : List Outcome) (i r : Nat) :
    outTerm (retryLoop cfg sub (some k) outs i r).raw =
      some (if k + 1 - i < (retryLoop cfg sub none outs i r).attempts then .error ctxCanceled
            else termAfter outs (retryLoop cfg sub none outs i r).attempts) := by
  induction outs generalizing i r with
  | nil =>
    unfold retryLoop
    by_cases hk : k < i
    · have : k + 1 - i < 1 := by omega
      simp [cancelledBefore, hk, this]
    · have : ¬ k + 1 - i < 1 := by omega
      simp [cancelledBefore, hk, this, termAfter]
  | cons o rest ih =>
    by_cases hk : k < i
    · have hp := retryLoop_attempts_pos cfg sub (o :: rest) i r
      have : k + 1 - i < (retryLoop cfg sub none (o :: rest) i r).attempts := by omega
      rw [if_pos this]
      unfold retryLoop
      simp [cancelledBefore, hk]
    · unfold retryLoop
      have hc : cancelledBefore (some k) i = false := by simp [cancelledBefore, hk]
      have hn : cancelledBefore none i = false := rfl
      have hn1 : cancelledBefore none (i + 1) = false := rfl
      simp only [hc, hn, hn1, Bool.false_eq_true, if_false, Bool.and_false]
      cases h : o.fin with
      | complete =>
        have : ¬ k + 1 - i < 1 := by omega
        simp [outTerm_nexts_append, termAfter, h, this]
      | error e =>
        simp only []
        split
        · have hp := retryLoop_attempts_pos cfg sub rest (i + 1) (retriesAfter cfg r o)
          split
          · rename_i hd
            have hki : k < i + 1 := by simp [cancelledBefore] at hd; exact hd.2
            have : k + 1 - i < (retryLoop cfg sub none rest (i + 1) (retriesAfter cfg r o)).attempts + 1 := by omega
            simp [outTerm_nexts_append, this]
          · rw [after_raw, after_attempts, outTerm_nexts_append, ih, termAfter_cons_succ _ _ _ hp]
            congr 1
            split <;> split <;> first | rfl | (exfalso; omega)
        · have : ¬ k + 1 - i < 1 := by omega
          simp [outTerm_nexts_append, termAfter, h, this]

/-! ### the closed form of the charge -/

theorem chargedFrom_append (reset : Bool) (r : Nat) (pre : List Outcome) (o : Outcome) :
    chargedFrom reset r (pre ++ [o]) = charge reset (chargedFrom reset r pre) o := by
  simp [chargedFrom]

/-- without ResetOnSuccess every failed attempt counts -/
theorem chargedFrom_noReset (r : Nat) (pre : List Outcome) : chargedFrom false r pre = r + pre.length := by
  induction pre generalizing r with
  | nil => rfl
  | cons o rest ih => simp [chargedFrom, charge] at ih ⊢; rw [ih]; omega

/-- with ResetOnSuccess the charge is counted from the last attempt that delivered a value: the
    attempts after it, plus that attempt itself — or all of them if none delivered anything -/
theorem chargedFrom_reset_rev (l : List Outcome) :
    chargedFrom true 0 l.reverse = min l.length ((l.takeWhile (fun o => !o.hasValues)).length + 1) := by
  induction l with
  | nil => rfl
  | cons o l ih =>
    rw [List.reverse_cons, chargedFrom_append, ih]
    unfold charge
    have hle := (List.takeWhile_sublist (l := l) (fun o : Outcome => !o.hasValues)).length_le
    by_cases hv : o.hasValues = true
    · simp [List.takeWhile, hv]
    · have hv' : o.hasValues = false := by simpa using hv
      simp only [List.takeWhile, hv', Bool.not_false, Bool.and_false, Bool.false_eq_true, if_false, List.length_cons]
      omega

theorem chargedFrom_reset (pre : List Outcome) :
    chargedFrom true 0 pre = min pre.length (trailingSilent pre + 1) := by
  have := chargedFrom_reset_rev pre.reverse
  simpa [trailingSilent] using this

end Ro.Resub

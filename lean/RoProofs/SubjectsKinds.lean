/-
  RoProofs.SubjectsKinds — publish / behavior / replay N / async refine their sequential definitions:
  for every buffer size, every operation sequence and every subscriber, the received trace is the
  definition's; the registered subscribers and the status are the definition's.
-/
import RoProofs.SubjectsSpec
namespace Ro.Subj
open Ro Ro.Subj.Spec

variable {α : Type}

/-! ### list facts used to read the generic definition kind by kind -/

theorem liveSpec_gate (P : MP α) (hl : P.live = true) (hf : P.flush = false) :
    ∀ (l : List (Notif α)) (m : List (Ctx × α)), liveSpec P m l = gate l
  | [], _ => rfl
  | .next c v :: r, m => by
    simp only [liveSpec, hl, if_true, gate_cons_next, List.singleton_append]
    rw [liveSpec_gate P hl hf r]
  | .error c e :: r, m => by simp [liveSpec, gate_cons_error]
  | .complete c :: r, m => by simp [liveSpec, hf, gate_cons_complete]

theorem foldl_latest : ∀ (vs : List (Ctx × α)) (x : Ctx × α),
    vs.foldl (fun _ p => [p]) [x] = [vs.getLastD x]
  | [], _ => rfl
  | p :: vs, x => by
    rw [List.foldl_cons, foldl_latest vs p]
    simp [List.getLast?_cons]

theorem foldl_latest_nil : ∀ (vs : List (Ctx × α)),
    vs.foldl (fun (_ : List (Ctx × α)) p => [p]) [] = vs.getLast?.toList
  | [] => rfl
  | p :: vs => by
    rw [List.foldl_cons, foldl_latest vs p, List.getLast?_cons]
    simp [List.getLastD_eq_getLast?]

theorem lastN_length_le {β : Type} (n : Nat) (l : List β) : (lastN (some n) l).length ≤ n := by
  simp only [lastN, List.length_drop]; omega

theorem lastN_lastN_append {β : Type} (cap : Option Nat) (a b : List β) :
    lastN cap (lastN cap a ++ b) = lastN cap (a ++ b) := by
  cases cap with
  | none => rfl
  | some n =>
    simp only [lastN]
    by_cases h : a.length ≤ n
    · have : a.length - n = 0 := by omega
      simp [this]
    · have hk : a.length - n ≤ a.length := by omega
      have e1 : List.drop (a.length - n) a ++ b = List.drop (a.length - n) (a ++ b) := by
        rw [List.drop_append_of_le_length hk]
      rw [e1, List.drop_drop]
      congr 1
      simp only [List.length_drop, List.length_append]
      omega

theorem foldl_lastN (cap : Option Nat) : ∀ (vs m : List (Ctx × α)),
    vs.foldl (fun m p => lastN cap (m ++ [p])) (lastN cap m) = lastN cap (m ++ vs)
  | [], m => by simp
  | p :: vs, m => by
    rw [List.foldl_cons, lastN_lastN_append, foldl_lastN cap vs (m ++ [p])]
    simp

theorem lastN_nil {β : Type} (cap : Option Nat) : lastN cap ([] : List β) = [] := by
  cases cap <;> simp [lastN]

theorem produced_append : ∀ (a b : List (Op α)), produced (a ++ b) = produced a ++ produced b
  | [], _ => rfl
  | o :: a, b => by cases o <;> simp [produced, produced_append a b]

theorem values_append_of_never : ∀ (a b : List (Notif α)), ending a = .never → values (a ++ b) = values a ++ values b
  | [], _, _ => rfl
  | .next c v :: a, b, h => by
    simp only [ending] at h
    simp [values, values_append_of_never a b h]
  | .error c e :: a, b, h => by simp [ending] at h
  | .complete c :: a, b, h => by simp [ending] at h

/-- async: a registered subscriber gets nothing until the subject ends; on completion the latest
    value of all (if any) and the completion; on error just the error -/
theorem liveSpec_async : ∀ (l : List (Notif α)) (m : List (Ctx × α)),
    liveSpec (asyncP : MP α) m l =
      (match ending l with
       | .never => []
       | .error c e => [.error c e]
       | .complete c => nexts ((values l).foldl (fun _ p => [p]) m) ++ [.complete c])
  | [], _ => rfl
  | .next c v :: r, m => by
    simp only [liveSpec, asyncP, Bool.false_eq_true, if_false, List.nil_append, ending, values, List.foldl_cons]
    exact liveSpec_async r [(c, v)]
  | .error c e :: r, m => by simp [liveSpec, ending]
  | .complete c :: r, m => by simp [liveSpec, asyncP, ending, values]

/-! ### from the generic machine to the kinds -/

theorem run_multi (P : MP α) (k : Kind α) (hk : k.step = multiStep P) (ops : List (Op α)) :
    run k ops = runM P k.init ops := by
  simp [run, runFrom, runM, hk]

theorem view_init (k : Kind α) (i : Nat) : view k.init i = ⟨.before, [], .active, k.init.values⟩ := by
  cases k <;> rfl

theorem multi_refines (P : MP α) (hP : P.Law) (k : Kind α) (hk : k.step = multiStep P) (ops : List (Op α)) (i : Nat) :
    ((run k ops).sub i).got = multiSpec P k.init.values ops i := by
  rw [run_multi P k hk]
  have := (view_runM P hP i ops k.init (inv_init k)).1
  rw [view_init] at this
  rw [← vrun_got P i, ← this]; rfl

theorem multi_inv (P : MP α) (hP : P.Law) (k : Kind α) (hk : k.step = multiStep P) (ops : List (Op α)) :
    Inv (run k ops) := by
  rw [run_multi P k hk]
  exact (view_runM P hP 0 ops k.init (inv_init k)).2

theorem multi_registered (P : MP α) (hP : P.Law) (k : Kind α) (hk : k.step = multiStep P) (ops : List (Op α)) (i : Nat) :
    i ∈ (run k ops).observers ↔
      (match splitSub i ops with
       | none => False
       | some (pre, _, post) => ending (produced pre) = .never ∧ post.all (fun o => !isUnsub i o) = true
                                 ∧ ending (produced post) = .never) := by
  have hI := multi_inv P hP k hk ops
  have hv := vrun_phase_live P i k.init.values ops
  have hview := (view_runM P hP i ops k.init (inv_init k)).1
  rw [view_init] at hview
  rw [← hview, ← run_multi P k hk] at hv
  exact (phaseOf_live_iff hI i).symm.trans hv

theorem multi_status (P : MP α) (hP : P.Law) (k : Kind α) (hk : k.step = multiStep P) (ops : List (Op α)) :
    (run k ops).status = Spec.status ops := by
  rw [run_multi P k hk]
  have := (view_runM P hP 0 ops k.init (inv_init k)).1
  rw [view_init] at this
  have h2 := vrun_status P 0 ops ⟨.before, [], .active, k.init.values⟩
  rw [← this] at h2
  simp only [view] at h2
  rw [h2]; unfold Spec.status statusOf
  cases ending (produced ops) <;> rfl

/-! ### the four theorems -/

theorem publish_refines (ops : List (Op α)) (i : Nat) :
    ((run .publish ops).sub i).got = Spec.publish ops i := by
  rw [multi_refines publishP publishP_law .publish publishStep_eq]
  unfold multiSpec Spec.publish
  cases splitSub i ops with
  | none => rfl
  | some x =>
    obtain ⟨pre, c, post⟩ := x
    simp only
    cases ending (produced pre) <;> (try rw [liveSpec_gate publishP rfl rfl]) <;> simp [publishP]

theorem behavior_refines (init : α) (ops : List (Op α)) (i : Nat) :
    ((run (.behavior init) ops).sub i).got = Spec.behavior init ops i := by
  rw [multi_refines behaviorP behaviorP_law (.behavior init) behaviorStep_eq]
  unfold multiSpec Spec.behavior
  cases splitSub i ops with
  | none => rfl
  | some x =>
    obtain ⟨pre, c, post⟩ := x
    simp only
    cases ending (produced pre) <;> (try rw [liveSpec_gate behaviorP rfl rfl]) <;>
      simp [behaviorP, Kind.init, foldl_latest]

theorem replay_refines (cap : Option Nat) (ops : List (Op α)) (i : Nat) :
    ((run (.replay cap) ops).sub i).got = Spec.replay cap ops i := by
  rw [multi_refines (replayP cap) (replayP_law cap) (.replay cap) (replayStep_eq cap)]
  unfold multiSpec Spec.replay
  have hm : ∀ vs : List (Ctx × α), vs.foldl (replayP cap).mem (Kind.replay cap).init.values = lastN cap vs := by
    intro vs
    have := foldl_lastN cap vs ([] : List (Ctx × α))
    simpa [lastN_nil, replayP, Kind.init] using this
  cases splitSub i ops with
  | none => rfl
  | some x =>
    obtain ⟨pre, c, post⟩ := x
    simp only
    cases ending (produced pre) <;> (try rw [liveSpec_gate (replayP cap) rfl rfl]) <;> simp [hm] <;> simp [replayP]

theorem async_refines (ops : List (Op α)) (i : Nat) :
    ((run .async ops).sub i).got = Spec.async ops i := by
  rw [multi_refines asyncP asyncP_law .async asyncStep_eq]
  unfold multiSpec Spec.async
  cases splitSub i ops with
  | none => rfl
  | some x =>
    obtain ⟨pre, c, post⟩ := x
    simp only
    cases he : ending (produced pre) with
    | never =>
      simp only [asyncP, Bool.false_eq_true, if_false, List.nil_append, Kind.init]
      have := liveSpec_async (produced (whileSubscribed i post)) ((values (produced pre)).foldl (fun _ p => [p]) ([] : List (Ctx × α)))
      simp only [asyncP] at this
      rw [this]
      cases hseg : ending (produced (whileSubscribed i post)) with
      | never => rfl
      | error c' e => rfl
      | complete c' =>
        simp only
        rw [produced_append, values_append_of_never _ _ he, ← foldl_latest_nil, List.foldl_append]
    | error ec e => simp [asyncP]
    | complete cc => simp [asyncP, Kind.init, foldl_latest_nil]

end Ro.Subj

/-
  RoProofs.SubjectsView — the invariant is preserved by every operation of the four multicast
  subjects, and each step is seen by one subscriber `i` (and by an outside observer of the status)
  exactly as the step of a small pure automaton `vstep` over
      (phase of i: before / live / done,  what i has received,  subject status,  stored values).
-/
import RoProofs.SubjectsMulti
namespace Ro.Subj
open Ro Ro.Subj.Spec

variable {α : Type}

theorem Inv.of_eq_on {s t : State α} (h : Inv s) (ho : t.observers = s.observers) (hs : t.status = s.status)
    (hsub : ∀ j, (t.sub j).td = (s.sub j).td ∧
      (j ∈ s.observers → (t.sub j).used = (s.sub j).used ∧ (t.sub j).status = (s.sub j).status)) : Inv t := by
  refine ⟨?_, ?_, ?_, ?_⟩
  · intro j hj
    rw [ho] at hj
    have := h.live j hj
    rw [(hsub j).1, ((hsub j).2 hj).1, ((hsub j).2 hj).2]; exact this
  · intro j hj
    rw [ho]; rw [(hsub j).1] at hj; exact h.td j hj
  · rw [ho]; exact h.nodup
  · intro hc; rw [ho]; rw [hs] at hc; exact h.closed hc

theorem Inv.drop {s : State α} (h : Inv s) (n : Notif α) : Inv (s.drop n) :=
  h.of_eq_on rfl rfl (fun _ => ⟨rfl, fun _ => ⟨rfl, rfl⟩⟩)

theorem inv_init (k : Kind α) : Inv k.init := by
  cases k <;> exact ⟨by simp [Kind.init], by simp [Kind.init], by simp [Kind.init], by simp [Kind.init]⟩

theorem inv_multiStep (P : MP α) (hP : P.Law) {s : State α} (h : Inv s) (o : Op α) : Inv (multiStep P s o) := by
  cases o with
  | subscribe i c =>
    cases hu : (s.sub i).used with
    | true => rw [step_subscribe_used P c hu]; exact h
    | false =>
      have hi : i ∉ s.observers := h.not_mem_of_unused hu
      cases hs : s.status with
      | active =>
        rw [step_subscribe_active P c hu hs]
        refine ⟨?_, ?_, ?_, ?_⟩
        · intro j hj
          simp only [List.mem_append, List.mem_singleton] at hj
          by_cases hji : j = i
          · simp [hji]
          · have hj' : j ∈ s.observers := by cases hj with | inl x => exact x | inr x => exact absurd x hji
            simpa [hji] using h.live j hj'
        · intro j hj
          by_cases hji : j = i
          · simp [hji]
          · simp only [hji, if_false] at hj
            simp [h.td j hj]
        · simp only [List.nodup_append, List.nodup_cons, List.not_mem_nil, not_false_eq_true, List.nodup_nil,
            and_self, List.mem_singleton, true_and]
          exact ⟨h.nodup, fun a ha b hb => by subst hb; intro e; subst e; exact hi ha⟩
        · intro hc; exact absurd hs hc
      | errored ec e =>
        rw [step_subscribe_errored P c ec e hu hs]
        refine ⟨?_, ?_, h.nodup, h.closed⟩
        · intro j hj
          have hji : j ≠ i := fun e => hi (e ▸ hj)
          simpa [hji] using h.live j hj
        · intro j hj
          by_cases hji : j = i
          · simp [hji] at hj
          · simp only [modSub_sub, hji, if_false] at hj; exact h.td j hj
      | completed =>
        rw [step_subscribe_completed P c hu hs]
        refine ⟨?_, ?_, h.nodup, h.closed⟩
        · intro j hj
          have hji : j ≠ i := fun e => hi (e ▸ hj)
          simpa [hji] using h.live j hj
        · intro j hj
          by_cases hji : j = i
          · simp [hji] at hj
          · simp only [modSub_sub, hji, if_false] at hj; exact h.td j hj
  | next c v =>
    by_cases ha : s.status = .active
    · obtain ⟨d, hd⟩ := hP s c v h ha
      rw [step_next_active P c v ha, hd]
      refine h.of_eq_on rfl rfl (fun j => ?_)
      by_cases hc : P.live = true ∧ j ∈ s.observers <;> simp [hc]
    · rw [step_next_closed P c v ha]; exact h.drop _
  | error c e =>
    by_cases ha : s.status = .active
    · rw [step_error_active P h c e ha]
      refine ⟨by simp, ?_, by simp, by simp⟩
      intro j hj
      by_cases hm : j ∈ s.observers
      · simp [hm] at hj
      · simp only [hm, if_false] at hj; exact absurd (h.td j hj) hm
    · rw [(step_terminal_closed P h ha).1]; exact h.drop _
  | complete c =>
    by_cases ha : s.status = .active
    · rw [step_complete_active P h c ha]
      refine ⟨by simp, ?_, by simp, by simp⟩
      intro j hj
      by_cases hm : j ∈ s.observers
      · simp [hm] at hj
      · simp only [hm, if_false] at hj; exact absurd (h.td j hj) hm
    · rw [(step_terminal_closed P h ha).2]; exact h.drop _
  | unsubscribe i =>
    cases hu : (s.sub i).used with
    | false => rw [step_unsubscribe_unused P hu]; exact h
    | true =>
      by_cases hi : i ∈ s.observers
      · rw [step_unsubscribe_reg P h hi]
        refine ⟨?_, ?_, h.nodup.filter _, ?_⟩
        · intro j hj
          simp only [List.mem_filter, bne_iff_ne, ne_eq] at hj
          simpa [hj.2] using h.live j hj.1
        · intro j hj
          by_cases hji : j = i
          · simp [hji] at hj
          · simp only [hji, if_false] at hj
            simp [List.mem_filter, hji, h.td j hj]
        · intro hc
          simp [h.closed hc]
      · have ht := h.td_false hi
        obtain ⟨h1, h2, _, h4⟩ := subUnsubscribe_unreg (s := s) (i := i) .delete ht
        simp only [multiStep, hu, if_true]
        refine h.of_eq_on h1 h2 (fun j => ⟨(h4 j).2.2.1, fun hj => ?_⟩)
        have hji : j ≠ i := fun e => hi (e ▸ hj)
        rw [(h4 j).2.2.2 hji]; exact ⟨rfl, rfl⟩

/-! ### the view of one subscriber -/

inductive Phase
  | before | live | done
deriving DecidableEq, Repr

structure View (α : Type) where
  phase : Phase
  got : List (Notif α)
  status : Status
  values : List (Ctx × α)

def phaseOf (s : State α) (i : Nat) : Phase :=
  if (s.sub i).used then (if i ∈ s.observers then .live else .done) else .before

def view (s : State α) (i : Nat) : View α := ⟨phaseOf s i, (s.sub i).got, s.status, s.values⟩

/-- the pure automaton: what an operation means for subscriber `i` and for the stored state -/
def vstep (P : MP α) (i : Nat) (w : View α) : Op α → View α
  | .next c v =>
    match w.status with
    | .active => { w with values := P.mem w.values (c, v),
                          got := if P.live = true ∧ w.phase = .live then w.got ++ [.next c v] else w.got }
    | _ => w
  | .error c e =>
    match w.status with
    | .active => { w with status := .errored c e, phase := if w.phase = .live then .done else w.phase,
                          got := if w.phase = .live then w.got ++ [.error c e] else w.got }
    | _ => w
  | .complete c =>
    match w.status with
    | .active => { w with status := .completed, phase := if w.phase = .live then .done else w.phase,
                          got := if w.phase = .live
                                 then w.got ++ (if P.flush then nexts w.values else []) ++ [.complete c] else w.got }
    | _ => w
  | .subscribe j c =>
    if j = i ∧ w.phase = .before then
      match w.status with
      | .active => { w with phase := .live, got := if P.rA then nexts w.values else [] }
      | .errored ec e => { w with phase := .done, got := (if P.rE then nexts w.values else []) ++ [.error ec e] }
      | .completed => { w with phase := .done, got := (if P.rC then nexts w.values else []) ++ [.complete c] }
    else w
  | .unsubscribe j => if j = i ∧ w.phase = .live then { w with phase := .done } else w

theorem phaseOf_live_iff {s : State α} (h : Inv s) (i : Nat) : phaseOf s i = .live ↔ i ∈ s.observers := by
  unfold phaseOf
  constructor
  · intro hp
    by_cases hm : i ∈ s.observers
    · exact hm
    · cases hu : (s.sub i).used <;> simp [hu, hm] at hp
  · intro hm
    simp [(h.live i hm).1, hm]

theorem phaseOf_before_iff (s : State α) (i : Nat) : phaseOf s i = .before ↔ (s.sub i).used = false := by
  unfold phaseOf
  cases hu : (s.sub i).used
  · simp
  · by_cases hm : i ∈ s.observers <;> simp [hm]

theorem view_ext {a b : View α} (h1 : a.phase = b.phase) (h2 : a.got = b.got) (h3 : a.status = b.status)
    (h4 : a.values = b.values) : a = b := by
  cases a; cases b; simp_all

/-- the model simulates the automaton, step by step, for every subscriber -/
theorem view_multiStep (P : MP α) (hP : P.Law) {s : State α} (h : Inv s) (o : Op α) (i : Nat) :
    view (multiStep P s o) i = vstep P i (view s i) o := by
  have hlive := phaseOf_live_iff h i
  have hbefore := phaseOf_before_iff s i
  cases o with
  | subscribe j c =>
    cases hu : (s.sub j).used with
    | true =>
      rw [step_subscribe_used P c hu]
      have : ¬ (j = i ∧ (view s i).phase = .before) := by
        rintro ⟨e, hp⟩; subst e
        rw [show (view s j).phase = phaseOf s j from rfl, phaseOf_before_iff, hu] at hp; cases hp
      simp only [vstep, this, if_false]
    | false =>
      have hj : j ∉ s.observers := h.not_mem_of_unused hu
      by_cases hji : j = i
      · subst hji
        have hp : (view s j).phase = .before := (phaseOf_before_iff s j).mpr hu
        cases hs : s.status with
        | active =>
          rw [step_subscribe_active P c hu hs]
          simp only [vstep, hp, and_self, if_true, show (view s j).status = s.status from rfl, hs]
          apply view_ext <;> simp [view, phaseOf, hs]
        | errored ec e =>
          rw [step_subscribe_errored P c ec e hu hs]
          simp only [vstep, hp, and_self, if_true, show (view s j).status = s.status from rfl, hs]
          apply view_ext <;> simp [view, phaseOf, hs, hj]
        | completed =>
          rw [step_subscribe_completed P c hu hs]
          simp only [vstep, hp, and_self, if_true, show (view s j).status = s.status from rfl, hs]
          apply view_ext <;> simp [view, phaseOf, hs, hj]
      · have hne : i ≠ j := fun e => hji e.symm
        simp only [vstep, hji, false_and, if_false]
        cases hs : s.status with
        | active =>
          rw [step_subscribe_active P c hu hs]
          apply view_ext <;> simp [view, phaseOf, hs, hne] <;> rfl
        | errored ec e =>
          rw [step_subscribe_errored P c ec e hu hs]
          apply view_ext <;> simp [view, phaseOf, hs, hne] <;> rfl
        | completed =>
          rw [step_subscribe_completed P c hu hs]
          apply view_ext <;> simp [view, phaseOf, hs, hne] <;> rfl
  | next c v =>
    by_cases ha : s.status = .active
    · obtain ⟨d, hd⟩ := hP s c v h ha
      rw [step_next_active P c v ha, hd]
      simp only [vstep, show (view s i).status = s.status from rfl, ha]
      apply view_ext
      · simp only [view, phaseOf]
        by_cases hc : P.live = true ∧ i ∈ s.observers <;> simp [hc]
      · simp only [view, show (view s i).phase = phaseOf s i from rfl, hlive]
        by_cases hc : P.live = true ∧ i ∈ s.observers <;> simp [hc]
      · simp [view, ha]
      · simp [view]
    · rw [step_next_closed P c v ha]
      have : vstep P i (view s i) (.next c v) = view s i := by
        simp only [vstep, show (view s i).status = s.status from rfl]
      rw [this]; rfl
  | error c e =>
    by_cases ha : s.status = .active
    · rw [step_error_active P h c e ha]
      simp only [vstep, show (view s i).status = s.status from rfl, ha]
      apply view_ext
      · simp only [view, show (view s i).phase = phaseOf s i from rfl]
        by_cases hm : i ∈ s.observers
        · simp [hlive.mpr hm, phaseOf, hm, (h.live i hm).1]
        · have hnl : phaseOf s i ≠ .live := fun e => hm (hlive.mp e)
          simp only [hnl, if_false]
          simp [phaseOf, hm]
      · simp only [view, show (view s i).phase = phaseOf s i from rfl, hlive]
        by_cases hm : i ∈ s.observers <;> simp [hm]
      · simp [view]
      · simp [view]
    · rw [(step_terminal_closed P h ha).1]
      have : vstep P i (view s i) (.error c e) = view s i := by
        simp only [vstep, show (view s i).status = s.status from rfl]
      rw [this]; rfl
  | complete c =>
    by_cases ha : s.status = .active
    · rw [step_complete_active P h c ha]
      simp only [vstep, show (view s i).status = s.status from rfl, ha]
      apply view_ext
      · simp only [view, show (view s i).phase = phaseOf s i from rfl]
        by_cases hm : i ∈ s.observers
        · simp [hlive.mpr hm, phaseOf, hm, (h.live i hm).1]
        · have hnl : phaseOf s i ≠ .live := fun e => hm (hlive.mp e)
          simp only [hnl, if_false]
          simp [phaseOf, hm]
      · simp only [view, show (view s i).phase = phaseOf s i from rfl, hlive]
        by_cases hm : i ∈ s.observers <;> simp [hm]
      · simp [view]
      · simp [view]
    · rw [(step_terminal_closed P h ha).2]
      have : vstep P i (view s i) (.complete c) = view s i := by
        simp only [vstep, show (view s i).status = s.status from rfl]
      rw [this]; rfl
  | unsubscribe j =>
    cases hu : (s.sub j).used with
    | false =>
      rw [step_unsubscribe_unused P hu]
      have : ¬ (j = i ∧ (view s i).phase = .live) := by
        rintro ⟨e, hp⟩; subst e
        have := (h.live j (hlive.mp hp)).1
        rw [hu] at this; cases this
      simp only [vstep, this, if_false]
    | true =>
      by_cases hj : j ∈ s.observers
      · rw [step_unsubscribe_reg P h hj]
        by_cases hji : j = i
        · subst hji
          simp only [vstep, show (view s j).phase = phaseOf s j from rfl, hlive.mpr hj, and_self, if_true]
          apply view_ext <;> simp [view, phaseOf, hu]
        · have hne : i ≠ j := fun e => hji e.symm
          simp only [vstep, hji, false_and, if_false]
          apply view_ext <;> simp [view, phaseOf, hne, List.mem_filter]
      · have ht := h.td_false hj
        obtain ⟨h1, h2, h3, h4⟩ := subUnsubscribe_unreg (s := s) (i := j) .delete ht
        have : ¬ (j = i ∧ (view s i).phase = .live) := by
          rintro ⟨e, hp⟩; subst e; exact hj (hlive.mp hp)
        simp only [vstep, this, if_false, multiStep, hu, if_true]
        apply view_ext
        · simp only [view, phaseOf, h1, (h4 i).2.1]
        · exact (h4 i).1
        · exact h2
        · exact h3

end Ro.Subj

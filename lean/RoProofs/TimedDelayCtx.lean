/-
  RoProofs.TimedDelayCtx — Delay keeps every notification together with the context it was sent with (C09, time-driven
  operators; C16: FIFO).

  `Delay`'s queue holds (context, notification) PAIRS (`operator_utility.go`: `queue = append(queue, lo.T2(ctx, notif))`,
  `consume` pops the head and delivers `first.A, first.B`): `delayPopsG` is the pop sequence of RoModel/Timed.lean with
  an arbitrary payload per queue entry. Whatever the timers do — any number of them, firing in any order, early ones
  finding the queue empty — the delivered payloads are, in order, a PREFIX of the queued payloads: nothing is
  reordered, duplicated or re-paired. `delayPops` (the model the C16 acceptor theorems are about) is the instance
  "payload = notification".

  Contrast (`timerCtx_witness`): a design that keeps the context in the timer's closure and the notification in the
  queue pairs notification k with the context of whichever timer fired first — an outcome the pair queue cannot produce.
-/
import RoModel.Timed
namespace Ro.Timed

/-- the pops of `Delay` with a payload of any type per queue entry; `m` = number of pops so far -/
def delayPopsG {γ : Type} (emits : List (Time × γ)) : List (Time × Nat) → Nat → List (Time × γ)
  | [], _ => []
  | f :: fs, m =>
    match emits[m]? with
    | some e => if e.1 ≤ f.1 then (f.1, e.2) :: delayPopsG emits fs (m + 1) else delayPopsG emits fs m
    | none => delayPopsG emits fs m

/-- the model of RoModel/Timed.lean is the instance "payload = notification" -/
theorem delayPops_eq (emits : List (Time × TN)) (fires : List (Time × Nat)) (m : Nat) :
    delayPops emits fires m = (delayPopsG emits fires m).map (fun p => Ev.at p.1 p.2) := by
  induction fires generalizing m with
  | nil => rfl
  | cons f fs ih =>
    unfold delayPops delayPopsG
    cases h : emits[m]? with
    | none => simp only []; exact ih m
    | some e =>
      simp only []
      by_cases hle : e.1 ≤ f.1
      · simp only [hle, if_true, List.map_cons]; rw [ih (m + 1)]
      · simp only [hle, if_false]; exact ih m

/-- FIFO with payloads: what is delivered is, in order, a prefix of what is queued from position `m` on -/
theorem delayPopsG_prefix {γ : Type} (emits : List (Time × γ)) (fires : List (Time × Nat)) (m : Nat) :
    (delayPopsG emits fires m).map (·.2) <+: (emits.drop m).map (·.2) := by
  induction fires generalizing m with
  | nil => simp [delayPopsG]
  | cons f fs ih =>
    unfold delayPopsG
    cases h : emits[m]? with
    | none => simp only []; exact ih m
    | some e =>
      simp only []
      by_cases hle : e.1 ≤ f.1
      · simp only [hle, if_true, List.map_cons]
        have hlt : m < emits.length := by
          rcases Nat.lt_or_ge m emits.length with h1 | h1
          · exact h1
          · rw [List.getElem?_eq_none h1] at h; cases h
        have he : emits[m] = e := by
          rw [List.getElem?_eq_getElem hlt] at h; exact Option.some.inj h
        rw [List.drop_eq_getElem_cons hlt, List.map_cons, he]
        exact List.prefix_cons_inj _ |>.mpr (ih (m + 1))
      · simp only [hle, if_false]; exact ih m

/-- C09 for Delay: every delivered (context, notification) pair is a pair the source sent — a notification is never
    delivered with another notification's context -/
theorem delay_keeps_context {Ctx ν : Type} (emits : List (Time × (Ctx × ν))) (fires : List (Time × Nat)) (p : Time × (Ctx × ν))
    (hp : p ∈ delayPopsG emits fires 0) : p.2 ∈ emits.map (·.2) := by
  have hpre := delayPopsG_prefix emits fires 0
  have : p.2 ∈ (delayPopsG emits fires 0).map (·.2) := List.mem_map.mpr ⟨p, hp, rfl⟩
  have := hpre.subset this
  simpa using this

/-- the k-th delivery is the k-th emission, context included -/
theorem delay_kth {γ : Type} (emits : List (Time × γ)) (fires : List (Time × Nat)) (k : Nat) (p : Time × γ)
    (hk : (delayPopsG emits fires 0)[k]? = some p) : ∃ e, emits[k]? = some e ∧ e.2 = p.2 := by
  have hpre := delayPopsG_prefix emits fires 0
  rw [List.drop_zero] at hpre
  have h1 : ((delayPopsG emits fires 0).map (·.2))[k]? = some p.2 := by simp [List.getElem?_map, hk]
  obtain ⟨t, ht⟩ := hpre
  have h2 : (emits.map (·.2))[k]? = some p.2 := by
    rw [← ht, List.getElem?_append_left]
    · exact h1
    · have := List.getElem?_eq_some_iff.mp h1; exact this.1
  rw [List.getElem?_map] at h2
  cases he : emits[k]? with
  | none => rw [he] at h2; cases h2
  | some e => rw [he] at h2; exact ⟨e, rfl, Option.some.inj h2⟩

/-- the other design (context in the timer's closure, notification in the queue): timer `f.2` brings its own context -/
def delayPopsTimerCtx {Ctx ν : Type} (emits : List (Time × (Ctx × ν))) : List (Time × Nat) → Nat → List (Time × (Ctx × ν))
  | [], _ => []
  | f :: fs, m =>
    match emits[m]?, emits[f.2]? with
    | some e, some t => if e.1 ≤ f.1 then (f.1, (t.2.1, e.2.2)) :: delayPopsTimerCtx emits fs (m + 1) else delayPopsTimerCtx emits fs m
    | _, _ => delayPopsTimerCtx emits fs m

/-- WITNESS (contexts written as numbers): two notifications sent together, the second timer takes the queue lock first:
    the pair queue delivers (c1, 1) then (c2, 2); the timer-context design delivers value 1 with the context of
    notification 2 -/
theorem timerCtx_witness :
    (delayPopsG [(0, ((1 : Nat), (1 : Int))), (0, (2, 2))] [(10, 1), (10, 0)] 0).map (·.2) = [(1, 1), (2, 2)] ∧
    (delayPopsTimerCtx [(0, ((1 : Nat), (1 : Int))), (0, (2, 2))] [(10, 1), (10, 0)] 0).map (·.2) = [(2, 1), (1, 2)] := by decide

end Ro.Timed

import RoModel.Linearizable

/-!
  RoProofs.Atomic — the atomicity meta-theorem.

  *What is modelled.*  A sequential object `O : Obj σ ο ρ` (RoModel.Linearizable) is used by any
  number of threads (thread ids are `Nat`).  Every operation of a thread goes through three events:

  * `call t o`  — thread `t` (which must be idle) calls operation `o`; the call is recorded in the
                  history as a pending operation stamped with the current logical time;
  * `act t`     — thread `t` (which must have called and not yet acted) performs its ONE atomic
                  action on the shared state: `state := (O.step state o).1`, and the result
                  `(O.step state o).2` is remembered by the thread;
  * `ret t`     — thread `t` (which must have acted) returns the remembered result; the history
                  entry of the operation gets `ret := some (now, result)`; the thread is idle again.

  The logical time `now` is the index of the event in the execution (it is incremented by every
  event), so stamps are strictly increasing along the execution.  The scheduler is arbitrary: an
  execution is any list of events each of which is enabled when it is its turn (`Exec`).

  *Statement.*  (`atomic_linearizable`)  For every such execution, the list `cfg.lin` of history
  positions of the operations that have performed their atomic action, in the order of those actions
  (kept in the configuration as ghost state — nothing reads it), is a linearization of the recorded
  history `cfg.hist` in the sense of `isLinearization` — no duplicates, in range, every returned
  operation is there, REAL-TIME ORDER IS RESPECTED, and the sequential run gives every returned
  operation the result it returned — and the sequential run ends in the shared state `cfg.state`.
  Operations that were called but have not acted are the pending operations that the linearization
  drops; operations that have acted but not returned are the pending ones it keeps.

  Corollaries: `atomic_Linearizable`, `atomic_LinearizableWith`.

  Core Lean only.
-/

namespace Ro.Lin

variable {σ ο ρ : Type}

/-! ## The operational model -/

/-- events of a concurrent execution; `t` is the id of the thread that moves -/
inductive Ev (ο : Type) where
  /-- thread `t` calls operation `o` -/
  | call (t : Nat) (o : ο)
  /-- thread `t` performs the atomic action of its current operation -/
  | act (t : Nat)
  /-- thread `t` returns from its current operation -/
  | ret (t : Nat)

/-- what a thread is doing; `k` is the position of its current operation in the history -/
inductive St (ο ρ : Type) where
  /-- no operation in progress -/
  | idle
  /-- has called `o` (recorded at history position `k`), has not performed the atomic action yet -/
  | called (k : Nat) (o : ο)
  /-- has performed the atomic action of the operation at history position `k`, which computed the
      result `r`; has not returned yet -/
  | acted (k : Nat) (r : ρ)

/-- a configuration of the concurrent system -/
structure Cfg (σ ο ρ : Type) where
  /-- the shared state -/
  state : σ
  /-- per-thread status -/
  status : Nat → St ο ρ
  /-- logical time = number of events so far = the stamp the next event gets -/
  now : Nat
  /-- the history recorded so far (an operation is recorded — pending — at its call; its `ret` is
      filled in at its return) -/
  hist : List (HOp ο ρ)
  /-- ghost: history positions of the operations that have acted, in the order of their actions -/
  lin : List Nat

/-- nobody has done anything yet -/
def Cfg.init (O : Obj σ ο ρ) : Cfg σ ο ρ :=
  { state := O.init, status := fun _ => .idle, now := 0, hist := [], lin := [] }

/-- update the status of one thread -/
def setSt (f : Nat → St ο ρ) (t : Nat) (s : St ο ρ) : Nat → St ο ρ :=
  fun t' => if t' = t then s else f t'

/-- one event; `none` when the event is not enabled in `c` -/
def step? (O : Obj σ ο ρ) (c : Cfg σ ο ρ) : Ev ο → Option (Cfg σ ο ρ)
  | .call t o =>
    match c.status t with
    | .idle => some { c with
        status := setSt c.status t (.called c.hist.length o)
        now := c.now + 1
        hist := c.hist ++ [{ op := o, call := c.now, ret := none }] }
    | _ => none
  | .act t =>
    match c.status t with
    | .called k o => some { c with
        state := (O.step c.state o).1
        status := setSt c.status t (.acted k (O.step c.state o).2)
        now := c.now + 1
        lin := c.lin ++ [k] }
    | _ => none
  | .ret t =>
    match c.status t with
    | .acted k r => some { c with
        status := setSt c.status t .idle
        now := c.now + 1
        hist := c.hist.modify k (fun a => { a with ret := some (c.now, r) }) }
    | _ => none

/-- run a list of events from `c`; `none` as soon as one is not enabled -/
def runFrom (O : Obj σ ο ρ) : Cfg σ ο ρ → List (Ev ο) → Option (Cfg σ ο ρ)
  | c, [] => some c
  | c, e :: es => (step? O c e).bind (fun c' => runFrom O c' es)

/-- `evs` is a well-formed execution (every event enabled at its turn) from the initial
    configuration, and it ends in `cfg` -/
def Exec (O : Obj σ ο ρ) (evs : List (Ev ο)) (cfg : Cfg σ ο ρ) : Prop :=
  runFrom O (Cfg.init O) evs = some cfg

/-! ## Ghost data of the proof: one entry per operation that has acted -/

/-- proof-only record of an operation that has acted: its history position, what it was, WHEN it
    acted and what the action computed -/
structure Ent (ο ρ : Type) where
  pos : Nat
  op : ο
  time : Nat
  res : ρ

/-- the entry describes the operation at its position of `h`: same operation, called before the
    action, and — if it has returned — it returned after the action, with the action's result -/
def Ent.ok (h : List (HOp ο ρ)) (p : Ent ο ρ) : Prop :=
  ∃ a, h[p.pos]? = some a ∧ a.op = p.op ∧ a.call < p.time ∧
    ∀ tr r, a.ret = some (tr, r) → r = p.res ∧ p.time < tr

/-- what a thread's status promises about the history and the ghost entries -/
def St.ok (h : List (HOp ο ρ)) (lin : List Nat) (L : List (Ent ο ρ)) (now : Nat) : St ο ρ → Prop
  | .idle => True
  | .called k o => ∃ a, h[k]? = some a ∧ a.op = o ∧ a.call < now ∧ a.ret = none ∧ k ∉ lin
  | .acted k r => ∃ a, h[k]? = some a ∧ a.ret = none ∧ ∃ p ∈ L, p.pos = k ∧ p.res = r

/-- history position of the operation in progress -/
def St.idx : St ο ρ → Option Nat
  | .idle => none
  | .called k _ => some k
  | .acted k _ => some k

/-- the invariant of executions; `L` is the ghost list of entries behind `c.lin` -/
structure Inv (O : Obj σ ο ρ) (c : Cfg σ ο ρ) (L : List (Ent ο ρ)) : Prop where
  pos : L.map (·.pos) = c.lin
  nodup : c.lin.Nodup
  run : O.runSeq O.init (L.map (·.op)) = (c.state, L.map (·.res))
  mono : L.Pairwise (fun p q => p.time < q.time)
  ok : ∀ p ∈ L, p.time < c.now ∧ p.ok c.hist
  complete : ∀ k a, c.hist[k]? = some a → a.ret.isSome = true → k ∈ c.lin
  st : ∀ t, (c.status t).ok c.hist c.lin L c.now
  inj : ∀ t t' k, (c.status t).idx = some k → (c.status t').idx = some k → t = t'

/-! ## Small lemmas -/

theorem runSeq_append (O : Obj σ ο ρ) (s : σ) (xs ys : List ο) :
    O.runSeq s (xs ++ ys) =
      ((O.runSeq (O.runSeq s xs).1 ys).1, (O.runSeq s xs).2 ++ (O.runSeq (O.runSeq s xs).1 ys).2) := by
  induction xs generalizing s with
  | nil => simp [Obj.runSeq]
  | cons x xs ih => simp [Obj.runSeq, ih]

theorem getElem?_append_of_some {α : Type} {h l : List α} {k : Nat} {a : α}
    (hk : h[k]? = some a) : (h ++ l)[k]? = some a := by
  have : k < h.length := by
    obtain ⟨hlt, _⟩ := List.getElem?_eq_some_iff.1 hk
    exact hlt
  rw [List.getElem?_append_left this]; exact hk

theorem lt_length_of_getElem? {α : Type} {h : List α} {k : Nat} {a : α}
    (hk : h[k]? = some a) : k < h.length := by
  obtain ⟨hlt, _⟩ := List.getElem?_eq_some_iff.1 hk
  exact hlt

theorem eq_of_nodup_map {α β : Type} (f : α → β) {L : List α} (hn : (L.map f).Nodup)
    {p q : α} (hp : p ∈ L) (hq : q ∈ L) (hpq : f p = f q) : p = q := by
  induction L with
  | nil => cases hp
  | cons x xs ih =>
    simp only [List.map_cons, List.nodup_cons, List.mem_map, not_exists, not_and] at hn
    rcases List.mem_cons.1 hp with rfl | hp' <;> rcases List.mem_cons.1 hq with rfl | hq'
    · rfl
    · exact absurd hpq.symm (hn.1 q hq')
    · exact absurd hpq (hn.1 p hp')
    · exact ih hn.2 hp' hq'

theorem setSt_same (f : Nat → St ο ρ) (t : Nat) (s : St ο ρ) : setSt f t s t = s := by
  simp [setSt]

theorem setSt_other (f : Nat → St ο ρ) {t t' : Nat} (s : St ο ρ) (h : t' ≠ t) :
    setSt f t s t' = f t' := by
  simp [setSt, h]

theorem Inv.lin_lt {O : Obj σ ο ρ} {c : Cfg σ ο ρ} {L : List (Ent ο ρ)} (hI : Inv O c L)
    {k : Nat} (hk : k ∈ c.lin) : k < c.hist.length := by
  rw [← hI.pos] at hk
  obtain ⟨p, hp, rfl⟩ := List.mem_map.1 hk
  obtain ⟨_, a, ha, _⟩ := hI.ok p hp
  exact lt_length_of_getElem? ha

/-! ## The invariant holds initially and is preserved by every event -/

theorem Inv.init (O : Obj σ ο ρ) : Inv O (Cfg.init O) ([] : List (Ent ο ρ)) where
  pos := rfl
  nodup := List.nodup_nil
  run := rfl
  mono := List.Pairwise.nil
  ok := by intro p hp; cases hp
  complete := by intro k a h; simp [Cfg.init] at h
  st := by intro t; exact True.intro
  inj := by intro t t' k h; simp [Cfg.init, St.idx] at h

theorem Inv.call {O : Obj σ ο ρ} {c : Cfg σ ο ρ} {L : List (Ent ο ρ)} (hI : Inv O c L)
    (t : Nat) (o : ο) (ht : c.status t = .idle) :
    Inv O { c with
        status := setSt c.status t (.called c.hist.length o)
        now := c.now + 1
        hist := c.hist ++ [{ op := o, call := c.now, ret := none }] } L where
  pos := hI.pos
  nodup := hI.nodup
  run := hI.run
  mono := hI.mono
  ok := by
    intro p hp
    obtain ⟨h1, a, ha, h2⟩ := hI.ok p hp
    exact ⟨Nat.lt_succ_of_lt h1, a, getElem?_append_of_some ha, h2⟩
  complete := by
    intro k a hk hr
    dsimp only at hk
    by_cases hlt : k < c.hist.length
    · rw [List.getElem?_append_left hlt] at hk
      exact hI.complete k a hk hr
    · rw [List.getElem?_append_right (Nat.le_of_not_lt hlt)] at hk
      have : a = { op := o, call := c.now, ret := none } := by
        cases hi : k - c.hist.length with
        | zero => rw [hi] at hk; simpa using hk.symm
        | succ n => rw [hi] at hk; simp at hk
      subst this
      cases hr
  st := by
    intro t'
    dsimp only
    by_cases htt : t' = t
    · subst htt
      rw [setSt_same]
      refine ⟨{ op := o, call := c.now, ret := none }, ?_, rfl, Nat.lt_succ_self _, rfl, ?_⟩
      · simp
      · intro hmem
        exact Nat.lt_irrefl _ (hI.lin_lt hmem)
    · rw [setSt_other _ _ htt]
      have h := hI.st t'
      cases hs : c.status t' with
      | idle => exact True.intro
      | called k o' =>
        rw [hs] at h
        obtain ⟨a, ha, h1, h2, h3, h4⟩ := h
        exact ⟨a, getElem?_append_of_some ha, h1, Nat.lt_succ_of_lt h2, h3, h4⟩
      | acted k r =>
        rw [hs] at h
        obtain ⟨a, ha, h1, h2⟩ := h
        exact ⟨a, getElem?_append_of_some ha, h1, h2⟩
  inj := by
    intro t1 t2 k h1 h2
    dsimp only at h1 h2
    have old : ∀ t', (c.status t').idx = some c.hist.length → False := by
      intro t' h
      have hst := hI.st t'
      cases hs : c.status t' with
      | idle => rw [hs] at h; cases h
      | called k' o' =>
        rw [hs] at h hst
        obtain ⟨a, ha, _⟩ := hst
        have := lt_length_of_getElem? ha
        simp only [St.idx, Option.some.injEq] at h
        omega
      | acted k' r' =>
        rw [hs] at h hst
        obtain ⟨a, ha, _⟩ := hst
        have := lt_length_of_getElem? ha
        simp only [St.idx, Option.some.injEq] at h
        omega
    by_cases e1 : t1 = t <;> by_cases e2 : t2 = t
    · rw [e1, e2]
    · subst e1
      rw [setSt_same] at h1
      rw [setSt_other _ _ e2] at h2
      simp only [St.idx, Option.some.injEq] at h1
      subst h1
      exact (old t2 h2).elim
    · subst e2
      rw [setSt_same] at h2
      rw [setSt_other _ _ e1] at h1
      simp only [St.idx, Option.some.injEq] at h2
      subst h2
      exact (old t1 h1).elim
    · rw [setSt_other _ _ e1] at h1
      rw [setSt_other _ _ e2] at h2
      exact hI.inj t1 t2 k h1 h2

theorem Inv.act {O : Obj σ ο ρ} {c : Cfg σ ο ρ} {L : List (Ent ο ρ)} (hI : Inv O c L)
    (t k : Nat) (o : ο) (ht : c.status t = .called k o) :
    Inv O { c with
        state := (O.step c.state o).1
        status := setSt c.status t (.acted k (O.step c.state o).2)
        now := c.now + 1
        lin := c.lin ++ [k] }
      (L ++ [{ pos := k, op := o, time := c.now, res := (O.step c.state o).2 }]) := by
  have hst := hI.st t
  rw [ht] at hst
  obtain ⟨a, ha, haop, hacall, haret, hknot⟩ := hst
  refine
    { pos := ?_, nodup := ?_, run := ?_, mono := ?_, ok := ?_, complete := ?_, st := ?_, inj := ?_ }
  · simp [hI.pos]
  · dsimp only
    rw [List.nodup_append]
    refine ⟨hI.nodup, List.pairwise_singleton _ _, ?_⟩
    intro x hx y hy
    rw [List.mem_singleton] at hy
    subst hy
    intro hxy
    subst hxy
    exact hknot hx
  · rw [List.map_append, runSeq_append, hI.run]
    simp [Obj.runSeq]
  · rw [List.pairwise_append]
    refine ⟨hI.mono, List.pairwise_singleton _ _, ?_⟩
    intro p hp q hq
    rw [List.mem_singleton] at hq
    subst hq
    exact (hI.ok p hp).1
  · intro p hp
    rcases List.mem_append.1 hp with hp | hp
    · obtain ⟨h1, h2⟩ := hI.ok p hp
      exact ⟨Nat.lt_succ_of_lt h1, h2⟩
    · rw [List.mem_singleton] at hp
      subst hp
      refine ⟨Nat.lt_succ_self _, a, ha, haop, hacall, ?_⟩
      intro tr r hr
      rw [haret] at hr
      cases hr
  · intro k' a' hk' hr
    exact List.mem_append_left _ (hI.complete k' a' hk' hr)
  · intro t'
    dsimp only
    by_cases htt : t' = t
    · subst htt
      rw [setSt_same]
      exact ⟨a, ha, haret, _, List.mem_append_right _ (List.mem_singleton.2 rfl), rfl, rfl⟩
    · rw [setSt_other _ _ htt]
      have h := hI.st t'
      cases hs : c.status t' with
      | idle => exact True.intro
      | called k' o' =>
        rw [hs] at h
        obtain ⟨a', ha', h1, h2, h3, h4⟩ := h
        refine ⟨a', ha', h1, Nat.lt_succ_of_lt h2, h3, ?_⟩
        intro hmem
        rcases List.mem_append.1 hmem with hmem | hmem
        · exact h4 hmem
        · rw [List.mem_singleton] at hmem
          subst hmem
          exact htt (hI.inj t' t k' (by rw [hs]; rfl) (by rw [ht]; rfl))
      | acted k' r' =>
        rw [hs] at h
        obtain ⟨a', ha', h1, p, hp, h2⟩ := h
        exact ⟨a', ha', h1, p, List.mem_append_left _ hp, h2⟩
  · intro t1 t2 k' h1 h2
    dsimp only at h1 h2
    have same : ∀ t', (setSt c.status t (St.acted k (O.step c.state o).2) t').idx
        = (c.status t').idx := by
      intro t'
      by_cases e : t' = t
      · subst e; rw [setSt_same, ht]; rfl
      · rw [setSt_other _ _ e]
    rw [same] at h1 h2
    exact hI.inj t1 t2 k' h1 h2

theorem Inv.ret {O : Obj σ ο ρ} {c : Cfg σ ο ρ} {L : List (Ent ο ρ)} (hI : Inv O c L)
    (t k : Nat) (r : ρ) (ht : c.status t = .acted k r) :
    Inv O { c with
        status := setSt c.status t .idle
        now := c.now + 1
        hist := c.hist.modify k (fun a => { a with ret := some (c.now, r) }) } L := by
  have hst := hI.st t
  rw [ht] at hst
  obtain ⟨a, ha, haret, p0, hp0, hp0pos, hp0res⟩ := hst
  have hklin : k ∈ c.lin := by
    rw [← hI.pos, ← hp0pos]; exact List.mem_map.2 ⟨p0, hp0, rfl⟩
  have other : ∀ t', t' ≠ t → ∀ k', (c.status t').idx = some k' → k' ≠ k := by
    intro t' htt k' hk' e
    subst e
    exact htt (hI.inj t' t k' hk' (by rw [ht]; rfl))
  have hget : ∀ k', k' ≠ k →
      (c.hist.modify k (fun a => { a with ret := some (c.now, r) }))[k']? = c.hist[k']? := by
    intro k' hne
    rw [List.getElem?_modify]
    cases c.hist[k']? with
    | none => rfl
    | some b => simp [Ne.symm hne]
  have hgetk : (c.hist.modify k (fun a => { a with ret := some (c.now, r) }))[k]?
      = some { a with ret := some (c.now, r) } := by
    rw [List.getElem?_modify, ha]; simp
  refine
    { pos := hI.pos, nodup := hI.nodup, run := hI.run, mono := hI.mono,
      ok := ?_, complete := ?_, st := ?_, inj := ?_ }
  · intro p hp
    obtain ⟨h1, b, hb, h2, h3, h4⟩ := hI.ok p hp
    refine ⟨Nat.lt_succ_of_lt h1, ?_⟩
    by_cases e : p.pos = k
    · have hpe : p = p0 :=
        eq_of_nodup_map (·.pos) (by rw [hI.pos]; exact hI.nodup) hp hp0 (by rw [e, hp0pos])
      subst hpe
      rw [e, ha] at hb
      cases hb
      refine ⟨{ a with ret := some (c.now, r) }, ?_, h2, h3, ?_⟩
      · dsimp only; rw [e]; exact hgetk
      · intro tr r' hr
        simp only [Option.some.injEq, Prod.mk.injEq] at hr
        obtain ⟨rfl, rfl⟩ := hr
        exact ⟨hp0res.symm, h1⟩
    · exact ⟨b, by dsimp only; rw [hget _ e]; exact hb, h2, h3, h4⟩
  · intro k' b hk' hr
    dsimp only at hk'
    by_cases e : k' = k
    · subst e; exact hklin
    · rw [hget _ e] at hk'
      exact hI.complete k' b hk' hr
  · intro t'
    dsimp only
    by_cases htt : t' = t
    · subst htt
      rw [setSt_same]
      exact True.intro
    · rw [setSt_other _ _ htt]
      have h := hI.st t'
      cases hs : c.status t' with
      | idle => exact True.intro
      | called k' o' =>
        rw [hs] at h
        obtain ⟨a', ha', h1, h2, h3, h4⟩ := h
        have hne := other t' htt k' (by rw [hs]; rfl)
        exact ⟨a', by rw [hget _ hne]; exact ha', h1, Nat.lt_succ_of_lt h2, h3, h4⟩
      | acted k' r' =>
        rw [hs] at h
        obtain ⟨a', ha', h1, h2⟩ := h
        have hne := other t' htt k' (by rw [hs]; rfl)
        exact ⟨a', by rw [hget _ hne]; exact ha', h1, h2⟩
  · intro t1 t2 k' h1 h2
    dsimp only at h1 h2
    by_cases e1 : t1 = t
    · subst e1; rw [setSt_same] at h1; cases h1
    · by_cases e2 : t2 = t
      · subst e2; rw [setSt_same] at h2; cases h2
      · rw [setSt_other _ _ e1] at h1
        rw [setSt_other _ _ e2] at h2
        exact hI.inj t1 t2 k' h1 h2

theorem Inv.step {O : Obj σ ο ρ} {c c' : Cfg σ ο ρ} {L : List (Ent ο ρ)} (hI : Inv O c L)
    (e : Ev ο) (hs : step? O c e = some c') : ∃ L', Inv O c' L' := by
  cases e with
  | call t o =>
    cases ht : c.status t with
    | idle =>
      simp only [step?, ht, Option.some.injEq] at hs
      subst hs
      exact ⟨L, hI.call t o ht⟩
    | called k o' => simp [step?, ht] at hs
    | acted k r => simp [step?, ht] at hs
  | act t =>
    cases ht : c.status t with
    | idle => simp [step?, ht] at hs
    | called k o =>
      simp only [step?, ht, Option.some.injEq] at hs
      subst hs
      exact ⟨_, hI.act t k o ht⟩
    | acted k r => simp [step?, ht] at hs
  | ret t =>
    cases ht : c.status t with
    | idle => simp [step?, ht] at hs
    | called k o => simp [step?, ht] at hs
    | acted k r =>
      simp only [step?, ht, Option.some.injEq] at hs
      subst hs
      exact ⟨L, hI.ret t k r ht⟩

theorem Inv.runFrom {O : Obj σ ο ρ} (evs : List (Ev ο)) {c c' : Cfg σ ο ρ} {L : List (Ent ο ρ)}
    (hI : Inv O c L) (hr : runFrom O c evs = some c') : ∃ L', Inv O c' L' := by
  induction evs generalizing c L with
  | nil => simp only [Lin.runFrom, Option.some.injEq] at hr; subst hr; exact ⟨L, hI⟩
  | cons e es ih =>
    simp only [Lin.runFrom] at hr
    cases hs : step? O c e with
    | none => rw [hs] at hr; cases hr
    | some c1 =>
      rw [hs] at hr
      obtain ⟨L1, hI1⟩ := hI.step e hs
      exact ih hI1 hr

/-- every well-formed execution satisfies the invariant -/
theorem Exec.inv {O : Obj σ ο ρ} {evs : List (Ev ο)} {cfg : Cfg σ ο ρ} (h : Exec O evs cfg) :
    ∃ L : List (Ent ο ρ), Inv O cfg L :=
  Inv.runFrom evs (Inv.init O) h

/-! ## From the invariant to `isLinearization` -/

theorem pick_cons_of_some {h : List (HOp ο ρ)} {k : Nat} {a : HOp ο ρ} (ks : List Nat)
    (hk : h[k]? = some a) : pick h (k :: ks) = a :: pick h ks := by
  simp [pick, hk]

/-- the operations selected by the entries' positions are the entries' operations -/
theorem pick_ops (h : List (HOp ο ρ)) (L : List (Ent ο ρ)) (hok : ∀ p ∈ L, p.ok h) :
    (pick h (L.map (·.pos))).map (·.op) = L.map (·.op) := by
  induction L with
  | nil => rfl
  | cons p L ih =>
    obtain ⟨a, ha, hop, _⟩ := hok p (List.mem_cons_self ..)
    rw [List.map_cons, pick_cons_of_some _ ha, List.map_cons, List.map_cons, hop,
      ih (fun q hq => hok q (List.mem_cons_of_mem _ hq))]

/-- every returned operation returned the result recorded in its entry -/
theorem pick_resultsAgree [DecidableEq ρ] (h : List (HOp ο ρ)) (L : List (Ent ο ρ))
    (hok : ∀ p ∈ L, p.ok h) :
    resultsAgree (pick h (L.map (·.pos))) (L.map (·.res)) = true := by
  induction L with
  | nil => rfl
  | cons p L ih =>
    obtain ⟨a, ha, _, _, hret⟩ := hok p (List.mem_cons_self ..)
    rw [List.map_cons, pick_cons_of_some _ ha, List.map_cons]
    unfold resultsAgree
    rw [ih (fun q hq => hok q (List.mem_cons_of_mem _ hq)), Bool.and_true]
    cases hr : a.ret with
    | none => rfl
    | some x =>
      obtain ⟨tr, r⟩ := x
      exact decide_eq_true (hret tr r hr).1

/-- action times strictly increasing along the list, each between call and return ⇒ real-time
    order is respected: if `b` had returned before `a` was called then
    `time b < ret b < call a < time a`, so `b` cannot come after `a` -/
theorem pick_respectsRealTime (h : List (HOp ο ρ)) (L : List (Ent ο ρ))
    (hok : ∀ p ∈ L, p.ok h) (hmono : L.Pairwise (fun p q => p.time < q.time)) :
    respectsRealTime (pick h (L.map (·.pos))) = true := by
  induction L with
  | nil => rfl
  | cons p L ih =>
    obtain ⟨a, ha, _, hcall, _⟩ := hok p (List.mem_cons_self ..)
    rw [List.pairwise_cons] at hmono
    rw [List.map_cons, pick_cons_of_some _ ha]
    unfold respectsRealTime
    rw [ih (fun q hq => hok q (List.mem_cons_of_mem _ hq)) hmono.2, Bool.and_true,
      List.all_eq_true]
    intro b hb
    obtain ⟨k, hk, hbk⟩ := List.mem_filterMap.1 hb
    obtain ⟨q, hq, rfl⟩ := List.mem_map.1 hk
    obtain ⟨b', hb', _, _, hret⟩ := hok q (List.mem_cons_of_mem _ hq)
    rw [hb'] at hbk
    cases hbk
    have hlt := hmono.1 q hq
    unfold precedes
    cases hr : b.ret with
    | none => rfl
    | some x =>
      obtain ⟨tr, r⟩ := x
      have := (hret tr r hr).2
      simp only [Bool.not_eq_eq_eq_not, Bool.not_true, decide_eq_false_iff_not]
      omega

theorem Inv.isLinearization [DecidableEq ρ] {O : Obj σ ο ρ} {c : Cfg σ ο ρ} {L : List (Ent ο ρ)}
    (hI : Inv O c L) :
    isLinearization O c.hist c.lin = true ∧ finalState O c.hist c.lin = c.state := by
  have hok : ∀ p ∈ L, p.ok c.hist := fun p hp => (hI.ok p hp).2
  have hops : (pick c.hist c.lin).map (·.op) = L.map (·.op) := by
    rw [← hI.pos]; exact pick_ops _ _ hok
  constructor
  · unfold Lin.isLinearization
    simp only [Bool.and_eq_true]
    refine ⟨⟨⟨⟨decide_eq_true hI.nodup, ?_⟩, ?_⟩, ?_⟩, ?_⟩
    · rw [List.all_eq_true]
      intro k hk
      exact decide_eq_true (hI.lin_lt hk)
    · rw [List.all_eq_true]
      intro k hk
      cases hg : c.hist[k]? with
      | none => rfl
      | some a =>
        cases hr : a.ret.isSome with
        | false => simp [hr]
        | true => simp [hI.complete k a hg hr]
    · rw [← hI.pos]; exact pick_respectsRealTime _ _ hok hI.mono
    · rw [hops, hI.run, ← hI.pos]; exact pick_resultsAgree _ _ hok
  · unfold finalState
    rw [hops, hI.run]

/-! ## The meta-theorem -/

/-- **Atomicity ⇒ linearizability.**  If every operation performs exactly one atomic action on the
    shared state between its call and its return (`Exec`), then — for any number of threads and any
    schedule — the order `cfg.lin` of those atomic actions is a linearization of the recorded
    history (real-time order respected, returned results explained), and its sequential run ends
    in the shared state. -/
theorem atomic_linearizable [DecidableEq ρ] (O : Obj σ ο ρ) (evs : List (Ev ο)) (cfg : Cfg σ ο ρ)
    (h : Exec O evs cfg) :
    ∃ lin, isLinearization O cfg.hist lin = true ∧ finalState O cfg.hist lin = cfg.state := by
  obtain ⟨L, hI⟩ := h.inv
  exact ⟨cfg.lin, hI.isLinearization⟩

/-- the witness of `atomic_linearizable` is the ghost field `cfg.lin` (order of the atomic actions) -/
theorem atomic_linearizable_lin [DecidableEq ρ] (O : Obj σ ο ρ) (evs : List (Ev ο))
    (cfg : Cfg σ ο ρ) (h : Exec O evs cfg) :
    isLinearization O cfg.hist cfg.lin = true ∧ finalState O cfg.hist cfg.lin = cfg.state := by
  obtain ⟨L, hI⟩ := h.inv
  exact hI.isLinearization

theorem atomic_Linearizable [DecidableEq ρ] (O : Obj σ ο ρ) (evs : List (Ev ο)) (cfg : Cfg σ ο ρ)
    (h : Exec O evs cfg) : Linearizable O cfg.hist := by
  obtain ⟨lin, hl, _⟩ := atomic_linearizable O evs cfg h
  exact ⟨lin, hl⟩

theorem atomic_LinearizableWith [DecidableEq ρ] (O : Obj σ ο ρ) (evs : List (Ev ο))
    (cfg : Cfg σ ο ρ) (h : Exec O evs cfg) (P : σ → Prop) (hP : P cfg.state) :
    LinearizableWith O cfg.hist P := by
  obtain ⟨lin, hl, hf⟩ := atomic_linearizable O evs cfg h
  exact ⟨lin, hl, by rw [hf]; exact hP⟩

/-! ## Non-vacuity -/

/-- fetch-and-increment -/
def counter : Obj Nat Unit Nat := { init := 0, step := fun s _ => (s + 1, s) }

/-- two threads whose calls overlap; thread 1 acts first although thread 0 called first -/
def overlapEvs : List (Ev Unit) := [.call 0 (), .call 1 (), .act 1, .act 0, .ret 0, .ret 1]

/-- the execution is well-formed; the recorded history has thread 0's operation returning 1 and
    thread 1's returning 0; the order of the atomic actions `[1, 0]` is a linearization, and the
    other order `[0, 1]` is not (it would give thread 0's operation the result 0). -/
example : ∃ cfg, Exec counter overlapEvs cfg
    ∧ cfg.hist = [⟨(), 0, some (4, 1)⟩, ⟨(), 1, some (5, 0)⟩]
    ∧ cfg.lin = [1, 0]
    ∧ cfg.state = 2
    ∧ isLinearization counter cfg.hist cfg.lin = true
    ∧ isLinearization counter cfg.hist [0, 1] = false :=
  ⟨_, rfl, rfl, rfl, rfl, rfl, rfl⟩

/-- an event that is not enabled (returning before having acted) makes the execution ill-formed -/
example : runFrom counter (Cfg.init counter) [.call 0 (), .ret 0] = none := rfl

/-- a history of the counter that is not linearizable: the first operation returned 1 before the
    second, which returned 0, was even called -/
def badHist : List (HOp Unit Nat) := [⟨(), 0, some (1, 1)⟩, ⟨(), 2, some (3, 0)⟩]

/-- `isLinearization` is refutable: `[0, 1]` gives the wrong results, `[1, 0]` violates real-time
    order, `[0]` drops a returned operation -/
example : isLinearization counter badHist [0, 1] = false
    ∧ isLinearization counter badHist [1, 0] = false
    ∧ isLinearization counter badHist [0] = false := by decide

/-- and in fact no candidate order at all works: `badHist` is not linearizable (a candidate must be
    duplicate-free, in range and contain both positions, so it is `[0, 1]` or `[1, 0]`) -/
example : ¬ Linearizable counter badHist := by
  rintro ⟨lin, hl⟩
  unfold isLinearization at hl
  simp only [Bool.and_eq_true, decide_eq_true_eq, List.all_eq_true] at hl
  obtain ⟨⟨⟨⟨hnd, hrange⟩, hcomp⟩, hrt⟩, hres⟩ := hl
  have h0 : 0 ∈ lin := by simpa [badHist] using hcomp 0 (by simp [badHist])
  have h1 : 1 ∈ lin := by simpa [badHist] using hcomp 1 (by simp [badHist])
  match lin, hnd, hrange, h0, h1, hrt, hres with
  | [], _, _, h0, _, _, _ => cases h0
  | [x], _, _, h0, h1, _, _ => simp at h0 h1; omega
  | [x, y], hnd, hrange, h0, h1, hrt, hres =>
    simp at h0 h1 hnd
    have hx : x = 0 ∨ x = 1 := by omega
    rcases hx with rfl | rfl
    · have : y = 1 := by omega
      subst this; revert hres; decide
    · have : y = 0 := by omega
      subst this; revert hrt; decide
  | x :: y :: z :: rest, hnd, hrange, _, _, _, _ =>
    have hx := hrange x (by simp)
    have hy := hrange y (by simp)
    have hz := hrange z (by simp)
    simp [badHist] at hx hy hz hnd
    omega

end Ro.Lin

/-
  RoProofs.Chan — what the invariants of RoProofs/Chan/*.lean say about every schedule of the
  `Pipe` system (detachOn = ObserveOn / SubscribeOn, and ToChannel), plus the kernel's treatment of
  a send that hits the closed channel, and Collect.
-/
import RoProofs.Chan.Prod
import RoProofs.Chan.Cons
namespace Ro.Chan
open Ro
variable {α : Type}

theorem inv_step {cfg : Cfg} {src₀ : List (Notif α)} {s s' : St α} (h : Inv cfg src₀ s) (t : Tid)
    (hs : step cfg s t = some s') : Inv cfg src₀ s' := by
  cases t
  · exact inv_prod h hs
  · exact inv_cons h hs
  · exact inv_ctl h hs
  · simp [step] at hs

theorem inv_next {cfg : Cfg} {src₀ : List (Notif α)} {s : St α} (h : Inv cfg src₀ s) (t : Tid) :
    Inv cfg src₀ (next cfg s t) := by
  unfold next
  cases hs : step cfg s t with
  | none => simpa using h
  | some s' => simpa using inv_step h t hs

theorem inv_run_from {cfg : Cfg} {src₀ : List (Notif α)} (sched : List Tid) :
    ∀ {s : St α}, Inv cfg src₀ s → Inv cfg src₀ (run cfg s sched) := by
  induction sched with
  | nil => intro s h; exact h
  | cons t ts ih => intro s h; exact ih (inv_next h t)

/-- the invariant holds after every schedule of the three threads, for every capacity, flavour,
    source mode and raw script -/
theorem inv_run (cfg : Cfg) (src₀ : List (Notif α)) (sched : List Tid) :
    Inv cfg src₀ (run cfg (init cfg src₀) sched) :=
  inv_run_from sched (inv_init cfg src₀)

/-! ### FIFO, no loss, terminal last -/

/-- what the consumer has handled is a prefix of the gated script: in order, nothing missing in
    between, nothing invented, nothing twice -/
theorem got_prefix {cfg : Cfg} {src₀ : List (Notif α)} {s : St α} (h : Inv cfg src₀ s) :
    ∃ t, s.got ++ t = gate src₀ := by
  obtain ⟨t, e⟩ := h.pre
  refine ⟨chold s.cpc ++ s.q ++ s.fails ++ hand s.ppc ++ t, ?_⟩
  rw [← e, h.flow, h.fifo]; simp

/-- … and so is what went into the channel -/
theorem sent_prefix {cfg : Cfg} {src₀ : List (Notif α)} {s : St α} (h : Inv cfg src₀ s) :
    ∃ t, s.sent ++ t = gate src₀ := by
  obtain ⟨t, e⟩ := h.pre
  exact ⟨s.fails ++ hand s.ppc ++ t, by rw [← e, h.flow]; simp⟩

/-- the terminal is last: nothing follows a terminal in what the consumer sees -/
theorem got_terminal_last {cfg : Cfg} {src₀ : List (Notif α)} {s : St α} (h : Inv cfg src₀ s)
    (l r : List (Notif α)) (x : Notif α) (hg : s.got = l ++ x :: r) (hx : x.isTerminal = true) : r = [] := by
  obtain ⟨t, e⟩ := got_prefix h
  cases r with
  | nil => rfl
  | cons y r' =>
    rw [hg] at e
    have := noTerm_of_snoc_prefix_gate src₀ (l ++ [x]) y (r' ++ t) (by simpa using e)
    simp [hx] at this

/-- detachOn: the final observer gets a prefix of what the consumer loop handled … -/
theorem out_prefix {cfg : Cfg} {src₀ : List (Notif α)} {s : St α} (h : Inv cfg src₀ s) :
    ∃ t, s.out ++ t = gate src₀ := by
  obtain ⟨t, e⟩ := h.outPre
  obtain ⟨u, e'⟩ := got_prefix h
  exact ⟨t ++ u, by rw [← e', ← e]; simp⟩

/-- … and all of it as long as `Unsubscribe()` has not been called -/
theorem out_eq_got {cfg : Cfg} {src₀ : List (Notif α)} {s : St α} (h : Inv cfg src₀ s)
    (hd : cfg.toChan = false) (he : early s = true) : s.out = s.got := h.earlyOut hd he

/-! ### the bound of C08 -/

theorem chold_length_le (p : CPc α) : (chold p).length ≤ 1 := by
  cases p <;> simp [chold]

/-- produced − consumed ≤ capacity + 2, not counting the notifications whose send hit the closed
    channel (they are thrown away, not queued) -/
theorem ahead_le {cfg : Cfg} {src₀ : List (Notif α)} {s : St α} (h : Inv cfg src₀ s) :
    s.entered.length ≤ s.got.length + cfg.cap + 2 + s.fails.length := by
  have h1 := congrArg List.length h.flow
  have h2 := congrArg List.length h.fifo
  simp only [List.length_append] at h1 h2
  have := h.room
  have := hand_length_le s.ppc
  have := chold_length_le s.cpc
  omega

/-- nobody unsubscribed: no send fails, the plain bound holds -/
theorem ahead_le_early {cfg : Cfg} {src₀ : List (Notif α)} {s : St α} (h : Inv cfg src₀ s)
    (he : early s = true) : s.ahead ≤ cfg.cap + 2 := by
  have := ahead_le h
  rw [h.earlyFails he] at this
  simp only [St.ahead, List.length_nil] at *
  omega

/-- a registered (hot) source is cut before the channel is closed: at most the one notification
    that was already inside its callback hits the closed channel -/
theorem fails_le_one_hot {cfg : Cfg} {src₀ : List (Notif α)} {s : St α} (h : Inv cfg src₀ s)
    (hh : cfg.hot = true) : s.fails.length ≤ 1 := by
  have := h.hotFails hh
  omega

theorem ahead_le_hot {cfg : Cfg} {src₀ : List (Notif α)} {s : St α} (h : Inv cfg src₀ s)
    (hh : cfg.hot = true) : s.ahead ≤ cfg.cap + 3 := by
  have := ahead_le h
  have := fails_le_one_hot h hh
  simp only [St.ahead] at *
  omega

/-! ### close exactly once -/

theorem closes_le_one {cfg : Cfg} {src₀ : List (Notif α)} {s : St α} (h : Inv cfg src₀ s) : s.closes ≤ 1 := by
  rw [h.closes]; split <;> omega

/-- as soon as one call of `stop()` / `closeChan()` has returned — the one after the terminal, or
    the teardown's — `close(ch)` has run exactly once -/
theorem closes_eq_one_of_stops {cfg : Cfg} {src₀ : List (Notif α)} {s : St α} (h : Inv cfg src₀ s)
    (hs : 0 < s.stops) : s.closes = 1 ∧ s.closed = true := by
  have ho := h.stops hs
  rw [h.closes, h.onceClosed, ho]; simp

theorem closed_iff_closes {cfg : Cfg} {src₀ : List (Notif α)} {s : St α} (h : Inv cfg src₀ s) :
    s.closed = true ↔ s.closes = 1 := by
  rw [h.closes, h.onceClosed]; cases s.once <;> simp

/-- the producer is never blocked between the terminal and `stop()`; the teardown never blocks -/
theorem stop_enabled (cfg : Cfg) (s : St α) :
    (s.ppc = .stop → (step cfg s .prod).isSome) ∧ (s.tpc = .td1 → (step cfg s .ctl).isSome) ∧
    (s.tpc = .td2 → (step cfg s .ctl).isSome) := by
  refine ⟨?_, ?_, ?_⟩ <;> intro h <;> simp [step, stepProd, stepCtl, h]

/-- after `stop()` following the terminal has run, and after a teardown has run, `stops > 0` -/
theorem stops_pos_after_stop (cfg : Cfg) (s s' : St α) (h : s.ppc = .stop) (hs : step cfg s .prod = some s') :
    0 < s'.stops := by
  simp only [step, stepProd, h, Option.some.injEq] at hs
  subst hs
  simp only [St.stop]; split <;> simp

theorem stops_pos_after_teardown (cfg : Cfg) (s s' : St α) (h : s.tpc = .td2) (hs : step cfg s .ctl = some s') :
    0 < s'.stops ∧ s'.tpc = .done := by
  simp only [step, stepCtl, h, Option.some.injEq] at hs
  subst hs
  simp only [St.stop]; split <;> simp

/-- the deferred release (`defer stop()` / `defer closeChan()` before `subscriptions.Unsubscribe()`):
    once an external teardown has started, its thread needs exactly two steps, both always enabled,
    and then the channel is closed (exactly once) — for every configuration, in particular when
    the source's own teardown panics inside `subscriptions.Unsubscribe()`; in that case the panic
    is what the caller of `Unsubscribe()` gets afterwards (`raised`), not a channel left open -/
theorem teardown_releases {cfg : Cfg} {src₀ : List (Notif α)} {s : St α} (h : Inv cfg src₀ s) (ht : s.tpc = .td1) :
    ∃ s1 s2, step cfg s .ctl = some s1 ∧ step cfg s1 .ctl = some s2 ∧ s2.tpc = .done ∧
      s2.closed = true ∧ s2.closes = 1 ∧
      (cfg.upPanic = true → cfg.hot = true → s.upOpen = true → s2.raised = true) := by
  have e1 : step cfg s .ctl = some { s.unsubUp cfg with tpc := .td2 } := by simp [step, stepCtl, ht]
  have e2 : step cfg { s.unsubUp cfg with tpc := .td2 } .ctl = some { ({ s.unsubUp cfg with tpc := .td2 } : St α).stop with tpc := .done } := by
    simp [step, stepCtl]
  refine ⟨_, _, e1, e2, rfl, ?_⟩
  have hi := inv_step (inv_step h .ctl e1) .ctl e2
  have hs := stops_pos_after_teardown cfg _ _ rfl e2
  have hc := closes_eq_one_of_stops hi hs.1
  refine ⟨hc.2, hc.1, ?_⟩
  intro hp hh hu
  simp [St.stop, St.unsubUp, hp, hh, hu]
  split <;> simp_all

/-! ### completeness: when both ends have nothing left to do, everything arrived -/

theorem pipe_complete {cfg : Cfg} {src₀ : List (Notif α)} {s : St α} (h : Inv cfg src₀ s)
    (he : early s = true) (hh : cfg.toChan = true → s.handed = true)
    (hp : step cfg s .prod = none) (hc : step cfg s .cons = none) :
    s.got = gate src₀ ∧ (cfg.toChan = false → s.out = gate src₀) := by
  have hgot : s.got = gate src₀ := by
    have hfl := h.flow
    have hfi := h.fifo
    have hfa := h.earlyFails he
    have hcut := h.earlyCut he
    simp only [step, stepProd, stepCons] at hp hc
    -- the consumer is blocked: at `recv` on an empty open channel, or gone
    have hhand : (cfg.toChan && !s.handed) = false := by
      cases htc : cfg.toChan <;> simp [hh, htc]
    rw [hhand] at hc
    cases hcp : s.cpc with
    | hold x => simp [hcp] at hc; split at hc <;> (try split at hc) <;> simp at hc
    | td1 => simp [hcp] at hc
    | td2 => simp [hcp] at hc
    | recv =>
      simp only [hcp, Bool.false_eq_true, ↓reduceIte] at hc
      cases hq : s.q with
      | cons y q' => simp [hq] at hc
      | nil =>
        simp only [hq] at hc
        have hcl : s.closed = false := by
          cases hcl : s.closed <;> simp [hcl] at hc ⊢
        -- the producer is blocked: idle with nothing left (a blocked send would find the consumer waiting)
        cases hpp : s.ppc with
        | send x =>
          simp only [hpp, hcl, Bool.false_eq_true, ↓reduceIte, hq, List.length_nil, hcp, hhand] at hp
          split at hp <;> simp at hp
        | stop => simp [hpp] at hp
        | complete => simp [hpp] at hp; split at hp <;> simp at hp
        | td1 => simp [hpp] at hp
        | td2 => simp [hpp] at hp
        | idle =>
          simp only [hpp] at hp
          cases hsrc : s.src with
          | cons y ys => simp [hsrc] at hp; split at hp <;> simp at hp
          | nil =>
            simp only [hpp, hand, hfa, List.append_nil] at hfl
            simp only [hcp, chold, hq, List.append_nil] at hfi
            cases hup : s.upOpen with
            | true => have := h.open_ hup; rw [hsrc] at this; simp at this; rw [this, hfl, hfi]
            | false => rw [h.whole hup hcut, hfl, hfi]
    | exited =>
      have hex : s.closed = true ∧ s.q = [] := by have := h.cpc; simp only [CpcOK, hcp] at this; exact this
      have hcl := hex.1
      have hq := hex.2
      have ⟨hup, hha⟩ := h.earlyClosed he hcl
      cases hpp : s.ppc with
      | send x => rw [hpp] at hha; simp [hand] at hha
      | stop => simp [hpp] at hp
      | complete => simp [hpp] at hp; split at hp <;> simp at hp
      | td1 => simp [hpp] at hp
      | td2 => simp [hpp] at hp
      | idle =>
        simp only [hpp, hand, hfa, List.append_nil] at hfl
        simp only [hcp, chold, hq, List.append_nil] at hfi
        rw [h.whole hup hcut, hfl, hfi]
  exact ⟨hgot, fun hd => by rw [h.earlyOut hd he, hgot]⟩

/-! ### ToChannel: the hand-out of the channel -/


theorem handed_next {cfg : Cfg} {s : St α} (t : Tid) (h : s.handed = true) : (next cfg s t).handed = true := by
  unfold next
  cases hs : step cfg s t with
  | none => simpa using h
  | some s' =>
    simp only [Option.getD_some]
    cases t <;> simp only [step, stepProd, stepCons, stepCtl, St.stop, St.unsubUp] at hs
    · repeat' split at hs
      all_goals first | (simp at hs; done) | (simp only [Option.some.injEq] at hs; subst hs; simpa using h)
    · repeat' split at hs
      all_goals first | (simp at hs; done) | (simp only [Option.some.injEq] at hs; subst hs; simpa using h)
    · repeat' split at hs
      all_goals first | (simp at hs; done) | (simp only [Option.some.injEq] at hs; subst hs; first | rfl | simpa using h)
    · simp at hs

theorem handed_run {cfg : Cfg} (sched : List Tid) : ∀ {s : St α}, s.handed = true → (run cfg s sched).handed = true := by
  induction sched with
  | nil => intro s h; exact h
  | cons t ts ih => intro s h; exact ih (handed_next t h)

/-- what the 1 ms sleep is for: when the hand-out is the first thing that happens, the destination
    receives the channel, whatever the schedule afterwards -/
theorem handout_first (cap : Nat) (hot : Bool) (src₀ : List (Notif α)) (sched : List Tid) :
    (run { cap := cap, toChan := true, hot := hot } (init { cap := cap, toChan := true, hot := hot } src₀) (.ctl :: sched)).handed = true := by
  simp only [run, List.foldl_cons]
  apply handed_run (cfg := { cap := cap, toChan := true, hot := hot }) sched
  simp [next, step, stepCtl, init]

/-- an unbuffered channel cannot take the terminal before somebody reads it, and nobody can read
    before the hand-out: for capacity 0 the hand-out is never refused, under any schedule -/
theorem handout_unbuffered (hot : Bool) (src₀ : List (Notif α)) (sched : List Tid) :
    (run { cap := 0, toChan := true, hot := hot } (init { cap := 0, toChan := true, hot := hot } src₀) sched).handDropped = false :=
  (inv_run { cap := 0, toChan := true, hot := hot } src₀ sched).noDrop rfl rfl

/-- the empty-source race (DESIGN.md C17): for every capacity ≥ 1, when the goroutine runs before
    the hand-out, an empty source completes the destination first and the hand-out is refused —
    the consumer never gets a channel -/
theorem handout_race_witness (c : Nat) (hc : 0 < c) (ctx : Ctx) :
    let cfg : Cfg := { cap := c, toChan := true, hot := false }
    let s := run cfg (init cfg [Notif.complete (α := α) ctx]) [.prod, .prod, .prod, .prod, .ctl]
    s.handDropped = true ∧ s.handed = false ∧ s.destCompleted = true ∧ s.closes = 1 := by
  simp [run, next, step, stepProd, stepCtl, init, afterSend, St.stop, hc]

/-! ### a send that hits the closed channel (observer.go:143-186) -/

/-- whatever the callbacks do, `observerImpl.tryNext / tryError / tryComplete` let no panic out -/
theorem try_no_escape (onNext onComplete : CbRes) (onError : Err → CbRes) (e : Err) :
    (tryNext onNext onError).escaped = none ∧ (tryError onError e).escaped = none ∧
    (tryComplete onComplete).escaped = none := by
  refine ⟨?_, ?_, ?_⟩
  · unfold tryNext tryError; cases onNext with
    | ok => rfl
    | panic p => simp only; cases onError (.observer p) <;> rfl
  · unfold tryError; cases onError e <;> rfl
  · unfold tryComplete; cases onComplete <;> rfl

/-- the panic of `ch <- x` on the closed channel never reaches the caller of Next / Error /
    Complete: it ends as exactly one `OnUnhandledError(ro.Observer: send on closed channel)` -/
theorem failed_send (x : Notif α) :
    (failedSend x).escaped = none ∧ (failedSend x).unhandled = [.observer sendOnClosed] := by
  cases x <;> exact ⟨rfl, rfl⟩

/-! ### Collect -/

theorem values_gate (raw : List (Notif α)) : values (gate raw) = values raw := by
  induction raw with
  | nil => rfl
  | cons x xs ih => cases x <;> simp [gate, values, Notif.isTerminal, ih]

theorem ending_gate (raw : List (Notif α)) : ending (gate raw) = ending raw := by
  induction raw with
  | nil => rfl
  | cons x xs ih => cases x <;> simp [gate, ending, Notif.isTerminal, ih]

/-- Collect returns the values in order and the error of the stream; it never returns for a
    stream that does not terminate -/
theorem collect_spec (raw : List (Notif α)) :
    collect raw = match ending raw with
      | .never => none
      | .error c e => some { vals := (values raw).map (·.2), ctx := some c, err := some e }
      | .complete c => some { vals := (values raw).map (·.2), ctx := some c, err := none } := by
  unfold collect collectOf
  rw [values_gate, ending_gate]
  cases ending raw <;> rfl

/-- Collect over ObserveOn / SubscribeOn: once both ends are done, the same result -/
theorem collect_detach {cfg : Cfg} {src₀ : List (Notif α)} {s : St α} (h : Inv cfg src₀ s)
    (hd : cfg.toChan = false) (he : early s = true)
    (hp : step cfg s .prod = none) (hc : step cfg s .cons = none) (ht : ending src₀ ≠ .never) :
    some (collectOf s.out) = collect src₀ := by
  have := (pipe_complete h he (by simp [hd]) hp hc).2 hd
  rw [this]
  unfold collect
  cases he' : ending src₀ <;> simp_all

end Ro.Chan

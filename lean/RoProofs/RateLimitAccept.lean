/-
  RoProofs.RateLimitAccept — soundness of the executable acceptor of observed traces
  (`RoModel.RateLimit.accepts`): an accepted trace satisfies the clauses of property C20 that can
  be read off an observation — per key the passed values are a subsequence of the source's values
  of that key (order, no duplication), the quota bound n·(⌊(L+slack)/w⌋+2) holds on EVERY span
  (not only between two passed items), the first-window items of every key passed (keys do not
  consume each other's quota), and the terminal is the source's.
-/
import RoProofs.RateLimitTime
namespace Ro.RateLimit
open Ro

variable {κ α : Type}

theorem bound_mono (n w s : Nat) {L L' : Nat} (h : L ≤ L') : bound n w s L ≤ bound n w s L' := by
  unfold bound
  apply Nat.mul_le_mul_left
  have : (L + s) / w ≤ (L' + s) / w := Nat.div_le_div_right (by omega)
  omega

theorem exists_min : ∀ (l : List Nat), l ≠ [] → ∃ m ∈ l, ∀ x ∈ l, m ≤ x := by
  intro l
  induction l with
  | nil => intro h; exact absurd rfl h
  | cons a as ih =>
    intro _
    cases as with
    | nil => exact ⟨a, by simp, by simp⟩
    | cons b bs =>
      obtain ⟨m, hm, hmin⟩ := ih (by simp)
      by_cases h : a ≤ m
      · exact ⟨a, by simp, fun x hx => by
          rcases List.mem_cons.mp hx with rfl | hx
          · exact Nat.le_refl _
          · exact Nat.le_trans h (hmin x hx)⟩
      · exact ⟨m, List.mem_cons_of_mem _ hm, fun x hx => by
          rcases List.mem_cons.mp hx with rfl | hx
          · omega
          · exact hmin x hx⟩

theorem exists_max : ∀ (l : List Nat), l ≠ [] → ∃ m ∈ l, ∀ x ∈ l, x ≤ m := by
  intro l
  induction l with
  | nil => intro h; exact absurd rfl h
  | cons a as ih =>
    intro _
    cases as with
    | nil => exact ⟨a, by simp, by simp⟩
    | cons b bs =>
      obtain ⟨m, hm, hmax⟩ := ih (by simp)
      by_cases h : m ≤ a
      · exact ⟨a, by simp, fun x hx => by
          rcases List.mem_cons.mp hx with rfl | hx
          · exact Nat.le_refl _
          · exact Nat.le_trans (hmax x hx) h⟩
      · exact ⟨m, List.mem_cons_of_mem _ hm, fun x hx => by
          rcases List.mem_cons.mp hx with rfl | hx
          · omega
          · exact hmax x hx⟩

/-- checking the spans between two observed instants is enough: every span obeys the bound -/
theorem quotaOk_sound (c : Cfg) (ts : List Nat) (h : quotaOk c ts = true) (a L : Nat) :
    countIn ts a (a + L) ≤ bound c.n c.w c.slack L := by
  unfold countIn
  by_cases hF : ts.filter (fun t => decide (a ≤ t) && decide (t ≤ a + L)) = []
  · simp [hF]
  · obtain ⟨lo, hlo, hmin⟩ := exists_min _ hF
    obtain ⟨hi, hhi, hmax⟩ := exists_max _ hF
    have hlo' := List.mem_filter.mp hlo
    have hhi' := List.mem_filter.mp hhi
    have hloR : a ≤ lo ∧ lo ≤ a + L := by simpa using hlo'.2
    have hhiR : a ≤ hi ∧ hi ≤ a + L := by simpa using hhi'.2
    have hle : lo ≤ hi := hmin hi hhi
    -- the span [lo, hi] contains the same observed instants
    have hcount : (ts.filter (fun t => decide (a ≤ t) && decide (t ≤ a + L))).length ≤ countIn ts lo hi := by
      unfold countIn
      rw [← List.countP_eq_length_filter, ← List.countP_eq_length_filter]
      apply List.countP_mono_left
      intro x hx hp
      have hxF : x ∈ ts.filter (fun t => decide (a ≤ t) && decide (t ≤ a + L)) := List.mem_filter.mpr ⟨hx, hp⟩
      have h1 := hmin x hxF
      have h2 := hmax x hxF
      simp [h1, h2]
    have hq : countIn ts lo hi ≤ bound c.n c.w c.slack (hi - lo) := by
      unfold quotaOk at h
      have h1 := (List.all_eq_true.mp h) lo hlo'.1
      have h2 := (List.all_eq_true.mp h1) hi hhi'.1
      simpa [hle] using h2
    exact Nat.le_trans hcount (Nat.le_trans hq (bound_mono _ _ _ (by omega)))

variable [DecidableEq κ] [DecidableEq α]

/-- the clauses of C20 that an observation can witness -/
structure Clauses (c : Cfg) (inp : List (InItem κ α)) (e : End) (obs : List (ObsItem κ α)) (term : End) : Prop where
  /-- per key: original order, nothing duplicated -/
  order : ∀ k, (obsKey k obs).Sublist (inKey k inp)
  /-- per key: the quota bound on every span, whatever its placement -/
  quota : ∀ k a L, countIn (obsTimes k obs) a (a + L) ≤ bound c.n c.w c.slack L
  /-- keys are independent: the first `n` items of a key emitted before the key's first tick can
      have fired pass, whatever the other keys did -/
  fresh : ∀ k f, (inp.filter (fun j => j.key = k)).head? = some f →
      ∀ j ∈ (inp.filter (fun j => j.key = k)).take c.n, j.t1 < f.t0 + c.w → j.val ∈ obsKey k obs
  /-- completion / error of the source propagated -/
  terminal : term = e

theorem accepts_sound (c : Cfg) (inp : List (InItem κ α)) (e : End) (obs : List (ObsItem κ α)) (term : End)
    (h : accepts c inp e obs term = true) : Clauses c inp e obs term := by
  unfold accepts at h
  simp only [Bool.and_eq_true, decide_eq_true_eq] at h
  obtain ⟨⟨hobs, hfresh⟩, hterm⟩ := h
  have hobs' := List.all_eq_true.mp hobs
  have hempty : ∀ k, (∀ o ∈ obs, o.key ≠ k) → obs.filter (fun i => i.key = k) = [] := by
    intro k hk
    apply List.filter_eq_nil_iff.mpr
    intro o ho
    simpa using hk o ho
  refine ⟨?_, ?_, ?_, hterm⟩
  · intro k
    by_cases hk : ∃ o ∈ obs, o.key = k
    · obtain ⟨o, ho, rfl⟩ := hk
      have := hobs' o ho
      simp only [Bool.and_eq_true] at this
      exact List.isSublist_iff_sublist.mp this.1
    · have : obs.filter (fun i => i.key = k) = [] := hempty k (fun o ho hh => hk ⟨o, ho, hh⟩)
      simp [obsKey, this]
  · intro k a L
    by_cases hk : ∃ o ∈ obs, o.key = k
    · obtain ⟨o, ho, rfl⟩ := hk
      have := hobs' o ho
      simp only [Bool.and_eq_true] at this
      exact quotaOk_sound c _ this.2 a L
    · have : obs.filter (fun i => i.key = k) = [] := hempty k (fun o ho hh => hk ⟨o, ho, hh⟩)
      simp [obsTimes, this, countIn]
  · intro k f hf j hj hlt
    unfold freshOk at hfresh
    have hall := List.all_eq_true.mp hfresh
    have hfmem : f ∈ inp.filter (fun j => j.key = k) := List.mem_of_mem_head? (by rw [hf]; rfl)
    have hf' := List.mem_filter.mp hfmem
    have hfk : f.key = k := by simpa using hf'.2
    have h1 := hall f hf'.1
    rw [hfk, hf] at h1
    simp only at h1
    have h2 := (List.all_eq_true.mp h1) j hj
    have hjk : j.key = k := by
      have := List.mem_filter.mp (List.mem_of_mem_take hj)
      simpa using this.2
    rw [hjk] at h2
    simp only [Bool.or_eq_true, Bool.not_eq_true', decide_eq_false_iff_not, List.contains_iff_mem] at h2
    rcases h2 with h2 | h2
    · exact absurd hlt h2
    · exact h2

end Ro.RateLimit

/-
  RoProofs.RateLimitUlule — the ulule limiter, for every store (an arbitrary oracle): the output
  is the input filtered by the store's answers, order preserved, nothing duplicated, terminal
  propagated; a store failure is forwarded as the error and ends the stream.
-/
import RoModel.RateLimit
namespace Ro.RateLimit
open Ro

variable {κ α : Type}

def outItems : List (Out κ α) → List (κ × α)
  | [] => []
  | .item k v :: r => (k, v) :: outItems r
  | _ :: r => outItems r

theorem outItems_toOut (e : End) : outItems (e.toOut : List (Out κ α)) = [] := by
  cases e <;> rfl

/-- the operator is a function of the store's recorded answers only (whether or not the source
    keeps being observed after a failure) -/
theorem ulule_byAnswers (store : Store κ) (sync : Bool) (inp : List (κ × α)) (e : End) (h : List κ) :
    ululeFrom store h inp e = byAnswers inp (answersFrom store sync h inp) e := by
  induction inp generalizing h with
  | nil => simp [ululeFrom, byAnswers]
  | cons p r ih =>
    obtain ⟨k, v⟩ := p
    simp only [ululeFrom, answersFrom]
    cases hs : store h k with
    | ok b => cases b <;> simp [byAnswers, ih]
    | fail x => simp [byAnswers]

/-- one answer per item as long as the store does not fail -/
theorem answers_length (store : Store κ) (sync : Bool) (inp : List (κ × α)) (h : List κ)
    (hok : ∀ a ∈ answersFrom store sync h inp, ∃ b, a = Ans.ok b) : (answersFrom store sync h inp).length = inp.length := by
  induction inp generalizing h with
  | nil => simp [answersFrom]
  | cons p r ih =>
    obtain ⟨k, v⟩ := p
    simp only [answersFrom] at hok ⊢
    cases hs : store h k with
    | ok b =>
      simp only [hs] at hok
      simp only [List.length_cons, Nat.add_right_cancel_iff]
      exact ih _ (fun a ha => hok a (List.mem_cons_of_mem _ ha))
    | fail x =>
      simp only [hs] at hok
      obtain ⟨b, hb⟩ := hok (.fail x) (by simp)
      cases hb

/-- **output = filter of the input by the store's answers** (store not failing): exactly the items
    answered "not reached", in order, then the source's ending -/
theorem ulule_filter (store : Store κ) (sync : Bool) (inp : List (κ × α)) (e : End) (h : List κ)
    (hok : ∀ a ∈ answersFrom store sync h inp, ∃ b, a = Ans.ok b) :
    ululeFrom store h inp e =
      (((inp.zip (answersFrom store sync h inp)).filter (fun p => p.2 = Ans.ok false)).map (fun p => Out.item p.1.1 p.1.2))
        ++ e.toOut := by
  induction inp generalizing h with
  | nil => simp [ululeFrom, answersFrom]
  | cons p r ih =>
    obtain ⟨k, v⟩ := p
    simp only [ululeFrom, answersFrom] at hok ⊢
    cases hs : store h k with
    | ok b =>
      simp only [hs] at hok
      have := ih (h ++ [k]) (fun a ha => hok a (List.mem_cons_of_mem _ ha))
      cases b <;> simp [this]
    | fail x =>
      simp only [hs] at hok
      obtain ⟨b, hb⟩ := hok (.fail x) (by simp)
      cases hb

/-- **order preserved, nothing duplicated, terminal propagated** — for every store, failing or not:
    the delivered items are a subsequence of the input, followed by the source's ending or, if the
    store failed, by that failure as the error (and nothing after it) -/
theorem ulule_shape (store : Store κ) (inp : List (κ × α)) (e : End) (h : List κ) :
    ∃ pre : List (κ × α), pre.Sublist inp ∧
      (ululeFrom store h inp e = pre.map (fun p => Out.item p.1 p.2) ++ e.toOut ∨
       ∃ x, ululeFrom store h inp e = pre.map (fun p => Out.item p.1 p.2) ++ [.error x]) := by
  induction inp generalizing h with
  | nil => exact ⟨[], .slnil, .inl (by simp [ululeFrom])⟩
  | cons p r ih =>
    obtain ⟨k, v⟩ := p
    simp only [ululeFrom]
    cases hs : store h k with
    | ok b =>
      obtain ⟨pre, hsub, hcase⟩ := ih (h ++ [k])
      cases b with
      | false =>
        refine ⟨(k, v) :: pre, hsub.cons_cons _, ?_⟩
        rcases hcase with hc | ⟨x, hc⟩
        · exact .inl (by simp [hc])
        · exact .inr ⟨x, by simp [hc]⟩
      | true =>
        refine ⟨pre, hsub.cons _, ?_⟩
        rcases hcase with hc | ⟨x, hc⟩
        · exact .inl (by simp [hc])
        · exact .inr ⟨x, by simp [hc]⟩
    | fail x => exact ⟨[], List.nil_sublist _, .inr ⟨x, by simp⟩⟩

theorem ulule_items_sublist (store : Store κ) (inp : List (κ × α)) (e : End) :
    (outItems (ulule store inp e)).Sublist inp := by
  obtain ⟨pre, hsub, hcase⟩ := ulule_shape store inp e []
  have hm : ∀ (l : List (κ × α)) (t : List (Out κ α)), outItems t = [] →
      outItems (l.map (fun p => Out.item p.1 p.2) ++ t) = l := by
    intro l t ht; induction l with
    | nil => simpa using ht
    | cons a as ih => simp [outItems, ih]
  unfold ulule
  rcases hcase with hc | ⟨x, hc⟩
  · rw [hc, hm _ _ (outItems_toOut e)]; exact hsub
  · rw [hc, hm _ _ rfl]; exact hsub

/-- a store that never says "reached" and never fails lets everything through -/
theorem ulule_open (inp : List (κ × α)) (e : End) (h : List κ) :
    ululeFrom (fun _ _ => Ans.ok false) h inp e = inp.map (fun p => Out.item p.1 p.2) ++ e.toOut := by
  induction inp generalizing h with
  | nil => simp [ululeFrom]
  | cons p r ih => obtain ⟨k, v⟩ := p; simp [ululeFrom, ih]

end Ro.RateLimit

/-
  RoProofs.Release — C14 / C03 (operator part) at the level of machines: for an operator whose
  subscribe function does not wait for its source (the fact `blocks = false` of the regenerated
  table), once the downstream subscriber is closed — by a terminal the operator emitted, or by an
  external Unsubscribe — a hot source is unsubscribed before the call that closed it returns,
  and the operator is never invoked again.
-/
import RoProofs.Gate
namespace Ro
variable {σ α β : Type}

/-- the state invariant of hot runs: downstream closed ⇒ upstream released -/
def Released (r : RunSt σ α β) : Prop := r.downOpen = false → r.upOpen = false

@[simp] theorem push_upOpen' (r : RunSt σ α β) (n) : (r.push n).upOpen = r.upOpen := push_upOpen r n

theorem push_downOpen_mono (r : RunSt σ α β) (n) (h : r.downOpen = false) : (r.push n).downOpen = false := by
  unfold RunSt.push; simp [h]

theorem pushAll_downOpen_mono (r : RunSt σ α β) (ns) (h : r.downOpen = false) : (r.pushAll ns).downOpen = false := by
  induction ns generalizing r with
  | nil => simpa [RunSt.pushAll] using h
  | cons n ns ih => simp only [RunSt.pushAll, List.foldl] at *; exact ih _ (push_downOpen_mono r n h)

theorem feed_released (m : Machine σ α β) (r : RunSt σ α β) (x : Notif α) :
    Released (r.feed m .hot x) := by
  unfold RunSt.feed Released
  split
  · intro hd
    simp only [RunSt.settle] at hd ⊢
    simp [hd]
  · rename_i hu
    intro _
    simpa using hu

theorem fold_released (m : Machine σ α β) (raw : List (Notif α)) (r : RunSt σ α β) (h : Released r) :
    Released (raw.foldl (RunSt.feed m .hot) r) := by
  induction raw generalizing r with
  | nil => exact h
  | cons x xs ih => exact ih _ (feed_released m r x)

/-- **Release (hot sources)**: after any number of notifications, if the downstream side is
    closed then the source has been unsubscribed. -/
theorem runOp_hot_released (m : Machine σ α β) (sub : Ctx) (raw : List (Notif α)) (hs : m.subscribes = true) :
    Released (runOp m .hot sub raw) := by
  unfold runOp
  simp only [hs, if_true]
  apply fold_released
  unfold Released RunSt.afterSubscribe
  cases hdo : (m.start sub).downOpen
  · simp
  · simp [hdo]

/-- an external Unsubscribe after k notifications closes both sides; nothing that follows is
    delivered (C06: cut) and the source is released (C14) -/
theorem runOpCut_out (m : Machine σ α β) (sub : Ctx) (raw : List (Notif α)) (k : Nat) (hs : m.subscribes = true) :
    (runOpCut m sub raw k).out = (runOp m .hot sub (raw.take k)).out ∧ (runOpCut m sub raw k).upOpen = false := by
  unfold runOpCut runOp
  simp only [hs, if_true]
  constructor
  · rw [fold_closed_out _ _ _ _ (by simp)]
  · have : ∀ (l : List (Notif α)) (r : RunSt σ α β), r.upOpen = false → (l.foldl (RunSt.feed m .hot) r).upOpen = false := by
      intro l
      induction l with
      | nil => intro r h; exact h
      | cons x xs ih => intro r h; exact ih _ (feed_closed_out m .hot r x h).2
    exact this _ _ (by simp)

/-- once released, the operator's callbacks are no longer invoked: the state stays put -/
theorem feed_closed_st (m : Machine σ α β) (mode) (r : RunSt σ α β) (x) (h : r.upOpen = false) :
    (r.feed m mode x).st = r.st := by
  simp [RunSt.feed, h]

end Ro

/-
  RoProofs.MultiSim — refinement between two multi-source machines with different encodings of the operator's
  locals (`MMachine.Sim`), and the transfer theorem: related machines have indistinguishable runs
  (`MMachine.Sim.run`, `.runCut`: same delivered trace, refused notifications, per-source subscription counts,
  gates and subscription contexts, for every source configuration, subscription context, interleaving and cut).
  Used by RoProps/C05gen.lean to carry the C05 theorems from the hand-written machines of RoModel/Multi/OpsA.lean
  to the machines regenerated from the Go source (RoGen/MultiGen.lean).
-/
import RoModel.Multi.Core
namespace Ro.Multi
open Ro

variable {σ₁ σ₂ α β : Type}

/-- from related locals, two phases leave related locals and make the same calls -/
def PhaseRel (R : σ₁ → σ₂ → Prop) (p1 : Phase σ₁ β) (p2 : Phase σ₂ β) : Prop :=
  ∀ s1 s2, R s1 s2 → R (p1 s1).1 (p2 s2).1 ∧ (p1 s1).2 = (p2 s2).2

inductive PhasesRel (R : σ₁ → σ₂ → Prop) : List (Phase σ₁ β) → List (Phase σ₂ β) → Prop
  | nil : PhasesRel R [] []
  | cons {p1 p2 ps1 ps2} : PhaseRel R p1 p2 → PhasesRel R ps1 ps2 → PhasesRel R (p1 :: ps1) (p2 :: ps2)

structure MMachine.Sim (R : σ₁ → σ₂ → Prop) (m1 : MMachine σ₁ α β) (m2 : MMachine σ₂ α β) : Prop where
  init : R m1.init m2.init
  boot : ∀ c, PhasesRel R (m1.boot c) (m2.boot c)
  react : ∀ k n, PhasesRel R (m1.react k n) (m2.react k n)
  teardown : ∀ s1 s2, R s1 s2 → R (m1.teardown s1).1 (m2.teardown s2).1 ∧ (m1.teardown s1).2 = (m2.teardown s2).2

/-- two run states that differ only in the (related) locals -/
structure MSt.Rel (R : σ₁ → σ₂ → Prop) (r1 : MSt σ₁ α β) (r2 : MSt σ₂ α β) : Prop where
  st : R r1.st r2.st
  subs : r1.subs = r2.subs
  sopen : r1.sopen = r2.sopen
  sctx : r1.sctx = r2.sctx
  downOpen : r1.downOpen = r2.downOpen
  booted : r1.booted = r2.booted
  out : r1.out = r2.out
  drops : r1.drops = r2.drops
  overflow : r1.overflow = r2.overflow

section
variable {R : σ₁ → σ₂ → Prop} {m1 : MMachine σ₁ α β} {m2 : MMachine σ₂ α β}

theorem MSt.Rel.closeSrc {r1 : MSt σ₁ α β} {r2 : MSt σ₂ α β} (h : MSt.Rel R r1 r2) (k : Nat) :
    MSt.Rel R (r1.closeSrc k) (r2.closeSrc k) :=
  ⟨h.st, h.subs, by simp [MSt.closeSrc, h.sopen], h.sctx, h.downOpen, h.booted, h.out, h.drops, h.overflow⟩

theorem MSt.Rel.closeAll (ks : List Nat) {r1 : MSt σ₁ α β} {r2 : MSt σ₂ α β} (h : MSt.Rel R r1 r2) :
    MSt.Rel R (ks.foldl MSt.closeSrc r1) (ks.foldl MSt.closeSrc r2) := by
  induction ks generalizing r1 r2 with
  | nil => exact h
  | cons k ks ih => exact ih (h.closeSrc k)

theorem MSt.Rel.runTeardown (hs : m1.Sim R m2) {r1 : MSt σ₁ α β} {r2 : MSt σ₂ α β} (h : MSt.Rel R r1 r2) :
    MSt.Rel R (MSt.runTeardown m1 r1) (MSt.runTeardown m2 r2) := by
  have ht := hs.teardown r1.st r2.st h.st
  unfold MSt.runTeardown
  rw [ht.2]
  exact MSt.Rel.closeAll _ ⟨ht.1, h.subs, h.sopen, h.sctx, h.downOpen, h.booted, h.out, h.drops, h.overflow⟩

theorem MSt.Rel.emit (hs : m1.Sim R m2) {r1 : MSt σ₁ α β} {r2 : MSt σ₂ α β} (h : MSt.Rel R r1 r2) (n : Notif β) :
    MSt.Rel R (r1.emit m1 n) (r2.emit m2 n) := by
  have ed := h.downOpen
  have eb := h.booted
  unfold MSt.emit
  by_cases hd : r2.downOpen = true
  · rw [if_pos hd, if_pos (ed.trans hd)]
    by_cases hn : n.isTerminal = true
    · rw [if_pos hn, if_pos hn]
      have h' : MSt.Rel R { r1 with out := r1.out ++ [n], downOpen := false } { r2 with out := r2.out ++ [n], downOpen := false } :=
        ⟨h.st, h.subs, h.sopen, h.sctx, rfl, h.booted, by simp [h.out], h.drops, h.overflow⟩
      by_cases hb : r2.booted = true
      · rw [if_pos hb, if_pos (eb.trans hb)]; exact h'.runTeardown hs
      · rw [if_neg hb, if_neg (fun x => hb (eb.symm.trans x))]; exact h'
    · rw [if_neg hn, if_neg hn]
      exact ⟨h.st, h.subs, h.sopen, h.sctx, h.downOpen, h.booted, by simp [h.out], h.drops, h.overflow⟩
  · rw [if_neg hd, if_neg (fun x => hd (ed.symm.trans x))]
    exact ⟨h.st, h.subs, h.sopen, h.sctx, h.downOpen, h.booted, h.out, by simp [h.drops], h.overflow⟩

theorem MSt.Rel.cut (hs : m1.Sim R m2) {r1 : MSt σ₁ α β} {r2 : MSt σ₂ α β} (h : MSt.Rel R r1 r2) :
    MSt.Rel R (r1.cut m1) (r2.cut m2) := by
  have ed := h.downOpen
  unfold MSt.cut
  by_cases hd : r2.downOpen = true
  · rw [if_pos hd, if_pos (ed.trans hd)]
    exact MSt.Rel.runTeardown hs ⟨h.st, h.subs, h.sopen, h.sctx, rfl, h.booted, h.out, h.drops, h.overflow⟩
  · rw [if_neg hd, if_neg (fun x => hd (ed.symm.trans x))]; exact h

/-- the two interpreters passed down for nested (synchronous) subscriptions agree on related inputs -/
def RecRel (R : σ₁ → σ₂ → Prop) (rec1 : List (Phase σ₁ β) → MSt σ₁ α β → MSt σ₁ α β)
    (rec2 : List (Phase σ₂ β) → MSt σ₂ α β → MSt σ₂ α β) : Prop :=
  ∀ ps1 ps2 r1 r2, PhasesRel R ps1 ps2 → MSt.Rel R r1 r2 → MSt.Rel R (rec1 ps1 r1) (rec2 ps2 r2)

variable {rec1 : List (Phase σ₁ β) → MSt σ₁ α β → MSt σ₁ α β} {rec2 : List (Phase σ₂ β) → MSt σ₂ α β → MSt σ₂ α β}

theorem MSt.Rel.deliver (hs : m1.Sim R m2) (hrec : RecRel R rec1 rec2) (k : Nat) {r1 : MSt σ₁ α β} {r2 : MSt σ₂ α β}
    (h : MSt.Rel R r1 r2) (n : Notif α) : MSt.Rel R (deliver m1 rec1 k r1 n) (deliver m2 rec2 k r2 n) := by
  have eo : r1.sopen k = r2.sopen k := by rw [h.sopen]
  unfold Multi.deliver
  by_cases ho : r2.sopen k = true
  · rw [if_pos ho, if_pos (eo.trans ho)]
    apply hrec _ _ _ _ (hs.react k n)
    by_cases hn : n.isTerminal = true
    · rw [if_pos hn, if_pos hn]; exact h.closeSrc k
    · rw [if_neg hn, if_neg hn]; exact h
  · rw [if_neg ho, if_neg (fun x => ho (eo.symm.trans x))]
    exact ⟨h.st, h.subs, h.sopen, h.sctx, h.downOpen, h.booted, h.out, by simp [h.drops], h.overflow⟩

theorem MSt.Rel.deliverAll (hs : m1.Sim R m2) (hrec : RecRel R rec1 rec2) (k : Nat) (l : List (Notif α))
    {r1 : MSt σ₁ α β} {r2 : MSt σ₂ α β} (h : MSt.Rel R r1 r2) :
    MSt.Rel R (l.foldl (Multi.deliver m1 rec1 k) r1) (l.foldl (Multi.deliver m2 rec2 k) r2) := by
  induction l generalizing r1 r2 with
  | nil => exact h
  | cons n l ih => exact ih (h.deliver hs hrec k n)

theorem MSt.Rel.act (hs : m1.Sim R m2) (cfg : Sources α) (hrec : RecRel R rec1 rec2) {r1 : MSt σ₁ α β} {r2 : MSt σ₂ α β}
    (h : MSt.Rel R r1 r2) (a : Act β) : MSt.Rel R (act m1 cfg rec1 r1 a) (act m2 cfg rec2 r2 a) := by
  cases a with
  | emit n => exact h.emit hs n
  | unsub k => exact h.closeSrc k
  | sub k c =>
    simp only [Multi.act]
    have h' : MSt.Rel R { r1 with subs := setAt r1.subs k (r1.subs k + 1), sopen := setAt r1.sopen k true, sctx := setAt r1.sctx k c }
        { r2 with subs := setAt r2.subs k (r2.subs k + 1), sopen := setAt r2.sopen k true, sctx := setAt r2.sctx k c } :=
      ⟨h.st, by simp [h.subs], by simp [h.sopen], by simp [h.sctx], h.downOpen, h.booted, h.out, h.drops, h.overflow⟩
    by_cases hy : cfg.sync k = true
    · rw [if_pos hy, if_pos hy]; exact h'.deliverAll hs hrec k _
    · rw [if_neg hy, if_neg hy]; exact h'

theorem MSt.Rel.acts (hs : m1.Sim R m2) (cfg : Sources α) (hrec : RecRel R rec1 rec2) (l : List (Act β))
    {r1 : MSt σ₁ α β} {r2 : MSt σ₂ α β} (h : MSt.Rel R r1 r2) :
    MSt.Rel R (l.foldl (Multi.act m1 cfg rec1) r1) (l.foldl (Multi.act m2 cfg rec2) r2) := by
  induction l generalizing r1 r2 with
  | nil => exact h
  | cons a l ih => exact ih (h.act hs cfg hrec a)

theorem MSt.Rel.phase (hs : m1.Sim R m2) (cfg : Sources α) (hrec : RecRel R rec1 rec2) {p1 : Phase σ₁ β} {p2 : Phase σ₂ β}
    (hp : PhaseRel R p1 p2) {r1 : MSt σ₁ α β} {r2 : MSt σ₂ α β} (h : MSt.Rel R r1 r2) :
    MSt.Rel R (phase m1 cfg rec1 r1 p1) (phase m2 cfg rec2 r2 p2) := by
  have hp' := hp r1.st r2.st h.st
  unfold Multi.phase
  rw [hp'.2]
  exact MSt.Rel.acts hs cfg hrec _ ⟨hp'.1, h.subs, h.sopen, h.sctx, h.downOpen, h.booted, h.out, h.drops, h.overflow⟩

theorem MSt.Rel.phases (hs : m1.Sim R m2) (cfg : Sources α) (hrec : RecRel R rec1 rec2) :
    RecRel R (Multi.phases m1 cfg rec1) (Multi.phases m2 cfg rec2) := by
  intro ps1 ps2 r1 r2 hps
  induction hps generalizing r1 r2 with
  | nil => intro h; exact h
  | cons hp _ ih => intro h; exact ih _ _ (h.phase hs cfg hrec hp)

theorem MSt.Rel.phasesAt (hs : m1.Sim R m2) (cfg : Sources α) (d : Nat) :
    RecRel R (Multi.phasesAt m1 cfg d) (Multi.phasesAt m2 cfg d) := by
  induction d with
  | zero =>
    exact MSt.Rel.phases hs cfg (fun _ _ _ _ _ h =>
      ⟨h.st, h.subs, h.sopen, h.sctx, h.downOpen, h.booted, h.out, h.drops, rfl⟩)
  | succ d ih => exact MSt.Rel.phases hs cfg ih

theorem MMachine.Sim.bootSt (hs : m1.Sim R m2) (cfg : Sources α) (sub : Ctx) :
    MSt.Rel R (Multi.bootSt m1 cfg sub) (Multi.bootSt m2 cfg sub) := by
  have h0 : MSt.Rel R ({ st := m1.init } : MSt σ₁ α β) ({ st := m2.init } : MSt σ₂ α β) :=
    ⟨hs.init, rfl, rfl, rfl, rfl, rfl, rfl, rfl, rfl⟩
  have h1 := MSt.Rel.phasesAt hs cfg (depth cfg) _ _ _ _ (hs.boot sub) h0
  have h2 : MSt.Rel R { phasesAt m1 cfg (depth cfg) (m1.boot sub) { st := m1.init } with booted := true }
      { phasesAt m2 cfg (depth cfg) (m2.boot sub) { st := m2.init } with booted := true } :=
    ⟨h1.st, h1.subs, h1.sopen, h1.sctx, h1.downOpen, rfl, h1.out, h1.drops, h1.overflow⟩
  unfold Multi.bootSt
  simp only []
  by_cases hd : (phasesAt m2 cfg (depth cfg) (m2.boot sub) { st := m2.init }).downOpen = true
  · rw [if_pos hd, if_pos (h1.downOpen.trans hd)]; exact h2
  · rw [if_neg hd, if_neg (fun h => hd (h1.downOpen.symm.trans h))]; exact h2.runTeardown hs

theorem MSt.Rel.feed (hs : m1.Sim R m2) (cfg : Sources α) {r1 : MSt σ₁ α β} {r2 : MSt σ₂ α β} (h : MSt.Rel R r1 r2)
    (e : MEvent α) : MSt.Rel R (Multi.feed m1 cfg r1 e) (Multi.feed m2 cfg r2 e) := by
  have es : r1.subs e.1 = r2.subs e.1 := by rw [h.subs]
  unfold Multi.feed
  by_cases h0 : r2.subs e.1 = 0
  · rw [if_pos h0, if_pos (es.trans h0)]; exact h
  · rw [if_neg h0, if_neg (fun x => h0 (es.symm.trans x))]
    exact h.deliver hs (MSt.Rel.phasesAt hs cfg _) _ _

theorem MSt.Rel.feedAll (hs : m1.Sim R m2) (cfg : Sources α) (evs : List (MEvent α)) {r1 : MSt σ₁ α β} {r2 : MSt σ₂ α β}
    (h : MSt.Rel R r1 r2) : MSt.Rel R (Multi.feedAll m1 cfg r1 evs) (Multi.feedAll m2 cfg r2 evs) := by
  unfold Multi.feedAll
  induction evs generalizing r1 r2 with
  | nil => exact h
  | cons e evs ih => exact ih (h.feed hs cfg e)

/-- a refinement makes the two runs indistinguishable, for every configuration of sources (hot or
    synchronous), subscription context and interleaving -/
theorem MMachine.Sim.run (hs : m1.Sim R m2) (cfg : Sources α) (sub : Ctx) (order : List Nat) :
    MSt.Rel R (runMulti m1 cfg sub order) (runMulti m2 cfg sub order) :=
  MSt.Rel.feedAll hs cfg _ (hs.bootSt cfg sub)

/-- … and under an external `Unsubscribe` after any number of steps -/
theorem MMachine.Sim.runCut (hs : m1.Sim R m2) (cfg : Sources α) (sub : Ctx) (order : List Nat) (c : Nat) :
    MSt.Rel R (runMultiCut m1 cfg sub order c) (runMultiCut m2 cfg sub order c) :=
  MSt.Rel.feedAll hs cfg _ ((hs.run cfg sub (order.take c)).cut hs)

theorem MMachine.Sim.out (hs : m1.Sim R m2) (cfg : Sources α) (sub : Ctx) (order : List Nat) :
    (runMulti m1 cfg sub order).out = (runMulti m2 cfg sub order).out := (hs.run cfg sub order).out

end
end Ro.Multi

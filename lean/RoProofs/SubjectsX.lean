/-
  RoProofs.SubjectsX — the reduction of RoModel/SubjectsX.lean keeps the subject's registration invariant, and a dead
  subscriber is never left registered (C10: "observers are dropped from the subject on termination or unsubscription",
  "unicast admits one subscriber at a time" also across subscriptions made with a ready-made Subscriber).
-/
import RoModel.SubjectsX
import RoProofs.SubjectsView
import RoProofs.SubjectsUnicast
import RoProofs.SubjectsKinds
namespace Ro.Subj

/-- the registration invariant of a kind: `Inv`, plus "at most one observer" for unicast -/
def KInv : Kind Int → State Int → Prop
  | .unicast _, s => UInv s
  | _, s => Inv s

theorem KInv.toInv {k : Kind Int} {s : State Int} (h : KInv k s) : Inv s := by
  cases k with
  | unicast cap => exact UInv.inv h
  | publish => exact h
  | behavior v => exact h
  | replay cap => exact h
  | async => exact h

theorem kinv_init (k : Kind Int) : KInv k k.init := by
  cases k with
  | unicast cap => exact uinv_init cap
  | publish => exact inv_init _
  | behavior v => exact inv_init _
  | replay cap => exact inv_init _
  | async => exact inv_init _

theorem kinv_step (k : Kind Int) {s : State Int} (h : KInv k s) (o : Op Int) : KInv k (k.step s o) := by
  cases k with
  | unicast cap => exact uinv_step cap h o
  | publish => show Inv (publishStep s o); rw [publishStep_eq]; exact inv_multiStep _ publishP_law h o
  | behavior v => show Inv (behaviorStep s o); rw [behaviorStep_eq]; exact inv_multiStep _ behaviorP_law h o
  | replay cap => show Inv (replayStep cap s o); rw [replayStep_eq]; exact inv_multiStep _ (replayP_law cap) h o
  | async => show Inv (asyncStep s o); rw [asyncStep_eq]; exact inv_multiStep _ asyncP_law h o

theorem rewrite_observers (s : State Int) (i : Nat) (keep dropped : List (Notif Int)) :
    (rewrite s i keep dropped).observers = s.observers := rfl

theorem inv_rewrite {s : State Int} (h : Inv s) (i : Nat) (keep dropped : List (Notif Int)) : Inv (rewrite s i keep dropped) := by
  refine h.of_eq_on rfl rfl (fun j => ?_)
  by_cases hj : j = i <;> simp [rewrite, State.modSub, hj]

theorem kinv_rewrite (k : Kind Int) {s : State Int} (h : KInv k s) (i : Nat) (keep dropped : List (Notif Int)) :
    KInv k (rewrite s i keep dropped) := by
  cases k with
  | unicast cap =>
    have hu : UInv s := h
    exact ⟨inv_rewrite hu.inv i keep dropped, hu.one⟩
  | publish => exact inv_rewrite h i keep dropped
  | behavior v => exact inv_rewrite h i keep dropped
  | replay cap => exact inv_rewrite h i keep dropped
  | async => exact inv_rewrite h i keep dropped

theorem kinv_settleOne (k : Kind Int) (before : State Int) (replay : Bool) (acc : State Int × List Nat) (i : Nat)
    (h : KInv k acc.1) : KInv k (settleOne k before replay acc i).1 := by
  obtain ⟨s, still⟩ := acc
  simp only [settleOne]
  split
  · exact h
  · exact kinv_step k (kinv_rewrite k h _ _ _) _
  · exact h

theorem kinv_settle (k : Kind Int) (before s : State Int) (armed : List Nat) (replay : Bool) (h : KInv k s) :
    KInv k (settle k before s armed replay).1 := by
  unfold settle
  suffices hh : ∀ (acc : State Int × List Nat), KInv k acc.1 → KInv k (armed.foldl (settleOne k before replay) acc).1 from hh (s, []) h
  induction armed with
  | nil => intro acc ha; exact ha
  | cons a as ih => intro acc ha; exact ih _ (kinv_settleOne k before replay acc a ha)

theorem kinv_stepX (k : Kind Int) (st : State Int × List Nat) (x : XOp) (h : KInv k st.1) : KInv k (stepX k st x).1 := by
  obtain ⟨s, armed⟩ := st
  cases x with
  | plain o => exact kinv_settle k s _ armed false (kinv_step k h o)
  | dead i c => exact kinv_step k (kinv_rewrite k (kinv_step k h _) _ _ _) _
  | selfUnsub i c =>
    simp only [stepX]
    exact kinv_settle k s _ [i] true (kinv_step k h _)

theorem kinv_runX (k : Kind Int) (xs : List XOp) : KInv k (runX k xs).1 := by
  unfold runX
  suffices hh : ∀ (st : State Int × List Nat), KInv k st.1 → KInv k (xs.foldl (stepX k) st).1 from hh _ (kinv_init k)
  induction xs with
  | nil => intro st h; exact h
  | cons x xs ih => intro st h; exact ih _ (kinv_stepX k st x h)

theorem runX_snoc (k : Kind Int) (xs : List XOp) (x : XOp) : runX k (xs ++ [x]) = stepX k (runX k xs) x := by
  simp [runX, List.foldl_append]

theorem unsub_drops_multi (P : MP Int) {s : State Int} (h : Inv s) (i : Nat) :
    i ∉ (multiStep P s (.unsubscribe i)).observers := by
  cases hu : (s.sub i).used with
  | false => rw [step_unsubscribe_unused P hu]; exact h.not_mem_of_unused hu
  | true =>
    by_cases hi : i ∈ s.observers
    · rw [step_unsubscribe_reg P h hi]; simp
    · have := (subUnsubscribe_unreg (s := s) (i := i) .delete (h.td_false hi)).1
      simp only [multiStep, hu, if_true, this]; exact hi

theorem unsub_drops_unicast (cap : Option Nat) {s : State Int} (h : UInv s) (i : Nat) :
    i ∉ (unicastStep cap s (.unsubscribe i)).observers := by
  cases hu : (s.sub i).used with
  | false => rw [ustep_unsubscribe_unused cap hu]; exact h.inv.not_mem_of_unused hu
  | true =>
    by_cases hi : i ∈ s.observers
    · rw [ustep_unsubscribe_reg cap h hi]; simp
    · have := (subUnsubscribe_unreg (s := s) (i := i) .clear (h.inv.td_false hi)).1
      simp only [unicastStep, hu, if_true, this]; exact hi

/-- an unsubscription removes the subscriber from the subject, from any state that satisfies the kind's invariant -/
theorem unsubscribe_drops (k : Kind Int) {s : State Int} (h : KInv k s) (i : Nat) : i ∉ (k.step s (.unsubscribe i)).observers := by
  cases k with
  | unicast cap => exact unsub_drops_unicast cap h i
  | publish => show i ∉ (publishStep s _).observers; rw [publishStep_eq]; exact unsub_drops_multi _ h i
  | behavior v => show i ∉ (behaviorStep s _).observers; rw [behaviorStep_eq]; exact unsub_drops_multi _ h i
  | replay cap => show i ∉ (replayStep cap s _).observers; rw [replayStep_eq]; exact unsub_drops_multi _ h i
  | async => show i ∉ (asyncStep s _).observers; rw [asyncStep_eq]; exact unsub_drops_multi _ h i

end Ro.Subj


/-
  RoProofs.TimedWindow — ThrottleTime, SampleTime, BufferWithTime(OrCount) on their logical models:
  spacing of consecutive passes, at most one sample per tick and always the latest, buffers made of
  the source's values in source order, each once.
-/
import RoProofs.TimedBasic
namespace Ro.Timed
open List

/-! ### ThrottleTime -/

/-- every VALUE of the list is more than `w` after the previous value (after `last` for the first) -/
def Spaced (w : Nat) : Time → List Ev → Prop
  | _, [] => True
  | last, ⟨t0, _, .next _⟩ :: es => last + w < t0 ∧ Spaced w t0 es
  | last, _ :: es => Spaced w last es

/-- **ThrottleTime**: consecutive passes are more than the window apart (for every source
    timeline), the first one more than the window after instant 0 — the start of the process. -/
theorem throttle_spaced (w : Nat) : ∀ (last : Time) (emits : List (Time × TN)),
    Spaced w last (throttlePass w last emits)
  | _, [] => by simp [throttlePass, Spaced]
  | last, (t, .next v) :: r => by
    simp only [throttlePass]
    split
    next h => exact ⟨h, throttle_spaced w t r⟩
    next => exact throttle_spaced w last r
  | last, (t, .buf vs) :: r => by
    simp only [throttlePass, Spaced, Ev.at]; exact throttle_spaced w last r
  | last, (t, .error c) :: r => by
    simp only [throttlePass, Spaced, Ev.at]; exact throttle_spaced w last r
  | last, (t, .complete) :: r => by
    simp only [throttlePass, Spaced, Ev.at]; exact throttle_spaced w last r

/-- what is spaced stays spaced when it is cut short (gate, teardown) -/
theorem spaced_prefix (w : Nat) : ∀ (last : Time) (p l : List Ev), p <+: l → Spaced w last l → Spaced w last p
  | _, [], _, _, _ => by simp [Spaced]
  | last, e :: p, [], h, _ => by simp at h
  | last, e :: p, e' :: l, h, hs => by
    obtain ⟨rfl, hp⟩ := List.cons_prefix_cons.1 h
    obtain ⟨t0, t1, n⟩ := e
    cases n with
    | next v => exact ⟨hs.1, spaced_prefix w t0 p l hp hs.2⟩
    | buf vs => exact spaced_prefix w last p l hp hs
    | error c => exact spaced_prefix w last p l hp hs
    | complete => exact spaced_prefix w last p l hp hs

/-- two deliveries in a row that are both values are more than `w` apart -/
theorem spaced_adjacent (w : Nat) : ∀ (last : Time) (l : List Ev) (k : Nat) (a b : Ev) (va vb : Int),
    Spaced w last l → l[k]? = some a → l[k+1]? = some b → a.n = .next va → b.n = .next vb → a.t0 + w < b.t0
  | _, [], k, a, b, _, _, _, h, _, _, _ => by simp at h
  | last, e :: es, 0, a, b, va, vb, hs, ha, hb, hna, hnb => by
    simp at ha; subst ha
    obtain ⟨t0, t1, n⟩ := e
    simp only at hna; subst hna
    cases es with
    | nil => simp at hb
    | cons e2 es2 =>
      simp at hb; subst hb
      obtain ⟨t0', t1', n'⟩ := e2
      simp only at hnb; subst hnb
      exact hs.2.1
  | last, e :: es, k + 1, a, b, va, vb, hs, ha, hb, hna, hnb => by
    simp only [List.getElem?_cons_succ] at ha hb
    obtain ⟨t0, t1, n⟩ := e
    cases n with
    | next v => exact spaced_adjacent w t0 es k a b va vb hs.2 ha hb hna hnb
    | buf vs => exact spaced_adjacent w last es k a b va vb hs ha hb hna hnb
    | error c => exact spaced_adjacent w last es k a b va vb hs ha hb hna hnb
    | complete => exact spaced_adjacent w last es k a b va vb hs ha hb hna hnb

/-- **at most one value per window**: in every run of the ThrottleTime model, whatever the source
    timeline and the instant of the teardown, two consecutive deliveries that are values are more
    than the window apart. -/
theorem throttle_one_per_window (r : ThrottleRun) (k : Nat) (a b : Ev) (va vb : Int)
    (ha : (throttleTrace r).dels[k]? = some a) (hb : (throttleTrace r).dels[k+1]? = some b)
    (hna : a.n = .next va) (hnb : b.n = .next vb) : a.t0 + r.w < b.t0 :=
  spaced_adjacent r.w 0 _ k a b va vb
    (spaced_prefix r.w 0 _ _ (down_prefix r.unsub _) (throttle_spaced r.w 0 r.emits)) ha hb hna hnb

/-- nothing invented, source order kept: what passes is a sublist of what the source emitted -/
theorem throttle_sublist (w : Nat) : ∀ (last : Time) (emits : List (Time × TN)),
    (throttlePass w last emits).map (·.n) <+ emits.map (·.2)
  | _, [] => by simp [throttlePass]
  | last, (t, .next v) :: r => by
    simp only [throttlePass]
    split
    · simp only [List.map_cons, Ev.at]; exact (throttle_sublist w t r).cons_cons _
    · simp only [List.map_cons]; exact (throttle_sublist w last r).cons _
  | last, (t, .buf vs) :: r => by
    simp only [throttlePass, List.map_cons, Ev.at]; exact (throttle_sublist w last r).cons_cons _
  | last, (t, .error c) :: r => by
    simp only [throttlePass, List.map_cons, Ev.at]; exact (throttle_sublist w last r).cons_cons _
  | last, (t, .complete) :: r => by
    simp only [throttlePass, List.map_cons, Ev.at]; exact (throttle_sublist w last r).cons_cons _

theorem throttle_trace_sublist (r : ThrottleRun) :
    (throttleTrace r).dels.map (·.n) <+ r.emits.map (·.2) :=
  ((down_prefix r.unsub _).sublist.map _).trans (throttle_sublist r.w 0 r.emits)

/-- seen while modelling (C04's business, not a clause of C16): `lastAt` starts at the PROCESS start,
    so a value emitted during the first window of the process's life is dropped -/
theorem throttle_drops_during_first_window_of_process (w : Nat) (t : Time) (v : Int) (h : t ≤ w) :
    throttlePass w 0 [(t, .next v)] = [] := by
  simp [throttlePass]; omega

-- non-vacuity: window 5; values at 6, 8, 12, 13, 30 then completion
example : (throttlePass 5 0 [(6, .next 1), (8, .next 2), (12, .next 3), (13, .next 4), (30, .next 5), (30, .complete)]).map (·.n)
    = [.next 1, .next 3, .next 5, .complete] := by decide

/-! ### SampleTime -/

/-- the value a tick finds: the last one handed over since the previous sample, if any -/
def lastSrc : Option Int → List (Time × Int) → Option Int
  | st, [] => st
  | _, (_, v) :: r => lastSrc (some v) r

/-- **always the latest, at most one per tick, nothing without a new value**: a tick that follows a
    run of source values emits exactly the last of them (or the one still stored), once. -/
theorem sample_tick (st : Option Int) (k : Nat) (seg : List (Time × Int)) (t : Time) (r : List SaEv) :
    sampleFrom st k (seg.map (fun p => SaEv.src p.1 p.2) ++ .tick t :: r) =
      match lastSrc st seg with
      | some v => (k, t, v) :: sampleFrom none (k + 1) r
      | none => sampleFrom none (k + 1) r := by
  induction seg generalizing st with
  | nil => cases st <;> simp [lastSrc, sampleFrom]
  | cons p seg ih =>
    cases st <;> simp only [List.map_cons, List.cons_append, sampleFrom, lastSrc] <;> exact ih (some p.2)

/-- a second tick without a new value emits nothing -/
theorem sample_no_repeat (k : Nat) (t t' : Time) (v : Int) (r : List SaEv) :
    sampleFrom (some v) k (.tick t :: .tick t' :: r) = (k, t, v) :: sampleFrom none (k + 2) r := by
  simp [sampleFrom]

/-- ticks of a ticker created after `sub`: the k-th (from 0) not before `k+1` periods -/
def TicksOK (sub p : Nat) : Nat → List SaEv → Prop
  | _, [] => True
  | k, .src _ _ :: r => TicksOK sub p k r
  | k, .tick t :: r => sub + (k + 1) * p ≤ t ∧ TicksOK sub p (k + 1) r

/-- **at most one sample per tick**: the i-th sample comes from tick number ≥ k+i, and never before
    that tick's earliest instant -/
theorem sample_bounds (sub p : Nat) : ∀ (st : Option Int) (k : Nat) (evs : List SaEv), TicksOK sub p k evs →
    ∀ (i : Nat) (o : Nat × Time × Int), (sampleFrom st k evs)[i]? = some o → k + i ≤ o.1 ∧ sub + (o.1 + 1) * p ≤ o.2.1
  | _, _, [], _, i, o, h => by simp [sampleFrom] at h
  | st, k, .src t v :: r, hok, i, o, h => by
    cases st <;> exact sample_bounds sub p (some v) k r hok i o (by simpa [sampleFrom] using h)
  | some v, k, .tick t :: r, hok, i, o, h => by
    simp only [sampleFrom] at h
    cases i with
    | zero => simp at h; subst h; exact ⟨by simp, hok.1⟩
    | succ i =>
      simp only [List.getElem?_cons_succ] at h
      have := sample_bounds sub p none (k + 1) r hok.2 i o h
      exact ⟨by omega, this.2⟩
  | none, k, .tick t :: r, hok, i, o, h => by
    simp only [sampleFrom] at h
    have := sample_bounds sub p none (k + 1) r hok.2 i o h
    exact ⟨by omega, this.2⟩

/-- the i-th sample is not delivered before `i+1` periods have elapsed since subscription -/
theorem sample_never_early (sub p : Nat) (evs : List SaEv) (hok : TicksOK sub p 0 evs)
    (i : Nat) (o : Nat × Time × Int) (h : (sampleFrom none 0 evs)[i]? = some o) : sub + (i + 1) * p ≤ o.2.1 := by
  obtain ⟨h1, h2⟩ := sample_bounds sub p none 0 evs hok i o h
  have : (i + 1) * p ≤ (o.1 + 1) * p := Nat.mul_le_mul_right p (by omega)
  omega

def saVals : List SaEv → List Int
  | [] => []
  | .src _ v :: r => v :: saVals r
  | .tick _ :: r => saVals r

/-- never invented, never out of source order, never twice -/
theorem sample_sublist : ∀ (st : Option Int) (k : Nat) (evs : List SaEv),
    (sampleFrom st k evs).map (·.2.2) <+ st.toList ++ saVals evs
  | st, _, [] => by simp [sampleFrom]
  | st, k, .src t v :: r => by
    have := sample_sublist (some v) k r
    cases st with
    | none => simpa [sampleFrom, saVals] using this
    | some w => simp only [sampleFrom, saVals, Option.toList]; exact List.Sublist.cons _ (by simpa using this)
  | some v, k, .tick t :: r => by
    have := sample_sublist none (k + 1) r
    simp only [sampleFrom, saVals, List.map_cons, Option.toList, List.singleton_append]
    exact List.Sublist.cons_cons _ (by simpa using this)
  | none, k, .tick t :: r => by
    have := sample_sublist none (k + 1) r
    simpa [sampleFrom, saVals] using this

-- non-vacuity: burst 1,2,3 then a tick, a tick without news, 4, tick
example : sampleFrom none 0 [.src 1 1, .src 1 2, .src 2 3, .tick 5, .tick 10, .src 12 4, .tick 15]
    = [(0, 5, 3), (2, 15, 4)] := by decide

/-! ### time buffers -/

def buVals : List BuEv → List Int
  | [] => []
  | .src _ v :: r => v :: buVals r
  | .tick _ :: r => buVals r
  | .complete _ :: _ => []

/-- **only source values, in source order, each at most once**: the buffers sent, concatenated, are a
    prefix of what was pending plus what the source emitted (what is missing was never flushed) -/
theorem buffer_concat_prefix (cnt : Option Nat) : ∀ (buf : List Int) (evs : List BuEv),
    ((bufferFrom cnt buf evs).map (·.2)).flatten <+: buf ++ buVals evs
  | buf, [] => by simp [bufferFrom]
  | buf, .src t v :: r => by
    cases cnt with
    | none =>
      simp only [bufferFrom, buVals]
      have := buffer_concat_prefix none (buf ++ [v]) r
      simpa using this
    | some n =>
      simp only [bufferFrom, buVals]
      split
      · have := buffer_concat_prefix (some n) [] r
        simp only [List.map_cons, List.flatten_cons]
        have h2 : buf ++ v :: buVals r = (buf ++ [v]) ++ buVals r := by simp
        rw [h2]
        exact (List.prefix_append_right_inj _).2 (by simpa using this)
      · have := buffer_concat_prefix (some n) (buf ++ [v]) r
        simpa using this
  | buf, .tick t :: r => by
    simp only [bufferFrom, buVals, List.map_cons, List.flatten_cons]
    have := buffer_concat_prefix cnt [] r
    exact (List.prefix_append_right_inj _).2 (by simpa using this)
  | buf, .complete t :: r => by
    simp [bufferFrom, buVals]

/-- with a count `n ≥ 1` no buffer is longer than `n` -/
theorem buffer_count_le (n : Nat) (hn : 0 < n) : ∀ (buf : List Int) (evs : List BuEv), buf.length < n →
    ∀ o ∈ bufferFrom (some n) buf evs, o.2.length ≤ n
  | buf, [], _, o, h => by simp [bufferFrom] at h
  | buf, .src t v :: r, hb, o, h => by
    simp only [bufferFrom] at h
    split at h
    · rcases List.mem_cons.1 h with rfl | h'
      · simp; omega
      · exact buffer_count_le n hn [] r (by simpa using hn) o h'
    · next hlt => exact buffer_count_le n hn (buf ++ [v]) r (by simp at hlt ⊢; omega) o h
  | buf, .tick t :: r, hb, o, h => by
    simp only [bufferFrom] at h
    rcases List.mem_cons.1 h with rfl | h'
    · simp; omega
    · exact buffer_count_le n hn [] r (by simpa using hn) o h'
  | buf, .complete t :: r, hb, o, h => by
    simp only [bufferFrom, List.mem_singleton] at h
    subst h; simp; omega

/-- **the unlock-then-emit window** (C05, DESIGN.md Appendix D #11), witnessed on the micro-step model:
    the ticker goroutine takes `[1]`, the source goroutine then fills and flushes `[2,3]` (count 2)
    and sends it first — the buffers arrive out of source order. Not reproducible on the real code
    without park points; the acceptor would reject such a trace (`AfterEarlierBuffers`). -/
theorem buffer_unlock_then_emit_witness :
    bufferMicro [] none none [.src 1, .take true, .src 2, .src 3, .take false, .send false, .send true]
      = [[2, 3], [1]] := by decide

-- non-vacuity: count 2, ticks in between, completion flushes the rest
example : bufferFrom (some 2) [] [.src 1 1, .src 2 2, .src 3 3, .tick 5, .tick 10, .src 11 4, .complete 12]
    = [(2, [1, 2]), (5, [3]), (10, []), (12, [4])] := by decide
example : bufferFrom none [] [.src 1 1, .src 2 2, .tick 5, .src 6 3, .complete 7] = [(5, [1, 2]), (7, [3])] := by decide

end Ro.Timed

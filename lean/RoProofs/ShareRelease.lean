/-
  RoProofs.ShareRelease — "nobody listens ⇒ the upstream subscription is released" (with
  `ResetOnRefCountZero`): an invariant of plain runs, and of nested runs in which no other subscriber
  arrives inside the source's `Subscribe`; false in general under nesting (the late release).
-/
import RoProofs.ShareNested
namespace Ro.Share
attribute [local simp] St.modGen St.modSub St.drop

/-- a live generation has a listener -/
def Listened (s : St) : Prop := ∀ g, s.subject = some g → GenActive Pend.idle s g → openSubs s ≠ []

theorem Listened.init : Listened {} := by intro g hg; cases hg

theorem listened_subscribe (cfg : Cfg) {s : St} (hi : Inv Pend.idle s) (hl : Listened s) : Listened (subscribe cfg s) := by
  cases hsub : s.subject with
  | none =>
    obtain ⟨u, h | h | h⟩ := subscribe_fresh_outcome cfg hi hsub
    · intro g _ _
      rw [h.2]
      have hmem : s.nsubs ∈ openSubs (liveDone s.nsubs s.ngens u) := by
        apply mem_openSubs.mpr
        refine ⟨by simp [liveDone, h.1.nsubs], ?_⟩
        simp [liveDone]; exact h.1.status
      intro hn; rw [hn] at hmem; cases hmem
    · intro g hg _
      rw [h.2] at hg
      have : (resetDone s.ngens u).subject = u.subject := rfl
      rw [this, h.1.subject] at hg; cases hg
    · intro g hg ha
      rw [h.2] at hg ha
      have hs : (latchDone s.ngens u).subject = u.subject := rfl
      rw [hs, h.1.subject] at hg
      have : g = s.ngens := (Option.some.inj hg).symm
      subst this
      have := ha.pStatus
      simp [latchDone] at this
      exact absurd this h.1.pStatus
  | some g =>
    rcases (hi.cur g hsub).2 with ha | hla
    · have hsim := subscribe_join_active cfg hi hsub ha
      intro _ _ _
      rw [hsim.openSubs]
      have hos : openSubs (joinState g s) = openSubs s ++ [s.nsubs] :=
        openSubs_new (s := s) (s' := joinState g s) rfl (by simp [joinState])
          (fun k hk => by have : k ≠ s.nsubs := by omega
                          simp [joinState, this])
      rw [hos]; simp
    · obtain ⟨c, _, hsim⟩ := subscribe_join_latched cfg hi hsub hla
      intro g' hg' ha'
      rw [hsim.subject] at hg'
      have hs : (lateState c s).subject = s.subject := rfl
      rw [hs, hsub] at hg'
      have : g' = g := (Option.some.inj hg').symm
      subst this
      have := ha'.pStatus
      rw [hsim.pStatus] at this
      exact absurd this hla.pStatus

theorem listened_step (cfg : Cfg) (hz : cfg.flags.onZero = true) {s : St} (hi : Inv Pend.idle s) (hl : Listened s) (e : Event) :
    Listened (step cfg s e) := by
  cases e with
  | sub => exact listened_subscribe cfg hi hl
  | unsub i =>
    simp only [step]
    split
    next hlt =>
      by_cases hs : (s.subs i).status = 0
      · obtain ⟨g, hsub, ha⟩ := open_active hi hlt hs
        have ho := ha.subs i hlt hs (by simp)
        rw [dUnsubscribe_open cfg.flags ho]
        obtain ⟨hi', ha'⟩ := inv_closeState (c := 2) (tr := (s.subs i).trace) hi (by decide) hlt hsub ha hs (by simp)
        unfold zeroReset
        split
        next hcond =>
          rw [reset_active ha'.pStatus ha'.pDone ha'.pFin ha'.ssFins ha'.ssDone (by exact hsub)
            (by have := hi'.shared; rw [this]; exact hsub)]
          intro g' hg'; simp [resetState] at hg'
        next hcond =>
          intro g' _ _ hno
          apply hcond
          have hc := hi'.count
          rw [hno] at hc
          simp at hc
          simp [hz, hc, ha'.flagE, ha'.flagC]
      · simp [dUnsubscribe, hs]; exact hl
    next => exact hl
  | src x =>
    have hinv := inv_step cfg hi (.src x)
    show Listened (push cfg x s)
    rcases push_eq cfg x hi with ⟨g, hsub, ha, he⟩ | ⟨_, he⟩
    · cases x with
      | next v =>
        rw [he]
        have hsim := pNext_sim cfg g v s
        intro g' _ _
        show openSubs (pNext cfg g v s) ≠ []
        rw [hsim.openSubs]
        exact hl g hsub ha
      | error e' =>
        intro g' hg' ha'
        have h0 := (src_terminal cfg (.error e') rfl hi hsub ha).1
        have h1 := live_of_active hinv hg' ha'
        have : (step cfg s (.src (.error e'))).live = (push cfg (.error e') s).live := rfl
        omega
      | complete =>
        intro g' hg' ha'
        have h0 := (src_terminal cfg .complete rfl hi hsub ha).1
        have h1 := live_of_active hinv hg' ha'
        have : (step cfg s (.src .complete)).live = (push cfg .complete s).live := rfl
        omega
    · rw [he]; exact hl

theorem listened_run (cfg : Cfg) (hz : cfg.flags.onZero = true) (evs : List Event) : Listened (run cfg evs) := by
  suffices h : ∀ s, Inv Pend.idle s → Listened s → Listened (evs.foldl (step cfg) s) from h {} Inv.init Listened.init
  induction evs with
  | nil => intro s _ h; exact h
  | cons e es ih => intro s hi hl; exact ih _ (inv_step cfg hi e) (listened_step cfg hz hi hl e)

/-- a state where nobody listens has no live upstream subscription, provided live generations are listened -/
theorem released_of_listened {s : St} (hi : Inv Pend.idle s) (hl : Listened s) (ho : openSubs s = []) : s.live = 0 := by
  apply live_of_not_active hi
  intro ⟨g, hg, ha⟩
  exact hl g hg ha ho

/-! ### events other than `sub` create no generation and can only clear the shared pair -/

structure Down (s s' : St) : Prop where
  ngens : s'.ngens = s.ngens
  subject : s'.subject = s.subject ∨ s'.subject = none

theorem Down.refl (s : St) : Down s s := ⟨rfl, Or.inl rfl⟩
theorem Down.trans {a b c : St} (h1 : Down a b) (h2 : Down b c) : Down a c :=
  ⟨h2.ngens.trans h1.ngens, by
    rcases h2.subject with h | h
    · rcases h1.subject with h' | h'
      · exact Or.inl (h.trans h')
      · exact Or.inr (h.trans h')
    · exact Or.inr h⟩
theorem Sim.down {s s' : St} (h : Sim s s') : Down s s' := ⟨h.ngens, Or.inl h.subject⟩

theorem foldl_down {α : Type} (f : St → α → St) (hf : ∀ s a, Down s (f s a)) (l : List α) (s : St) : Down s (l.foldl f s) := by
  induction l generalizing s with
  | nil => exact Down.refl s
  | cons a l ih => exact (hf s a).trans (ih (f s a))

theorem pSubnUnsub_down (g : Nat) (s : St) : Down s (pSubnUnsub g s) := by
  unfold pSubnUnsub; split
  · exact Down.refl s
  · split <;> exact ⟨rfl, Or.inl rfl⟩

theorem pUnsubscribe_down (g : Nat) (s : St) : Down s (pUnsubscribe g s) := by
  unfold pUnsubscribe; split
  · have h1 : Down s (s.modGen g fun x => { x with pStatus := 2 }) := ⟨rfl, Or.inl rfl⟩
    exact h1.trans (pSubnUnsub_down g _)
  · exact Down.refl s

theorem reset_down (g : Nat) (s : St) : Down s (reset g s) := by
  have h1 : Down s (ssUnsub g s) := by
    unfold ssUnsub; split
    · exact Down.refl s
    · have h0 : Down s (s.modGen g fun x => { x with ssDone := true, ssFins := [] }) := ⟨rfl, Or.inl rfl⟩
      exact h0.trans (foldl_down _ (fun s p => pUnsubscribe_down p s) _ _)
  have h2 : ∀ u, Down u (clearShared g u) := by
    intro u
    refine ⟨rfl, ?_⟩
    simp only [clearShared]
    split
    · exact Or.inr rfl
    · exact Or.inl rfl
  exact h1.trans (h2 _)

theorem zeroReset_down (fl : Flags) (g : Nat) (s : St) : Down s (zeroReset fl g s) := by
  unfold zeroReset; split
  · exact reset_down g s
  · exact Down.refl s

theorem dSubnUnsub_down (fl : Flags) (i : Nat) (s : St) : Down s (dSubnUnsub fl i s) := by
  unfold dSubnUnsub; split
  · exact Down.refl s
  · have h1 : Down s (s.modSub i fun d => { d with done := true, delFin := none, tearFin := none }) := ⟨rfl, Or.inl rfl⟩
    have h2 : ∀ (o : Option Nat) (u : St), Down u (runDel i o u) := by
      intro o u; cases o <;> exact ⟨rfl, Or.inl rfl⟩
    have h3 : ∀ (o : Option Nat) (u : St), Down u (runTear fl i o u) := by
      intro o u
      match o with
      | none => exact Down.refl u
      | some g' =>
        simp only [runTear, teardownT]
        have hc : Down u (decRef (casClose i u)) := by
          unfold decRef casClose; split <;> exact ⟨rfl, Or.inl rfl⟩
        exact hc.trans (zeroReset_down fl g' _)
    exact (h1.trans (h2 _ _)).trans (h3 _ _)

theorem dUnsubscribe_down (fl : Flags) (i : Nat) (s : St) : Down s (dUnsubscribe fl i s) := by
  unfold dUnsubscribe; split
  · have h1 : Down s (s.modSub i fun d => { d with status := 2 }) := ⟨rfl, Or.inl rfl⟩
    exact h1.trans (dSubnUnsub_down fl i _)
  · exact Down.refl s

theorem dTerm_down (fl : Flags) (i : Nat) (t : Ev) (s : St) : Down s (dTerm fl i t s) := by
  have h1 : Down s (dDeliver i t s) := by unfold dDeliver; split <;> exact ⟨rfl, Or.inl rfl⟩
  exact h1.trans (dSubnUnsub_down fl i _)

theorem pEmit_down (cfg : Cfg) (g : Nat) (x : Ev) (s : St) : Down s (pEmit cfg g x s) := by
  have hterm : ∀ t : Ev, Down s (pTerm cfg g t s) := by
    intro t
    unfold pTerm
    split
    · have h1 : Down s (s.modGen g fun x => { x with pStatus := t.code }) := ⟨rfl, Or.inl rfl⟩
      have h2 : ∀ u, Down u (pDecide cfg.flags g t u) := by
        intro u; unfold pDecide
        cases t <;> simp only [] <;> split <;> first | exact reset_down g u | exact ⟨rfl, Or.inl rfl⟩
      have h3 : ∀ u, Down u (subjTerm cfg.flags g t u) := by
        intro u; unfold subjTerm; split
        · have a1 : Down u (u.modGen g fun x => { x with subj := { x.subj with status := Status.ofTerminal t } }) := ⟨rfl, Or.inl rfl⟩
          have a2 : ∀ w, Down w (bcastTerm cfg.flags g t w) := fun w => foldl_down _ (fun s i => dTerm_down cfg.flags i t s) _ w
          have a3 : ∀ w, Down w (subjClear g w) := fun w => ⟨rfl, Or.inl rfl⟩
          exact (a1.trans (a2 _)).trans (a3 _)
        · exact ⟨rfl, Or.inl rfl⟩
      exact ((h1.trans (h2 _)).trans (h3 _)).trans (pSubnUnsub_down g _)
    · have h1 : Down s (s.drop t) := ⟨rfl, Or.inl rfl⟩
      exact h1.trans (pSubnUnsub_down g _)
  cases x with
  | next v => exact (pNext_sim cfg g v s).down
  | error e => exact hterm _
  | complete => exact hterm _

theorem push_down (cfg : Cfg) (x : Ev) (s : St) : Down s (push cfg x s) := by
  unfold push
  apply foldl_down
  intro u g
  split
  · exact pEmit_down cfg g x u
  · exact Down.refl u

def Event.isSub : Event → Bool
  | .sub => true
  | _ => false

theorem stepInner_down (cfg : Cfg) (self : Nat) (s : St) (e : Event) (he : e.isSub = false) : Down s (stepInner cfg self s e) := by
  cases e with
  | sub => simp [Event.isSub] at he
  | unsub j =>
    simp only [stepInner]
    split
    · exact Down.refl s
    · simp only [step]; split
      · exact dUnsubscribe_down cfg.flags j s
      · exact Down.refl s
  | src x => exact push_down cfg x s

theorem foldl_stepInner_down (cfg : Cfg) (self : Nat) (inner : List Event) (hall : ∀ e, e ∈ inner → e.isSub = false) (w : St) :
    Down w (inner.foldl (stepInner cfg self) w) := by
  induction inner generalizing w with
  | nil => exact Down.refl w
  | cons e es ih =>
    exact (stepInner_down cfg self w e (hall e List.mem_cons_self)).trans
      (ih (fun e' hm => hall e' (List.mem_cons_of_mem _ hm)) _)

/-! ### nested events in which no other subscriber arrives -/

/-- no `sub` among the events nested inside the source's `Subscribe` -/
def NEvent.noInnerSub : NEvent → Bool
  | .plain _ => true
  | .subNested inner => inner.all fun e => !e.isSub

theorem listened_nstep (cfg : Cfg) (hz : cfg.flags.onZero = true) {s : St} (hi : Inv Pend.idle s) (hl : Listened s)
    (e : NEvent) (he : e.noInnerSub = true) : Listened (nstep cfg s e) := by
  cases e with
  | plain e => exact listened_step cfg hz hi hl e
  | subNested inner =>
    show Listened (subscribeK cfg _ s)
    cases hsub : s.subject with
    | some g =>
      have hnn : needsNew s = false := by
        cases h : needsNew s with
        | false => rfl
        | true => rw [(needsNew_iff hi).mp h] at hsub; cases hsub
      rw [subscribeK_join cfg _ hnn]
      exact listened_subscribe cfg hi hl
    | none =>
      obtain ⟨u0, n, hsim, heq⟩ := subscribeK_fresh_eq cfg (fun u => inner.foldl (stepInner cfg s.nsubs) u) hi hsub
      have hfl := (flive_freshState cfg.conn hi hsub).sim hsim
      -- the state after the prefix, its phase, and what the inner events can do to the shared pair
      have hphase := playPre_live cfg (cfg.pre n) hfl
      have hmid : Mid s.ngens s.nsubs (playPre cfg s.ngens (cfg.pre n) u0) := by
        rcases hphase with h | h | h
        · exact ⟨Or.inl (flive_inv h), by rw [h.nsubs]; omega⟩
        · exact ⟨Or.inr ⟨freset_inv h, h.sub.status⟩, by rw [h.nsubs]; omega⟩
        · exact ⟨Or.inr ⟨flatch_inv h, h.sub.status⟩, by rw [h.nsubs]; omega⟩
      have hng1 : (playPre cfg s.ngens (cfg.pre n) u0).ngens = s.ngens + 1 := by
        rcases hphase with h | h | h <;> exact h.ngens
      have hsj1 : ∀ g', (playPre cfg s.ngens (cfg.pre n) u0).subject = some g' → g' = s.ngens := by
        intro g' hg'
        rcases hphase with h | h | h
        · rw [h.subject] at hg'; exact (Option.some.inj hg').symm
        · rw [h.subject] at hg'; cases hg'
        · rw [h.subject] at hg'; exact (Option.some.inj hg').symm
      have hdown : Down (playPre cfg s.ngens (cfg.pre n) u0) (inner.foldl (stepInner cfg s.nsubs) (playPre cfg s.ngens (cfg.pre n) u0)) := by
        have hall : ∀ e, e ∈ inner → e.isSub = false := by
          intro e hmem
          have := List.all_eq_true.mp he e hmem
          simpa using this
        exact foldl_stepInner_down cfg s.nsubs inner hall _
      have hm2 := mid_foldl cfg inner hmid
      generalize inner.foldl (stepInner cfg s.nsubs) (playPre cfg s.ngens (cfg.pre n) u0) = u2 at hm2 hdown heq
      have hsj2 : ∀ g', u2.subject = some g' → g' = s.ngens := by
        intro g' hg'
        rcases hdown.subject with h | h
        · exact hsj1 g' (by rw [← h]; exact hg')
        · rw [h] at hg'; cases hg'
      have hfin := finish_mid cfg.flags hm2
      rw [heq]
      -- after the return: the generation is live with its creator listening, or not live at all
      intro g' hg' ha'
      rcases hm2.inv with hq | ⟨hq, hc⟩
      · -- creator still open: it is in the list
        have hsubj : u2.subject = some s.ngens := ((hq.uab s.nsubs rfl).1).symm
        have hact : GenActive ⟨some s.ngens, some s.nsubs⟩ u2 s.ngens := by
          rcases (hq.cur _ hsubj).2 with ha | hl'
          · exact ha
          · have := (hl'.unf rfl).2.2; cases this
        obtain ⟨hpf, hsf, A, hA, hltA, hu⟩ := hact.unf rfl
        have hAi : A = s.nsubs := (Option.some.inj hA).symm
        subst hAi
        have h1 := hact.ssDone
        have h3 := hact.pDone
        have h4 := hu.done
        have e : r3tail cfg.flags s.nsubs s.ngens (upAddTeardown s.ngens u2) = liveDone s.nsubs s.ngens u2 := by
          simp [r3tail, ssAdd, upAddTeardown, hact.pDone, hact.ssDone, addTeardown, hu.done, hsf, liveDone]
          refine ⟨?_, ?_⟩ <;> funext k <;> split <;> simp_all
        rw [e]
        have hmem : s.nsubs ∈ openSubs (liveDone s.nsubs s.ngens u2) := by
          apply mem_openSubs.mpr
          refine ⟨by simp [liveDone]; exact hltA, ?_⟩
          simp [liveDone]; exact hu.status
        intro hn; rw [hn] at hmem; cases hmem
      · -- creator closed: the result is latched on the pending generation, or idle — never live
        exfalso
        have hcl : SubClosed (u2.subs s.nsubs) := hq.closed _ hm2.lt hc
        have hg : s.ngens < u2.ngens := hq.ugb _ rfl
        by_cases hsubj : u2.subject = some s.ngens
        · have hlat : GenLatched ⟨some s.ngens, none⟩ u2 s.ngens := by
            rcases (hq.cur _ hsubj).2 with ha | hl'
            · obtain ⟨_, _, A, hA, _⟩ := ha.unf rfl; cases hA
            · exact hl'
          obtain ⟨hut, hsf, _⟩ := hlat.unf rfl
          have h1 := hlat.ssDone
          have h3 := hlat.pDone
          have e : r3tail cfg.flags s.nsubs s.ngens (upAddTeardown s.ngens u2) = latchDone s.ngens u2 := by
            simp [r3tail, ssAdd, upAddTeardown, hlat.pDone, hlat.ssDone, addTeardown, hcl.done, hsf, teardownT, casClose, hc, decRef, latchDone]
            rw [zeroReset_flag (by exact hlat.flag)]
            simp
            funext k
            split <;> simp_all
          rw [e] at hg' ha'
          have hs : (latchDone s.ngens u2).subject = u2.subject := rfl
          rw [hs, hsubj] at hg'
          have : g' = s.ngens := (Option.some.inj hg').symm
          subst this
          have := ha'.pStatus
          simp [latchDone] at this
          exact hlat.pStatus this
        · -- reset, and no other generation exists: the shared pair is nil
          have hnone : u2.subject = none := by
            cases hs : u2.subject with
            | none => rfl
            | some g'' => exact absurd (by rw [hsj2 g'' hs] at hs; exact hs) hsubj
          obtain ⟨hen, _⟩ := hq.ended _ hg hsubj rfl
          have hss : u2.sourceSubscription ≠ some s.ngens := by rw [hq.shared]; exact hsubj
          have e : r3tail cfg.flags s.nsubs s.ngens (upAddTeardown s.ngens u2) = resetDone s.ngens u2 := by
            have e1 : upAddTeardown s.ngens u2 = u2.modGen s.ngens fun x => { x with upTorn := true } := by simp [upAddTeardown, hen.pDone]
            rw [e1]
            have hzr : ∀ w : St, w.subject ≠ some s.ngens → w.sourceSubscription ≠ some s.ngens → (w.gens s.ngens).ssDone = true →
                zeroReset cfg.flags s.ngens w = w := by
              intro w h1 h2 h3
              unfold zeroReset
              split
              · exact reset_stale h3 h1 h2
              · rfl
            simp [r3tail, ssAdd, hen.ssDone, pUnsubscribe, hen.pStatus, addTeardown, hcl.done, teardownT, casClose, hc, decRef]
            rw [hzr _ (by exact hsubj) (by exact hss) (by simp [hen.ssDone])]
            rfl
          rw [e] at hg'
          have hs : (resetDone s.ngens u2).subject = u2.subject := rfl
          rw [hs, hnone] at hg'
          cases hg'

/-- nested runs in which no other subscriber arrives inside the source's `Subscribe` -/
theorem listened_nrun (cfg : Cfg) (hz : cfg.flags.onZero = true) (evs : List NEvent) (hev : ∀ e, e ∈ evs → e.noInnerSub = true) :
    Listened (nrun cfg evs) := by
  suffices h : ∀ s, Inv Pend.idle s → Listened s → Listened (evs.foldl (nstep cfg) s) from h {} Inv.init Listened.init
  induction evs with
  | nil => intro s _ h; exact h
  | cons e es ih =>
    intro s hi hl
    exact ih (fun e' hm => hev e' (List.mem_cons_of_mem _ hm)) _ (inv_nstep cfg hi e)
      (listened_nstep cfg hz hi hl e (hev e List.mem_cons_self))

end Ro.Share

/-
  RoProofs.PromTransparent — the instrumented composition delivers what the plain one delivers.

  `ChainSim msI msP T`: a relation `T` between the configurations of two chains that is kept by
  every operation a run performs and under which both chains deliver the same notifications up
  to the plugin's private context key. Three constructors:
    `sink`       the two final subscribers;
    `forwarder`  a stage in front of the left chain only, which forwards every notification
                 one-to-one (the counting / timing operators on non-nil contexts);
    `stage`      a pair of stages that cannot be told apart from outside the plugin's package
                 (`Pair`: same reactions up to the private key, never a nil context).
  `instrument` is `forwarder (stage (forwarder (… (forwarder sink))))`.
-/
import RoProofs.PromChain
namespace Ro.Prom
open Ro

variable {α : Type}

/-! ### erasing the private key -/

@[simp] theorem eraseN_isTerminal (n : Notif α) : (eraseN n).isTerminal = n.isTerminal := by
  cases n <;> rfl

@[simp] theorem eraseCtx_isNil (c : Ctx) : (eraseCtx c).isNil = c.isNil := rfl

@[simp] theorem eraseN_ctx_isNil (n : Notif α) : (eraseN n).ctx.isNil = n.ctx.isNil := by
  cases n <;> rfl

theorem isTerminal_of_erase {n n' : Notif α} (h : eraseN n = eraseN n') : n.isTerminal = n'.isTerminal := by
  have := congrArg Notif.isTerminal h
  simpa using this

theorem isNil_of_erase {n n' : Notif α} (h : eraseN n = eraseN n') : n.ctx.isNil = n'.ctx.isNil := by
  have := congrArg (fun x => x.ctx.isNil) h
  simpa using this

@[simp] theorem eraseL_nil : eraseL ([] : List (Notif α)) = [] := rfl
@[simp] theorem eraseL_cons (n : Notif α) (l) : eraseL (n :: l) = eraseN n :: eraseL l := rfl
@[simp] theorem eraseL_append (a b : List (Notif α)) : eraseL (a ++ b) = eraseL a ++ eraseL b := by
  simp [eraseL]

theorem eraseCtx_idem (c : Ctx) : eraseCtx (eraseCtx c) = eraseCtx c := by
  simp [eraseCtx, List.filter_filter]

@[simp] theorem eraseCtx_stamp (c : Ctx) : eraseCtx (stamp c) = eraseCtx c := by
  simp [eraseCtx, stamp, Ctx.tag, List.filter_append, List.filter]

/-- every notification of the list carries a non-nil context -/
def NonNil (l : List (Notif α)) : Prop := ∀ x ∈ l, x.ctx.isNil = false

theorem NonNil.tail {x : Notif α} {l} (h : NonNil (x :: l)) : NonNil l :=
  fun y hy => h y (List.mem_cons_of_mem _ hy)
theorem NonNil.head {x : Notif α} {l} (h : NonNil (x :: l)) : x.ctx.isNil = false :=
  h x (List.mem_cons_self ..)
theorem NonNil.take {l : List (Notif α)} (h : NonNil l) (k : Nat) : NonNil (l.take k) :=
  fun y hy => h y (List.mem_of_mem_take hy)
theorem NonNil.drop {l : List (Notif α)} (h : NonNil l) (k : Nat) : NonNil (l.drop k) :=
  fun y hy => h y (List.mem_of_mem_drop hy)

/-! ### the simulation -/

structure ChainSim (msI msP : List (AnyM α)) (T : Cfg msI → Cfg msP → Prop) : Prop where
  init : T (initCfg msI) (initCfg msP)
  head : ∀ cI cP, T cI cP → headOpen msI cI = headOpen msP cP
  all : ∀ cI cP, T cI cP → allOpen msI cI = allOpen msP cP
  push : ∀ hot cI cP n n', T cI cP → eraseN n = eraseN n' → n.ctx.isNil = false →
    T (push hot msI cI n).1 (push hot msP cP n').1 ∧
    eraseL (push hot msI cI n).2 = eraseL (push hot msP cP n').2
  settle : ∀ cI cP, T cI cP → T (settle msI cI) (settle msP cP)
  close : ∀ cI cP, T cI cP → T (closeAll msI cI) (closeAll msP cP)
  subPhase : ∀ sub cI cP, sub.isNil = false → T cI cP →
    T (subscribePhase sub msI cI).cfg (subscribePhase sub msP cP).cfg ∧
    eraseL (subscribePhase sub msI cI).out = eraseL (subscribePhase sub msP cP).out ∧
    (subscribePhase sub msI cI).reached = (subscribePhase sub msP cP).reached

variable {msI msP : List (AnyM α)} {T : Cfg msI → Cfg msP → Prop}

theorem ChainSim.feed (h : ChainSim msI msP T) (hot : Bool) (l l' : List (Notif α)) (cI : Cfg msI) (cP : Cfg msP)
    (hT : T cI cP) (hl : eraseL l = eraseL l') (hn : NonNil l) :
    T (feedAll (Prom.push hot msI) cI l).1 (feedAll (Prom.push hot msP) cP l').1 ∧
    eraseL (feedAll (Prom.push hot msI) cI l).2 = eraseL (feedAll (Prom.push hot msP) cP l').2 := by
  induction l generalizing l' cI cP with
  | nil =>
    cases l' with
    | nil => exact ⟨hT, rfl⟩
    | cons x xs => simp at hl
  | cons x xs ih =>
    cases l' with
    | nil => simp at hl
    | cons x' xs' =>
      simp only [eraseL_cons, List.cons.injEq] at hl
      have hp := h.push hot cI cP x x' hT hl.1 hn.head
      have hr := ih xs' _ _ hp.1 hl.2 hn.tail
      rw [feedAll_cons, feedAll_cons]
      exact ⟨hr.1, by simp only [eraseL_append, hp.2, hr.2]⟩

/-- the two final subscribers -/
theorem ChainSim.sink : ChainSim (α := α) [] [] (fun cI cP => SinkSt.gate cI = SinkSt.gate cP) where
  init := rfl
  head := fun _ _ h => h
  all := fun _ _ h => h
  push := by
    intro hot cI cP n n' hT hn _
    have hg : SinkSt.gate cI = SinkSt.gate cP := hT
    have ht := isTerminal_of_erase hn
    simp only [Prom.push, hg]
    split
    · exact ⟨by simp [ht], by simp [hn]⟩
    · exact ⟨hg, rfl⟩
  settle := fun _ _ h => h
  close := fun _ _ _ => rfl
  subPhase := fun _ _ _ _ h => ⟨h, rfl, rfl⟩

/-- a stage that forwards every notification one-to-one, keeping everything but the private
    key, as long as contexts are not nil -/
structure Forwarder (a : AnyM α) : Prop where
  subscribes : a.m.subscribes = true
  sub : ∀ s c, (a.m.onSubscribe s c).2 = []
  step : ∀ s n, n.ctx.isNil = false →
    ∃ n1, (a.m.step s n).2 = [n1] ∧ eraseN n1 = eraseN n ∧ n1.ctx.isNil = false

theorem headOpen_init (ms : List (AnyM α)) : headOpen ms (initCfg ms) = true := by
  cases ms <;> rfl

theorem ChainSim.forwarder (h : ChainSim msI msP T) {f : AnyM α} (hf : Forwarder f) :
    ChainSim (f :: msI) msP (fun cI cP => cI.1.gate = headOpen msP cP ∧ T cI.2 cP) where
  init := ⟨(headOpen_init msP).symm, h.init⟩
  head := fun _ _ hT => hT.1
  all := by
    intro cI cP hT
    simp only [allOpen, hT.1, h.all _ _ hT.2]
    cases ha : allOpen msP cP
    · simp
    · simp [allOpen_headOpen msP cP ha]
  push := by
    intro hot cI cP n n' hT hn hnil
    obtain ⟨hg, hT2⟩ := hT
    cases hgate : cI.1.gate
    · -- both closed
      have hcI : headOpen (f :: msI) cI = false := hgate
      rw [push_closed hot (f :: msI) cI n hcI, push_closed hot msP cP n' (by rw [← hg]; exact hgate)]
      exact ⟨⟨hg, hT2⟩, rfl⟩
    · obtain ⟨n1, h1, he, hnil1⟩ := hf.step cI.1.st n hnil
      simp only [Prom.push, hgate, if_true, h1, feedAll_cons, feedAll_nil, List.append_nil]
      have hp := h.push hot cI.2 cP n1 n' hT2 (he.trans hn) hnil1
      refine ⟨⟨?_, hp.1⟩, hp.2⟩
      -- the forwarder's gate follows the gate after it
      have hh := h.head _ _ hp.1
      rw [hh]
      have ht := isTerminal_of_erase hn
      cases hg' : headOpen msP (Prom.push hot msP cP n').1
      · cases hot
        · -- no teardown registered: the next gate closed because of a terminal
          have hopen : headOpen msP cP = true := by rw [← hg, hgate]
          have := push_headOpen_sync msP cP n' hopen
          rw [hg'] at this
          simp [ht, ← this]
        · simp
      · have := (push_headOpen_le hot msP cP n' hg').2
        simp [ht, this]
  settle := by
    intro cI cP hT
    refine ⟨?_, h.settle _ _ hT.2⟩
    simp only [Prom.settle]
    rw [h.head _ _ (h.settle _ _ hT.2), hT.1]
    cases hs : headOpen msP (Prom.settle msP cP)
    · simp
    · simp [settle_headOpen_le msP cP hs]
  close := by
    intro cI cP hT
    exact ⟨by simp [closeAll, closeAll_headOpen], h.close _ _ hT.2⟩
  subPhase := by
    intro sub cI cP hs hT
    have hb := h.subPhase sub cI.2 cP hs hT.2
    simp only [subscribePhase]
    cases hr : (subscribePhase sub msI cI.2).reached
    · simp only [Bool.false_eq_true, if_false]
      refine ⟨⟨?_, hb.1⟩, hb.2.1, ?_⟩
      · rw [subscribePhase_headOpen]; exact hT.1
      · rw [← hb.2.2, hr]
    · simp only [if_true, hf.sub, feedAll_nil, List.append_nil]
      refine ⟨⟨?_, hb.1⟩, hb.2.1, ?_⟩
      · rw [subscribePhase_headOpen]; exact hT.1
      · rw [← hb.2.2, hr, hf.subscribes]

/-- two stages that cannot be told apart from outside the plugin's package: related states
    react to notifications that agree up to the private key with emissions that agree up to the
    private key, and never emit a nil context -/
structure Pair (α : Type) : Type 1 where
  I : AnyM α
  P : AnyM α
  R : I.σ → P.σ → Prop
  init : R I.m.init P.m.init
  subscribes : I.m.subscribes = P.m.subscribes
  sub : ∀ s s' c, R s s' → c.isNil = false →
    R (I.m.onSubscribe s c).1 (P.m.onSubscribe s' c).1 ∧
    eraseL (I.m.onSubscribe s c).2 = eraseL (P.m.onSubscribe s' c).2 ∧ NonNil (I.m.onSubscribe s c).2
  step : ∀ s s' n n', R s s' → eraseN n = eraseN n' → n.ctx.isNil = false →
    R (I.m.step s n).1 (P.m.step s' n').1 ∧
    eraseL (I.m.step s n).2 = eraseL (P.m.step s' n').2 ∧ NonNil (I.m.step s n).2

theorem ChainSim.stage (h : ChainSim msI msP T) (p : Pair α) :
    ChainSim (p.I :: msI) (p.P :: msP)
      (fun cI cP => p.R cI.1.st cP.1.st ∧ cI.1.gate = cP.1.gate ∧ T cI.2 cP.2) where
  init := ⟨p.init, rfl, h.init⟩
  head := fun _ _ hT => hT.2.1
  all := by
    intro cI cP hT
    simp only [allOpen, hT.2.1, h.all _ _ hT.2.2]
  push := by
    intro hot cI cP n n' hT hn hnil
    obtain ⟨hR, hg, hT2⟩ := hT
    cases hgate : cP.1.gate
    · have hcP : headOpen (p.P :: msP) cP = false := hgate
      have hcI : headOpen (p.I :: msI) cI = false := by rw [← hgate, ← hg]; rfl
      rw [push_closed hot _ cI n hcI, push_closed hot _ cP n' hcP]
      exact ⟨⟨hR, hg, hT2⟩, rfl⟩
    · have hgI : cI.1.gate = true := by rw [hg, hgate]
      simp only [Prom.push, hgate, hgI, if_true]
      have hs := p.step cI.1.st cP.1.st n n' hR hn hnil
      have hfd := h.feed hot _ _ cI.2 cP.2 hT2 hs.2.1 hs.2.2
      refine ⟨⟨hs.1, ?_, hfd.1⟩, hfd.2⟩
      rw [h.head _ _ hfd.1, isTerminal_of_erase hn]
  settle := by
    intro cI cP hT
    refine ⟨hT.1, ?_, h.settle _ _ hT.2.2⟩
    simp only [Prom.settle]
    rw [h.head _ _ (h.settle _ _ hT.2.2), hT.2.1]
  close := fun cI cP hT => ⟨hT.1, rfl, h.close _ _ hT.2.2⟩
  subPhase := by
    intro sub cI cP hs hT
    obtain ⟨hR, hg, hT2⟩ := hT
    have hb := h.subPhase sub cI.2 cP.2 hs hT2
    simp only [subscribePhase]
    rw [← hb.2.2]
    cases hr : (subscribePhase sub msI cI.2).reached
    · exact ⟨⟨hR, hg, hb.1⟩, hb.2.1, rfl⟩
    · simp only [if_true]
      have hsb := p.sub cI.1.st cP.1.st sub hR hs
      have hfd := h.feed false _ _ _ _ hb.1 hsb.2.1 hsb.2.2
      exact ⟨⟨hsb.1, hg, hfd.1⟩, by simp only [eraseL_append, hb.2.1, hfd.2], p.subscribes⟩

/-! ### a whole run -/

theorem eraseL_take (l : List (Notif α)) (k : Nat) : eraseL (l.take k) = (eraseL l).take k := by
  simp [eraseL, List.map_take]
theorem eraseL_drop (l : List (Notif α)) (k : Nat) : eraseL (l.drop k) = (eraseL l).drop k := by
  simp [eraseL, List.map_drop]

/-- related chains deliver the same notifications (up to the private key), subscribe the source
    equally often and release it equally often: every source mode, script and cut -/
theorem ChainSim.run (h : ChainSim msI msP T) (hot : Bool) (sub : Ctx) (raw : List (Notif α)) (cut : Option Nat)
    (hs : sub.isNil = false) (hn : NonNil raw) :
    eraseL (Prom.run hot sub msI raw cut).out = eraseL (Prom.run hot sub msP raw cut).out ∧
    (Prom.run hot sub msI raw cut).rel = (Prom.run hot sub msP raw cut).rel ∧
    (Prom.run hot sub msI raw cut).srcSubs = (Prom.run hot sub msP raw cut).srcSubs := by
  have h0 := h.subPhase sub _ _ hs h.init
  cases hr : (subscribePhase sub msI (initCfg msI)).reached
  · rw [run_unreached hot sub msI raw cut hr, run_unreached hot sub msP raw cut (h0.2.2 ▸ hr)]
    exact ⟨h0.2.1, rfl, rfl⟩
  · have hr' : (subscribePhase sub msP (initCfg msP)).reached = true := h0.2.2 ▸ hr
    cases hot
    · rw [run_sync sub msI raw cut hr, run_sync sub msP raw cut hr']
      have hf := h.feed false raw raw _ _ h0.1 rfl hn
      have hst := h.settle _ _ hf.1
      refine ⟨by simp only [eraseL_append, h0.2.1, hf.2], ?_, rfl⟩
      simp only [h.all _ _ hst]
    · have hst := h.settle _ _ h0.1
      cases cut with
      | none =>
        rw [run_hot_none sub msI raw hr, run_hot_none sub msP raw hr']
        have hf := h.feed true raw raw _ _ hst rfl hn
        refine ⟨by simp only [eraseL_append, h0.2.1, hf.2], ?_, rfl⟩
        simp only [h.all _ _ hf.1]
      | some k =>
        rw [run_hot_some sub msI raw k hr, run_hot_some sub msP raw k hr']
        have hf1 := h.feed true (raw.take k) (raw.take k) _ _ hst rfl (hn.take k)
        have hf2 := h.feed true (raw.drop k) (raw.drop k) _ _ (h.close _ _ hf1.1) rfl (hn.drop k)
        exact ⟨by simp only [eraseL_append, h0.2.1, hf1.2, hf2.2], rfl, rfl⟩

/-! ### the counting / timing operators are forwarders -/

theorem before_forwarder : Forwarder (AnyM.before (α := α)) where
  subscribes := rfl
  sub := fun _ _ => rfl
  step := by
    intro s n hn
    cases n with
    | next c v =>
      have hc : c.isNil = false := hn
      exact ⟨.next (stamp c) v, by simp [AnyM.before, Machine.step, beforeM, hc], by simp [eraseN], hc⟩
    | error c e => exact ⟨.error c e, rfl, rfl, hn⟩
    | complete c => exact ⟨.complete c, rfl, rfl, hn⟩

theorem proc_forwarder : Forwarder (AnyM.proc (α := α)) where
  subscribes := rfl
  sub := fun _ _ => rfl
  step := by
    intro s n hn
    cases n with
    | next c v =>
      have hc : c.isNil = false := hn
      exact ⟨.next (stamp c) v, by simp [AnyM.proc, Machine.step, procM, hc], by simp [eraseN], hc⟩
    | error c e => exact ⟨.error c e, rfl, rfl, hn⟩
    | complete c => exact ⟨.complete c, rfl, rfl, hn⟩

theorem after_forwarder : Forwarder (AnyM.after (α := α)) where
  subscribes := rfl
  sub := fun _ _ => rfl
  step := by
    intro s n hn
    cases n with
    | next c v => exact ⟨.next c v, rfl, rfl, hn⟩
    | error c e => exact ⟨.error c e, rfl, rfl, hn⟩
    | complete c => exact ⟨.complete c, rfl, rfl, hn⟩

/-! ### the two compositions of `PipeN` -/

def chainI : List (Pair α) → List (AnyM α)
  | [] => []
  | p :: ps => p.I :: chainI ps

def chainP : List (Pair α) → List (AnyM α)
  | [] => []
  | p :: ps => p.P :: chainP ps

theorem plain_sim (ws : List (Pair α)) : ∃ T, ChainSim (chainI ws) (chainP ws) T := by
  induction ws with
  | nil => exact ⟨_, ChainSim.sink⟩
  | cons p ps ih =>
    obtain ⟨T, h⟩ := ih
    exact ⟨_, h.stage p⟩

theorem tail_sim (ws : List (Pair α)) : ∃ T, ChainSim (tailI (chainI ws)) (chainP ws) T := by
  induction ws with
  | nil => exact ⟨_, ChainSim.sink.forwarder after_forwarder⟩
  | cons p ps ih =>
    obtain ⟨T, h⟩ := ih
    exact ⟨_, (h.forwarder proc_forwarder).stage p⟩

theorem instrument_sim (ws : List (Pair α)) : ∃ T, ChainSim (instrument (chainI ws)) (chainP ws) T := by
  obtain ⟨T, h⟩ := tail_sim ws
  exact ⟨_, h.forwarder before_forwarder⟩

end Ro.Prom

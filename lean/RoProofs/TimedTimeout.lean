/-
  RoProofs.TimedTimeout — Timeout raises its error only after a full quiet period, measured from the
  end of the last forwarded `Next` (the subscription at first), and never after a forwarded terminal —
  for every interleaving of source calls, timer expiries and (possibly much later) callback runs.
-/
import RoProofs.TimedBasic
namespace Ro.Timed

/-- list-level versions of `endBefore` / `startOf` -/
def endB (sub : Time) (A : List Ev) : Nat → Time
  | 0 => sub
  | j + 1 => match A[j]? with
    | some e => e.t1
    | none => 0

def startB (A : List Ev) (j : Nat) : Time :=
  match A[j]? with
  | some e => e.t0
  | none => 0

/-- a full quiet period before attempt `j` -/
def Quiet (d : Nat) (sub : Time) (A : List Ev) (j : Nat) : Prop := endB sub A j + d ≤ startB A j

theorem endB_append (sub : Time) (A B : List Ev) (j : Nat) (h : j ≤ A.length) : endB sub (A ++ B) j = endB sub A j := by
  cases j with
  | zero => rfl
  | succ j => simp only [endB]; rw [List.getElem?_append_left (by omega)]

theorem startB_append (A B : List Ev) (j : Nat) (h : j < A.length) : startB (A ++ B) j = startB A j := by
  simp only [startB]; rw [List.getElem?_append_left h]

theorem quiet_append {d : Nat} {sub : Time} {A : List Ev} (B : List Ev) {j : Nat} (hj : j < A.length)
    (h : Quiet d sub A j) : Quiet d sub (A ++ B) j := by
  unfold Quiet at *
  rw [endB_append sub A B j (by omega), startB_append A B j hj]; exact h

theorem startB_last (A : List Ev) (e : Ev) : startB (A ++ [e]) A.length = e.t0 := by
  simp [startB]

theorem endB_last (sub : Time) (A : List Ev) (e : Ev) : endB sub (A ++ [e]) (A.length + 1) = e.t1 := by
  simp [endB]

structure ToInv (d : Nat) (sub : Time) (s : ToSt) : Prop where
  gram : ∀ (k : Nat) (e : Ev), s.attempts[k]? = some e → e.n.isTerminal = true → k + 1 = s.attempts.length ∧ s.closed = true
  opn : s.closed = false → s.attempts.length = s.emits.length
  fwd : ∀ (k : Nat) (dl : Ev), s.attempts[k]? = some dl → dl.n ≠ TN.error errTimeout →
    ∃ e : Ev, s.emits[k]? = some e ∧ dl.n = e.n ∧ e.t0 ≤ dl.t0
  tmo : ∀ (k : Nat) (dl : Ev), s.attempts[k]? = some dl → dl.n = TN.error errTimeout → ∃ j, j < k + 1 ∧ Quiet d sub s.attempts j
  armedOK : s.closed = false → ∀ a, s.armed = some a → endB sub s.attempts s.attempts.length ≤ a
  nowOK : s.closed = false → endB sub s.attempts s.attempts.length ≤ s.now
  infl : s.closed = false → 0 < s.inflight →
    (∃ j, j < s.attempts.length ∧ Quiet d sub s.attempts j) ∨ endB sub s.attempts s.attempts.length + d ≤ s.now

theorem toInv_init (d : Nat) (sub : Time) : ToInv d sub (toInit sub) := by
  refine ⟨by simp [toInit], by simp [toInit], by simp [toInit], by simp [toInit], ?_, by simp [toInit, endB], by simp [toInit]⟩
  intro _ a ha
  simp [toInit] at ha; subst ha; simp [toInit, endB]

theorem getElem?_append_cases {α : Type} (A : List α) (x : α) (k : Nat) (y : α)
    (h : (A ++ [x])[k]? = some y) : (k < A.length ∧ A[k]? = some y) ∨ (k = A.length ∧ y = x) := by
  rcases Nat.lt_trichotomy k A.length with hlt | heq | hgt
  · left; rw [List.getElem?_append_left hlt] at h; exact ⟨hlt, h⟩
  · right; subst heq; simp at h; exact ⟨rfl, h.symm⟩
  · rw [List.getElem?_eq_none (by simp; omega)] at h; cases h

theorem emits_append_left {A : List Ev} {k : Nat} {e : Ev} (x : Ev) (h : A[k]? = some e) : (A ++ [x])[k]? = some e := by
  have hk := (List.getElem?_eq_some_iff.1 h).1
  rw [List.getElem?_append_left hk]; exact h

/-- while the downstream is open nothing forwarded so far is a terminal -/
theorem ToInv.open_nonterminal {d : Nat} {sub : Time} {s : ToSt} (hinv : ToInv d sub s) (ho : s.closed = false)
    {k : Nat} {e : Ev} (h : s.attempts[k]? = some e) : e.n.isTerminal = false := by
  cases ht : e.n.isTerminal with
  | false => rfl
  | true => have := (hinv.gram k e h ht).2; rw [ho] at this; cases this

theorem toInv_step {d : Nat} {sub : Time} {s s' : ToSt} {ev : ToEv}
    (hinv : ToInv d sub s) (hstep : toStep d s ev = some s') : ToInv d sub s' := by
  cases ev with
  | next v t0 t1 tr =>
    simp only [toStep] at hstep
    split at hstep
    next hc =>
      obtain ⟨h0, h1, h2⟩ := hc
      cases hstep
      cases hcl : s.closed with
      | true =>
        simp only [if_true]
        refine ⟨?_, by simp, ?_, hinv.tmo, by simp, by simp, by simp⟩
        · intro k e hk ht; have := hinv.gram k e hk ht; exact ⟨this.1, rfl⟩
        · intro k dl hk hn
          obtain ⟨e, he, h⟩ := hinv.fwd k dl hk hn
          exact ⟨e, emits_append_left _ he, h⟩
      | false =>
        simp only [Bool.false_eq_true, if_false]
        have hlen := hinv.opn hcl
        refine ⟨?_, ?_, ?_, ?_, ?_, ?_, ?_⟩
        · intro k e hk ht
          rcases getElem?_append_cases _ _ k e hk with ⟨_, hk'⟩ | ⟨_, rfl⟩
          · have := hinv.open_nonterminal hcl hk'; rw [this] at ht; cases ht
          · simp at ht
        · intro _; simp [hlen]
        · intro k dl hk hn
          rcases getElem?_append_cases _ _ k dl hk with ⟨_, hk'⟩ | ⟨rfl, rfl⟩
          · obtain ⟨e, he, h⟩ := hinv.fwd k dl hk' hn
            exact ⟨e, emits_append_left _ he, h⟩
          · exact ⟨⟨t0, tr, .next v⟩, by rw [hlen]; simp, rfl, Nat.le_refl _⟩
        · intro k dl hk hn
          rcases getElem?_append_cases _ _ k dl hk with ⟨hlt, hk'⟩ | ⟨_, rfl⟩
          · obtain ⟨j, hj, hq⟩ := hinv.tmo k dl hk' hn
            exact ⟨j, hj, quiet_append _ (by omega) hq⟩
          · simp at hn
        · intro _ a ha
          simp only [Option.some.injEq] at ha; subst ha
          rw [List.length_append, List.length_singleton, endB_last]; exact h2
        · intro _
          rw [List.length_append, List.length_singleton, endB_last]; exact h2
        · intro _ hpos
          left
          rcases hinv.infl hcl hpos with ⟨j, hj, hq⟩ | hq
          · exact ⟨j, by simp; omega, quiet_append _ hj hq⟩
          · refine ⟨s.attempts.length, by simp, ?_⟩
            unfold Quiet
            rw [endB_append sub _ _ _ (Nat.le_refl _), startB_last]
            have := hinv.nowOK hcl
            simp only; omega
    next => cases hstep
  | term n t =>
    simp only [toStep] at hstep
    split at hstep
    next hc =>
      obtain ⟨h0, hterm, hne⟩ := hc
      cases hstep
      cases hcl : s.closed with
      | true =>
        simp only [if_true]
        refine ⟨?_, by simp, ?_, hinv.tmo, by simp, by simp, by simp⟩
        · intro k e hk ht; have := hinv.gram k e hk ht; exact ⟨this.1, rfl⟩
        · intro k dl hk hn
          obtain ⟨e, he, h⟩ := hinv.fwd k dl hk hn
          exact ⟨e, emits_append_left _ he, h⟩
      | false =>
        simp only [Bool.false_eq_true, if_false]
        have hlen := hinv.opn hcl
        refine ⟨?_, by simp, ?_, ?_, by simp, by simp, by simp⟩
        · intro k e hk ht
          rcases getElem?_append_cases _ _ k e hk with ⟨_, hk'⟩ | ⟨rfl, rfl⟩
          · have := hinv.open_nonterminal hcl hk'; rw [this] at ht; cases ht
          · simp
        · intro k dl hk hn
          rcases getElem?_append_cases _ _ k dl hk with ⟨_, hk'⟩ | ⟨rfl, rfl⟩
          · obtain ⟨e, he, h⟩ := hinv.fwd k dl hk' hn
            exact ⟨e, emits_append_left _ he, h⟩
          · exact ⟨⟨t, t, n⟩, by rw [hlen]; simp, rfl, Nat.le_refl _⟩
        · intro k dl hk hn
          rcases getElem?_append_cases _ _ k dl hk with ⟨hlt, hk'⟩ | ⟨_, rfl⟩
          · obtain ⟨j, hj, hq⟩ := hinv.tmo k dl hk' hn
            exact ⟨j, hj, quiet_append _ (by omega) hq⟩
          · exact absurd hn hne
    next => cases hstep
  | fire t =>
    simp only [toStep] at hstep
    split at hstep
    next a ha =>
      split at hstep
      next hc =>
        obtain ⟨h0, hf⟩ := hc
        cases hstep
        refine ⟨hinv.gram, hinv.opn, hinv.fwd, hinv.tmo, by simp, ?_, ?_⟩
        · intro hcl; have := hinv.nowOK hcl; simp only; omega
        · intro hcl _
          right
          have := hinv.armedOK hcl a ha
          simp only; omega
      next => cases hstep
    next => cases hstep
  | raise t =>
    simp only [toStep] at hstep
    split at hstep
    next hc =>
      obtain ⟨h0, hpos⟩ := hc
      cases hstep
      cases hcl : s.closed with
      | true =>
        simp only [if_true]
        refine ⟨?_, by simp, hinv.fwd, hinv.tmo, by simp, by simp, by simp⟩
        intro k e hk ht; have := hinv.gram k e hk ht; exact ⟨this.1, rfl⟩
      | false =>
        simp only [Bool.false_eq_true, if_false]
        refine ⟨?_, by simp, ?_, ?_, by simp, by simp, by simp⟩
        · intro k e hk ht
          rcases getElem?_append_cases _ _ k e hk with ⟨_, hk'⟩ | ⟨rfl, rfl⟩
          · have := hinv.open_nonterminal hcl hk'; rw [this] at ht; cases ht
          · simp
        · intro k dl hk hn
          rcases getElem?_append_cases _ _ k dl hk with ⟨_, hk'⟩ | ⟨_, rfl⟩
          · exact hinv.fwd k dl hk' hn
          · simp [Ev.at] at hn
        · intro k dl hk hn
          rcases getElem?_append_cases _ _ k dl hk with ⟨hlt, hk'⟩ | ⟨rfl, rfl⟩
          · obtain ⟨j, hj, hq⟩ := hinv.tmo k dl hk' hn
            exact ⟨j, hj, quiet_append _ (by omega) hq⟩
          · rcases hinv.infl hcl hpos with ⟨j, hj, hq⟩ | hq
            · exact ⟨j, by omega, quiet_append _ hj hq⟩
            · refine ⟨s.attempts.length, by omega, ?_⟩
              unfold Quiet
              rw [endB_append sub _ _ _ (Nat.le_refl _), startB_last]
              simp only [Ev.at]; omega
    next => cases hstep

theorem toInv_run {d : Nat} {sub : Time} : ∀ (evs : List ToEv) (s s' : ToSt),
    ToInv d sub s → toRunFrom d s evs = some s' → ToInv d sub s'
  | [], s, s', hinv, h => by simp [toRunFrom] at h; exact h ▸ hinv
  | e :: es, s, s', hinv, h => by
    simp only [toRunFrom] at h
    split at h
    next s1 hs1 => exact toInv_run es s1 s' (toInv_step hinv hs1) h
    next => cases h

theorem prefix_getElem?_eq {α : Type} {p l : List α} (h : p <+: l) {i : Nat} (hi : i < p.length) : p[i]? = l[i]? := by
  obtain ⟨t, rfl⟩ := h
  rw [List.getElem?_append_left hi]

theorem endB_prefix {sub : Time} {P A : List Ev} (h : P <+: A) {j : Nat} (hj : j ≤ P.length) : endB sub P j = endB sub A j := by
  cases j with
  | zero => rfl
  | succ j => simp only [endB]; rw [prefix_getElem?_eq h (by omega)]

theorem startB_prefix {P A : List Ev} (h : P <+: A) {j : Nat} (hj : j < P.length) : startB P j = startB A j := by
  simp only [startB]; rw [prefix_getElem?_eq h hj]

theorem endBefore_eq_endB (tr : TimedTrace) (j : Nat) : endBefore tr j = endB tr.sub tr.dels j := by
  cases j <;> rfl

theorem startOf_eq_startB (tr : TimedTrace) (j : Nat) : startOf tr j = startB tr.dels j := rfl

/-- **Timeout soundness**: every run of the model — every interleaving, timers as late as the
    environment likes but never early — satisfies the clause of C16: forwarded notifications are the
    source's, in order; a timeout error is preceded by a full quiet period (measured from the END of
    the previous forwarded `Next`, or from the subscription); nothing follows a terminal. -/
theorem timeout_model_clause (r : ToRun) (tr : TimedTrace) (htr : toTrace r = some tr) :
    Clause { op := .timeout, d := r.d } tr := by
  unfold toTrace at htr
  simp only [Option.map_eq_some_iff] at htr
  obtain ⟨s, hs, rfl⟩ := htr
  have hinv := toInv_run r.evs _ s (toInv_init r.d r.sub) hs
  have hpre := cutAt_prefix r.unsub s.attempts
  refine ⟨?_, silentOK_cut _ r.unsub _ rfl rfl, ?_⟩
  · show ∀ k (h : k < (cutAt r.unsub s.attempts).length), _
    apply prefix_terminal_last hpre
    intro k hk ht
    exact (hinv.gram k _ (List.getElem?_eq_getElem hk) ht).1
  · apply opOK_of_getElem?
    intro k dl hk
    have hk' : (cutAt r.unsub s.attempts)[k]? = some dl := hk
    have hlt : k < (cutAt r.unsub s.attempts).length := (List.getElem?_eq_some_iff.1 hk').1
    have hA : s.attempts[k]? = some dl := prefix_getElem? hpre hk'
    show TimeoutAt r.d _ k dl
    unfold TimeoutAt
    split
    next hto =>
      obtain ⟨j, hj, hq⟩ := hinv.tmo k dl hA hto
      refine ⟨j, hj, ?_⟩
      rw [endBefore_eq_endB, startOf_eq_startB]
      show endB r.sub (cutAt r.unsub s.attempts) j + r.d ≤ startB (cutAt r.unsub s.attempts) j
      rw [endB_prefix hpre (by omega), startB_prefix hpre (by omega)]
      exact hq
    next hnto =>
      obtain ⟨e, he, hn, ht⟩ := hinv.fwd k dl hA hnto
      show match s.emits[k]? with | some e => dl.n = e.n ∧ e.t0 ≤ dl.t0 | none => False
      rw [he]; exact ⟨hn, ht⟩

theorem timeout_model_accepts (r : ToRun) (tr : TimedTrace) (htr : toTrace r = some tr) :
    accepts { op := .timeout, d := r.d } tr = true :=
  decide_eq_true (timeout_model_clause r tr htr)

/-- never after a forwarded terminal: once the source's terminal went downstream, a timeout callback
    that had already started changes nothing -/
theorem timeout_never_after_terminal (r : ToRun) (tr : TimedTrace) (htr : toTrace r = some tr) :
    ∀ (k : Nat) (h : k < tr.dels.length), tr.dels[k].n.isTerminal = true → k + 1 = tr.dels.length :=
  (timeout_model_clause r tr htr).1

-- non-vacuity. d = 5: value forwarded over [1,2], timer re-armed at 2, expires at 7, callback starts;
-- a value arrives at 8 (Stop comes too late) and is forwarded; the callback raises at 9.
example : (toTrace { d := 5, sub := 0, evs := [.next 1 1 2 2, .fire 7, .next 2 8 8 8, .raise 9], unsub := none }).map (·.dels)
    = some [⟨1, 2, .next 1⟩, ⟨8, 8, .next 2⟩, Ev.at 9 (.error errTimeout)] := by decide
-- the same run: quiet period is the one between the end of delivery 0 (2) and the start of delivery 1 (8)
example : ∃ tr, toTrace { d := 5, sub := 0, evs := [.next 1 1 2 2, .fire 7, .next 2 8 8 8, .raise 9], unsub := none } = some tr
    ∧ Clause { op := .timeout, d := 5 } tr := ⟨_, rfl, by decide⟩
-- an expiry before the quiet period is over is not a possible run
example : toTrace { d := 5, sub := 0, evs := [.next 1 1 2 2, .fire 6], unsub := none } = none := by decide
-- what re-arming BEFORE forwarding would produce (slow consumer over [1,9], error right after) is rejected
example : ¬ Clause { op := .timeout, d := 5 }
    { sub := 0, emits := [⟨1, 9, .next 1⟩], dels := [⟨1, 9, .next 1⟩, Ev.at 9 (.error errTimeout)], cut := .none } := by decide

end Ro.Timed

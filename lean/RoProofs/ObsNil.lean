/-
  RoProofs.ObsNil — an observer with nil callbacks (C07: "failures that no one can receive go to the unhandled-error
  hook", C01: nothing is made up).
-/
import RoModel.ObsNil
namespace Ro.ObsNil
open Ro

theorem mem_chain_self (e : Err) : e ∈ e.chain := by
  cases e <;> simp [Err.chain]

variable (cfg : Cfg) (fault : Nat → Option Err)

/-- the dropped-notification hook only ever sees notifications the producer sent — never an error the library made up
    from a recovered panic -/
theorem dropped_from_script (script : List (Notif Int)) : ∀ n ∈ (run cfg fault script).dropped, n ∈ script := by
  unfold run
  suffices h : ∀ (s : St) (pre : List (Notif Int)), (∀ n ∈ s.dropped, n ∈ pre) →
      ∀ n ∈ (script.foldl (step cfg fault) s).dropped, n ∈ pre ++ script by
    simpa using h {} [] (by simp)
  induction script with
  | nil => intro s pre hs n hn; simpa using hs n hn
  | cons x xs ih =>
    intro s pre hs n hn
    have hstep : ∀ m ∈ (step cfg fault s x).dropped, m ∈ pre ++ [x] := by
      intro m hm
      cases x with
      | next c v =>
        simp only [step] at hm
        split at hm
        · simp at hm; rcases hm with h | h
          · exact List.mem_append_left _ (hs m h)
          · simp [h]
        · split at hm
          · exact List.mem_append_left _ (hs m hm)
          · split at hm <;> exact List.mem_append_left _ (hs m hm)
      | error c e =>
        simp only [step] at hm
        split at hm
        · simp at hm; rcases hm with h | h
          · exact List.mem_append_left _ (hs m h)
          · simp [h]
        · exact List.mem_append_left _ (hs m hm)
      | complete c =>
        simp only [step] at hm
        split at hm
        · simp at hm; rcases hm with h | h
          · exact List.mem_append_left _ (hs m h)
          · simp [h]
        · exact List.mem_append_left _ (hs m hm)
    have := ih (step cfg fault s x) (pre ++ [x]) hstep n hn
    simpa [List.append_assoc] using this

/-- an observer WITHOUT an error callback: a panic of its Next callback reaches the unhandled-error hook (wrapped once,
    still matching its cause), it never reaches the observer's own callbacks, and the observer stays open -/
theorem step_panic_unhandled (hn : cfg.hasNext = true) (he : cfg.hasError = false) (s : St) (hs : s.status = 0)
    (c : Ctx) (v : Int) (p : Err) (hf : fault s.calls = some p) :
    (step cfg fault s (.next c v)).unhandled = s.unhandled ++ [.observer p] ∧
    (step cfg fault s (.next c v)).trace = s.trace ∧ (step cfg fault s (.next c v)).dropped = s.dropped ∧
    (step cfg fault s (.next c v)).status = 0 ∧ p ∈ (Err.observer p).chain := by
  simp [step, hn, he, hs, hf, Err.chain, mem_chain_self]

/-- every entry of the unhandled hook is a wrapped panic value of the plan, in invocation order: one per faulting
    invocation, nothing else -/
theorem unhandled_only_panics (he : cfg.hasError = false) (script : List (Notif Int)) :
    ∀ e ∈ (run cfg fault script).unhandled, ∃ k p, fault k = some p ∧ e = .observer p := by
  unfold run
  suffices h : ∀ (s : St), (∀ e ∈ s.unhandled, ∃ k p, fault k = some p ∧ e = .observer p) →
      ∀ e ∈ (script.foldl (step cfg fault) s).unhandled, ∃ k p, fault k = some p ∧ e = .observer p by
    exact h {} (by simp)
  induction script with
  | nil => intro s hs; simpa using hs
  | cons x xs ih =>
    intro s hs
    apply ih
    intro e hm
    cases x with
    | next c v =>
      simp only [step] at hm
      split at hm
      · exact hs e hm
      · split at hm
        · exact hs e hm
        · next p hp =>
          simp only [he] at hm
          simp at hm
          rcases hm with h | h
          · exact hs e h
          · exact ⟨s.calls, p, hp, h⟩
    | error c e' => simp only [step] at hm; split at hm <;> exact hs e hm
    | complete c => simp only [step] at hm; split at hm <;> exact hs e hm

-- tests of the model (labelled as tests)
example : (run ⟨true, false, true⟩ (fun k => if k = 1 then some (.user 5) else none)
      [.next {} 1, .next {} 2, .next {} 3, .complete {}]).unhandled = [.observer (.user 5)] := by decide
example : (run ⟨true, false, true⟩ (fun k => if k = 1 then some (.user 5) else none)
      [.next {} 1, .next {} 2, .next {} 3, .complete {}]).dropped = [] := by decide
example : (run ⟨true, false, true⟩ (fun _ => none) [.next {} 1, .error {} (.user 2), .next {} 3]).dropped
      = [.error {} (.user 2)] := by decide

end Ro.ObsNil

/-
  RoProofs.ConnectableProofs — the connectable observable (RoModel.Connectable): invariant of the
  links, at most one live upstream subscription, Connect is idempotent while connected, disconnect
  stops delivery, nothing flows before the first Connect.
-/
import RoModel.Connectable
import RoProofs.ShareBasic
namespace Ro.Connectable
open Ro.Share
attribute [local simp] CSt.modSubj CSt.modLink CSt.modSub CSt.drop

/-! ### what the subjects and the downstream subscribers never touch -/

structure LK (s s' : CSt) : Prop where
  links : s'.links = s.links
  nlinks : s'.nlinks = s.nlinks
  subscription : s'.subscription = s.subscription
  lastRet : s'.lastRet = s.lastRet
  subject : s'.subject = s.subject
  nsubjects : s'.nsubjects = s.nsubjects
  same : s'.same = s.same

theorem LK.refl (s : CSt) : LK s s := ⟨rfl, rfl, rfl, rfl, rfl, rfl, rfl⟩
theorem LK.trans {a b c : CSt} (h1 : LK a b) (h2 : LK b c) : LK a c :=
  ⟨h2.links.trans h1.links, h2.nlinks.trans h1.nlinks, h2.subscription.trans h1.subscription, h2.lastRet.trans h1.lastRet,
   h2.subject.trans h1.subject, h2.nsubjects.trans h1.nsubjects, h2.same.trans h1.same⟩

theorem foldl_lk {α : Type} (f : CSt → α → CSt) (hf : ∀ s a, LK s (f s a)) (l : List α) (s : CSt) : LK s (l.foldl f s) := by
  induction l generalizing s with
  | nil => exact LK.refl s
  | cons a l ih => exact (hf s a).trans (ih (f s a))

theorem dNext_lk (i : Nat) (v : Int) (s : CSt) : LK s (dNext i v s) := by
  unfold dNext; split <;> exact ⟨rfl, rfl, rfl, rfl, rfl, rfl, rfl⟩

theorem dSubnUnsub_lk (i : Nat) (s : CSt) : LK s (dSubnUnsub i s) := by
  unfold dSubnUnsub; split
  · exact LK.refl s
  · unfold runDel; split <;> exact ⟨rfl, rfl, rfl, rfl, rfl, rfl, rfl⟩

theorem dTerm_lk (i : Nat) (t : Ev) (s : CSt) : LK s (dTerm i t s) := by
  have h1 : LK s (dDeliver i t s) := by unfold dDeliver; split <;> exact ⟨rfl, rfl, rfl, rfl, rfl, rfl, rfl⟩
  exact h1.trans (dSubnUnsub_lk i _)

theorem dUnsubscribe_lk (i : Nat) (s : CSt) : LK s (dUnsubscribe i s) := by
  unfold dUnsubscribe; split
  · have h1 : LK s (s.modSub i fun d => { d with status := 2 }) := ⟨rfl, rfl, rfl, rfl, rfl, rfl, rfl⟩
    exact h1.trans (dSubnUnsub_lk i _)
  · exact LK.refl s

theorem subjNext_lk (conn : Conn) (j : Nat) (v : Int) (s : CSt) : LK s (subjNext conn j v s) := by
  unfold subjNext; split
  · have h1 : LK s (subjStore conn j v s) := by cases conn <;> exact ⟨rfl, rfl, rfl, rfl, rfl, rfl, rfl⟩
    have h2 : ∀ u, LK u (bcastNext j v u) := fun u => foldl_lk _ (fun s i => dNext_lk i v s) _ u
    have h3 : ∀ u, LK u (subjBuffer conn j v u) := by
      intro u; cases conn
      · exact LK.refl u
      · exact LK.refl u
      · unfold subjBuffer; simp only []; split <;> exact ⟨rfl, rfl, rfl, rfl, rfl, rfl, rfl⟩
      · exact ⟨rfl, rfl, rfl, rfl, rfl, rfl, rfl⟩
    exact (h1.trans (h2 _)).trans (h3 _)
  · exact ⟨rfl, rfl, rfl, rfl, rfl, rfl, rfl⟩

theorem subjTerm_lk (j : Nat) (t : Ev) (s : CSt) : LK s (subjTerm j t s) := by
  unfold subjTerm; split
  · have h1 : LK s (s.modSubj j fun x => { x with status := Status.ofTerminal t }) := ⟨rfl, rfl, rfl, rfl, rfl, rfl, rfl⟩
    have h2 : ∀ u, LK u (bcastTerm j t u) := fun u => foldl_lk _ (fun s i => dTerm_lk i t s) _ u
    have h3 : ∀ u, LK u (subjClear j u) := fun u => ⟨rfl, rfl, rfl, rfl, rfl, rfl, rfl⟩
    exact (h1.trans (h2 _)).trans (h3 _)
  · exact ⟨rfl, rfl, rfl, rfl, rfl, rfl, rfl⟩

theorem subjSubscribe_lk (conn : Conn) (j i : Nat) (s : CSt) : LK s (subjSubscribe conn j i s) := by
  have hR : LK s (subjReplay conn j i s) := by
    cases conn <;> first | exact LK.refl s | exact foldl_lk _ (fun s v => dNext_lk i v s) _ s
  have hL : ∀ u, LK u (subjLast conn j i u) := by
    intro u; cases conn <;> first | exact LK.refl u | exact dNext_lk i _ u
  have hG : ∀ u, LK u (subjRegister j i u) := by
    intro u; unfold subjRegister; split <;> exact ⟨rfl, rfl, rfl, rfl, rfl, rfl, rfl⟩
  unfold subjSubscribe
  split
  · exact hR.trans (dTerm_lk i _ _)
  · exact hR.trans (dTerm_lk i _ _)
  · exact (hR.trans (hL _)).trans (hG _)

/-! ### the links -/

/-- the link of the current connection, upstream live -/
structure LinkOpen (l : Link) : Prop where
  status : l.status = 0
  done : l.done = false
  tdFin : l.tdFin = true
  resetFin : l.resetFin = true
  upTorn : l.upTorn = false

/-- a link whose upstream subscription has been released (disconnect or source terminal) -/
structure LinkClosed (l : Link) : Prop where
  status : l.status ≠ 0
  done : l.done = true
  tdFin : l.tdFin = false
  resetFin : l.resetFin = false
  upTorn : l.upTorn = true

structure CInv (s : CSt) : Prop where
  ret : s.lastRet = s.subscription
  links : ∀ c, c < s.nlinks → LinkClosed (s.links c) ∨ (s.subscription = some c ∧ LinkOpen (s.links c))
  bound : ∀ c, s.subscription = some c → c < s.nlinks

theorem CInv.init (cfg : CCfg) : CInv (CSt.init cfg) := by
  constructor
  · rfl
  · intro c hc; simp [CSt.init] at hc
  · intro c hc; simp [CSt.init] at hc

theorem CInv.lk {s s' : CSt} (hi : CInv s) (h : LK s s') : CInv s' := by
  constructor
  · rw [h.lastRet, h.subscription]; exact hi.ret
  · intro c hc
    rw [h.links, h.subscription]
    exact hi.links c (by rw [← h.nlinks]; exact hc)
  · intro c hc
    rw [h.nlinks]
    exact hi.bound c (by rw [← h.subscription]; exact hc)

theorem resetSubject_links (cfg : CCfg) (s : CSt) :
    (resetSubject cfg s).links = s.links ∧ (resetSubject cfg s).nlinks = s.nlinks ∧
    (resetSubject cfg s).subscription = s.subscription ∧ (resetSubject cfg s).lastRet = s.lastRet := by
  unfold resetSubject; split <;> exact ⟨rfl, rfl, rfl, rfl⟩

/-- closing an open link: `Subscription.Unsubscribe` of the link runs both finalizers -/
theorem lSubnUnsub_open (cfg : CCfg) (c : Nat) {s : CSt} (h2 : (s.links c).done = false) (h3 : (s.links c).tdFin = true)
    (h4 : (s.links c).resetFin = true) :
    (lSubnUnsub cfg c s).links = (fun k => if k = c then { (s.links c) with done := true, tdFin := false, resetFin := false, upTorn := true } else s.links k) ∧
    (lSubnUnsub cfg c s).nlinks = s.nlinks ∧ (lSubnUnsub cfg c s).subscription = s.subscription ∧
    (lSubnUnsub cfg c s).lastRet = s.lastRet := by
  simp only [lSubnUnsub, h2, h3, h4, lRunTd, lRunReset]
  simp
  obtain ⟨r1, r2, r3, r4⟩ := resetSubject_links cfg
    ((s.modLink c fun x => { x with done := true, tdFin := false, resetFin := false }).modLink c fun x => { x with upTorn := true })
  simp at r1 r2 r3 r4
  refine ⟨?_, r2, r3, r4⟩
  rw [r1]
  funext k
  split <;> simp_all

theorem lSubnUnsub_done (cfg : CCfg) (c : Nat) {s : CSt} (h : (s.links c).done = true) : lSubnUnsub cfg c s = s := by
  simp [lSubnUnsub, h]

/-- a notification reaches link `c` -/
theorem cinv_lEmit (cfg : CCfg) {s : CSt} (hi : CInv s) (c : Nat) (hc : c < s.nlinks) (x : Ev) :
    CInv (lEmit cfg c x s) ∧ (lEmit cfg c x s).nlinks = s.nlinks := by
  rcases hi.links c hc with hcl | ⟨hsub, hop⟩
  · -- closed link: only the drop hook
    have : LK s (lEmit cfg c x s) := by
      cases x
      · simp [lEmit, lNext, hcl.status]; exact ⟨rfl, rfl, rfl, rfl, rfl, rfl, rfl⟩
      · simp only [lEmit, lTerm, if_neg hcl.status]
        rw [lSubnUnsub_done cfg c (by exact hcl.done)]
        exact ⟨rfl, rfl, rfl, rfl, rfl, rfl, rfl⟩
      · simp only [lEmit, lTerm, if_neg hcl.status]
        rw [lSubnUnsub_done cfg c (by exact hcl.done)]
        exact ⟨rfl, rfl, rfl, rfl, rfl, rfl, rfl⟩
    exact ⟨hi.lk this, this.nlinks⟩
  · have hterm : ∀ t : Ev, t.isTerminal = true → CInv (lTerm cfg c t s) ∧ (lTerm cfg c t s).nlinks = s.nlinks := by
      intro t ht
      have hcode : t.code ≠ 0 := by cases t <;> simp [Ev.code, Ev.isTerminal] at *
      simp only [lTerm, if_pos hop.status]
      have hlk := subjTerm_lk (s.links c).target t (s.modLink c fun x => { x with status := t.code })
      generalize subjTerm (s.links c).target t (s.modLink c fun x => { x with status := t.code }) = u at hlk
      obtain ⟨e1, e2, e3, e4⟩ := lSubnUnsub_open cfg c (s := u) (by rw [hlk.links]; simp [hop.done])
        (by rw [hlk.links]; simp [hop.tdFin]) (by rw [hlk.links]; simp [hop.resetFin])
      refine ⟨?_, by rw [e2, hlk.nlinks]; rfl⟩
      constructor
      · rw [e4, e3, hlk.lastRet, hlk.subscription]; exact hi.ret
      · intro k hk
        rw [e1, e3, hlk.subscription]
        by_cases hkc : k = c
        · subst hkc
          left
          constructor <;> simp [hlk.links, hcode]
        · simp only [hkc, if_false]
          rw [hlk.links]
          simp only [CSt.modLink, hkc, if_false]
          exact hi.links k (by rw [e2, hlk.nlinks] at hk; exact hk)
      · intro k hk
        rw [e2, hlk.nlinks]
        exact hi.bound k (by rw [e3, hlk.subscription] at hk; exact hk)
    cases x with
    | next v =>
      have : LK s (lEmit cfg c (.next v) s) := by
        simp only [lEmit, lNext, if_pos hop.status]
        exact subjNext_lk _ _ _ s
      exact ⟨hi.lk this, this.nlinks⟩
    | error e => exact hterm (.error e) rfl
    | complete => exact hterm .complete rfl

theorem cinv_push (cfg : CCfg) (x : Ev) {s : CSt} (hi : CInv s) : CInv (push cfg x s) := by
  unfold push
  suffices h : ∀ (l : List Nat) (u : CSt), CInv u → u.nlinks = s.nlinks → (∀ c, c ∈ l → c < s.nlinks) →
      CInv (l.foldl (fun s c => if s.upLive c then lEmit cfg c x s else s) u) from
    h _ s hi rfl (fun c hc => List.mem_range.mp hc)
  intro l
  induction l with
  | nil => intro u hu _ _; exact hu
  | cons a l ih =>
    intro u hu hn hl
    rw [List.foldl_cons]
    have ha : a < u.nlinks := by rw [hn]; exact hl a List.mem_cons_self
    split
    · obtain ⟨h1, h2⟩ := cinv_lEmit cfg hu a ha x
      exact ih _ h1 (by rw [h2, hn]) (fun c hc => hl c (List.mem_cons_of_mem _ hc))
    · exact ih _ hu hn (fun c hc => hl c (List.mem_cons_of_mem _ hc))

/-! ### Connect -/

/-- while the prefix of a new link `c` plays: every older link is closed; the new one is either
    untouched or already ended (not yet torn: its teardown is not registered) -/
structure PInv (c : Nat) (u : CSt) : Prop where
  nlinks : u.nlinks = c + 1
  old : ∀ k, k < c → LinkClosed (u.links k)
  tdFin : (u.links c).tdFin = false
  resetFin : (u.links c).resetFin = false
  upTorn : (u.links c).upTorn = false
  mode : ((u.links c).status = 0 ∧ (u.links c).done = false) ∨ ((u.links c).status ≠ 0 ∧ (u.links c).done = true)

theorem PInv.lk {c : Nat} {u u' : CSt} (h : PInv c u) (hl : LK u u') : PInv c u' := by
  constructor
  · rw [hl.nlinks]; exact h.nlinks
  · intro k hk; rw [hl.links]; exact h.old k hk
  · rw [hl.links]; exact h.tdFin
  · rw [hl.links]; exact h.resetFin
  · rw [hl.links]; exact h.upTorn
  · rw [hl.links]; exact h.mode

theorem pinv_lEmit (cfg : CCfg) {c : Nat} {u : CSt} (h : PInv c u) (x : Ev) : PInv c (lEmit cfg c x u) := by
  rcases h.mode with ⟨h0, hd⟩ | ⟨h0, hd⟩
  · have hterm : ∀ t : Ev, t.isTerminal = true → PInv c (lTerm cfg c t u) := by
      intro t ht
      have hcode : t.code ≠ 0 := by cases t <;> simp [Ev.code, Ev.isTerminal] at *
      simp only [lTerm, if_pos h0]
      have hlk := subjTerm_lk (u.links c).target t (u.modLink c fun x => { x with status := t.code })
      generalize subjTerm (u.links c).target t (u.modLink c fun x => { x with status := t.code }) = w at hlk
      have hd' : (w.links c).done = false := by rw [hlk.links]; simp [hd]
      have ht' : (w.links c).tdFin = false := by rw [hlk.links]; simp [h.tdFin]
      have hr' : (w.links c).resetFin = false := by rw [hlk.links]; simp [h.resetFin]
      have e : lSubnUnsub cfg c w = w.modLink c fun x => { x with done := true, tdFin := false, resetFin := false } := by
        simp [lSubnUnsub, hd', ht', hr', lRunTd, lRunReset]
      rw [e]
      constructor
      · simp [hlk.nlinks]; exact h.nlinks
      · intro k hk
        have : k ≠ c := by omega
        simp [this, hlk.links]; exact h.old k hk
      · simp
      · simp
      · simp [hlk.links]; exact h.upTorn
      · right; simp [hlk.links, hcode]
    cases x with
    | next v =>
      have : LK u (lEmit cfg c (.next v) u) := by
        simp only [lEmit, lNext, if_pos h0]
        exact subjNext_lk _ _ _ u
      exact h.lk this
    | error e => exact hterm (.error e) rfl
    | complete => exact hterm .complete rfl
  · have : LK u (lEmit cfg c x u) := by
      cases x
      · simp [lEmit, lNext, h0]; exact ⟨rfl, rfl, rfl, rfl, rfl, rfl, rfl⟩
      · simp only [lEmit, lTerm, if_neg h0]
        rw [lSubnUnsub_done cfg c (by exact hd)]
        exact ⟨rfl, rfl, rfl, rfl, rfl, rfl, rfl⟩
      · simp only [lEmit, lTerm, if_neg h0]
        rw [lSubnUnsub_done cfg c (by exact hd)]
        exact ⟨rfl, rfl, rfl, rfl, rfl, rfl, rfl⟩
    exact h.lk this

theorem pinv_playPre (cfg : CCfg) {c : Nat} (pre : List Ev) {u : CSt} (h : PInv c u) : PInv c (playPre cfg c pre u) := by
  unfold playPre
  induction pre generalizing u with
  | nil => exact h
  | cons x xs ih => exact ih (pinv_lEmit cfg h x)

theorem cinv_connectNew (cfg : CCfg) {s : CSt} (hi : CInv s) (hn : needsConnect s = true) :
    (connectNew cfg s).subscription = some s.nlinks ∧ (connectNew cfg s).nlinks = s.nlinks + 1 ∧
    (∀ c, c < s.nlinks + 1 → LinkClosed ((connectNew cfg s).links c) ∨ (c = s.nlinks ∧ LinkOpen ((connectNew cfg s).links c))) := by
  have hold : ∀ k, k < s.nlinks → LinkClosed (s.links k) := by
    intro k hk
    rcases hi.links k hk with hcl | ⟨hsub, hop⟩
    · exact hcl
    · simp [needsConnect, hsub, hop.status] at hn
  have h0 : PInv s.nlinks (newLink s) := by
    constructor
    · rfl
    · intro k hk
      have : k ≠ s.nlinks := by omega
      simp [newLink, this]; exact hold k hk
    all_goals simp [newLink]
  have hp := pinv_playPre cfg (cfg.pre s.nlinks) h0
  unfold connectNew
  generalize playPre cfg s.nlinks (cfg.pre s.nlinks) (newLink s) = u at hp ⊢
  rcases hp.mode with ⟨h0', hd⟩ | ⟨h0', hd⟩
  · -- still connected after the prefix
    have e : linkAddReset cfg s.nlinks { (linkAddTeardown s.nlinks u) with subscription := some s.nlinks } =
        { (u.modLink s.nlinks fun x => { x with tdFin := true, resetFin := true }) with subscription := some s.nlinks } := by
      simp [linkAddReset, linkAddTeardown, hd]
      funext k; split <;> simp_all
    rw [e]
    refine ⟨rfl, by simp [hp.nlinks], ?_⟩
    intro c hc
    by_cases hcn : c = s.nlinks
    · subst hcn
      right
      refine ⟨rfl, ?_⟩
      constructor <;> simp [h0', hd, hp.upTorn]
    · left
      simp [hcn]
      exact hp.old c (by omega)
  · -- the source ended synchronously: torn at once, and `resetSubject` runs at once
    obtain ⟨r1, r2, r3, _⟩ := resetSubject_links cfg { (u.modLink s.nlinks fun x => { x with upTorn := true }) with subscription := some s.nlinks }
    have e : linkAddReset cfg s.nlinks { (linkAddTeardown s.nlinks u) with subscription := some s.nlinks } =
        resetSubject cfg { (u.modLink s.nlinks fun x => { x with upTorn := true }) with subscription := some s.nlinks } := by
      simp [linkAddReset, linkAddTeardown, hd]
    rw [e]
    refine ⟨by rw [r3], by rw [r2]; simp [hp.nlinks], ?_⟩
    intro c hc
    left
    rw [r1]
    by_cases hcn : c = s.nlinks
    · subst hcn
      constructor <;> simp [h0', hd, hp.tdFin, hp.resetFin]
    · simp [hcn]
      exact hp.old c (by omega)

theorem noteRet_fields (s : CSt) :
    (noteRet s).links = s.links ∧ (noteRet s).nlinks = s.nlinks ∧ (noteRet s).subscription = s.subscription ∧
    (noteRet s).lastRet = s.subscription := ⟨rfl, rfl, rfl, rfl⟩

theorem cinv_connect (cfg : CCfg) {s : CSt} (hi : CInv s) : CInv (connect cfg s) := by
  unfold connect
  obtain ⟨n1, n2, n3, n4⟩ := noteRet_fields (if needsConnect s = true then connectNew cfg s else s)
  constructor
  · rw [n4, n3]
  · intro c hc
    rw [n1, n3]
    rw [n2] at hc
    split
    next hn =>
      rw [if_pos hn] at hc
      obtain ⟨e1, e2, e3⟩ := cinv_connectNew cfg hi hn
      rw [e2] at hc
      rcases e3 c hc with h | ⟨h1, h2⟩
      · exact Or.inl h
      · exact Or.inr ⟨by rw [e1, h1], h2⟩
    next hn =>
      rw [if_neg hn] at hc
      exact hi.links c hc
  · intro c hc
    rw [n2]
    rw [n3] at hc
    split
    next hn =>
      rw [if_pos hn] at hc
      obtain ⟨e1, e2, _⟩ := cinv_connectNew cfg hi hn
      rw [e1] at hc
      rw [e2, ← Option.some.inj hc]
      omega
    next hn =>
      rw [if_neg hn] at hc
      exact hi.bound c hc

theorem cinv_lUnsubscribe (cfg : CCfg) {s : CSt} (hi : CInv s) (c : Nat) (hc : c < s.nlinks) :
    CInv (lUnsubscribe cfg c s) ∧ (lUnsubscribe cfg c s).nlinks = s.nlinks ∧ ((lUnsubscribe cfg c s).links c).upTorn = true ∧
      (∀ k, k ≠ c → (lUnsubscribe cfg c s).links k = s.links k) := by
  rcases hi.links c hc with hcl | ⟨hsub, hop⟩
  · simp [lUnsubscribe, hcl.status]
    exact ⟨hi, hcl.upTorn⟩
  · simp only [lUnsubscribe, if_pos hop.status]
    obtain ⟨e1, e2, e3, e4⟩ := lSubnUnsub_open cfg c (s := s.modLink c fun x => { x with status := 2 })
      (by simp [hop.done]) (by simp [hop.tdFin]) (by simp [hop.resetFin])
    refine ⟨?_, by rw [e2]; rfl, by rw [e1]; simp, fun k hk => by rw [e1]; simp [hk]⟩
    constructor
    · rw [e4, e3]; exact hi.ret
    · intro k hk
      rw [e1, e3]
      by_cases hkc : k = c
      · subst hkc
        left
        constructor <;> simp
      · simp only [hkc, if_false]
        simp only [CSt.modLink, hkc, if_false]
        exact hi.links k (by rw [e2] at hk; exact hk)
    · intro k hk
      rw [e2]
      exact hi.bound k (by rw [e3] at hk; exact hk)

theorem cinv_step (cfg : CCfg) {s : CSt} (hi : CInv s) (e : CEvent) : CInv (step cfg s e) := by
  cases e with
  | sub =>
    have h1 : LK s (newSub s) := ⟨rfl, rfl, rfl, rfl, rfl, rfl, rfl⟩
    exact hi.lk (h1.trans (subjSubscribe_lk cfg.conn s.subject s.nsubs _))
  | unsub i =>
    simp only [step]
    split
    · exact hi.lk (dUnsubscribe_lk i s)
    · exact hi
  | src x => exact cinv_push cfg x hi
  | connect => exact cinv_connect cfg hi
  | disconnect =>
    simp only [step]
    split
    next c hc => exact (cinv_lUnsubscribe cfg hi c (hi.bound c (by rw [← hi.ret]; exact hc))).1
    next => exact hi

theorem cinv_foldl (cfg : CCfg) (evs : List CEvent) {s : CSt} (hi : CInv s) : CInv (evs.foldl (step cfg) s) := by
  induction evs generalizing s with
  | nil => exact hi
  | cons e es ih => exact ih (cinv_step cfg hi e)

theorem cinv_run (cfg : CCfg) (evs : List CEvent) : CInv (run cfg evs) := cinv_foldl cfg evs (CInv.init cfg)

/-! ### the statements -/

theorem upLive_imp {s : CSt} (hi : CInv s) (c : Nat) (hc : c < s.nlinks) (h : s.upLive c = true) : s.subscription = some c := by
  rcases hi.links c hc with hcl | ⟨hsub, _⟩
  · simp [CSt.upLive, hcl.upTorn] at h
  · exact hsub

/-- at most one live upstream subscription -/
theorem live_le_one_of_cinv {s : CSt} (hi : CInv s) : s.live ≤ 1 := by
  unfold CSt.live
  apply filter_range_le_one s.upLive (s.subscription.getD 0)
  intro k hk hl
  rw [upLive_imp hi k hk hl]; rfl

/-- **Connect while connected** neither subscribes the source again nor changes the connection; it
    returns the existing subscription -/
theorem connect_idempotent (cfg : CCfg) {s : CSt} {c : Nat} (hi : CInv s) (hsub : s.subscription = some c)
    (hconn : (s.links c).status = 0) :
    (step cfg s .connect).total = s.total ∧ (step cfg s .connect).live = s.live ∧
    (step cfg s .connect).subscription = some c ∧ (step cfg s .connect).lastRet = some c ∧
    (step cfg s .connect).same = s.same ++ [true] ∧ (step cfg s .connect).subs = s.subs := by
  have hn : needsConnect s = false := by simp [needsConnect, hsub, hconn]
  have e : step cfg s .connect = noteRet s := by
    show connect cfg s = _
    unfold connect
    rw [hn]; rfl
  rw [e]
  refine ⟨rfl, rfl, hsub, hsub, ?_, rfl⟩
  simp [noteRet, hi.ret, hsub]

theorem push_noop (cfg : CCfg) (x : Ev) (s : CSt) (n : Nat) (h : ∀ c, c < n → s.upLive c = false) :
    (List.range n).foldl (fun s c => if s.upLive c then lEmit cfg c x s else s) s = s := by
  induction n with
  | zero => rfl
  | succ n ih =>
    rw [List.range_succ, List.foldl_append, ih (fun c hc => h c (Nat.lt_succ_of_lt hc))]
    simp [h n (Nat.lt_succ_self n)]

/-- with no live upstream subscription the source's notifications reach nobody -/
theorem src_noop_of_not_live (cfg : CCfg) {s : CSt} (h : s.live = 0) (x : Ev) : step cfg s (.src x) = s := by
  show push cfg x s = s
  apply push_noop
  intro c hc
  unfold CSt.live at h
  have := List.eq_nil_of_length_eq_zero h
  rw [List.filter_eq_nil_iff] at this
  have := this c (List.mem_range.mpr hc)
  simpa using this

/-- **disconnecting stops delivery**: after the connection's subscription is unsubscribed no
    upstream subscription is live, and whatever the source does changes nothing -/
theorem disconnect_stops (cfg : CCfg) {s : CSt} (hi : CInv s) :
    (step cfg s .disconnect).live = 0 ∧ ∀ x, step cfg (step cfg s .disconnect) (.src x) = step cfg s .disconnect := by
  have hlive : (step cfg s .disconnect).live = 0 := by
    have hinv := cinv_step cfg hi .disconnect
    unfold CSt.live
    rw [filter_range_eq_nil]; · rfl
    intro k hk
    cases hl : (step cfg s .disconnect).upLive k with
    | false => rfl
    | true =>
      exfalso
      have hsub' := upLive_imp hinv k hk hl
      simp only [step] at hl hsub' hk
      cases hret : s.lastRet with
      | none =>
        rw [hret] at hl hsub' hk
        simp only [] at hl hsub' hk
        rw [← hi.ret, hret] at hsub'
        cases hsub'
      | some c =>
        rw [hret] at hl hsub' hk
        simp only [] at hl hsub' hk
        have hc : c < s.nlinks := hi.bound c (by rw [← hi.ret]; exact hret)
        obtain ⟨hinv', hn, hut, hoth⟩ := cinv_lUnsubscribe cfg hi c hc
        by_cases hkc : k = c
        · subst hkc
          simp [CSt.upLive, hut] at hl
        · -- another link can only be live if it is the current subscription, which is `c`
          have hlk : s.upLive k = true := by
            simp only [CSt.upLive] at hl ⊢
            rw [hoth k hkc] at hl; exact hl
          have := upLive_imp hi k (by rw [hn] at hk; exact hk) hlk
          rw [← hi.ret, hret] at this
          exact hkc (Option.some.inj this).symm
  exact ⟨hlive, fun x => src_noop_of_not_live cfg hlive x⟩

/-! ### nothing before the first Connect -/

/-- no Connect yet: no link, the first subject still in place and untouched by any source value -/
structure NC (cfg : CCfg) (s : CSt) : Prop where
  nlinks : s.nlinks = 0
  lastRet : s.lastRet = none
  subject : s.subject = 0
  isOpen : (s.subjects 0).status = Status.open
  last : (s.subjects 0).last = (Subj.new cfg.conn).last
  buf : (s.subjects 0).buf = []
  traces : ∀ i, i < s.nsubs → (s.subs i).trace = Spec.joined cfg.conn (Subj.new cfg.conn)

theorem NC.init (cfg : CCfg) : NC cfg (CSt.init cfg) := by
  constructor <;> simp [CSt.init]
  · cases cfg.conn <;> rfl
  · cases cfg.conn <;> rfl

theorem nc_sub (cfg : CCfg) {s : CSt} (h : NC cfg s) : NC cfg (step cfg s .sub) := by
  show NC cfg (subjSubscribe cfg.conn s.subject s.nsubs (newSub s))
  rw [h.subject]
  have hR : subjReplay cfg.conn 0 s.nsubs (newSub s) = newSub s := by
    cases cfg.conn <;> simp [subjReplay, newSub, h.buf]
  have e : subjSubscribe cfg.conn 0 s.nsubs (newSub s) = subjRegister 0 s.nsubs (subjLast cfg.conn 0 s.nsubs (newSub s)) := by
    unfold subjSubscribe
    rw [hR]
    have : ((newSub s).subjects 0).status = Status.open := h.isOpen
    rw [this]
  rw [e]
  have hlast := h.last
  have hjoined : Spec.joined cfg.conn (Subj.new cfg.conn) =
      (match cfg.conn with | .behavior _ => [Ev.next (Subj.new cfg.conn).last] | _ => []) := by
    cases cfg.conn <;> simp [Spec.joined, Subj.new]
  constructor
  · cases cfg.conn <;> simp [subjRegister, subjLast, dNext, newSub, h.nlinks]
  · cases cfg.conn <;> simp [subjRegister, subjLast, dNext, newSub, h.lastRet]
  · cases cfg.conn <;> simp [subjRegister, subjLast, dNext, newSub, h.subject]
  · cases cfg.conn <;> simp [subjRegister, subjLast, dNext, newSub, h.isOpen]
  · cases hc : cfg.conn <;> simp [subjRegister, subjLast, dNext, newSub] <;> (rw [hc] at hlast; exact hlast)
  · cases cfg.conn <;> simp [subjRegister, subjLast, dNext, newSub, h.buf]
  · intro i hi
    by_cases hin : i = s.nsubs
    · subst hin
      rw [hjoined]
      cases hc : cfg.conn <;> simp [subjRegister, subjLast, dNext, newSub]
      rw [hc] at hlast; rw [hlast]
    · have hlt : i < s.nsubs := by
        have : (subjRegister 0 s.nsubs (subjLast cfg.conn 0 s.nsubs (newSub s))).nsubs = s.nsubs + 1 := by
          cases cfg.conn <;> simp [subjRegister, subjLast, dNext, newSub]
        rw [this] at hi; omega
      have : ((subjRegister 0 s.nsubs (subjLast cfg.conn 0 s.nsubs (newSub s))).subs i) = s.subs i := by
        cases cfg.conn <;> simp [subjRegister, subjLast, dNext, newSub, hin]
      rw [this]
      exact h.traces i hlt

theorem nc_unsub (cfg : CCfg) {s : CSt} (h : NC cfg s) (i : Nat) : NC cfg (step cfg s (.unsub i)) := by
  simp only [step]
  split
  · have hlk := dUnsubscribe_lk i s
    have hsubj : ∀ j, ((dUnsubscribe i s).subjects j).status = (s.subjects j).status ∧
        ((dUnsubscribe i s).subjects j).last = (s.subjects j).last ∧ ((dUnsubscribe i s).subjects j).buf = (s.subjects j).buf := by
      intro j
      unfold dUnsubscribe dSubnUnsub runDel
      split
      · split
        · exact ⟨rfl, rfl, rfl⟩
        · split <;> simp <;> split <;> simp_all
      · exact ⟨rfl, rfl, rfl⟩
    have htr : ∀ k, ((dUnsubscribe i s).subs k).trace = (s.subs k).trace ∧ (dUnsubscribe i s).nsubs = s.nsubs := by
      intro k
      unfold dUnsubscribe dSubnUnsub runDel
      split
      · split
        · simp; split <;> simp_all
        · split <;> simp <;> split <;> simp_all
      · exact ⟨rfl, rfl⟩
    constructor
    · rw [hlk.nlinks]; exact h.nlinks
    · rw [hlk.lastRet]; exact h.lastRet
    · rw [hlk.subject]; exact h.subject
    · rw [(hsubj 0).1]; exact h.isOpen
    · rw [(hsubj 0).2.1]; exact h.last
    · rw [(hsubj 0).2.2]; exact h.buf
    · intro k hk
      rw [(htr k).1]
      exact h.traces k (by rw [(htr k).2] at hk; exact hk)
  · exact h

theorem nc_src (cfg : CCfg) {s : CSt} (h : NC cfg s) (x : Ev) : step cfg s (.src x) = s := by
  show push cfg x s = s
  unfold push
  rw [h.nlinks]
  rfl

theorem nc_disconnect (cfg : CCfg) {s : CSt} (h : NC cfg s) : step cfg s .disconnect = s := by
  simp [step, h.lastRet]

def CEvent.isConnect : CEvent → Bool
  | .connect => true
  | _ => false

/-- **nothing flows before Connect**: as long as no Connect has happened the source has never been
    subscribed, and each subscriber has received exactly what a brand-new connector hands out by
    itself (nothing; for a behavior connector its initial value) — whatever the source was asked to push -/
theorem nothing_before_connect (cfg : CCfg) (evs : List CEvent) (h : ∀ e, e ∈ evs → e.isConnect = false) :
    (run cfg evs).total = 0 ∧ (run cfg evs).live = 0 ∧
    ∀ i, i < (run cfg evs).nsubs → ((run cfg evs).subs i).trace = Spec.joined cfg.conn (Subj.new cfg.conn) := by
  suffices hnc : NC cfg (run cfg evs) by
    refine ⟨hnc.nlinks, ?_, hnc.traces⟩
    unfold CSt.live; rw [hnc.nlinks]; rfl
  unfold run
  suffices hgen : ∀ s, NC cfg s → NC cfg (evs.foldl (step cfg) s) from hgen _ (NC.init cfg)
  induction evs with
  | nil => intro s hs; exact hs
  | cons e es ih =>
    intro s hs
    rw [List.foldl_cons]
    apply ih (fun e' he' => h e' (List.mem_cons_of_mem _ he'))
    have he := h e List.mem_cons_self
    cases e with
    | sub => exact nc_sub cfg hs
    | unsub i => exact nc_unsub cfg hs i
    | src x => rw [nc_src cfg hs x]; exact hs
    | connect => simp [CEvent.isConnect] at he
    | disconnect => rw [nc_disconnect cfg hs]; exact hs

end Ro.Connectable

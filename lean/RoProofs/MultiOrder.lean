/-
  RoProofs.MultiOrder — facts about arrival orders and about the merge definition:
   * every interleaving keeps each source's own order, without loss or duplication
     (`eventsFrom_ofSource_prefix`);
   * the per-source gate commutes with projecting on one source (`ofSource_gateEventsFrom`);
   * `Spec.merge` read as the property states it: values in arrival order, nothing lost or duplicated
     while no error has arrived (`merge_append`, `merge_all_values`), the first error ends the output at
     once (`merge_error`), completion exactly at the last source's completion (`merge_complete`).
-/
import RoProofs.MultiCore
namespace Ro.Multi
open Ro

variable {α : Type}

theorem nextEvent_some (cfg : Sources α) (pos : Nat → Nat) (j : Nat) (e : MEvent α)
    (h : nextEvent cfg pos j = some e) : e.1 = j ∧ (cfg.script j)[pos j]? = some e.2 := by
  unfold nextEvent at h
  split at h
  · simp at h
  · rename_i n hn
    split at h
    · simp at h
    · simp at h; subst h; exact ⟨rfl, hn⟩

/-- every interleaving delivers, for each source, a prefix of that source's script from the current
    position on: the source's own order is kept, nothing is duplicated, nothing is skipped -/
theorem eventsFrom_ofSource_prefix (cfg : Sources α) (k : Nat) (order : List Nat) (pos : Nat → Nat) :
    Spec.ofSource k (eventsFrom cfg pos order) <+: (cfg.script k).drop (pos k) := by
  induction order generalizing pos with
  | nil => simp [eventsFrom, Spec.ofSource]
  | cons j ks ih =>
    unfold eventsFrom
    cases hne : nextEvent cfg pos j with
    | none => exact ih pos
    | some e =>
      obtain ⟨h1, h2⟩ := nextEvent_some cfg pos j e hne
      simp only
      by_cases hjk : j = k
      · subst hjk
        have hd : (cfg.script j).drop (pos j) = e.2 :: (cfg.script j).drop (pos j + 1) := by
          have hlt : pos j < (cfg.script j).length := by
            rcases List.getElem?_eq_some_iff.1 h2 with ⟨hlt, _⟩; exact hlt
          rw [List.drop_eq_getElem_cons hlt]
          congr 1
          rcases List.getElem?_eq_some_iff.1 h2 with ⟨_, hv⟩; exact hv
        have := ih (setAt pos j (pos j + 1))
        simp only [setAt_same] at this
        rw [hd]
        have he : Spec.ofSource j (e :: eventsFrom cfg (setAt pos j (pos j + 1)) ks) =
            e.2 :: Spec.ofSource j (eventsFrom cfg (setAt pos j (pos j + 1)) ks) := by
          simp [Spec.ofSource, h1]
        rw [he]
        exact List.prefix_cons_inj e.2 |>.2 this
      · have := ih (setAt pos j (pos j + 1))
        rw [setAt_other _ _ (fun h => hjk h.symm)] at this
        have he : Spec.ofSource k (e :: eventsFrom cfg (setAt pos j (pos j + 1)) ks) =
            Spec.ofSource k (eventsFrom cfg (setAt pos j (pos j + 1)) ks) := by
          have : (e.1 == k) = false := by simp [h1, hjk]
          simp [Spec.ofSource, this]
        rw [he]; exact this

theorem eventsOf_ofSource_prefix (cfg : Sources α) (k : Nat) (order : List Nat) :
    Spec.ofSource k (eventsOf cfg order) <+: cfg.script k := by
  simpa [eventsOf] using eventsFrom_ofSource_prefix cfg k order (fun _ => 0)

/-- projecting the gated arrival order on one source = that source's notifications up to its terminal -/
theorem ofSource_gateEventsFrom (k : Nat) (evs : List (MEvent α)) (cl : Nat → Bool) :
    Spec.ofSource k (Spec.gateEventsFrom cl evs) = if cl k then [] else gate (Spec.ofSource k evs) := by
  induction evs generalizing cl with
  | nil => simp [Spec.gateEventsFrom, Spec.ofSource]
  | cons e es ih =>
    unfold Spec.gateEventsFrom
    by_cases hek : e.1 = k
    · by_cases hc : cl e.1 = true
      · simp only [hc, if_true]; rw [ih]; simp [← hek, hc]
      · have hc' : cl e.1 = false := by simpa using hc
        simp only [hc', Bool.false_eq_true, if_false]
        have h1 : ∀ l, Spec.ofSource k (e :: l) = e.2 :: Spec.ofSource k l := by
          intro l; simp [Spec.ofSource, hek]
        rw [h1, h1, ih, ← hek, hc']
        by_cases ht : e.2.isTerminal = true
        · simp [ht, gate]
        · have ht' : e.2.isTerminal = false := by simpa using ht
          simp [ht', gate, hc']
    · have hne : (e.1 == k) = false := by simpa using hek
      have h1 : ∀ l, Spec.ofSource k (e :: l) = Spec.ofSource k l := by
        intro l; simp [Spec.ofSource, hne]
      by_cases hc : cl e.1 = true
      · simp only [hc, if_true]; rw [ih, h1]
      · have hc' : cl e.1 = false := by simpa using hc
        simp only [hc', Bool.false_eq_true, if_false]
        rw [h1, h1, ih]
        split
        · rw [setAt_other _ _ (fun h => hek h.symm)]
        · rfl

theorem gate_prefix (l : List (Notif α)) : gate l <+: l := by
  induction l with
  | nil => simp
  | cons x xs ih =>
    unfold gate
    split
    · exact ⟨xs, rfl⟩
    · exact (List.prefix_cons_inj x).2 ih

/-- what source `k` contributes to the gated arrival order of an interleaving is a prefix of its script -/
theorem ofSource_gateEvents_prefix (cfg : Sources α) (k : Nat) (order : List Nat) (p : Nat → Bool) (hp : p k = true) :
    Spec.ofSource k (Spec.gateEvents (Spec.restrict p (eventsOf cfg order))) <+: cfg.script k := by
  unfold Spec.gateEvents
  rw [ofSource_gateEventsFrom]
  simp only [Bool.false_eq_true, if_false]
  have hr : Spec.ofSource k (Spec.restrict p (eventsOf cfg order)) = Spec.ofSource k (eventsOf cfg order) := by
    unfold Spec.ofSource Spec.restrict
    rw [List.filter_filter]
    congr 1
    apply List.filter_congr
    intro e _
    by_cases h : e.1 = k
    · simp [h, hp]
    · simp [h]
  rw [hr]
  exact (gate_prefix _).trans (eventsOf_ofSource_prefix cfg k order)

/-! ### the merge definition, read clause by clause -/

/-- the values of an arrival order, as the notifications a merge forwards -/
def valNotifs (g : List (MEvent α)) : List (Notif α) :=
  g.filterMap (fun e => match e.2 with | .next c v => some (.next c v) | _ => none)

def noError (g : List (MEvent α)) : Bool := g.all (fun e => match e.2 with | .error _ _ => false | _ => true)
def completes (g : List (MEvent α)) : Nat := (g.filter (fun e => match e.2 with | .complete _ => true | _ => false)).length

/-- while no error has arrived and fewer than `live` sources have completed, every value is forwarded, in
    arrival order, exactly once -/
theorem merge_append (sub : Ctx) (p q : List (MEvent α)) (live : Nat) (hne : noError p = true) (hc : completes p < live) :
    Spec.merge sub live (p ++ q) = valNotifs p ++ Spec.merge sub (live - completes p) q := by
  induction p generalizing live with
  | nil => simp [valNotifs, completes]
  | cons e es ih =>
    obtain ⟨k, x⟩ := e
    cases live with
    | zero => omega
    | succ l =>
      simp only [noError, List.all_cons, Bool.and_eq_true] at hne
      have hne' : noError es = true := by simpa [noError] using hne.2
      cases x with
      | next c v =>
        have hc' : completes es < l + 1 := by simpa [completes] using hc
        have := ih (l + 1) hne' hc'
        simp [Spec.merge, valNotifs, completes] at this ⊢
        exact this
      | error c e => simp at hne
      | complete c =>
        have hc' : completes es < l := by simp [completes] at hc ⊢; omega
        have := ih l hne' hc'
        simp only [List.cons_append, Spec.merge, this]
        simp [valNotifs, completes]

/-- nothing lost: no error, not all completed ⇒ the output is all the values, still open -/
theorem merge_all_values (sub : Ctx) (g : List (MEvent α)) (live : Nat) (hne : noError g = true) (hc : completes g < live) :
    Spec.merge sub live g = valNotifs g := by
  have := merge_append sub g [] live hne hc
  simp only [List.append_nil] at this
  rw [this]
  have : live - completes g = (live - completes g - 1) + 1 := by omega
  rw [this]; simp [Spec.merge]

/-- the first error ends the output at once -/
theorem merge_error (sub : Ctx) (p q : List (MEvent α)) (live k : Nat) (c : Ctx) (e : Err)
    (hne : noError p = true) (hc : completes p < live) :
    Spec.merge sub live (p ++ (k, .error c e) :: q) = valNotifs p ++ [.error c e] := by
  rw [merge_append sub p _ live hne hc]
  have : live - completes p = (live - completes p - 1) + 1 := by omega
  rw [this]; simp [Spec.merge]

/-- completion exactly when the last of the `live` sources completes, with the subscriber's context -/
theorem merge_complete (sub : Ctx) (p q : List (MEvent α)) (live k : Nat) (c : Ctx)
    (hne : noError p = true) (hc : completes p + 1 = live) :
    Spec.merge sub live (p ++ (k, .complete c) :: q) = valNotifs p ++ [.complete sub] := by
  rw [merge_append sub p _ live hne (by omega)]
  have : live - completes p = 0 + 1 := by omega
  rw [this]; simp [Spec.merge]

end Ro.Multi

/-
  RoProofs.CtxFlow — C09 at the level of machines: a machine that only ever emits contexts derived
  from the subscription context (directly, through the context of the notification it reacts to,
  through a user callback that returns a derived context, or through contexts it stored next to
  values) delivers only such contexts, never a nil one — for every raw script and source mode.
-/
import RoProofs.Gate
namespace Ro
variable {σ α β : Type}

theorem Ctx.derivedFrom_refl (c : Ctx) (h : c.isNil = false) : c.derivedFrom c := ⟨h, fun _ hm => hm⟩

theorem Ctx.derivedFrom_trans {a b c : Ctx} (h1 : a.derivedFrom b) (h2 : b.derivedFrom c) : a.derivedFrom c :=
  ⟨h1.1, fun m hm => h1.2 m (h2.2 m hm)⟩

theorem Ctx.derivedFrom_tag (c : Ctx) (m : Nat) (h : c.isNil = false) : (c.tag m).derivedFrom c :=
  ⟨h, fun x hx => by simp [Ctx.tag, hx]⟩

/-- every notification of the list carries a context derived from `sub` -/
def AllFrom (sub : Ctx) (l : List (Notif β)) : Prop := ∀ n ∈ l, n.ctx.derivedFrom sub

theorem AllFrom.nil (sub : Ctx) : AllFrom sub ([] : List (Notif β)) := fun _ h => by cases h
theorem AllFrom.append {sub : Ctx} {a b : List (Notif β)} (ha : AllFrom sub a) (hb : AllFrom sub b) :
    AllFrom sub (a ++ b) := fun n hn => by
  rcases List.mem_append.mp hn with h | h
  · exact ha n h
  · exact hb n h

/-- A per-machine certificate: an invariant on the state ("every stored context is derived from
    the subscription context") preserved by every reaction, each reaction emitting only derived
    contexts provided the context it is called with is derived. -/
structure CtxSafe (m : Machine σ α β) (sub : Ctx) where
  Inv : σ → Prop
  init : Inv m.init
  onSub : ∀ s, Inv s → Inv (m.onSubscribe s sub).1 ∧ AllFrom sub (m.onSubscribe s sub).2
  onNext : ∀ s c v, Inv s → c.derivedFrom sub → Inv (m.onNext s c v).1 ∧ AllFrom sub (m.onNext s c v).2
  onError : ∀ s c e, Inv s → c.derivedFrom sub → Inv (m.onError s c e).1 ∧ AllFrom sub (m.onError s c e).2
  onComplete : ∀ s c, Inv s → c.derivedFrom sub → Inv (m.onComplete s c).1 ∧ AllFrom sub (m.onComplete s c).2

theorem CtxSafe.emits {m : Machine σ α β} {sub : Ctx} (cs : CtxSafe m sub) (s : σ) (hs : cs.Inv s)
    (xs : List (Notif α)) (hx : ∀ x ∈ xs, x.ctx.derivedFrom sub) : AllFrom sub (m.emits s xs) := by
  induction xs generalizing s with
  | nil => exact AllFrom.nil sub
  | cons x xs ih =>
    have hxc := hx x (List.mem_cons_self ..)
    have hrest : ∀ y ∈ xs, y.ctx.derivedFrom sub := fun y hy => hx y (List.mem_cons_of_mem _ hy)
    have hstep : cs.Inv (m.step s x).1 ∧ AllFrom sub (m.step s x).2 := by
      cases x with
      | next c v => exact cs.onNext s c v hs hxc
      | error c e => exact cs.onError s c e hs hxc
      | complete c => exact cs.onComplete s c hs hxc
    simp only [Machine.emits]
    exact AllFrom.append hstep.2 (ih _ hstep.1 hrest)

theorem mem_gate {l : List (Notif β)} {n : Notif β} (h : n ∈ gate l) : n ∈ l := by
  induction l with
  | nil => cases h
  | cons x xs ih =>
    simp only [gate] at h
    split at h
    · simp only [List.mem_singleton] at h; subst h; exact List.mem_cons_self ..
    · rcases List.mem_cons.mp h with h | h
      · subst h; exact List.mem_cons_self ..
      · exact List.mem_cons_of_mem _ (ih h)

/-- **C09 for a certified machine**: if the source honours the contract for contexts (each of its
    notifications carries a context derived from the subscription context), then every
    notification the final observer receives does too — in particular none is nil. -/
theorem CtxSafe.run {m : Machine σ α β} {sub : Ctx} (cs : CtxSafe m sub) (mode : SrcMode)
    (raw : List (Notif α)) (hraw : ∀ x ∈ raw, x.ctx.derivedFrom sub) :
    AllFrom sub (runOp m mode sub raw).out := by
  intro n hn
  have h0 := cs.onSub m.init cs.init
  cases hs : m.subscribes
  · rw [runOp_out_nosub m mode sub raw hs] at hn
    exact h0.2 n (mem_gate hn)
  · rw [runOp_out m mode sub raw hs] at hn
    have hg : ∀ x ∈ gate raw, x.ctx.derivedFrom sub := fun x hx => hraw x (mem_gate hx)
    exact AllFrom.append h0.2 (cs.emits _ h0.1 _ hg) n (mem_gate hn)

theorem AllFrom.notNil {sub : Ctx} {l : List (Notif β)} (h : AllFrom sub l) : ∀ n ∈ l, n.ctx.isNil = false :=
  fun n hn => (h n hn).1

end Ro

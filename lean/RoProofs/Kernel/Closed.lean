/-
  RoProofs.Kernel.Closed — C06 for the expected programs: `status` is monotone; once a closing call
  (Unsubscribe, Error, Complete) has returned, `status ≠ 0`; from then on a thread that is not
  already past its status test never reaches callback-begin, and IsClosed answers true.
-/
import RoProofs.Kernel.Grammar
namespace Ro.Kernel

def Ev.tid : Ev → Tid
  | .call t _ | .ret t _ _ | .cbBegin t _ _ | .cbEnd t _ _ | .drop t _ _ | .finRun t _ | .appended t _ | .raised t _ => t

def Ev.isCall : Ev → Bool
  | .call _ _ => true
  | _ => false

def Ev.isRet : Ev → Bool
  | .ret _ _ _ => true
  | _ => false

theorem Ev.closingRet_of_not_ret {e : Ev} (h : e.isRet = false) : (match e with | .ret _ c _ => c.closes | _ => false) = false := by
  cases e <;> simp [Ev.isRet] at h ⊢

def Ev.closingRet : Ev → Bool
  | .ret _ c _ => c.closes
  | _ => false

/-- a closing call has returned -/
def closedLog (log : List Ev) : Bool := log.any Ev.closingRet

/-- the log grows by at most one event, of the stepping thread; `cur` changes only when the call returns -/
theorem eff_log {sh sh' : Shared} {t : Tid} {th th0 : Thread} {hd : Head} {b : Bool}
    (h : Eff sh t th hd b sh' th0) :
    (sh'.log = sh.log ∧ th0.cur = th.cur) ∨
    (∃ e, sh'.log = sh.log ++ [e] ∧ e.tid = t ∧ th0.cur = th.cur ∧ (e.isRet = false ∧ e.isCall = false) ∧
        (e.isBegin = true → ∃ k, hd = .stmt (.callDest k) ∧ th.ctl.inside = false)) ∨
    (∃ c, hd = .finish ∧ th.cur = some c ∧ th0.cur = none ∧
        sh'.log = sh.log ++ [.ret t c (if th.ctl.panicking then .panicked else th.result)] ∧ sh'.status = sh.status) := by
  cases h
  case finishCall c hc => exact Or.inr (Or.inr ⟨c, rfl, hc, rfl, rfl, rfl⟩)
  case cbBegin k hi => exact Or.inr (Or.inl ⟨_, rfl, rfl, rfl, ⟨rfl, rfl⟩, fun _ => ⟨k, rfl, hi⟩⟩)
  case cbEnd k hi => exact Or.inr (Or.inl ⟨_, rfl, rfl, rfl, ⟨rfl, rfl⟩, fun h => by simp [Ev.isBegin] at h⟩)
  case drop k => exact Or.inr (Or.inl ⟨_, rfl, rfl, rfl, ⟨rfl, rfl⟩, fun h => by simp [Ev.isBegin] at h⟩)
  case runTakenCons g gs ht => exact Or.inr (Or.inl ⟨_, rfl, rfl, rfl, ⟨rfl, rfl⟩, fun h => by simp [Ev.isBegin] at h⟩)
  case raiseCons p ps hp => exact Or.inr (Or.inl ⟨_, rfl, rfl, rfl, ⟨rfl, rfl⟩, fun h => by simp [Ev.isBegin] at h⟩)
  case append => exact Or.inr (Or.inl ⟨_, rfl, rfl, rfl, ⟨rfl, rfl⟩, fun h => by simp [Ev.isBegin] at h⟩)
  case runNow => exact Or.inr (Or.inl ⟨_, rfl, rfl, rfl, ⟨rfl, rfl⟩, fun h => by simp [Ev.isBegin] at h⟩)
  all_goals left
  all_goals first
    | exact ⟨rfl, rfl⟩
    | (split <;> (try exact ⟨rfl, rfl⟩) <;> (rename_i l _; cases l <;> exact ⟨rfl, rfl⟩))
    | (rename_i l; cases l <;> exact ⟨rfl, rfl⟩)
    | (rename_i l _ _; cases l <;> exact ⟨rfl, rfl⟩)
    | (rename_i l _ _ _ _; cases l <;> exact ⟨rfl, rfl⟩)

/-- `status` never leaves a non-zero value -/
theorem status_mono {s s' : St} {t : Tid} (hl : LockInv s) (h : step P s t = some s') (hs : s.sh.status ≠ 0) :
    s'.sh.status = s.sh.status := by
  obtain ⟨th, sh', th', hth, hst, rfl⟩ := step_some h
  rcases stepT_cases hst with ⟨_, c, cs, _, rfl, rfl⟩ | ⟨_, b, th0, he, rfl⟩
  · rfl
  · have hE := effect_inv he
    rcases eff_status hE with hst | ⟨a, v, x, y, hk, hsa, hsv, _, _⟩
    · exact hst
    · have hlc := local_of_all lfCas_all (hl.inReach t th hth)
      unfold lfCas at hlc
      rw [hk] at hlc
      simp only [beq_self_eq_true, Bool.true_and, Bool.and_eq_true, beq_iff_eq, bne_iff_ne] at hlc
      exact absurd (hsa.trans hlc.1) hs

structure ClosedInv (s : St) : Prop where
  idle : ∀ (t : Tid) (th : Thread), s.threads[t]? = some th → th.cur = none → th.ctl = Ctl.idle
  busy : ∀ (t : Tid) (th : Thread) (c : ApiCall), s.threads[t]? = some th → th.cur = some c → th.ctl ∈ reachM c.entry
  past : ∀ (t : Tid) (th : Thread) (c : ApiCall), s.threads[t]? = some th → th.cur = some c → c.closes = true →
            th.ctl.beforeCas = false → s.sh.status ≠ 0
  closed : closedLog s.sh.log = true → s.sh.status ≠ 0

theorem ClosedInv.init (mode : Mode) (destNil : Bool) (panicky : List FinId) (scripts : List (List ApiCall)) :
    ClosedInv (init mode destNil panicky scripts) := by
  constructor
  · intro t th h _
    simp [Ro.Kernel.init] at h
    obtain ⟨sc, _, rfl⟩ := h
    rfl
  · intro t th c h hc
    simp [Ro.Kernel.init] at h
    obtain ⟨sc, _, rfl⟩ := h
    simp at hc
  · intro t th c h hc
    simp [Ro.Kernel.init] at h
    obtain ⟨sc, _, rfl⟩ := h
    simp at hc
  · simp [Ro.Kernel.init, closedLog]

theorem closedLog_append (l : List Ev) (e : Ev) : closedLog (l ++ [e]) = (closedLog l || e.closingRet) := by
  simp [closedLog]

theorem ClosedInv.step {s s' : St} {t : Tid} (hl : LockInv s) (hi : ClosedInv s) (h : step P s t = some s') :
    ClosedInv s' := by
  have hmono := fun hs => status_mono hl h hs
  obtain ⟨th, sh', th', hth, hst, rfl⟩ := step_some h
  have hr := hl.inReach t th hth
  rcases stepT_cases hst with ⟨hidle, c, cs, hsc, rfl, rfl⟩ | ⟨hne, b, th0, he, rfl⟩
  · constructor
    · intro u thu hu hc
      rcases threads_after hth hu with ⟨rfl, rfl⟩ | ⟨_, hu'⟩
      · simp at hc
      · exact hi.idle u thu hu' hc
    · intro u thu c' hu hc
      rcases threads_after hth hu with ⟨rfl, rfl⟩ | ⟨_, hu'⟩
      · simp only [Option.some.injEq] at hc
        subst hc
        exact reachM_entry c
      · exact hi.busy u thu c' hu' hc
    · intro u thu c' hu hc hcl hb
      rcases threads_after hth hu with ⟨rfl, rfl⟩ | ⟨_, hu'⟩
      · simp only [Option.some.injEq] at hc
        subst hc
        rw [show ({ th with ctl := Ctl.entry P c, cur := some c, script := cs } : Thread).ctl = Ctl.entry P c from rfl,
          entry_beforeCas c hcl] at hb
        simp at hb
      · exact hi.past u thu c' hu' hc hcl hb
    · intro hc
      rw [show (s.sh.emit (.call t c)).log = s.sh.log ++ [.call t c] from rfl, closedLog_append] at hc
      simp only [Ev.closingRet, Bool.or_false] at hc
      exact hi.closed hc
  · have hE := effect_inv he
    have hc0 := effect_ctl he
    have hctl : ({ th0 with ctl := nextCtl P th.ctl b } : Thread).ctl = nextCtl P th.ctl b := rfl
    have hcur' : ({ th0 with ctl := nextCtl P th.ctl b } : Thread).cur = th0.cur := rfl
    have hstack : th.ctl ≠ Ctl.idle := by
      intro hh; rw [hh] at hne; exact hne rfl
    have hlog := eff_log hE
    -- the current call of t before the step
    obtain ⟨c, hcur⟩ : ∃ c, th.cur = some c := by
      cases hc : th.cur with
      | none => exact absurd (hi.idle t th hth hc) hstack
      | some c => exact ⟨c, rfl⟩
    have hrm := hi.busy t th c hth hcur
    have hrm' : nextCtl P th.ctl b ∈ reachM c.entry := reachM_next (entry_meth_mem c) hrm b
    have hcur0 : th0.cur = th.cur ∨ (th.ctl.head = .finish ∧ th0.cur = none) := by
      rcases hlog with ⟨_, h1⟩ | ⟨e, _, _, h1, _⟩ | ⟨c', h1, _, h2, _⟩
      · exact Or.inl h1
      · exact Or.inl h1
      · exact Or.inr ⟨h1, h2⟩
    have hstat : s.sh.status ≠ 0 → sh'.status ≠ 0 := fun hs => by rw [hmono hs]; exact hs
    constructor
    · intro u thu hu hc
      rcases threads_after hth hu with ⟨rfl, rfl⟩ | ⟨_, hu'⟩
      · rcases hcur0 with h1 | ⟨hf, _⟩
        · rw [hcur', h1, hcur] at hc; simp at hc
        · have := local_of_all (lfFinish_all b) hr
          simp only [lfFinish, hf, Head.isFinish, Bool.not_true, Bool.false_or] at this
          rw [hctl]; exact Ctl.beq_eq this
      · exact hi.idle u thu hu' hc
    · intro u thu c' hu hc
      rcases threads_after hth hu with ⟨rfl, rfl⟩ | ⟨_, hu'⟩
      · rcases hcur0 with h1 | ⟨_, h2⟩
        · rw [hcur', h1, hcur] at hc
          simp only [Option.some.injEq] at hc
          subst hc
          exact hrm'
        · rw [hcur', h2] at hc; simp at hc
      · exact hi.busy u thu c' hu' hc
    · intro u thu c' hu hc hcl hb
      rcases threads_after hth hu with ⟨rfl, rfl⟩ | ⟨_, hu'⟩
      · rcases hcur0 with h1 | ⟨_, h2⟩
        · rw [hcur', h1, hcur] at hc
          simp only [Option.some.injEq] at hc
          subst hc
          rw [hctl] at hb
          cases hbc : th.ctl.beforeCas with
          | false => exact hstat (hi.past u th c hth hcur hcl hbc)
          | true =>
            have hlb := local_of_all (lfBeforeCas_all b) hr
            simp only [lfBeforeCas, hbc, hb, Bool.not_false, Bool.and_self, Bool.not_true, Bool.false_or,
              Bool.and_eq_true] at hlb
            have hlc := local_of_all lfCas_all hr
            unfold lfCas at hlc
            obtain ⟨hlb, _⟩ := hlb
            split at hlb
            · rename_i st hh
              rw [hh] at hE hlc
              cases st <;> simp [Stmt.isStatusCas] at hlb
              rename_i fl a v x y
              simp only [Bool.and_eq_true, beq_iff_eq, bne_iff_ne] at hlc
              obtain ⟨⟨rfl, rfl⟩, hv⟩ := hlc
              cases hE
              · exact hv
              · rename_i hsa; exact hsa
            · simp at hlb
        · rw [hcur', h2] at hc; simp at hc
      · exact hstat (hi.past u thu c' hu' hc hcl hb)
    · intro hc
      rcases hlog with ⟨h1, _⟩ | ⟨e, h1, _, _, h2, _⟩ | ⟨c', hf, hc', _, h1, h2⟩
      · rw [h1] at hc; exact hstat (hi.closed hc)
      · have h2' : e.closingRet = false := by have h2 := h2.1; cases e <;> simp [Ev.isRet] at h2 <;> rfl
        rw [h1, closedLog_append, h2', Bool.or_false] at hc; exact hstat (hi.closed hc)
      · rw [h1, closedLog_append] at hc
        rw [h2]
        cases hcl : closedLog s.sh.log with
        | true => exact hi.closed hcl
        | false =>
          simp only [hcl, Bool.false_or, Ev.closingRet] at hc
          have hlb := local_of_all (lfBeforeCas_all b) hr
          simp only [lfBeforeCas, hf, Head.isFinish, Bool.not_true, Bool.false_or, Bool.and_eq_true,
            Bool.not_eq_true'] at hlb
          exact hi.past t th c' hth hc' hc hlb.2


/-! ### after the close: a thread that has not yet passed its status test stays silent -/

theorem head_idle_stack {c : Ctl} (h : c.head = .idle) : c.stack = [] := by
  unfold Ctl.head at h
  split at h
  · assumption
  · split at h <;> (try split at h) <;> (try split at h) <;> simp at h

/-- `status` is non-zero, the thread is not armed, and an IsClosed call of the thread that is past
    its load has read `true` -/
structure After (sh : Shared) (th : Thread) : Prop where
  closed : sh.status ≠ 0
  quiet : th.ctl.armed = none
  isClosed : th.cur = some .isClosed → th.ctl.head = .stmt (.retLoad .status .ne 0) ∨ th.result = .bool true

/-- what the events of one step may be, for a thread that is `After` -/
def EvOk (u : Tid) (e : Ev) : Prop :=
  ¬(e.isBegin = true ∧ e.tid = u) ∧ (∀ r, e = .ret u .isClosed r → r = .bool true)

theorem after_self {s : St} {u : Tid} {th th' : Thread} {sh' : Shared} (hl : LockInv s) (hc : ClosedInv s)
    (hth : s.threads[u]? = some th) (ha : After s.sh th) (hst : stepT P s.sh u th = some (sh', th'))
    (hmono : sh'.status = s.sh.status) :
    After sh' th' ∧ ∃ evs, sh'.log = s.sh.log ++ evs ∧ ∀ e ∈ evs, EvOk u e := by
  have hr := hl.inReach u th hth
  have hstat : sh'.status ≠ 0 := by rw [hmono]; exact ha.closed
  rcases stepT_cases hst with ⟨hidle, c, cs, hsc, rfl, rfl⟩ | ⟨hne, b, th0, he, rfl⟩
  · refine ⟨⟨ha.closed, entry_armed c, ?_⟩, [.call u c], rfl, ?_⟩
    · intro hc'
      simp only [Option.some.injEq] at hc'
      subst hc'
      left; rfl
    · intro e he
      simp only [List.mem_singleton] at he
      subst he
      exact ⟨by simp [Ev.isBegin], by intro r hr; cases hr⟩
  · have hE := effect_inv he
    have hla := local_of_all (lfArm_all b) hr
    have hquiet : (nextCtl P th.ctl b).armed = none := by
      cases hn : (nextCtl P th.ctl b).armed with
      | none => rfl
      | some k =>
        exfalso
        unfold lfArm at hla
        simp only [hn, ha.quiet] at hla
        split at hla
        · rename_i x y hh
          rw [hh] at hE
          have := eff_loadEq hE
          simp only [Bool.and_eq_true] at hla
          rw [hla.1] at this
          simp [Shared.fld] at this
          exact ha.closed this
        · rename_i v x y hh
          rw [hh] at hE
          cases hE
          · rename_i hsa; exact ha.closed hsa
          · simp at hla
        · simp at hla
    -- facts about an IsClosed call of this thread
    have hic : th.cur = some .isClosed →
        th.ctl.panicking = false ∧
        ((th.ctl.head = .stmt (.retLoad .status .ne 0) ∧ th0.result = .bool true ∧ th0.cur = th.cur) ∨
         (th.ctl.head = .finish ∧ th.result = .bool true)) := by
      intro hcur
      have hli := localM (lfIsClosed_all b) (hc.busy u th _ hth hcur)
      unfold lfIsClosed at hli
      simp only [Bool.and_eq_true, Bool.not_eq_true'] at hli
      obtain ⟨hp, hli⟩ := hli
      refine ⟨hp, ?_⟩
      split at hli
      · rename_i hh
        left
        rw [hh] at hE
        cases hE
        exact ⟨hh, by simp [Cmp.eval, Shared.fld, ha.closed], rfl⟩
      · rename_i hh
        right
        rcases ha.isClosed hcur with h1 | h1
        · rw [hh] at h1; cases h1
        · exact ⟨hh, h1⟩
      · rename_i hh
        exact absurd (head_idle_stack hh) hne
      · simp at hli
    have hcur' : ({ th0 with ctl := nextCtl P th.ctl b } : Thread).cur = th0.cur := rfl
    rcases eff_log hE with ⟨h1, h2⟩ | ⟨e, h1, h2, h3, h4, h5⟩ | ⟨c', hf, hc', h2, h1, _⟩
    · refine ⟨⟨hstat, hquiet, ?_⟩, [], by simp [h1], by simp⟩
      intro hcur
      rw [hcur', h2] at hcur
      rcases (hic hcur).2 with ⟨_, hres, _⟩ | ⟨hf, _⟩
      · right; exact hres
      · rw [hf] at hE; cases hE <;> simp_all
    · refine ⟨⟨hstat, hquiet, ?_⟩, [e], h1, ?_⟩
      · intro hcur
        rw [hcur', h3] at hcur
        rcases (hic hcur).2 with ⟨_, hres, _⟩ | ⟨hf, _⟩
        · right; exact hres
        · rw [hf] at hE; cases hE <;> simp_all
      · intro e' he'
        simp only [List.mem_singleton] at he'
        subst he'
        refine ⟨?_, ?_⟩
        · rintro ⟨hb, _⟩
          obtain ⟨k, hk, hins⟩ := h5 hb
          have : th.ctl.armed = some k := by simp [Ctl.armed, hins, hk]
          rw [ha.quiet] at this; cases this
        · intro r hr; rw [hr] at h4; simp [Ev.isRet] at h4
    · refine ⟨⟨hstat, hquiet, ?_⟩, [_], h1, ?_⟩
      · intro hcur; rw [hcur', h2] at hcur; cases hcur
      · intro e' he'
        simp only [List.mem_singleton] at he'
        subst he'
        refine ⟨by simp [Ev.isBegin], ?_⟩
        intro r' hr'
        simp only [Ev.ret.injEq, true_and] at hr'
        obtain ⟨rfl, rfl⟩ := hr'
        obtain ⟨hp, hd⟩ := hic hc'
        rcases hd with ⟨hh, _⟩ | ⟨_, hres⟩
        · rw [hf] at hh; cases hh
        · simp [hp, hres]

theorem after_step {s s' : St} {t u : Tid} {thu : Thread} (hl : LockInv s) (hc : ClosedInv s)
    (h : step P s t = some s') (hu : s.threads[u]? = some thu) (ha : After s.sh thu) :
    ∃ thu', s'.threads[u]? = some thu' ∧ After s'.sh thu' ∧
      ∃ evs, s'.sh.log = s.sh.log ++ evs ∧ ∀ e ∈ evs, EvOk u e := by
  have hmono := status_mono hl h ha.closed
  obtain ⟨th, sh', th', hth, hst, rfl⟩ := step_some h
  by_cases hut : u = t
  · subst hut
    rw [hth] at hu
    obtain rfl := Option.some.inj hu
    obtain ⟨h1, h2⟩ := after_self hl hc hth ha hst hmono
    exact ⟨th', threads_set_self hth, h1, h2⟩
  · refine ⟨thu, by rw [threads_set_other hut]; exact hu, ⟨by rw [show sh'.status = s.sh.status from hmono]; exact ha.closed, ha.quiet, ha.isClosed⟩, ?_⟩
    -- the events of another thread carry its id
    rcases stepT_cases hst with ⟨_, c, cs, _, rfl, rfl⟩ | ⟨_, b, th0, he, rfl⟩
    · refine ⟨[.call t c], rfl, ?_⟩
      intro e he
      simp only [List.mem_singleton] at he
      subst he
      exact ⟨by simp [Ev.isBegin], by intro r hr; cases hr⟩
    · rcases eff_log (effect_inv he) with ⟨h1, _⟩ | ⟨e, h1, h2, _, _, _⟩ | ⟨c', _, _, _, h1, _⟩
      · exact ⟨[], by simp [h1], by simp⟩
      · refine ⟨[e], h1, ?_⟩
        intro e' he'
        simp only [List.mem_singleton] at he'
        subst he'
        refine ⟨fun ⟨_, h⟩ => hut (h.symm.trans h2), ?_⟩
        intro r hr; rw [hr] at h2; exact absurd h2 hut
      · refine ⟨[_], h1, ?_⟩
        intro e' he'
        simp only [List.mem_singleton] at he'
        subst he'
        refine ⟨by simp [Ev.isBegin], ?_⟩
        intro r hr
        simp only [Ev.ret.injEq] at hr
        exact absurd hr.1.symm hut

end Ro.Kernel

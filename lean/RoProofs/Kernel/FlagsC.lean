/-
  RoProofs.Kernel.FlagsC — decided control-flow facts for "the terminal callback has returned
  before `done` is set" and for deadlock-freedom.
-/
import RoProofs.Kernel.FlagsB
namespace Ro.Kernel

def Stmt.isUnlockMu : Stmt → Bool
  | .unlock .mu => true
  | _ => false

/-- a status CAS or the unlock of `mu` is still ahead (top level of some frame) -/
def Ctl.gateAhead (c : Ctl) : Bool := c.stack.any fun fr => fr.body.any fun s => s.isStatusCas || s.isUnlockMu

mutual
def mentionsUnsubS : Stmt → Bool
  | .callSelf .subUnsubInner | .callSelf .snUnsubscribe | .setDone => true
  | .tryLock _ a b | .ifLoadEq _ _ a b | .ifFld _ _ a b | .ifCas _ _ _ a b | .ifNil _ a b => mentionsUnsubL a || mentionsUnsubL b
  | _ => false
def mentionsUnsubL : List Stmt → Bool
  | [] => false
  | s :: r => mentionsUnsubS s || mentionsUnsubL r
end

/-- `setDone` is still ahead of this thread -/
def Ctl.unsubAhead (c : Ctl) : Bool := c.stack.any fun fr => mentionsUnsubL fr.body

/-- the thread is on its way to `setDone` with no status test and no `mu` critical section in between:
    an Unsubscribe that won its CAS, or an Error / Complete that has released `mu` -/
def Ctl.pastGate (c : Ctl) : Bool := !c.gateAhead && c.unsubAhead

/-- the kind of the callback that is running or about to begin in this thread -/
def Ctl.pendingKind (c : Ctl) : Option Kind :=
  if c.inside then (match c.head with | .stmt (.callDest k) => some k | _ => none) else c.armed

/-- a terminal callback is running or about to begin -/
def Ctl.termPending (c : Ctl) : Bool :=
  match c.pendingKind with
  | some k => k.isTerminal
  | none => false

def Head.isSetDone : Head → Bool
  | .stmt .setDone => true
  | _ => false

def Head.isStatusCas : Head → Bool
  | .stmt s => s.isStatusCas
  | _ => false

def Head.isUnlockMu : Head → Bool
  | .stmt s => s.isUnlockMu
  | _ => false

def lfGate (b : Bool) (c : Ctl) : Bool :=
  let c' := nextCtl P c b
  (!c.head.isSetDone || c.pastGate) &&
  (!(c'.pastGate && !c.pastGate) || (c.head.isStatusCas && b) || c.head.isUnlockMu) &&
  !(c.termPending && c.pastGate) &&
  (!(c'.termPending && !c.termPending) || (c.head.isStatusCas && b)) &&
  (!c.termPending || c.inside || c.armed.isSome) &&
  (!c.pastGate || !c.beforeCas) &&
  (!c.head.isUnlockMu || c.holds .mu)

theorem lfGate_all (b : Bool) : reach.all (lfGate b) = true := by cases b <;> decide +kernel

theorem entry_gate (c : ApiCall) : (Ctl.entry P c).pastGate = false ∧ (Ctl.entry P c).termPending = false := by
  have := entry_fact (Q := fun c => !c.pastGate && !c.termPending) (by decide) c
  simpa using this

/-- only Unsubscribe / Error / Complete calls are ever past the gate -/
theorem lfGateCalls : [Meth.subNext, .snAdd, .snWait, .subIsClosed].all (fun m => (reachM m).all (fun c => !c.pastGate)) = true := by
  decide +kernel

/-! ### deadlock-freedom -/

/-- the statements at which a thread can be disabled -/
def Head.blocking : Head → Bool
  | .stmt (.lock _) | .stmt .recv | .idle => true
  | _ => false

/-- statements on which the interpreter is stuck for ever; none is reachable -/
def Head.stuck : Head → Bool
  | .stmt (.userCb _) | .stmt (.unknown _) => true
  | .stmt (.ifCas f _ _ _ _) => f != .status
  | _ => false

/-- whoever holds a lock is at a statement that is always enabled; nothing reachable is stuck;
    a thread about to lock `l` does not hold `l` -/
def lfLive (c : Ctl) : Bool :=
  (!(c.holds .mu || c.holds .subMu) || !c.head.blocking) && !c.head.stuck &&
  (match c.head with | .stmt (.lock l) => !c.holds l | _ => true)

theorem lfLive_all : reach.all lfLive = true := by decide +kernel

end Ro.Kernel

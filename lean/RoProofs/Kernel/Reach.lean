/-
  RoProofs.Kernel.Reach — the control states a thread can be in when it runs the expected programs.

  A thread's control state (`Ctl`: stack of frames, inside / panicking flags) carries no data, so
  for the fixed table `Expected.progs` only finitely many are reachable. `reach` computes them by
  closing the entry states under `nextCtl` (both outcomes); `reach_closed` is decided by the
  kernel. Every fact about control flow that the invariants need ("whoever is about to call the
  destination holds `mu`", "after `setDone` comes the swap", …) is then one `decide` over `reach`
  (`Local.of_all`), instead of a hand-written type system.
-/
import RoModel.Kernel.Expected
import RoProofs.Kernel.Beq
namespace Ro.Kernel

def Frame.beq (a b : Frame) : Bool := Stmt.beqL a.body b.body && a.defers == b.defers

def framesBeq : List Frame → List Frame → Bool
  | [], [] => true
  | x :: xs, y :: ys => x.beq y && framesBeq xs ys
  | _, _ => false

def Ctl.beq (a b : Ctl) : Bool := framesBeq a.stack b.stack && a.inside == b.inside && a.panicking == b.panicking

theorem Frame.beq_eq {a b : Frame} (h : a.beq b = true) : a = b := by
  cases a; cases b
  simp [Frame.beq] at h
  simp [Stmt.beqL_eq _ _ h.1, h.2]

theorem framesBeq_eq : ∀ {a b : List Frame}, framesBeq a b = true → a = b
  | [], [], _ => rfl
  | x :: xs, y :: ys, h => by
      simp [framesBeq] at h
      rw [Frame.beq_eq h.1, framesBeq_eq h.2]
  | [], _ :: _, h => by simp [framesBeq] at h
  | _ :: _, [], h => by simp [framesBeq] at h

theorem Ctl.beq_eq {a b : Ctl} (h : a.beq b = true) : a = b := by
  cases a; cases b
  simp [Ctl.beq] at h
  simp [framesBeq_eq h.1.1, h.1.2, h.2]


abbrev P := Expected.progs

/-- the control state in which each kind of API call starts, and the idle state -/
def entries : List Ctl :=
  [Ctl.idle, Ctl.entry P (.next 0), Ctl.entry P (.error 0), Ctl.entry P .complete, Ctl.entry P .unsubscribe,
   Ctl.entry P (.add 0), Ctl.entry P (.wait 0), Ctl.entry P .isClosed]

def expand : Nat → List Ctl → List Ctl → List Ctl
  | 0, _, seen => seen
  | _, [], seen => seen
  | n + 1, c :: todo, seen =>
    if seen.any (Ctl.beq c) then expand n todo seen
    else expand n (nextCtl P c true :: nextCtl P c false :: todo) (c :: seen)

/-- every control state reachable from an entry state (both outcomes of every statement) -/
def reach : List Ctl := expand 2000 entries []

theorem reach_closed :
    reach.all (fun c => reach.any (Ctl.beq (nextCtl P c true)) && reach.any (Ctl.beq (nextCtl P c false))) = true := by
  decide +kernel

theorem reach_entries : entries.all (fun c => reach.any (Ctl.beq c)) = true := by decide +kernel


theorem mem_of_any_beq {c : Ctl} {l : List Ctl} (h : l.any (Ctl.beq c) = true) : c ∈ l := by
  rw [List.any_eq_true] at h
  obtain ⟨c', hm, hb⟩ := h
  rw [Ctl.beq_eq hb]
  exact hm

theorem reach_next {c : Ctl} (h : c ∈ reach) (b : Bool) : nextCtl P c b ∈ reach := by
  have := List.all_eq_true.mp reach_closed c h
  simp only [Bool.and_eq_true] at this
  cases b
  · exact mem_of_any_beq this.2
  · exact mem_of_any_beq this.1

theorem reach_idle : Ctl.idle ∈ reach := by
  have := List.all_eq_true.mp reach_entries Ctl.idle (by simp [entries])
  exact mem_of_any_beq this

theorem entry_mem (c : ApiCall) : Ctl.entry P c ∈ entries := by
  cases c <;> simp [entries, Ctl.entry, ApiCall.entry]

theorem reach_entry (c : ApiCall) : Ctl.entry P c ∈ reach :=
  mem_of_any_beq (List.all_eq_true.mp reach_entries _ (entry_mem c))

/-- a decided fact about the entry states holds of the entry state of every call -/
theorem entry_fact {Q : Ctl → Bool} (h : entries.all Q = true) (c : ApiCall) : Q (Ctl.entry P c) = true :=
  List.all_eq_true.mp h _ (entry_mem c)

/-! ### per call kind -/

/-- the control states of a thread while it executes a call entering at method `m` -/
def reachM (m : Meth) : List Ctl := expand 2000 [{ stack := [{ body := P m }] }] []

def entryMeths : List Meth := [.subNext, .subError, .subComplete, .subUnsubscribe, .snAdd, .snWait, .subIsClosed]

theorem entry_meth_mem (c : ApiCall) : c.entry ∈ entryMeths := by cases c <;> simp [entryMeths, ApiCall.entry]

theorem reachM_closed : entryMeths.all (fun m => (reachM m).all (fun c =>
    (reachM m).any (Ctl.beq (nextCtl P c true)) && (reachM m).any (Ctl.beq (nextCtl P c false)))) = true := by
  decide +kernel

theorem reachM_entries : entryMeths.all (fun m => (reachM m).any (Ctl.beq { stack := [{ body := P m }] })) = true := by
  decide +kernel

theorem reachM_sub : entryMeths.all (fun m => (reachM m).all (fun c => reach.any (Ctl.beq c))) = true := by
  decide +kernel

theorem reachM_next {m : Meth} (hm : m ∈ entryMeths) {c : Ctl} (h : c ∈ reachM m) (b : Bool) :
    nextCtl P c b ∈ reachM m := by
  have := List.all_eq_true.mp (List.all_eq_true.mp reachM_closed m hm) c h
  simp only [Bool.and_eq_true] at this
  cases b
  · exact mem_of_any_beq this.2
  · exact mem_of_any_beq this.1

theorem reachM_entry (c : ApiCall) : Ctl.entry P c ∈ reachM c.entry :=
  mem_of_any_beq (List.all_eq_true.mp reachM_entries _ (entry_meth_mem c))

theorem reachM_reach {m : Meth} (hm : m ∈ entryMeths) {c : Ctl} (h : c ∈ reachM m) : c ∈ reach :=
  mem_of_any_beq (List.all_eq_true.mp (List.all_eq_true.mp reachM_sub m hm) c h)

/-- a fact decided for every control state of calls entering at `m` -/
theorem localM {m : Meth} {Q : Ctl → Bool} (h : (reachM m).all Q = true) {c : Ctl} (hc : c ∈ reachM m) : Q c = true :=
  List.all_eq_true.mp h c hc

theorem effect_ctl {sh sh' : Shared} {t : Tid} {th th0 : Thread} {b : Bool}
    (h : effect sh t th = some (b, sh', th0)) : th0.ctl = th.ctl := by
  unfold effect at h
  split at h <;> (try split at h) <;> (try split at h) <;> (try split at h) <;> simp at h
  all_goals first
    | (obtain ⟨_, _, rfl⟩ := h; rfl)
    | (obtain ⟨_, _, _, rfl⟩ := h; rfl)

end Ro.Kernel

/-
  RoProofs.Kernel.Step — shape lemmas about `step` / `stepT` / `run` that every invariant proof uses:
  a step changes the shared part and exactly one thread; invariants lift from `step` to `run`.
-/
import RoModel.Kernel.Conc
namespace Ro.Kernel

theorem step_some {progs : Meth → Prog} {s s' : St} {t : Tid} (h : step progs s t = some s') :
    ∃ th sh' th', s.threads[t]? = some th ∧ stepT progs s.sh t th = some (sh', th') ∧
      s' = { sh := sh', threads := s.threads.set t th' } := by
  unfold step at h
  cases hth : s.threads[t]? with
  | none => simp [hth] at h
  | some th =>
    simp only [hth] at h
    cases hst : stepT progs s.sh t th with
    | none => simp [hst] at h
    | some r =>
      obtain ⟨sh', th'⟩ := r
      simp only [hst, Option.some.injEq] at h
      exact ⟨th, sh', th', rfl, hst, h.symm⟩

/-- the two kinds of transition: a new API call starts, or the head of the stack is executed -/
theorem stepT_cases {progs : Meth → Prog} {sh sh' : Shared} {t : Tid} {th th' : Thread}
    (h : stepT progs sh t th = some (sh', th')) :
    (th.ctl.stack = [] ∧ ∃ c cs, th.script = c :: cs ∧ sh' = sh.emit (.call t c) ∧
        th' = { th with ctl := Ctl.entry progs c, cur := some c, script := cs }) ∨
    (th.ctl.stack ≠ [] ∧ ∃ b th0, effect sh t th = some (b, sh', th0) ∧
        th' = { th0 with ctl := nextCtl progs th.ctl b }) := by
  unfold stepT at h
  split at h
  · rename_i hs
    split at h
    · simp at h
    · rename_i c cs hsc
      simp only [Option.some.injEq, Prod.mk.injEq] at h
      exact Or.inl ⟨hs, c, cs, hsc, h.1.symm, h.2.symm⟩
  · rename_i fr rest hs
    split at h
    · simp at h
    · rename_i b sh0 th0 he
      simp only [Option.some.injEq, Prod.mk.injEq] at h
      refine Or.inr ⟨by simp [hs], b, th0, ?_, h.2.symm⟩
      rw [he, h.1]

theorem threads_set_self {ths : List Thread} {t : Tid} {th th' : Thread} (h : ths[t]? = some th) :
    (ths.set t th')[t]? = some th' := by
  have : t < ths.length := by
    rcases Nat.lt_or_ge t ths.length with hlt | hge
    · exact hlt
    · simp [List.getElem?_eq_none hge] at h
  simp [this]

theorem threads_set_other {ths : List Thread} {t u : Tid} {th' : Thread} (h : u ≠ t) :
    (ths.set t th')[u]? = ths[u]? := by
  simp [Ne.symm h]

/-- after a step of `t`: what thread `u` looks like -/
theorem threads_after {ths : List Thread} {t u : Tid} {th th' thu : Thread} (h : ths[t]? = some th)
    (hu : (ths.set t th')[u]? = some thu) : (u = t ∧ thu = th') ∨ (u ≠ t ∧ ths[u]? = some thu) := by
  by_cases hut : u = t
  · subst hut
    rw [threads_set_self h] at hu
    exact Or.inl ⟨rfl, (Option.some.inj hu).symm⟩
  · rw [threads_set_other hut] at hu
    exact Or.inr ⟨hut, hu⟩

/-- an invariant of `step` is an invariant of `run`, for every schedule -/
theorem run_inv {progs : Meth → Prog} (Inv : St → Prop)
    (hstep : ∀ s t s', Inv s → step progs s t = some s' → Inv s') :
    ∀ (sched : List Tid) (s : St), Inv s → Inv (run progs s sched) := by
  intro sched
  induction sched with
  | nil => intro s h; exact h
  | cons t ts ih =>
    intro s h
    unfold run
    cases hs : step progs s t with
    | none => simpa using ih s h
    | some s' => simpa using ih s' (hstep s t s' h hs)

theorem run_append (progs : Meth → Prog) (s : St) (a b : List Tid) :
    run progs s (a ++ b) = run progs (run progs s a) b := by
  induction a generalizing s with
  | nil => rfl
  | cons t ts ih => simp [run, ih]

end Ro.Kernel

/-
  RoProofs.Kernel.Terminal — in a state where no thread can move and `done` is set, nothing is left
  in `finalizers` or in any thread's taken list: every stored finalizer has run.
-/
import RoProofs.Kernel.Main
namespace Ro.Kernel

theorem step_none_effect {s : St} {t : Tid} {th : Thread} (h : step P s t = none) (hth : s.threads[t]? = some th)
    (hne : th.ctl.stack ≠ []) : effect s.sh t th = none := by
  cases he : effect s.sh t th with
  | none => rfl
  | some r =>
    obtain ⟨b, sh', th0⟩ := r
    cases hs : th.ctl.stack with
    | nil => exact absurd hs hne
    | cons fr rest => simp [step, hth, stepT, hs, he] at h

theorem head_stack_ne {c : Ctl} {s : Stmt} (h : c.head = .stmt s) : c.stack ≠ [] := by
  intro hs
  simp [Ctl.head, hs] at h

/-- no thread enabled -/
def Terminal (s : St) : Prop := ∀ t, step P s t = none

theorem terminal_drained {B : FinId → Nat} {s : St} (hi : KInv B s) (hd : s.sh.done = true) (ht : Terminal s) :
    s.sh.finalizers = [] ∧ ∀ (t : Tid) (th : Thread), s.threads[t]? = some th → th.taken = [] := by
  constructor
  · rcases hi.tear.owner hd with h | ⟨u, thu, hu, ho⟩
    · exact h
    · exfalso
      unfold Ctl.owning at ho
      split at ho
      · rename_i x y hh
        have := step_none_effect (ht u) hu (head_stack_ne hh)
        simp [effect, hh] at this
      · rename_i hh
        have := step_none_effect (ht u) hu (head_stack_ne hh)
        simp [effect, hh] at this
      · cases ho
  · intro t th hth
    cases htk : th.taken with
    | nil => rfl
    | cons g gs =>
      exfalso
      have ha := (hi.tear.takenDone t th hth (by simp [htk])).2
      have hla := local_of_all (lfAfterSwap_all true) (hi.lock.inReach t th hth)
      unfold lfAfterSwap at hla
      split at hla
      · simp [ha] at hla
      · rename_i hh
        have := step_none_effect (ht t) hth (head_stack_ne hh)
        simp [effect, hh, htk] at this
      · rename_i l hh
        have := step_none_effect (ht t) hth (head_stack_ne hh)
        simp [effect, hh] at this
      · simp [ha] at hla
      · simp [ha] at hla

/-- C03: in a terminal state with `done`, every finalizer that was stored by an Add has run -/
theorem terminal_all_ran {B : FinId → Nat} {s : St} (hi : KInv B s) (hd : s.sh.done = true) (ht : Terminal s)
    (f : FinId) (hf : f ∈ appendedFins s.sh.log) : f ∈ s.sh.ran := by
  obtain ⟨h1, h2⟩ := terminal_drained hi hd ht
  have hs := hi.tear.stored f
  have h0 : sumT (fun th => th.taken.count f) s.threads = 0 :=
    sumT_zero (fun t th hth => by simp [h2 t th hth])
  rw [h1, h0] at hs
  simp only [List.count_nil, Nat.add_zero] at hs
  have : 0 < (appendedFins s.sh.log).count f := List.count_pos_iff.mpr hf
  exact List.count_pos_iff.mp (by omega)

/-- C03: no finalizer runs twice (for scripts that use each finalizer id once) -/
theorem ran_count_le_one {B : FinId → Nat} {s : St} (hi : KInv B s) (f : FinId) (hb : B f ≤ 1) : s.sh.ran.count f ≤ 1 := by
  have := hi.tear.once f
  simp only [total] at this
  omega

end Ro.Kernel

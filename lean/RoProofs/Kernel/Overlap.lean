/-
  RoProofs.Kernel.Overlap — C02(a) on the log: scanning the history, a callback begins only when
  none is running (`noOverlapLog`, the predicate the harness evaluates on the recorded log).
  Invariant: the number of callbacks running at the end of the log = the number of threads inside.
-/
import RoProofs.Kernel.Producer
namespace Ro.Kernel

/-- running callbacks after scanning `log` starting with `d` running -/
def depthL : Nat → List Ev → Nat
  | d, [] => d
  | d, .cbBegin _ _ _ :: r => depthL (d + 1) r
  | d, .cbEnd _ _ _ :: r => depthL (d - 1) r
  | d, _ :: r => depthL d r

def Ev.isEnd : Ev → Bool
  | .cbEnd _ _ _ => true
  | _ => false

theorem depthL_snoc (d : Nat) (l : List Ev) (e : Ev) :
    depthL d (l ++ [e]) = if e.isBegin then depthL d l + 1 else if e.isEnd then depthL d l - 1 else depthL d l := by
  induction l generalizing d with
  | nil => cases e <;> simp [depthL, Ev.isBegin, Ev.isEnd]
  | cons x r ih => cases x <;> simp [depthL, ih]

theorem noOverlapFrom_snoc (d : Nat) (l : List Ev) (e : Ev) :
    noOverlapFrom d (l ++ [e]) = (noOverlapFrom d l && (!e.isBegin || depthL d l == 0)) := by
  induction l generalizing d with
  | nil => cases e <;> simp [noOverlapFrom, depthL, Ev.isBegin]
  | cons x r ih => cases x <;> simp [noOverlapFrom, depthL, ih, Bool.and_assoc]

def insideCount (ths : List Thread) : Nat := sumT (fun th => if th.ctl.inside then 1 else 0) ths

structure OvInv (s : St) : Prop where
  ok : noOverlapLog s.sh.log = true
  depth : depthL 0 s.sh.log = insideCount s.threads

theorem OvInv.init (mode : Mode) (destNil : Bool) (panicky : List FinId) (scripts : List (List ApiCall)) :
    OvInv (init mode destNil panicky scripts) := by
  constructor
  · simp [Ro.Kernel.init, noOverlapLog, noOverlapFrom]
  · simp only [Ro.Kernel.init, depthL, insideCount]
    symm
    apply sumT_zero
    intro t th h
    simp at h
    obtain ⟨sc, _, rfl⟩ := h
    rfl

/-- what a transition does to the callback depth -/
theorem eff_depth {sh sh' : Shared} {t : Tid} {th th0 : Thread} {hd : Head} {b : Bool}
    (h : Eff sh t th hd b sh' th0) :
    (∃ k, hd = .stmt (.callDest k) ∧ th.ctl.inside = false ∧ sh'.log = sh.log ++ [.cbBegin t k th.x]) ∨
    (∃ k, hd = .stmt (.callDest k) ∧ th.ctl.inside = true ∧ sh'.log = sh.log ++ [.cbEnd t k th.x]) ∨
    ((∀ k, hd ≠ .stmt (.callDest k)) ∧
      (sh'.log = sh.log ∨ ∃ e, sh'.log = sh.log ++ [e] ∧ e.isBegin = false ∧ e.isEnd = false)) := by
  cases h
  case cbBegin k hi => exact Or.inl ⟨k, rfl, hi, rfl⟩
  case cbEnd k hi => exact Or.inr (Or.inl ⟨k, rfl, hi, rfl⟩)
  all_goals right; right
  all_goals refine ⟨(fun k hk => by cases hk), ?_⟩
  all_goals first
    | exact Or.inl rfl
    | exact Or.inr ⟨_, rfl, rfl, rfl⟩
    | (left; split <;> (try rfl) <;> (rename_i l _; cases l <;> rfl))
    | (left; rename_i l; cases l <;> rfl)
    | (left; rename_i l _ _; cases l <;> rfl)
    | (left; rename_i l _ _ _ _; cases l <;> rfl)

theorem OvInv.step {s s' : St} {t : Tid} (hl : LockInv s) (hex : Excl s) (hi : OvInv s)
    (h : step P s t = some s') : OvInv s' := by
  obtain ⟨th, sh', th', hth, hst, rfl⟩ := step_some h
  have hr := hl.inReach t th hth
  have hset := fun th' => sumT_set (g := fun th : Thread => if th.ctl.inside then 1 else 0) (th' := th') hth
  rcases stepT_cases hst with ⟨hidle, c, cs, hsc, rfl, rfl⟩ | ⟨hne, b, th0, he, rfl⟩
  · have hin : th.ctl.inside = false := by
      have := local_of_all (lfArmedHolds_all) hr
      cases hi' : th.ctl.inside with
      | false => rfl
      | true =>
        simp only [lfArmedHolds, hi', Bool.true_or, Bool.not_true, Bool.false_or] at this
        simp [Ctl.holds, hidle] at this
    constructor
    · show noOverlapFrom 0 (s.sh.log ++ [.call t c]) = true
      rw [noOverlapFrom_snoc]; simp [Ev.isBegin]; exact hi.ok
    · show depthL 0 (s.sh.log ++ [.call t c]) = _
      rw [depthL_snoc]
      simp only [Ev.isBegin, Ev.isEnd, Bool.false_eq_true, if_false, hi.depth, insideCount]
      have := hset { th with ctl := Ctl.entry P c, cur := some c, script := cs }
      simp only [hin, entry_inside, Bool.false_eq_true, if_false] at this
      show _ = sumT _ (s.threads.set t _)
      omega
  · have hE := effect_inv he
    have hli := local_of_all (lfInside_all b) hr
    unfold lfInside at hli
    have hs' := hset { th0 with ctl := nextCtl P th.ctl b }
    simp only at hs'
    rcases eff_depth hE with ⟨k, hk, hin, hlog⟩ | ⟨k, hk, hin, hlog⟩ | ⟨hnc, hlog⟩
    · -- begin: nobody is inside
      rw [hk] at hli
      simp only [hin, Bool.not_false, beq_iff_eq] at hli
      have hzero : insideCount s.threads = 0 := by
        apply sumT_zero
        intro u thu hu
        cases hiu : thu.ctl.inside with
        | false => rfl
        | true =>
          exfalso
          have : t = u := hex t u th thu hth hu (by simp [Ctl.armed, hin, hk]) (by simp [hiu])
          subst this
          rw [hth] at hu
          obtain rfl := Option.some.inj hu
          rw [hin] at hiu; cases hiu
      constructor
      · show noOverlapFrom 0 sh'.log = true
        rw [hlog, noOverlapFrom_snoc]
        simp only [Ev.isBegin, Bool.not_true, Bool.false_or, Bool.and_eq_true, beq_iff_eq]
        exact ⟨hi.ok, by rw [hi.depth]; exact hzero⟩
      · show depthL 0 sh'.log = _
        rw [hlog, depthL_snoc]
        simp only [Ev.isBegin, if_true, hi.depth]
        simp only [hin, hli, Bool.false_eq_true, if_false, if_true, insideCount] at hs' ⊢
        omega
    · rw [hk] at hli
      simp only [hin, Bool.not_true, beq_iff_eq] at hli
      have hpos : 1 ≤ insideCount s.threads := by
        have := sumT_mem_le (g := fun th : Thread => if th.ctl.inside then 1 else 0) hth
        simpa [hin, insideCount] using this
      constructor
      · show noOverlapFrom 0 sh'.log = true
        rw [hlog, noOverlapFrom_snoc]; simp [Ev.isBegin]; exact hi.ok
      · show depthL 0 sh'.log = _
        rw [hlog, depthL_snoc]
        simp only [Ev.isBegin, Ev.isEnd, Bool.false_eq_true, if_false, if_true, hi.depth]
        simp only [hin, hli, Bool.false_eq_true, if_false, if_true, insideCount] at hs' hpos ⊢
        omega
    · have hsame : (nextCtl P th.ctl b).inside = th.ctl.inside := by
        split at hli
        · rename_i k hh; exact absurd hh (hnc k)
        · simpa using hli
      have hcount : insideCount (s.threads.set t { th0 with ctl := nextCtl P th.ctl b }) = insideCount s.threads := by
        simp only [hsame, insideCount] at hs' ⊢
        omega
      rcases hlog with hlog | ⟨e, hlog, hb, hend⟩
      · exact ⟨by show noOverlapLog sh'.log = true; rw [hlog]; exact hi.ok,
               by show depthL 0 sh'.log = _; rw [hlog, hi.depth, hcount]⟩
      · constructor
        · show noOverlapFrom 0 sh'.log = true
          rw [hlog, noOverlapFrom_snoc]; simp [hb]; exact hi.ok
        · show depthL 0 sh'.log = _
          rw [hlog, depthL_snoc]
          simp only [hb, hend, Bool.false_eq_true, if_false, hi.depth, hcount]

end Ro.Kernel

/-
  RoProofs.Kernel.FlagsB — further decided facts about control flow (kept apart from Flags.lean so
  that adding one does not re-check the others).
-/
import RoProofs.Kernel.Flags
namespace Ro.Kernel

def Head.isNilTeardown : Head → Bool
  | .stmt (.ifNil .teardown _ _) => true
  | _ => false

theorem Head.isNilTeardown_iff {h : Head} (hd : h.isNilTeardown = true) : ∃ x y, h = .stmt (.ifNil .teardown x y) := by
  unfold Head.isNilTeardown at hd
  split at hd
  · exact ⟨_, _, rfl⟩
  · cases hd

/-- the teardown of an Add / Wait call stops being pending only by being stored or run -/
def lfConsume (b : Bool) (c : Ctl) : Bool :=
  !(c.unconsumed && !(nextCtl P c b).unconsumed) || c.head.isStore || (c.head.isNilTeardown && b)

theorem lfConsume_all (b : Bool) : reach.all (lfConsume b) = true := by cases b <;> decide +kernel

theorem entry_unconsumed (c : ApiCall) (h : ∃ f, c = .add f ∨ c = .wait f) : (Ctl.entry P c).unconsumed = true := by
  obtain ⟨f, rfl | rfl⟩ := h
  · show (Ctl.entry P (.add 0)).unconsumed = true; decide
  · show (Ctl.entry P (.wait 0)).unconsumed = true; decide

def Head.isRaise : Head → Bool
  | .stmt .raiseJoined => true
  | _ => false

/-- the joined panic is raised outside the finalizer loop region -/
def lfRaise (c : Ctl) : Bool := !c.head.isRaise || !c.afterSwap

theorem lfRaise_all : reach.all lfRaise = true := by decide +kernel


/-- a call's stack empties only when its last frame is exhausted -/
def lfNonEmpty (b : Bool) (c : Ctl) : Bool :=
  !(nextCtl P c b).stack.isEmpty || c.head.isFinish || c.stack.isEmpty

theorem lfNonEmpty_all (b : Bool) : reach.all (lfNonEmpty b) = true := by cases b <;> decide +kernel

end Ro.Kernel

/-
  RoProofs.Kernel.Events — what holds at the moment particular events are logged: a Wait returns
  only after its finalizer ran (so `done` holds); the joined panic is raised after the loop; an Add
  returns only after its teardown was stored or run.
-/
import RoProofs.Kernel.Terminal
import RoProofs.Kernel.FlagsB
namespace Ro.Kernel

@[simp] theorem Shared.setOwner_log (sh : Shared) (l : Lck) (o : Option Tid) : (sh.setOwner l o).log = sh.log := by
  cases l <;> rfl

/-- the transition of `t` from `s` to `s'` logs exactly the event `e` -/
def Logs (s s' : St) (e : Ev) : Prop := s'.sh.log = s.sh.log ++ [e]

theorem ret_event {s s' : St} {t u : Tid} {c : ApiCall} {r : Res} (h : step P s t = some s')
    (hlog : Logs s s' (.ret u c r)) :
    u = t ∧ ∃ th, s.threads[t]? = some th ∧ th.ctl.head = .finish ∧ th.cur = some c ∧ th.ctl.stack ≠ [] ∧
      r = (if th.ctl.panicking then .panicked else th.result) := by
  obtain ⟨th, sh', th', hth, hst, rfl⟩ := step_some h
  unfold Logs at hlog
  rcases stepT_cases hst with ⟨_, c', cs, _, rfl, rfl⟩ | ⟨hne, b, th0, he, rfl⟩
  · simp [Shared.emit] at hlog
  · rcases eff_log (effect_inv he) with ⟨h1, _⟩ | ⟨e, h1, _, _, h2, _⟩ | ⟨c', hf, hc', _, h1, _⟩
    · rw [h1] at hlog; simp at hlog
    · rw [h1] at hlog
      simp only [List.append_cancel_left_eq, List.cons.injEq, and_true] at hlog
      rw [hlog] at h2; simp [Ev.isRet] at h2
    · rw [h1] at hlog
      simp only [List.append_cancel_left_eq, List.cons.injEq, and_true, Ev.ret.injEq] at hlog
      obtain ⟨rfl, rfl, rfl⟩ := hlog
      exact ⟨rfl, th, hth, hf, hc', hne, rfl⟩

/-- C06: when a Wait call returns, its own finalizer has run and the subscription is done -/
theorem wait_returns_when_done {B : FinId → Nat} {s s' : St} {t u : Tid} {f : FinId} {r : Res} (hi : KInv B s)
    (h : step P s t = some s') (hlog : Logs s s' (.ret u (.wait f) r)) : f ∈ s.sh.ran ∧ s.sh.done = true := by
  obtain ⟨rfl, th, hth, hf, hcur, _, _⟩ := ret_event h hlog
  have hlw := localM (lfWait_all true) (hi.closed.busy u th _ hth hcur)
  simp only [lfWait, hf, Head.isFinish, Bool.not_true, Bool.false_or, Bool.and_eq_true, Bool.not_eq_true'] at hlw
  rcases hi.tear.waiting u th f hth hcur with hw | hw
  · rw [hlw.2] at hw; cases hw
  · exact ⟨hw, hi.tear.ranDone (List.ne_nil_of_mem hw)⟩

/-- C03: the joined panic is raised only after the loop: the thread has nothing left to run and
    every finalizer named in the panic has run -/
theorem raise_after_loop {B : FinId → Nat} {s s' : St} {t u : Tid} {fs : List FinId} (hi : KInv B s)
    (h : step P s t = some s') (hlog : Logs s s' (.raised u fs)) :
    u = t ∧ (∃ th, s.threads[t]? = some th ∧ th.taken = [] ∧ th.panics = fs) ∧ ∀ p ∈ fs, p ∈ s.sh.ran := by
  obtain ⟨th, sh', th', hth, hst, rfl⟩ := step_some h
  unfold Logs at hlog
  rcases stepT_cases hst with ⟨_, c', cs, _, rfl, rfl⟩ | ⟨hne, b, th0, he, rfl⟩
  · simp [Shared.emit] at hlog
  · have hE := effect_inv he
    generalize hh : th.ctl.head = hd at hE
    cases hE
    case raiseCons p ps hp =>
      simp only [Shared.emit, List.append_cancel_left_eq, List.cons.injEq, and_true, Ev.raised.injEq] at hlog
      obtain ⟨rfl, rfl⟩ := hlog
      have hlr := local_of_all lfRaise_all (hi.lock.inReach t th hth)
      simp only [lfRaise, hh, Head.isRaise, Bool.not_true, Bool.false_or, Bool.not_eq_true'] at hlr
      refine ⟨rfl, ⟨th, hth, ?_, hp⟩, ?_⟩
      · cases htk : th.taken with
        | nil => rfl
        | cons g gs =>
          have := (hi.tear.takenDone t th hth (by simp [htk])).2
          rw [hlr] at this; cases this
      · intro q hq
        exact hi.tear.panics t th hth q (by rw [hp]; exact hq)
    all_goals (first | (simp [Shared.emit] at hlog; done) | (split at hlog <;> simp at hlog))


/-! ### an Add returns only after its teardown was stored or run; nothing is stored once `done` -/

structure ConsInv (s : St) : Prop where
  cons : ∀ (t : Tid) (th : Thread) (c : ApiCall) (f : FinId), s.threads[t]? = some th → th.cur = some c →
    finOf c = some f → th.ctl.unconsumed = true ∨ f ∈ appendedFins s.sh.log ∨ f ∈ s.sh.ran

theorem ConsInv.init (mode : Mode) (destNil : Bool) (panicky : List FinId) (scripts : List (List ApiCall)) :
    ConsInv (init mode destNil panicky scripts) := by
  constructor
  intro t th c f h hc
  simp [Ro.Kernel.init] at h
  obtain ⟨sc, _, rfl⟩ := h
  simp at hc

theorem eff_isNil {sh sh' : Shared} {t : Tid} {th th0 : Thread} {b : Bool} {fl : Fld} {x y : List Stmt}
    (h : Eff sh t th (.stmt (.ifNil fl x y)) b sh' th0) : b = sh.isNil fl := by
  cases h; rfl

theorem ConsInv.step {B : FinId → Nat} {s s' : St} {t : Tid} (hk : KInv B s) (hi : ConsInv s)
    (h : step P s t = some s') : ConsInv s' := by
  obtain ⟨th, sh', th', hth, hst, rfl⟩ := step_some h
  have hr := hk.lock.inReach t th hth
  rcases stepT_cases hst with ⟨hidle, c, cs, hsc, rfl, rfl⟩ | ⟨hne, b, th0, he, rfl⟩
  · constructor
    intro u thu c' f hu hc hf
    have hlogA : appendedFins (s.sh.emit (.call t c)).log = appendedFins s.sh.log := by
      simp [Shared.emit, appendedFins_append, appendedFins]
    rw [hlogA]
    rcases threads_after hth hu with ⟨rfl, rfl⟩ | ⟨_, hu'⟩
    · simp only [Option.some.injEq] at hc
      subst hc
      left
      apply entry_unconsumed
      cases c <;> simp [finOf] at hf
      · exact ⟨_, Or.inl rfl⟩
      · exact ⟨_, Or.inr rfl⟩
    · exact hi.cons u thu c' f hu' hc hf
  · have hE := effect_inv he
    have hmono := (eff_tear_mono hE).2
    have hamono : ∀ f, f ∈ appendedFins s.sh.log → f ∈ appendedFins sh'.log := by
      intro f hf
      rcases eff_tear hE with ⟨_, _, _, _, _, _, h6, _⟩ | ⟨_, rfl, _⟩ | ⟨_, rfl, _⟩ | ⟨g, gs, _, _, _, rfl, _⟩ | ⟨_, rfl, _⟩ | ⟨_, rfl, _⟩
      · rw [h6]; exact hf
      · exact hf
      · exact hf
      · simp [Shared.emit, appendedFins_append, appendedFins, hf]
      · simp [Shared.emit, appendedFins_append, appendedFins, hf]
      · simp [Shared.emit, appendedFins_append, appendedFins, hf]
    constructor
    intro u thu c' f hu hc hf
    rcases threads_after hth hu with ⟨rfl, rfl⟩ | ⟨_, hu'⟩
    · have hc0 : th.cur = some c' := by
        rcases eff_cur hE with h1 | h1
        · rw [← h1]; exact hc
        · rw [show ({ th0 with ctl := nextCtl P th.ctl b } : Thread).cur = th0.cur from rfl, h1] at hc; cases hc
      rcases hi.cons u th c' f hth hc0 hf with h1 | h1 | h1
      · cases hu' : (nextCtl P th.ctl b).unconsumed with
        | true => left; rfl
        | false =>
          right
          have hlc := local_of_all (lfConsume_all b) hr
          simp only [lfConsume, h1, hu', Bool.not_false, Bool.and_self, Bool.not_true, Bool.false_or,
            Bool.or_eq_true, Bool.and_eq_true] at hlc
          have hff : th.f = f := by
            cases c' <;> simp [finOf] at hf <;> simp [Thread.f, hc0, ApiCall.fin, hf]
          rcases hlc with hs | ⟨hn, rfl⟩
          · unfold Head.isStore at hs
            split at hs
            · rename_i hh
              rw [hh] at hE
              cases hE
              left
              simp [Shared.emit, appendedFins_append, appendedFins, hff]
            · rename_i hh
              rw [hh] at hE
              cases hE
              right
              simp [Shared.emit, hff]
            · cases hs
          · obtain ⟨x, y, hh⟩ := Head.isNilTeardown_iff hn
            rw [hh] at hE
            have := eff_isNil hE
            simp [Shared.isNil] at this
      · right; left; exact hamono f h1
      · right; right; exact hmono f h1
    · rcases hi.cons u thu c' f hu' hc hf with h1 | h1 | h1
      · exact Or.inl h1
      · exact Or.inr (Or.inl (hamono f h1))
      · exact Or.inr (Or.inr (hmono f h1))

/-- C03: when an Add returns, its teardown has been stored for later or has run -/
theorem add_returns_consumed {B : FinId → Nat} {s s' : St} {t u : Tid} {f : FinId} {r : Res} (hk : KInv B s)
    (hi : ConsInv s) (h : step P s t = some s') (hlog : Logs s s' (.ret u (.add f) r)) :
    f ∈ appendedFins s.sh.log ∨ f ∈ s.sh.ran := by
  obtain ⟨rfl, th, hth, hf, hcur, _, _⟩ := ret_event h hlog
  have hlp := local_of_all (lfPend_all true) (hk.lock.inReach u th hth)
  simp only [lfPend, hf, Head.isFinish, Bool.not_true, Bool.false_or, Bool.and_eq_true, Bool.not_eq_true'] at hlp
  rcases hi.cons u th _ f hth hcur rfl with h1 | h1
  · rw [hlp.2] at h1; cases h1
  · exact h1

/-- C03: a teardown is stored only while the subscription is not done -/
theorem stored_only_when_open {B : FinId → Nat} {s s' : St} {t u : Tid} {f : FinId} (hk : KInv B s)
    (h : step P s t = some s') (hlog : Logs s s' (.appended u f)) : s.sh.done = false := by
  obtain ⟨th, sh', th', hth, hst, rfl⟩ := step_some h
  unfold Logs at hlog
  rcases stepT_cases hst with ⟨_, c', cs, _, rfl, rfl⟩ | ⟨hne, b, th0, he, rfl⟩
  · simp [Shared.emit] at hlog
  · have hE := effect_inv he
    generalize hh : th.ctl.head = hd at hE
    cases hE
    case append => exact hk.tear.notDone t th hth hh
    all_goals (first | (simp [Shared.emit] at hlog; done) | (split at hlog <;> simp at hlog))

/-- hence once `done` is set nothing is stored any more: every later Add runs its teardown itself -/
theorem no_store_after_done {B : FinId → Nat} (sched : List Tid) : ∀ {s : St}, KInv B s → s.sh.done = true →
    appendedFins (run P s sched).sh.log = appendedFins s.sh.log ∧ (run P s sched).sh.done = true := by
  induction sched with
  | nil => intro s _ hd; exact ⟨rfl, hd⟩
  | cons t ts ih =>
    intro s hk hd
    unfold run
    cases hs : step P s t with
    | none => simpa using ih hk hd
    | some s' =>
      simp only [Option.getD_some]
      obtain ⟨th, sh', th', hth, hst, rfl⟩ := step_some hs
      have key : appendedFins sh'.log = appendedFins s.sh.log ∧ sh'.done = true := by
        rcases stepT_cases hst with ⟨_, c', cs, _, rfl, rfl⟩ | ⟨hne, b, th0, he, rfl⟩
        · exact ⟨by simp [Shared.emit, appendedFins_append, appendedFins], hd⟩
        · have hE := effect_inv he
          refine ⟨?_, (eff_tear_mono hE).1 hd⟩
          rcases eff_tear hE with ⟨_, _, _, _, _, _, h6, _⟩ | ⟨_, rfl, _⟩ | ⟨_, rfl, _⟩ | ⟨g, gs, _, _, _, rfl, _⟩ | ⟨hh, rfl, _⟩ | ⟨_, rfl, _⟩
          · exact h6
          · rfl
          · rfl
          · simp [Shared.emit, appendedFins_append, appendedFins]
          · have := hk.tear.notDone t th hth hh
            rw [hd] at this; cases this
          · simp [Shared.emit, appendedFins_append, appendedFins]
      obtain ⟨h1, h2⟩ := ih (hk.step hs) key.2
      exact ⟨h1.trans key.1, h2⟩

end Ro.Kernel

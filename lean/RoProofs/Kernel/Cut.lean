/-
  RoProofs.Kernel.Cut — C06 over whole runs: from a state in which `status ≠ 0` (e.g. after a
  closing call has returned), a thread that is not armed produces no callback-begin in any
  continuation, and its IsClosed calls answer true.
-/
import RoProofs.Kernel.Events
namespace Ro.Kernel

theorem after_run {B : FinId → Nat} (sched : List Tid) : ∀ {s : St}, KInv B s → ∀ {u : Tid} {thu : Thread},
    s.threads[u]? = some thu → After s.sh thu →
    ∃ thu', (run P s sched).threads[u]? = some thu' ∧ After (run P s sched).sh thu' ∧
      ∃ evs, (run P s sched).sh.log = s.sh.log ++ evs ∧ ∀ e ∈ evs, EvOk u e := by
  induction sched with
  | nil => intro s _ u thu hu ha; exact ⟨thu, hu, ha, [], by simp [run], by simp⟩
  | cons t ts ih =>
    intro s hk u thu hu ha
    unfold run
    cases hs : step P s t with
    | none => simpa using ih hk hu ha
    | some s' =>
      simp only [Option.getD_some]
      obtain ⟨thu1, hu1, ha1, evs1, hl1, he1⟩ := after_step hk.lock hk.closed hs hu ha
      obtain ⟨thu2, hu2, ha2, evs2, hl2, he2⟩ := ih (hk.step hs) hu1 ha1
      refine ⟨thu2, hu2, ha2, evs1 ++ evs2, by rw [hl2, hl1, List.append_assoc], ?_⟩
      intro e he
      rcases List.mem_append.mp he with h | h
      · exact he1 e h
      · exact he2 e h

/-- a thread between two calls, or anywhere before its status test, is not armed -/
theorem idle_not_armed {c : Ctl} (h : c.stack = []) : c.armed = none := by
  simp [Ctl.armed, Ctl.head, h]

/-- in a state where a closing call has returned, every thread that is not armed is `After` -/
theorem after_of_closed {B : FinId → Nat} {s : St} (hk : KInv B s) (hc : closedLog s.sh.log = true)
    {thu : Thread} (hq : thu.ctl.armed = none) (hidle : thu.cur ≠ some .isClosed) : After s.sh thu :=
  ⟨hk.closed.closed hc, hq, fun h => absurd h hidle⟩

end Ro.Kernel

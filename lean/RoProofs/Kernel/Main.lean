/-
  RoProofs.Kernel.Main — the invariants of the concurrent kernel bundled and lifted to every
  schedule: `KInv` (every mode) and `SInv` (safe / eventually-safe mode: plus the grammar invariant).
-/
import RoProofs.Kernel.Teardown
namespace Ro.Kernel

theorem step_mode {s s' : St} {t : Tid} (h : step P s t = some s') :
    s'.sh.mode = s.sh.mode ∧ s'.sh.destNil = s.sh.destNil ∧ s'.sh.panicky = s.sh.panicky := by
  obtain ⟨th, sh', th', hth, hst, rfl⟩ := step_some h
  rcases stepT_cases hst with ⟨_, c, cs, _, rfl, rfl⟩ | ⟨_, b, th0, he, rfl⟩
  · exact ⟨rfl, rfl, rfl⟩
  · exact eff_mode (effect_inv he)

/-- the initial number of occurrences of each finalizer id in the scripts -/
def idBound (scripts : List (List ApiCall)) (f : FinId) : Nat := ((scripts.flatten).filterMap finOf).count f

/-- every finalizer id is used by at most one Add / Wait call of the scripts -/
def DistinctIds (scripts : List (List ApiCall)) : Prop := ∀ f, idBound scripts f ≤ 1

structure KInv (B : FinId → Nat) (s : St) : Prop where
  lock : LockInv s
  closed : ClosedInv s
  tear : TearInv B s

theorem KInv.init (mode : Mode) (destNil : Bool) (panicky : List FinId) (scripts : List (List ApiCall)) :
    KInv (idBound scripts) (init mode destNil panicky scripts) :=
  ⟨LockInv.init .., ClosedInv.init .., TearInv.init ..⟩

theorem KInv.step {B : FinId → Nat} {s s' : St} {t : Tid} (hi : KInv B s) (h : step P s t = some s') : KInv B s' :=
  ⟨hi.lock.step h, hi.closed.step hi.lock h, hi.tear.step hi.lock hi.closed h⟩

theorem KInv.run {B : FinId → Nat} {s : St} (hi : KInv B s) (sched : List Tid) : KInv B (run P s sched) :=
  run_inv (KInv B) (fun _ _ _ hi h => hi.step h) sched s hi

/-- every state reachable by the expected programs from an initial state, under any schedule -/
theorem kinv_reachable (mode : Mode) (destNil : Bool) (panicky : List FinId) (scripts : List (List ApiCall))
    (sched : List Tid) : KInv (idBound scripts) (run P (init mode destNil panicky scripts) sched) :=
  (KInv.init mode destNil panicky scripts).run sched

structure SInv (B : FinId → Nat) (s : St) : Prop where
  k : KInv B s
  serial : Serial s.sh
  gram : GramInv s

theorem SInv.step {B : FinId → Nat} {s s' : St} {t : Tid} (hi : SInv B s) (h : step P s t = some s') : SInv B s' :=
  ⟨hi.k.step h, by unfold Serial; rw [(step_mode h).1]; exact hi.serial, hi.gram.step hi.k.lock (hi.k.lock.excl hi.serial) h⟩

theorem sinv_reachable (mode : Mode) (hm : mode ≠ .unsafeMode) (destNil : Bool) (panicky : List FinId)
    (scripts : List (List ApiCall)) (sched : List Tid) :
    SInv (idBound scripts) (run P (init mode destNil panicky scripts) sched) :=
  run_inv (SInv (idBound scripts)) (fun _ _ _ hi h => hi.step h) sched _
    ⟨KInv.init .., hm, GramInv.init ..⟩

end Ro.Kernel

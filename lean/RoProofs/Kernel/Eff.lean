/-
  RoProofs.Kernel.Eff — `effect` in relational form: one constructor per way a transition can go,
  with the guard it needs and the shared state / thread data it produces. Invariant proofs do one
  `cases` on this relation instead of unfolding `effect`.
-/
import RoModel.Kernel.Conc
namespace Ro.Kernel

def Thread.x (th : Thread) : Nat := (th.cur.map ApiCall.payload).getD 0
def Thread.f (th : Thread) : FinId := (th.cur.map ApiCall.fin).getD 0

inductive Eff (sh : Shared) (t : Tid) (th : Thread) : Head → Bool → Shared → Thread → Prop
  | finishNone (hc : th.cur = none) : Eff sh t th .finish false sh th
  | finishCall (c : ApiCall) (hc : th.cur = some c) :
      Eff sh t th .finish false (sh.emit (.ret t c (if th.ctl.panicking then .panicked else th.result)))
        { th with cur := none, result := .unit }
  | pop : Eff sh t th .pop false sh th
  | runDefer (l : Lck) : Eff sh t th (.runDefer l) false (if sh.noLock l then sh else sh.setOwner l none) th
  | unwind : Eff sh t th .unwind false sh th
  | lockNo (l : Lck) (hn : sh.noLock l = true) : Eff sh t th (.stmt (.lock l)) true sh th
  | lockTake (l : Lck) (hn : sh.noLock l = false) (hfree : sh.owner l = none) :
      Eff sh t th (.stmt (.lock l)) true (sh.setOwner l (some t)) th
  | unlock (l : Lck) : Eff sh t th (.stmt (.unlock l)) true (if sh.noLock l then sh else sh.setOwner l none) th
  | deferUnlock (l : Lck) : Eff sh t th (.stmt (.deferUnlock l)) true sh th
  | tryNo (l : Lck) (a e : List Stmt) (hn : sh.noLock l = true) : Eff sh t th (.stmt (.tryLock l a e)) true sh th
  | tryTake (l : Lck) (a e : List Stmt) (hn : sh.noLock l = false) (hfree : sh.owner l = none) :
      Eff sh t th (.stmt (.tryLock l a e)) true (sh.setOwner l (some t)) th
  | tryFail (l : Lck) (a e : List Stmt) (hn : sh.noLock l = false) (hbusy : sh.owner l ≠ none) :
      Eff sh t th (.stmt (.tryLock l a e)) false sh th
  | loadEq (fl : Fld) (k : Nat) (a e : List Stmt) : Eff sh t th (.stmt (.ifLoadEq fl k a e)) (sh.fld fl == k) sh th
  | fldEq (fl : Fld) (k : Nat) (a e : List Stmt) : Eff sh t th (.stmt (.ifFld fl k a e)) (sh.fld fl == k) sh th
  | casOk (a b : Nat) (x y : List Stmt) (h : sh.status = a) :
      Eff sh t th (.stmt (.ifCas .status a b x y)) true { sh with status := b } th
  | casFail (a b : Nat) (x y : List Stmt) (h : sh.status ≠ a) : Eff sh t th (.stmt (.ifCas .status a b x y)) false sh th
  | isNil (fl : Fld) (a e : List Stmt) : Eff sh t th (.stmt (.ifNil fl a e)) (sh.isNil fl) sh th
  | cbBegin (k : Kind) (hi : th.ctl.inside = false) : Eff sh t th (.stmt (.callDest k)) true (sh.emit (.cbBegin t k th.x)) th
  | cbEnd (k : Kind) (hi : th.ctl.inside = true) : Eff sh t th (.stmt (.callDest k)) true (sh.emit (.cbEnd t k th.x)) th
  | drop (k : Kind) : Eff sh t th (.stmt (.drop k)) true (sh.emit (.drop t k th.x)) th
  | callSelf (m : Meth) : Eff sh t th (.stmt (.callSelf m)) true sh th
  | setDone : Eff sh t th (.stmt .setDone) true { sh with done := true } th
  | swap : Eff sh t th (.stmt .swapFinalizers) true { sh with finalizers := [] } { th with taken := sh.finalizers, panics := [] }
  | runTakenNil (h : th.taken = []) : Eff sh t th (.stmt .runTaken) false sh th
  | runTakenCons (g : FinId) (gs : List FinId) (h : th.taken = g :: gs) :
      Eff sh t th (.stmt .runTaken) true ({ sh with ran := sh.ran ++ [g] }.emit (.finRun t g))
        { th with taken := gs, panics := if sh.panicky.contains g then th.panics ++ [g] else th.panics }
  | raiseNil (h : th.panics = []) : Eff sh t th (.stmt .raiseJoined) false sh th
  | raiseCons (p : FinId) (ps : List FinId) (h : th.panics = p :: ps) :
      Eff sh t th (.stmt .raiseJoined) true (sh.emit (.raised t (p :: ps))) { th with panics := [] }
  | append : Eff sh t th (.stmt .appendFinalizer) true
      ({ sh with finalizers := sh.finalizers ++ [th.f] }.emit (.appended t th.f)) th
  | runNow : Eff sh t th (.stmt .runNow) (sh.panicky.contains th.f)
      ({ sh with ran := sh.ran ++ [th.f] }.emit (.finRun t th.f)) th
  | recv (h : sh.ran.contains th.f = true) : Eff sh t th (.stmt .recv) true sh th
  | retLoad (fl : Fld) (c : Cmp) (k : Nat) :
      Eff sh t th (.stmt (.retLoad fl c k)) true sh { th with result := .bool (c.eval (sh.fld fl) k) }
  | retFld (fl : Fld) : Eff sh t th (.stmt (.retFld fl)) true sh { th with result := .bool (sh.fld fl == 1) }
  | ret : Eff sh t th (.stmt .ret) true sh th

theorem effect_inv {sh sh' : Shared} {t : Tid} {th th0 : Thread} {b : Bool}
    (h : effect sh t th = some (b, sh', th0)) : Eff sh t th th.ctl.head b sh' th0 := by
  unfold effect at h
  generalize th.ctl.head = hd at h ⊢
  cases hd with
  | idle => simp at h
  | finish =>
    cases hc : th.cur with
    | none => simp [hc] at h; obtain ⟨rfl, rfl, rfl⟩ := h; exact Eff.finishNone hc
    | some c => simp [hc] at h; obtain ⟨rfl, rfl, rfl⟩ := h; exact Eff.finishCall c hc
  | pop => simp at h; obtain ⟨rfl, rfl, rfl⟩ := h; exact Eff.pop
  | runDefer l => simp at h; obtain ⟨rfl, rfl, rfl⟩ := h; exact Eff.runDefer l
  | unwind => simp at h; obtain ⟨rfl, rfl, rfl⟩ := h; exact Eff.unwind
  | stmt s =>
    cases s with
    | lock l =>
      by_cases hn : sh.noLock l = true
      · simp [hn] at h; obtain ⟨rfl, rfl, rfl⟩ := h; exact Eff.lockNo l hn
      · cases ho : sh.owner l with
        | none => simp [hn, ho] at h; obtain ⟨rfl, rfl, rfl⟩ := h; exact Eff.lockTake l (by simpa using hn) ho
        | some u => simp [hn, ho] at h
    | unlock l => simp at h; obtain ⟨rfl, rfl, rfl⟩ := h; exact Eff.unlock l
    | deferUnlock l => simp at h; obtain ⟨rfl, rfl, rfl⟩ := h; exact Eff.deferUnlock l
    | tryLock l a e =>
      by_cases hn : sh.noLock l = true
      · simp [hn] at h; obtain ⟨rfl, rfl, rfl⟩ := h; exact Eff.tryNo l a e hn
      · cases ho : sh.owner l with
        | none => simp [hn, ho] at h; obtain ⟨rfl, rfl, rfl⟩ := h; exact Eff.tryTake l a e (by simpa using hn) ho
        | some u => simp [hn, ho] at h; obtain ⟨rfl, rfl, rfl⟩ := h; exact Eff.tryFail l a e (by simpa using hn) (by simp [ho])
    | ifLoadEq fl k a e => simp at h; obtain ⟨rfl, rfl, rfl⟩ := h; exact Eff.loadEq fl k a e
    | ifFld fl k a e => simp at h; obtain ⟨rfl, rfl, rfl⟩ := h; exact Eff.fldEq fl k a e
    | ifCas fl a c x y =>
      cases fl <;> simp at h
      by_cases hs : sh.status = a
      · simp [hs] at h; obtain ⟨rfl, rfl, rfl⟩ := h; exact hs ▸ Eff.casOk sh.status c x y rfl
      · simp [hs] at h; obtain ⟨rfl, rfl, rfl⟩ := h; exact Eff.casFail a c x y hs
    | ifNil fl a e => simp at h; obtain ⟨rfl, rfl, rfl⟩ := h; exact Eff.isNil fl a e
    | callDest k =>
      cases hi : th.ctl.inside with
      | false => simp [hi] at h; obtain ⟨rfl, rfl, rfl⟩ := h; exact Eff.cbBegin k hi
      | true => simp [hi] at h; obtain ⟨rfl, rfl, rfl⟩ := h; exact Eff.cbEnd k hi
    | drop k => simp at h; obtain ⟨rfl, rfl, rfl⟩ := h; exact Eff.drop k
    | callSelf m => simp at h; obtain ⟨rfl, rfl, rfl⟩ := h; exact Eff.callSelf m
    | setDone => simp at h; obtain ⟨rfl, rfl, rfl⟩ := h; exact Eff.setDone
    | swapFinalizers => simp at h; obtain ⟨rfl, rfl, rfl⟩ := h; exact Eff.swap
    | runTaken =>
      cases ht : th.taken with
      | nil => simp [ht] at h; obtain ⟨rfl, rfl, rfl⟩ := h; exact Eff.runTakenNil ht
      | cons g gs => simp only [ht, Option.some.injEq, Prod.mk.injEq] at h; obtain ⟨rfl, rfl, rfl⟩ := h; exact Eff.runTakenCons g gs ht
    | raiseJoined =>
      cases hp : th.panics with
      | nil => simp [hp] at h; obtain ⟨rfl, rfl, rfl⟩ := h; exact Eff.raiseNil hp
      | cons p ps => simp [hp] at h; obtain ⟨rfl, rfl, rfl⟩ := h; exact Eff.raiseCons p ps hp
    | appendFinalizer => simp at h; obtain ⟨rfl, rfl, rfl⟩ := h; exact Eff.append
    | runNow => simp only [Option.some.injEq, Prod.mk.injEq] at h; obtain ⟨rfl, rfl, rfl⟩ := h; exact Eff.runNow
    | recv =>
      by_cases hr : sh.ran.contains ((Option.map ApiCall.fin th.cur).getD 0) = true
      · simp only [hr, if_true, Option.some.injEq, Prod.mk.injEq] at h; obtain ⟨rfl, rfl, rfl⟩ := h; exact Eff.recv hr
      · simp only [hr, if_false, reduceCtorEq, Bool.false_eq_true] at h
    | retLoad fl c k => simp at h; obtain ⟨rfl, rfl, rfl⟩ := h; exact Eff.retLoad fl c k
    | retFld fl => simp at h; obtain ⟨rfl, rfl, rfl⟩ := h; exact Eff.retFld fl
    | ret => simp at h; obtain ⟨rfl, rfl, rfl⟩ := h; exact Eff.ret
    | userCb k => simp at h
    | unknown n => simp at h

end Ro.Kernel

/-
  RoProofs.Kernel.Locks — the lock invariant of the concurrent kernel running the expected programs:
  every thread's control state is in `reach`, and a thread's control state says "holds l" exactly
  when the shared state names it the owner of `l` (for `mu` only when the mutex is a real one).
-/
import RoProofs.Kernel.Flags
import RoProofs.Kernel.Eff
import RoProofs.Kernel.Step
namespace Ro.Kernel

@[simp] theorem Shared.emit_owner (sh : Shared) (e : Ev) (l : Lck) : (sh.emit e).owner l = sh.owner l := by cases l <;> rfl
@[simp] theorem Shared.emit_noLock (sh : Shared) (e : Ev) (l : Lck) : (sh.emit e).noLock l = sh.noLock l := rfl
@[simp] theorem Shared.setOwner_noLock (sh : Shared) (l l' : Lck) (o : Option Tid) :
    (sh.setOwner l o).noLock l' = sh.noLock l' := by cases l <;> rfl
@[simp] theorem Shared.setOwner_owner (sh : Shared) (l : Lck) (o : Option Tid) : (sh.setOwner l o).owner l = o := by
  cases l <;> rfl
@[simp] theorem Shared.setOwner_owner_other (sh : Shared) (l : Lck) (o : Option Tid) :
    (sh.setOwner l o).owner l.other = sh.owner l.other := by cases l <;> rfl
theorem Lck.eq_or_other (l l' : Lck) : l' = l ∨ l' = l.other := by cases l <;> cases l' <;> simp [Lck.other]

structure LockInv (s : St) : Prop where
  inReach : ∀ (t : Tid) (th : Thread), s.threads[t]? = some th → th.ctl ∈ reach
  own : ∀ (l : Lck) (t : Tid) (th : Thread), s.threads[t]? = some th → s.sh.noLock l = false →
          (th.ctl.holds l = true ↔ s.sh.owner l = some t)

theorem LockInv.init (mode : Mode) (destNil : Bool) (panicky : List FinId) (scripts : List (List ApiCall)) :
    LockInv (init mode destNil panicky scripts) := by
  constructor
  · intro t th h
    simp [Ro.Kernel.init] at h
    obtain ⟨sc, _, rfl⟩ := h
    exact reach_idle
  · intro l t th h _
    simp [Ro.Kernel.init] at h
    obtain ⟨sc, _, rfl⟩ := h
    cases l <;> simp [Ctl.holds, Shared.owner, Ro.Kernel.init]

/-- the shape of the argument for every transition that leaves ownership and `holds` alone -/
theorem LockInv.keep {s : St} {t : Tid} {th th' : Thread} {sh' : Shared} (hi : LockInv s)
    (hth : s.threads[t]? = some th) (hr : th'.ctl ∈ reach)
    (hown : ∀ l, sh'.owner l = s.sh.owner l) (hno : ∀ l, sh'.noLock l = s.sh.noLock l)
    (hh : ∀ l, s.sh.noLock l = false → th'.ctl.holds l = th.ctl.holds l) :
    LockInv { sh := sh', threads := s.threads.set t th' } := by
  constructor
  · intro u thu hu
    rcases threads_after hth hu with ⟨rfl, rfl⟩ | ⟨_, hu'⟩
    · exact hr
    · exact hi.inReach u thu hu'
  · intro l u thu hu hn
    simp only [hown, hno] at hn ⊢
    rcases threads_after hth hu with ⟨rfl, rfl⟩ | ⟨_, hu'⟩
    · rw [hh l hn]; exact hi.own l u th hth hn
    · exact hi.own l u thu hu' hn

theorem LockInv.acquire {s : St} {t : Tid} {th th' : Thread} (hi : LockInv s)
    (hth : s.threads[t]? = some th) (hr : th'.ctl ∈ reach) (l : Lck)
    (hfree : s.sh.owner l = none)
    (h1 : th'.ctl.holds l = true) (h2 : th'.ctl.holds l.other = th.ctl.holds l.other) :
    LockInv { sh := s.sh.setOwner l (some t), threads := s.threads.set t th' } := by
  constructor
  · intro u thu hu
    rcases threads_after hth hu with ⟨rfl, rfl⟩ | ⟨_, hu'⟩
    · exact hr
    · exact hi.inReach u thu hu'
  · intro l' u thu hu hn
    simp only [Shared.setOwner_noLock] at hn
    rcases Lck.eq_or_other l l' with rfl | rfl
    · simp only [Shared.setOwner_owner]
      rcases threads_after hth hu with ⟨rfl, rfl⟩ | ⟨hne, hu'⟩
      · simp [h1]
      · have := hi.own l' u thu hu' hn
        rw [hfree] at this
        simp only [reduceCtorEq, iff_false] at this
        simp [this, Ne.symm hne]
    · simp only [Shared.setOwner_owner_other]
      rcases threads_after hth hu with ⟨rfl, rfl⟩ | ⟨_, hu'⟩
      · rw [h2]; exact hi.own _ u th hth hn
      · exact hi.own _ u thu hu' hn

theorem LockInv.release {s : St} {t : Tid} {th th' : Thread} (hi : LockInv s)
    (hth : s.threads[t]? = some th) (hr : th'.ctl ∈ reach) (l : Lck)
    (hheld : th.ctl.holds l = true)
    (h1 : th'.ctl.holds l = false) (h2 : th'.ctl.holds l.other = th.ctl.holds l.other) :
    LockInv { sh := if s.sh.noLock l then s.sh else s.sh.setOwner l none, threads := s.threads.set t th' } := by
  constructor
  · intro u thu hu
    rcases threads_after hth hu with ⟨rfl, rfl⟩ | ⟨_, hu'⟩
    · exact hr
    · exact hi.inReach u thu hu'
  · intro l' u thu hu hn
    by_cases hnl : s.sh.noLock l = true
    · simp only [hnl, if_true] at hn ⊢
      rcases Lck.eq_or_other l l' with rfl | rfl
      · simp [hnl] at hn
      · rcases threads_after hth hu with ⟨rfl, rfl⟩ | ⟨_, hu'⟩
        · rw [h2]; exact hi.own _ u th hth hn
        · exact hi.own _ u thu hu' hn
    · simp only [hnl, if_false, Bool.false_eq_true] at hn ⊢
      simp only [Shared.setOwner_noLock] at hn
      rcases Lck.eq_or_other l l' with rfl | rfl
      · simp only [Shared.setOwner_owner]
        have hown := (hi.own l' t th hth hn).mp hheld
        rcases threads_after hth hu with ⟨rfl, rfl⟩ | ⟨hne, hu'⟩
        · simp [h1]
        · have := hi.own l' u thu hu' hn
          rw [hown] at this
          simp only [Option.some.injEq] at this
          simp only [reduceCtorEq, iff_false, Bool.not_eq_true]
          cases hq : Ctl.holds l' thu.ctl
          · rfl
          · exact absurd (this.mp hq).symm hne
      · simp only [Shared.setOwner_owner_other]
        rcases threads_after hth hu with ⟨rfl, rfl⟩ | ⟨_, hu'⟩
        · rw [h2]; exact hi.own _ u th hth hn
        · exact hi.own _ u thu hu' hn

theorem LockInv.step {s s' : St} {t : Tid} (hi : LockInv s) (h : step P s t = some s') : LockInv s' := by
  obtain ⟨th, sh', th', hth, hst, rfl⟩ := step_some h
  have hr := hi.inReach t th hth
  rcases stepT_cases hst with ⟨hidle, c, cs, hsc, rfl, rfl⟩ | ⟨hne, b, th0, he, rfl⟩
  · refine hi.keep hth (reach_entry c) (by simp) (by simp) ?_
    intro l _
    show (Ctl.entry P c).holds l = th.ctl.holds l
    rw [entry_holds]
    simp [Ctl.holds, hidle]
  · have hE := effect_inv he
    have hl := local_of_all (lfLock_all b) hr
    have hr' : nextCtl P th.ctl b ∈ reach := reach_next hr b
    clear hst h he
    generalize hh : th.ctl.head = hd at hE
    unfold lfLock at hl
    rw [hh] at hl
    cases hE
    case runDefer l =>
      simp at hl
      exact hi.release hth hr' l hl.1.1 hl.1.2 hl.2
    case lockTake l hn hfree =>
      simp at hl
      exact hi.acquire hth hr' l hfree hl.1.2 hl.2
    case unlock l =>
      simp at hl
      exact hi.release hth hr' l hl.1.1 hl.1.2 hl.2
    case tryTake l a e hn hfree =>
      simp at hl
      exact hi.acquire hth hr' l hfree hl.1.2 hl.2
    case lockNo l hn =>
      simp at hl
      refine hi.keep hth hr' (by intro l; rfl) (by intro l; rfl) ?_
      intro l' hn'
      rcases Lck.eq_or_other l l' with rfl | rfl
      · simp [hn] at hn'
      · exact hl.2
    case tryNo l a e hn =>
      simp at hl
      refine hi.keep hth hr' (by intro l; rfl) (by intro l; rfl) ?_
      intro l' hn'
      rcases Lck.eq_or_other l l' with rfl | rfl
      · simp [hn] at hn'
      · exact hl.2
    case tryFail l a e hn hbusy =>
      simp at hl
      refine hi.keep hth hr' (by intro l; rfl) (by intro l; rfl) ?_
      intro l' _
      rcases Lck.eq_or_other l l' with rfl | rfl
      · rw [hl.1.1, hl.1.2]
      · exact hl.2
    all_goals (
      refine hi.keep hth hr' (by intro l; cases l <;> rfl) (by intro l; rfl) ?_
      intro l _
      simp at hl
      cases l <;> simp [hl])

end Ro.Kernel

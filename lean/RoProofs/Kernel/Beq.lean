/-
  RoProofs.Kernel.Beq — `Stmt.beq` is sound: programs that compare equal are equal. (Used to turn
  the decided `beqTable RoGen.Kernel.table Expected.table = true` into an equation.)
-/
import RoModel.Kernel.Prog
namespace Ro.Kernel

mutual
theorem Stmt.beq_eq : ∀ (a b : Stmt), Stmt.beq a b = true → a = b := by
  intro a b h
  cases a <;> cases b <;> simp [Stmt.beq] at h <;> try rfl
  all_goals first
    | (subst h; rfl)
    | (obtain ⟨⟨h1, h2⟩, h3⟩ := h; subst h1; rw [Stmt.beqL_eq _ _ h2, Stmt.beqL_eq _ _ h3])
    | (obtain ⟨⟨⟨h1, h1'⟩, h2⟩, h3⟩ := h; subst h1; subst h1'; rw [Stmt.beqL_eq _ _ h2, Stmt.beqL_eq _ _ h3])
    | (obtain ⟨⟨⟨⟨h1, h1'⟩, h1''⟩, h2⟩, h3⟩ := h; subst h1; subst h1'; subst h1''; rw [Stmt.beqL_eq _ _ h2, Stmt.beqL_eq _ _ h3])
    | (obtain ⟨⟨h1, h2⟩, h3⟩ := h; subst h1; subst h2; subst h3; rfl)
theorem Stmt.beqL_eq : ∀ (a b : List Stmt), Stmt.beqL a b = true → a = b
  | [], [], _ => rfl
  | x :: xs, y :: ys, h => by
      simp [Stmt.beqL] at h
      rw [Stmt.beq_eq _ _ h.1, Stmt.beqL_eq _ _ h.2]
  | [], _ :: _, h => by simp [Stmt.beqL] at h
  | _ :: _, [], h => by simp [Stmt.beqL] at h
end

theorem Stmt.beqTable_eq : ∀ (a b : List (Meth × Prog)), Stmt.beqTable a b = true → a = b
  | [], [], _ => rfl
  | (m, p) :: xs, (m', p') :: ys, h => by
      simp [Stmt.beqTable] at h
      obtain ⟨⟨h1, h2⟩, h3⟩ := h
      rw [h1, Stmt.beqL_eq _ _ h2, Stmt.beqTable_eq _ _ h3]
  | [], _ :: _, h => by simp [Stmt.beqTable] at h
  | _ :: _, [], h => by simp [Stmt.beqTable] at h

end Ro.Kernel

/-
  RoProofs.Kernel.Main2 — the history-level and liveness invariants bundled and lifted to runs.
-/
import RoProofs.Kernel.LogPreds
import RoProofs.Kernel.Ending
import RoProofs.Kernel.Live
namespace Ro.Kernel

structure XInv (B : FinId → Nat) (s : St) : Prop where
  k : KInv B s
  late : LateInv s
  wr : WRInv s
  own : OwnerInv s

theorem xinv_reachable (mode : Mode) (destNil : Bool) (panicky : List FinId) (scripts : List (List ApiCall))
    (sched : List Tid) : XInv (idBound scripts) (run P (init mode destNil panicky scripts) sched) :=
  run_inv (XInv (idBound scripts))
    (fun _ _ _ hi h => ⟨hi.k.step h, hi.late.step hi.k h, hi.wr.step hi.k h, hi.own.step h⟩) sched _
    ⟨KInv.init .., LateInv.init .., WRInv.init .., OwnerInv.init mode destNil panicky scripts⟩

structure EInv (B : FinId → Nat) (s : St) : Prop where
  k : KInv B s
  serial : Serial s.sh
  ending : EndInv s

theorem einv_reachable (mode : Mode) (hm : mode ≠ .unsafeMode) (destNil : Bool) (panicky : List FinId)
    (scripts : List (List ApiCall)) (sched : List Tid) :
    EInv (idBound scripts) (run P (init mode destNil panicky scripts) sched) :=
  run_inv (EInv (idBound scripts))
    (fun _ _ _ hi h => ⟨hi.k.step h, by unfold Serial; rw [(step_mode h).1]; exact hi.serial,
      hi.ending.step hi.k.lock hi.k.closed hi.serial h⟩) sched _
    ⟨KInv.init .., hm, EndInv.init ..⟩

/-- no thread is inside a terminal callback -/
theorem not_inside_terminal {c : Ctl} (h : c.termPending = false) (hin : c.inside = true) (k : Kind)
    (hh : c.head = .stmt (.callDest k)) : k.isTerminal = false := by
  simpa [Ctl.termPending, Ctl.pendingKind, hin, hh] using h

end Ro.Kernel

/-
  RoProofs.Kernel.Producer — who can reach the destination: only a thread whose current call is
  Next / Error / Complete. Hence with a single producer thread at most one thread is ever inside a
  callback or armed, whatever the mutex is (the unsafe-mode half of C01(b) / C02(a)).
-/
import RoProofs.Kernel.Main
namespace Ro.Kernel

theorem eff_script {sh sh' : Shared} {t : Tid} {th th0 : Thread} {hd : Head} {b : Bool}
    (h : Eff sh t th hd b sh' th0) : th0.script = th.script := by
  cases h <;> rfl

structure ProdInv (scripts : List (List ApiCall)) (s : St) : Prop where
  orig : ∀ (t : Tid) (th : Thread), s.threads[t]? = some th → ∀ c, (th.cur = some c ∨ c ∈ th.script) →
            ∃ sc, scripts[t]? = some sc ∧ c ∈ sc
  deliver : ∀ (t : Tid) (th : Thread), s.threads[t]? = some th → th.ctl.canDeliver = true →
            ∃ c, th.cur = some c ∧ c.produces = true

theorem ProdInv.init (mode : Mode) (destNil : Bool) (panicky : List FinId) (scripts : List (List ApiCall)) :
    ProdInv scripts (init mode destNil panicky scripts) := by
  constructor
  · intro t th h c hc
    simp [Ro.Kernel.init] at h
    obtain ⟨sc, h1, rfl⟩ := h
    simp at hc
    exact ⟨sc, h1, hc⟩
  · intro t th h hd
    simp [Ro.Kernel.init] at h
    obtain ⟨sc, h1, rfl⟩ := h
    simp [Ctl.canDeliver] at hd

theorem ProdInv.step {scripts : List (List ApiCall)} {s s' : St} {t : Tid} (hl : LockInv s) (hi : ProdInv scripts s)
    (h : step P s t = some s') : ProdInv scripts s' := by
  obtain ⟨th, sh', th', hth, hst, rfl⟩ := step_some h
  have hr := hl.inReach t th hth
  rcases stepT_cases hst with ⟨hidle, c, cs, hsc, rfl, rfl⟩ | ⟨hne, b, th0, he, rfl⟩
  · constructor
    · intro u thu hu c' hc'
      rcases threads_after hth hu with ⟨rfl, rfl⟩ | ⟨_, hu'⟩
      · apply hi.orig u th hth c'
        right
        rw [hsc]
        rcases hc' with h1 | h1
        · simp only [Option.some.injEq] at h1; subst h1; simp
        · simp [h1]
      · exact hi.orig u thu hu' c' hc'
    · intro u thu hu hd
      rcases threads_after hth hu with ⟨rfl, rfl⟩ | ⟨_, hu'⟩
      · exact ⟨c, rfl, entry_canDeliver c hd⟩
      · exact hi.deliver u thu hu' hd
  · have hE := effect_inv he
    have hsc := eff_script hE
    have hcur := eff_cur hE
    constructor
    · intro u thu hu c' hc'
      rcases threads_after hth hu with ⟨rfl, rfl⟩ | ⟨_, hu'⟩
      · apply hi.orig u th hth c'
        rcases hc' with h1 | h1
        · left
          rcases hcur with h2 | h2
          · rw [← h2]; exact h1
          · rw [show ({ th0 with ctl := nextCtl P th.ctl b } : Thread).cur = th0.cur from rfl, h2] at h1; cases h1
        · right; rw [← hsc]; exact h1
      · exact hi.orig u thu hu' c' hc'
    · intro u thu hu hd
      rcases threads_after hth hu with ⟨rfl, rfl⟩ | ⟨_, hu'⟩
      · have hld := local_of_all (lfDeliver_all b) hr
        rw [show ({ th0 with ctl := nextCtl P th.ctl b } : Thread).ctl = nextCtl P th.ctl b from rfl] at hd
        simp only [lfDeliver, hd, Bool.not_true, Bool.false_or, Bool.and_eq_true] at hld
        obtain ⟨c, hc, hp⟩ := hi.deliver u th hth hld.1
        refine ⟨c, ?_, hp⟩
        rcases eff_log hE with ⟨_, h2⟩ | ⟨_, _, _, h2, _⟩ | ⟨_, hf, _, _, _⟩
        · rw [← hc, ← h2]
        · rw [← hc, ← h2]
        · exfalso
          have := local_of_all (lfFinish_all b) hr
          simp only [lfFinish, hf, Head.isFinish, Bool.not_true, Bool.false_or] at this
          rw [Ctl.beq_eq this] at hd
          simp [Ctl.canDeliver, Ctl.idle] at hd
      · exact hi.deliver u thu hu' hd

/-- at most one thread of the scripts issues Next / Error / Complete -/
def SingleProducer (scripts : List (List ApiCall)) : Prop :=
  ∀ (t u : Tid) (sct scu : List ApiCall), scripts[t]? = some sct → scripts[u]? = some scu →
    (∃ c ∈ sct, c.produces = true) → (∃ c ∈ scu, c.produces = true) → t = u

theorem ProdInv.excl {scripts : List (List ApiCall)} {s : St} (hl : LockInv s) (hi : ProdInv scripts s)
    (hsp : SingleProducer scripts) : Excl s := by
  intro t u th thu ht hu h1 h2
  have d1 := local_of_all (lfDeliver_all true) (hl.inReach t th ht)
  have d2 := local_of_all (lfDeliver_all true) (hl.inReach u thu hu)
  simp only [lfDeliver, h1, h2, Bool.not_true, Bool.false_or, Bool.and_eq_true] at d1 d2
  obtain ⟨c1, hc1, hp1⟩ := hi.deliver t th ht d1.2
  obtain ⟨c2, hc2, hp2⟩ := hi.deliver u thu hu d2.2
  obtain ⟨sc1, hs1, hm1⟩ := hi.orig t th ht c1 (Or.inl hc1)
  obtain ⟨sc2, hs2, hm2⟩ := hi.orig u thu hu c2 (Or.inl hc2)
  exact hsp t u sc1 sc2 hs1 hs2 ⟨c1, hm1, hp1⟩ ⟨c2, hm2, hp2⟩

/-- the invariants for any mode under the single-producer hypothesis -/
structure UInv (scripts : List (List ApiCall)) (s : St) : Prop where
  k : KInv (idBound scripts) s
  prod : ProdInv scripts s
  gram : GramInv s

theorem UInv.step {scripts : List (List ApiCall)} (hsp : SingleProducer scripts) {s s' : St} {t : Tid}
    (hi : UInv scripts s) (h : step P s t = some s') : UInv scripts s' :=
  ⟨hi.k.step h, hi.prod.step hi.k.lock h, hi.gram.step hi.k.lock (hi.prod.excl hi.k.lock hsp) h⟩

theorem uinv_reachable (mode : Mode) (destNil : Bool) (panicky : List FinId) (scripts : List (List ApiCall))
    (hsp : SingleProducer scripts) (sched : List Tid) :
    UInv scripts (run P (init mode destNil panicky scripts) sched) :=
  run_inv (UInv scripts) (fun _ _ _ hi h => hi.step hsp h) sched _
    ⟨KInv.init .., ProdInv.init .., GramInv.init ..⟩

end Ro.Kernel

/-
  RoProofs.Kernel.Ending — C06, "when the stream ends by itself the terminal callback has returned
  before `done` is set" (safe / eventually-safe mode): in every reachable state with `done`, no
  thread is inside, or about to begin, a terminal callback. Hence a Wait (which returns only when
  `done`) returns only after the terminal callback has returned.

  Why: `done` is set by a thread that is past its gate — an Unsubscribe that won its CAS (then the
  status was 0, so no terminal callback had been armed, and none can be armed afterwards), or an
  Error / Complete that has released `mu` (whoever is inside or armed holds `mu`, so nobody was, and
  `status ≠ 0` from its own CAS onwards).
-/
import RoProofs.Kernel.Cut
import RoProofs.Kernel.FlagsC
namespace Ro.Kernel

structure EndInv (s : St) : Prop where
  pend : ∀ (t : Tid) (th : Thread), s.threads[t]? = some th → th.ctl.termPending = true → s.sh.status ≠ 0
  gate : ∀ (u : Tid) (thu : Thread), s.threads[u]? = some thu → thu.ctl.pastGate = true →
          ∀ (t : Tid) (th : Thread), s.threads[t]? = some th → th.ctl.termPending = false
  done : s.sh.done = true → s.sh.status ≠ 0 ∧ ∀ (t : Tid) (th : Thread), s.threads[t]? = some th → th.ctl.termPending = false

theorem EndInv.init (mode : Mode) (destNil : Bool) (panicky : List FinId) (scripts : List (List ApiCall)) :
    EndInv (init mode destNil panicky scripts) := by
  have hth : ∀ (t : Tid) (th : Thread), (Ro.Kernel.init mode destNil panicky scripts).threads[t]? = some th →
      th.ctl = Ctl.idle := by
    intro t th h
    simp [Ro.Kernel.init] at h
    obtain ⟨sc, _, rfl⟩ := h
    rfl
  constructor
  · intro t th h hp; rw [hth t th h] at hp; simp [Ctl.termPending, Ctl.pendingKind, Ctl.idle, Ctl.armed, Ctl.head] at hp
  · intro u thu h hp; rw [hth u thu h] at hp; simp [Ctl.pastGate, Ctl.unsubAhead, Ctl.idle] at hp
  · simp [Ro.Kernel.init]

/-- a thread past its gate is in a closing call that has done its CAS: `status ≠ 0` -/
theorem pastGate_status {s : St} (hl : LockInv s) (hc : ClosedInv s) {u : Tid} {thu : Thread}
    (hu : s.threads[u]? = some thu) (hp : thu.ctl.pastGate = true) : s.sh.status ≠ 0 := by
  have hg := local_of_all (lfGate_all true) (hl.inReach u thu hu)
  simp only [lfGate, Bool.and_eq_true, Bool.or_eq_true, Bool.not_eq_true'] at hg
  have hbc : thu.ctl.beforeCas = false := by
    rcases hg.1.2 with h | h
    · rw [hp] at h; cases h
    · exact h
  cases hcur : thu.cur with
  | none =>
    have := hc.idle u thu hu hcur
    rw [this] at hp
    simp [Ctl.pastGate, Ctl.unsubAhead, Ctl.idle] at hp
  | some c =>
    have hrm := hc.busy u thu c hu hcur
    have hno := List.all_eq_true.mp lfGateCalls
    cases c with
    | error e => exact hc.past u thu _ hu hcur rfl hbc
    | complete => exact hc.past u thu _ hu hcur rfl hbc
    | unsubscribe => exact hc.past u thu _ hu hcur rfl hbc
    | next v => have := localM (hno .subNext (by simp)) hrm; simp [hp] at this
    | add f => have := localM (hno .snAdd (by simp)) hrm; simp [hp] at this
    | wait f => have := localM (hno .snWait (by simp)) hrm; simp [hp] at this
    | isClosed => have := localM (hno .subIsClosed (by simp)) hrm; simp [hp] at this

theorem eff_done {sh sh' : Shared} {t : Tid} {th th0 : Thread} {hd : Head} {b : Bool}
    (h : Eff sh t th hd b sh' th0) : sh'.done = sh.done ∨ (hd = .stmt .setDone ∧ sh'.done = true) := by
  cases h
  case setDone => exact Or.inr ⟨rfl, rfl⟩
  all_goals left
  all_goals first
    | rfl
    | (split <;> (try rfl) <;> (rename_i l _; cases l <;> rfl))
    | (rename_i l; cases l <;> rfl)
    | (rename_i l _ _; cases l <;> rfl)
    | (rename_i l _ _ _ _; cases l <;> rfl)

theorem EndInv.step {s s' : St} {t : Tid} (hl : LockInv s) (hc : ClosedInv s) (hs : Serial s.sh) (hi : EndInv s)
    (h : step P s t = some s') : EndInv s' := by
  have hmono := fun hs0 => status_mono hl h hs0
  obtain ⟨th, sh', th', hth, hst, rfl⟩ := step_some h
  have hr := hl.inReach t th hth
  rcases stepT_cases hst with ⟨hidle, c, cs, hsc, rfl, rfl⟩ | ⟨hne, b, th0, he, rfl⟩
  · -- a new call: the entry state is neither pending nor past a gate
    obtain ⟨hg, hp⟩ := entry_gate c
    constructor
    · intro u thu hu hpu
      rcases threads_after hth hu with ⟨rfl, rfl⟩ | ⟨_, hu'⟩
      · rw [show ({ th with ctl := Ctl.entry P c, cur := some c, script := cs } : Thread).ctl = Ctl.entry P c from rfl, hp] at hpu
        cases hpu
      · exact hi.pend u thu hu' hpu
    · intro u thu hu hpu v thv hv
      have hu0 : u ≠ t := by
        intro h0; subst h0
        rw [threads_set_self hth] at hu
        obtain rfl := Option.some.inj hu
        rw [show ({ th with ctl := Ctl.entry P c, cur := some c, script := cs } : Thread).ctl = Ctl.entry P c from rfl, hg] at hpu
        cases hpu
      rw [threads_set_other hu0] at hu
      rcases threads_after hth hv with ⟨rfl, rfl⟩ | ⟨_, hv'⟩
      · exact hp
      · exact hi.gate u thu hu hpu v thv hv'
    · intro hd
      obtain ⟨h1, h2⟩ := hi.done hd
      refine ⟨h1, ?_⟩
      intro v thv hv
      rcases threads_after hth hv with ⟨rfl, rfl⟩ | ⟨_, hv'⟩
      · exact hp
      · exact h2 v thv hv'
  · have hE := effect_inv he
    have hg := local_of_all (lfGate_all b) hr
    have hlc := local_of_all lfCas_all hr
    simp only [lfGate, Bool.and_eq_true, Bool.or_eq_true, Bool.not_eq_true', Bool.and_eq_false_iff] at hg
    obtain ⟨⟨⟨⟨⟨⟨g1, g2⟩, g3⟩, g4⟩, g5⟩, g6⟩, g7⟩ := hg
    have hctl : ({ th0 with ctl := nextCtl P th.ctl b } : Thread).ctl = nextCtl P th.ctl b := rfl
    -- a status CAS at the head that succeeds: the status was 0 and becomes non-zero
    have hcas : th.ctl.head.isStatusCas = true → b = true → s.sh.status = 0 ∧ sh'.status ≠ 0 := by
      intro h1 h2
      cases hh : th.ctl.head with
      | stmt st =>
        unfold lfCas at hlc
        rw [hh] at h1 hE hlc
        cases st <;> simp [Head.isStatusCas, Stmt.isStatusCas] at h1
        rename_i fl a v x y
        cases fl <;> simp [Stmt.isStatusCas] at h1
        simp only [Bool.and_eq_true, beq_iff_eq, bne_iff_ne] at hlc
        obtain ⟨⟨_, rfl⟩, hv⟩ := hlc
        subst h2
        cases hE
        rename_i hs0
        exact ⟨hs0, hv⟩
      | _ => rw [hh] at h1; simp [Head.isStatusCas] at h1
    -- whether the stepping thread is (newly) pending afterwards
    have hnewPend : (nextCtl P th.ctl b).termPending = true → th.ctl.termPending = false →
        s.sh.status = 0 ∧ sh'.status ≠ 0 := by
      intro h1 h2
      rcases g4 with h | h
      · rcases h with h | h
        · rw [h1] at h; cases h
        · rw [h2] at h; cases h
      · exact hcas h.1 h.2
    have hstat : s.sh.status ≠ 0 → sh'.status ≠ 0 := fun h0 => by
      rw [show sh'.status = s.sh.status from hmono h0]; exact h0
    constructor
    · -- pend
      intro u thu hu hpu
      rcases threads_after hth hu with ⟨rfl, rfl⟩ | ⟨_, hu'⟩
      · rw [hctl] at hpu
        cases hold : th.ctl.termPending with
        | true => exact hstat (hi.pend u th hth hold)
        | false => exact (hnewPend hpu hold).2
      · exact hstat (hi.pend u thu hu' hpu)
    · -- gate
      intro u thu hu hpu v thv hv
      cases hvp : thv.ctl.termPending with
      | false => rfl
      | true =>
        exfalso
        rcases threads_after hth hu with ⟨rfl, rfl⟩ | ⟨hut, hu'⟩
        · rw [hctl] at hpu
          rcases threads_after hth hv with ⟨_, rfl⟩ | ⟨hvt, hv'⟩
          · -- the same thread: past the gate and pending at once
            rw [hctl] at hvp
            have := local_of_all (lfGate_all b) (reach_next hr b)
            simp only [lfGate, Bool.and_eq_true, Bool.or_eq_true, Bool.not_eq_true', Bool.and_eq_false_iff] at this
            rcases this.1.1.1.1.2 with h0 | h0
            · rw [hvp] at h0; cases h0
            · rw [hpu] at h0; cases h0
          · -- u steps and is past the gate afterwards; v ≠ u is pending (unchanged)
            cases hold : th.ctl.pastGate with
            | true =>
              have := hi.gate u th hth hold v thv hv'
              rw [hvp] at this; cases this
            | false =>
              rcases g2 with h0 | h0
              · rcases h0 with h0 | h0
                · rcases h0 with h0 | h0
                  · rw [hpu] at h0; cases h0
                  · rw [hold] at h0; cases h0
                · -- won the CAS: status was 0, but a pending thread has status ≠ 0
                  exact hi.pend v thv hv' hvp (hcas h0.1 h0.2).1
              · -- releases mu: it owns mu, and so would the pending thread
                have o1 := (hl.own .mu u th hth (hs.noLock _)).mp (g7.resolve_left (by simp [h0]))
                have hv5 := local_of_all (lfGate_all true) (hl.inReach v thv hv')
                simp only [lfGate, Bool.and_eq_true, Bool.or_eq_true, Bool.not_eq_true', Bool.and_eq_false_iff] at hv5
                have hia : (thv.ctl.inside || thv.ctl.armed.isSome) = true := by
                  rcases hv5.1.1.2 with h1 | h1
                  · rcases h1 with h1 | h1
                    · rw [hvp] at h1; cases h1
                    · simp [h1]
                  · simp [h1]
                have a2 := local_of_all lfArmedHolds_all (hl.inReach v thv hv')
                simp only [lfArmedHolds, hia, Bool.not_true, Bool.false_or] at a2
                have o2 := (hl.own .mu v thv hv' (hs.noLock _)).mp a2
                rw [o1] at o2
                exact hvt (Option.some.inj o2).symm
        · rcases threads_after hth hv with ⟨rfl, rfl⟩ | ⟨_, hv'⟩
          · -- another thread is past the gate; the stepping thread is pending afterwards
            rw [hctl] at hvp
            cases hold : th.ctl.termPending with
            | true =>
              have := hi.gate u thu hu' hpu v th hth
              rw [hold] at this; cases this
            | false => exact pastGate_status hl hc hu' hpu (hnewPend hvp hold).1
          · have := hi.gate u thu hu' hpu v thv hv'
            rw [hvp] at this; cases this
    · -- done
      intro hd
      have hbefore : s.sh.status ≠ 0 ∧ ∀ (v : Tid) (thv : Thread), s.threads[v]? = some thv → thv.ctl.termPending = false := by
        rcases eff_done hE with h0 | ⟨hh, _⟩
        · exact hi.done (by rw [← h0]; exact hd)
        · have hpg : th.ctl.pastGate = true := by
            rcases g1 with h0 | h0
            · rw [hh] at h0; simp [Head.isSetDone] at h0
            · exact h0
          exact ⟨pastGate_status hl hc hth hpg, hi.gate t th hth hpg⟩
      refine ⟨hstat hbefore.1, ?_⟩
      intro v thv hv
      rcases threads_after hth hv with ⟨rfl, rfl⟩ | ⟨_, hv'⟩
      · cases hvp : (nextCtl P th.ctl b).termPending with
        | false => rfl
        | true => exact absurd (hnewPend hvp (hbefore.2 v th hth)).1 hbefore.1
      · exact hbefore.2 v thv hv'

end Ro.Kernel

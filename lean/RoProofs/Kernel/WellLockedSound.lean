/-
  RoProofs.Kernel.WellLockedSound — soundness of the lock-discipline checker for ARBITRARY program
  tables: if `wellLocked table`, then in safe / eventually-safe mode, for every number of threads,
  scripts and schedule, at most one thread is inside a callback in every reachable state of
  `run (lookup table)`.

  Invariant: every thread's stack is typable from the lock state "mu names this thread the owner":
  the top frame's body checks from that state to not-held, the callers' frames from not-held to
  not-held, no frame defers an unlock of `mu`, a thread inside a callback has the `callDest` at its
  head (which only checks when held), an unwinding thread has an empty top body.
-/
import RoModel.Kernel.WellLocked
import RoProofs.Kernel.Eff
import RoProofs.Kernel.Step
namespace Ro.Kernel

theorem chkL_append (h : Bool) (a k : List Stmt) : chkL h (a ++ k) = (chkL h a).bind fun h' => chkL h' k := by
  induction a generalizing h with
  | nil => simp [chkL, Out.bind]
  | cons s r ih =>
    simp only [List.cons_append, chkL]
    cases chkS h s <;> simp [Out.bind, ih]

theorem Out.ok_join_left {oa ob : Out} {f : Bool → Out} (h : ((oa.join ob).bind f).ok = true) : (oa.bind f).ok = true := by
  cases oa with
  | err => cases ob <;> simp [Out.join, Out.bind, Out.ok] at h
  | ret => simp [Out.bind, Out.ok]
  | fall a =>
    cases ob with
    | err => simp [Out.join, Out.bind, Out.ok] at h
    | ret => simpa [Out.join, Out.bind] using h
    | fall b =>
      by_cases hab : a = b
      · simpa [Out.join, Out.bind, hab] using h
      · simp [Out.join, Out.bind, hab, Out.ok] at h

theorem Out.ok_join_right {oa ob : Out} {f : Bool → Out} (h : ((oa.join ob).bind f).ok = true) : (ob.bind f).ok = true := by
  cases ob with
  | err => cases oa <;> simp [Out.join, Out.bind, Out.ok] at h
  | ret => simp [Out.bind, Out.ok]
  | fall b =>
    cases oa with
    | err => simp [Out.join, Out.bind, Out.ok] at h
    | ret => simpa [Out.join, Out.bind] using h
    | fall a =>
      by_cases hab : a = b
      · subst hab; simpa [Out.join, Out.bind] using h
      · simp [Out.join, Out.bind, hab, Out.ok] at h

def frameOk (h : Bool) (fr : Frame) : Bool := (chkL h fr.body).ok && !fr.defers.contains .mu

def Stmt.isCallDest : Stmt → Bool
  | .callDest _ => true
  | _ => false

/-- the stack of a thread is typable from lock state `h` -/
def Ctl.wl (h : Bool) (c : Ctl) : Bool :=
  match c.stack with
  | [] => !h && !c.inside
  | fr :: rest =>
    frameOk h fr && rest.all (frameOk false) &&
    (!c.inside || (match fr.body with | s :: _ => s.isCallDest | [] => false)) &&
    (!c.panicking || fr.body.isEmpty)

def WL (s : St) : Prop :=
  ∀ (t : Tid) (th : Thread), s.threads[t]? = some th → th.ctl.wl (decide (s.sh.mu = some t)) = true

/-! ### shape of the stack from the head -/

theorem head_stmt {c : Ctl} {s : Stmt} (h : c.head = .stmt s) :
    ∃ fr rest k, c.stack = fr :: rest ∧ fr.body = s :: k ∧ c.panicking = false := by
  unfold Ctl.head at h
  split at h
  · cases h
  · rename_i fr rest hs
    split at h
    · split at h <;> (try split at h) <;> cases h
    · rename_i s' k hb
      split at h
      · cases h
      · rename_i hp
        cases h
        exact ⟨fr, rest, k, hs, hb, by simpa using hp⟩

theorem head_other {c : Ctl} :
    (c.head = .unwind → ∃ fr rest s k, c.stack = fr :: rest ∧ fr.body = s :: k ∧ c.panicking = true) ∧
    (c.head = .finish → ∃ fr, c.stack = [fr] ∧ fr.body = [] ∧ fr.defers = []) ∧
    (c.head = .pop → ∃ fr g gs, c.stack = fr :: g :: gs ∧ fr.body = [] ∧ fr.defers = []) ∧
    (∀ l, c.head = .runDefer l → ∃ fr rest ds, c.stack = fr :: rest ∧ fr.body = [] ∧ fr.defers = l :: ds) := by
  unfold Ctl.head
  cases hs : c.stack with
  | nil => simp
  | cons fr rest =>
    cases hb : fr.body with
    | nil =>
      cases hd : fr.defers with
      | nil =>
        cases rest with
        | nil => simp [hb, hd]
        | cons g gs => simp [hb, hd]
      | cons l ds => simp [hb, hd]
    | cons s k =>
      cases hp : c.panicking <;> simp [hb, hp]


/-! ### preservation -/

/-- every interpreted method of the table is accepted -/
def ProgsOk (progs : Meth → Prog) : Prop := ∀ m, Meth.interpreted.contains m = true → (chkL false (progs m)).ok = true

theorem entry_interpreted (c : ApiCall) : Meth.interpreted.contains c.entry = true := by
  cases c <;> simp only [ApiCall.entry] <;> decide

theorem WL.update {s : St} {t : Tid} {th th' : Thread} {sh' : Shared} (hi : WL s) (hth : s.threads[t]? = some th)
    (hother : ∀ u, u ≠ t → decide (sh'.mu = some u) = decide (s.sh.mu = some u))
    (hself : th'.ctl.wl (decide (sh'.mu = some t)) = true) :
    WL { sh := sh', threads := s.threads.set t th' } := by
  intro u thu hu
  rcases threads_after hth hu with ⟨rfl, rfl⟩ | ⟨hne, hu'⟩
  · exact hself
  · show thu.ctl.wl (decide (sh'.mu = some u)) = true
    rw [hother u hne]
    exact hi u thu hu'

theorem setOwner_mu_sub (sh : Shared) (o : Option Tid) : (sh.setOwner .subMu o).mu = sh.mu := rfl
theorem setOwner_mu_mu (sh : Shared) (o : Option Tid) : (sh.setOwner .mu o).mu = o := rfl

theorem WL.step {progs : Meth → Prog} (hp : ProgsOk progs) {s s' : St} {t : Tid} (hm : s.sh.mode ≠ .unsafeMode)
    (hi : WL s) (h : step progs s t = some s') : WL s' := by
  obtain ⟨th, sh', th', hth, hst, rfl⟩ := step_some h
  have hwl := hi t th hth
  have hnl : ∀ l, s.sh.noLock l = false := by
    intro l; cases l <;> simp [Shared.noLock]; exact hm
  rcases stepT_cases hst with ⟨hidle, c, cs, hsc, rfl, rfl⟩ | ⟨hne, b, th0, he, rfl⟩
  · refine hi.update hth (fun _ _ => rfl) ?_
    have h0 : decide (s.sh.mu = some t) = false := by
      simp only [Ctl.wl, hidle, Bool.and_eq_true, Bool.not_eq_true'] at hwl
      exact hwl.1
    show (Ctl.entry progs c).wl (decide ((s.sh.emit (.call t c)).mu = some t)) = true
    rw [show (s.sh.emit (.call t c)).mu = s.sh.mu from rfl, h0]
    simp [Ctl.wl, Ctl.entry, frameOk, hp _ (entry_interpreted c)]
  · have hE := effect_inv he
    clear hst h he
    generalize hh : th.ctl.head = hd at hE
    rcases hctl : th.ctl with ⟨stk, ins, pan⟩
    rw [hctl] at hh hwl hne
    cases hE
    -- statements that neither touch `mu` nor branch
    case drop | setDone | swap | append | recv | runTakenCons | runTakenNil | raiseNil | ret | retLoad | retFld =>
      obtain ⟨fr, rest, kk, hs, hb, hpn⟩ := head_stmt hh
      simp only at hs hpn
      subst hs hpn
      refine hi.update hth (fun _ _ => rfl) ?_
      by_cases hmu : s.sh.mu = some t <;>
        simp [Ctl.wl, frameOk, hb, chkL, chkS, Out.bind, Out.ok, nextCtl, Ctl.setBody, Stmt.isCallDest, Shared.emit, hmu] at hwl ⊢ <;>
        first
          | exact ⟨hwl.1, Or.inl hwl.2⟩
          | exact hwl
          | exact ⟨hwl.1.2, hwl.2.1⟩
          | trace_state
    -- branches: the chosen branch checks like the whole test did
    case loadEq | fldEq | casOk | casFail | isNil =>
      obtain ⟨fr, rest, kk, hs, hb, hpn⟩ := head_stmt hh
      simp only at hs hpn
      subst hs hpn
      refine hi.update hth (fun _ _ => rfl) ?_
      simp [Ctl.wl, frameOk, hb, chkL, chkS, Stmt.isCallDest] at hwl
      obtain ⟨⟨⟨hok, hdf⟩, hrest⟩, hins⟩ := hwl
      subst hins
      simp [Ctl.wl, frameOk, nextCtl, Ctl.setBody, hb, hdf]
      refine ⟨?_, hrest⟩
      rw [chkL_append]
      first
        | exact Out.ok_join_left hok
        | exact Out.ok_join_right hok
        | (split
           · exact Out.ok_join_left hok
           · exact Out.ok_join_right hok)
    case lockNo l hn => simp [hnl] at hn
    case tryNo l a e hn => simp [hnl] at hn
    case unwind =>
      obtain ⟨fr, rest, s0, kk, hs, hb, hpn⟩ := head_other.1 hh
      simp only at hs hpn
      subst hs hpn
      simp [Ctl.wl, hb] at hwl
    case finishNone | finishCall =>
      obtain ⟨fr, hs, hb, hd⟩ := head_other.2.1 hh
      simp only at hs
      subst hs
      refine hi.update hth (fun _ _ => rfl) ?_
      by_cases hmu : s.sh.mu = some t <;>
        simp [Ctl.wl, frameOk, hb, hd, chkL, Out.ok, nextCtl, Ctl.idle, Shared.emit, hmu] at hwl ⊢
    case pop =>
      obtain ⟨fr, g, gs, hs, hb, hd⟩ := head_other.2.2.1 hh
      simp only at hs
      subst hs
      refine hi.update hth (fun _ _ => rfl) ?_
      by_cases hmu : s.sh.mu = some t <;>
        simp [Ctl.wl, frameOk, hb, hd, chkL, Out.ok, nextCtl, hmu] at hwl ⊢
      obtain ⟨⟨hg, hrest⟩, hins⟩ := hwl
      subst hins
      cases pan <;> simp [frameOk, chkL, Out.ok, hg, hrest] <;> simp_all [frameOk]
    case runDefer l =>
      obtain ⟨fr, rest, ds, hs, hb, hd⟩ := head_other.2.2.2 l hh
      simp only at hs
      subst hs
      cases l with
      | mu => simp [Ctl.wl, frameOk, hd] at hwl
      | subMu =>
        refine hi.update hth (fun _ _ => by simp only [hnl]; rfl) ?_
        simp [Ctl.wl, frameOk, hb, hd, nextCtl, hnl, setOwner_mu_sub] at hwl ⊢
        exact hwl
    case deferUnlock l =>
      obtain ⟨fr, rest, kk, hs, hb, hpn⟩ := head_stmt hh
      simp only at hs hpn
      subst hs hpn
      refine hi.update hth (fun _ _ => rfl) ?_
      cases l <;> by_cases hmu : s.sh.mu = some t <;>
        simp [Ctl.wl, frameOk, hb, chkL, chkS, Out.bind, Out.ok, nextCtl, Stmt.isCallDest, hmu] at hwl ⊢ <;>
        exact ⟨hwl.1, Or.inl hwl.2⟩
    case lockTake l hn hfree =>
      obtain ⟨fr, rest, kk, hs, hb, hpn⟩ := head_stmt hh
      simp only at hs hpn
      subst hs hpn
      cases l with
      | subMu =>
        refine hi.update hth (fun _ _ => rfl) ?_
        by_cases hmu : s.sh.mu = some t <;>
          simp [Ctl.wl, frameOk, hb, chkL, chkS, Out.bind, Out.ok, nextCtl, Ctl.setBody, Stmt.isCallDest, setOwner_mu_sub, hmu] at hwl ⊢ <;>
          exact ⟨hwl.1, Or.inl hwl.2⟩
      | mu =>
        have hnone : s.sh.mu = none := hfree
        refine hi.update hth (fun u hu => by simp [setOwner_mu_mu, hnone, Ne.symm hu]) ?_
        simp [Ctl.wl, frameOk, hb, chkL, chkS, Out.bind, Out.ok, nextCtl, Ctl.setBody, Stmt.isCallDest, setOwner_mu_mu, hnone] at hwl ⊢
        exact ⟨hwl.1, Or.inl hwl.2⟩
    case unlock l =>
      obtain ⟨fr, rest, kk, hs, hb, hpn⟩ := head_stmt hh
      simp only at hs hpn
      subst hs hpn
      cases l with
      | subMu =>
        refine hi.update hth (fun _ _ => by simp only [hnl]; rfl) ?_
        by_cases hmu : s.sh.mu = some t <;>
          simp [Ctl.wl, frameOk, hb, chkL, chkS, Out.bind, Out.ok, nextCtl, Ctl.setBody, Stmt.isCallDest, setOwner_mu_sub, hnl, hmu] at hwl ⊢ <;>
          exact ⟨hwl.1, Or.inl hwl.2⟩
      | mu =>
        by_cases hmu : s.sh.mu = some t
        · refine hi.update hth (fun u hu => by simp [hnl, setOwner_mu_mu, hmu, Ne.symm hu]) ?_
          simp [Ctl.wl, frameOk, hb, chkL, chkS, Out.bind, Out.ok, nextCtl, Ctl.setBody, Stmt.isCallDest, setOwner_mu_mu, hnl, hmu] at hwl ⊢
          exact ⟨hwl.1, Or.inl hwl.2⟩
        · simp [Ctl.wl, frameOk, hb, chkL, chkS, Out.bind, Out.ok, hmu] at hwl
    case tryTake l a e hn hfree =>
      obtain ⟨fr, rest, kk, hs, hb, hpn⟩ := head_stmt hh
      simp only at hs hpn
      subst hs hpn
      cases l with
      | subMu =>
        refine hi.update hth (fun _ _ => rfl) ?_
        simp [Ctl.wl, frameOk, hb, chkL, chkS, Stmt.isCallDest] at hwl
        obtain ⟨⟨⟨hok, hdf⟩, hrest⟩, hins⟩ := hwl
        subst hins
        simp [Ctl.wl, frameOk, nextCtl, Ctl.setBody, hb, hdf, setOwner_mu_sub]
        refine ⟨?_, hrest⟩
        rw [chkL_append]
        exact Out.ok_join_left hok
      | mu =>
        have hnone : s.sh.mu = none := hfree
        refine hi.update hth (fun u hu => by simp [setOwner_mu_mu, hnone, Ne.symm hu]) ?_
        simp [Ctl.wl, frameOk, hb, chkL, chkS, Stmt.isCallDest, hnone] at hwl
        obtain ⟨⟨⟨hok, hdf⟩, hrest⟩, hins⟩ := hwl
        subst hins
        simp [Ctl.wl, frameOk, nextCtl, Ctl.setBody, hb, hdf, setOwner_mu_mu]
        refine ⟨?_, hrest⟩
        rw [chkL_append]
        exact Out.ok_join_left hok
    case tryFail l a e hn hbusy =>
      obtain ⟨fr, rest, kk, hs, hb, hpn⟩ := head_stmt hh
      simp only at hs hpn
      subst hs hpn
      refine hi.update hth (fun _ _ => rfl) ?_
      cases l with
      | subMu =>
        simp [Ctl.wl, frameOk, hb, chkL, chkS, Stmt.isCallDest] at hwl
        obtain ⟨⟨⟨hok, hdf⟩, hrest⟩, hins⟩ := hwl
        subst hins
        simp [Ctl.wl, frameOk, nextCtl, Ctl.setBody, hb, hdf]
        refine ⟨?_, hrest⟩
        rw [chkL_append]
        exact Out.ok_join_right hok
      | mu =>
        by_cases hmu : s.sh.mu = some t
        · simp [Ctl.wl, frameOk, hb, chkL, chkS, Out.bind, Out.ok, hmu] at hwl
        · simp [Ctl.wl, frameOk, hb, chkL, chkS, Stmt.isCallDest, hmu] at hwl
          obtain ⟨⟨⟨hok, hdf⟩, hrest⟩, hins⟩ := hwl
          subst hins
          simp [Ctl.wl, frameOk, nextCtl, Ctl.setBody, hb, hdf, hmu]
          refine ⟨?_, hrest⟩
          rw [chkL_append]
          exact Out.ok_join_right hok
    case cbBegin k hi0 =>
      obtain ⟨fr, rest, kk, hs, hb, hpn⟩ := head_stmt hh
      rw [hctl] at hi0
      simp only at hs hpn hi0
      subst hs hpn hi0
      refine hi.update hth (fun _ _ => rfl) ?_
      simp [Ctl.wl, frameOk, hb, nextCtl, Stmt.isCallDest, Shared.emit] at hwl ⊢
      exact hwl
    case cbEnd k hi0 =>
      obtain ⟨fr, rest, kk, hs, hb, hpn⟩ := head_stmt hh
      rw [hctl] at hi0
      simp only at hs hpn hi0
      subst hs hpn hi0
      refine hi.update hth (fun _ _ => rfl) ?_
      by_cases hmu : s.sh.mu = some t <;>
        simp [Ctl.wl, frameOk, hb, chkL, chkS, Out.bind, Out.ok, nextCtl, Ctl.setBody, Stmt.isCallDest, Shared.emit, hmu] at hwl ⊢
      exact hwl
    case callSelf m =>
      obtain ⟨fr, rest, kk, hs, hb, hpn⟩ := head_stmt hh
      simp only at hs hpn
      subst hs hpn
      refine hi.update hth (fun _ _ => rfl) ?_
      by_cases hmu : s.sh.mu = some t
      · simp [Ctl.wl, frameOk, hb, chkL, chkS, Out.bind, Out.ok, hmu] at hwl
      · by_cases hmi : Meth.interpreted.contains m = true
        · have hpm := hp m hmi
          simp at hmi
          simp [Ctl.wl, frameOk, hb, chkL, chkS, Out.bind, Out.ok, nextCtl, Stmt.isCallDest, hmu, hmi] at hwl ⊢
          exact ⟨⟨hpm, hwl.1.1, hwl.1.2⟩, Or.inl hwl.2⟩
        · simp at hmi
          simp [Ctl.wl, frameOk, hb, chkL, chkS, Out.bind, Out.ok, hmu, hmi] at hwl
    case raiseCons p ps hp0 =>
      obtain ⟨fr, rest, kk, hs, hb, hpn⟩ := head_stmt hh
      simp only at hs hpn
      subst hs hpn
      refine hi.update hth (fun _ _ => rfl) ?_
      by_cases hmu : s.sh.mu = some t <;>
        simp [Ctl.wl, frameOk, hb, chkL, chkS, Out.bind, Out.ok, nextCtl, Ctl.setBody, Stmt.isCallDest, Shared.emit, hmu] at hwl ⊢
      exact ⟨⟨hwl.1.1.2, hwl.1.2⟩, hwl.2⟩
    case runNow =>
      obtain ⟨fr, rest, kk, hs, hb, hpn⟩ := head_stmt hh
      simp only at hs hpn
      subst hs hpn
      refine hi.update hth (fun _ _ => rfl) ?_
      by_cases hmu : s.sh.mu = some t <;>
        simp [Ctl.wl, frameOk, hb, chkL, chkS, Out.bind, Out.ok, nextCtl, Ctl.setBody, Stmt.isCallDest, Shared.emit, hmu] at hwl ⊢
      obtain ⟨⟨⟨hok, hdf⟩, hrest⟩, hins⟩ := hwl
      subst hins
      by_cases hpk : th.f ∈ s.sh.panicky <;> simp [hpk, frameOk, chkL, Out.ok, hdf, hok] <;> exact hrest


/-! ### the theorem -/

theorem progsOk_of_wellLocked {table : List (Meth × Prog)} (hw : wellLocked table = true) : ProgsOk (lookup table) := by
  intro m hm
  simp only [wellLocked, List.all_eq_true] at hw
  exact hw m (by simpa using hm)

theorem wl_inside {h : Bool} {c : Ctl} (hw : c.wl h = true) (hin : c.inside = true) : h = true := by
  unfold Ctl.wl at hw
  split at hw
  · simp [hin] at hw
  · rename_i fr rest hs
    simp only [Bool.and_eq_true, hin, Bool.not_true, Bool.false_or, frameOk] at hw
    obtain ⟨⟨⟨⟨hok, _⟩, _⟩, hcd⟩, _⟩ := hw
    split at hcd
    · rename_i s k hb
      cases s <;> simp [Stmt.isCallDest] at hcd
      cases h
      · simp [hb, chkL, chkS, Out.bind, Out.ok] at hok
      · rfl
    · cases hcd

theorem eff_mode' {sh sh' : Shared} {t : Tid} {th th0 : Thread} {hd : Head} {b : Bool}
    (h : Eff sh t th hd b sh' th0) : sh'.mode = sh.mode := by
  cases h
  all_goals first
    | rfl
    | (split <;> (try rfl) <;> (rename_i l _; cases l <;> rfl))
    | (rename_i l; cases l <;> rfl)
    | (rename_i l _ _; cases l <;> rfl)
    | (rename_i l _ _ _ _; cases l <;> rfl)

/-- C02(a) for ARBITRARY programs accepted by the lock-discipline checker: in safe /
    eventually-safe mode at most one thread is inside a callback, for every number of threads,
    scripts and schedule. -/
theorem wellLocked_sound (table : List (Meth × Prog)) (hw : wellLocked table = true)
    (mode : Mode) (hm : mode ≠ .unsafeMode) (destNil : Bool) (panicky : List FinId)
    (scripts : List (List ApiCall)) (sched : List Tid) (t u : Tid) (th thu : Thread)
    (ht : (run (lookup table) (init mode destNil panicky scripts) sched).threads[t]? = some th)
    (hu : (run (lookup table) (init mode destNil panicky scripts) sched).threads[u]? = some thu)
    (h1 : th.ctl.inside = true) (h2 : thu.ctl.inside = true) : t = u := by
  have hinv : (fun s : St => s.sh.mode ≠ .unsafeMode ∧ WL s) (run (lookup table) (init mode destNil panicky scripts) sched) := by
    apply run_inv (progs := lookup table) (fun s : St => s.sh.mode ≠ .unsafeMode ∧ WL s)
    · intro s t s' ⟨hmode, hwl⟩ hstep
      refine ⟨?_, hwl.step (progsOk_of_wellLocked hw) hmode hstep⟩
      obtain ⟨th, sh', th', hth, hst, rfl⟩ := step_some hstep
      rcases stepT_cases hst with ⟨_, c, cs, _, rfl, rfl⟩ | ⟨_, b, th0, he, rfl⟩
      · exact hmode
      · show sh'.mode ≠ _
        rw [eff_mode' (effect_inv he)]; exact hmode
    · refine ⟨hm, ?_⟩
      intro t th h
      simp [Ro.Kernel.init] at h
      obtain ⟨sc, _, rfl⟩ := h
      simp [Ctl.wl, Ro.Kernel.init]
  have a1 := wl_inside (hinv.2 t th ht) h1
  have a2 := wl_inside (hinv.2 u thu hu) h2
  simp only [decide_eq_true_eq] at a1 a2
  rw [a1] at a2
  exact Option.some.inj a2

/-- the invariant behind `wellLocked_sound`, exported: every reachable state of an accepted table is typable -/
theorem wellLocked_reachable (table : List (Meth × Prog)) (hw : wellLocked table = true)
    (mode : Mode) (hm : mode ≠ .unsafeMode) (destNil : Bool) (panicky : List FinId)
    (scripts : List (List ApiCall)) (sched : List Tid) :
    WL (run (lookup table) (init mode destNil panicky scripts) sched) := by
  have hinv : (fun s : St => s.sh.mode ≠ .unsafeMode ∧ WL s) (run (lookup table) (init mode destNil panicky scripts) sched) := by
    apply run_inv (progs := lookup table) (fun s : St => s.sh.mode ≠ .unsafeMode ∧ WL s)
    · intro s t s' ⟨hmode, hwl⟩ hstep
      refine ⟨?_, hwl.step (progsOk_of_wellLocked hw) hmode hstep⟩
      obtain ⟨th, sh', th', hth, hst, rfl⟩ := step_some hstep
      rcases stepT_cases hst with ⟨_, c, cs, _, rfl, rfl⟩ | ⟨_, b, th0, he, rfl⟩
      · exact hmode
      · show sh'.mode ≠ _
        rw [eff_mode' (effect_inv he)]; exact hmode
    · refine ⟨hm, ?_⟩
      intro t th h
      simp [Ro.Kernel.init] at h
      obtain ⟨sc, _, rfl⟩ := h
      simp [Ctl.wl, Ro.Kernel.init]
  exact hinv.2

/-- C06 / C03 for ARBITRARY programs accepted by the checker: a thread that is about to run a teardown
    (one of the taken finalizers in Unsubscribe's loop, or the teardown that Add runs at once on a disposed
    subscription) or to re-raise the joined panics does NOT hold the producer lock — so a teardown that waits
    for another producer of the same subscriber (stop the goroutine, wait until it has left) cannot deadlock
    on `mu`, whatever the schedule. -/
theorem wellLocked_teardowns_outside_mu (table : List (Meth × Prog)) (hw : wellLocked table = true)
    (mode : Mode) (hm : mode ≠ .unsafeMode) (destNil : Bool) (panicky : List FinId)
    (scripts : List (List ApiCall)) (sched : List Tid) (t : Tid) (th : Thread)
    (ht : (run (lookup table) (init mode destNil panicky scripts) sched).threads[t]? = some th)
    (hh : th.ctl.head = .stmt .runTaken ∨ th.ctl.head = .stmt .runNow ∨ th.ctl.head = .stmt .raiseJoined) :
    (run (lookup table) (init mode destNil panicky scripts) sched).sh.mu ≠ some t := by
  have hwl := wellLocked_reachable table hw mode hm destNil panicky scripts sched t th ht
  intro hmu
  rcases hh with hh | hh | hh <;>
  · obtain ⟨fr, rest, k, hs, hb, _⟩ := head_stmt hh
    simp [Ctl.wl, hs, frameOk, hb, chkL, chkS, Out.bind, Out.ok, hmu] at hwl

end Ro.Kernel

/-
  RoProofs.Kernel.LogPreds — the C06 / C03 predicates of `Kernel.Preds` on the WHOLE history, for
  every schedule: `cutLog` (once a closing call has returned, no call whose call event is later
  logs a callback-begin), `isClosedLog` (… and every later-called IsClosed returns true), `waitLog`
  (a Wait's return is preceded by the run of its finalizer), `raiseLog` (the joined panic is
  preceded by the runs of the finalizers it names).
-/
import RoProofs.Kernel.Cut
namespace Ro.Kernel

/-! ### the scanning state of `cutFrom` / `closedFrom` -/

def scanStep (st : Bool × List Tid) : Ev → Bool × List Tid
  | .ret t c _ => (st.1 || c.closes, st.2.erase t)
  | .call t _ => (st.1, if st.1 then t :: st.2 else st.2)
  | _ => st

def scanSt (st : Bool × List Tid) (log : List Ev) : Bool × List Tid := log.foldl scanStep st

theorem scanSt_snoc (st : Bool × List Tid) (log : List Ev) (e : Ev) : scanSt st (log ++ [e]) = scanStep (scanSt st log) e := by
  simp [scanSt, List.foldl_append]

def cutChk (st : Bool × List Tid) : Ev → Bool
  | .cbBegin t _ _ => !st.2.contains t
  | _ => true

def closedChk (st : Bool × List Tid) : Ev → Bool
  | .ret t c res => !(st.2.contains t && c == .isClosed) || res == .bool true
  | _ => true

theorem cutFrom_eq (c : Bool) (l : List Tid) (log : List Ev) (e : Ev) :
    cutFrom c l (log ++ [e]) = (cutFrom c l log && cutChk (scanSt (c, l) log) e) := by
  induction log generalizing c l with
  | nil => cases e <;> simp [cutFrom, scanSt, cutChk]
  | cons x r ih =>
    cases x <;> simp only [List.cons_append, cutFrom, ih, scanSt, List.foldl_cons, scanStep, Bool.and_assoc]

theorem closedFrom_eq (c : Bool) (l : List Tid) (log : List Ev) (e : Ev) :
    closedFrom c l (log ++ [e]) = (closedFrom c l log && closedChk (scanSt (c, l) log) e) := by
  induction log generalizing c l with
  | nil => cases e <;> simp [closedFrom, scanSt, closedChk]
  | cons x r ih =>
    cases x <;> simp only [List.cons_append, closedFrom, ih, scanSt, List.foldl_cons, scanStep, Bool.and_assoc]


/-! ### the invariant tying the scanning state to the threads -/

structure LateInv (s : St) : Prop where
  stEq : (scanSt (false, []) s.sh.log).1 = closedLog s.sh.log
  nodup : (scanSt (false, []) s.sh.log).2.Nodup
  mem : ∀ u ∈ (scanSt (false, []) s.sh.log).2, ∃ thu, s.threads[u]? = some thu ∧ After s.sh thu ∧ thu.ctl.stack ≠ []
  cutOk : cutLog s.sh.log = true
  closedOk : isClosedLog s.sh.log = true

theorem LateInv.init (mode : Mode) (destNil : Bool) (panicky : List FinId) (scripts : List (List ApiCall)) :
    LateInv (init mode destNil panicky scripts) := by
  constructor <;> simp [Ro.Kernel.init, scanSt, closedLog, cutLog, cutFrom, isClosedLog, closedFrom]

/-- the log grows by at most one event -/
theorem step_log {s s' : St} {t : Tid} (h : step P s t = some s') :
    s'.sh.log = s.sh.log ∨ ∃ e, s'.sh.log = s.sh.log ++ [e] := by
  obtain ⟨th, sh', th', hth, hst, rfl⟩ := step_some h
  rcases stepT_cases hst with ⟨_, c, cs, _, rfl, rfl⟩ | ⟨_, b, th0, he, rfl⟩
  · exact Or.inr ⟨_, rfl⟩
  · rcases eff_log (effect_inv he) with ⟨h1, _⟩ | ⟨e, h1, _⟩ | ⟨c, _, _, _, h1, _⟩
    · exact Or.inl h1
    · exact Or.inr ⟨e, h1⟩
    · exact Or.inr ⟨_, h1⟩

theorem LateInv.step {B : FinId → Nat} {s s' : St} {t : Tid} (hk : KInv B s) (hi : LateInv s)
    (h : step P s t = some s') : LateInv s' := by
  -- every late thread stays `After`, and the events of the step are fine for it
  have hafter : ∀ u ∈ (scanSt (false, []) s.sh.log).2, ∃ thu', s'.threads[u]? = some thu' ∧ After s'.sh thu' ∧
      ∃ evs, s'.sh.log = s.sh.log ++ evs ∧ ∀ e ∈ evs, EvOk u e := by
    intro u hu
    obtain ⟨thu, h1, h2, _⟩ := hi.mem u hu
    exact after_step hk.lock hk.closed h h1 h2
  have hclosedStatus : (scanSt (false, []) s.sh.log).1 = true → s.sh.status ≠ 0 := by
    intro hc; rw [hi.stEq] at hc; exact hk.closed.closed hc
  obtain ⟨th, sh', th', hth, hst, rfl⟩ := step_some h
  have hr := hk.lock.inReach t th hth
  generalize hst0 : scanSt (false, []) s.sh.log = st at hi hafter hclosedStatus
  obtain ⟨closed, late⟩ := st
  have hiStEq := hi.stEq; have hiNd := hi.nodup; have hiMem := hi.mem
  rw [hst0] at hiStEq hiNd hiMem
  simp only at hiStEq hiNd hiMem hafter hclosedStatus
  -- a late thread other than t is untouched, a late t keeps a non-empty stack unless it returns
  have hstack : ∀ u ∈ late, u ≠ t → ∃ thu, (s.threads.set t th')[u]? = some thu ∧ After sh' thu ∧ thu.ctl.stack ≠ [] := by
    intro u hu hne
    obtain ⟨thu, h1, _, h3⟩ := hiMem u hu
    obtain ⟨thu', h1', h2', _⟩ := hafter u hu
    have : (s.threads.set t th')[u]? = some thu := by rw [threads_set_other hne]; exact h1
    have heq : thu' = thu := by
      have := h1'.symm.trans this
      exact Option.some.inj this
    exact ⟨thu, this, heq ▸ h2', h3⟩
  rcases stepT_cases hst with ⟨hidle, c, cs, hsc, rfl, rfl⟩ | ⟨hne, b, th0, he, rfl⟩
  · -- a call event
    have htl : t ∉ late := by
      intro hm
      obtain ⟨thu, h1, _, h3⟩ := hiMem t hm
      rw [hth] at h1; obtain rfl := Option.some.inj h1
      exact h3 hidle
    have hlog : (s.sh.emit (.call t c)).log = s.sh.log ++ [.call t c] := rfl
    have hst' : scanSt (false, []) (s.sh.emit (.call t c)).log = (closed, if closed then t :: late else late) := by
      rw [hlog, scanSt_snoc, hst0]; rfl
    constructor
    · rw [hst', hlog, closedLog_append]; simp [Ev.closingRet, hiStEq]
    · rw [hst']
      cases closed <;> simp [hiNd, htl]
    · rw [hst']
      intro u hu
      have hu' : u = t ∧ closed = true ∨ u ∈ late := by
        cases closed <;> simp at hu ⊢
        · exact hu
        · exact hu
      rcases hu' with ⟨rfl, hc⟩ | hu'
      · refine ⟨_, threads_set_self hth, ⟨hclosedStatus hc, entry_armed c, ?_⟩, ?_⟩
        · intro hc'
          simp only [Option.some.injEq] at hc'
          subst hc'
          left; rfl
        · simp [Ctl.entry]
      · exact hstack u hu' (fun h => htl (h ▸ hu'))
    · show cutFrom false [] (s.sh.emit (.call t c)).log = true
      rw [hlog, cutFrom_eq]; simp [cutChk]; exact hi.cutOk
    · show closedFrom false [] (s.sh.emit (.call t c)).log = true
      rw [hlog, closedFrom_eq]; simp [closedChk]; exact hi.closedOk
  · have hE := effect_inv he
    have hctl : ({ th0 with ctl := nextCtl P th.ctl b } : Thread).ctl = nextCtl P th.ctl b := rfl
    -- facts about t itself when it is late
    have hself : t ∈ late → ∃ evs, sh'.log = s.sh.log ++ evs ∧ (∀ e ∈ evs, EvOk t e) ∧
        After sh' { th0 with ctl := nextCtl P th.ctl b } := by
      intro hm
      obtain ⟨thu', h1', h2', evs, h3', h4'⟩ := hafter t hm
      have : thu' = { th0 with ctl := nextCtl P th.ctl b } := by
        have := h1'.symm.trans (threads_set_self hth)
        exact Option.some.inj this
      exact ⟨evs, h3', h4', this ▸ h2'⟩
    rcases eff_log hE with ⟨h1, hcur⟩ | ⟨e, h1, htid, hcur, ⟨hnr, hnc⟩, hbeg⟩ | ⟨c', hf, hc', hcur, h1, _⟩
    · -- no event
      have hst' : scanSt (false, []) sh'.log = (closed, late) := by rw [h1]; exact hst0
      have hnf : th.ctl.head.isFinish = false := by
        cases hh : th.ctl.head <;> simp [Head.isFinish]
        rw [hh] at hE
        cases hE
        · rename_i hcn
          exact absurd (hk.closed.idle t th hth hcn) (fun h => hne (by rw [h]; rfl))
        · simp [Shared.emit] at h1
      constructor
      · rw [hst', h1]; exact hiStEq
      · rw [hst']; exact hiNd
      · rw [hst']
        intro u hu
        by_cases hut : u = t
        · subst hut
          obtain ⟨_, _, _, ha⟩ := hself hu
          refine ⟨_, threads_set_self hth, ha, ?_⟩
          have hl := local_of_all (lfNonEmpty_all b) hr
          simp only [lfNonEmpty, hnf, Bool.or_false, Bool.or_eq_true, Bool.not_eq_true', List.isEmpty_iff] at hl
          rcases hl with hl | hl
          · rw [hctl]; intro h; rw [h] at hl; simp at hl
          · exact absurd hl hne
        · exact hstack u hu hut
      · show cutLog sh'.log = true; rw [h1]; exact hi.cutOk
      · show isClosedLog sh'.log = true; rw [h1]; exact hi.closedOk
    · -- one event of t that is neither a call nor a return
      have hstep : scanStep (closed, late) e = (closed, late) := by
        cases e <;> simp [Ev.isRet, Ev.isCall] at hnr hnc <;> rfl
      have hst' : scanSt (false, []) sh'.log = (closed, late) := by rw [h1, scanSt_snoc, hst0, hstep]
      have hnf : th.ctl.head.isFinish = false := by
        cases hh : th.ctl.head <;> simp [Head.isFinish]
        rw [hh] at hE
        cases hE
        · simp at h1
        · simp only [Shared.emit, List.append_cancel_left_eq, List.cons.injEq, and_true] at h1
          rw [← h1] at hnr; simp [Ev.isRet] at hnr
      constructor
      · rw [hst', h1, closedLog_append]
        have : e.closingRet = false := by cases e <;> simp [Ev.isRet] at hnr <;> rfl
        rw [this, Bool.or_false]; exact hiStEq
      · rw [hst']; exact hiNd
      · rw [hst']
        intro u hu
        by_cases hut : u = t
        · subst hut
          obtain ⟨_, _, _, ha⟩ := hself hu
          refine ⟨_, threads_set_self hth, ha, ?_⟩
          have hl := local_of_all (lfNonEmpty_all b) hr
          simp only [lfNonEmpty, hnf, Bool.or_false, Bool.or_eq_true, Bool.not_eq_true', List.isEmpty_iff] at hl
          rcases hl with hl | hl
          · rw [hctl]; intro h; rw [h] at hl; simp at hl
          · exact absurd hl hne
        · exact hstack u hu hut
      · show cutFrom false [] sh'.log = true
        rw [h1, cutFrom_eq, hst0, Bool.and_eq_true]
        refine ⟨hi.cutOk, ?_⟩
        cases e <;> simp [cutChk]
        rename_i t' k x
        simp only [Ev.tid] at htid
        subst htid
        intro hm
        obtain ⟨evs, hl, hok, _⟩ := hself hm
        rw [h1] at hl
        have : evs = [.cbBegin t' k x] := (List.append_cancel_left hl).symm
        have := hok (.cbBegin t' k x) (by rw [this]; simp)
        exact this.1 ⟨rfl, rfl⟩
      · show closedFrom false [] sh'.log = true
        rw [h1, closedFrom_eq, hst0, Bool.and_eq_true]
        refine ⟨hi.closedOk, ?_⟩
        cases e <;> simp [Ev.isRet] at hnr <;> rfl
    · -- the call of t returns
      have hst' : scanSt (false, []) sh'.log = (closed || c'.closes, late.erase t) := by
        rw [h1, scanSt_snoc, hst0]; rfl
      constructor
      · rw [hst', h1, closedLog_append]; simp [Ev.closingRet, hiStEq]
      · rw [hst']; exact hiNd.erase t
      · rw [hst']
        intro u hu
        have hu' : u ∈ late := List.mem_of_mem_erase hu
        have hut : u ≠ t := by
          intro h; subst h
          exact (List.Nodup.mem_erase_iff hiNd).mp hu |>.1 rfl
        exact hstack u hu' hut
      · show cutFrom false [] sh'.log = true
        rw [h1, cutFrom_eq]; simp [cutChk]; exact hi.cutOk
      · show closedFrom false [] sh'.log = true
        rw [h1, closedFrom_eq, hst0, Bool.and_eq_true]
        refine ⟨hi.closedOk, ?_⟩
        simp only [closedChk, Bool.or_eq_true, Bool.not_eq_true', Bool.and_eq_false_iff, beq_iff_eq]
        by_cases hm : t ∈ late
        · by_cases hic : c' = .isClosed
          · right
            obtain ⟨evs, hl, hok, _⟩ := hself hm
            rw [h1] at hl
            have hev := (List.append_cancel_left hl).symm
            have := hok (Ev.ret t c' (if th.ctl.panicking then .panicked else th.result)) (by rw [hev]; simp)
            subst hic
            exact this.2 _ rfl
          · left; right; simpa using hic
        · left; left; simpa using hm


/-! ### waitLog, raiseLog -/

def waitChk (ran : List FinId) : Ev → Bool
  | .ret _ (.wait f) res => res == .panicked || ran.contains f
  | _ => true

def raiseChk (ran : List FinId) : Ev → Bool
  | .raised _ fs => fs.all ran.contains
  | _ => true

theorem waitFrom_eq (acc : List FinId) (log : List Ev) (e : Ev) :
    waitFrom acc (log ++ [e]) = (waitFrom acc log && waitChk ((finRuns log).reverse ++ acc) e) := by
  induction log generalizing acc with
  | nil => cases e <;> simp [waitFrom, finRuns, waitChk] <;> (rename_i c _; cases c <;> simp [waitFrom, waitChk])
  | cons x r ih =>
    cases x <;> simp only [List.cons_append, waitFrom, finRuns, ih, List.reverse_cons, List.append_assoc,
      List.singleton_append, List.nil_append, List.cons_append, Bool.and_assoc]
    rename_i c _
    cases c <;> simp only [waitFrom, ih, Bool.and_assoc]

theorem raiseFrom_eq (acc : List FinId) (log : List Ev) (e : Ev) :
    raiseFrom acc (log ++ [e]) = (raiseFrom acc log && raiseChk ((finRuns log).reverse ++ acc) e) := by
  induction log generalizing acc with
  | nil => cases e <;> simp [raiseFrom, finRuns, raiseChk]
  | cons x r ih =>
    cases x <;> simp only [List.cons_append, raiseFrom, finRuns, ih, List.reverse_cons, List.append_assoc,
      List.singleton_append, List.nil_append, List.cons_append, Bool.and_assoc]

structure WRInv (s : St) : Prop where
  wait : waitLog s.sh.log = true
  raise : raiseLog s.sh.log = true

theorem WRInv.init (mode : Mode) (destNil : Bool) (panicky : List FinId) (scripts : List (List ApiCall)) :
    WRInv (init mode destNil panicky scripts) := by
  constructor <;> simp [Ro.Kernel.init, waitLog, waitFrom, raiseLog, raiseFrom]

theorem WRInv.step {B : FinId → Nat} {s s' : St} {t : Tid} (hk : KInv B s) (hi : WRInv s)
    (h : step P s t = some s') : WRInv s' := by
  rcases step_log h with hl | ⟨e, hl⟩
  · exact ⟨by rw [hl]; exact hi.wait, by rw [hl]; exact hi.raise⟩
  · have hfr := hk.tear.finRuns
    constructor
    · show waitFrom [] s'.sh.log = true
      rw [hl, waitFrom_eq, Bool.and_eq_true]
      refine ⟨hi.wait, ?_⟩
      cases e <;> try rfl
      rename_i u c r
      cases c <;> try rfl
      rename_i f
      have := (wait_returns_when_done hk h hl).1
      simp [waitChk, hfr, this]
    · show raiseFrom [] s'.sh.log = true
      rw [hl, raiseFrom_eq, Bool.and_eq_true]
      refine ⟨hi.raise, ?_⟩
      cases e <;> try rfl
      rename_i u fs
      have := (raise_after_loop hk h hl).2.2
      simp only [raiseChk, List.append_nil, List.all_eq_true, hfr]
      intro p hp
      simpa using this p hp

end Ro.Kernel

/-
  RoProofs.Kernel.Grammar — C01(b) for the expected programs in safe / eventually-safe mode: under
  every schedule the callback-begin subsequence of the log is values, then at most one terminal,
  then nothing; and C02(a): at most one thread is inside a callback.
-/
import RoProofs.Kernel.Locks
import RoModel.Kernel.Preds
namespace Ro.Kernel

/-! ### frame lemmas: which transitions touch `status` and the callback-begin subsequence -/

theorem begins_append (l : List Ev) (e : Ev) : begins (l ++ [e]) = begins l ++ begins [e] := by
  induction l with
  | nil => simp [begins]
  | cons x r ih => cases x <;> simp [begins, ih] <;> (rename_i k _; cases k <;> simp [begins, ih])

def Ev.isBegin : Ev → Bool
  | .cbBegin _ _ _ => true
  | _ => false

theorem begins_append_other (l : List Ev) (e : Ev) (h : e.isBegin = false) : begins (l ++ [e]) = begins l := by
  rw [begins_append]
  cases e <;> simp [begins, Ev.isBegin] at h ⊢

theorem eff_begins {sh sh' : Shared} {t : Tid} {th th0 : Thread} {hd : Head} {b : Bool}
    (h : Eff sh t th hd b sh' th0) :
    begins sh'.log = begins sh.log ∨
      ∃ k, hd = .stmt (.callDest k) ∧ th.ctl.inside = false ∧ sh'.log = sh.log ++ [.cbBegin t k th.x] ∧ sh'.status = sh.status := by
  cases h
  case cbBegin k hi => exact Or.inr ⟨k, rfl, hi, rfl, rfl⟩
  all_goals left
  all_goals first
    | rfl
    | (simp only [Shared.emit]; exact begins_append_other _ _ rfl)
    | (split <;> (try rfl) <;> (rename_i l _; cases l <;> rfl))
    | (rename_i l; cases l <;> rfl)
    | (rename_i l _ _; cases l <;> rfl)
    | (rename_i l _ _ _ _; cases l <;> rfl)

theorem eff_status {sh sh' : Shared} {t : Tid} {th th0 : Thread} {hd : Head} {b : Bool}
    (h : Eff sh t th hd b sh' th0) :
    sh'.status = sh.status ∨
      ∃ a v x y, hd = .stmt (.ifCas .status a v x y) ∧ sh.status = a ∧ sh'.status = v ∧ b = true ∧ sh'.log = sh.log := by
  cases h
  case casOk a v x y hs => exact Or.inr ⟨a, v, x, y, rfl, hs, rfl, rfl, rfl⟩
  all_goals left
  all_goals first
    | rfl
    | (split <;> (try rfl) <;> (rename_i l _; cases l <;> rfl))
    | (rename_i l; cases l <;> rfl)
    | (rename_i l _ _; cases l <;> rfl)
    | (rename_i l _ _ _ _; cases l <;> rfl)

theorem eff_loadEq {sh sh' : Shared} {t : Tid} {th th0 : Thread} {b : Bool} {fl : Fld} {k : Nat} {x y : List Stmt}
    (h : Eff sh t th (.stmt (.ifLoadEq fl k x y)) b sh' th0) : b = (sh.fld fl == k) := by
  cases h; rfl

theorem eff_mode {sh sh' : Shared} {t : Tid} {th th0 : Thread} {hd : Head} {b : Bool}
    (h : Eff sh t th hd b sh' th0) : sh'.mode = sh.mode ∧ sh'.destNil = sh.destNil ∧ sh'.panicky = sh.panicky := by
  cases h
  all_goals first
    | exact ⟨rfl, rfl, rfl⟩
    | (split <;> (try exact ⟨rfl, rfl, rfl⟩) <;> (rename_i l _; cases l <;> exact ⟨rfl, rfl, rfl⟩))
    | (rename_i l; cases l <;> exact ⟨rfl, rfl, rfl⟩)
    | (rename_i l _ _; cases l <;> exact ⟨rfl, rfl, rfl⟩)
    | (rename_i l _ _ _ _; cases l <;> exact ⟨rfl, rfl, rfl⟩)


/-! ### the invariant -/

def termBegun (log : List Ev) : Bool := (begins log).any Notif.isTerminal

theorem grammar_snoc {α : Type} (l : List (Notif α)) (n : Notif α) (h : l.any Notif.isTerminal = false) :
    Grammar (l ++ [n]) := by
  induction l with
  | nil => simp [Grammar]
  | cons x r ih =>
    simp only [List.any_cons, Bool.or_eq_false_iff] at h
    simp [Grammar, h.1, ih h.2]

def Kind.toBegin (k : Kind) (x : Nat) : Notif Nat :=
  match k with
  | .next => .next {} x
  | .error => .error {} (.user x)
  | .complete => .complete {}

theorem begins_single (t : Tid) (k : Kind) (x : Nat) : begins [.cbBegin t k x] = [k.toBegin x] := by
  cases k <;> rfl

theorem toBegin_isTerminal (k : Kind) (x : Nat) : (k.toBegin x).isTerminal = k.isTerminal := by
  cases k <;> rfl

def Serial (sh : Shared) : Prop := sh.mode ≠ .unsafeMode

theorem Serial.noLock {sh : Shared} (h : Serial sh) (l : Lck) : sh.noLock l = false := by
  cases l <;> simp [Shared.noLock]
  exact h

structure GramInv (s : St) : Prop where
  term : termBegun s.sh.log = true → s.sh.status ≠ 0
  armed : ∀ (t : Tid) (th : Thread) (k : Kind), s.threads[t]? = some th → th.ctl.armed = some k →
            termBegun s.sh.log = false ∧ (k.isTerminal = true → s.sh.status ≠ 0)
  gram : Grammar (begins s.sh.log)

theorem GramInv.init (mode : Mode) (destNil : Bool) (panicky : List FinId) (scripts : List (List ApiCall)) :
    GramInv (init mode destNil panicky scripts) := by
  constructor
  · simp [Ro.Kernel.init, termBegun, begins]
  · intro t th k h ha
    simp [Ro.Kernel.init] at h
    obtain ⟨sc, _, rfl⟩ := h
    simp [Ctl.armed, Ctl.head] at ha
  · simp [Ro.Kernel.init, begins, Grammar]

/-- two threads that each hold `mu` (inside a callback or armed) are the same thread -/
theorem LockInv.mu_excl {s : St} (hi : LockInv s) (hs : Serial s.sh) {t u : Tid} {th thu : Thread}
    (ht : s.threads[t]? = some th) (hu : s.threads[u]? = some thu)
    (h1 : (th.ctl.inside || th.ctl.armed.isSome) = true) (h2 : (thu.ctl.inside || thu.ctl.armed.isSome) = true) : t = u := by
  have a1 := local_of_all lfArmedHolds_all (hi.inReach t th ht)
  have a2 := local_of_all lfArmedHolds_all (hi.inReach u thu hu)
  simp only [lfArmedHolds, h1, h2, Bool.not_true, Bool.false_or] at a1 a2
  have o1 := (hi.own .mu t th ht (hs.noLock _)).mp a1
  have o2 := (hi.own .mu u thu hu (hs.noLock _)).mp a2
  rw [o1] at o2
  exact Option.some.inj o2

/-- at most one thread is inside a callback or armed -/
def Excl (s : St) : Prop :=
  ∀ (t u : Tid) (th thu : Thread), s.threads[t]? = some th → s.threads[u]? = some thu →
    (th.ctl.inside || th.ctl.armed.isSome) = true → (thu.ctl.inside || thu.ctl.armed.isSome) = true → t = u

theorem LockInv.excl {s : St} (hi : LockInv s) (hs : Serial s.sh) : Excl s :=
  fun _ _ _ _ ht hu h1 h2 => hi.mu_excl hs ht hu h1 h2

theorem GramInv.step {s s' : St} {t : Tid} (hl : LockInv s) (hex : Excl s) (hi : GramInv s)
    (h : step P s t = some s') : GramInv s' := by
  obtain ⟨th, sh', th', hth, hst, rfl⟩ := step_some h
  have hr := hl.inReach t th hth
  rcases stepT_cases hst with ⟨hidle, c, cs, hsc, rfl, rfl⟩ | ⟨hne, b, th0, he, rfl⟩
  · -- a new call: one `call` event, the thread is not armed
    have hb : begins (s.sh.emit (.call t c)).log = begins s.sh.log := begins_append_other _ _ rfl
    constructor
    · simp only [termBegun, hb]; exact hi.term
    · intro u thu k hu ha
      simp only [termBegun, hb]
      rcases threads_after hth hu with ⟨rfl, rfl⟩ | ⟨_, hu'⟩
      · simp [entry_armed] at ha
      · exact hi.armed u thu k hu' ha
    · simp only [hb]; exact hi.gram
  · have hE := effect_inv he
    have hc0 := effect_ctl he
    have hla := local_of_all (lfArm_all b) hr
    have hlc := local_of_all lfCas_all hr
    clear hst h he
    -- the stepping thread afterwards
    have hctl : ({ th0 with ctl := nextCtl P th.ctl b } : Thread).ctl = nextCtl P th.ctl b := rfl
    rcases eff_begins hE with hb | ⟨k, hk, hins, hlog, hst⟩
    · rcases eff_status hE with hst | ⟨a, v, x, y, hk, hsa, hsv, hbt, hlog⟩
      · -- neither the begin-subsequence nor status changes
        constructor
        · simp only [termBegun, hb, hst]; exact hi.term
        · intro u thu k hu ha
          simp only [termBegun, hb, hst]
          rcases threads_after hth hu with ⟨rfl, rfl⟩ | ⟨_, hu'⟩
          · rw [hctl] at ha
            unfold lfArm at hla
            simp only [ha] at hla
            cases hca : th.ctl.armed with
            | some k' =>
              simp only [hca, beq_iff_eq] at hla
              subst hla
              exact hi.armed u th k hth hca
            | none =>
              simp only [hca] at hla
              split at hla
              · rename_i x y hh
                simp only [Bool.and_eq_true, beq_iff_eq] at hla
                rw [hh] at hE
                have := eff_loadEq hE
                rw [hla.1] at this
                simp [Shared.fld] at this
                obtain ⟨_, rfl⟩ := hla
                refine ⟨?_, by simp [Kind.isTerminal]⟩
                show termBegun s.sh.log = false
                cases htb : termBegun s.sh.log
                · rfl
                · exact absurd this (hi.term htb)
              · rename_i v x y hh
                rw [hh] at hE
                unfold lfCas at hlc
                rw [hh] at hlc
                simp only [beq_self_eq_true, Bool.true_and, bne_iff_ne] at hlc
                cases hE
                · rename_i hsa
                  exact absurd (hst.trans hsa) hlc
                · simp at hla
              · simp at hla
          · exact hi.armed u thu k hu' ha
        · simp only [hb]; exact hi.gram
      · -- a successful CAS on status: 0 → v with v ≠ 0
        unfold lfCas at hlc
        rw [hk] at hlc
        simp only [beq_self_eq_true, Bool.true_and, Bool.and_eq_true, beq_iff_eq, bne_iff_ne] at hlc
        obtain ⟨ha0, hv0⟩ := hlc
        subst ha0
        have hnt : termBegun s.sh.log = false := by
          cases htb : termBegun s.sh.log
          · rfl
          · exact absurd hsa (hi.term htb)
        constructor
        · simp only [termBegun, hlog]; intro h; simp [termBegun, h] at hnt
        · intro u thu k hu ha
          simp only [termBegun, hlog, hsv]
          exact ⟨hnt, fun _ => hv0⟩
        · simp only [hlog]; exact hi.gram
    · -- callback-begin of kind k by the armed thread t
      have harm : th.ctl.armed = some k := by simp [Ctl.armed, hins, hk]
      obtain ⟨hnt, hkt⟩ := hi.armed t th k hth harm
      have hb : begins sh'.log = begins s.sh.log ++ [k.toBegin th.x] := by
        rw [hlog, begins_append, begins_single]
      constructor
      · intro htb
        simp only [termBegun, hb, List.any_append, List.any_cons, List.any_nil, Bool.or_false, toBegin_isTerminal] at htb
        rw [hst]
        simp only [termBegun] at hnt
        simp only [hnt, Bool.false_or] at htb
        exact hkt htb
      · intro u thu k' hu ha
        rcases threads_after hth hu with ⟨rfl, rfl⟩ | ⟨hne', hu'⟩
        · -- t is now inside, not armed
          have hli := local_of_all (lfInside_all b) hr
          unfold lfInside at hli
          rw [hk] at hli
          simp only [hins, Bool.not_false, beq_iff_eq] at hli
          rw [hctl] at ha
          simp [Ctl.armed, hli] at ha
        · exfalso
          apply hne'
          refine (hex _ _ _ _ hth hu' ?_ ?_).symm
          · simp [harm]
          · simp [ha]
      · rw [hb]; exact grammar_snoc _ _ hnt

end Ro.Kernel

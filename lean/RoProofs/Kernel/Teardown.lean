/-
  RoProofs.Kernel.Teardown — C03 for the expected programs: every finalizer is a token that moves
  script → current Add call → `finalizers` → a thread's `taken` → `ran` (or straight to `ran` when
  the subscription is already done) and is never duplicated; `done` is set before anything runs;
  Wait returns only after its own finalizer ran.
-/
import RoProofs.Kernel.Closed
namespace Ro.Kernel

/-- the finalizer a call hands to the subscription -/
def finOf : ApiCall → Option FinId
  | .add f => some f
  | .wait f => some f
  | _ => none

def Thread.pendCur (th : Thread) : List FinId :=
  match th.cur.bind finOf with
  | some f => if th.ctl.unconsumed then [f] else []
  | none => []

/-- finalizers this thread has not handed over yet: the one of the current call, those of the calls to come -/
def Thread.pend (th : Thread) : List FinId := th.pendCur ++ th.script.filterMap finOf

def Thread.tokens (f : FinId) (th : Thread) : Nat := th.taken.count f + th.pend.count f

def sumT (g : Thread → Nat) (ths : List Thread) : Nat := (ths.map g).sum

theorem sumT_set {g : Thread → Nat} {ths : List Thread} {t : Tid} {th th' : Thread} (h : ths[t]? = some th) :
    sumT g (ths.set t th') + g th = sumT g ths + g th' := by
  induction ths generalizing t with
  | nil => simp at h
  | cons x r ih =>
    cases t with
    | zero =>
      simp at h
      subst h
      simp [sumT]
      omega
    | succ n =>
      simp at h
      have := ih h
      simp [sumT] at this ⊢
      omega

theorem sumT_mem_le {g : Thread → Nat} {ths : List Thread} {t : Tid} {th : Thread} (h : ths[t]? = some th) :
    g th ≤ sumT g ths := by
  induction ths generalizing t with
  | nil => simp at h
  | cons x r ih =>
    cases t with
    | zero => simp at h; subst h; simp [sumT]
    | succ n => simp at h; have := ih h; simp [sumT] at this ⊢; omega

theorem sumT_zero {g : Thread → Nat} {ths : List Thread} (h : ∀ (t : Nat) (th : Thread), ths[t]? = some th → g th = 0) : sumT g ths = 0 := by
  induction ths with
  | nil => rfl
  | cons x r ih =>
    have h0 := h 0 x (by simp)
    have hr := ih (fun t th ht => h (t + 1) th (by simpa using ht))
    simp [sumT] at hr ⊢
    omega

/-- the weight of finalizer `f` in a state: each place it can be -/
def total (f : FinId) (s : St) : Nat :=
  s.sh.ran.count f + s.sh.finalizers.count f + sumT (Thread.tokens f) s.threads

def Head.tearSpecial : Head → Bool
  | .stmt .setDone | .stmt .swapFinalizers | .stmt .appendFinalizer | .stmt .runNow => true
  | _ => false

theorem appendedFins_append (l : List Ev) (e : Ev) : appendedFins (l ++ [e]) = appendedFins l ++ appendedFins [e] := by
  induction l with
  | nil => simp [appendedFins]
  | cons x r ih => cases x <;> simp [appendedFins, ih]

theorem finRuns_append (l : List Ev) (e : Ev) : finRuns (l ++ [e]) = finRuns l ++ finRuns [e] := by
  induction l with
  | nil => simp [finRuns]
  | cons x r ih => cases x <;> simp [finRuns, ih]

/-- classification of a transition by what it does to the teardown state -/
theorem eff_tear {sh sh' : Shared} {t : Tid} {th th0 : Thread} {hd : Head} {b : Bool}
    (h : Eff sh t th hd b sh' th0) :
    (hd.tearSpecial = false ∧ sh'.ran = sh.ran ∧ sh'.finalizers = sh.finalizers ∧ sh'.done = sh.done ∧
        th0.taken = th.taken ∧ (th0.panics = th.panics ∨ th0.panics = []) ∧
        appendedFins sh'.log = appendedFins sh.log ∧ finRuns sh'.log = finRuns sh.log ∧
        th0.script = th.script ∧ (th0.cur = th.cur ∨ th0.cur = none) ∧
        (hd = .stmt .runTaken → b = false ∧ th.taken = []) ∧ sh'.panicky = sh.panicky) ∨
    (hd = .stmt .setDone ∧ sh' = { sh with done := true } ∧ th = th0) ∨
    (hd = .stmt .swapFinalizers ∧ sh' = { sh with finalizers := [] } ∧ th0 = { th with taken := sh.finalizers, panics := [] }) ∨
    (∃ g gs, hd = .stmt .runTaken ∧ b = true ∧ th.taken = g :: gs ∧
        sh' = ({ sh with ran := sh.ran ++ [g] }.emit (.finRun t g)) ∧
        th0 = { th with taken := gs, panics := if sh.panicky.contains g then th.panics ++ [g] else th.panics }) ∨
    (hd = .stmt .appendFinalizer ∧ sh' = ({ sh with finalizers := sh.finalizers ++ [th.f] }.emit (.appended t th.f)) ∧ th = th0) ∨
    (hd = .stmt .runNow ∧ sh' = ({ sh with ran := sh.ran ++ [th.f] }.emit (.finRun t th.f)) ∧ th = th0 ∧ b = sh.panicky.contains th.f) := by
  cases h
  case setDone => exact Or.inr (Or.inl ⟨rfl, rfl, rfl⟩)
  case swap => exact Or.inr (Or.inr (Or.inl ⟨rfl, rfl, rfl⟩))
  case runTakenCons g gs ht => exact Or.inr (Or.inr (Or.inr (Or.inl ⟨g, gs, rfl, rfl, ht, rfl, rfl⟩)))
  case append => exact Or.inr (Or.inr (Or.inr (Or.inr (Or.inl ⟨rfl, rfl, rfl⟩))))
  case runNow => exact Or.inr (Or.inr (Or.inr (Or.inr (Or.inr ⟨rfl, rfl, rfl, rfl⟩))))
  case runTakenNil ht => exact Or.inl ⟨rfl, rfl, rfl, rfl, rfl, Or.inl rfl, rfl, rfl, rfl, Or.inl rfl, (fun _ => ⟨rfl, ht⟩), rfl⟩
  case raiseCons p ps hp =>
    exact Or.inl ⟨rfl, rfl, rfl, rfl, rfl, Or.inr rfl, (by simp [Shared.emit, appendedFins_append, appendedFins]),
      (by simp [Shared.emit, finRuns_append, finRuns]), rfl, Or.inl rfl, (fun h => by cases h), rfl⟩
  case finishCall c hc =>
    exact Or.inl ⟨rfl, rfl, rfl, rfl, rfl, Or.inl rfl, (by simp [Shared.emit, appendedFins_append, appendedFins]),
      (by simp [Shared.emit, finRuns_append, finRuns]), rfl, Or.inr rfl, (fun h => by cases h), rfl⟩
  all_goals left
  all_goals first
    | exact ⟨rfl, rfl, rfl, rfl, rfl, Or.inl rfl, rfl, rfl, rfl, Or.inl rfl, (fun h => by cases h), rfl⟩
    | exact ⟨rfl, rfl, rfl, rfl, rfl, Or.inl rfl, (by simp [Shared.emit, appendedFins_append, appendedFins]),
        (by simp [Shared.emit, finRuns_append, finRuns]), rfl, Or.inl rfl, (fun h => by cases h), rfl⟩
    | (split <;> (try exact ⟨rfl, rfl, rfl, rfl, rfl, Or.inl rfl, rfl, rfl, rfl, Or.inl rfl, (fun h => by cases h), rfl⟩) <;>
        (rename_i l _; cases l <;> exact ⟨rfl, rfl, rfl, rfl, rfl, Or.inl rfl, rfl, rfl, rfl, Or.inl rfl, (fun h => by cases h), rfl⟩))
    | (rename_i l; cases l <;> exact ⟨rfl, rfl, rfl, rfl, rfl, Or.inl rfl, rfl, rfl, rfl, Or.inl rfl, (fun h => by cases h), rfl⟩)
    | (rename_i l _ _; cases l <;> exact ⟨rfl, rfl, rfl, rfl, rfl, Or.inl rfl, rfl, rfl, rfl, Or.inl rfl, (fun h => by cases h), rfl⟩)
    | (rename_i l _ _ _ _; cases l <;> exact ⟨rfl, rfl, rfl, rfl, rfl, Or.inl rfl, rfl, rfl, rfl, Or.inl rfl, (fun h => by cases h), rfl⟩)


/-! ### the invariant -/

structure TearInv (B : FinId → Nat) (s : St) : Prop where
  once : ∀ f, total f s ≤ B f
  doneKnown : ∀ (t : Tid) (th : Thread), s.threads[t]? = some th → th.ctl.doneKnown = true → s.sh.done = true
  takenDone : ∀ (t : Tid) (th : Thread), s.threads[t]? = some th → th.taken ≠ [] → s.sh.done = true ∧ th.ctl.afterSwap = true
  ranDone : s.sh.ran ≠ [] → s.sh.done = true
  notDone : ∀ (t : Tid) (th : Thread), s.threads[t]? = some th → th.ctl.head = .stmt .appendFinalizer → s.sh.done = false
  owner : s.sh.done = true → s.sh.finalizers = [] ∨ ∃ (t : Tid) (th : Thread), s.threads[t]? = some th ∧ th.ctl.owning = true
  stored : ∀ f, (appendedFins s.sh.log).count f ≤
      s.sh.ran.count f + s.sh.finalizers.count f + sumT (fun th => th.taken.count f) s.threads
  waiting : ∀ (t : Tid) (th : Thread) (f : FinId), s.threads[t]? = some th → th.cur = some (.wait f) →
      th.ctl.waitOpen = true ∨ f ∈ s.sh.ran
  finRuns : finRuns s.sh.log = s.sh.ran
  panics : ∀ (t : Tid) (th : Thread), s.threads[t]? = some th → ∀ p ∈ th.panics, p ∈ s.sh.ran

theorem total_le {s : St} {t : Tid} {th th' : Thread} {sh' : Shared} (hth : s.threads[t]? = some th) (f : FinId)
    (h : sh'.ran.count f + sh'.finalizers.count f + th'.tokens f ≤
          s.sh.ran.count f + s.sh.finalizers.count f + th.tokens f) :
    total f { sh := sh', threads := s.threads.set t th' } ≤ total f s := by
  have := sumT_set (g := Thread.tokens f) (th' := th') hth
  simp only [total]
  omega

theorem stored_le {s : St} {t : Tid} {th th' : Thread} {sh' : Shared} (hth : s.threads[t]? = some th) (f : FinId)
    (hs : (appendedFins s.sh.log).count f ≤
      s.sh.ran.count f + s.sh.finalizers.count f + sumT (fun th => th.taken.count f) s.threads)
    (h : (appendedFins sh'.log).count f + (s.sh.ran.count f + s.sh.finalizers.count f + th.taken.count f) ≤
          (appendedFins s.sh.log).count f + (sh'.ran.count f + sh'.finalizers.count f + th'.taken.count f)) :
    (appendedFins sh'.log).count f ≤
      sh'.ran.count f + sh'.finalizers.count f + sumT (fun th => th.taken.count f) (s.threads.set t th') := by
  have := sumT_set (g := fun th => th.taken.count f) (th' := th') hth
  omega

theorem pendCur_le {th th' : Thread}
    (h : (th'.cur = th.cur ∧ (th'.ctl.unconsumed = true → th.ctl.unconsumed = true)) ∨ th'.cur = none) (f : FinId) :
    th'.pendCur.count f ≤ th.pendCur.count f := by
  rcases h with ⟨h1, h2⟩ | h1
  · unfold Thread.pendCur
    rw [h1]
    cases th.cur.bind finOf with
    | none => simp
    | some g =>
      cases hu' : th'.ctl.unconsumed with
      | false => simp
      | true => simp [h2 hu']
  · simp [Thread.pendCur, h1]

/-- `appendFinalizer`, `runNow`, `recv` only occur in Add and Wait calls, whose finalizer is `th.f` -/
theorem add_call_of_head {s : St} {t : Tid} {th : Thread} (hc : ClosedInv s) (hth : s.threads[t]? = some th)
    (hne : th.ctl.stack ≠ [])
    (hh : th.ctl.head = .stmt .appendFinalizer ∨ th.ctl.head = .stmt .runNow ∨ th.ctl.head = .stmt .recv) :
    ∃ c, th.cur = some c ∧ finOf c = some th.f ∧ (c = .add th.f ∨ c = .wait th.f) := by
  cases hcur : th.cur with
  | none =>
    have := hc.idle t th hth hcur
    rw [this] at hne
    exact absurd rfl hne
  | some c =>
    have hrm := hc.busy t th c hth hcur
    have hno := List.all_eq_true.mp lfNoAdd_all
    refine ⟨c, rfl, ?_⟩
    cases c with
    | add f => simp [finOf, Thread.f, hcur, ApiCall.fin]
    | wait f => simp [finOf, Thread.f, hcur, ApiCall.fin]
    | next v =>
      have := localM (hno .subNext (by simp)) hrm
      rcases hh with h | h | h <;> simp [lfNoAdd, h] at this
    | error e =>
      have := localM (hno .subError (by simp)) hrm
      rcases hh with h | h | h <;> simp [lfNoAdd, h] at this
    | complete =>
      have := localM (hno .subComplete (by simp)) hrm
      rcases hh with h | h | h <;> simp [lfNoAdd, h] at this
    | unsubscribe =>
      have := localM (hno .subUnsubscribe (by simp)) hrm
      rcases hh with h | h | h <;> simp [lfNoAdd, h] at this
    | isClosed =>
      have := localM (hno .subIsClosed (by simp)) hrm
      rcases hh with h | h | h <;> simp [lfNoAdd, h] at this


theorem eff_tear_mono {sh sh' : Shared} {t : Tid} {th th0 : Thread} {hd : Head} {b : Bool}
    (h : Eff sh t th hd b sh' th0) :
    (sh.done = true → sh'.done = true) ∧ (∀ f ∈ sh.ran, f ∈ sh'.ran) := by
  rcases eff_tear h with ⟨_, h1, _, h2, _⟩ | ⟨_, rfl, _⟩ | ⟨_, rfl, _⟩ | ⟨g, gs, _, _, _, rfl, _⟩ | ⟨_, rfl, _⟩ | ⟨_, rfl, _⟩
  · rw [h1, h2]; exact ⟨id, fun _ h => h⟩
  · exact ⟨fun _ => rfl, fun _ h => h⟩
  · exact ⟨id, fun _ h => h⟩
  · exact ⟨id, fun f h => by simp [Shared.emit, h]⟩
  · exact ⟨id, fun _ h => h⟩
  · exact ⟨id, fun f h => by simp [Shared.emit, h]⟩

theorem sumT_init (f : FinId) (scripts : List (List ApiCall)) :
    sumT (Thread.tokens f) (scripts.map fun sc => ({ script := sc } : Thread)) = ((scripts.flatten).filterMap finOf).count f := by
  induction scripts with
  | nil => simp [sumT]
  | cons sc r ih =>
    simp only [sumT, List.map_cons, List.sum_cons, List.flatten_cons, List.filterMap_append, List.count_append] at ih ⊢
    rw [ih]
    simp [Thread.tokens, Thread.pend, Thread.pendCur]

theorem TearInv.init (mode : Mode) (destNil : Bool) (panicky : List FinId) (scripts : List (List ApiCall)) :
    TearInv (fun f => ((scripts.flatten).filterMap finOf).count f) (init mode destNil panicky scripts) := by
  have hth : ∀ (t : Tid) (th : Thread), (Ro.Kernel.init mode destNil panicky scripts).threads[t]? = some th →
      ∃ sc, scripts[t]? = some sc ∧ th = { script := sc } := by
    intro t th h
    simp [Ro.Kernel.init] at h
    obtain ⟨sc, h1, rfl⟩ := h
    exact ⟨sc, h1, rfl⟩
  constructor
  · intro f
    have : sumT (Thread.tokens f) (Ro.Kernel.init mode destNil panicky scripts).threads
        = ((scripts.flatten).filterMap finOf).count f := sumT_init f scripts
    simp only [total, this]
    simp [Ro.Kernel.init]
  · intro t th h hd
    obtain ⟨sc, _, rfl⟩ := hth t th h
    simp [Ctl.doneKnown, Ctl.head] at hd
  · intro t th h hd
    obtain ⟨sc, _, rfl⟩ := hth t th h
    simp at hd
  · simp [Ro.Kernel.init]
  · intro t th h hd
    obtain ⟨sc, _, rfl⟩ := hth t th h
    simp [Ctl.head] at hd
  · simp [Ro.Kernel.init]
  · intro f; simp [Ro.Kernel.init, appendedFins]
  · intro t th f h hc
    obtain ⟨sc, _, rfl⟩ := hth t th h
    simp at hc
  · simp [Ro.Kernel.init, Ro.Kernel.finRuns]
  · intro t th h p hp
    obtain ⟨sc, _, rfl⟩ := hth t th h
    simp at hp


theorem pendCur_nil {th : Thread} (h : th.ctl.unconsumed = false) : th.pendCur = [] := by
  unfold Thread.pendCur
  cases th.cur.bind finOf <;> simp [h]

theorem idle_flags {c : Ctl} (h : c.stack = []) :
    c.unconsumed = false ∧ c.afterSwap = false ∧ c.owning = false ∧ c.doneKnown = false ∧ c.waitOpen = false := by
  simp [Ctl.unconsumed, Ctl.afterSwap, Ctl.owning, Ctl.doneKnown, Ctl.waitOpen, Ctl.head, h]

/-- a new API call starts -/
theorem TearInv.step_call {s : St} {t : Tid} {th : Thread} {c : ApiCall} {cs : List ApiCall} {B : FinId → Nat} (hi : TearInv B s)
    (hth : s.threads[t]? = some th) (hidle : th.ctl.stack = []) (hsc : th.script = c :: cs) :
    TearInv B ({ sh := s.sh.emit (.call t c),
                 threads := s.threads.set t { th with ctl := Ctl.entry P c, cur := some c, script := cs } } : St) := by
  obtain ⟨hf1, hf2, hf3, hf4, hf5⟩ := idle_flags hidle
  have hent := entry_tear c
  simp only [lfEntry, Bool.and_eq_true, Bool.not_eq_true'] at hent
  obtain ⟨⟨⟨he1, he2⟩, he3⟩, he4⟩ := hent
  have htk : th.taken = [] := by
    cases ht : th.taken with
    | nil => rfl
    | cons g gs =>
      have := (hi.takenDone t th hth (by simp [ht])).2
      rw [hf2] at this; cases this
  have hlogA : appendedFins (s.sh.emit (.call t c)).log = appendedFins s.sh.log := by
    simp [Shared.emit, appendedFins_append, appendedFins]
  have hlogF : Ro.Kernel.finRuns (s.sh.emit (.call t c)).log = Ro.Kernel.finRuns s.sh.log := by
    simp [Shared.emit, finRuns_append, Ro.Kernel.finRuns]
  constructor
  · intro f
    refine Nat.le_trans (total_le hth f ?_) (hi.once f)
    show (s.sh.emit (.call t c)).ran.count f + (s.sh.emit (.call t c)).finalizers.count f + _ ≤ _
    simp only [Shared.emit, Thread.tokens, Thread.pend, pendCur_nil hf1, hsc, List.nil_append]
    simp only [Thread.pendCur, Option.bind_some]
    cases hfo : finOf c with
    | none => simp [hfo]
    | some g =>
      cases (Ctl.entry P c).unconsumed <;> simp [hfo, List.count_cons] <;> omega
  · intro u thu hu hd
    rcases threads_after hth hu with ⟨rfl, rfl⟩ | ⟨_, hu'⟩
    · rw [show ({ th with ctl := Ctl.entry P c, cur := some c, script := cs } : Thread).ctl = Ctl.entry P c from rfl, he1] at hd
      cases hd
    · exact hi.doneKnown u thu hu' hd
  · intro u thu hu hd
    rcases threads_after hth hu with ⟨rfl, rfl⟩ | ⟨_, hu'⟩
    · exact absurd htk hd
    · exact hi.takenDone u thu hu' hd
  · exact hi.ranDone
  · intro u thu hu hd
    rcases threads_after hth hu with ⟨rfl, rfl⟩ | ⟨_, hu'⟩
    · rw [show ({ th with ctl := Ctl.entry P c, cur := some c, script := cs } : Thread).ctl = Ctl.entry P c from rfl] at hd
      rw [hd] at he4; cases he4
    · exact hi.notDone u thu hu' hd
  · intro hd
    rcases hi.owner hd with h | ⟨u, thu, hu, ho⟩
    · exact Or.inl h
    · right
      by_cases hut : u = t
      · subst hut
        rw [hth] at hu
        obtain rfl := Option.some.inj hu
        rw [hf3] at ho; cases ho
      · exact ⟨u, thu, by rw [threads_set_other hut]; exact hu, ho⟩
  · intro f
    refine stored_le hth f (hi.stored f) ?_
    rw [hlogA]
    show _ ≤ _ + ((s.sh.emit (.call t c)).ran.count f + (s.sh.emit (.call t c)).finalizers.count f + _)
    simp [Shared.emit]
  · intro u thu f hu hc
    rcases threads_after hth hu with ⟨rfl, rfl⟩ | ⟨_, hu'⟩
    · simp only [Option.some.injEq] at hc
      subst hc
      left
      exact entry_waitOpen f
    · exact hi.waiting u thu f hu' hc
  · rw [hlogF]; exact hi.finRuns
  · intro u thu hu p hp
    rcases threads_after hth hu with ⟨rfl, rfl⟩ | ⟨_, hu'⟩
    · exact hi.panics u th hth p hp
    · exact hi.panics u thu hu' p hp


theorem tearSpecial_isStore {hd : Head} (h : hd.tearSpecial = false) : hd.isStore = false := by
  cases hd with
  | stmt s => cases s <;> simp [Head.tearSpecial] at h <;> rfl
  | _ => rfl

theorem eff_fldEq {sh sh' : Shared} {t : Tid} {th th0 : Thread} {b : Bool} {fl : Fld} {k : Nat} {x y : List Stmt}
    (h : Eff sh t th (.stmt (.ifFld fl k x y)) b sh' th0) : b = (sh.fld fl == k) ∧ sh' = sh ∧ th0 = th := by
  cases h; exact ⟨rfl, rfl, rfl⟩

section step
variable {s : St} {t : Tid} {th th0 : Thread} {sh' : Shared} {b : Bool}

/-- the thread after the transition -/
abbrev after (th th0 : Thread) (b : Bool) : Thread := { th0 with ctl := nextCtl P th.ctl b }

theorem once_step (hl : LockInv s) (hc : ClosedInv s) {B : FinId → Nat} (hi : TearInv B s) (hth : s.threads[t]? = some th)
    (hne : th.ctl.stack ≠ []) (hE : Eff s.sh t th th.ctl.head b sh' th0) (f : FinId) :
    total f { sh := sh', threads := s.threads.set t (after th th0 b) } ≤ B f := by
  refine Nat.le_trans (total_le hth f ?_) (hi.once f)
  have hr := hl.inReach t th hth
  have hlp := local_of_all (lfPend_all b) hr
  simp only [lfPend, Bool.and_eq_true] at hlp
  obtain ⟨hlp, _⟩ := hlp
  have hpend : th0.cur = th.cur ∨ th0.cur = none → th.ctl.head.isStore = false →
      (after th th0 b).pendCur.count f ≤ th.pendCur.count f := by
    intro hcur hst
    apply pendCur_le
    rcases hcur with h | h
    · left
      refine ⟨h, ?_⟩
      intro hu
      simp only [hst, Bool.false_eq_true, if_false, Bool.or_eq_true, Bool.not_eq_true'] at hlp
      rcases hlp with h1 | h1
      · rw [show (after th th0 b).ctl = nextCtl P th.ctl b from rfl, h1] at hu
        cases hu
      · exact h1
    · right; exact h
  rcases eff_tear hE with ⟨hts, h1, h2, _, h4, _, _, _, h8, h9, _, _⟩ | ⟨hh, rfl, rfl⟩ | ⟨hh, rfl, rfl⟩ |
      ⟨g, gs, hh, _, htk, rfl, rfl⟩ | ⟨hh, rfl, rfl⟩ | ⟨hh, rfl, rfl, _⟩
  · have := hpend h9 (tearSpecial_isStore hts)
    simp only [Thread.tokens, Thread.pend, List.count_append, h1, h2, h4, h8] at this ⊢
    omega
  · have := hpend (Or.inl rfl) (by rw [hh]; rfl)
    simp only [Thread.tokens, Thread.pend, List.count_append] at this ⊢
    omega
  · have := hpend (Or.inl rfl) (by rw [hh]; rfl)
    have htk : th.taken = [] := by
      cases ht : th.taken with
      | nil => rfl
      | cons g gs =>
        have h1 := (hi.takenDone t th hth (by simp [ht])).2
        have h2 := local_of_all (lfAfterSwap_all b) hr
        simp [lfAfterSwap, hh, h1] at h2
    simp only [Thread.tokens, Thread.pend, List.count_append, htk, List.count_nil] at this ⊢
    omega
  · have := hpend (Or.inl rfl) (by rw [hh]; rfl)
    simp only [Thread.tokens, Thread.pend, List.count_append, htk, Shared.emit, List.count_cons, List.count_nil] at this ⊢
    omega
  · -- appendFinalizer: the pending finalizer of this Add call moves to `finalizers`
    obtain ⟨c, hcur, hfo, _⟩ := add_call_of_head hc hth hne (Or.inl hh)
    simp only [hh, Head.isStore, if_true, Bool.and_eq_true, Bool.not_eq_true'] at hlp
    have h1 : th.pendCur = [th.f] := by simp [Thread.pendCur, hcur, hfo, hlp.1]
    have h2 : (after th th b).pendCur = [] := pendCur_nil hlp.2
    simp only [Thread.tokens, Thread.pend, List.count_append, h1, h2, Shared.emit, List.count_cons, List.count_nil]
    omega
  · obtain ⟨c, hcur, hfo, _⟩ := add_call_of_head hc hth hne (Or.inr (Or.inl hh))
    simp only [hh, Head.isStore, if_true, Bool.and_eq_true, Bool.not_eq_true'] at hlp
    have h1 : th.pendCur = [th.f] := by simp [Thread.pendCur, hcur, hfo, hlp.1]
    have h2 : (after th th b).pendCur = [] := pendCur_nil hlp.2
    simp only [Thread.tokens, Thread.pend, List.count_append, h1, h2, Shared.emit, List.count_cons, List.count_nil]
    omega


theorem doneKnown_step (hl : LockInv s) {B : FinId → Nat} (hi : TearInv B s) (hth : s.threads[t]? = some th)
    (hE : Eff s.sh t th th.ctl.head b sh' th0) (u : Tid) (thu : Thread)
    (hu : (s.threads.set t (after th th0 b))[u]? = some thu) (hd : thu.ctl.doneKnown = true) : sh'.done = true := by
  have hmono := (eff_tear_mono hE).1
  rcases threads_after hth hu with ⟨rfl, rfl⟩ | ⟨_, hu'⟩
  · have hld := local_of_all (lfDoneKnown_all b) (hl.inReach u th hth)
    rw [show (after th th0 b).ctl = nextCtl P th.ctl b from rfl] at hd
    simp only [lfDoneKnown, hd, Bool.not_true, Bool.false_or, Bool.or_eq_true] at hld
    rcases hld with h1 | h1
    · exact hmono (hi.doneKnown u th hth h1)
    · split at h1
      · rename_i hh; rw [hh] at hE; cases hE; rfl
      · rename_i x y hh
        rw [hh] at hE
        cases hE
        simp only [Shared.fld, beq_iff_eq] at h1
        split at h1
        · assumption
        · cases h1
      · cases h1
  · exact hmono (hi.doneKnown u thu hu' hd)

theorem takenDone_step (hl : LockInv s) {B : FinId → Nat} (hi : TearInv B s) (hth : s.threads[t]? = some th)
    (hE : Eff s.sh t th th.ctl.head b sh' th0) (u : Tid) (thu : Thread)
    (hu : (s.threads.set t (after th th0 b))[u]? = some thu) (hd : thu.taken ≠ []) :
    sh'.done = true ∧ thu.ctl.afterSwap = true := by
  have hmono := (eff_tear_mono hE).1
  have hr := hl.inReach t th hth
  have hla := local_of_all (lfAfterSwap_all b) hr
  rcases threads_after hth hu with ⟨rfl, rfl⟩ | ⟨_, hu'⟩
  · rw [show (after th th0 b).ctl = nextCtl P th.ctl b from rfl]
    rcases eff_tear hE with ⟨hts, _, _, _, h4, _, _, _, _, _, h10, _⟩ | ⟨hh, rfl, rfl⟩ | ⟨hh, rfl, rfl⟩ |
        ⟨g, gs, hh, rfl, htk, rfl, rfl⟩ | ⟨hh, rfl, rfl⟩ | ⟨hh, rfl, rfl, _⟩
    · rw [show (after th th0 b).taken = th0.taken from rfl, h4] at hd
      obtain ⟨h1, h2⟩ := hi.takenDone u th hth hd
      refine ⟨hmono h1, ?_⟩
      -- inside the region only `unlock` and the loop itself occur
      unfold lfAfterSwap at hla
      split at hla
      · rename_i hh; rw [hh] at hts; cases hts
      · rename_i hh; exact absurd (h10 hh).2 hd
      · simp only [beq_iff_eq] at hla; rw [hla]; exact h2
      · simp [h2] at hla
      · simp [h2] at hla
    · obtain ⟨h1, h2⟩ := hi.takenDone u th hth hd
      simp [lfAfterSwap, hh, h2] at hla
    · refine ⟨hi.doneKnown u th hth (by simp [Ctl.doneKnown, hh]), ?_⟩
      simp only [lfAfterSwap, hh, Bool.and_eq_true] at hla
      exact hla.1
    · obtain ⟨h1, h2⟩ := hi.takenDone u th hth (by simp [htk])
      refine ⟨h1, ?_⟩
      simp only [lfAfterSwap, hh, h2, Bool.true_and, Bool.true_or, Bool.not_true, Bool.false_or] at hla
      exact hla
    · obtain ⟨h1, h2⟩ := hi.takenDone u th hth hd
      simp [lfAfterSwap, hh, h2] at hla
    · obtain ⟨h1, h2⟩ := hi.takenDone u th hth hd
      simp [lfAfterSwap, hh, h2] at hla
  · obtain ⟨h1, h2⟩ := hi.takenDone u thu hu' hd
    exact ⟨hmono h1, h2⟩

theorem ranDone_step (hl : LockInv s) {B : FinId → Nat} (hi : TearInv B s) (hth : s.threads[t]? = some th)
    (hE : Eff s.sh t th th.ctl.head b sh' th0) (hd : sh'.ran ≠ []) : sh'.done = true := by
  have hmono := (eff_tear_mono hE).1
  rcases eff_tear hE with ⟨_, h1, _, h3, _⟩ | ⟨hh, rfl, rfl⟩ | ⟨hh, rfl, rfl⟩ |
      ⟨g, gs, hh, rfl, htk, rfl, rfl⟩ | ⟨hh, rfl, rfl⟩ | ⟨hh, rfl, rfl, _⟩
  · rw [h1] at hd; exact hmono (hi.ranDone hd)
  · rfl
  · exact hi.ranDone hd
  · exact (hi.takenDone t th hth (by simp [htk])).1
  · exact hi.ranDone hd
  · exact hi.doneKnown t th hth (by simp [Ctl.doneKnown, hh])

theorem notDone_step (hl : LockInv s) {B : FinId → Nat} (hi : TearInv B s) (hth : s.threads[t]? = some th)
    (hE : Eff s.sh t th th.ctl.head b sh' th0) (u : Tid) (thu : Thread)
    (hu : (s.threads.set t (after th th0 b))[u]? = some thu) (hd : thu.ctl.head = .stmt .appendFinalizer) :
    sh'.done = false := by
  have hr := hl.inReach t th hth
  rcases threads_after hth hu with ⟨rfl, rfl⟩ | ⟨hne, hu'⟩
  · have hla := local_of_all (lfAppend_all b) hr
    rw [show (after th th0 b).ctl = nextCtl P th.ctl b from rfl] at hd
    simp only [lfAppend, hd, Head.isAppend, Bool.not_true, Bool.false_or, Bool.or_eq_true, Bool.and_eq_true,
      Bool.not_eq_true'] at hla
    rcases hla with ⟨h1, rfl⟩ | h1
    · obtain ⟨x, y, hh⟩ := Head.isDoneTest_iff h1
      rw [hh] at hE
      obtain ⟨hb, rfl, _⟩ := eff_fldEq hE
      simp only [Shared.fld] at hb
      cases hdn : s.sh.done with
      | false => rfl
      | true => simp [hdn] at hb
    · have hh := Head.isAppend_iff.mp h1
      have := hi.notDone u th hth hh
      rw [hh] at hE
      cases hE
      exact this
  · -- another thread sits at `appendFinalizer` holding subMu: t cannot be executing `setDone`
    have h0 := hi.notDone u thu hu' hd
    rcases eff_tear hE with ⟨_, _, _, h3, _⟩ | ⟨hh, rfl, rfl⟩ | ⟨hh, rfl, rfl⟩ |
        ⟨g, gs, hh, rfl, htk, rfl, rfl⟩ | ⟨hh, rfl, rfl⟩ | ⟨hh, rfl, rfl, _⟩
    · rw [h3]; exact h0
    · exfalso
      have h1 := local_of_all lfSubHeld_all hr
      have h2 := local_of_all lfSubHeld_all (hl.inReach u thu hu')
      simp only [lfSubHeld, hh] at h1
      simp only [lfSubHeld, hd] at h2
      have hn : s.sh.noLock .subMu = false := rfl
      have o1 := (hl.own .subMu t th hth hn).mp h1
      have o2 := (hl.own .subMu u thu hu' hn).mp h2
      rw [o1] at o2
      exact hne (Option.some.inj o2).symm
    · exact h0
    · exact h0
    · exact h0
    · exact h0


theorem owner_step (hl : LockInv s) {B : FinId → Nat} (hi : TearInv B s) (hth : s.threads[t]? = some th)
    (hE : Eff s.sh t th th.ctl.head b sh' th0) (hd : sh'.done = true) :
    sh'.finalizers = [] ∨ ∃ (u : Tid) (thu : Thread), (s.threads.set t (after th th0 b))[u]? = some thu ∧ thu.ctl.owning = true := by
  have hr := hl.inReach t th hth
  have hlo := local_of_all (lfOwning_all b) hr
  simp only [lfOwning, Bool.and_eq_true] at hlo
  obtain ⟨hlo, hlk⟩ := hlo
  -- a witness other than t survives; the cases below are about t being the witness
  have keep : s.sh.done = true → sh'.finalizers = s.sh.finalizers →
      (th.ctl.owning = true → sh'.finalizers = [] ∨ (nextCtl P th.ctl b).owning = true) →
      sh'.finalizers = [] ∨ ∃ (u : Tid) (thu : Thread), (s.threads.set t (after th th0 b))[u]? = some thu ∧ thu.ctl.owning = true := by
    intro hdn hfin hself
    rcases hi.owner hdn with h | ⟨u, thu, hu, ho⟩
    · left; rw [hfin]; exact h
    · by_cases hut : u = t
      · subst hut
        rw [hth] at hu
        obtain rfl := Option.some.inj hu
        rcases hself ho with h | h
        · exact Or.inl h
        · exact Or.inr ⟨u, _, threads_set_self hth, h⟩
      · exact Or.inr ⟨u, thu, by rw [threads_set_other hut]; exact hu, ho⟩
  rcases eff_tear hE with ⟨hts, _, h2, h3, _⟩ | ⟨hh, rfl, rfl⟩ | ⟨hh, rfl, rfl⟩ |
      ⟨g, gs, hh, rfl, htk, rfl, rfl⟩ | ⟨hh, rfl, rfl⟩ | ⟨hh, rfl, rfl, _⟩
  · refine keep (by rw [← h3]; exact hd) h2 ?_
    intro ho
    -- t owns and is not at the swap: it is at `if len(finalizers) == 0`
    unfold Ctl.owning at ho
    split at ho
    · rename_i x y hh
      rw [hh] at hE hlo
      obtain ⟨hb, rfl, _⟩ := eff_fldEq hE
      simp only [Bool.or_eq_true] at hlo
      rcases hlo with h | h
      · left
        rw [h] at hb
        simp only [Shared.fld] at hb
        exact List.eq_nil_of_length_eq_zero (by simpa using hb.symm)
      · right; exact h
    · rename_i hh; rw [hh] at hts; cases hts
    · cases ho
  · right
    simp only [hh] at hlo
    exact ⟨t, _, threads_set_self hth, hlo⟩
  · left; rfl
  · refine keep hd rfl ?_
    intro ho; simp [Ctl.owning, hh] at ho
  · have := hi.notDone t th hth hh
    simp only [Shared.emit] at hd
    rw [this] at hd; cases hd
  · refine keep hd rfl ?_
    intro ho; simp [Ctl.owning, hh] at ho

theorem stored_step (hl : LockInv s) {B : FinId → Nat} (hi : TearInv B s) (hth : s.threads[t]? = some th)
    (hE : Eff s.sh t th th.ctl.head b sh' th0) (f : FinId) :
    (appendedFins sh'.log).count f ≤
      sh'.ran.count f + sh'.finalizers.count f + sumT (fun th => th.taken.count f) (s.threads.set t (after th th0 b)) := by
  refine stored_le hth f (hi.stored f) ?_
  rcases eff_tear hE with ⟨_, h1, h2, _, h4, _, h6, _⟩ | ⟨hh, rfl, rfl⟩ | ⟨hh, rfl, rfl⟩ |
      ⟨g, gs, hh, rfl, htk, rfl, rfl⟩ | ⟨hh, rfl, rfl⟩ | ⟨hh, rfl, rfl, _⟩
  · rw [h6, h1, h2, show (after th th0 b).taken = th0.taken from rfl, h4]; omega
  · show _ ≤ _; simp
  · have htk : th.taken = [] := by
      cases ht : th.taken with
      | nil => rfl
      | cons g gs =>
        have h1 := (hi.takenDone t th hth (by simp [ht])).2
        have h2 := local_of_all (lfAfterSwap_all b) (hl.inReach t th hth)
        simp [lfAfterSwap, hh, h1] at h2
    simp [htk]
  · simp [Shared.emit, appendedFins_append, appendedFins, htk, List.count_cons] <;> omega
  · simp [Shared.emit, appendedFins_append, appendedFins, List.count_cons] <;> omega
  · simp [Shared.emit, appendedFins_append, appendedFins, List.count_cons] <;> omega


theorem eff_cur {sh sh' : Shared} {t : Tid} {th th0 : Thread} {hd : Head} {b : Bool}
    (h : Eff sh t th hd b sh' th0) : th0.cur = th.cur ∨ th0.cur = none := by
  rcases eff_log h with ⟨_, h1⟩ | ⟨_, _, _, h1, _⟩ | ⟨_, _, _, h1, _⟩
  · exact Or.inl h1
  · exact Or.inl h1
  · exact Or.inr h1

theorem waiting_step (hl : LockInv s) (hc : ClosedInv s) {B : FinId → Nat} (hi : TearInv B s) (hth : s.threads[t]? = some th)
    (hE : Eff s.sh t th th.ctl.head b sh' th0) (u : Tid) (thu : Thread) (f : FinId)
    (hu : (s.threads.set t (after th th0 b))[u]? = some thu) (hcur : thu.cur = some (.wait f)) :
    thu.ctl.waitOpen = true ∨ f ∈ sh'.ran := by
  have hmono := (eff_tear_mono hE).2
  rcases threads_after hth hu with ⟨rfl, rfl⟩ | ⟨_, hu'⟩
  · have hcur0 : th.cur = some (.wait f) := by
      rcases eff_cur hE with h | h
      · rw [← h]; exact hcur
      · rw [show (after th th0 b).cur = th0.cur from rfl, h] at hcur; cases hcur
    rcases hi.waiting u th f hth hcur0 with hw | hw
    · cases hw' : (nextCtl P th.ctl b).waitOpen with
      | true => left; rfl
      | false =>
        right
        have hlw := localM (lfWait_all b) (hc.busy u th _ hth hcur0)
        simp only [lfWait, hw, hw', Bool.not_false, Bool.and_self, Bool.not_true, Bool.false_or, Bool.and_eq_true] at hlw
        have hf : th.f = f := by simp [Thread.f, hcur0, ApiCall.fin]
        obtain ⟨hlw, _⟩ := hlw
        split at hlw
        · rename_i hh
          rw [hh] at hE
          cases hE
          rename_i hg
          rw [hf] at hg
          simpa using hg
        · rename_i hh
          rw [hh] at hE
          cases hE
          simp [Shared.emit, hf]
        · cases hlw
    · right; exact hmono f hw
  · rcases hi.waiting u thu f hu' hcur with hw | hw
    · exact Or.inl hw
    · exact Or.inr (hmono f hw)

theorem finRuns_step {B : FinId → Nat} (hi : TearInv B s) (hE : Eff s.sh t th th.ctl.head b sh' th0) :
    Ro.Kernel.finRuns sh'.log = sh'.ran := by
  rcases eff_tear hE with ⟨_, h1, _, _, _, _, _, h7, _⟩ | ⟨hh, rfl, rfl⟩ | ⟨hh, rfl, rfl⟩ |
      ⟨g, gs, hh, rfl, htk, rfl, rfl⟩ | ⟨hh, rfl, rfl⟩ | ⟨hh, rfl, rfl, _⟩
  · rw [h7, h1]; exact hi.finRuns
  · exact hi.finRuns
  · exact hi.finRuns
  · simp [Shared.emit, finRuns_append, Ro.Kernel.finRuns, hi.finRuns]
  · simp [Shared.emit, finRuns_append, Ro.Kernel.finRuns, hi.finRuns]
  · simp [Shared.emit, finRuns_append, Ro.Kernel.finRuns, hi.finRuns]

theorem panics_step {B : FinId → Nat} (hi : TearInv B s) (hth : s.threads[t]? = some th)
    (hE : Eff s.sh t th th.ctl.head b sh' th0) (u : Tid) (thu : Thread)
    (hu : (s.threads.set t (after th th0 b))[u]? = some thu) (p : FinId) (hp : p ∈ thu.panics) : p ∈ sh'.ran := by
  have hmono := (eff_tear_mono hE).2
  rcases threads_after hth hu with ⟨rfl, rfl⟩ | ⟨_, hu'⟩
  · rw [show (after th th0 b).panics = th0.panics from rfl] at hp
    rcases eff_tear hE with ⟨_, _, _, _, _, h5, _⟩ | ⟨hh, rfl, rfl⟩ | ⟨hh, rfl, rfl⟩ |
        ⟨g, gs, hh, rfl, htk, rfl, rfl⟩ | ⟨hh, rfl, rfl⟩ | ⟨hh, rfl, rfl, _⟩
    · rcases h5 with h | h
      · rw [h] at hp; exact hmono p (hi.panics u th hth p hp)
      · rw [h] at hp; cases hp
    · exact hi.panics u th hth p hp
    · cases hp
    · simp only [Shared.emit, List.mem_append, List.mem_singleton]
      split at hp
      · simp only [List.mem_append, List.mem_singleton] at hp
        rcases hp with h | h
        · exact Or.inl (hi.panics u th hth p h)
        · exact Or.inr h
      · exact Or.inl (hi.panics u th hth p hp)
    · exact hmono p (hi.panics u th hth p hp)
    · exact hmono p (hi.panics u th hth p hp)
  · exact hmono p (hi.panics u thu hu' p hp)

end step

theorem TearInv.step {s s' : St} {t : Tid} (hl : LockInv s) (hc : ClosedInv s) {B : FinId → Nat} (hi : TearInv B s)
    (h : Ro.Kernel.step P s t = some s') : TearInv B s' := by
  obtain ⟨th, sh', th', hth, hst, rfl⟩ := step_some h
  rcases stepT_cases hst with ⟨hidle, c, cs, hsc, rfl, rfl⟩ | ⟨hne, b, th0, he, rfl⟩
  · exact hi.step_call hth hidle hsc
  · have hE := effect_inv he
    exact {
      once := once_step hl hc hi hth hne hE
      doneKnown := doneKnown_step hl hi hth hE
      takenDone := takenDone_step hl hi hth hE
      ranDone := ranDone_step hl hi hth hE
      notDone := notDone_step hl hi hth hE
      owner := owner_step hl hi hth hE
      stored := stored_step hl hi hth hE
      waiting := waiting_step hl hc hi hth hE
      finRuns := finRuns_step hi hE
      panics := panics_step hi hth hE }

end Ro.Kernel

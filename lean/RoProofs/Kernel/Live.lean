/-
  RoProofs.Kernel.Live — deadlock-freedom of the kernel running the expected programs (destination
  callbacks and teardowns are opaque: they do not call back into the same subscriber — that is how
  `Conc` models them, and it is the hypothesis of everything here).

  A thread can be disabled only (a) at `lock l`, and then the owner of `l` is another thread that IS
  enabled (inside a critical section of `mu` or `subMu` nothing blocks), or (b) at the channel
  receive of Wait while its finalizer has not run. So: if some thread is unfinished, either some
  thread is enabled, or every unfinished thread is a Wait whose subscription nobody closes.
-/
import RoProofs.Kernel.Terminal
import RoProofs.Kernel.FlagsC
namespace Ro.Kernel

theorem eff_owner {sh sh' : Shared} {t : Tid} {th th0 : Thread} {hd : Head} {b : Bool}
    (h : Eff sh t th hd b sh' th0) (l : Lck) (u : Tid) (ho : sh'.owner l = some u) : sh.owner l = some u ∨ u = t := by
  cases h
  case lockTake l' hn hf =>
    cases l <;> cases l' <;> simp [Shared.setOwner, Shared.owner] at ho ⊢ <;> first | exact Or.inl ho | exact Or.inr ho.symm
  case tryTake l' a e hn hf =>
    cases l <;> cases l' <;> simp [Shared.setOwner, Shared.owner] at ho ⊢ <;> first | exact Or.inl ho | exact Or.inr ho.symm
  case runDefer l' =>
    left; split at ho
    · exact ho
    · cases l <;> cases l' <;> simp [Shared.setOwner, Shared.owner] at ho ⊢ <;> exact ho
  case unlock l' =>
    left; split at ho
    · exact ho
    · cases l <;> cases l' <;> simp [Shared.setOwner, Shared.owner] at ho ⊢ <;> exact ho
  all_goals left
  all_goals first
    | exact ho
    | (cases l <;> exact ho)

/-- lock owners are threads of the state -/
def OwnerInv (s : St) : Prop := ∀ (l : Lck) (u : Tid), s.sh.owner l = some u → u < s.threads.length

theorem OwnerInv.step {s s' : St} {t : Tid} (hi : OwnerInv s) (h : step P s t = some s') : OwnerInv s' := by
  obtain ⟨th, sh', th', hth, hst, rfl⟩ := step_some h
  have ht : t < s.threads.length := by
    rcases Nat.lt_or_ge t s.threads.length with h | h
    · exact h
    · simp [List.getElem?_eq_none h] at hth
  intro l u ho
  simp only [List.length_set]
  rcases stepT_cases hst with ⟨_, c, cs, _, rfl, rfl⟩ | ⟨_, b, th0, he, rfl⟩
  · exact hi l u (by simpa using ho)
  · rcases eff_owner (effect_inv he) l u ho with h1 | rfl
    · exact hi l u h1
    · exact ht

theorem OwnerInv.init (mode : Mode) (destNil : Bool) (panicky : List FinId) (scripts : List (List ApiCall)) :
    OwnerInv (init mode destNil panicky scripts) := by
  intro l u ho
  cases l <;> simp [Ro.Kernel.init, Shared.owner] at ho

/-- a head that is neither blocking nor stuck is executable in every shared state -/
theorem effect_enabled (sh : Shared) (t : Tid) (th : Thread) (hb : th.ctl.head.blocking = false)
    (hs : th.ctl.head.stuck = false) : ∃ r, effect sh t th = some r := by
  unfold effect
  cases hh : th.ctl.head with
  | stmt st =>
    rw [hh] at hb hs
    cases st <;> simp [Head.blocking, Head.stuck] at hb hs ⊢
    case tryLock l a e => split <;> (try split) <;> simp
    case ifCas fl a v x y => subst hs; simp; split <;> simp
    case callDest k => split <;> simp
    case runTaken => split <;> simp
    case raiseJoined => split <;> simp
  | idle => rw [hh] at hb; simp [Head.blocking] at hb
  | finish => simp; split <;> simp
  | pop => simp
  | runDefer l => simp
  | unwind => simp

theorem step_of_effect {s : St} {t : Tid} {th : Thread} (hth : s.threads[t]? = some th) (hne : th.ctl.stack ≠ [])
    (he : ∃ r, effect s.sh t th = some r) : ∃ s', step P s t = some s' := by
  obtain ⟨⟨b, sh', th0⟩, he⟩ := he
  cases hs : th.ctl.stack with
  | nil => exact absurd hs hne
  | cons fr rest => exact ⟨{ sh := sh', threads := s.threads.set t { th0 with ctl := nextCtl P th.ctl b } }, by simp [step, hth, stepT, hs, he]⟩

def Thread.unfinished (th : Thread) : Prop := th.ctl.stack ≠ [] ∨ th.script ≠ []

/-- a disabled, unfinished thread waits for a lock whose owner is enabled, or is a Wait whose
    finalizer has not run -/
theorem disabled_cases {B : FinId → Nat} {s : St} (hk : KInv B s) (ho : OwnerInv s) {t : Tid} {th : Thread}
    (hth : s.threads[t]? = some th) (hdis : step P s t = none) (hun : th.unfinished) :
    (∃ l u, th.ctl.head = .stmt (.lock l) ∧ s.sh.owner l = some u ∧ u ≠ t ∧ ∃ s', step P s u = some s') ∨
    (th.ctl.head = .stmt .recv ∧ th.f ∉ s.sh.ran) := by
  have hr := hk.lock.inReach t th hth
  have hlive := local_of_all lfLive_all hr
  simp only [lfLive, Bool.and_eq_true, Bool.not_eq_true'] at hlive
  obtain ⟨⟨_, hstuck⟩, hlk⟩ := hlive
  by_cases hne : th.ctl.stack = []
  · -- idle with calls left: enabled
    exfalso
    rcases hun with h | h
    · exact h hne
    · cases hsc : th.script with
      | nil => exact h hsc
      | cons c cs => simp [step, hth, stepT, hne, hsc] at hdis
  · have he := step_none_effect hdis hth hne
    by_cases hb : th.ctl.head.blocking = false
    · obtain ⟨r, hr'⟩ := effect_enabled s.sh t th hb hstuck
      rw [he] at hr'; cases hr'
    · cases hh : th.ctl.head with
      | stmt st =>
        rw [hh] at hb hlk
        cases st <;> simp [Head.blocking] at hb
        case lock l =>
          left
          unfold effect at he
          rw [hh] at he
          by_cases hn : s.sh.noLock l = true
          · simp [hn] at he
          · cases hown : s.sh.owner l with
            | none => simp [hn, hown] at he
            | some u =>
              have hu := ho l u hown
              obtain ⟨thu, hthu⟩ : ∃ thu, s.threads[u]? = some thu := ⟨s.threads[u], by simp [hu]⟩
              have hhold := (hk.lock.own l u thu hthu (by simpa using hn)).mpr hown
              have hlu := local_of_all lfLive_all (hk.lock.inReach u thu hthu)
              simp only [lfLive, Bool.and_eq_true, Bool.not_eq_true', Bool.or_eq_true] at hlu
              have hnb : thu.ctl.head.blocking = false := by
                rcases hlu.1.1 with h | h
                · cases l <;> simp [hhold] at h
                · exact h
              have hstk : thu.ctl.stack ≠ [] := by
                intro h0; simp [Ctl.holds, h0] at hhold
              refine ⟨l, u, rfl, hown, ?_, step_of_effect hthu hstk (effect_enabled _ _ _ hnb hlu.1.2)⟩
              intro hut; subst hut
              rw [hth] at hthu
              obtain rfl := Option.some.inj hthu
              simp only at hlk
              rw [hhold] at hlk; cases hlk
        case recv =>
          right
          refine ⟨rfl, ?_⟩
          unfold effect at he
          rw [hh] at he
          intro hm
          simp [Thread.f] at hm
          simp [hm] at he
      | idle =>
        exfalso
        exact hne (by
          unfold Ctl.head at hh
          split at hh
          · assumption
          · split at hh <;> (try split at hh) <;> (try split at hh) <;> simp at hh)
      | _ => rw [hh] at hb; simp [Head.blocking] at hb

end Ro.Kernel

/-
  RoProofs.Kernel.Flags — syntactic observations on a control state ("holds lock l", "is about to
  call the destination", …) and the facts about how they evolve along `nextCtl`, each decided by the
  kernel over the finite set `reach` (RoProofs.Kernel.Reach).
-/
import RoProofs.Kernel.Reach
import RoModel.Kernel.Preds
namespace Ro.Kernel

def orElse : Option Bool → Option Bool → Option Bool
  | some b, _ => some b
  | none, r => r

mutual
/-- the first thing a statement does to lock `l`: `some true` releases it, `some false` acquires it
    or returns -/
def firstOpS (l : Lck) : Stmt → Option Bool
  | .lock l' => if l' = l then some false else none
  | .unlock l' | .deferUnlock l' => if l' = l then some true else none
  | .tryLock l' a b => if l' = l then some false else orElse (firstOpL l a) (firstOpL l b)
  | .ifLoadEq _ _ a b | .ifFld _ _ a b | .ifCas _ _ _ a b | .ifNil _ a b => orElse (firstOpL l a) (firstOpL l b)
  | .ret | .retLoad _ _ _ | .retFld _ => some false
  | _ => none
def firstOpL (l : Lck) : List Stmt → Option Bool
  | [] => none
  | s :: r => orElse (firstOpS l s) (firstOpL l r)
end

/-- the thread holds `l`: some frame will release it (explicitly or by a deferred unlock) before
    acquiring it or returning -/
def Ctl.holds (l : Lck) (c : Ctl) : Bool :=
  c.stack.any fun fr => fr.defers.contains l || firstOpL l fr.body == some true

def Lck.other : Lck → Lck
  | .mu => .subMu
  | .subMu => .mu

theorem local_of_all {Q : Ctl → Bool} (h : reach.all Q = true) {c : Ctl} (hc : c ∈ reach) : Q c = true :=
  List.all_eq_true.mp h c hc

/-- how `holds` changes along one transition with outcome `b` -/
def lfLock (b : Bool) (c : Ctl) : Bool :=
  let c' := nextCtl P c b
  match c.head with
  | .stmt (.lock l) => !c.holds l && c'.holds l && c'.holds l.other == c.holds l.other
  | .stmt (.unlock l) => c.holds l && !c'.holds l && c'.holds l.other == c.holds l.other
  | .stmt (.tryLock l _ _) => !c.holds l && c'.holds l == b && c'.holds l.other == c.holds l.other
  | .runDefer l => c.holds l && !c'.holds l && c'.holds l.other == c.holds l.other
  | .idle => !c.holds .mu && !c.holds .subMu
  | _ => c'.holds .mu == c.holds .mu && c'.holds .subMu == c.holds .subMu

theorem lfLock_all (b : Bool) : reach.all (lfLock b) = true := by cases b <;> decide +kernel

theorem entry_holds (c : ApiCall) (l : Lck) : (Ctl.entry P c).holds l = false := by
  have := entry_fact (Q := fun c => !c.holds .mu && !c.holds .subMu) (by decide) c
  cases l <;> simp_all


/-! ### about to call the destination -/

/-- the status test of this critical section has succeeded and the call of the destination is
    next (possibly behind the `destination != nil` test): the kind that will be delivered -/
def Ctl.armed (c : Ctl) : Option Kind :=
  if c.inside then none else
  match c.head with
  | .stmt (.callDest k) => some k
  | .stmt (.ifNil .destination _ (.callDest k :: _)) => some k
  | _ => none

/-- whoever is inside a callback, or armed, holds `mu` -/
def lfArmedHolds (c : Ctl) : Bool := !(c.inside || c.armed.isSome) || c.holds .mu

theorem lfArmedHolds_all : reach.all lfArmedHolds = true := by decide +kernel

/-- a thread becomes armed only by a successful test of `status` against 0 (a load for a value, a
    CAS to a non-zero status for a terminal), and stays armed for the same kind -/
def lfArm (b : Bool) (c : Ctl) : Bool :=
  let c' := nextCtl P c b
  match c'.armed, c.armed with
  | some k, none =>
    (match c.head with
     | .stmt (.ifLoadEq .status 0 _ _) => b && k == .next
     | .stmt (.ifCas .status 0 v _ _) => b && v != 0 && k.isTerminal
     | _ => false)
  | some k, some k' => k == k'
  | none, _ => true

theorem lfArm_all (b : Bool) : reach.all (lfArm b) = true := by cases b <;> decide +kernel

/-- every CAS in the programs is `status: 0 → non-zero` -/
def lfCas (c : Ctl) : Bool :=
  match c.head with
  | .stmt (.ifCas f a v _ _) => f == .status && a == 0 && v != 0
  | _ => true

theorem lfCas_all : reach.all lfCas = true := by decide +kernel

/-- `inside` is set by callback-begin, cleared by callback-end, untouched otherwise -/
def lfInside (b : Bool) (c : Ctl) : Bool :=
  let c' := nextCtl P c b
  match c.head with
  | .stmt (.callDest _) => c'.inside == !c.inside
  | _ => c'.inside == c.inside

theorem lfInside_all (b : Bool) : reach.all (lfInside b) = true := by cases b <;> decide +kernel

/-! ### return, closing calls, Wait -/

def Head.isFinish : Head → Bool
  | .finish => true
  | _ => false

/-- the last frame's exhaustion leads to the idle state -/
def lfFinish (b : Bool) (c : Ctl) : Bool := !c.head.isFinish || (nextCtl P c b).beq Ctl.idle

theorem lfFinish_all (b : Bool) : reach.all (lfFinish b) = true := by cases b <;> decide +kernel

def Stmt.isStatusCas : Stmt → Bool
  | .ifCas .status _ _ _ _ => true
  | _ => false

/-- the CAS on `status` of this call is still ahead (top level of some frame) -/
def Ctl.beforeCas (c : Ctl) : Bool := c.stack.any fun fr => fr.body.any Stmt.isStatusCas

def lfBeforeCas (b : Bool) (c : Ctl) : Bool :=
  (!(c.beforeCas && !(nextCtl P c b).beforeCas) || (match c.head with | .stmt s => s.isStatusCas | _ => false))
  && (!c.head.isFinish || !c.beforeCas)

theorem lfBeforeCas_all (b : Bool) : reach.all (lfBeforeCas b) = true := by cases b <;> decide +kernel

theorem entry_beforeCas (c : ApiCall) (h : c.closes = true) : (Ctl.entry P c).beforeCas = true := by
  cases c <;> simp [ApiCall.closes] at h
  · show (Ctl.entry P (.error 0)).beforeCas = true
    decide
  · decide
  · decide

def Stmt.isRecv : Stmt → Bool
  | .recv => true
  | _ => false

/-- Wait has not received yet and is not unwinding -/
def Ctl.waitOpen (c : Ctl) : Bool := !c.panicking && c.stack.any fun fr => fr.body.any Stmt.isRecv

def lfWait (b : Bool) (c : Ctl) : Bool :=
  (!(c.waitOpen && !(nextCtl P c b).waitOpen) ||
    (match c.head with | .stmt .recv => true | .stmt .runNow => b | _ => false))
  && (!c.head.isFinish || !c.waitOpen)

theorem lfWait_all (b : Bool) : (reachM .snWait).all (lfWait b) = true := by cases b <;> decide +kernel

/-- at these points `done` is known to be true: after `setDone`, and in the then-branch of `if s.done` in Add -/
def Ctl.doneKnown (c : Ctl) : Bool :=
  match c.head with
  | .stmt (.ifFld .finalizers _ _ _) | .stmt .swapFinalizers | .stmt .runNow => true
  | _ => false

def lfDoneKnown (b : Bool) (c : Ctl) : Bool :=
  !(nextCtl P c b).doneKnown || c.doneKnown ||
    (match c.head with | .stmt .setDone => true | .stmt (.ifFld .done 1 _ _) => b | _ => false)

theorem lfDoneKnown_all (b : Bool) : reach.all (lfDoneKnown b) = true := by cases b <;> decide +kernel

/-! ### teardown -/

mutual
def mentionsAddS : Stmt → Bool
  | .appendFinalizer | .runNow | .callSelf .snAdd => true
  | .tryLock _ a b | .ifLoadEq _ _ a b | .ifFld _ _ a b | .ifCas _ _ _ a b | .ifNil _ a b => mentionsAddL a || mentionsAddL b
  | _ => false
def mentionsAddL : List Stmt → Bool
  | [] => false
  | .ret :: _ => false
  | s :: r => mentionsAddS s || mentionsAddL r
end

/-- the finalizer handed to this Add / Wait call has not been stored or run yet -/
def Ctl.unconsumed (c : Ctl) : Bool := !c.panicking && c.stack.any fun fr => mentionsAddL fr.body

def Head.isStore : Head → Bool
  | .stmt .appendFinalizer | .stmt .runNow => true
  | _ => false

def lfPend (b : Bool) (c : Ctl) : Bool :=
  (if c.head.isStore then c.unconsumed && !(nextCtl P c b).unconsumed
   else !(nextCtl P c b).unconsumed || c.unconsumed)
  && (!c.head.isFinish || !c.unconsumed)

theorem lfPend_all (b : Bool) : reach.all (lfPend b) = true := by cases b <;> decide +kernel

/-- only Add and Wait calls store or run a teardown of their own -/
def lfNoAdd (c : Ctl) : Bool :=
  match c.head with
  | .stmt .appendFinalizer | .stmt .runNow | .stmt .recv => false
  | _ => true

theorem lfNoAdd_all : [Meth.subNext, .subError, .subComplete, .subUnsubscribe, .subIsClosed].all
    (fun m => (reachM m).all lfNoAdd) = true := by decide +kernel

def Stmt.isRunTaken : Stmt → Bool
  | .runTaken => true
  | _ => false
def Stmt.isSwap : Stmt → Bool
  | .swapFinalizers => true
  | _ => false

/-- between the swap and the end of the finalizer loop -/
def Ctl.afterSwap (c : Ctl) : Bool :=
  !c.panicking && (c.stack.any fun fr => fr.body.any Stmt.isRunTaken) && !(c.stack.any fun fr => fr.body.any Stmt.isSwap)

def lfAfterSwap (b : Bool) (c : Ctl) : Bool :=
  -- the swap enters the region; only the exhausted loop leaves it; inside, nothing blocks
  (match c.head with
   | .stmt .swapFinalizers => (nextCtl P c b).afterSwap && !c.afterSwap
   | .stmt .runTaken => c.afterSwap && (b || !(nextCtl P c b).afterSwap) && (!b || (nextCtl P c b).afterSwap)
   | .stmt (.unlock _) => (nextCtl P c b).afterSwap == c.afterSwap
   | .stmt .raiseJoined => !c.afterSwap
   | _ => !c.afterSwap && !(nextCtl P c b).afterSwap)

theorem lfAfterSwap_all (b : Bool) : reach.all (lfAfterSwap b) = true := by cases b <;> decide +kernel

/-- `setDone` has been executed, the swap (or the `len == 0` exit) not yet -/
def Ctl.owning (c : Ctl) : Bool :=
  match c.head with
  | .stmt (.ifFld .finalizers 0 _ _) | .stmt .swapFinalizers => true
  | _ => false

def lfOwning (b : Bool) (c : Ctl) : Bool :=
  (match c.head with
   | .stmt .setDone => (nextCtl P c b).owning
   | .stmt (.ifFld .finalizers 0 _ _) => b || (nextCtl P c b).owning
   | _ => true)
  && (match c.head with | .stmt (.ifFld .finalizers k _ _) => k == 0 | _ => true)

theorem lfOwning_all (b : Bool) : reach.all (lfOwning b) = true := by cases b <;> decide +kernel

/-- the statements that touch the subscription's state are executed holding `subMu` -/
def lfSubHeld (c : Ctl) : Bool :=
  match c.head with
  | .stmt .setDone | .stmt .swapFinalizers | .stmt .appendFinalizer | .stmt .runNow
  | .stmt (.ifFld .done _ _ _) | .stmt (.ifFld .finalizers _ _ _) | .stmt (.retFld _) => c.holds .subMu
  | _ => true

theorem lfSubHeld_all : reach.all lfSubHeld = true := by decide +kernel

def Head.isAppend : Head → Bool
  | .stmt .appendFinalizer => true
  | _ => false

def Head.isDoneTest : Head → Bool
  | .stmt (.ifFld .done 1 _ _) => true
  | _ => false

theorem Head.isAppend_iff {h : Head} : h.isAppend = true ↔ h = .stmt .appendFinalizer := by
  cases h with
  | stmt s => cases s <;> simp [Head.isAppend]
  | _ => simp [Head.isAppend]

theorem Head.isDoneTest_iff {h : Head} (hd : h.isDoneTest = true) : ∃ x y, h = .stmt (.ifFld .done 1 x y) := by
  unfold Head.isDoneTest at hd
  split at hd
  · exact ⟨_, _, rfl⟩
  · cases hd

/-- `appendFinalizer` is reached only from the else-branch of `if s.done` -/
def lfAppend (b : Bool) (c : Ctl) : Bool :=
  !(nextCtl P c b).head.isAppend || (c.head.isDoneTest && !b) || c.head.isAppend

theorem lfAppend_all (b : Bool) : reach.all (lfAppend b) = true := by cases b <;> decide +kernel

/-- IsClosed: one atomic load, then return; never unwinding -/
def lfIsClosed (b : Bool) (c : Ctl) : Bool :=
  !c.panicking &&
  (match c.head with
   | .stmt (.retLoad .status .ne 0) => (nextCtl P c b).head.isFinish
   | .finish | .idle => true
   | _ => false)

theorem lfIsClosed_all (b : Bool) : (reachM .subIsClosed).all (lfIsClosed b) = true := by cases b <;> decide +kernel

/-- a call starts outside every region the teardown invariants talk about -/
def lfEntry (c : Ctl) : Bool :=
  !c.doneKnown && !c.owning && !c.afterSwap && (match c.head with | .stmt .appendFinalizer => false | _ => true)

theorem entry_tear (c : ApiCall) : lfEntry (Ctl.entry P c) = true := entry_fact (Q := lfEntry) (by decide) c

theorem entry_waitOpen (f : FinId) : (Ctl.entry P (.wait f)).waitOpen = true := by
  show (Ctl.entry P (.wait 0)).waitOpen = true
  decide

/-! ### who can call the destination at all -/

mutual
def mentionsDestS : Stmt → Bool
  | .callDest _ => true
  | .tryLock _ a b | .ifLoadEq _ _ a b | .ifFld _ _ a b | .ifCas _ _ _ a b | .ifNil _ a b => mentionsDestL a || mentionsDestL b
  | _ => false
def mentionsDestL : List Stmt → Bool
  | [] => false
  | s :: r => mentionsDestS s || mentionsDestL r
end

/-- some frame still contains a call of the destination -/
def Ctl.canDeliver (c : Ctl) : Bool := c.stack.any fun fr => mentionsDestL fr.body

def lfDeliver (b : Bool) (c : Ctl) : Bool :=
  (!(nextCtl P c b).canDeliver || c.canDeliver) && (!(c.inside || c.armed.isSome) || c.canDeliver)

theorem lfDeliver_all (b : Bool) : reach.all (lfDeliver b) = true := by cases b <;> decide +kernel

theorem entry_canDeliver (c : ApiCall) (h : (Ctl.entry P c).canDeliver = true) : c.produces = true := by
  cases c with
  | next v => rfl
  | error e => rfl
  | complete => rfl
  | unsubscribe => exfalso; revert h; decide
  | isClosed => exfalso; revert h; decide
  | add f => exfalso; have : (Ctl.entry P (.add 0)).canDeliver = true := h; revert this; decide
  | wait f => exfalso; have : (Ctl.entry P (.wait 0)).canDeliver = true := h; revert this; decide

theorem entry_armed (c : ApiCall) : (Ctl.entry P c).armed = none := by
  have := entry_fact (Q := fun c => c.armed.isNone && !c.inside) (by decide) c
  simp at this
  exact this.1

theorem entry_inside (c : ApiCall) : (Ctl.entry P c).inside = false := rfl

end Ro.Kernel

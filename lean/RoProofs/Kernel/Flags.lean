/-
  RoProofs.Kernel.Flags — syntactic observations on a control state ("holds lock l", "is about to
  call the destination", …) and the facts about how they evolve along `nextCtl`, each decided by the
  kernel over the finite set `reach` (RoProofs.Kernel.Reach).
-/
import RoProofs.Kernel.Reach
namespace Ro.Kernel

def orElse : Option Bool → Option Bool → Option Bool
  | some b, _ => some b
  | none, r => r

mutual
/-- the first thing a statement does to lock `l`: `some true` releases it, `some false` acquires it
    or returns -/
def firstOpS (l : Lck) : Stmt → Option Bool
  | .lock l' => if l' = l then some false else none
  | .unlock l' | .deferUnlock l' => if l' = l then some true else none
  | .tryLock l' a b => if l' = l then some false else orElse (firstOpL l a) (firstOpL l b)
  | .ifLoadEq _ _ a b | .ifFld _ _ a b | .ifCas _ _ _ a b | .ifNil _ a b => orElse (firstOpL l a) (firstOpL l b)
  | .ret | .retLoad _ _ _ | .retFld _ => some false
  | _ => none
def firstOpL (l : Lck) : List Stmt → Option Bool
  | [] => none
  | s :: r => orElse (firstOpS l s) (firstOpL l r)
end

/-- the thread holds `l`: some frame will release it (explicitly or by a deferred unlock) before
    acquiring it or returning -/
def Ctl.holds (l : Lck) (c : Ctl) : Bool :=
  c.stack.any fun fr => fr.defers.contains l || firstOpL l fr.body == some true

def Lck.other : Lck → Lck
  | .mu => .subMu
  | .subMu => .mu

theorem local_of_all {Q : Ctl → Bool} (h : reach.all Q = true) {c : Ctl} (hc : c ∈ reach) : Q c = true :=
  List.all_eq_true.mp h c hc

/-- how `holds` changes along one transition with outcome `b` -/
def lfLock (b : Bool) (c : Ctl) : Bool :=
  let c' := nextCtl P c b
  match c.head with
  | .stmt (.lock l) => !c.holds l && c'.holds l && c'.holds l.other == c.holds l.other
  | .stmt (.unlock l) => c.holds l && !c'.holds l && c'.holds l.other == c.holds l.other
  | .stmt (.tryLock l _ _) => !c.holds l && c'.holds l == b && c'.holds l.other == c.holds l.other
  | .runDefer l => c.holds l && !c'.holds l && c'.holds l.other == c.holds l.other
  | .idle => !c.holds .mu && !c.holds .subMu
  | _ => c'.holds .mu == c.holds .mu && c'.holds .subMu == c.holds .subMu

theorem lfLock_all (b : Bool) : reach.all (lfLock b) = true := by cases b <;> decide +kernel

theorem entry_holds (c : ApiCall) (l : Lck) : (Ctl.entry P c).holds l = false := by
  have := entry_fact (Q := fun c => !c.holds .mu && !c.holds .subMu) (by decide) c
  cases l <;> simp_all


/-! ### about to call the destination -/

/-- the status test of this critical section has succeeded and the call of the destination is
    next (possibly behind the `destination != nil` test): the kind that will be delivered -/
def Ctl.armed (c : Ctl) : Option Kind :=
  if c.inside then none else
  match c.head with
  | .stmt (.callDest k) => some k
  | .stmt (.ifNil .destination _ (.callDest k :: _)) => some k
  | _ => none

/-- whoever is inside a callback, or armed, holds `mu` -/
def lfArmedHolds (c : Ctl) : Bool := !(c.inside || c.armed.isSome) || c.holds .mu

theorem lfArmedHolds_all : reach.all lfArmedHolds = true := by decide +kernel

/-- a thread becomes armed only by a successful test of `status` against 0 (a load for a value, a
    CAS to a non-zero status for a terminal), and stays armed for the same kind -/
def lfArm (b : Bool) (c : Ctl) : Bool :=
  let c' := nextCtl P c b
  match c'.armed, c.armed with
  | some k, none =>
    (match c.head with
     | .stmt (.ifLoadEq .status 0 _ _) => b && k == .next
     | .stmt (.ifCas .status 0 v _ _) => b && v != 0 && k.isTerminal
     | _ => false)
  | some k, some k' => k == k'
  | none, _ => true

theorem lfArm_all (b : Bool) : reach.all (lfArm b) = true := by cases b <;> decide +kernel

/-- every CAS in the programs is `status: 0 → non-zero` -/
def lfCas (c : Ctl) : Bool :=
  match c.head with
  | .stmt (.ifCas f a v _ _) => f == .status && a == 0 && v != 0
  | _ => true

theorem lfCas_all : reach.all lfCas = true := by decide +kernel

/-- `inside` is set by callback-begin, cleared by callback-end, untouched otherwise -/
def lfInside (b : Bool) (c : Ctl) : Bool :=
  let c' := nextCtl P c b
  match c.head with
  | .stmt (.callDest _) => c'.inside == !c.inside
  | _ => c'.inside == c.inside

theorem lfInside_all (b : Bool) : reach.all (lfInside b) = true := by cases b <;> decide +kernel

theorem entry_armed (c : ApiCall) : (Ctl.entry P c).armed = none := by
  have := entry_fact (Q := fun c => c.armed.isNone && !c.inside) (by decide) c
  simp at this
  exact this.1

theorem entry_inside (c : ApiCall) : (Ctl.entry P c).inside = false := rfl

end Ro.Kernel

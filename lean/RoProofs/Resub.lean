/-
  RoProofs.Resub — generic lemmas for C15: the sequential log, `firstStop`, the destination.
-/
import RoModel.Spec.Resub
namespace Ro.Resub
open Ro Ro.Resub Ro.Resub.Spec

/-! ### results -/

@[simp] theorem stop_raw (raw : List (Notif Int)) : (Result.stop raw).raw = raw := rfl
@[simp] theorem stop_log (raw : List (Notif Int)) : (Result.stop raw).log = [] := rfl
@[simp] theorem stop_attempts (raw : List (Notif Int)) : (Result.stop raw).attempts = 0 := rfl
@[simp] theorem after_raw (raw : List (Notif Int)) (i : Nat) (r : Result) : (Result.after raw i r).raw = raw ++ r.raw := rfl
@[simp] theorem after_log (raw : List (Notif Int)) (i : Nat) (r : Result) : (Result.after raw i r).log = .s i :: .t i :: r.log := rfl
@[simp] theorem after_attempts (raw : List (Notif Int)) (i : Nat) (r : Result) : (Result.after raw i r).attempts = r.attempts + 1 := rfl
@[simp] theorem evaluated_raw (r : Result) : r.evaluated.raw = r.raw := rfl
@[simp] theorem evaluated_log (r : Result) : r.evaluated.log = r.log := rfl
@[simp] theorem evaluated_attempts (r : Result) : r.evaluated.attempts = r.attempts := rfl

/-! ### outcomes -/

@[simp] theorem outcomeAt_nil (j : Nat) : outcomeAt [] j = Outcome.dflt := by simp [outcomeAt]
@[simp] theorem outcomeAt_cons_zero (o : Outcome) (l : List Outcome) : outcomeAt (o :: l) 0 = o := by simp [outcomeAt]
@[simp] theorem outcomeAt_cons_succ (o : Outcome) (l : List Outcome) (j : Nat) : outcomeAt (o :: l) (j + 1) = outcomeAt l j := by
  simp [outcomeAt]
theorem outcomeAt_tail (l : List Outcome) (j : Nat) : outcomeAt l.tail j = outcomeAt l (j + 1) := by
  cases l <;> simp
theorem outcomeAt_zero_tail (l : List Outcome) : outcomeAt l 0 :: l.tail = l ∨ l = [] := by
  cases l <;> simp

@[simp] theorem dflt_fails : Outcome.dflt.fails = false := rfl
@[simp] theorem dflt_vals : Outcome.dflt.vals = [] := rfl
@[simp] theorem dflt_fin : Outcome.dflt.fin = .complete := rfl

theorem fails_iff (o : Outcome) : o.fails = true ↔ ∃ e, o.fin = .error e := by
  unfold Outcome.fails; cases o.fin <;> simp
theorem fails_of_error {o : Outcome} {e : Nat} (h : o.fin = .error e) : o.fails = true := by
  unfold Outcome.fails; rw [h]
theorem not_fails_of_complete {o : Outcome} (h : o.fin = .complete) : o.fails = false := by
  unfold Outcome.fails; rw [h]

@[simp] theorem failsAt_nil (j : Nat) : failsAt [] j = false := by simp [failsAt]
@[simp] theorem failsAt_cons_zero (o : Outcome) (l : List Outcome) : failsAt (o :: l) 0 = o.fails := by simp [failsAt]
@[simp] theorem failsAt_cons_succ (o : Outcome) (l : List Outcome) (j : Nat) : failsAt (o :: l) (j + 1) = failsAt l j := by simp [failsAt]
theorem failsAt_tail (l : List Outcome) : (fun j => failsAt l (j + 1)) = failsAt l.tail := by
  funext j; cases l <;> simp

/-! ### the sequential log -/

@[simp] theorem seqLog_zero (i : Nat) : seqLog i 0 = [] := rfl
@[simp] theorem seqLog_succ (i n : Nat) : seqLog i (n + 1) = .s i :: .t i :: seqLog (i + 1) n := rfl

theorem maxLiveFrom_seqLog (i n mx : Nat) : maxLiveFrom 0 mx (seqLog i n) = if n = 0 then mx else max mx 1 := by
  induction n generalizing i mx with
  | zero => simp [maxLiveFrom]
  | succ n ih =>
    simp only [seqLog_succ, maxLiveFrom, Nat.zero_add, ih]
    split <;> simp [Nat.max_assoc]

/-- never two attempts alive: the live gauge of a sequential log never exceeds 1 -/
theorem maxLive_seqLog (i n : Nat) : maxLive (seqLog i n) = if n = 0 then 0 else 1 := by
  simp [maxLive, maxLiveFrom_seqLog]

theorem maxLive_seqLog_le (i n : Nat) : maxLive (seqLog i n) ≤ 1 := by
  rw [maxLive_seqLog]; split <;> simp

/-! ### the `Wait` window: two attempts alive -/

theorem maxLiveFrom_overlapTail (i m mx : Nat) :
    maxLiveFrom 1 mx (overlapTail i m) = if m = 0 then mx else max mx 2 := by
  induction m generalizing i mx with
  | zero => simp [overlapTail, maxLiveFrom]
  | succ m ih =>
    simp only [overlapTail, maxLiveFrom, Nat.add_sub_cancel, ih]
    split <;> simp [Nat.max_assoc]

/-- in the `Wait`-window schedule two attempts are alive as soon as there are two attempts -/
theorem maxLive_overlapLog (n : Nat) : maxLive (overlapLog (n + 2)) = 2 := by
  simp [maxLive, overlapLog, maxLiveFrom, maxLiveFrom_overlapTail]

theorem overlapLog_ne_seqLog (n : Nat) : overlapLog (n + 2) ≠ seqLog 1 (n + 2) := by
  simp [overlapLog, overlapTail, seqLog]

/-- the subscriptions recorded in a log -/
def subsOf : List Ev → List Nat
  | [] => []
  | .s i :: l => i :: subsOf l
  | .t _ :: l => subsOf l

theorem subsOf_seqLog (i n : Nat) : subsOf (seqLog i n) = List.range' i n := by
  induction n generalizing i with
  | zero => rfl
  | succ n ih => simp [subsOf, ih, List.range'_succ]

/-! ### firstStop -/

theorem firstStop_le (p : Nat → Bool) (b : Nat) : firstStop p b ≤ b := by
  induction b generalizing p with
  | zero => simp [firstStop]
  | succ b ih =>
    unfold firstStop; split
    · omega
    · have := ih (fun j => p (j + 1)); omega

theorem firstStop_pos (p : Nat → Bool) (b : Nat) (hb : 0 < b) : 0 < firstStop p b := by
  cases b with
  | zero => omega
  | succ b => unfold firstStop; split <;> omega

/-- no attempt before the last one stopped the loop -/
theorem firstStop_before (p : Nat → Bool) (b : Nat) : ∀ j, j + 1 < firstStop p b → p j = false := by
  induction b generalizing p with
  | zero => intro j h; simp [firstStop] at h
  | succ b ih =>
    intro j h
    unfold firstStop at h
    split at h
    · omega
    · rename_i h0
      cases j with
      | zero => simpa using h0
      | succ j => exact ih (fun j => p (j + 1)) j (by omega)

/-- if the loop ended before its bound, the last attempt stopped it -/
theorem firstStop_stops (p : Nat → Bool) (b : Nat) (h : firstStop p b < b) : p (firstStop p b - 1) = true := by
  induction b generalizing p with
  | zero => omega
  | succ b ih =>
    unfold firstStop at h ⊢
    split
    · rename_i h0; simpa using h0
    · rename_i h0
      rw [if_neg h0] at h
      have h' : firstStop (fun j => p (j + 1)) b < b := by omega
      have := ih (fun j => p (j + 1)) h'
      have hp := firstStop_pos (fun j => p (j + 1)) b (by omega)
      have e : 1 + firstStop (fun j => p (j + 1)) b - 1 = (firstStop (fun j => p (j + 1)) b - 1) + 1 := by omega
      rw [e]; exact this

/-- `firstStop` is the only number with these three properties -/
theorem firstStop_unique (p : Nat → Bool) (b n : Nat) (hle : n ≤ b) (hpos : 0 < b → 0 < n)
    (hbefore : ∀ j, j + 1 < n → p j = false) (hstop : n < b → p (n - 1) = true) : n = firstStop p b := by
  induction b generalizing p n with
  | zero => simp [firstStop]; omega
  | succ b ih =>
    unfold firstStop
    have hn := hpos (by omega)
    split
    · rename_i h0
      cases Nat.lt_or_ge 1 n with
      | inl h1 => have := hbefore 0 (by omega); simp [this] at h0
      | inr h1 => omega
    · rename_i h0
      cases Nat.lt_or_ge 1 n with
      | inr h1 =>
        have : n = 1 := by omega
        subst this
        cases b with
        | zero => simp [firstStop]
        | succ b => have := hstop (by omega); simp [this] at h0
      | inl h1 =>
        have := ih (fun j => p (j + 1)) (n - 1) (by omega) (by intro; omega)
          (by intro j hj; exact hbefore (j + 1) (by omega))
          (by intro hlt; have := hstop (by omega); have e : n - 1 - 1 + 1 = n - 1 := by omega
              simpa [e] using this)
        omega

theorem firstStop_congr (p q : Nat → Bool) (b : Nat) (h : ∀ j, j < b → p j = q j) : firstStop p b = firstStop q b := by
  induction b generalizing p q with
  | zero => rfl
  | succ b ih =>
    unfold firstStop
    rw [h 0 (by omega), ih (fun j => p (j + 1)) (fun j => q (j + 1)) (fun j hj => h (j + 1) (by omega))]

/-- with no stop before the bound the loop runs `b` attempts -/
theorem firstStop_eq_bound (p : Nat → Bool) (b : Nat) (h : ∀ j, j + 1 < b → p j = false) : firstStop p b = b := by
  induction b generalizing p with
  | zero => rfl
  | succ b ih =>
    unfold firstStop
    split
    · rename_i h0
      cases b with
      | zero => rfl
      | succ b => have := h 0 (by omega); simp [this] at h0
    · have := ih (fun j => p (j + 1)) (fun j hj => h (j + 1) (by omega)); omega

/-! ### values and terminal of a raw push list -/

@[simp] theorem outVals_nil : outVals [] = [] := rfl
@[simp] theorem outTerm_nil : outTerm [] = none := rfl

theorem outVals_nexts_append (o : Outcome) (sub : Ctx) (l : List (Notif Int)) :
    outVals (o.nexts sub ++ l) = o.vals.map (·.2) ++ outVals l := by
  unfold Outcome.nexts
  induction o.vals with
  | nil => rfl
  | cons p ps ih => simp [outVals, ih]

theorem outTerm_nexts_append (o : Outcome) (sub : Ctx) (l : List (Notif Int)) :
    outTerm (o.nexts sub ++ l) = outTerm l := by
  unfold Outcome.nexts
  induction o.vals with
  | nil => rfl
  | cons p ps ih => simp [outTerm, ih]

@[simp] theorem outVals_error (c : Ctx) (e : Err) (l : List (Notif Int)) : outVals (.error c e :: l) = [] := rfl
@[simp] theorem outVals_complete (c : Ctx) (l : List (Notif Int)) : outVals (.complete c :: l) = [] := rfl
@[simp] theorem outTerm_error (c : Ctx) (e : Err) (l : List (Notif Int)) : outTerm (.error c e :: l) = some (.error e) := rfl
@[simp] theorem outTerm_complete (c : Ctx) (l : List (Notif Int)) : outTerm (.complete c :: l) = some .complete := rfl

@[simp] theorem valuesOf_nil : valuesOf [] = [] := rfl
@[simp] theorem valuesOf_cons (o : Outcome) (l : List Outcome) : valuesOf (o :: l) = o.vals.map (·.2) ++ valuesOf l := by
  simp [valuesOf]

theorem take_succ_eq (l : List Outcome) (n : Nat) : l.take (n + 1) = if l = [] then [] else outcomeAt l 0 :: l.tail.take n := by
  cases l <;> simp

/-- the values of the first `n + 1` attempts = those of the first, then those of the next `n` of the rest
    (an attempt past the end of the list has no values) -/
theorem valuesOf_take_succ (l : List Outcome) (n : Nat) :
    valuesOf (l.take (n + 1)) = (outcomeAt l 0).vals.map (·.2) ++ valuesOf (l.tail.take n) := by
  cases l <;> simp

/-! ### the destination -/

theorem deliver_none_outVals (raw : List (Notif Int)) : outVals (deliver none raw) = outVals raw := by
  induction raw with
  | nil => rfl
  | cons x xs ih => cases x <;> simp_all [deliver, outVals]

theorem deliver_none_outTerm (raw : List (Notif Int)) : outTerm (deliver none raw) = outTerm raw := by
  induction raw with
  | nil => rfl
  | cons x xs ih => cases x <;> simp_all [deliver, outTerm]

theorem deliver_some_outVals (k : Nat) (raw : List (Notif Int)) : outVals (deliver (some k) raw) = (outVals raw).take k := by
  induction raw generalizing k with
  | nil => simp [deliver]
  | cons x xs ih =>
    cases k with
    | zero => simp [deliver]
    | succ k => cases x <;> simp [deliver, outVals, ih]

theorem deliver_some_outTerm (k : Nat) (raw : List (Notif Int)) :
    outTerm (deliver (some k) raw) = if (outVals raw).length < k then outTerm raw else none := by
  induction raw generalizing k with
  | nil => simp only [deliver, outTerm_nil]; split <;> rfl
  | cons x xs ih =>
    cases k with
    | zero => simp [deliver]
    | succ k => cases x <;> simp [deliver, outVals, outTerm, ih]

/-- what the destination delivers of a push list, for every point at which the downstream goes away:
    the first `k` values; the terminal only if fewer than `k` values came before it -/
theorem deliver_vals (cut : Option Nat) (raw : List (Notif Int)) : outVals (deliver cut raw) = cutVals cut (outVals raw) := by
  cases cut with
  | none => exact deliver_none_outVals raw
  | some k => exact deliver_some_outVals k raw

theorem deliver_term (cut : Option Nat) (raw : List (Notif Int)) :
    outTerm (deliver cut raw) = cutTerm cut (outVals raw) (outTerm raw) := by
  cases cut with
  | none => exact deliver_none_outTerm raw
  | some k => exact deliver_some_outTerm k raw

/-- the delivered trace obeys the observable grammar (values, at most one terminal, nothing after) -/
theorem deliver_grammar (cut : Option Nat) (raw : List (Notif Int)) : Grammar (deliver cut raw) := by
  induction raw generalizing cut with
  | nil => simp [deliver, Grammar]
  | cons x xs ih =>
    unfold deliver
    split
    · simp [Grammar]
    · split
      · rename_i h; simp [Grammar, h]
      · rename_i h; simp [Grammar, h]; exact ih _

end Ro.Resub

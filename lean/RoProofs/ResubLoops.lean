/-
  RoProofs.ResubLoops — While, DoWhile, RepeatWith, OnErrorResumeNextWith, Concat, Catch (C15).
-/
import RoProofs.Resub
namespace Ro.Resub
open Ro Ro.Resub Ro.Resub.Spec

theorem termAfter_tail (outs : List Outcome) (n : Nat) (h : (outcomeAt outs 0).fin = .complete) :
    termAfter outs (n + 1) = termAfter outs.tail n := by
  cases n with
  | zero => simp [termAfter, h]
  | succ m => simp [termAfter, outcomeAt_tail]

theorem termAfter_tail_pos (outs : List Outcome) (n : Nat) (h : 0 < n) :
    termAfter outs (n + 1) = termAfter outs.tail n := by
  cases n with
  | zero => omega
  | succ m => simp [termAfter, outcomeAt_tail]

theorem termAfter_one_error {outs : List Outcome} {e : Nat} (h : (outcomeAt outs 0).fin = .error e) :
    termAfter outs 1 = .error (.user e) := by simp [termAfter, h]

theorem failsAt_zero_of_error {outs : List Outcome} {e : Nat} (h : (outcomeAt outs 0).fin = .error e) : failsAt outs 0 = true :=
  fails_of_error h
theorem failsAt_zero_of_complete {outs : List Outcome} (h : (outcomeAt outs 0).fin = .complete) : failsAt outs 0 = false :=
  not_fails_of_complete h

theorem valuesOf_take_one (outs : List Outcome) : valuesOf (outs.take 1) = (outcomeAt outs 0).vals.map (·.2) := by
  rw [valuesOf_take_succ]; simp

@[simp] theorem leadingTrue_nil : leadingTrue [] = 0 := rfl
@[simp] theorem leadingTrue_false (cs : List Bool) : leadingTrue (false :: cs) = 0 := rfl
@[simp] theorem leadingTrue_true (cs : List Bool) : leadingTrue (true :: cs) = leadingTrue cs + 1 := by
  simp [leadingTrue, List.takeWhile]

theorem firstStop_succ_of_stop {p : Nat → Bool} (b : Nat) (h : p 0 = true) : firstStop p (b + 1) = 1 := by
  simp [firstStop, h]
theorem firstStop_succ_of_go {p : Nat → Bool} (b : Nat) (h : p 0 = false) :
    firstStop p (b + 1) = firstStop (fun j => p (j + 1)) b + 1 := by
  simp [firstStop, h]; omega

/-! ### While -/

theorem whileLoop_log (ct : Nat) (conds : List Bool) (outs : List Outcome) (cur : Ctx) (i : Nat) :
    (whileLoop ct conds outs cur i).log = seqLog (i + 1) (whileLoop ct conds outs cur i).attempts := by
  induction conds generalizing outs cur i with
  | nil => simp [whileLoop]
  | cons b cs ih =>
    cases b with
    | false => simp [whileLoop]
    | true =>
      unfold whileLoop
      simp only []
      cases (outcomeAt outs 0).fin with
      | complete => simp [ih]
      | error e => simp

theorem whileLoop_attempts (ct : Nat) (conds : List Bool) (outs : List Outcome) (cur : Ctx) (i : Nat) :
    (whileLoop ct conds outs cur i).attempts = firstStop (failsAt outs) (leadingTrue conds) := by
  induction conds generalizing outs cur i with
  | nil => simp [whileLoop, firstStop]
  | cons b cs ih =>
    cases b with
    | false => simp [whileLoop, firstStop]
    | true =>
      unfold whileLoop
      simp only []
      rw [leadingTrue_true]
      cases h : (outcomeAt outs 0).fin with
      | complete =>
        rw [firstStop_succ_of_go _ (failsAt_zero_of_complete h), failsAt_tail]
        simp [ih]
      | error e =>
        rw [firstStop_succ_of_stop _ (failsAt_zero_of_error h)]
        simp

theorem whileLoop_vals (ct : Nat) (conds : List Bool) (outs : List Outcome) (cur : Ctx) (i : Nat) :
    outVals (whileLoop ct conds outs cur i).raw = valuesOf (outs.take (whileLoop ct conds outs cur i).attempts) := by
  induction conds generalizing outs cur i with
  | nil => simp [whileLoop]
  | cons b cs ih =>
    cases b with
    | false => simp [whileLoop]
    | true =>
      unfold whileLoop
      simp only []
      cases (outcomeAt outs 0).fin with
      | complete => simp [outVals_nexts_append, ih, valuesOf_take_succ]
      | error e => simp [outVals_nexts_append, valuesOf_take_one]

theorem whileLoop_term (ct : Nat) (conds : List Bool) (outs : List Outcome) (cur : Ctx) (i : Nat) :
    outTerm (whileLoop ct conds outs cur i).raw = some (termAfter outs (whileLoop ct conds outs cur i).attempts) := by
  induction conds generalizing outs cur i with
  | nil => simp [whileLoop, termAfter]
  | cons b cs ih =>
    cases b with
    | false => simp [whileLoop, termAfter]
    | true =>
      unfold whileLoop
      simp only []
      cases h : (outcomeAt outs 0).fin with
      | complete => simp [outTerm_nexts_append, ih, termAfter_tail _ _ h]
      | error e => simp [outTerm_nexts_append, termAfter_one_error h]

/-! ### DoWhile -/

theorem doWhileLoop_log (ct : Nat) (conds : List Bool) (outs : List Outcome) (cur : Ctx) (i : Nat) :
    (doWhileLoop ct conds outs cur i).log = seqLog (i + 1) (doWhileLoop ct conds outs cur i).attempts := by
  induction conds generalizing outs cur i with
  | nil => unfold doWhileLoop; simp only []; cases (outcomeAt outs 0).fin <;> simp
  | cons b cs ih =>
    unfold doWhileLoop
    simp only []
    cases (outcomeAt outs 0).fin with
    | complete => cases b <;> simp [ih]
    | error e => simp

theorem doWhileLoop_attempts (ct : Nat) (conds : List Bool) (outs : List Outcome) (cur : Ctx) (i : Nat) :
    (doWhileLoop ct conds outs cur i).attempts = firstStop (failsAt outs) (leadingTrue conds + 1) := by
  induction conds generalizing outs cur i with
  | nil =>
    unfold doWhileLoop
    simp only []
    have : firstStop (failsAt outs) (leadingTrue [] + 1) = 1 := by simp [firstStop]
    rw [this]
    cases (outcomeAt outs 0).fin <;> simp
  | cons b cs ih =>
    unfold doWhileLoop
    simp only []
    cases h : (outcomeAt outs 0).fin with
    | complete =>
      cases b with
      | false => simp [firstStop]
      | true =>
        rw [leadingTrue_true, firstStop_succ_of_go _ (failsAt_zero_of_complete h), failsAt_tail]
        simp [ih]
    | error e =>
      rw [firstStop_succ_of_stop _ (failsAt_zero_of_error h)]
      simp

theorem doWhileLoop_vals (ct : Nat) (conds : List Bool) (outs : List Outcome) (cur : Ctx) (i : Nat) :
    outVals (doWhileLoop ct conds outs cur i).raw = valuesOf (outs.take (doWhileLoop ct conds outs cur i).attempts) := by
  induction conds generalizing outs cur i with
  | nil =>
    unfold doWhileLoop
    simp only []
    cases (outcomeAt outs 0).fin <;> simp [outVals_nexts_append, valuesOf_take_one]
  | cons b cs ih =>
    unfold doWhileLoop
    simp only []
    cases (outcomeAt outs 0).fin with
    | complete => cases b <;> simp [outVals_nexts_append, ih, valuesOf_take_succ]
    | error e => simp [outVals_nexts_append, valuesOf_take_one]

theorem doWhileLoop_term (ct : Nat) (conds : List Bool) (outs : List Outcome) (cur : Ctx) (i : Nat) :
    outTerm (doWhileLoop ct conds outs cur i).raw = some (termAfter outs (doWhileLoop ct conds outs cur i).attempts) := by
  induction conds generalizing outs cur i with
  | nil =>
    unfold doWhileLoop
    simp only []
    cases h : (outcomeAt outs 0).fin <;> simp [outTerm_nexts_append, termAfter, h]
  | cons b cs ih =>
    unfold doWhileLoop
    simp only []
    cases h : (outcomeAt outs 0).fin with
    | complete => cases b <;> simp [outTerm_nexts_append, ih, termAfter_tail _ _ h] <;> simp [termAfter]
    | error e => simp [outTerm_nexts_append, termAfter_one_error h]

/-! ### RepeatWith -/

theorem pushB_next (b : Option Nat) (c : Ctx) (v : Int) : pushB b (.next c v) = b.map (· - 1) := by
  cases b with
  | none => rfl
  | some k => cases k <;> simp [pushB]

theorem feedB_nexts (b : Option Nat) (o : Outcome) (sub : Ctx) : feedB b (o.nexts sub) = b.map (· - o.vals.length) := by
  unfold Outcome.nexts feedB
  induction o.vals generalizing b with
  | nil => cases b <;> simp
  | cons p ps ih =>
    simp only [List.map_cons, List.foldl_cons, pushB_next, ih, List.length_cons]
    cases b with
    | none => rfl
    | some k => simp; omega

theorem feedB_append (b : Option Nat) (l₁ l₂ : List (Notif Int)) : feedB b (l₁ ++ l₂) = feedB (feedB b l₁) l₂ := by
  simp [feedB]

theorem pushB_error (b : Option Nat) (c : Ctx) (e : Err) : pushB b (.error c e) = some 0 := by
  unfold pushB; split
  · rename_i h; simpa using h
  · rfl

/-- `destination.IsClosed()` after an attempt of RepeatWith ⇔ the attempt stops the loop -/
theorem closedB_repeatRaw (b : Option Nat) (outs : List Outcome) (sub : Ctx) :
    closedB (feedB b (repeatRaw (outcomeAt outs 0) sub)) = repeatStops b outs 0 := by
  unfold repeatRaw repeatStops
  rw [valuesOf_take_one]
  cases h : (outcomeAt outs 0).fin with
  | complete =>
    simp only [feedB_nexts, failsAt_zero_of_complete h, Bool.false_or, List.length_map]
    cases b with
    | none => rfl
    | some k =>
      by_cases hk : k ≤ (outcomeAt outs 0).vals.length
      · have : k - (outcomeAt outs 0).vals.length = 0 := by omega
        simp [closedB, hk, this]
      · have : k - (outcomeAt outs 0).vals.length ≠ 0 := by omega
        simp [closedB, hk, this]
  | error e =>
    simp [feedB, pushB_error, closedB, failsAt_zero_of_error h]

theorem repeatStops_shift (b : Option Nat) (outs : List Outcome) :
    (fun j => repeatStops b outs (j + 1)) = repeatStops (b.map (· - (outcomeAt outs 0).vals.length)) outs.tail := by
  funext j
  unfold repeatStops
  rw [valuesOf_take_succ, show failsAt outs (j + 1) = failsAt outs.tail j from congrFun (failsAt_tail outs) j]
  cases b with
  | none => rfl
  | some k =>
    simp only [Option.map_some, List.length_append, List.length_map]
    congr 1
    by_cases h : k ≤ (outcomeAt outs 0).vals.length + (valuesOf (List.take (j + 1) outs.tail)).length
    · have h' : k - (outcomeAt outs 0).vals.length ≤ (valuesOf (List.take (j + 1) outs.tail)).length := by omega
      simp [h, h']
    · have h' : ¬ k - (outcomeAt outs 0).vals.length ≤ (valuesOf (List.take (j + 1) outs.tail)).length := by omega
      simp [h, h']

theorem feedB_repeatRaw_open (b : Option Nat) (o : Outcome) (sub : Ctx) (h : closedB (feedB b (repeatRaw o sub)) = false) :
    feedB b (repeatRaw o sub) = b.map (· - o.vals.length) := by
  unfold repeatRaw at h ⊢
  cases hf : o.fin with
  | complete => simp [feedB_nexts]
  | error e => rw [hf] at h; simp [feedB, pushB_error, closedB] at h

theorem repeatLoop_log (sub : Ctx) (n : Nat) (outs : List Outcome) (i : Nat) (b : Option Nat) (last : Ctx) :
    (repeatLoop sub n outs i b last).log = seqLog (i + 1) (repeatLoop sub n outs i b last).attempts := by
  induction n generalizing outs i b last with
  | zero => simp [repeatLoop]
  | succ n ih =>
    unfold repeatLoop
    simp only []
    split <;> simp [ih]

/-- the number of attempts of RepeatWith, for every count and every point at which the downstream goes away -/
theorem repeatLoop_attempts (sub : Ctx) (n : Nat) (outs : List Outcome) (i : Nat) (b : Option Nat) (last : Ctx) :
    (repeatLoop sub n outs i b last).attempts = firstStop (repeatStops b outs) n := by
  induction n generalizing outs i b last with
  | zero => simp [repeatLoop, firstStop]
  | succ n ih =>
    unfold repeatLoop
    simp only []
    by_cases hc : closedB (feedB b (repeatRaw (outcomeAt outs 0) sub)) = true
    · rw [if_pos hc, firstStop_succ_of_stop _ (by rw [← closedB_repeatRaw b outs sub]; exact hc)]
      simp
    · have hc' : closedB (feedB b (repeatRaw (outcomeAt outs 0) sub)) = false := by simpa using hc
      rw [if_neg hc, firstStop_succ_of_go _ (by rw [← closedB_repeatRaw b outs sub]; exact hc'), repeatStops_shift,
        after_attempts, ih, feedB_repeatRaw_open _ _ _ hc']

theorem outVals_repeatRaw_append (o : Outcome) (sub : Ctx) (l : List (Notif Int)) :
    outVals (repeatRaw o sub ++ l) = o.vals.map (·.2) ++ (if o.fails then [] else outVals l) := by
  unfold repeatRaw
  cases h : o.fin with
  | complete => simp [outVals_nexts_append, not_fails_of_complete h]
  | error e => simp [outVals_nexts_append, fails_of_error h]

theorem outTerm_repeatRaw_append (o : Outcome) (sub : Ctx) (l : List (Notif Int)) :
    outTerm (repeatRaw o sub ++ l) = (match o.fin with | .complete => outTerm l | .error e => some (.error (.user e))) := by
  unfold repeatRaw
  cases h : o.fin with
  | complete => simp [outTerm_nexts_append]
  | error e => simp [outTerm_nexts_append]

theorem firstStop_of_fails {p : Nat → Bool} (b : Nat) (h : p 0 = true) : firstStop p (b + 1) = 1 := firstStop_succ_of_stop b h

theorem repeatLoop_vals (sub : Ctx) (n : Nat) (outs : List Outcome) (i : Nat) (b : Option Nat) (last : Ctx) :
    outVals (repeatLoop sub n outs i b last).raw = valuesOf (outs.take (repeatLoop sub n outs i b last).attempts) := by
  induction n generalizing outs i b last with
  | zero => simp [repeatLoop]
  | succ n ih =>
    unfold repeatLoop
    simp only []
    by_cases hc : closedB (feedB b (repeatRaw (outcomeAt outs 0) sub)) = true
    · rw [if_pos hc]
      simp only [after_raw, stop_raw, after_attempts, stop_attempts, outVals_repeatRaw_append]
      split <;> simp [valuesOf_take_one]
    · have hc' : closedB (feedB b (repeatRaw (outcomeAt outs 0) sub)) = false := by simpa using hc
      have hnf : (outcomeAt outs 0).fails = false := by
        have := closedB_repeatRaw b outs sub
        rw [hc'] at this
        unfold repeatStops at this
        cases hf : failsAt outs 0
        · exact hf
        · rw [hf] at this; simp at this
      rw [if_neg hc]
      simp only [after_raw, after_attempts, outVals_repeatRaw_append, hnf, ih, valuesOf_take_succ]
      simp

theorem repeatLoop_term (sub : Ctx) (n : Nat) (outs : List Outcome) (i : Nat) (b : Option Nat) (last : Ctx) :
    outTerm (repeatLoop sub n outs i b last).raw = some (termAfter outs (repeatLoop sub n outs i b last).attempts) := by
  induction n generalizing outs i b last with
  | zero => simp [repeatLoop, termAfter]
  | succ n ih =>
    unfold repeatLoop
    simp only []
    by_cases hc : closedB (feedB b (repeatRaw (outcomeAt outs 0) sub)) = true
    · rw [if_pos hc]
      simp only [after_raw, stop_raw, after_attempts, stop_attempts, outTerm_repeatRaw_append]
      cases h : (outcomeAt outs 0).fin <;> simp [termAfter, h]
    · have hc' : closedB (feedB b (repeatRaw (outcomeAt outs 0) sub)) = false := by simpa using hc
      rw [if_neg hc]
      simp only [after_raw, after_attempts, outTerm_repeatRaw_append]
      cases h : (outcomeAt outs 0).fin with
      | complete => simp [ih, termAfter_tail _ _ h]
      | error e =>
        exfalso
        have := closedB_repeatRaw b outs sub
        rw [hc'] at this
        simp [repeatStops, failsAt_zero_of_error h] at this

/-! ### OnErrorResumeNextWith -/

theorem resumeLoop_log (sub : Ctx) (n : Nat) (outs : List Outcome) (i : Nat) (last : Ctx) (err : Option Nat) :
    (resumeLoop sub n outs i last err).log = seqLog (i + 1) (resumeLoop sub n outs i last err).attempts := by
  induction n generalizing outs i last err with
  | zero => simp [resumeLoop]
  | succ n ih => unfold resumeLoop; simp [ih]

/-- every source of the list is subscribed, whatever the outcomes -/
theorem resumeLoop_attempts (sub : Ctx) (n : Nat) (outs : List Outcome) (i : Nat) (last : Ctx) (err : Option Nat) :
    (resumeLoop sub n outs i last err).attempts = n := by
  induction n generalizing outs i last err with
  | zero => simp [resumeLoop]
  | succ n ih => unfold resumeLoop; simp [ih]

theorem resumeLoop_vals (sub : Ctx) (n : Nat) (outs : List Outcome) (i : Nat) (last : Ctx) (err : Option Nat) :
    outVals (resumeLoop sub n outs i last err).raw = valuesOf (outs.take n) := by
  induction n generalizing outs i last err with
  | zero => unfold resumeLoop; cases err <;> simp
  | succ n ih => unfold resumeLoop; simp [outVals_nexts_append, ih, valuesOf_take_succ]

/-- the terminal when no source is left: the recorded error, or completion -/
def errTerm : Option Nat → Term
  | some e => .error (.user e)
  | none => .complete

theorem resumeLoop_term (sub : Ctx) (n : Nat) (outs : List Outcome) (i : Nat) (last : Ctx) (err : Option Nat) :
    outTerm (resumeLoop sub n outs i last err).raw = some (if n = 0 then errTerm err else termAfter outs n) := by
  induction n generalizing outs i last err with
  | zero => unfold resumeLoop; cases err <;> simp [errTerm]
  | succ n ih =>
    unfold resumeLoop
    simp only [after_raw, outTerm_nexts_append, ih]
    cases n with
    | zero => cases h : (outcomeAt outs 0).fin <;> simp [errTerm, termAfter, h]
    | succ m => simp [termAfter_tail_pos outs (m + 1) (by omega)]

/-! ### Concat -/

theorem concatLoop_log (sub : Ctx) (n : Nat) (outs : List Outcome) (i : Nat) :
    (concatLoop sub n outs i).log = seqLog (i + 1) (concatLoop sub n outs i).attempts := by
  induction n generalizing outs i with
  | zero => simp [concatLoop]
  | succ n ih =>
    unfold concatLoop
    simp only []
    cases (outcomeAt outs 0).fin <;> simp [ih]

/-- one source after the other until one fails (fix 808ed47) -/
theorem concatLoop_attempts (sub : Ctx) (n : Nat) (outs : List Outcome) (i : Nat) :
    (concatLoop sub n outs i).attempts = firstStop (failsAt outs) n := by
  induction n generalizing outs i with
  | zero => simp [concatLoop, firstStop]
  | succ n ih =>
    unfold concatLoop
    simp only []
    cases h : (outcomeAt outs 0).fin with
    | complete =>
      rw [firstStop_succ_of_go _ (failsAt_zero_of_complete h), failsAt_tail]
      simp [ih]
    | error e =>
      rw [firstStop_succ_of_stop _ (failsAt_zero_of_error h)]
      simp

theorem concatLoop_vals (sub : Ctx) (n : Nat) (outs : List Outcome) (i : Nat) :
    outVals (concatLoop sub n outs i).raw = valuesOf (outs.take (concatLoop sub n outs i).attempts) := by
  induction n generalizing outs i with
  | zero => simp [concatLoop]
  | succ n ih =>
    unfold concatLoop
    simp only []
    cases (outcomeAt outs 0).fin with
    | complete => simp [outVals_nexts_append, ih, valuesOf_take_succ]
    | error e => simp [outVals_nexts_append, valuesOf_take_one]

theorem concatLoop_term (sub : Ctx) (n : Nat) (outs : List Outcome) (i : Nat) :
    outTerm (concatLoop sub n outs i).raw = some (termAfter outs (concatLoop sub n outs i).attempts) := by
  induction n generalizing outs i with
  | zero => simp [concatLoop, termAfter]
  | succ n ih =>
    unfold concatLoop
    simp only []
    cases h : (outcomeAt outs 0).fin with
    | complete => simp [outTerm_nexts_append, ih, termAfter_tail _ _ h]
    | error e => simp [outTerm_nexts_append, termAfter_one_error h]

end Ro.Resub

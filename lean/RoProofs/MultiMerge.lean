/-
  RoProofs.MultiMerge — Merge / MergeWith* (`MergeAll()(Just(s₁…sₙ))`) over `n` hot sources: for every
  arrival order the output is the definition's (values in arrival order, first error ends, completion
  when all `n` sources have completed, with the subscriber's context).
-/
import RoProofs.MultiCore
namespace Ro.Multi
open Ro

/-- sources `1..n` are the merged observables (source 0 is `Just(...)`) -/
def inner (n : Nat) (k : Nat) : Bool := decide (1 ≤ k ∧ k ≤ n)

/-- the sources of `Merge(s₁…sₙ)` subscribed with context `sub`: the outer `Just` is synchronous and
    names the sources 1…n, which are hot -/
structure MergeCfg (n : Nat) (sub : Ctx) (cfg : Sources Int) : Prop where
  outerSync : cfg.sync 0 = true
  outer : cfg.script 0 = justScript sub n
  hot : ∀ k, 1 ≤ k → cfg.sync k = false

/-! ### the callbacks of the inner sources only call the destination -/

def mergeStep (s : MergeSt) (_ : Nat) (n : Notif Int) : MergeSt × List (Notif Int) :=
  match n with
  | .next c v => (s, [.next c v])
  | .error c e => (s, [.error c e])
  | .complete _ =>
    ({ s with count := s.count - 1 }, if s.count - 1 = 0 then [.complete s.parentCtx] else [])

def MergeSt.ok (n : Nat) (s : MergeSt) : Prop := s.comp.done = false ∧ ∀ k, 1 ≤ k → k ≤ n → k ∈ s.comp.members

theorem merge_emitOnly (n : Nat) (cfg : Sources Int) : EmitOnly mergeM cfg (MergeSt.ok n) (inner n) mergeStep where
  react := by
    intro rec r k x hk hI
    have h0 : k ≠ 0 := by simp [inner] at hk; omega
    cases x with
    | next c v => simp [mergeM, mergeAllM, mergeStep, phases, phase, emits, h0, act]
    | error c e => simp [mergeM, mergeAllM, mergeStep, phases, phase, emits, h0, act]
    | complete c =>
      simp only [mergeM, mergeAllM, mergeStep, phases, phase, emits, h0, if_false, MergeSt.onDone, List.foldl_cons, List.foldl_nil]
      split <;> simp [act]
  inv := by
    intro s k x hk hI
    cases x <;> exact hI
  teardown := by
    intro s k hI hk
    simp only [inner, decide_eq_true_eq] at hk
    simp only [mergeM, mergeAllM, Comp.unsubscribe, hI.1]
    exact hI.2 k hk.1 hk.2

theorem merge_emits (g : List (MEvent Int)) (s : MergeSt) (live : Nat) (hc : s.count = Int.ofNat (live + 1)) :
    gate (emitsFrom mergeStep s g) = Spec.merge s.parentCtx (live + 1) g := by
  induction g generalizing s live with
  | nil => simp [emitsFrom, Spec.merge]
  | cons e es ih =>
    obtain ⟨k, x⟩ := e
    cases x with
    | next c v => simp [emitsFrom, mergeStep, Spec.merge, gate_cons_next, ih s live hc]
    | error c e => simp [emitsFrom, mergeStep, Spec.merge, gate_cons_error]
    | complete c =>
      cases live with
      | zero =>
        have : s.count - 1 = 0 := by rw [hc]; simp
        simp [emitsFrom, mergeStep, Spec.merge, this, gate_cons_complete]
      | succ l =>
        have hne : ¬ (s.count - 1 = 0) := by rw [hc]; simp; omega
        have := ih { s with count := s.count - 1 } l (by simp [hc])
        simp [emitsFrom, mergeStep, Spec.merge, hne, this]

/-! ### the subscribe function: `Just(s₁…sₙ)` plays inside `Subscribe` -/

structure MergeBoot (j : Nat) (r : MSt MergeSt Int Int) : Prop where
  count : r.st.count = 1 + Int.ofNat j
  done : r.st.comp.done = false
  mem : ∀ k, k ∈ r.st.comp.members ↔ (1 ≤ k ∧ k ≤ j)
  down : r.downOpen = true
  booted : r.booted = false
  out : r.out = []
  sopen : ∀ k, r.sopen k = decide (k ≤ j)
  subs : ∀ k, r.subs k = if k ≤ j then 1 else 0

theorem merge_boot_loop (cfg : Sources Int) (hhot : ∀ k, 1 ≤ k → cfg.sync k = false) (rec) (sub : Ctx)
    (j : Nat) (r : MSt MergeSt Int Int) (h0 : MergeBoot 0 r) :
    MergeBoot j (((List.range j).map (fun i => Notif.next sub (Int.ofNat (i + 1)))).foldl
      (deliver mergeM (phases mergeM cfg rec) 0) r) := by
  induction j with
  | zero => simpa using h0
  | succ j ih =>
    rw [List.range_succ, List.map_append, List.foldl_append]
    generalize List.foldl (deliver mergeM (phases mergeM cfg rec) 0) r
      ((List.range j).map (fun i => Notif.next sub (Int.ofNat (i + 1)))) = r1 at ih ⊢
    have hop : r1.sopen 0 = true := by rw [ih.sopen]; simp
    have hs : cfg.sync (j + 1) = false := hhot _ (by omega)
    simp only [List.map_cons, List.map_nil, List.foldl_cons, List.foldl_nil, deliver, hop, if_true,
      Notif.isTerminal_next, Bool.false_eq_true, if_false]
    simp only [mergeM, mergeAllM, phases, phase, List.foldl_cons, List.foldl_nil, if_true, act, Int.toNat_natCast,
      Int.ofNat_eq_natCast, hs, Bool.false_eq_true, if_false, Comp.add, ih.done]
    refine ⟨?_, rfl, ?_, ih.down, ih.booted, ih.out, ?_, ?_⟩
    · simp [ih.count]; omega
    · intro k; simp [ih.mem k]; omega
    · intro k; simp only [setAt, ih.sopen k]
      by_cases hk : k = j + 1
      · simp [hk]
      · simp [hk]; omega
    · intro k; simp only [setAt, ih.subs]
      by_cases hk : k = j + 1
      · simp [hk]
      · simp [hk]; split <;> split <;> first | rfl | omega

theorem phasesAt_eq_phases {σ α β : Type} (m : MMachine σ α β) (cfg : Sources α) (d : Nat) :
    ∃ rec, phasesAt m cfg d = phases m cfg rec := by
  cases d <;> exact ⟨_, rfl⟩

/-- the state when `Subscribe` returns, before any source has notified (`n ≥ 1`) -/
structure MergeReady (n : Nat) (sub : Ctx) (r : MSt MergeSt Int Int) : Prop where
  count : r.st.count = Int.ofNat n
  pctx : r.st.parentCtx = sub
  ok : MergeSt.ok n r.st
  down : r.downOpen = true
  booted : r.booted = true
  out : r.out = []
  sopen : ∀ k, r.sopen k = inner n k
  subs : ∀ k, r.subs k ≠ 0 ↔ k ≤ n

/-- the state right after `sources.SubscribeWithContext` has registered the outer subscriber -/
def mergeStart (sub : Ctx) : MSt MergeSt Int Int where
  st := mergeM.init
  subs := setAt (fun _ => 0) 0 1
  sopen := setAt (fun _ => false) 0 true
  sctx := setAt (fun _ => Ctx.bg) 0 sub

theorem merge_boot_unfold (cfg : Sources Int) (hs : cfg.sync 0 = true) (rec) (sub : Ctx) :
    phases mergeM cfg rec (mergeM.boot sub) { st := mergeM.init } =
      phase mergeM cfg rec ((cfg.script 0).foldl (deliver mergeM rec 0) (mergeStart sub))
        (fun s => ({ s with comp := (s.comp.add (β := Int) 0).1 }, (s.comp.add 0).2)) := by
  have hboot : mergeM.boot sub = [fun s => (s, [.sub 0 sub]),
      fun s => ({ s with comp := (s.comp.add (β := Int) 0).1 }, (s.comp.add 0).2)] := rfl
  simp only [hboot, phases, List.foldl_cons, List.foldl_nil]
  congr 1
  simp only [phase, List.foldl_cons, List.foldl_nil, act, hs, if_true]
  rfl

theorem merge_outer_complete (cfg : Sources Int) (rec) (sub : Ctx) (n : Nat) (hn : 1 ≤ n) (r2 : MSt MergeSt Int Int)
    (h : MergeBoot n r2) :
    deliver mergeM (phases mergeM cfg rec) 0 r2 (.complete sub) =
      { (r2.closeSrc 0) with st := { r2.st with parentCtx := sub, count := r2.st.count - 1 } } := by
  have hop : r2.sopen 0 = true := by rw [h.sopen]; simp
  have hne : ¬ (r2.st.count - 1 = 0) := by rw [h.count]; simp; omega
  simp [deliver, hop, mergeM, mergeAllM, phases, phase, MergeSt.onDone, hne]

theorem merge_boot (n : Nat) (hn : 1 ≤ n) (sub : Ctx) (cfg : Sources Int) (hc : MergeCfg n sub cfg) :
    MergeReady n sub (bootSt mergeM cfg sub) := by
  obtain ⟨rec', hrec⟩ := phasesAt_eq_phases mergeM cfg cfg.n
  have h0 : MergeBoot 0 (mergeStart sub) :=
    ⟨rfl, rfl, fun k => by simp [mergeStart, mergeM, mergeAllM]; omega, rfl, rfl, rfl,
      fun k => by simp only [mergeStart, setAt]; by_cases hk : k = 0 <;> simp [hk],
      fun k => by simp only [mergeStart, setAt]; by_cases hk : k = 0 <;> simp [hk]⟩
  have hloop := merge_boot_loop cfg hc.hot rec' sub n _ h0
  unfold bootSt
  simp only [phasesAt_depth, merge_boot_unfold cfg hc.outerSync, hc.outer, justScript, List.foldl_append, hrec,
    List.foldl_cons, List.foldl_nil]
  generalize List.foldl (deliver mergeM (phases mergeM cfg rec') 0) (mergeStart sub) ((List.range n).map _) = r2 at hloop ⊢
  rw [merge_outer_complete cfg rec' sub n hn r2 hloop]
  simp only [phase, Comp.add, hloop.done, Bool.false_eq_true, if_false, List.foldl_nil, closeSrc_downOpen, hloop.down, if_true]
  refine ⟨?_, rfl, ⟨rfl, ?_⟩, rfl, rfl, hloop.out, ?_, ?_⟩
  · simp [hloop.count]; omega
  · intro k h1 h2; simp [(hloop.mem k).2 ⟨h1, h2⟩]
  · intro k; simp only [closeSrc_sopen, hloop.sopen k, inner]
    by_cases hk : k = 0
    · simp [hk]
    · simp [hk]; omega
  · intro k; simp only [closeSrc_subs, hloop.subs k]; split <;> simp_all

theorem merge_boot_zero (sub : Ctx) (cfg : Sources Int) (hc : MergeCfg 0 sub cfg) :
    (bootSt mergeM cfg sub).downOpen = false ∧ (bootSt mergeM cfg sub).out = [.complete sub] := by
  obtain ⟨rec', hrec⟩ := phasesAt_eq_phases mergeM cfg cfg.n
  unfold bootSt
  simp only [phasesAt_depth, merge_boot_unfold cfg hc.outerSync, hc.outer, justScript, hrec]
  simp [deliver, mergeStart, mergeM, mergeAllM, phases, phase, MergeSt.onDone, act, MSt.emit, setAt, Comp.add]

/-- **Merge / MergeWith / MergeAll∘Just over `n` hot sources**: for every arrival order the output is
    the definition's; and once the output has ended every source is released. -/
theorem merge_spec (n : Nat) (sub : Ctx) (cfg : Sources Int) (hc : MergeCfg n sub cfg) (evs : List (MEvent Int)) :
    (feedAll mergeM cfg (bootSt mergeM cfg sub) evs).out =
      Spec.merge sub n (Spec.gateEvents (Spec.restrict (inner n) evs)) ∧
    ((feedAll mergeM cfg (bootSt mergeM cfg sub) evs).downOpen = false →
      ∀ k, inner n k = true → (feedAll mergeM cfg (bootSt mergeM cfg sub) evs).sopen k = false) := by
  cases n with
  | zero =>
    have hb := merge_boot_zero sub cfg hc
    have hf := feedAll_frozen mergeM cfg evs _ hb.1
    refine ⟨by rw [hf.2, hb.2]; simp [Spec.merge], ?_⟩
    intro _ k hk; simp [inner] at hk; omega
  | succ l =>
    have hb := merge_boot (l + 1) (by omega) sub cfg hc
    have h := emitOnly_out (merge_emitOnly (l + 1) cfg) evs _ hb.down hb.booted hb.ok
      (fun k hk => (hb.subs k).2 (by simp [inner] at hk; omega))
      (fun k hk => Or.inr (by rw [hb.sopen k]; exact hk))
    have hcg : Spec.gateEventsFrom (fun k => !(bootSt mergeM cfg sub).sopen k) (Spec.restrict (inner (l + 1)) evs) =
        Spec.gateEvents (Spec.restrict (inner (l + 1)) evs) := by
      unfold Spec.gateEvents
      apply gateEventsFrom_congr
      intro k hk; simp [hb.sopen k, hk]
    rw [hcg, merge_emits _ _ l hb.count, hb.pctx, hb.out] at h
    simpa using h

end Ro.Multi

/-
  RoProofs.PromPairs — instances of `Pair` (stages that cannot be told apart from outside the
  plugin's package and never emit a nil context):

  * each stand-alone counting operator with the licence on against the same operator with the
    licence off (`return source`);
  * catalogue machines of every shape against themselves: pass-through (`idM`), user callbacks
    that may replace the context (`mapM`, `filterM`, for callbacks that cannot read the private
    key), counters that complete early (`takeM`, `skipM`), emissions made by the subscribe
    function (`startWithM`), at completion time (`endWithM`), with a fresh context
    (`defaultIfEmptyM`), contexts kept in the state (`takeLastM`), and the degenerate case that
    never subscribes to its source (`emptyM`).

  `maxM` is not an instance: on an empty source it emits with a nil context (`max_emits_nil`).
-/
import RoProofs.PromTransparent
import RoModel.Ops.Aggregate
namespace Ro.Prom
open Ro

variable {α : Type}

theorem erase_next {c c' : Ctx} {v v' : α} (h : eraseN (Notif.next c v) = eraseN (Notif.next c' v')) :
    eraseCtx c = eraseCtx c' ∧ v = v' := by
  simp only [eraseN, Notif.next.injEq] at h; exact h
theorem erase_error {c c' : Ctx} {e e' : Err} (h : eraseN (Notif.error c e : Notif α) = eraseN (Notif.error c' e')) :
    eraseCtx c = eraseCtx c' ∧ e = e' := by
  simp only [eraseN, Notif.error.injEq] at h; exact h
theorem erase_complete {c c' : Ctx} (h : eraseN (Notif.complete c : Notif α) = eraseN (Notif.complete c')) :
    eraseCtx c = eraseCtx c' := by
  simp only [eraseN, Notif.complete.injEq] at h; exact h

theorem nonNil_nil : NonNil ([] : List (Notif α)) := fun _ h => by simp at h
theorem nonNil_cons {x : Notif α} {l} (hx : x.ctx.isNil = false) (hl : NonNil l) : NonNil (x :: l) := by
  intro y hy
  rcases List.mem_cons.mp hy with h | h
  · rw [h]; exact hx
  · exact hl y h
theorem nonNil_append {a b : List (Notif α)} (ha : NonNil a) (hb : NonNil b) : NonNil (a ++ b) := by
  intro y hy
  rcases List.mem_append.mp hy with h | h
  · exact ha y h
  · exact hb y h
theorem nonNil_single {x : Notif α} (hx : x.ctx.isNil = false) : NonNil [x] := nonNil_cons hx nonNil_nil

/-- a pair whose two sides are the same machine with equal states: enough for machines that
    keep no context in their state -/
def Pair.refl (a : AnyM α)
    (hsub : ∀ s c, c.isNil = false → NonNil (a.m.onSubscribe s c).2)
    (hstep : ∀ s n n', eraseN n = eraseN n' → n.ctx.isNil = false →
      (a.m.step s n).1 = (a.m.step s n').1 ∧ eraseL (a.m.step s n).2 = eraseL (a.m.step s n').2 ∧
      NonNil (a.m.step s n).2) : Pair α where
  I := a
  P := a
  R := Eq
  init := rfl
  subscribes := rfl
  sub := by
    intro s s' c h hc
    subst h
    exact ⟨rfl, rfl, hsub s c hc⟩
  step := by
    intro s s' n n' h hn hnil
    subst h
    exact hstep s n n' hn hnil

/-! ### stand-alone counting operators: licence on vs licence off -/

/-- a counting forwarder (any state, emissions do not depend on it) against `return source` -/
def Pair.counting (a : AnyM α)
    (hs : a.m.subscribes = true)
    (hsub : ∀ s c, (a.m.onSubscribe s c).2 = [])
    (hstep : ∀ s n, (a.m.step s n).2 = [n]) : Pair α where
  I := a
  P := AnyM.off
  R := fun _ _ => True
  init := trivial
  subscribes := hs
  sub := by
    intro s s' c _ _
    exact ⟨trivial, by rw [hsub]; rfl, by rw [hsub]; exact nonNil_nil⟩
  step := by
    intro s s' n n' _ hn hnil
    refine ⟨trivial, ?_, by rw [hstep]; exact nonNil_single hnil⟩
    rw [hstep]
    have : (AnyM.off (α := α)).m.step s' n' = (s', [n']) := by cases n' <;> rfl
    rw [this]; simp [hn]

def pairCntNext : Pair α :=
  Pair.counting AnyM.cntNext rfl (fun _ _ => rfl) (fun _ n => by cases n <;> rfl)
def pairCntError : Pair α :=
  Pair.counting AnyM.cntError rfl (fun _ _ => rfl) (fun _ n => by cases n <;> rfl)
def pairCntComplete : Pair α :=
  Pair.counting AnyM.cntComplete rfl (fun _ _ => rfl) (fun _ n => by cases n <;> rfl)
def pairCntSub : Pair α :=
  Pair.counting AnyM.cntSub rfl (fun _ _ => rfl) (fun _ n => by cases n <;> rfl)
def pairLag : Pair α :=
  Pair.counting AnyM.lag rfl (fun _ _ => rfl) (fun _ n => by cases n <;> rfl)

/-! ### catalogue machines -/

/-- a user callback that cannot read the private key (it is an unexported type of another
    package) and does not return a nil context -/
def Oblivious {β : Type} (f : Ctx → α → Nat → Ctx × β) : Prop :=
  ∀ c c' v i, eraseCtx c = eraseCtx c' → c.isNil = false →
    eraseCtx (f c v i).1 = eraseCtx (f c' v i).1 ∧ (f c v i).2 = (f c' v i).2 ∧ (f c v i).1.isNil = false

theorem eraseCtx_tag (c : Ctx) (m : Nat) (hm : m ≠ ckKey) : eraseCtx (c.tag m) = (eraseCtx c).tag m := by
  have hb : (m != ckKey) = true := by simpa [bne_iff_ne] using hm
  simp [eraseCtx, Ctx.tag, List.filter_append, List.filter, hb]

theorem eraseL_pairs (q : List (Ctx × α)) :
    eraseL (q.map (fun p => Notif.next p.1 p.2)) =
      (q.map (fun p => (eraseCtx p.1, p.2))).map (fun p => Notif.next p.1 p.2) := by
  simp [eraseL, List.map_map, Function.comp_def, eraseN]

/-- the callbacks of the harness: apply a pure function, maybe append a marker -/
theorem oblivious_tag {β : Type} (g : α → Nat → β) (t : Option Nat) (ht : t ≠ some ckKey) :
    Oblivious (fun c v i => ((match t with | some m => c.tag m | none => c), g v i)) := by
  intro c c' v i h hc
  cases t with
  | none => exact ⟨h, rfl, hc⟩
  | some m =>
    have hm : m ≠ ckKey := fun e => ht (by rw [e])
    refine ⟨?_, rfl, hc⟩
    simp only [eraseCtx_tag _ _ hm, h]

def pairId : Pair α :=
  Pair.refl (AnyM.of idM) (fun _ _ _ => nonNil_nil) (by
    intro s n n' hn hnil
    have hnil' : n'.ctx.isNil = false := (isNil_of_erase hn) ▸ hnil
    cases n <;> cases n' <;> simp [eraseN] at hn <;>
      exact ⟨rfl, by simp [AnyM.of, Machine.step, idM, fwdE, fwdC, eraseN, hn], nonNil_single hnil⟩)

def pairTake (count : Nat) : Pair α :=
  Pair.refl (AnyM.of (takeM count)) (fun _ _ _ => nonNil_nil) (by
    intro s n n' hn hnil
    cases n <;> cases n' <;> simp [eraseN] at hn
    · refine ⟨rfl, ?_, ?_⟩
      · simp only [AnyM.of, Machine.step, takeM]
        split <;> simp [eraseN, hn]
      · simp only [AnyM.of, Machine.step, takeM]
        split
        · exact nonNil_cons hnil (nonNil_single hnil)
        · exact nonNil_single hnil
    · exact ⟨rfl, by simp [AnyM.of, Machine.step, takeM, fwdE, eraseN, hn], nonNil_single hnil⟩
    · exact ⟨rfl, by simp [AnyM.of, Machine.step, takeM, fwdC, eraseN, hn], nonNil_single hnil⟩)

def pairSkip (count : Nat) : Pair α :=
  Pair.refl (AnyM.of (skipM count)) (fun _ _ _ => nonNil_nil) (by
    intro s n n' hn hnil
    cases n <;> cases n' <;> simp [eraseN] at hn
    · refine ⟨rfl, ?_, ?_⟩
      · simp only [AnyM.of, Machine.step, skipM]
        split <;> simp [eraseN, hn]
      · simp only [AnyM.of, Machine.step, skipM]
        split
        · exact nonNil_single hnil
        · exact nonNil_nil
    · exact ⟨rfl, by simp [AnyM.of, Machine.step, skipM, fwdE, eraseN, hn], nonNil_single hnil⟩
    · exact ⟨rfl, by simp [AnyM.of, Machine.step, skipM, fwdC, eraseN, hn], nonNil_single hnil⟩)

def pairMap (f : Ctx → α → Nat → Ctx × α) (hf : Oblivious f) : Pair α :=
  Pair.refl (AnyM.of (mapM f)) (fun _ _ _ => nonNil_nil) (by
    intro s n n' hn hnil
    cases n <;> cases n' <;> simp [eraseN] at hn
    · rename_i c v c' v'
      obtain ⟨hc, hv⟩ := hn
      subst hv
      have h := hf c c' v s hc hnil
      exact ⟨rfl, by simp [AnyM.of, Machine.step, mapM, eraseN, h.1, h.2.1], nonNil_single h.2.2⟩
    · exact ⟨rfl, by simp [AnyM.of, Machine.step, mapM, fwdE, eraseN, hn], nonNil_single hnil⟩
    · exact ⟨rfl, by simp [AnyM.of, Machine.step, mapM, fwdC, eraseN, hn], nonNil_single hnil⟩)

def pairFilter (p : Pred α) (hp : Oblivious p) : Pair α :=
  Pair.refl (AnyM.of (filterM p)) (fun _ _ _ => nonNil_nil) (by
    intro s n n' hn hnil
    cases n <;> cases n' <;> simp [eraseN] at hn
    · rename_i c v c' v'
      obtain ⟨hc, hv⟩ := hn
      subst hv
      have h := hp c c' v s hc hnil
      refine ⟨rfl, ?_, ?_⟩
      · simp only [AnyM.of, Machine.step, filterM, ← h.2.1]
        split <;> simp [eraseN, h.1]
      · simp only [AnyM.of, Machine.step, filterM]
        split
        · exact nonNil_single h.2.2
        · exact nonNil_nil
    · exact ⟨rfl, by simp [AnyM.of, Machine.step, filterM, fwdE, eraseN, hn], nonNil_single hnil⟩
    · exact ⟨rfl, by simp [AnyM.of, Machine.step, filterM, fwdC, eraseN, hn], nonNil_single hnil⟩)

def pairStartWith (pre : List α) : Pair α :=
  Pair.refl (AnyM.of (startWithM pre))
    (by
      intro s c hc y hy
      simp only [AnyM.of, startWithM, List.mem_map] at hy
      obtain ⟨v, _, rfl⟩ := hy
      exact hc)
    (by
      intro s n n' hn hnil
      cases n <;> cases n' <;> simp [eraseN] at hn <;>
        exact ⟨rfl, by simp [AnyM.of, Machine.step, startWithM, fwdE, fwdC, eraseN, hn], nonNil_single hnil⟩)

def pairEndWith (suf : List α) : Pair α :=
  Pair.refl (AnyM.of (endWithM suf)) (fun _ _ _ => nonNil_nil) (by
    intro s n n' hn hnil
    cases n <;> cases n' <;> simp [eraseN] at hn
    · exact ⟨rfl, by simp [AnyM.of, Machine.step, endWithM, eraseN, hn], nonNil_single hnil⟩
    · exact ⟨rfl, by simp [AnyM.of, Machine.step, endWithM, fwdE, eraseN, hn], nonNil_single hnil⟩
    · refine ⟨rfl, ?_, ?_⟩
      · simp [AnyM.of, Machine.step, endWithM, eraseL, eraseN, hn, Function.comp_def]
      · apply nonNil_append
        · intro y hy
          simp only [List.mem_map] at hy
          obtain ⟨v, _, rfl⟩ := hy
          exact hnil
        · exact nonNil_single hnil)

def pairDefaultIfEmpty (dc : Ctx) (d : α) (hdc : dc.isNil = false) : Pair α :=
  Pair.refl (AnyM.of (defaultIfEmptyM dc d)) (fun _ _ _ => nonNil_nil) (by
    intro s n n' hn hnil
    cases n <;> cases n' <;> simp [eraseN] at hn
    · exact ⟨rfl, by simp [AnyM.of, Machine.step, defaultIfEmptyM, eraseN, hn], nonNil_single hnil⟩
    · exact ⟨rfl, by simp [AnyM.of, Machine.step, defaultIfEmptyM, fwdE, eraseN, hn], nonNil_single hnil⟩
    · refine ⟨rfl, ?_, ?_⟩
      · cases s <;> simp [AnyM.of, Machine.step, defaultIfEmptyM, eraseN, hn]
      · apply nonNil_append
        · cases s
          · exact nonNil_nil
          · exact nonNil_single hdc
        · exact nonNil_single hnil)

def pairEmpty : Pair α :=
  Pair.refl (AnyM.of (emptyM (α := α) (β := α)))
    (fun _ c hc => nonNil_single hc)
    (by
      intro s n n' hn hnil
      cases n <;> cases n' <;> simp [eraseN] at hn <;>
        exact ⟨rfl, rfl, nonNil_nil⟩)

/-- the state relation for `TakeLast`: the queues agree up to the private key and hold no nil
    context -/
def TakeLastR (q q' : List (Ctx × α)) : Prop :=
  q.map (fun p => (eraseCtx p.1, p.2)) = q'.map (fun p => (eraseCtx p.1, p.2)) ∧ ∀ p ∈ q, p.1.isNil = false

theorem takeLast_step (count : Nat) (q q' : List (Ctx × α)) (n n' : Notif α) (hR : TakeLastR q q')
    (hn : eraseN n = eraseN n') (hnil : n.ctx.isNil = false) :
    TakeLastR ((takeLastM count).step q n).1 ((takeLastM count).step q' n').1 ∧
    eraseL ((takeLastM count).step q n).2 = eraseL ((takeLastM count).step q' n').2 ∧
    NonNil ((takeLastM count).step q n).2 := by
  obtain ⟨hq, hqn⟩ := hR
  have hlen : q.length = q'.length := by
    have := congrArg List.length hq
    simp only [List.length_map] at this
    exact this
  cases n <;> cases n' <;> simp [eraseN] at hn
  · rename_i c v c' v'
    obtain ⟨hc, hv⟩ := hn
    subst hv
    refine ⟨⟨?_, ?_⟩, rfl, nonNil_nil⟩
    · simp only [Machine.step, takeLastM, hlen]
      by_cases hge : q'.length ≥ count
      · simp only [hge, if_true, List.map_append, List.map_drop, hq, List.map_cons, List.map_nil, hc]
      · simp only [hge, if_false, List.map_append, hq, List.map_cons, List.map_nil, hc]
    · intro p hp
      simp only [Machine.step, takeLastM] at hp
      rcases List.mem_append.mp hp with h | h
      · by_cases hge : q.length ≥ count
        · simp only [hge, if_true] at h
          exact hqn p (List.mem_of_mem_drop h)
        · simp only [hge, if_false] at h
          exact hqn p h
      · simp only [List.mem_singleton] at h
        rw [h]; exact hnil
  · exact ⟨⟨hq, hqn⟩, by simp [Machine.step, takeLastM, fwdE, eraseN, hn], nonNil_single hnil⟩
  · rename_i c c'
    refine ⟨⟨hq, hqn⟩, ?_, ?_⟩
    · simp only [Machine.step, takeLastM, eraseL_append, eraseL_cons, eraseL_nil, eraseN, hn]
      congr 1
      rw [eraseL_pairs, eraseL_pairs, hq]
    · apply nonNil_append
      · intro y hy
        simp only [List.mem_map] at hy
        obtain ⟨p, hp, rfl⟩ := hy
        exact hqn p hp
      · exact nonNil_single hnil

/-- `TakeLast` keeps (context, value) pairs in its state -/
def pairTakeLast (count : Nat) : Pair α where
  I := AnyM.of (takeLastM count)
  P := AnyM.of (takeLastM count)
  R := TakeLastR
  init := ⟨rfl, fun _ h => by simp [AnyM.of, takeLastM] at h⟩
  subscribes := rfl
  sub := fun s s' c h _ => ⟨h, rfl, nonNil_nil⟩
  step := fun q q' n n' hR hn hnil => takeLast_step count q q' n n' hR hn hnil

/-- `Max` on an empty source emits its value with a nil context (known finding of C04/C09):
    it is outside the domain of the transparency theorem -/
theorem max_emits_nil (c : Ctx) : ∃ x ∈ (maxM.step none (Notif.complete c)).2, x.ctx.isNil = true :=
  ⟨.next Ctx.nil 0, by simp [Machine.step, maxM], rfl⟩

end Ro.Prom

/-
  RoProofs.OpsGen — tools for RoProps/C04gen.lean: the machines regenerated from the Go source
  (RoGen/OpsGen.lean) are proved EQUAL to the hand-written ones (RoModel/Ops/*.lean).
  `Machine` is a structure of functions, so equality is field-wise function extensionality.
-/
import RoModel.Ops.Aggregate
namespace Ro
variable {σ α β : Type}

/-- two machines are equal when their six fields agree pointwise -/
theorem Machine.ext' {m1 m2 : Machine σ α β}
    (h0 : m1.init = m2.init) (h1 : m1.subscribes = m2.subscribes)
    (h2 : ∀ s c, m1.onSubscribe s c = m2.onSubscribe s c)
    (h3 : ∀ s c v, m1.onNext s c v = m2.onNext s c v)
    (h4 : ∀ s c e, m1.onError s c e = m2.onError s c e)
    (h5 : ∀ s c, m1.onComplete s c = m2.onComplete s c) : m1 = m2 := by
  cases m1; cases m2
  simp only [Machine.mk.injEq]
  exact ⟨h0, h1, funext fun s => funext fun c => h2 s c, funext fun s => funext fun c => funext fun v => h3 s c v,
    funext fun s => funext fun c => funext fun e => h4 s c e, funext fun s => funext fun c => h5 s c⟩

/-- `machine_eq gen hand`: field-wise equality of two machines given by definitions `gen` and
    `hand`: a field is closed by `rfl` where the regenerated text is definitionally the
    hand-written one; otherwise both definitions are unfolded, every `if`/`match` is split and each
    case is closed by `rfl`, `simp_all` (+ `omega` for contradictory comparisons) or pair
    extensionality. -/
syntax "machine_eq " ident ident : tactic
macro_rules
  | `(tactic| machine_eq $a $b) => `(tactic|
      (apply Machine.ext' <;> intros <;>
        first
        | rfl
        | (simp only [$a:ident, $b:ident] <;> repeat' split) <;>
            first | rfl | (simp_all <;> omega) | (simp_all [Prod.ext_iff])))

end Ro

/-
  RoProofs.OpsGen — tools for RoProps/C04gen.lean: the machines regenerated from the Go source
  (RoGen/OpsGen.lean) are proved EQUAL to the hand-written ones (RoModel/Ops/*.lean), or — where the
  natural state encoding of the Go code differs from the hand-written one — to SIMULATE them
  (`Machine.Sim`, `Machine.Sim.run`: same trace, drops, steps and gates for every raw script).
  `Machine` is a structure of functions, so equality is field-wise function extensionality.
-/
import RoModel.Ops.Aggregate
namespace Ro
variable {σ σ₁ σ₂ α β : Type}

/-- two machines are equal when their six fields agree pointwise -/
theorem Machine.ext' {m1 m2 : Machine σ α β}
    (h0 : m1.init = m2.init) (h1 : m1.subscribes = m2.subscribes)
    (h2 : ∀ s c, m1.onSubscribe s c = m2.onSubscribe s c)
    (h3 : ∀ s c v, m1.onNext s c v = m2.onNext s c v)
    (h4 : ∀ s c e, m1.onError s c e = m2.onError s c e)
    (h5 : ∀ s c, m1.onComplete s c = m2.onComplete s c) : m1 = m2 := by
  cases m1; cases m2
  simp only [Machine.mk.injEq]
  exact ⟨h0, h1, funext fun s => funext fun c => h2 s c, funext fun s => funext fun c => funext fun v => h3 s c v,
    funext fun s => funext fun c => funext fun e => h4 s c e, funext fun s => funext fun c => h5 s c⟩

/-- `machine_eq gen hand`: field-wise equality of two machines given by definitions `gen` and
    `hand`: a field is closed by `rfl` where the regenerated text is definitionally the
    hand-written one; otherwise both definitions are unfolded, every `if`/`match` is split and each
    case is closed by `rfl`, `simp_all` (+ `omega` for contradictory comparisons) or pair
    extensionality. -/
syntax "machine_eq " ident ident : tactic
macro_rules
  | `(tactic| machine_eq $a $b) => `(tactic|
      (apply Machine.ext' <;> intros <;>
        first
        | rfl
        | (simp only [$a:ident, $b:ident] <;> repeat' split) <;>
            first | rfl | (simp_all <;> omega) | (simp_all [Prod.ext_iff])))

/-! ### refinement: a regenerated machine with its own natural state encoding simulates the
    hand-written one -/

/-- `m1` refines `m2` through the state relation `R`: related initial states, and every reaction
    from related states makes the same emissions and ends in related states. -/
structure Machine.Sim (R : σ₁ → σ₂ → Prop) (m1 : Machine σ₁ α β) (m2 : Machine σ₂ α β) : Prop where
  init : R m1.init m2.init
  subscribes : m1.subscribes = m2.subscribes
  onSubscribe : ∀ s1 s2 c, R s1 s2 →
    R (m1.onSubscribe s1 c).1 (m2.onSubscribe s2 c).1 ∧ (m1.onSubscribe s1 c).2 = (m2.onSubscribe s2 c).2
  onNext : ∀ s1 s2 c v, R s1 s2 →
    R (m1.onNext s1 c v).1 (m2.onNext s2 c v).1 ∧ (m1.onNext s1 c v).2 = (m2.onNext s2 c v).2
  onError : ∀ s1 s2 c e, R s1 s2 →
    R (m1.onError s1 c e).1 (m2.onError s2 c e).1 ∧ (m1.onError s1 c e).2 = (m2.onError s2 c e).2
  onComplete : ∀ s1 s2 c, R s1 s2 →
    R (m1.onComplete s1 c).1 (m2.onComplete s2 c).1 ∧ (m1.onComplete s1 c).2 = (m2.onComplete s2 c).2

/-- two run states that differ only in the (related) machine state -/
structure RunSt.Rel (R : σ₁ → σ₂ → Prop) (r1 : RunSt σ₁ α β) (r2 : RunSt σ₂ α β) : Prop where
  st : R r1.st r2.st
  upOpen : r1.upOpen = r2.upOpen
  downOpen : r1.downOpen = r2.downOpen
  out : r1.out = r2.out
  drops : r1.drops = r2.drops
  steps : r1.steps = r2.steps

theorem Machine.Sim.step {R : σ₁ → σ₂ → Prop} {m1 : Machine σ₁ α β} {m2 : Machine σ₂ α β}
    (h : m1.Sim R m2) (s1 : σ₁) (s2 : σ₂) (x : Notif α) (hr : R s1 s2) :
    R (m1.step s1 x).1 (m2.step s2 x).1 ∧ (m1.step s1 x).2 = (m2.step s2 x).2 := by
  cases x with
  | next c v => exact h.onNext s1 s2 c v hr
  | error c e => exact h.onError s1 s2 c e hr
  | complete c => exact h.onComplete s1 s2 c hr

theorem RunSt.Rel.push {R : σ₁ → σ₂ → Prop} {r1 : RunSt σ₁ α β} {r2 : RunSt σ₂ α β}
    (h : RunSt.Rel R r1 r2) (n : Notif β) : RunSt.Rel R (r1.push n) (r2.push n) := by
  have hd := h.downOpen
  unfold RunSt.push
  cases h2 : r2.downOpen <;> rw [h2] at hd <;> simp only [hd, Bool.false_eq_true, if_false, if_true]
  · exact ⟨h.st, h.upOpen, rfl, h.out, by simp [h.drops], h.steps⟩
  · exact ⟨h.st, h.upOpen, rfl, by simp [h.out], h.drops, h.steps⟩

theorem RunSt.Rel.pushAll {R : σ₁ → σ₂ → Prop} (ns : List (Notif β)) {r1 : RunSt σ₁ α β} {r2 : RunSt σ₂ α β}
    (h : RunSt.Rel R r1 r2) : RunSt.Rel R (r1.pushAll ns) (r2.pushAll ns) := by
  induction ns generalizing r1 r2 with
  | nil => exact h
  | cons n ns ih => exact ih (h.push n)

theorem RunSt.Rel.settle {R : σ₁ → σ₂ → Prop} {r1 : RunSt σ₁ α β} {r2 : RunSt σ₂ α β}
    (h : RunSt.Rel R r1 r2) (mode : SrcMode) (t : Bool) (n1 n2 : Nat) (hn : n1 = n2) :
    RunSt.Rel R (r1.settle mode t n1) (r2.settle mode t n2) := by
  subst hn
  unfold RunSt.settle
  exact ⟨h.st, by simp [h.downOpen], h.downOpen, h.out, h.drops, by simp [h.steps, h.out]⟩

theorem RunSt.Rel.feed {R : σ₁ → σ₂ → Prop} {m1 : Machine σ₁ α β} {m2 : Machine σ₂ α β}
    (hs : m1.Sim R m2) (mode : SrcMode) {r1 : RunSt σ₁ α β} {r2 : RunSt σ₂ α β}
    (h : RunSt.Rel R r1 r2) (x : Notif α) : RunSt.Rel R (RunSt.feed m1 mode r1 x) (RunSt.feed m2 mode r2 x) := by
  have hstep := hs.step r1.st r2.st x h.st
  unfold RunSt.feed
  by_cases h1 : r1.upOpen = true
  · have h2 : r2.upOpen = true := h.upOpen ▸ h1
    rw [if_pos h1, if_pos h2, hstep.2]
    have h0 : RunSt.Rel R { r1 with st := (m1.step r1.st x).1 } { r2 with st := (m2.step r2.st x).1 } :=
      ⟨hstep.1, h.upOpen, h.downOpen, h.out, h.drops, h.steps⟩
    exact RunSt.Rel.settle (h0.pushAll _) mode _ _ _ (by rw [h.out])
  · have h2 : ¬ r2.upOpen = true := h.upOpen ▸ h1
    rw [if_neg h1, if_neg h2]
    exact ⟨h.st, h.upOpen, h.downOpen, h.out, by simp [h.drops], by simp [h.steps]⟩

theorem RunSt.Rel.foldFeed {R : σ₁ → σ₂ → Prop} {m1 : Machine σ₁ α β} {m2 : Machine σ₂ α β}
    (hs : m1.Sim R m2) (mode : SrcMode) (raw : List (Notif α)) {r1 : RunSt σ₁ α β} {r2 : RunSt σ₂ α β}
    (h : RunSt.Rel R r1 r2) : RunSt.Rel R (raw.foldl (RunSt.feed m1 mode) r1) (raw.foldl (RunSt.feed m2 mode) r2) := by
  induction raw generalizing r1 r2 with
  | nil => exact h
  | cons x xs ih => exact ih (h.feed hs mode x)

theorem Machine.Sim.start {R : σ₁ → σ₂ → Prop} {m1 : Machine σ₁ α β} {m2 : Machine σ₂ α β}
    (hs : m1.Sim R m2) (sub : Ctx) : RunSt.Rel R (m1.start sub) (m2.start sub) := by
  unfold Machine.start
  have h := hs.onSubscribe m1.init m2.init sub hs.init
  have h0 : RunSt.Rel R ({ st := (m1.onSubscribe m1.init sub).1 } : RunSt σ₁ α β) ({ st := (m2.onSubscribe m2.init sub).1 } : RunSt σ₂ α β) :=
    ⟨h.1, rfl, rfl, rfl, rfl, rfl⟩
  rw [h.2]
  exact h0.pushAll _

/-- a simulation makes the two runs indistinguishable: same delivered trace, same refused
    notifications, same steps, same gates — for every raw script, source mode and subscription context -/
theorem Machine.Sim.run {R : σ₁ → σ₂ → Prop} {m1 : Machine σ₁ α β} {m2 : Machine σ₂ α β}
    (hs : m1.Sim R m2) (mode : SrcMode) (sub : Ctx) (raw : List (Notif α)) :
    RunSt.Rel R (runOp m1 mode sub raw) (runOp m2 mode sub raw) := by
  unfold runOp
  simp only []
  rw [hs.subscribes]
  have h0 := hs.start sub
  cases m2.subscribes
  · exact h0
  · simp only [if_true]
    apply RunSt.Rel.foldFeed hs mode raw
    unfold RunSt.afterSubscribe
    rw [h0.downOpen]
    split
    · exact ⟨h0.st, rfl, by first | rfl | exact h0.downOpen, h0.out, h0.drops, h0.steps⟩
    · exact h0

theorem Machine.Sim.runCut {R : σ₁ → σ₂ → Prop} {m1 : Machine σ₁ α β} {m2 : Machine σ₂ α β}
    (hs : m1.Sim R m2) (sub : Ctx) (raw : List (Notif α)) (k : Nat) :
    RunSt.Rel R (runOpCut m1 sub raw k) (runOpCut m2 sub raw k) := by
  unfold runOpCut
  simp only []
  rw [hs.subscribes]
  have h0 := hs.start sub
  cases m2.subscribes
  · exact h0
  · simp only [if_true]
    apply RunSt.Rel.foldFeed hs .hot
    have h1 : RunSt.Rel R ((m1.start sub).afterSubscribe .hot) ((m2.start sub).afterSubscribe .hot) := by
      unfold RunSt.afterSubscribe
      rw [h0.downOpen]
      split
      · exact ⟨h0.st, rfl, by first | rfl | exact h0.downOpen, h0.out, h0.drops, h0.steps⟩
      · exact h0
    have h2 := RunSt.Rel.foldFeed hs .hot (raw.take k) h1
    exact ⟨h2.st, rfl, rfl, h2.out, h2.drops, h2.steps⟩

theorem Machine.Sim.out {R : σ₁ → σ₂ → Prop} {m1 : Machine σ₁ α β} {m2 : Machine σ₂ α β}
    (hs : m1.Sim R m2) (mode : SrcMode) (sub : Ctx) (raw : List (Notif α)) :
    (runOp m1 mode sub raw).out = (runOp m2 mode sub raw).out := (hs.run mode sub raw).out

/-- equal machines simulate each other through equality of states -/
theorem Machine.Sim.ofEq {m1 m2 : Machine σ α β} (h : m1 = m2) : m1.Sim (· = ·) m2 := by
  subst h
  exact ⟨rfl, rfl, fun _ _ _ h => by subst h; exact ⟨rfl, rfl⟩, fun _ _ _ _ h => by subst h; exact ⟨rfl, rfl⟩,
    fun _ _ _ _ h => by subst h; exact ⟨rfl, rfl⟩, fun _ _ _ h => by subst h; exact ⟨rfl, rfl⟩⟩
/-- simulation through the trivial relation: the two machines make the same emissions from any states -/
syntax "sim_any " ident ident : tactic
macro_rules
  | `(tactic| sim_any $a $b) => `(tactic|
      (refine ⟨trivial, rfl, fun _ _ _ _ => ⟨trivial, ?_⟩, fun _ _ _ _ _ => ⟨trivial, ?_⟩, fun _ _ _ _ _ => ⟨trivial, ?_⟩, fun _ _ _ _ => ⟨trivial, ?_⟩⟩ <;>
        first | rfl | (simp only [$a:ident, $b:ident] <;> repeat' split) <;> first | rfl | simp_all))


/-! ### list lemmas for the ring buffer of `SkipLast` and the index loop of `TakeLast` -/

theorem map_range_getD (l : List α) (d : α) {γ : Type} (f : α → γ) :
    (List.range l.length).map (fun i => f (l.getD i d)) = l.map f := by
  apply List.ext_getElem
  · simp
  · intro i h1 h2
    have hi : i < l.length := by simpa using h1
    simp [List.getD_eq_getElem?_getD, List.getElem?_eq_getElem hi]

theorem take_succ_set (l : List α) (n : Nat) (x : α) (h : n < l.length) :
    (l.set n x).take (n + 1) = l.take n ++ [x] := by
  induction l generalizing n with
  | nil => simp at h
  | cons a l ih =>
    cases n with
    | zero => simp
    | succ n => simp at h; simp [ih n h]

theorem set_last (l : List α) (n : Nat) (x : α) (h : n + 1 = l.length) : l.set n x = l.take n ++ [x] := by
  have := take_succ_set l n x (by omega)
  rw [← this, List.take_of_length_le (by simp; omega)]

theorem drop_succ_set (l : List α) (n : Nat) (x : α) : (l.set n x).drop (n + 1) = l.drop (n + 1) := by
  induction l generalizing n with
  | nil => simp
  | cons a l ih =>
    cases n with
    | zero => simp
    | succ n => simp [ih n]

theorem drop_eq_getD_cons (l : List α) (n : Nat) (d : α) (h : n < l.length) : l.drop n = l.getD n d :: l.drop (n + 1) := by
  rw [List.drop_eq_getElem_cons h]
  simp [List.getD_eq_getElem?_getD, List.getElem?_eq_getElem h]

end Ro

/-
  RoProofs.PromStamped — a static sub-domain on which the counters are exactly the ones the
  property states: chains of operators that *keep the checkpoint*, i.e. every value they emit
  carries a non-nil context descending from a value they received (`Keeps`). Then every value
  that leaves an operator carries the checkpoint stored by `observeBeforePipe`, so every
  processing-time observer makes one observation per value (`allStamped_of_keeps`).

  `Keeps` instances: the pointwise operators (`idM`, `mapM`, `filterM`, `mapToM`, `mapErrM`,
  `scanM`, `clampM`, `distinctByM`, `ignoreElementsM`), the cutting ones (`takeM`, `skipM`,
  `skipWhileM`, `takeWhileM`, `headM`, `firstM`, `elementAtM`, `findM`, `throwIfEmptyM`) and the
  ones that replay stored (context, value) pairs (`takeLastM`, `skipLastM`, `tailM`, `lastM`,
  `minM`). Not instances, each with a one-line reason in docs/C19.md: operators that emit a value
  at subscription or completion time with the subscriber's / the terminal's context or a fresh one.
-/
import RoProofs.PromPairsAll
import RoProofs.PromCounters
namespace Ro.Prom
open Ro

variable {α β κ : Type}

/-- a value carries a non-nil context with the checkpoint (terminals: nothing required) -/
def GoodN : Notif α → Prop
  | .next c _ => c.isNil = false ∧ stamped c = true
  | _ => True

def GoodL (l : List (Notif α)) : Prop := ∀ x ∈ l, GoodN x

@[simp] theorem goodL_nil : GoodL ([] : List (Notif α)) ↔ True := ⟨fun _ => trivial, fun _ _ h => by simp at h⟩
@[simp] theorem goodL_cons {x : Notif α} {l} : GoodL (x :: l) ↔ GoodN x ∧ GoodL l :=
  ⟨fun h => ⟨h x (List.mem_cons_self ..), fun y hy => h y (List.mem_cons_of_mem _ hy)⟩,
   fun h y hy => by rcases List.mem_cons.mp hy with e | e; exact e ▸ h.1; exact h.2 y e⟩
@[simp] theorem goodL_append {a b : List (Notif α)} : GoodL (a ++ b) ↔ GoodL a ∧ GoodL b :=
  ⟨fun h => ⟨fun x hx => h x (List.mem_append_left _ hx), fun x hx => h x (List.mem_append_right _ hx)⟩,
   fun h x hx => by rcases List.mem_append.mp hx with e | e; exact h.1 x e; exact h.2 x e⟩
@[simp] theorem goodN_next (c : Ctx) (v : α) : GoodN (Notif.next c v) ↔ c.isNil = false ∧ stamped c = true := Iff.rfl
@[simp] theorem goodN_error (c : Ctx) (e : Err) : GoodN (Notif.error c e : Notif α) ↔ True := Iff.rfl
@[simp] theorem goodN_complete (c : Ctx) : GoodN (Notif.complete c : Notif α) ↔ True := Iff.rfl

theorem stamped_stamp (c : Ctx) : stamped (stamp c) = true := by
  simp [stamped, stamp, Ctx.tag]

theorem stamped_tag (c : Ctx) (m : Nat) (h : stamped c = true) : stamped (c.tag m) = true := by
  simp only [stamped, Ctx.tag, List.contains_eq_mem, List.mem_append, decide_eq_true_eq] at h ⊢
  exact Or.inl h

theorem count_of_goodL (l : List (Notif α)) (h : GoodL l) : countStampedNext l = countNext l := by
  induction l with
  | nil => rfl
  | cons x xs ih =>
    rw [goodL_cons] at h
    cases x with
    | next c v =>
      have := h.1
      simp only [goodN_next] at this
      simp [countStampedNext, countNext, ih h.2, this.1, this.2]
    | error c e => simp [countStampedNext, countNext, ih h.2]
    | complete c => simp [countStampedNext, countNext, ih h.2]

/-- an operator that keeps the checkpoint: from values that carry it, only values that carry it -/
structure Keeps (α : Type) : Type 1 where
  a : AnyM α
  Inv : a.σ → Prop
  init : Inv a.m.init
  sub : ∀ s c, Inv s → Inv (a.m.onSubscribe s c).1 ∧ GoodL (a.m.onSubscribe s c).2
  step : ∀ s n, Inv s → GoodN n → Inv (a.m.step s n).1 ∧ GoodL (a.m.step s n).2

def chainK : List (Keeps α) → List (AnyM α)
  | [] => []
  | k :: ks => k.a :: chainK ks

/-- invariant of `tailI (chainK ks)`: every stage state satisfies its invariant and every gate
    (the operators', the processing-time observers', `observeAfterPipe`'s) has only let through
    values that carry the checkpoint -/
def TInv : (ks : List (Keeps α)) → Cfg (tailI (chainK ks)) → Prop
  | [], c => GoodL c.1.seen
  | k :: rest, c => k.Inv c.1.st ∧ GoodL c.1.seen ∧ GoodL c.2.1.seen ∧ TInv rest c.2.2

theorem feedAll_good {C : Type} (f : C → Notif α → C × List (Notif α)) (P : C → Prop)
    (h : ∀ c n, P c → GoodN n → P (f c n).1) (c : C) (ns : List (Notif α)) (hc : P c) (hn : GoodL ns) :
    P (feedAll f c ns).1 := by
  induction ns generalizing c with
  | nil => simpa
  | cons x xs ih =>
    rw [goodL_cons] at hn
    rw [feedAll_cons]
    exact ih _ (h _ _ hc hn.1) hn.2

theorem proc_step_good (s : (AnyM.proc (α := α)).σ) (n : Notif α) (hn : GoodN n) :
    GoodL ((AnyM.proc (α := α)).m.step s n).2 := by
  cases n with
  | next c v =>
    simp only [goodN_next] at hn
    simp only [AnyM.proc, Machine.step, procM, hn.1, Bool.false_eq_true, if_false, goodL_cons, goodL_nil, goodN_next, and_true]
    exact ⟨hn.1, stamped_stamp c⟩
  | error c e => simp [AnyM.proc, Machine.step, procM, fwdE]
  | complete c => simp [AnyM.proc, Machine.step, procM, fwdC]

theorem tinv_push (hot : Bool) (ks : List (Keeps α)) (c : Cfg (tailI (chainK ks))) (n : Notif α)
    (hc : TInv ks c) (hn : GoodN n) : TInv ks (push hot (tailI (chainK ks)) c n).1 := by
  induction ks generalizing n with
  | nil =>
    have hc' : GoodL c.1.seen := hc
    show GoodL (push hot [AnyM.after] c n).1.1.seen
    cases hg : c.1.gate
    · rw [push_closed hot [AnyM.after] c n hg]; exact hc'
    · rw [push_cons_open hot _ _ c n hg]
      simp [hc', hn]
  | cons k rest ih =>
    obtain ⟨hI, hs, hps, hT⟩ := hc
    cases hg : c.1.gate
    · have : headOpen (tailI (chainK (k :: rest))) c = false := hg
      rw [push_closed hot _ c n this]; exact ⟨hI, hs, hps, hT⟩
    · have hst := k.step c.1.st n hI hn
      show TInv (k :: rest) (push hot (k.a :: AnyM.proc :: tailI (chainK rest)) c n).1
      rw [push_cons_open hot _ _ c n hg]
      -- feed the operator's emissions into `proc :: tailI …`
      have hfeed := feedAll_good (push hot (AnyM.proc :: tailI (chainK rest)))
        (fun c' => GoodL c'.1.seen ∧ TInv rest c'.2)
        (by
          intro c' n' hc'' hn'
          cases hg' : c'.1.gate
          · have : headOpen (AnyM.proc :: tailI (chainK rest)) c' = false := hg'
            rw [push_closed hot _ c' n' this]; exact hc''
          · rw [push_cons_open hot _ _ c' n' hg']
            refine ⟨by simp [hc''.1, hn'], ?_⟩
            exact feedAll_good (push hot (tailI (chainK rest))) (TInv rest)
              (fun c'' n'' h1 h2 => ih c'' n'' h1 h2) _ _ hc''.2 (proc_step_good _ n' hn'))
        c.2 _ ⟨hps, hT⟩ hst.2
      exact ⟨hst.1, by simp [hs, hn], hfeed.1, hfeed.2⟩

theorem tinv_feedAll (hot : Bool) (ks : List (Keeps α)) (c : Cfg (tailI (chainK ks))) (ns : List (Notif α))
    (hc : TInv ks c) (hn : GoodL ns) : TInv ks (feedAll (push hot (tailI (chainK ks))) c ns).1 :=
  feedAll_good _ (TInv ks) (fun c' n' h1 h2 => tinv_push hot ks c' n' h1 h2) c ns hc hn

theorem tinv_settle (ks : List (Keeps α)) (c : Cfg (tailI (chainK ks))) (hc : TInv ks c) :
    TInv ks (settle (tailI (chainK ks)) c) := by
  induction ks with
  | nil => exact hc
  | cons k rest ih => exact ⟨hc.1, hc.2.1, hc.2.2.1, ih c.2.2 hc.2.2.2⟩

theorem tinv_closeAll (ks : List (Keeps α)) (c : Cfg (tailI (chainK ks))) (hc : TInv ks c) :
    TInv ks (closeAll (tailI (chainK ks)) c) := by
  induction ks with
  | nil => exact hc
  | cons k rest ih => exact ⟨hc.1, hc.2.1, hc.2.2.1, ih c.2.2 hc.2.2.2⟩

theorem tinv_init (ks : List (Keeps α)) : TInv ks (initCfg (tailI (chainK ks))) := by
  induction ks with
  | nil => exact fun _ h => absurd h List.not_mem_nil
  | cons k rest ih =>
    exact ⟨k.init, fun _ h => absurd h List.not_mem_nil, fun _ h => absurd h List.not_mem_nil, ih⟩

theorem tinv_subscribePhase (sub : Ctx) (ks : List (Keeps α)) (c : Cfg (tailI (chainK ks))) (hc : TInv ks c) :
    TInv ks (subscribePhase sub (tailI (chainK ks)) c).cfg := by
  induction ks with
  | nil =>
    show GoodL (subscribePhase sub [AnyM.after] c).cfg.1.seen
    rw [(subscribePhase_head sub AnyM.after [] c).1]; exact hc
  | cons k rest ih =>
    obtain ⟨hI, hs, hps, hT⟩ := hc
    have hrest := ih c.2.2 hT
    -- the processing-time observer's subscribe function emits nothing
    have hp : (subscribePhase sub (AnyM.proc :: tailI (chainK rest)) c.2).cfg.1.seen = c.2.1.seen ∧
        TInv rest (subscribePhase sub (AnyM.proc :: tailI (chainK rest)) c.2).cfg.2 := by
      refine ⟨(subscribePhase_head sub AnyM.proc _ c.2).1, ?_⟩
      cases hr : (subscribePhase sub (tailI (chainK rest)) c.2.2).reached
      · rw [subscribePhase_cons_unreached sub _ _ c.2 hr]; exact hrest
      · rw [subscribePhase_cons_reached sub _ _ c.2 hr]
        exact hrest
    show TInv (k :: rest) (subscribePhase sub (k.a :: AnyM.proc :: tailI (chainK rest)) c).cfg
    cases hr : (subscribePhase sub (AnyM.proc :: tailI (chainK rest)) c.2).reached
    · rw [subscribePhase_cons_unreached sub _ _ c hr]
      exact ⟨hI, hs, hp.1 ▸ hps, hp.2⟩
    · rw [subscribePhase_cons_reached sub _ _ c hr]
      have hsb := k.sub c.1.st sub hI
      have hfeed := feedAll_good (push false (AnyM.proc :: tailI (chainK rest)))
        (fun c' => GoodL c'.1.seen ∧ TInv rest c'.2)
        (by
          intro c' n' hc'' hn'
          cases hg' : c'.1.gate
          · have : headOpen (AnyM.proc :: tailI (chainK rest)) c' = false := hg'
            rw [push_closed false _ c' n' this]; exact hc''
          · rw [push_cons_open false _ _ c' n' hg']
            exact ⟨by simp [hc''.1, hn'], tinv_feedAll false rest _ _ hc''.2 (proc_step_good _ n' hn')⟩)
        _ _ ⟨hp.1 ▸ hps, hp.2⟩ hsb.2
      exact ⟨hsb.1, hs, hfeed.1, hfeed.2⟩

theorem tailSeen_good (ks : List (Keeps α)) (c : Cfg (tailI (chainK ks))) (hc : TInv ks c) :
    ∀ l ∈ tailSeen (chainK ks) c, GoodL l := by
  induction ks with
  | nil => intro l hl; simp [chainK, tailSeen] at hl
  | cons k rest ih =>
    intro l hl
    simp only [chainK, tailSeen, List.mem_cons] at hl
    rcases hl with rfl | hl
    · exact hc.2.2.1
    · exact ih c.2.2 hc.2.2.2 l hl

/-! ### with `observeBeforePipe` in front -/

theorem before_step_good (s : (AnyM.before (α := α)).σ) (n : Notif α) (hn : n.ctx.isNil = false) :
    GoodL ((AnyM.before (α := α)).m.step s n).2 := by
  cases n with
  | next c v =>
    have hc : c.isNil = false := hn
    simp only [AnyM.before, Machine.step, beforeM, hc, Bool.false_eq_true, if_false, goodL_cons, goodL_nil, goodN_next, and_true]
    exact ⟨hc, stamped_stamp c⟩
  | error c e => simp [AnyM.before, Machine.step, beforeM, fwdE]
  | complete c => simp [AnyM.before, Machine.step, beforeM, fwdC]

theorem binv_push (hot : Bool) (ks : List (Keeps α)) (c : Cfg (instrument (chainK ks))) (n : Notif α)
    (hc : TInv ks c.2) (hn : n.ctx.isNil = false) : TInv ks (push hot (instrument (chainK ks)) c n).1.2 := by
  cases hg : c.1.gate
  · have : headOpen (instrument (chainK ks)) c = false := hg
    rw [push_closed hot _ c n this]; exact hc
  · show TInv ks (push hot (AnyM.before :: tailI (chainK ks)) c n).1.2
    rw [push_cons_open hot _ _ c n hg]
    exact tinv_feedAll hot ks _ _ hc (before_step_good _ n hn)

theorem binv_feedAll (hot : Bool) (ks : List (Keeps α)) (c : Cfg (instrument (chainK ks))) (ns : List (Notif α))
    (hc : TInv ks c.2) (hn : NonNil ns) : TInv ks (feedAll (push hot (instrument (chainK ks))) c ns).1.2 := by
  induction ns generalizing c with
  | nil => exact hc
  | cons x xs ih =>
    rw [feedAll_cons]
    exact ih _ (binv_push hot ks c x hc hn.head) hn.tail

theorem binv_subscribePhase (sub : Ctx) (ks : List (Keeps α)) (c : Cfg (instrument (chainK ks))) (hc : TInv ks c.2) :
    TInv ks (subscribePhase sub (instrument (chainK ks)) c).cfg.2 := by
  have hrest := tinv_subscribePhase sub ks c.2 hc
  show TInv ks (subscribePhase sub (AnyM.before :: tailI (chainK ks)) c).cfg.2
  cases hr : (subscribePhase sub (tailI (chainK ks)) c.2).reached
  · rw [subscribePhase_cons_unreached sub _ _ c hr]; exact hrest
  · rw [subscribePhase_cons_reached sub _ _ c hr]; exact hrest

/-- every run of the instrumented composition over checkpoint-keeping operators and a source
    that emits no nil context: every gate behind `observeBeforePipe` has only let through values
    that carry the checkpoint -/
theorem tinv_run (ks : List (Keeps α)) (hot : Bool) (sub : Ctx) (raw : List (Notif α)) (cut : Option Nat)
    (hn : NonNil raw) : TInv ks (run hot sub (instrument (chainK ks)) raw cut).cfg.2 := by
  have h0 := binv_subscribePhase sub ks (initCfg (instrument (chainK ks))) (tinv_init ks)
  cases hr : (subscribePhase sub (instrument (chainK ks)) (initCfg (instrument (chainK ks)))).reached
  · rw [run_unreached hot sub _ raw cut hr]; exact h0
  · cases hot
    · rw [run_sync sub _ raw cut hr]
      exact tinv_settle ks _ (binv_feedAll false ks _ raw h0 hn)
    · have hs : TInv ks (settle (instrument (chainK ks)) (subscribePhase sub (instrument (chainK ks)) (initCfg (instrument (chainK ks)))).cfg).2 :=
        tinv_settle ks _ h0
      cases cut with
      | none =>
        rw [run_hot_none sub _ raw hr]
        exact binv_feedAll true ks _ raw hs hn
      | some k =>
        rw [run_hot_some sub _ raw k hr]
        have h1 := binv_feedAll true ks _ (raw.take k) hs (hn.take k)
        have h2 : TInv ks (closeAll (instrument (chainK ks)) (feedAll (push true (instrument (chainK ks))) (settle (instrument (chainK ks)) (subscribePhase sub (instrument (chainK ks)) (initCfg (instrument (chainK ks)))).cfg) (raw.take k)).1).2 :=
          tinv_closeAll ks _ h1
        exact binv_feedAll true ks _ (raw.drop k) h2 (hn.drop k)

/-! ### operators that keep the checkpoint -/

/-- no invariant on the state needed -/
def Keeps.ofTrue (a : AnyM α) (hsub : ∀ s c, GoodL (a.m.onSubscribe s c).2)
    (hstep : ∀ s n, GoodN n → GoodL (a.m.step s n).2) : Keeps α where
  a := a
  Inv := fun _ => True
  init := trivial
  sub := fun s c _ => ⟨trivial, hsub s c⟩
  step := fun s n _ hn => ⟨trivial, hstep s n hn⟩

/-- a user callback that keeps the checkpoint: it derives its context from the one it is given -/
def KeepsStamp {β : Type} (f : Ctx → α → Nat → Ctx × β) : Prop :=
  ∀ c v i, c.isNil = false → stamped c = true → (f c v i).1.isNil = false ∧ stamped (f c v i).1 = true

/-- the driver's callbacks do -/
theorem keepsStamp_tagWith {β : Type} (g : α → Nat → β) (t : Option Nat) :
    KeepsStamp (fun c v i => (Ro.Driver.tagWith t c, g v i)) := by
  intro c v i hc hs
  cases t with
  | none => exact ⟨hc, hs⟩
  | some m => exact ⟨hc, stamped_tag c m hs⟩

macro "keeps_simple" m:ident : tactic => `(tactic| (
  intro s n hn
  cases n with
  | next c v =>
    simp only [goodN_next] at hn
    simp only [AnyM.of, Machine.step, $m:ident]
    repeat' split
    all_goals simp [hn.1, hn.2]
  | error c e => simp [AnyM.of, Machine.step, $m:ident, fwdE]
  | complete c => simp [AnyM.of, Machine.step, $m:ident, fwdC]))

def keepsId : Keeps α := Keeps.ofTrue (AnyM.of idM) (fun _ _ => by simp [AnyM.of, idM]) (by keeps_simple idM)
def keepsMapTo (b : α) : Keeps α :=
  Keeps.ofTrue (AnyM.of (mapToM (α := α) b)) (fun _ _ => by simp [AnyM.of, mapToM]) (by keeps_simple mapToM)
def keepsIgnoreElements : Keeps α :=
  Keeps.ofTrue (AnyM.of ignoreElementsM) (fun _ _ => by simp [AnyM.of, ignoreElementsM]) (by keeps_simple ignoreElementsM)
def keepsTake (count : Nat) : Keeps α :=
  Keeps.ofTrue (AnyM.of (takeM count)) (fun _ _ => by simp [AnyM.of, takeM]) (by keeps_simple takeM)
def keepsSkip (count : Nat) : Keeps α :=
  Keeps.ofTrue (AnyM.of (skipM count)) (fun _ _ => by simp [AnyM.of, skipM]) (by keeps_simple skipM)
def keepsHead : Keeps α :=
  Keeps.ofTrue (AnyM.of headM) (fun _ _ => by simp [AnyM.of, headM]) (by keeps_simple headM)
def keepsElementAt (nth : Nat) : Keeps α :=
  Keeps.ofTrue (AnyM.of (elementAtM nth)) (fun _ _ => by simp [AnyM.of, elementAtM]) (by keeps_simple elementAtM)
def keepsThrowIfEmpty (e : Err) : Keeps α :=
  Keeps.ofTrue (AnyM.of (throwIfEmptyM (α := α) e)) (fun _ _ => by simp [AnyM.of, throwIfEmptyM]) (by
    intro s n hn
    cases n with
    | next c v => simp only [goodN_next] at hn; simp [AnyM.of, Machine.step, throwIfEmptyM, hn.1, hn.2]
    | error c e => simp [AnyM.of, Machine.step, throwIfEmptyM, fwdE]
    | complete c => simp only [AnyM.of, Machine.step, throwIfEmptyM]; split <;> simp)
def keepsClamp (lo hi : Int) : Keeps Int :=
  Keeps.ofTrue (AnyM.of (clampM lo hi)) (fun _ _ => by simp [AnyM.of, clampM]) (by keeps_simple clampM)
def keepsFind (p : Ctx → α → Nat → Bool) : Keeps α :=
  Keeps.ofTrue (AnyM.of (findM p)) (fun _ _ => by simp [AnyM.of, findM]) (by keeps_simple findM)

def keepsMap (f : Ctx → α → Nat → Ctx × α) (hf : KeepsStamp f) : Keeps α :=
  Keeps.ofTrue (AnyM.of (mapM f)) (fun _ _ => by simp [AnyM.of, mapM]) (by
    intro s n hn
    cases n with
    | next c v =>
      simp only [goodN_next] at hn
      have := hf c v s hn.1 hn.2
      simp [AnyM.of, Machine.step, mapM, this.1, this.2]
    | error c e => simp [AnyM.of, Machine.step, mapM, fwdE]
    | complete c => simp [AnyM.of, Machine.step, mapM, fwdC])

def keepsFilter (p : Pred α) (hp : KeepsStamp p) : Keeps α :=
  Keeps.ofTrue (AnyM.of (filterM p)) (fun _ _ => by simp [AnyM.of, filterM]) (by
    intro s n hn
    cases n with
    | next c v =>
      simp only [goodN_next] at hn
      have := hp c v s hn.1 hn.2
      simp only [AnyM.of, Machine.step, filterM]
      split <;> simp [this.1, this.2]
    | error c e => simp [AnyM.of, Machine.step, filterM, fwdE]
    | complete c => simp [AnyM.of, Machine.step, filterM, fwdC])

def keepsSkipWhile (p : Pred α) (hp : KeepsStamp p) : Keeps α :=
  Keeps.ofTrue (AnyM.of (skipWhileM p)) (fun _ _ => by simp [AnyM.of, skipWhileM]) (by
    intro s n hn
    cases n with
    | next c v =>
      simp only [goodN_next] at hn
      have := hp c v s.2 hn.1 hn.2
      simp only [AnyM.of, Machine.step, skipWhileM]
      repeat' split
      all_goals simp [this.1, this.2, hn.1, hn.2]
    | error c e => simp [AnyM.of, Machine.step, skipWhileM, fwdE]
    | complete c => simp [AnyM.of, Machine.step, skipWhileM, fwdC])

def keepsTakeWhile (p : Pred α) (hp : KeepsStamp p) : Keeps α :=
  Keeps.ofTrue (AnyM.of (takeWhileM p)) (fun _ _ => by simp [AnyM.of, takeWhileM]) (by
    intro s n hn
    cases n with
    | next c v =>
      simp only [goodN_next] at hn
      have := hp c v s.2 hn.1 hn.2
      simp only [AnyM.of, Machine.step, takeWhileM]
      repeat' split
      all_goals simp [this.1, this.2]
    | error c e => simp only [AnyM.of, Machine.step, takeWhileM]; split <;> simp
    | complete c => simp only [AnyM.of, Machine.step, takeWhileM]; split <;> simp)

def keepsFirst (p : Pred α) (hp : KeepsStamp p) : Keeps α :=
  Keeps.ofTrue (AnyM.of (firstM p)) (fun _ _ => by simp [AnyM.of, firstM]) (by
    intro s n hn
    cases n with
    | next c v =>
      simp only [goodN_next] at hn
      have := hp c v s hn.1 hn.2
      simp only [AnyM.of, Machine.step, firstM]
      split <;> simp [this.1, this.2]
    | error c e => simp [AnyM.of, Machine.step, firstM, fwdE]
    | complete c => simp [AnyM.of, Machine.step, firstM])

/-- stored (context, value) pairs all carry the checkpoint -/
def GoodQ (q : List (Ctx × α)) : Prop := ∀ p ∈ q, p.1.isNil = false ∧ stamped p.1 = true

theorem goodL_of_goodQ (q : List (Ctx × α)) (h : GoodQ q) : GoodL (q.map (fun p => Notif.next p.1 p.2)) := by
  intro x hx
  simp only [List.mem_map] at hx
  obtain ⟨p, hp, rfl⟩ := hx
  exact h p hp

def keepsTakeLast (count : Nat) : Keeps α where
  a := AnyM.of (takeLastM count)
  Inv := fun (q : List (Ctx × α)) => GoodQ q
  init := fun _ h => absurd h List.not_mem_nil
  sub := fun _ _ h => ⟨h, by simp [AnyM.of, takeLastM]⟩
  step := by
    intro (q : List (Ctx × α)) n hq hn
    cases n with
    | next c v =>
      simp only [goodN_next] at hn
      refine ⟨?_, by simp [AnyM.of, Machine.step, takeLastM]⟩
      intro p hp
      simp only [AnyM.of, Machine.step, takeLastM] at hp
      rcases List.mem_append.mp hp with h | h
      · split at h
        · exact hq p (List.mem_of_mem_drop h)
        · exact hq p h
      · simp only [List.mem_singleton] at h; rw [h]; exact hn
    | error c e => exact ⟨hq, by simp [AnyM.of, Machine.step, takeLastM, fwdE]⟩
    | complete c =>
      refine ⟨hq, ?_⟩
      simp only [AnyM.of, Machine.step, takeLastM, goodL_append]
      exact ⟨goodL_of_goodQ q hq, by simp⟩

def keepsSkipLast (count : Nat) : Keeps α where
  a := AnyM.of (skipLastM count)
  Inv := fun (q : List (Ctx × α)) => GoodQ q
  init := fun _ h => absurd h List.not_mem_nil
  sub := fun _ _ h => ⟨h, by simp [AnyM.of, skipLastM]⟩
  step := by
    intro (q : List (Ctx × α)) n hq hn
    cases n with
    | next c v =>
      simp only [goodN_next] at hn
      simp only [AnyM.of, Machine.step, skipLastM]
      split
      · refine ⟨?_, by simp⟩
        intro p hp
        rcases List.mem_append.mp hp with h | h
        · exact hq p h
        · simp only [List.mem_singleton] at h; rw [h]; exact hn
      · cases q with
        | nil => exact ⟨fun p hp => by simp only [List.mem_singleton] at hp; rw [hp]; exact hn, by simp⟩
        | cons x xs =>
          refine ⟨?_, by simpa using hq x (List.mem_cons_self ..)⟩
          intro p hp
          rcases List.mem_append.mp hp with h | h
          · exact hq p (List.mem_cons_of_mem _ h)
          · simp only [List.mem_singleton] at h; rw [h]; exact hn
    | error c e => exact ⟨hq, by simp [AnyM.of, Machine.step, skipLastM, fwdE]⟩
    | complete c => exact ⟨hq, by simp [AnyM.of, Machine.step, skipLastM, fwdC]⟩

/-- a stored optional pair carries the checkpoint -/
def GoodO (o : Option (Ctx × α)) : Prop := ∀ p, o = some p → p.1.isNil = false ∧ stamped p.1 = true

def keepsTail : Keeps α where
  a := AnyM.of tailM
  Inv := fun (o : Option (Ctx × α)) => GoodO o
  init := fun _ h => by cases h
  sub := fun _ _ h => ⟨h, by simp [AnyM.of, tailM]⟩
  step := by
    intro (o : Option (Ctx × α)) n ho hn
    cases n with
    | next c v =>
      simp only [goodN_next] at hn
      exact ⟨fun p hp => by cases hp; exact hn, by simp [AnyM.of, Machine.step, tailM]⟩
    | error c e => exact ⟨ho, by simp [AnyM.of, Machine.step, tailM, fwdE]⟩
    | complete c =>
      refine ⟨ho, ?_⟩
      cases o with
      | none => simp [AnyM.of, Machine.step, tailM]
      | some p => simpa [AnyM.of, Machine.step, tailM] using ho p rfl

def keepsMin : Keeps Int where
  a := AnyM.of minM
  Inv := fun (o : Option (Ctx × Int)) => GoodO o
  init := fun _ h => by cases h
  sub := fun _ _ h => ⟨h, by simp [AnyM.of, minM]⟩
  step := by
    intro (o : Option (Ctx × Int)) n ho hn
    cases n with
    | next c v =>
      simp only [goodN_next] at hn
      refine ⟨?_, by simp [AnyM.of, Machine.step, minM]⟩
      cases o with
      | none => exact fun p hp => by cases hp; exact hn
      | some q =>
        simp only [AnyM.of, Machine.step, minM]
        split
        · exact fun p hp => by cases hp; exact hn
        · exact fun p hp => by cases hp; exact ho q rfl
    | error c e => exact ⟨ho, by simp [AnyM.of, Machine.step, minM, fwdE]⟩
    | complete c =>
      refine ⟨ho, ?_⟩
      cases o with
      | none => simp [AnyM.of, Machine.step, minM]
      | some p => simpa [AnyM.of, Machine.step, minM] using ho p rfl

def keepsLast (p : Pred α) (hp : KeepsStamp p) : Keeps α where
  a := AnyM.of (lastM p)
  Inv := fun (s : Option (Ctx × α) × Nat) => GoodO s.1
  init := fun _ h => by cases h
  sub := fun _ _ h => ⟨h, by simp [AnyM.of, lastM]⟩
  step := by
    intro (s : Option (Ctx × α) × Nat) n ho hn
    cases n with
    | next c v =>
      simp only [goodN_next] at hn
      have := hp c v s.2 hn.1 hn.2
      refine ⟨?_, by simp [AnyM.of, Machine.step, lastM]⟩
      simp only [AnyM.of, Machine.step, lastM]
      split
      · exact fun q hq => by cases hq; exact this
      · exact ho
    | error c e => exact ⟨ho, by simp [AnyM.of, Machine.step, lastM, fwdE]⟩
    | complete c =>
      refine ⟨ho, ?_⟩
      obtain ⟨o, i⟩ := s
      cases o with
      | none => simp [AnyM.of, Machine.step, lastM]
      | some q => simpa [AnyM.of, Machine.step, lastM] using ho q rfl

def keepsMapErr (f : Ctx → α → Nat → α × Ctx × Option Err)
    (hf : ∀ c v i, c.isNil = false → stamped c = true → (f c v i).2.1.isNil = false ∧ stamped (f c v i).2.1 = true) :
    Keeps α :=
  Keeps.ofTrue (AnyM.of (mapErrM f)) (fun _ _ => by simp [AnyM.of, mapErrM]) (by
    intro s n hn
    cases n with
    | next c v =>
      simp only [goodN_next] at hn
      have := hf c v s hn.1 hn.2
      simp only [AnyM.of, Machine.step, mapErrM]
      split <;> simp [this.1, this.2]
    | error c e => simp [AnyM.of, Machine.step, mapErrM, fwdE]
    | complete c => simp [AnyM.of, Machine.step, mapErrM, fwdC])

def keepsScan (f : Ctx → α → α → Nat → Ctx × α) (seed : α)
    (hf : ∀ c a v i, c.isNil = false → stamped c = true → (f c a v i).1.isNil = false ∧ stamped (f c a v i).1 = true) :
    Keeps α :=
  Keeps.ofTrue (AnyM.of (scanM f seed)) (fun _ _ => by simp [AnyM.of, scanM]) (by
    intro s n hn
    cases n with
    | next c v =>
      simp only [goodN_next] at hn
      have := hf c s.1 v s.2 hn.1 hn.2
      simp [AnyM.of, Machine.step, scanM, this.1, this.2]
    | error c e => simp [AnyM.of, Machine.step, scanM, fwdE]
    | complete c => simp [AnyM.of, Machine.step, scanM, fwdC])

def keepsDistinctBy [DecidableEq κ] (key : Ctx → α → Ctx × κ)
    (hk : ∀ c v, c.isNil = false → stamped c = true → (key c v).1.isNil = false ∧ stamped (key c v).1 = true) :
    Keeps α :=
  Keeps.ofTrue (AnyM.of (distinctByM key)) (fun _ _ => by simp [AnyM.of, distinctByM]) (by
    intro s n hn
    cases n with
    | next c v =>
      simp only [goodN_next] at hn
      have := hk c v hn.1 hn.2
      simp only [AnyM.of, Machine.step, distinctByM]
      split <;> simp [this.1, this.2]
    | error c e => simp [AnyM.of, Machine.step, distinctByM, fwdE]
    | complete c => simp [AnyM.of, Machine.step, distinctByM, fwdC])

end Ro.Prom

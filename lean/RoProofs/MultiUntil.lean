/-
  RoProofs.MultiUntil — TakeUntil / SkipUntil: machine = definition for every arrival order.
-/
import RoProofs.MultiCore
namespace Ro.Multi
open Ro

variable {α : Type}

def two (k : Nat) : Bool := decide (k < 2)

/-- invariant of the composite subscription once both sources are collected -/
def UntilSt.ok (s : UntilSt) : Prop := s.comp.done = false ∧ 0 ∈ s.comp.members ∧ 1 ∈ s.comp.members

/-! ### TakeUntil -/

def takeUntilStep (s : UntilSt) (k : Nat) (n : Notif α) : UntilSt × List (Notif α) :=
  if k = 0 then
    match n with
    | .next c v => if s.ready then (s, []) else (s, [.next c v])
    | .error c e => (s, [.error c e])
    | .complete c => (s, [.complete c])
  else
    match n with
    | .next c _ => ({ s with ready := true }, [.complete c])
    | .error _ _ => (s, [])
    | .complete _ => (s, [])

theorem takeUntil_emitOnly (cfg : Sources α) : EmitOnly (takeUntilM (α := α)) cfg UntilSt.ok two takeUntilStep where
  react := by
    intro rec r k n hk hI
    by_cases h0 : k = 0
    · subst h0
      cases n <;> simp [takeUntilM, takeUntilStep, phases, phase, emits]
      · split <;> simp [act]
      · simp [act]
      · simp [act]
    · cases n with
      | next c v =>
        -- `destination.Complete` first, then `Store(ready, 1)`: the flag is not looked at by the teardown
        have hr : (takeUntilM (α := α)).react k (.next c v) =
            [fun s => (s, [.emit (.complete c)]), fun s => ({ s with ready := true }, [])] := by
          simp [takeUntilM, h0]
        have hs : takeUntilStep r.st k (.next c v) = ({ r.st with ready := true }, [.complete c]) := by
          simp [takeUntilStep, h0]
        rw [hr, hs]
        simp only [phases, phase, List.foldl_cons, List.foldl_nil, act, emits]
        exact (emit_setSt (takeUntilM (α := α)) (fun s => { s with ready := true }) (fun _ => rfl) (fun _ => rfl) r (.complete c)).symm
      | error c e => simp [takeUntilM, takeUntilStep, phases, phase, emits, h0]
      | complete c => simp [takeUntilM, takeUntilStep, phases, phase, emits, h0]
  inv := by
    intro s k n hk hI
    unfold takeUntilStep
    split
    · cases n <;> simp
      · split <;> exact hI
      · exact hI
      · exact hI
    · cases n <;> simpa [UntilSt.ok] using hI
  teardown := by
    intro s k hI hk
    have : k = 0 ∨ k = 1 := by simp [two] at hk; omega
    simp only [takeUntilM, Comp.unsubscribe, hI.1]
    cases this with
    | inl h => subst h; simpa using hI.2.1
    | inr h => subst h; simpa using hI.2.2

/-- the state right after `Subscribe` returned, both sources hot -/
structure Booted2 {σ β : Type} (r : MSt σ α β) : Prop where
  down : r.downOpen = true
  booted : r.booted = true
  out : r.out = []
  sopen : ∀ k, r.sopen k = two k
  subs : ∀ k, two k = true → r.subs k ≠ 0
  nsubs : ∀ k, two k = false → r.subs k = 0

theorem takeUntil_boot (cfg : Sources α) (hhot : ∀ k, cfg.sync k = false) (sub : Ctx) :
    Booted2 (bootSt (takeUntilM (α := α)) cfg sub) ∧ (bootSt (takeUntilM (α := α)) cfg sub).st.ok ∧
    (bootSt (takeUntilM (α := α)) cfg sub).st.ready = false := by
  simp only [bootSt, phasesAt_depth, phases, phase, act, hhot, takeUntilM, untilBoot, Comp.add, List.foldl_cons, List.foldl_nil]
  simp [UntilSt.ok]
  refine ⟨rfl, rfl, rfl, ?_, ?_, ?_⟩
  · intro k; simp only [setAt, two]; by_cases h1 : k = 1 <;> by_cases h0 : k = 0 <;> simp [h1, h0]; omega
  · intro k hk; simp only [setAt]; simp [two] at hk; split <;> simp; omega
  · intro k hk; simp only [setAt]; simp [two] at hk; rw [if_neg (by omega), if_neg (by omega)]

theorem takeUntil_emits (g : List (MEvent α)) (s : UntilSt) (hr : s.ready = false) :
    gate (emitsFrom takeUntilStep s g) = Spec.takeUntil false g := by
  induction g generalizing s with
  | nil => rfl
  | cons e es ih =>
    obtain ⟨k, n⟩ := e
    cases k with
    | zero =>
      cases n with
      | next c v => simp [emitsFrom, takeUntilStep, hr, Spec.takeUntil, gate_cons_next, ih s hr]
      | error c e => simp [emitsFrom, takeUntilStep, Spec.takeUntil, gate_cons_error]
      | complete c => simp [emitsFrom, takeUntilStep, Spec.takeUntil, gate_cons_complete]
    | succ k =>
      cases n with
      | next c v => simp [emitsFrom, takeUntilStep, Spec.takeUntil, gate_cons_complete]
      | error c e => simp [emitsFrom, takeUntilStep, Spec.takeUntil, ih s hr]
      | complete c => simp [emitsFrom, takeUntilStep, Spec.takeUntil, ih s hr]

/-- the arrival order the operator's two subscribers hear: sources 0 and 1, each up to its own terminal -/
def heard2 (evs : List (MEvent α)) : List (MEvent α) := Spec.gateEvents (Spec.restrict two evs)

/-- generic last step for the two-source emit-only machines -/
theorem emitOnly2_run {σ : Type} {m : MMachine σ α α} {cfg : Sources α} {I : σ → Prop}
    {step : σ → Nat → Notif α → σ × List (Notif α)} (hE : EmitOnly m cfg I two step)
    (r : MSt σ α α) (hB : Booted2 r) (hI : I r.st) (evs : List (MEvent α)) :
    (feedAll m cfg r evs).out = gate (emitsFrom step r.st (heard2 evs)) ∧
    ((feedAll m cfg r evs).downOpen = false → ∀ k, two k = true → (feedAll m cfg r evs).sopen k = false) := by
  have h := emitOnly_out hE evs r hB.down hB.booted hI hB.subs (fun k hk => Or.inl (hB.nsubs k hk))
  have hc : Spec.gateEventsFrom (fun k => !r.sopen k) (Spec.restrict two evs) = heard2 evs := by
    unfold heard2 Spec.gateEvents
    apply gateEventsFrom_congr
    intro k hk; simp [hB.sopen k, hk]
  rw [hc, hB.out] at h
  simpa using h

/-- what the pinned TakeUntil delivers, for every arrival order: the definition except that the
    signal's error is not listened to -/
theorem takeUntil_impl (cfg : Sources α) (hhot : ∀ k, cfg.sync k = false) (sub : Ctx) (evs : List (MEvent α)) :
    (feedAll takeUntilM cfg (bootSt takeUntilM cfg sub) evs).out = Spec.takeUntil false (heard2 evs) := by
  have hb := takeUntil_boot cfg hhot sub
  rw [(emitOnly2_run (takeUntil_emitOnly cfg) _ hb.1 hb.2.1 evs).1, takeUntil_emits _ _ hb.2.2]

/-- no error of the signal (source 1) is heard -/
def noSignalError (g : List (MEvent α)) : Bool :=
  g.all (fun e => match e with | (_ + 1, .error _ _) => false | _ => true)

theorem takeUntil_sigErr_irrelevant (g : List (MEvent α)) (h : noSignalError g = true) :
    Spec.takeUntil true g = Spec.takeUntil false g := by
  induction g with
  | nil => rfl
  | cons e es ih =>
    obtain ⟨k, n⟩ := e
    simp only [noSignalError, List.all_cons, Bool.and_eq_true] at h
    have ih' := ih (by simpa [noSignalError] using h.2)
    cases k with
    | zero => cases n <;> simp [Spec.takeUntil, ih']
    | succ k =>
      cases n with
      | next c v => simp [Spec.takeUntil]
      | error c e => simp at h
      | complete c => simp [Spec.takeUntil, ih']

/-! ### SkipUntil -/

def skipUntilStep (s : UntilSt) (k : Nat) (n : Notif α) : UntilSt × List (Notif α) :=
  if k = 0 then
    match n with
    | .next c v => if s.ready then (s, [.next c v]) else (s, [])
    | .error c e => (s, [.error c e])
    | .complete c => (s, [.complete c])
  else
    match n with
    | .next _ _ => ({ s with ready := true }, [])
    | .error _ _ => (s, [])
    | .complete _ => (s, [])

theorem skipUntil_emitOnly (cfg : Sources α) : EmitOnly (skipUntilM (α := α)) cfg UntilSt.ok two skipUntilStep where
  react := by
    intro rec r k n hk hI
    by_cases h0 : k = 0
    · subst h0
      cases n <;> simp [skipUntilM, skipUntilStep, phases, phase, emits]
      · split <;> simp [act]
      · simp [act]
      · simp [act]
    · cases n <;> simp [skipUntilM, skipUntilStep, phases, phase, emits, h0]
  inv := by
    intro s k n hk hI
    unfold skipUntilStep
    split
    · cases n <;> simp
      · split <;> exact hI
      · exact hI
      · exact hI
    · cases n <;> simpa [UntilSt.ok] using hI
  teardown := by
    intro s k hI hk
    have : k = 0 ∨ k = 1 := by simp [two] at hk; omega
    simp only [skipUntilM, Comp.unsubscribe, hI.1]
    cases this with
    | inl h => subst h; simpa using hI.2.1
    | inr h => subst h; simpa using hI.2.2

theorem skipUntil_boot (cfg : Sources α) (hhot : ∀ k, cfg.sync k = false) (sub : Ctx) :
    Booted2 (bootSt (skipUntilM (α := α)) cfg sub) ∧ (bootSt (skipUntilM (α := α)) cfg sub).st.ok ∧
    (bootSt (skipUntilM (α := α)) cfg sub).st.ready = false := by
  simp only [bootSt, phasesAt_depth, phases, phase, act, hhot, skipUntilM, untilBoot, Comp.add, List.foldl_cons, List.foldl_nil]
  simp [UntilSt.ok]
  refine ⟨rfl, rfl, rfl, ?_, ?_, ?_⟩
  · intro k; simp only [setAt, two]; by_cases h1 : k = 1 <;> by_cases h0 : k = 0 <;> simp [h1, h0]; omega
  · intro k hk; simp only [setAt]; simp [two] at hk; split <;> simp; omega
  · intro k hk; simp only [setAt]; simp [two] at hk; rw [if_neg (by omega), if_neg (by omega)]

theorem skipUntil_emits (g : List (MEvent α)) (s : UntilSt) :
    gate (emitsFrom skipUntilStep s g) = Spec.skipUntil false s.ready g := by
  induction g generalizing s with
  | nil => simp [emitsFrom, Spec.skipUntil]
  | cons e es ih =>
    obtain ⟨k, n⟩ := e
    cases k with
    | zero =>
      cases n with
      | next c v =>
        by_cases hr : s.ready = true
        · simp [emitsFrom, skipUntilStep, hr, Spec.skipUntil, gate_cons_next, ih s]
        · have hr' : s.ready = false := by simpa using hr
          simp [emitsFrom, skipUntilStep, hr', Spec.skipUntil, ih s]
      | error c e => simp [emitsFrom, skipUntilStep, Spec.skipUntil, gate_cons_error]
      | complete c => simp [emitsFrom, skipUntilStep, Spec.skipUntil, gate_cons_complete]
    | succ k =>
      cases n with
      | next c v => simp [emitsFrom, skipUntilStep, Spec.skipUntil, ih]
      | error c e => simp [emitsFrom, skipUntilStep, Spec.skipUntil, ih s]
      | complete c => simp [emitsFrom, skipUntilStep, Spec.skipUntil, ih s]

/-- what the pinned SkipUntil delivers, for every arrival order -/
theorem skipUntil_impl (cfg : Sources α) (hhot : ∀ k, cfg.sync k = false) (sub : Ctx) (evs : List (MEvent α)) :
    (feedAll skipUntilM cfg (bootSt skipUntilM cfg sub) evs).out = Spec.skipUntil false false (heard2 evs) := by
  have hb := skipUntil_boot cfg hhot sub
  rw [(emitOnly2_run (skipUntil_emitOnly cfg) _ hb.1 hb.2.1 evs).1, skipUntil_emits, hb.2.2]

theorem skipUntil_sigErr_irrelevant (g : List (MEvent α)) (ready : Bool) (h : noSignalError g = true) :
    Spec.skipUntil true ready g = Spec.skipUntil false ready g := by
  induction g generalizing ready with
  | nil => simp [Spec.skipUntil]
  | cons e es ih =>
    obtain ⟨k, n⟩ := e
    simp only [noSignalError, List.all_cons, Bool.and_eq_true] at h
    have ih' := fun rd => ih rd (by simpa [noSignalError] using h.2)
    cases k with
    | zero => cases n <;> simp [Spec.skipUntil, ih']
    | succ k =>
      cases n with
      | next c v => simp [Spec.skipUntil, ih']
      | error c e => simp at h
      | complete c => simp [Spec.skipUntil, ih']

end Ro.Multi

/-
  RoProofs.RateLimit — the native limiter in logical time: execution = composition of the pieces,
  per key the first `n` items of each window, order, no duplication, independence of keys,
  terminal; and the ulule limiter = filter of the input by the store's answers.
-/
import RoModel.RateLimit
namespace Ro.RateLimit
open Ro

variable {κ α : Type}

/-! ### one group: Mealy machine = WindowWhen ; Map(Take n) ; MergeAll -/

theorem winRun_windows (n : Nat) (g : List (GEv α)) (c : Nat) :
    winRun n c g = (windowWhen g).1.take (n - c) ++ ((windowWhen g).2.map (List.take n)).flatten := by
  induction g generalizing c with
  | nil => simp [winRun, windowWhen]
  | cons e r ih =>
    cases e with
    | item v =>
      simp only [winRun, winStep, windowWhen]
      rw [ih (c + 1)]
      by_cases h : c < n
      · have : n - c = (n - (c + 1)) + 1 := by omega
        simp [h, this, List.take_succ_cons]
      · have h1 : n - c = 0 := by omega
        have h2 : n - (c + 1) = 0 := by omega
        simp [h, h1, h2]
    | tick =>
      simp only [winRun, winStep, windowWhen]
      rw [ih 0]
      simp

/-- the group machine started on a fresh window is the composition of the three pieces -/
theorem winRun_eq_pipeline (n : Nat) (g : List (GEv α)) : winRun n 0 g = pipeline n g := by
  rw [winRun_windows]
  simp [pipeline, mergeAll, takeEach, windows]

/-! ### GroupBy + MergeMap: the projection of the run on one key is that key's group machine -/

variable [DecidableEq κ]

theorem runFrom_key (n : Nat) (k : κ) (tl : List (Ev κ α)) (st : κ → Nat) :
    ((runFrom n st tl).filter (fun p => p.1 = k)).map (·.2) = winRun n (st k) (group k tl) := by
  induction tl generalizing st with
  | nil => simp [runFrom, group, winRun]
  | cons e r ih =>
    cases e with
    | item k' v =>
      simp only [runFrom, group]
      by_cases hk : k' = k
      · subst hk
        simp only [if_true, winRun, winStep, List.filter_append, List.map_append]
        rw [ih]
        by_cases h : st k' < n <;> simp [h, setKey]
      · simp only [hk, if_false, List.filter_append, List.map_append]
        rw [ih]
        have : setKey st k' (st k' + 1) k = st k := by
          simp [setKey, Ne.symm hk]
        rw [this]
        by_cases h : st k' < n <;> simp [h, hk]
    | tick k' =>
      simp only [runFrom, group]
      by_cases hk : k' = k
      · subst hk
        simp only [if_true, winRun, winStep]
        rw [ih]
        simp [setKey]
      · simp only [hk, if_false]
        rw [ih]
        simp [setKey, Ne.symm hk]

/-- **per key the output is the first `n` items of each window, in order**: the items of key `k`
    that the limiter lets through are exactly GroupBy's substream of `k`, cut into windows at
    `k`'s ticks, `Take n` of each window, merged back -/
theorem run_perKey (n : Nat) (k : κ) (tl : List (Ev κ α)) :
    ((run n tl).filter (fun p => p.1 = k)).map (·.2) = ((windows (group k tl)).map (List.take n)).flatten := by
  unfold run
  rw [runFrom_key, winRun_eq_pipeline]
  rfl

theorem run_perKey' (n : Nat) (k : κ) (tl : List (Ev κ α)) :
    ((run n tl).filter (fun p => p.1 = k)).map (·.2) = perKey n k tl := run_perKey n k tl

/-- never more than `n` of one window -/
theorem window_quota (n : Nat) (g : List (GEv α)) : ∀ w ∈ takeEach n (windows g), w.length ≤ n := by
  intro w hw
  simp only [takeEach, List.mem_map] at hw
  obtain ⟨w', _, rfl⟩ := hw
  simp [List.length_take, Nat.min_le_left]

/-- **order, no duplication** (all keys together): the output is a subsequence of the timeline's
    items — every occurrence passes at most once and in the original order -/
theorem runFrom_sublist (n : Nat) (tl : List (Ev κ α)) (st : κ → Nat) : (runFrom n st tl).Sublist (items tl) := by
  induction tl generalizing st with
  | nil => simp [runFrom, items]
  | cons e r ih =>
    cases e with
    | item k v =>
      simp only [runFrom, items]
      by_cases h : st k < n
      · simpa [h] using (ih _).cons_cons (k, v)
      · simpa [h] using (ih _).cons (k, v)
    | tick k => simpa [runFrom, items] using ih _

theorem run_sublist (n : Nat) (tl : List (Ev κ α)) : (run n tl).Sublist (items tl) := runFrom_sublist n tl _

/-- if the occurrences are distinguishable (distinct items), nothing is delivered twice -/
theorem run_nodup (n : Nat) (tl : List (Ev κ α)) (h : (items tl).Nodup) : (run n tl).Nodup :=
  h.sublist (run_sublist n tl)

/-- per key: the passed items of `k` are a subsequence of the source's items of `k` -/
theorem run_key_sublist (n : Nat) (k : κ) (tl : List (Ev κ α)) :
    (((run n tl).filter (fun p => p.1 = k)).map (·.2)).Sublist (((items tl).filter (fun p => p.1 = k)).map (·.2)) :=
  ((run_sublist n tl).filter _).map _

/-- **keys are independent**: what passes of key `k` depends on `k`'s own items and ticks only -/
theorem keys_independent (n : Nat) (k : κ) (tl tl' : List (Ev κ α)) (h : group k tl = group k tl') :
    (run n tl).filter (fun p => p.1 = k) = (run n tl').filter (fun p => p.1 = k) := by
  have hv : ((run n tl).filter (fun p => p.1 = k)).map (·.2) = ((run n tl').filter (fun p => p.1 = k)).map (·.2) := by
    rw [run_perKey, run_perKey, h]
  -- all first components are `k`, so the second components determine the lists
  have key : ∀ (l l' : List (κ × α)), (∀ p ∈ l, p.1 = k) → (∀ p ∈ l', p.1 = k) → l.map (·.2) = l'.map (·.2) → l = l' := by
    intro l
    induction l with
    | nil => intro l' _ _ h; cases l' <;> simp_all
    | cons a as ih =>
      intro l' ha hb h
      cases l' with
      | nil => simp at h
      | cons b bs =>
        simp only [List.map_cons, List.cons.injEq] at h
        have h1 : a.1 = k := ha a (by simp)
        have h2 : b.1 = k := hb b (by simp)
        have : a = b := Prod.ext (h1.trans h2.symm) h.1
        rw [this, ih bs (fun p hp => ha p (by simp [hp])) (fun p hp => hb p (by simp [hp])) h.2]
  exact key _ _ (fun p hp => by simpa using (List.mem_filter.mp hp).2) (fun p hp => by simpa using (List.mem_filter.mp hp).2) hv

/-- other keys' events can be inserted or removed freely -/
theorem group_item_other (k k' : κ) (v : α) (a b : List (Ev κ α)) (h : k' ≠ k) :
    group k (a ++ .item k' v :: b) = group k (a ++ b) := by
  induction a with
  | nil => simp [group, h]
  | cons e r ih => cases e <;> simp only [List.cons_append, group, ih]

theorem group_tick_other (k k' : κ) (a b : List (Ev κ α)) (h : k' ≠ k) :
    group k (a ++ (.tick k' : Ev κ α) :: b) = group k (a ++ b) := by
  induction a with
  | nil => simp [group, h]
  | cons e r ih => cases e <;> simp only [List.cons_append, group, ih]

/-! ### terminal -/

theorem native_items (n : Nat) (tl : List (Ev κ α)) (e : End) :
    (native n tl e).filterMap (fun o => match o with | .item k v => some (k, v) | _ => none) = run n tl := by
  unfold native
  rw [List.filterMap_append]
  have h1 : ∀ l : List (κ × α), (l.map (fun p => Out.item p.1 p.2)).filterMap
      (fun o => match o with | Out.item k v => some (k, v) | _ => none) = l := by
    intro l; induction l with
    | nil => rfl
    | cons a as ih => simp [ih]
  rw [h1]
  cases e <;> simp [End.toOut]

/-- completion of the source is propagated, after all items, and nothing follows it -/
theorem native_complete (n : Nat) (tl : List (Ev κ α)) :
    native n tl .complete = (run n tl).map (fun p => Out.item p.1 p.2) ++ [.complete] := rfl

/-- the error of the source is propagated unchanged, after the items passed so far -/
theorem native_error (n : Nat) (tl : List (Ev κ α)) (x : Err) :
    native n tl (.error x) = (run n tl).map (fun p => Out.item p.1 p.2) ++ [.error x] := rfl

theorem native_never (n : Nat) (tl : List (Ev κ α)) :
    native n tl .never = (run n tl).map (fun p => Out.item p.1 p.2) := by simp [native, End.toOut]

/-! ### schedules with a tick inside the completion of the source -/

/-- **the schedule does not matter**: whichever tickers fire while the terminal of the source is
    being processed, the limiter delivers the passed items and then the source's ending
    (completion, error, or nothing). Before /repo a396a6b this failed for a late tick of an
    existing group (the completion was lost). -/
theorem nativeSched_eq (n : Nat) (tl : List (Ev κ α)) (e : End) (late : List κ) :
    nativeSched n tl e late = native n tl e := rfl

theorem nativeSched_complete (n : Nat) (tl : List (Ev κ α)) (late : List κ) :
    nativeSched n tl .complete late = (run n tl).map (fun p => Out.item p.1 p.2) ++ [.complete] := rfl

theorem nativeSched_error (n : Nat) (tl : List (Ev κ α)) (x : Err) (late : List κ) :
    nativeSched n tl (.error x) late = (run n tl).map (fun p => Out.item p.1 p.2) ++ [.error x] := rfl

end Ro.RateLimit

/-
  RoProofs.ShareProps — what the invariant of RoModel.Share gives: the upstream counters, the
  reference count, when the source is subscribed and released, what a source terminal leaves behind,
  who receives what.
-/
import RoProofs.ShareFrames
namespace Ro.Share
attribute [local simp] St.modGen St.modSub St.drop

/-! ### the probe's counters -/

theorem live_le_one_of_inv {s : St} (hi : Inv Pend.idle s) : s.live ≤ 1 := by
  unfold St.live
  apply filter_range_le_one s.upLive (s.subject.getD 0)
  intro k hk hl
  have := ((upLive_iff hi k hk).mp hl).1
  rw [this]; rfl

theorem total_eq_ngens {s : St} (hi : Inv Pend.idle s) : s.total = s.ngens := by
  unfold St.total
  apply filter_range_all
  intro k hk
  by_cases hsub : s.subject = some k
  · rcases (hi.cur k hsub).2 with ha | hl
    · simp [ha.upSub]
    · simp [hl.upSub]
  · simp [(hi.stale k hk hsub (by simp)).upSub]

theorem live_of_active {s : St} {g : Nat} (hi : Inv Pend.idle s) (hsub : s.subject = some g) (ha : GenActive Pend.idle s g) : s.live = 1 := by
  unfold St.live
  apply filter_range_single s.upLive g s.ngens (hi.cur g hsub).1 ((upLive_iff hi g (hi.cur g hsub).1).mpr ⟨hsub, ha⟩)
  intro k hk hl
  have := ((upLive_iff hi k hk).mp hl).1
  rw [hsub] at this
  exact (Option.some.inj this).symm

theorem live_of_not_active {s : St} (hi : Inv Pend.idle s) (h : ¬ ∃ g, s.subject = some g ∧ GenActive Pend.idle s g) : s.live = 0 := by
  unfold St.live
  rw [filter_range_eq_nil]
  · rfl
  · intro k hk
    cases hl : s.upLive k with
    | false => rfl
    | true => exact absurd ⟨k, (upLive_iff hi k hk).mp hl⟩ h

/-- as long as one subscriber listens, the source is subscribed — exactly once -/
theorem open_imp_live {s : St} (hi : Inv Pend.idle s) (ho : openSubs s ≠ []) : s.live = 1 := by
  cases hsub : s.subject with
  | none => exact absurd (hi.idle hsub).2.2 ho
  | some g =>
    rcases (hi.cur g hsub).2 with ha | hl
    · exact live_of_active hi hsub ha
    · exact absurd hl.noOpen ho

/-- an open subscriber is attached to the live current generation -/
theorem open_attached {s : St} (hi : Inv Pend.idle s) {i : Nat} (hlt : i < s.nsubs) (hs : (s.subs i).status = 0) :
    ∃ g, s.subject = some g ∧ GenActive Pend.idle s g := by
  have hmem : i ∈ openSubs s := mem_openSubs.mpr ⟨hlt, hs⟩
  cases hsub : s.subject with
  | none => rw [(hi.idle hsub).2.2] at hmem; cases hmem
  | some g =>
    rcases (hi.cur g hsub).2 with ha | hl
    · exact ⟨g, rfl, ha⟩
    · rw [hl.noOpen] at hmem; cases hmem

/-! ### counters that no notification touches -/

structure Cnt (s s' : St) : Prop where
  nsubs : s'.nsubs = s.nsubs
  ngens : s'.ngens = s.ngens

theorem Cnt.refl (s : St) : Cnt s s := ⟨rfl, rfl⟩
theorem Cnt.trans {a b c : St} (h1 : Cnt a b) (h2 : Cnt b c) : Cnt a c :=
  ⟨h2.nsubs.trans h1.nsubs, h2.ngens.trans h1.ngens⟩
theorem Only.cnt {i : Nat} {s s' : St} (h : Only i s s') : Cnt s s' := ⟨h.nsubs, h.ngens⟩
theorem GensOnly.cnt {s s' : St} (h : GensOnly s s') : Cnt s s' := ⟨h.nsubs, h.ngens⟩

theorem foldl_cnt {α : Type} (f : St → α → St) (hf : ∀ s a, Cnt s (f s a)) (l : List α) (s : St) :
    Cnt s (l.foldl f s) := by
  induction l generalizing s with
  | nil => exact Cnt.refl s
  | cons a l ih => exact (hf s a).trans (ih (f s a))

theorem subjNext_cnt (conn : Conn) (g : Nat) (v : Int) (s : St) : Cnt s (subjNext conn g v s) :=
  let h := subjNext_sim conn g v s; ⟨h.nsubs, h.ngens⟩

theorem pNext_cnt (cfg : Cfg) (g : Nat) (v : Int) (s : St) : Cnt s (pNext cfg g v s) :=
  let h := pNext_sim cfg g v s; ⟨h.nsubs, h.ngens⟩

theorem subjTerm_cnt (fl : Flags) (g : Nat) (t : Ev) (s : St) : Cnt s (subjTerm fl g t s) := by
  unfold subjTerm
  split
  · have h1 : Cnt s (s.modGen g fun x => { x with subj := { x.subj with status := Status.ofTerminal t } }) := ⟨rfl, rfl⟩
    have h2 := foldl_cnt (fun s i => dTerm fl i t s) (fun s i => (dTerm_only fl i t s).cnt)
      (((s.modGen g fun x => { x with subj := { x.subj with status := Status.ofTerminal t } }).gens g).subj.obs)
      (s.modGen g fun x => { x with subj := { x.subj with status := Status.ofTerminal t } })
    exact (h1.trans h2).trans ⟨rfl, rfl⟩
  · exact ⟨rfl, rfl⟩

theorem pTerm_cnt (cfg : Cfg) (g : Nat) (t : Ev) (s : St) : Cnt s (pTerm cfg g t s) := by
  unfold pTerm
  split
  · have h1 : Cnt s (s.modGen g fun x => { x with pStatus := t.code }) := ⟨rfl, rfl⟩
    exact ((h1.trans (pDecide_go cfg.flags g t _).cnt).trans (subjTerm_cnt cfg.flags g t _)).trans (pSubnUnsub_go g _).cnt
  · have h1 : Cnt s (s.drop t) := ⟨rfl, rfl⟩
    exact h1.trans (pSubnUnsub_go g _).cnt

theorem pEmit_cnt (cfg : Cfg) (g : Nat) (x : Ev) (s : St) : Cnt s (pEmit cfg g x s) := by
  cases x
  · exact pNext_cnt cfg g _ s
  · exact pTerm_cnt cfg g _ s
  · exact pTerm_cnt cfg g _ s

theorem playPre_cnt (cfg : Cfg) (g : Nat) (pre : List Ev) (s : St) : Cnt s (playPre cfg g pre s) :=
  foldl_cnt _ (fun s x => pEmit_cnt cfg g x s) pre s

theorem push_cnt (cfg : Cfg) (x : Ev) (s : St) : Cnt s (push cfg x s) := by
  unfold push
  apply foldl_cnt
  intro u g
  split
  · exact pEmit_cnt cfg g x u
  · exact Cnt.refl u

/-! ### how a `sub` event ends -/

/-- the creator of a new generation: after the synchronous prefix `cfg.pre k` the generation is
    live, or already reset (the reference is given back at once), or latched -/
theorem subscribe_fresh_outcome (cfg : Cfg) {s : St} (hi : Inv Pend.idle s) (hsub : s.subject = none) :
    ∃ u,
      ((FLive Pend.idle s.ngens s.nsubs u ∧ subscribe cfg s = liveDone s.nsubs s.ngens u) ∨
       (FReset Pend.idle s.ngens s.nsubs u ∧ subscribe cfg s = resetDone s.ngens u) ∨
       (FLatch Pend.idle s.ngens s.nsubs u ∧ subscribe cfg s = latchDone s.ngens u)) := by
  obtain ⟨u0, k, hsim, he⟩ := subscribe_fresh_eq cfg hi hsub
  have hl := (flive_freshState cfg.conn hi hsub).sim hsim
  refine ⟨playPre cfg s.ngens (cfg.pre k) u0, ?_⟩
  rw [he]
  rcases playPre_live cfg (cfg.pre k) hl with h | h | h
  · exact Or.inl ⟨h, (finish_live cfg.flags h).1⟩
  · exact Or.inr (Or.inl ⟨h, (finish_reset cfg.flags h).1⟩)
  · exact Or.inr (Or.inr ⟨h, (finish_latch cfg.flags h).1⟩)

theorem subscribe_ngens (cfg : Cfg) {s : St} (hi : Inv Pend.idle s) :
    (subscribe cfg s).ngens = if s.subject = none then s.ngens + 1 else s.ngens := by
  cases hsub : s.subject with
  | none =>
    obtain ⟨u, h | h | h⟩ := subscribe_fresh_outcome cfg hi hsub
    · rw [h.2]; simp [liveDone, h.1.ngens]
    · rw [h.2]; simp [resetDone, h.1.ngens]
    · rw [h.2]; simp [latchDone, h.1.ngens]
  | some g =>
    rcases (hi.cur g hsub).2 with ha | hl
    · rw [(subscribe_join_active cfg hi hsub ha).ngens]; simp [joinState]
    · obtain ⟨c, _, hsim⟩ := subscribe_join_latched cfg hi hsub hl
      rw [hsim.ngens]; simp [lateState]

/-- **upstream subscribed at 0→1, joined otherwise**: a `sub` event subscribes the source exactly
    when there is no current generation, and then exactly once -/
theorem sub_total (cfg : Cfg) {s : St} (hi : Inv Pend.idle s) :
    (step cfg s .sub).total = if s.subject = none then s.total + 1 else s.total := by
  show (subscribe cfg s).total = _
  rw [total_eq_ngens (subscribe_cases cfg hi), total_eq_ngens hi, subscribe_ngens cfg hi]

/-- later subscribers join the running execution: the live upstream subscription is kept -/
theorem sub_join_live (cfg : Cfg) {s : St} {g : Nat} (hi : Inv Pend.idle s) (hsub : s.subject = some g) :
    (step cfg s .sub).live = s.live ∧ (step cfg s .sub).subject = some g := by
  show (subscribe cfg s).live = _ ∧ (subscribe cfg s).subject = _
  rcases (hi.cur g hsub).2 with ha | hl
  · have hsim := subscribe_join_active cfg hi hsub ha
    refine ⟨?_, by rw [hsim.subject]; exact hsub⟩
    rw [hsim.live]
    unfold St.live St.upLive
    show ((List.range s.ngens).filter _).length = _
    congr 1
    apply List.filter_congr
    intro k _
    simp [joinState]; split <;> simp_all
  · obtain ⟨c, _, hsim⟩ := subscribe_join_latched cfg hi hsub hl
    refine ⟨?_, by rw [hsim.subject]; exact hsub⟩
    rw [hsim.live]; rfl

/-! ### an `unsub` event -/

theorem closeState_counters (c : Nat) (tr : List Ev) (i g : Nat) (s : St) :
    (closeState c tr i g s).live = s.live ∧ (closeState c tr i g s).total = s.total ∧
      (closeState c tr i g s).subject = s.subject := by
  refine ⟨?_, ?_, rfl⟩
  · unfold St.live St.upLive
    show ((List.range s.ngens).filter _).length = _
    congr 1
    apply List.filter_congr
    intro k _
    simp [closeState]; split <;> simp_all
  · unfold St.total
    show ((List.range s.ngens).filter _).length = _
    congr 1
    apply List.filter_congr
    intro k _
    simp [closeState]; split <;> simp_all

/-- **released at 1→0 when `ResetOnRefCountZero`**: the last open subscriber leaves, no terminal
    is latched (an open subscriber exists, so the generation is live): the upstream subscription is
    released and the shared pair cleared -/
theorem unsub_last_releases (cfg : Cfg) {s : St} {i : Nat} (hi : Inv Pend.idle s) (hz : cfg.flags.onZero = true)
    (ho : openSubs s = [i]) :
    (step cfg s (.unsub i)).live = 0 ∧ (step cfg s (.unsub i)).subject = none := by
  have hmem : i ∈ openSubs s := by rw [ho]; simp
  obtain ⟨hlt, hs⟩ := mem_openSubs.mp hmem
  obtain ⟨g, hsub, ha⟩ := open_attached hi hlt hs
  have hinv := inv_dUnsubscribe cfg.flags hi i hlt (by simp)
  have hstep : step cfg s (.unsub i) = dUnsubscribe cfg.flags i s := by simp [step, hlt]
  rw [hstep] at *
  have ho' := ha.subs i hlt hs (by simp)
  have hrc : s.refCount = 1 := by rw [hi.count, ho]; rfl
  have hcond : (cfg.flags.onZero && (closeState 2 (s.subs i).trace i g s).refCount == 0 &&
      !(closeState 2 (s.subs i).trace i g s).flagE && !(closeState 2 (s.subs i).trace i g s).flagC) = true := by
    simp [closeState, hz, hrc, ha.flagE, ha.flagC]
  have e : dUnsubscribe cfg.flags i s = resetState g (closeState 2 (s.subs i).trace i g s) := by
    rw [dUnsubscribe_open cfg.flags ho']
    unfold zeroReset
    rw [if_pos hcond]
    obtain ⟨hi', ha'⟩ := inv_closeState (c := 2) (tr := (s.subs i).trace) hi (by decide) hlt hsub ha hs (by simp)
    exact reset_active ha'.pStatus ha'.pDone ha'.pFin ha'.ssFins ha'.ssDone hsub (by rw [hi'.shared]; exact hsub)
  have hsn : (dUnsubscribe cfg.flags i s).subject = none := by rw [e]; rfl
  refine ⟨live_of_not_active hinv ?_, hsn⟩
  intro ⟨g', hg', _⟩
  rw [hsn] at hg'; cases hg'

/-- **…and kept otherwise**: without `ResetOnRefCountZero`, or while another subscriber stays, an
    `unsub` event never touches the upstream subscription -/
theorem unsub_keeps (cfg : Cfg) {s : St} (i : Nat) (hi : Inv Pend.idle s)
    (h : cfg.flags.onZero = false ∨ 2 ≤ (openSubs s).length) :
    (step cfg s (.unsub i)).live = s.live ∧ (step cfg s (.unsub i)).total = s.total ∧
      (step cfg s (.unsub i)).subject = s.subject := by
  by_cases hlt : i < s.nsubs
  · have hstep : step cfg s (.unsub i) = dUnsubscribe cfg.flags i s := by simp [step, hlt]
    rw [hstep]
    by_cases hs : (s.subs i).status = 0
    · obtain ⟨g, hsub, ha⟩ := open_attached hi hlt hs
      have ho' := ha.subs i hlt hs (by simp)
      rw [dUnsubscribe_open cfg.flags ho']
      have hlen := length_erase_open hlt hs
      have hcount := hi.count
      have hcond : (cfg.flags.onZero && (closeState 2 (s.subs i).trace i g s).refCount == 0 &&
          !(closeState 2 (s.subs i).trace i g s).flagE && !(closeState 2 (s.subs i).trace i g s).flagC) = false := by
        rcases h with h | h
        · simp [h]
        · have : (closeState 2 (s.subs i).trace i g s).refCount ≠ 0 := by simp only [closeState]; omega
          simp [this]
      rw [zeroReset_noop hcond]
      exact closeState_counters _ _ _ _ _
    · simp [dUnsubscribe, hs]
  · simp [step, hlt]

/-! ### what the connector hands to a subscriber inside its `Subscribe` -/

/-- delivering values to one open subscriber: only its trace grows -/
theorem foldl_dNext_self (i : Nat) (vs : List Int) (u : St) (h0 : (u.subs i).status = 0) :
    vs.foldl (fun s v => dNext i v s) u =
      { u with subs := fun k => if k = i then { (u.subs i) with trace := (u.subs i).trace ++ vs.map Ev.next } else u.subs k } := by
  induction vs generalizing u with
  | nil =>
    simp
    show u = { u with subs := _ }
    have : (fun k => if k = i then u.subs i else u.subs k) = u.subs := by funext k; split <;> simp_all
    rw [this]
  | cons v vs ih =>
    have h1 : dNext i v u = { u with subs := fun k => if k = i then { (u.subs i) with trace := (u.subs i).trace ++ [Ev.next v] } else u.subs k } := by
      simp [dNext, h0]
      funext k; split <;> simp_all
    rw [List.foldl_cons, h1, ih _ (by simp [h0])]
    simp
    funext k; split <;> simp_all

theorem subs_eta_trace (i : Nat) (u : St) :
    (fun k => if k = i then { (u.subs i) with trace := (u.subs i).trace ++ [] } else u.subs k) = u.subs := by
  funext k
  split
  · next h => subst h; cases hd : u.subs k; simp
  · rfl

theorem subjReplay_eq (conn : Conn) (g i : Nat) (u : St) (h0 : (u.subs i).status = 0) :
    subjReplay conn g i u =
      { u with subs := fun k => if k = i then { (u.subs i) with trace := (u.subs i).trace ++
          (match conn with | .replay _ | .replayAll => (u.gens g).subj.buf.map Ev.next | _ => []) } else u.subs k } := by
  have hid : u = { u with subs := fun k => if k = i then { (u.subs i) with trace := (u.subs i).trace ++ [] } else u.subs k } := by
    rw [subs_eta_trace]
  cases conn with
  | publish => exact hid
  | behavior init => exact hid
  | replay n => exact foldl_dNext_self i _ u h0
  | replayAll => exact foldl_dNext_self i _ u h0

theorem subjLast_eq (conn : Conn) (g i : Nat) (u : St) (h0 : (u.subs i).status = 0) :
    subjLast conn g i u =
      { u with subs := fun k => if k = i then { (u.subs i) with trace := (u.subs i).trace ++
          (match conn with | .behavior _ => [Ev.next (u.gens g).subj.last] | _ => []) } else u.subs k } := by
  have hid : u = { u with subs := fun k => if k = i then { (u.subs i) with trace := (u.subs i).trace ++ [] } else u.subs k } := by
    rw [subs_eta_trace]
  cases conn with
  | publish => exact hid
  | behavior init =>
    show dNext i (u.gens g).subj.last u = _
    unfold dNext
    rw [if_pos h0]
    show ({ u with subs := _ } : St) = { u with subs := _ }
    congr 1
    funext k
    split
    · next h => subst h; rfl
    · rfl
  | replay n => exact hid
  | replayAll => exact hid

/-! ### what the new subscriber receives at once, case by case -/

theorem r1_join (cfg : Cfg) {s : St} (hnn : needsNew s = false) :
    r1 cfg (newSub s) = { (newSub s) with refCount := s.refCount + 1 } := by
  have hnn' : needsNew (newSub s) = false := hnn
  unfold r1
  rw [if_neg (by simp [hnn'])]
  rfl

/-- **later subscribers join the running execution**: the new subscriber receives exactly what the
    connector hands out on subscription (nothing / the last value / the buffered values), is open,
    and nobody else's record is touched -/
theorem join_active_trace (cfg : Cfg) {s : St} {g : Nat} (hi : Inv Pend.idle s) (hsub : s.subject = some g) (ha : GenActive Pend.idle s g) :
    ((step cfg s .sub).subs s.nsubs).trace = Spec.joined cfg.conn (s.gens g).subj ∧
    ((step cfg s .sub).subs s.nsubs).status = 0 ∧
    (∀ k, k ≠ s.nsubs → (step cfg s .sub).subs k = s.subs k) ∧
    (∀ k, ((step cfg s .sub).gens k).subj.buf = (s.gens k).subj.buf ∧ ((step cfg s .sub).gens k).subj.last = (s.gens k).subj.last) := by
  show ((subscribe cfg s).subs s.nsubs).trace = _ ∧ ((subscribe cfg s).subs s.nsubs).status = 0 ∧
    (∀ k, k ≠ s.nsubs → (subscribe cfg s).subs k = s.subs k) ∧
    (∀ k, ((subscribe cfg s).gens k).subj.buf = (s.gens k).subj.buf ∧ ((subscribe cfg s).gens k).subj.last = (s.gens k).subj.last)
  have hnn : needsNew s = false := by
    cases h : needsNew s with
    | false => rfl
    | true => rw [(needsNew_iff hi).mp h] at hsub; cases hsub
  have e1 := r1_join cfg hnn
  have h0 : ((r1 cfg (newSub s)).subs s.nsubs).status = 0 := by rw [e1]; simp [newSub]
  have eR := subjReplay_eq cfg.conn g s.nsubs (r1 cfg (newSub s)) h0
  have h0R : ((subjReplay cfg.conn g s.nsubs (r1 cfg (newSub s))).subs s.nsubs).status = 0 := by rw [eR]; simp [h0]
  have eL := subjLast_eq cfg.conn g s.nsubs _ h0R
  have hopen : ((subjReplay cfg.conn g s.nsubs (r1 cfg (newSub s))).gens g).subj.status = Status.open := by
    rw [eR, e1]; exact ha.isOpen
  have hsubscribe : subscribe cfg s = addTeardown cfg.flags s.nsubs g (subjRegister g s.nsubs
      (subjLast cfg.conn g s.nsubs (subjReplay cfg.conn g s.nsubs (r1 cfg (newSub s))))) := by
    simp only [subscribe, hnn, hsub, Option.getD_some, subjSubscribe, hopen]
    simp
  rw [hsubscribe, eL, eR, e1]
  refine ⟨?_, ?_, ?_, ?_⟩
  · cases hc : cfg.conn <;> simp [addTeardown, subjRegister, newSub, Spec.joined]
  · simp [addTeardown, subjRegister, newSub]
  · intro k hk
    simp [addTeardown, subjRegister, newSub, hk]
  · intro k
    simp [addTeardown, subjRegister, newSub]
    split <;> simp_all

/-- **after a source terminal the configuration does not reset on, the execution is replayed**:
    a subscriber arriving at the latched generation receives the connector's stored values (replay
    only) and the stored terminal, is closed at once, and nothing else changes — neither another
    subscriber's record nor any generation (so every later subscriber is served the same) -/
theorem latched_sub (cfg : Cfg) {s : St} {g : Nat} (hi : Inv Pend.idle s) (hsub : s.subject = some g) (hl : GenLatched Pend.idle s g) :
    ((step cfg s .sub).subs s.nsubs).trace = Spec.late cfg.conn (s.gens g).subj ∧
    ((step cfg s .sub).subs s.nsubs).status ≠ 0 ∧
    (∀ k, k ≠ s.nsubs → (step cfg s .sub).subs k = s.subs k) ∧
    (step cfg s .sub).gens = s.gens := by
  show ((subscribe cfg s).subs s.nsubs).trace = _ ∧ ((subscribe cfg s).subs s.nsubs).status ≠ 0 ∧
    (∀ k, k ≠ s.nsubs → (subscribe cfg s).subs k = s.subs k) ∧ (subscribe cfg s).gens = s.gens
  have hnn : needsNew s = false := by
    cases h : needsNew s with
    | false => rfl
    | true => rw [(needsNew_iff hi).mp h] at hsub; cases hsub
  have e1 := r1_join cfg hnn
  have h0 : ((r1 cfg (newSub s)).subs s.nsubs).status = 0 := by rw [e1]; simp [newSub]
  have eR := subjReplay_eq cfg.conn g s.nsubs (r1 cfg (newSub s)) h0
  have hsubscribe : subscribe cfg s = addTeardown cfg.flags s.nsubs g (subjSubscribe cfg g s.nsubs (r1 cfg (newSub s))) := by
    simp only [subscribe, hnn, hsub, Option.getD_some]
    simp
  have hstat : ((subjReplay cfg.conn g s.nsubs (r1 cfg (newSub s))).gens g).subj.status = (s.gens g).subj.status := by
    rw [eR, e1]; rfl
  have h0R : ((subjReplay cfg.conn g s.nsubs (r1 cfg (newSub s))).subs s.nsubs).status = 0 := by rw [eR]; simp [h0]
  have hdR : ((subjReplay cfg.conn g s.nsubs (r1 cfg (newSub s))).subs s.nsubs).done = false := by rw [eR, e1]; simp [newSub]
  have hdfR : ((subjReplay cfg.conn g s.nsubs (r1 cfg (newSub s))).subs s.nsubs).delFin = none := by rw [eR, e1]; simp [newSub]
  have htfR : ((subjReplay cfg.conn g s.nsubs (r1 cfg (newSub s))).subs s.nsubs).tearFin = none := by rw [eR, e1]; simp [newSub]
  have hflR : (subjReplay cfg.conn g s.nsubs (r1 cfg (newSub s))).flagE = true ∨ (subjReplay cfg.conn g s.nsubs (r1 cfg (newSub s))).flagC = true := by
    rw [eR, e1]; exact hl.flag
  have key : ∀ t : Ev, t.isTerminal = true → (s.gens g).subj.status.terminal = [t] →
      ((addTeardown cfg.flags s.nsubs g (dTerm cfg.flags s.nsubs t (subjReplay cfg.conn g s.nsubs (r1 cfg (newSub s))))).subs s.nsubs).trace =
        Spec.late cfg.conn (s.gens g).subj ∧
      ((addTeardown cfg.flags s.nsubs g (dTerm cfg.flags s.nsubs t (subjReplay cfg.conn g s.nsubs (r1 cfg (newSub s))))).subs s.nsubs).status ≠ 0 ∧
      (∀ k, k ≠ s.nsubs → (addTeardown cfg.flags s.nsubs g (dTerm cfg.flags s.nsubs t (subjReplay cfg.conn g s.nsubs (r1 cfg (newSub s))))).subs k = s.subs k) ∧
      (addTeardown cfg.flags s.nsubs g (dTerm cfg.flags s.nsubs t (subjReplay cfg.conn g s.nsubs (r1 cfg (newSub s))))).gens = s.gens := by
    intro t ht hterm
    have hc : t.code ≠ 0 := by cases t <;> simp [Ev.code, Ev.isTerminal] at *
    rw [late_effect cfg.flags s.nsubs g t ht _ h0R hdR hdfR htfR hflR, eR, e1]
    refine ⟨?_, ?_, ?_, ?_⟩
    · cases hcn : cfg.conn <;> simp [newSub, Spec.late, hterm]
    · simp [hc]
    · intro k hk; simp [newSub, hk]
    · rfl
  rw [hsubscribe]
  unfold subjSubscribe
  rw [hstat]
  cases hst : (s.gens g).subj.status with
  | «open» => exact absurd hst hl.closed
  | errored e => exact key (.error e) rfl (by rw [hst]; rfl)
  | completed => exact key .complete rfl (by rw [hst]; rfl)

/-- a latched generation stays latched, with the same stored values and terminal, whatever happens -/
theorem latched_forever (cfg : Cfg) {s : St} {g : Nat} (hi : Inv Pend.idle s) (hsub : s.subject = some g) (hl : GenLatched Pend.idle s g) (e : Event) :
    (step cfg s e).subject = some g ∧ GenLatched Pend.idle (step cfg s e) g ∧ (step cfg s e).gens = s.gens ∧
      (step cfg s e).live = 0 ∧ (step cfg s e).total = s.total := by
  have hinv := inv_step cfg hi e
  have hnotact : ∀ {u : St}, u.subject = some g → GenLatched Pend.idle u g → ¬ ∃ g', u.subject = some g' ∧ GenActive Pend.idle u g' := by
    intro u hu hlu ⟨g', hg', ha'⟩
    rw [hu] at hg'
    have : g' = g := (Option.some.inj hg').symm
    subst this
    have := ha'.upTorn
    rw [hlu.upTorn] at this
    cases this
  have hcase : (step cfg s e).subject = some g ∧ (step cfg s e).gens = s.gens ∧ (step cfg s e).ngens = s.ngens := by
    cases e with
    | sub =>
      refine ⟨(sub_join_live cfg hi hsub).2, (latched_sub cfg hi hsub hl).2.2.2, ?_⟩
      show (subscribe cfg s).ngens = _
      rw [subscribe_ngens cfg hi, hsub]; simp
    | unsub i =>
      have : step cfg s (.unsub i) = s := by
        simp only [step]
        split
        next hlt =>
          have := openSubs_eq_nil.mp hl.noOpen i hlt
          simp [dUnsubscribe, this]
        next => rfl
      rw [this]; exact ⟨hsub, rfl, rfl⟩
    | src x =>
      have : step cfg s (.src x) = s := by
        rcases push_eq cfg x hi with ⟨g', hg', ha', _⟩ | ⟨_, he⟩
        · exact absurd ⟨g', hg', ha'⟩ (hnotact hsub hl)
        · exact he
      rw [this]; exact ⟨hsub, rfl, rfl⟩
  obtain ⟨h1, h2, h3⟩ := hcase
  have hlat : GenLatched Pend.idle (step cfg s e) g := by
    rcases (hinv.cur g h1).2 with ha | hl'
    · have := ha.upTorn
      rw [h2, hl.upTorn] at this
      cases this
    · exact hl'
  refine ⟨h1, hlat, h2, live_of_not_active hinv (hnotact h1 hlat), ?_⟩
  rw [total_eq_ngens hinv, total_eq_ngens hi, h3]

/-! ### a source notification reaches every open subscriber, once -/

theorem bcastNext_trace (v : Int) (l : List Nat) (hl : l.Nodup) (s : St) (k : Nat) :
    ((l.foldl (fun s i => dNext i v s) s).subs k).trace =
        (if k ∈ l ∧ (s.subs k).status = 0 then (s.subs k).trace ++ [Ev.next v] else (s.subs k).trace) ∧
    ((l.foldl (fun s i => dNext i v s) s).subs k).status = (s.subs k).status := by
  induction l generalizing s with
  | nil => simp
  | cons a l ih =>
    rw [List.foldl_cons]
    have hnd := List.nodup_cons.mp hl
    obtain ⟨ih1, ih2⟩ := ih hnd.2 (dNext a v s)
    rw [ih1, ih2]
    by_cases hka : k = a
    · subst hka
      have := dNext_self k v s
      simp [hnd.1, this.1, this.2]
    · have := (dNext_only a v s).other k hka
      simp [this, hka]

theorem bcastTerm_trace (fl : Flags) (t : Ev) (ht : t.isTerminal = true) (l : List Nat) (s : St) (k : Nat) :
    ((l.foldl (fun s i => dTerm fl i t s) s).subs k).trace =
        (if k ∈ l ∧ (s.subs k).status = 0 then (s.subs k).trace ++ [t] else (s.subs k).trace) ∧
    ((s.subs k).status ≠ 0 → ((l.foldl (fun s i => dTerm fl i t s) s).subs k).status ≠ 0) := by
  induction l generalizing s with
  | nil => simp
  | cons a l ih =>
    rw [List.foldl_cons]
    obtain ⟨ih1, ih2⟩ := ih (dTerm fl a t s)
    by_cases hka : k = a
    · subst hka
      have hself := dTerm_self fl k t ht s
      refine ⟨?_, fun _ => ih2 hself.2⟩
      rw [ih1]
      simp [hself.2, hself.1]
    · have := (dTerm_only fl a t s).other k hka
      refine ⟨?_, fun h => ih2 (by rw [this]; exact h)⟩
      rw [ih1, this]
      simp [hka]

theorem subjStore_frame (conn : Conn) (g : Nat) (v : Int) (s : St) :
    (subjStore conn g v s).subs = s.subs ∧ ((subjStore conn g v s).gens g).subj.obs = (s.gens g).subj.obs := by
  cases conn <;> simp [subjStore]

theorem subjBuffer_subs (conn : Conn) (g : Nat) (v : Int) (s : St) : (subjBuffer conn g v s).subs = s.subs := by
  cases conn <;> simp [subjBuffer]
  split <;> rfl

/-- **all current subscribers receive the same notifications**: a source notification is appended,
    exactly once, to the trace of every open subscriber and to nobody else's -/
theorem src_uniform (cfg : Cfg) {s : St} (hi : Inv Pend.idle s) (x : Ev) (k : Nat) (hk : k < s.nsubs) :
    ((step cfg s (.src x)).subs k).trace =
      if (s.subs k).status = 0 then (s.subs k).trace ++ [x] else (s.subs k).trace := by
  show ((push cfg x s).subs k).trace = _
  rcases push_eq cfg x hi with ⟨g, hsub, ha, he⟩ | ⟨_, he⟩
  · rw [he]
    have hmem : k ∈ (s.gens g).subj.obs ↔ (s.subs k).status = 0 := by
      rw [ha.obs, mem_openSubs]; exact ⟨fun h => h.2, fun h => ⟨hk, h⟩⟩
    cases x with
    | next v =>
      have e : pEmit cfg g (.next v) s = subjBuffer cfg.conn g v (bcastNext g v (subjStore cfg.conn g v s)) := by
        simp [pEmit, pNext, ha.pStatus, subjNext, ha.isOpen]
      rw [e, subjBuffer_subs]
      unfold bcastNext
      obtain ⟨hs1, hs2⟩ := subjStore_frame cfg.conn g v s
      rw [hs2, (bcastNext_trace v _ (by rw [ha.obs]; exact openSubs_nodup s) _ k).1, hs1]
      by_cases h0 : (s.subs k).status = 0
      · simp [h0, hmem.mpr h0]
      · simp [h0]
    | error e' =>
      have hopen : ((pDecide cfg.flags g (.error e') (s.modGen g fun x => { x with pStatus := (Ev.error e').code })).gens g).subj.status = Status.open := by
        rw [pDecide_sk]; simp [ha.isOpen]
      have e : pEmit cfg g (.error e') s = pSubnUnsub g (subjClear g (bcastTerm cfg.flags g (.error e')
          ((pDecide cfg.flags g (.error e') (s.modGen g fun x => { x with pStatus := (Ev.error e').code })).modGen g
            fun x => { x with subj := { x.subj with status := Status.ofTerminal (.error e') } }))) := by
        simp only [pEmit, pTerm, if_pos ha.pStatus, subjTerm, hopen]
      rw [e, (pSubnUnsub_go g _).subs]
      show ((bcastTerm cfg.flags g (.error e') _).subs k).trace = _
      unfold bcastTerm
      rw [(bcastTerm_trace cfg.flags (.error e') rfl _ _ k).1]
      have hobs : (((pDecide cfg.flags g (.error e') (s.modGen g fun x => { x with pStatus := (Ev.error e').code })).modGen g
            fun x => { x with subj := { x.subj with status := Status.ofTerminal (.error e') } }).gens g).subj.obs = (s.gens g).subj.obs := by
        simp [pDecide_sk cfg.flags g (.error e') _ g]
      have hsubs : ((pDecide cfg.flags g (.error e') (s.modGen g fun x => { x with pStatus := (Ev.error e').code })).modGen g
            fun x => { x with subj := { x.subj with status := Status.ofTerminal (.error e') } }).subs = s.subs := by
        simp [(pDecide_go cfg.flags g (.error e') _).subs]
      rw [hobs, hsubs]
      by_cases h0 : (s.subs k).status = 0
      · simp [h0, hmem.mpr h0]
      · simp [h0]
    | complete =>
      have hopen : ((pDecide cfg.flags g .complete (s.modGen g fun x => { x with pStatus := Ev.complete.code })).gens g).subj.status = Status.open := by
        rw [pDecide_sk]; simp [ha.isOpen]
      have e : pEmit cfg g .complete s = pSubnUnsub g (subjClear g (bcastTerm cfg.flags g .complete
          ((pDecide cfg.flags g .complete (s.modGen g fun x => { x with pStatus := Ev.complete.code })).modGen g
            fun x => { x with subj := { x.subj with status := Status.ofTerminal .complete } }))) := by
        simp only [pEmit, pTerm, if_pos ha.pStatus, subjTerm, hopen]
      rw [e, (pSubnUnsub_go g _).subs]
      show ((bcastTerm cfg.flags g .complete _).subs k).trace = _
      unfold bcastTerm
      rw [(bcastTerm_trace cfg.flags .complete rfl _ _ k).1]
      have hobs : (((pDecide cfg.flags g .complete (s.modGen g fun x => { x with pStatus := Ev.complete.code })).modGen g
            fun x => { x with subj := { x.subj with status := Status.ofTerminal .complete } }).gens g).subj.obs = (s.gens g).subj.obs := by
        simp [pDecide_sk cfg.flags g .complete _ g]
      have hsubs : ((pDecide cfg.flags g .complete (s.modGen g fun x => { x with pStatus := Ev.complete.code })).modGen g
            fun x => { x with subj := { x.subj with status := Status.ofTerminal .complete } }).subs = s.subs := by
        simp [(pDecide_go cfg.flags g .complete _).subs]
      rw [hobs, hsubs]
      by_cases h0 : (s.subs k).status = 0
      · simp [h0, hmem.mpr h0]
      · simp [h0]
  · rw [he]
    by_cases h0 : (s.subs k).status = 0
    · obtain ⟨g, hsub, ha⟩ := open_attached hi hk h0
      have hg := (hi.cur g hsub).1
      have := (upLive_iff hi g hg).mpr ⟨hsub, ha⟩
      rw [‹∀ k, k < s.ngens → s.upLive k = false› g hg] at this
      cases this
    · simp [h0]

/-! ### a source terminal on the live generation -/

/-- the subjects' status and stored values are kept -/
def ValKeep (s s' : St) : Prop :=
  ∀ k, (s'.gens k).subj.status = (s.gens k).subj.status ∧ (s'.gens k).subj.buf = (s.gens k).subj.buf ∧
       (s'.gens k).subj.last = (s.gens k).subj.last

theorem ValKeep.refl (s : St) : ValKeep s s := fun _ => ⟨rfl, rfl, rfl⟩
theorem ValKeep.trans {a b c : St} (h1 : ValKeep a b) (h2 : ValKeep b c) : ValKeep a c :=
  fun k => ⟨(h2 k).1.trans (h1 k).1, (h2 k).2.1.trans (h1 k).2.1, (h2 k).2.2.trans (h1 k).2.2⟩
theorem SubjKeep.vk {s s' : St} (h : SubjKeep s s') : ValKeep s s' := fun k => by rw [h k]; exact ⟨rfl, rfl, rfl⟩

theorem foldl_vk {α : Type} (f : St → α → St) (hf : ∀ s a, ValKeep s (f s a)) (l : List α) (s : St) :
    ValKeep s (l.foldl f s) := by
  induction l generalizing s with
  | nil => exact ValKeep.refl s
  | cons a l ih => exact (hf s a).trans (ih (f s a))

theorem dTerm_vk (fl : Flags) (i : Nat) (t : Ev) (s : St) : ValKeep s (dTerm fl i t s) := by
  have h1 : ValKeep s (dDeliver i t s) := by
    unfold dDeliver; split <;> exact fun _ => ⟨rfl, rfl, rfl⟩
  have h2 : ∀ u : St, ValKeep u (dSubnUnsub fl i u) := by
    intro u
    unfold dSubnUnsub; split
    · exact ValKeep.refl u
    · have ha : ValKeep u (u.modSub i fun d => { d with done := true, delFin := none, tearFin := none }) := fun _ => ⟨rfl, rfl, rfl⟩
      have hb : ∀ (o : Option Nat) (w : St), ValKeep w (runDel i o w) := by
        intro o w; cases o
        · exact ValKeep.refl w
        · intro k; simp [runDel]; split <;> simp_all
      have hc : ∀ (o : Option Nat) (w : St), ValKeep w (runTear fl i o w) := by
        intro o w
        match o with
        | none => exact ValKeep.refl w
        | some g' =>
          simp only [runTear, teardownT]
          have hz : ValKeep (decRef (casClose i w)) (zeroReset fl g' (decRef (casClose i w))) := by
            unfold zeroReset; split
            · exact (reset_sk _ _).vk
            · exact ValKeep.refl _
          have hcc : ValKeep w (decRef (casClose i w)) := by
            intro k; unfold decRef casClose; split <;> exact ⟨rfl, rfl, rfl⟩
          exact hcc.trans hz
      exact (ha.trans (hb _ _)).trans (hc _ _)
  exact h1.trans (h2 _)

/-- **after the source terminates**: nobody is left open, the upstream subscription is gone, and
    the shared pair is cleared exactly when the configuration resets on that terminal; otherwise
    the generation is latched with the terminal stored and the connector's values untouched -/
theorem src_terminal (cfg : Cfg) {s : St} {g : Nat} (t : Ev) (ht : t.isTerminal = true) (hi : Inv Pend.idle s)
    (hsub : s.subject = some g) (ha : GenActive Pend.idle s g) :
    (step cfg s (.src t)).live = 0 ∧ openSubs (step cfg s (.src t)) = [] ∧
    (step cfg s (.src t)).subject = (if cfg.flags.resetsOn t then none else some g) ∧
    (step cfg s (.src t)).total = s.total ∧
    (cfg.flags.resetsOn t = false → GenLatched Pend.idle (step cfg s (.src t)) g ∧
      ((step cfg s (.src t)).gens g).subj.status = Status.ofTerminal t ∧
      ((step cfg s (.src t)).gens g).subj.buf = (s.gens g).subj.buf) := by
  have hstep : step cfg s (.src t) = pTerm cfg g t s := by
    show push cfg t s = _
    rcases push_eq cfg t hi with ⟨g', hg', _, he⟩ | ⟨hno, _⟩
    · rw [hsub] at hg'
      have : g' = g := (Option.some.inj hg').symm
      subst this
      rw [he]
      cases t with
      | next v => simp [Ev.isTerminal] at ht
      | error e => rfl
      | complete => rfl
    · have hg := (hi.cur g hsub).1
      have := (upLive_iff hi g hg).mpr ⟨hsub, ha⟩
      rw [hno g hg] at this; cases this
  rw [hstep]
  obtain ⟨hinv, hng, _, hut', _, hsj, _⟩ := inv_pTerm (cfg := cfg) t ht hi hsub ha
  have hut := hut' (by simp)
  simp only [Pend.afterTerm_idle] at hinv
  have hnotact : ¬ ∃ g', (pTerm cfg g t s).subject = some g' ∧ GenActive Pend.idle (pTerm cfg g t s) g' := by
    intro ⟨g', hg', ha'⟩
    rw [hsj] at hg'
    split at hg'
    · cases hg'
    · have : g' = g := (Option.some.inj hg').symm
      subst this
      have := ha'.upTorn
      rw [hut] at this; cases this
  have hno : openSubs (pTerm cfg g t s) = [] := by
    cases hs' : (pTerm cfg g t s).subject with
    | none => exact (hinv.idle hs').2.2
    | some g' =>
      rcases (hinv.cur g' hs').2 with ha' | hl'
      · exact absurd ⟨g', hs', ha'⟩ hnotact
      · exact hl'.noOpen
  refine ⟨live_of_not_active hinv hnotact, hno, hsj, by rw [total_eq_ngens hinv, total_eq_ngens hi, hng], ?_⟩
  intro hnr
  have hs' : (pTerm cfg g t s).subject = some g := by rw [hsj, hnr]; rfl
  have hlat : GenLatched Pend.idle (pTerm cfg g t s) g := by
    rcases (hinv.cur g hs').2 with ha' | hl'
    · exact absurd ⟨g, hs', ha'⟩ hnotact
    · exact hl'
  refine ⟨hlat, ?_⟩
  -- the subject's own state through pTerm
  have hopen : ((pDecide cfg.flags g t (s.modGen g fun x => { x with pStatus := t.code })).gens g).subj.status = Status.open := by
    rw [pDecide_sk]; simp [ha.isOpen]
  have e : pTerm cfg g t s = pSubnUnsub g (subjClear g (bcastTerm cfg.flags g t
      ((pDecide cfg.flags g t (s.modGen g fun x => { x with pStatus := t.code })).modGen g
        fun x => { x with subj := { x.subj with status := Status.ofTerminal t } }))) := by
    simp only [pTerm, if_pos ha.pStatus, subjTerm, hopen]
  have hfinal : ∀ S3 : St, ((pSubnUnsub g (subjClear g (bcastTerm cfg.flags g t S3))).gens g).subj.status = (S3.gens g).subj.status ∧
      ((pSubnUnsub g (subjClear g (bcastTerm cfg.flags g t S3))).gens g).subj.buf = (S3.gens g).subj.buf := by
    intro S3
    have hb : ValKeep S3 (bcastTerm cfg.flags g t S3) :=
      foldl_vk (fun s i => dTerm cfg.flags i t s) (fun s i => dTerm_vk cfg.flags i t s) _ S3
    rw [pSubnUnsub_sk g _ g]
    simp [subjClear]
    exact ⟨(hb g).1, (hb g).2.1⟩
  rw [e]
  obtain ⟨hf1, hf2⟩ := hfinal ((pDecide cfg.flags g t (s.modGen g fun x => { x with pStatus := t.code })).modGen g
        fun x => { x with subj := { x.subj with status := Status.ofTerminal t } })
  rw [hf1, hf2]
  simp [pDecide_sk cfg.flags g t _ g]

/-! ### nobody else's trace is touched by `sub` / `unsub` -/

theorem unsub_traces (cfg : Cfg) (s : St) (i k : Nat) : ((step cfg s (.unsub i)).subs k).trace = (s.subs k).trace := by
  simp only [step]
  split
  · by_cases hki : k = i
    · subst hki
      unfold dUnsubscribe
      split
      · rw [dSubnUnsub_trace]; simp
      · rfl
    · rw [(dUnsubscribe_only cfg.flags i s).other k hki]
  · rfl

/-- a purely hot source: the creator of a generation receives only what a brand-new connector hands
    out (nothing, or behavior's initial value): a *fresh* execution; nobody else is touched -/
theorem fresh_hot_trace (cfg : Cfg) (hhot : cfg.Hot) {s : St} (hi : Inv Pend.idle s) (hsub : s.subject = none) :
    ((step cfg s .sub).subs s.nsubs).trace = Spec.joined cfg.conn (Subj.new cfg.conn) ∧
    ((step cfg s .sub).subs s.nsubs).status = 0 ∧
    (∀ k, k ≠ s.nsubs → (step cfg s .sub).subs k = s.subs k) ∧
    (step cfg s .sub).subject = some s.ngens ∧ (step cfg s .sub).live = 1 := by
  show ((subscribe cfg s).subs s.nsubs).trace = _ ∧ ((subscribe cfg s).subs s.nsubs).status = 0 ∧
    (∀ k, k ≠ s.nsubs → (subscribe cfg s).subs k = s.subs k) ∧ (subscribe cfg s).subject = some s.ngens ∧ (subscribe cfg s).live = 1
  have hnn : needsNew s = true := (needsNew_iff hi).mpr hsub
  have hnn' : needsNew (newSub s) = true := hnn
  have e1 : r1 cfg (newSub s) =
      { (newSub s) with refCount := s.refCount + 1,
                        gens := (fun k => if k = s.ngens then { subj := Subj.new cfg.conn, creator := s.nsubs } else s.gens k),
                        ngens := s.ngens + 1, subject := some s.ngens, sourceSubscription := some s.ngens } := by
    unfold r1
    rw [if_pos hnn']
    rfl
  have h0 : ((r1 cfg (newSub s)).subs s.nsubs).status = 0 := by rw [e1]; simp [newSub]
  have eR := subjReplay_eq cfg.conn s.ngens s.nsubs (r1 cfg (newSub s)) h0
  have h0R : ((subjReplay cfg.conn s.ngens s.nsubs (r1 cfg (newSub s))).subs s.nsubs).status = 0 := by rw [eR]; simp [h0]
  have eL := subjLast_eq cfg.conn s.ngens s.nsubs _ h0R
  have hopen : ((subjReplay cfg.conn s.ngens s.nsubs (r1 cfg (newSub s))).gens s.ngens).subj.status = Status.open := by
    rw [eR, e1]; simp [subjNew_open]
  have hsubscribe : subscribe cfg s = r3 cfg s.nsubs s.ngens (subjRegister s.ngens s.nsubs
      (subjLast cfg.conn s.ngens s.nsubs (subjReplay cfg.conn s.ngens s.nsubs (r1 cfg (newSub s))))) := by
    simp only [subscribe, hnn, subjSubscribe, hopen]
    simp
  -- the outcome is the live one: a hot prefix cannot terminate
  obtain ⟨u0, k, hsim, he⟩ := subscribe_fresh_eq cfg hi hsub
  have hl := (flive_freshState cfg.conn hi hsub).sim hsim
  have hpre : playPre cfg s.ngens (cfg.pre k) u0 = u0 := by rw [hhot k]; rfl
  obtain ⟨hfe, hfi, hfa, hfs⟩ := finish_live cfg.flags hl
  have hfinal : subscribe cfg s = liveDone s.nsubs s.ngens u0 := by rw [he, hpre, hfe]
  have hlive : (subscribe cfg s).live = 1 := by
    have hinv := subscribe_cases cfg hi
    rw [he, hpre] at hinv ⊢
    exact live_of_active hinv hfs hfa
  have hsubj : (subscribe cfg s).subject = some s.ngens := by rw [he, hpre]; exact hfs
  refine ⟨?_, ?_, ?_, hsubj, hlive⟩
  · rw [hsubscribe, eL, eR, e1]
    unfold r3 srcSubscribe
    rw [hhot]
    have hbuf : (Subj.new cfg.conn).buf = [] := by cases cfg.conn <;> rfl
    cases hc : cfg.conn <;>
      simp [playPre, upAddTeardown, r3tail, ssAdd, addTeardown, subjRegister, newSub, Spec.joined, Subj.new] <;>
      (repeat' split) <;> simp_all [Subj.new]
  · rw [hfinal]
    simp [liveDone]
    exact hl.status
  · intro k' hk'
    rw [hsubscribe, eL, eR, e1]
    unfold r3 srcSubscribe
    rw [hhot]
    simp [playPre, upAddTeardown, r3tail, ssAdd, addTeardown, subjRegister, newSub, hk']

end Ro.Share

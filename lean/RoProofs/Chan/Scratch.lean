import RoProofs.Chan.Inv
namespace Ro.Chan
open Ro
variable {α : Type}

theorem inv_stop {cfg : Cfg} {src₀ : List (Notif α)} {s : St α} (h : Inv cfg src₀ s)
    (hsafe : early s = true → s.upOpen = false ∧ hand s.ppc = [])
    (hhot : cfg.hot = true → s.upOpen = false) : Inv cfg src₀ s.stop := by
  obtain ⟨hfifo, hflow, hroom, hfc, hopen, hwhole, hpre, honce, hcloses, hstops, hp, hc, ht, hterm, hhc, hhf,
    hec, hecut, heout, hedown, hop, hhd, hub⟩ := h
  unfold St.stop
  cases ho : s.once <;> (try simp only [↓reduceIte, Bool.false_eq_true]) <;> inv_auto
  intro _
  have hf : s.fails = [] := by simp_all
  rw [hf]; cases s.ppc <;> simp
end Ro.Chan

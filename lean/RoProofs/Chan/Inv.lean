/-
  RoProofs.Chan.Inv — invariants of the `Pipe` transition system (detachOn, ToChannel) of
  RoModel/Chan.lean, preserved by every step of every thread, hence true after every schedule.
-/
import RoModel.Chan
import RoProofs.Gate
namespace Ro.Chan
open Ro
variable {α : Type}

/-! ### list facts -/

theorem gate_cons_term {x : Notif α} (xs : List (Notif α)) (h : x.isTerminal = true) : gate (x :: xs) = [x] := by
  simp [gate, h]

theorem gate_cons_noTerm {x : Notif α} (xs : List (Notif α)) (h : x.isTerminal = false) :
    gate (x :: xs) = x :: gate xs := by
  simp [gate, h]

/-- in a prefix of a gated script only the last notification can be a terminal -/
theorem noTerm_of_snoc_prefix_gate (r : List (Notif α)) :
    ∀ (l : List (Notif α)) (x : Notif α) (t : List (Notif α)), l ++ [x] ++ t = gate r → hasTerm l = false := by
  induction r with
  | nil => intro l x t h; simp at h
  | cons y r ih =>
    intro l x t h
    cases hy : y.isTerminal
    · rw [gate_cons_noTerm _ hy] at h
      cases l with
      | nil => rfl
      | cons y' l' =>
        simp only [List.cons_append, List.cons.injEq] at h
        obtain ⟨h1, h2⟩ := h
        subst h1
        have := ih l' x t (by simpa using h2)
        simp [hy, this]
    · rw [gate_cons_term _ hy] at h
      cases l with
      | nil => rfl
      | cons y' l' =>
        simp only [List.cons_append, List.cons.injEq] at h
        obtain ⟨_, h2⟩ := h
        simp at h2

/-! ### the invariant -/

def early (s : St α) : Bool :=
  match s.tpc with
  | .handout | .cas => true
  | _ => false

/-- facts tied to the producer's program counter -/
def PpcOK (cfg : Cfg) (s : St α) : Prop :=
  match s.ppc with
  | .idle => True
  | .send x => x.isTerminal = true → s.upOpen = false
  | .stop => hasTerm s.sent = true
  | .complete | .td1 | .td2 => hasTerm s.sent = true ∧ cfg.toChan = true

/-- facts tied to the consumer's program counter -/
def CpcOK (cfg : Cfg) (s : St α) : Prop :=
  match s.cpc with
  | .recv | .hold _ => True
  | .td1 => hasTerm s.sent = true ∧ cfg.toChan = false
  | .td2 => hasTerm s.sent = true ∧ cfg.toChan = false ∧ (cfg.hot = true → s.upOpen = false)
  | .exited => s.closed = true ∧ s.q = []

def TpcOK (cfg : Cfg) (s : St α) : Prop :=
  match s.tpc with
  | .handout => cfg.toChan = true ∧ s.handed = false ∧ s.handDropped = false
  | .td2 => cfg.hot = true → s.upOpen = false
  | _ => True

structure Inv (cfg : Cfg) (src₀ : List (Notif α)) (s : St α) : Prop where
  /-- FIFO, nothing lost, nothing invented between the two ends of the channel -/
  fifo : s.sent = s.got ++ chold s.cpc ++ s.q
  /-- every notification that entered a producer callback was sent, failed on the closed
      channel, or is still in the producer's hand -/
  flow : s.entered = s.sent ++ s.fails ++ hand s.ppc
  room : s.q.length ≤ cfg.cap
  failsClosed : s.closed = false → s.fails = []
  /-- what entered is the gated script so far -/
  open_ : s.upOpen = true → gate src₀ = s.entered ++ gate s.src
  whole : s.upOpen = false → s.cut = false → gate src₀ = s.entered
  pre : ∃ t, s.entered ++ t = gate src₀
  onceClosed : s.closed = s.once
  closes : s.closes = if s.once then 1 else 0
  stops : 0 < s.stops → s.once = true
  ppc : PpcOK cfg s
  cpc : CpcOK cfg s
  tpc : TpcOK cfg s
  /-- once a terminal is in the channel the producer has nothing in hand and its gate is shut -/
  term : hasTerm s.sent = true → s.upOpen = false ∧ hand s.ppc = []
  /-- a closed channel and a registered (hot) source: the upstream gate is shut -/
  hotClosed : cfg.hot = true → s.closed = true → s.upOpen = false
  hotFails : cfg.hot = true → s.fails.length + (if s.closed then (hand s.ppc).length else 0) ≤ 1
  /-- as long as nobody called `Unsubscribe()`: a closed channel means the producer is done -/
  earlyClosed : early s = true → s.closed = true → s.upOpen = false ∧ hand s.ppc = []
  earlyCut : early s = true → s.cut = false
  earlyOut : cfg.toChan = false → early s = true → s.out = s.got
  earlyDown : cfg.toChan = false → early s = true → s.downOpen = false → hasTerm s.got = true
  outPre : ∃ t, s.out ++ t = s.got
  /-- ToChannel: the destination is completed only after a terminal went into the channel … -/
  handDown : cfg.toChan = true → s.tpc = .handout → s.downOpen = false → hasTerm s.sent = true
  /-- … and an unbuffered channel accepts nothing before it was handed out -/
  unbuf : cfg.toChan = true → cfg.cap = 0 → s.handed = false → s.sent = []
  /-- the downstream is still open only if `Unsubscribe()` has not passed its CAS -/
  downEarly : s.downOpen = true → early s = true
  /-- no send fails unless somebody called `Unsubscribe()` -/
  earlyFails : early s = true → s.fails = []
  /-- ToChannel, unbuffered: the hand-out is never refused -/
  noDrop : cfg.toChan = true → cfg.cap = 0 → s.handDropped = false

theorem inv_init (cfg : Cfg) (src₀ : List (Notif α)) : Inv cfg src₀ (init cfg src₀) := by
  constructor <;> simp [init, chold, hand, PpcOK, CpcOK, TpcOK, early]
  all_goals cases cfg.toChan <;> simp


theorem hand_length_le (p : PPc α) : (hand p).length ≤ 1 := by
  cases p <;> simp [hand]

/-- closes most preservation goals: fields untouched by the step by `assumption`, the rest by `simp_all` -/
macro "inv_auto" : tactic =>
  `(tactic| (constructor <;> dsimp only [hand, chold, early, PpcOK, CpcOK, TpcOK] at * <;>
      first
      | assumption
      | (simp_all [gate_cons_term, gate_cons_noTerm]; done)
      | (intros; (try simp only [List.length_append, List.length_cons, List.length_nil] at *); omega)
      | (split <;> simp_all [gate_cons_term, gate_cons_noTerm]; done)
      | skip))

end Ro.Chan

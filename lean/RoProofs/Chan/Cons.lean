/-
  RoProofs.Chan.Cons — every step of the consumer thread and of the unsubscribing thread
  preserves `Inv`.
-/
import RoProofs.Chan.Inv
namespace Ro.Chan
open Ro
variable {α : Type}

theorem inv_cons_recv {cfg : Cfg} {src₀ : List (Notif α)} {s : St α} (h : Inv cfg src₀ s)
    (x : Notif α) (q' : List (Notif α)) (hpc : s.cpc = .recv) (hq : s.q = x :: q') :
    Inv cfg src₀ { s with q := q', cpc := .hold x } := by
  obtain ⟨hfifo, hflow, hroom, hfc, hopen, hwhole, hpre, honce, hcloses, hstops, hp, hc, ht, hterm, hhc, hhf,
    hec, hecut, heout, hedown, hop, hhd, hub, hde, hef, hnd⟩ := h
  have hroom' : q'.length ≤ cfg.cap := by rw [hq] at hroom; simp at hroom; omega
  inv_auto

theorem inv_cons_exit {cfg : Cfg} {src₀ : List (Notif α)} {s : St α} (h : Inv cfg src₀ s)
    (hpc : s.cpc = .recv) (hq : s.q = []) (hcl : s.closed = true) :
    Inv cfg src₀ { s with cpc := .exited } := by
  obtain ⟨hfifo, hflow, hroom, hfc, hopen, hwhole, hpre, honce, hcloses, hstops, hp, hc, ht, hterm, hhc, hhf,
    hec, hecut, heout, hedown, hop, hhd, hub, hde, hef, hnd⟩ := h
  inv_auto

theorem inv_cons_read {cfg : Cfg} {src₀ : List (Notif α)} {s : St α} (h : Inv cfg src₀ s)
    (x : Notif α) (hpc : s.cpc = .hold x) (htc : cfg.toChan = true) :
    Inv cfg src₀ { s with got := s.got ++ [x], cpc := .recv } := by
  obtain ⟨hfifo, hflow, hroom, hfc, hopen, hwhole, hpre, honce, hcloses, hstops, hp, hc, ht, hterm, hhc, hhf,
    hec, hecut, heout, hedown, hop, hhd, hub, hde, hef, hnd⟩ := h
  have hop' : ∃ t, s.out ++ t = s.got ++ [x] := by
    obtain ⟨t, e⟩ := hop; exact ⟨t ++ [x], by rw [← List.append_assoc, e]⟩
  inv_auto

theorem inv_cons_deliver {cfg : Cfg} {src₀ : List (Notif α)} {s : St α} (h : Inv cfg src₀ s)
    (x : Notif α) (hpc : s.cpc = .hold x) (htc : cfg.toChan = false) (hd : s.downOpen = true) :
    Inv cfg src₀ { s with got := s.got ++ [x], out := s.out ++ [x], downOpen := !x.isTerminal,
                          cpc := if x.isTerminal then .td1 else .recv } := by
  obtain ⟨hfifo, hflow, hroom, hfc, hopen, hwhole, hpre, honce, hcloses, hstops, hp, hc, ht, hterm, hhc, hhf,
    hec, hecut, heout, hedown, hop, hhd, hub, hde, hef, hnd⟩ := h
  have hop' : ∃ t, s.out ++ t = s.got ++ [x] := by
    obtain ⟨t, e⟩ := hop; exact ⟨t ++ [x], by rw [← List.append_assoc, e]⟩
  have hop'' : s.downOpen = true → ∃ t, s.out ++ [x] ++ t = s.got ++ [x] := by
    intro hdo; rw [heout htc (hde hdo)]; exact ⟨[], by simp⟩
  have hgram : early s = true → s.downOpen = false → False := by
    intro he hdn
    have h1 := hedown htc he hdn
    obtain ⟨t, e⟩ := hpre
    rw [hflow, hfifo, hpc] at e
    have := noTerm_of_snoc_prefix_gate src₀ s.got x (s.q ++ s.fails ++ hand s.ppc ++ t) (by simpa [chold] using e)
    rw [this] at h1; exact Bool.noConfusion h1
  cases hx : x.isTerminal <;> (try simp only [↓reduceIte, Bool.false_eq_true, Bool.not_true, Bool.not_false]) <;> inv_auto

theorem inv_cons_dropped {cfg : Cfg} {src₀ : List (Notif α)} {s : St α} (h : Inv cfg src₀ s)
    (x : Notif α) (hpc : s.cpc = .hold x) (htc : cfg.toChan = false) (hd : s.downOpen = false) :
    Inv cfg src₀ { s with got := s.got ++ [x], dropsDown := s.dropsDown ++ [x],
                          cpc := if x.isTerminal then .td1 else .recv } := by
  obtain ⟨hfifo, hflow, hroom, hfc, hopen, hwhole, hpre, honce, hcloses, hstops, hp, hc, ht, hterm, hhc, hhf,
    hec, hecut, heout, hedown, hop, hhd, hub, hde, hef, hnd⟩ := h
  have hop' : ∃ t, s.out ++ t = s.got ++ [x] := by
    obtain ⟨t, e⟩ := hop; exact ⟨t ++ [x], by rw [← List.append_assoc, e]⟩
  have hop'' : s.downOpen = true → ∃ t, s.out ++ [x] ++ t = s.got ++ [x] := by
    intro hdo; rw [heout htc (hde hdo)]; exact ⟨[], by simp⟩
  have hgram : early s = true → s.downOpen = false → False := by
    intro he hdn
    have h1 := hedown htc he hdn
    obtain ⟨t, e⟩ := hpre
    rw [hflow, hfifo, hpc] at e
    have := noTerm_of_snoc_prefix_gate src₀ s.got x (s.q ++ s.fails ++ hand s.ppc ++ t) (by simpa [chold] using e)
    rw [this] at h1; exact Bool.noConfusion h1
  cases hx : x.isTerminal <;> (try simp only [↓reduceIte, Bool.false_eq_true]) <;> inv_auto

theorem inv_cons_td1 {cfg : Cfg} {src₀ : List (Notif α)} {s : St α} (h : Inv cfg src₀ s)
    (hpc : s.cpc = .td1) :
    Inv cfg src₀ { s.unsubUp cfg with cpc := .td2 } := by
  obtain ⟨hfifo, hflow, hroom, hfc, hopen, hwhole, hpre, honce, hcloses, hstops, hp, hc, ht, hterm, hhc, hhf,
    hec, hecut, heout, hedown, hop, hhd, hub, hde, hef, hnd⟩ := h
  unfold St.unsubUp
  cases hh : cfg.hot <;> (try simp only [↓reduceIte, Bool.false_eq_true]) <;> inv_auto

theorem inv_cons_td2 {cfg : Cfg} {src₀ : List (Notif α)} {s : St α} (h : Inv cfg src₀ s)
    (hpc : s.cpc = .td2) :
    Inv cfg src₀ { s.stop with cpc := .recv } := by
  obtain ⟨hfifo, hflow, hroom, hfc, hopen, hwhole, hpre, honce, hcloses, hstops, hp, hc, ht, hterm, hhc, hhf,
    hec, hecut, heout, hedown, hop, hhd, hub, hde, hef, hnd⟩ := h
  unfold St.stop
  cases ho : s.once <;> (try simp only [↓reduceIte, Bool.false_eq_true]) <;> inv_auto

/-! the unsubscribing thread -/

theorem inv_ctl_handout {cfg : Cfg} {src₀ : List (Notif α)} {s : St α} (h : Inv cfg src₀ s)
    (hpc : s.tpc = .handout) (hd : s.downOpen = true) :
    Inv cfg src₀ { s with handed := true, tpc := .cas } := by
  obtain ⟨hfifo, hflow, hroom, hfc, hopen, hwhole, hpre, honce, hcloses, hstops, hp, hc, ht, hterm, hhc, hhf,
    hec, hecut, heout, hedown, hop, hhd, hub, hde, hef, hnd⟩ := h
  inv_auto

theorem inv_ctl_handout' {cfg : Cfg} {src₀ : List (Notif α)} {s : St α} (h : Inv cfg src₀ s)
    (hpc : s.tpc = .handout) (hd : s.downOpen = false) :
    Inv cfg src₀ { s with handDropped := true, tpc := .cas } := by
  obtain ⟨hfifo, hflow, hroom, hfc, hopen, hwhole, hpre, honce, hcloses, hstops, hp, hc, ht, hterm, hhc, hhf,
    hec, hecut, heout, hedown, hop, hhd, hub, hde, hef, hnd⟩ := h
  inv_auto
  intro htc h0
  have h1 := hhd htc hpc hd
  have h2 := hub htc h0 (by simp_all)
  rw [h2] at h1; simp at h1

theorem inv_ctl_cas {cfg : Cfg} {src₀ : List (Notif α)} {s : St α} (h : Inv cfg src₀ s)
    (hpc : s.tpc = .cas) (_hd : s.downOpen = true) :
    Inv cfg src₀ { s with downOpen := false, tpc := .td1 } := by
  obtain ⟨hfifo, hflow, hroom, hfc, hopen, hwhole, hpre, honce, hcloses, hstops, hp, hc, ht, hterm, hhc, hhf,
    hec, hecut, heout, hedown, hop, hhd, hub, hde, hef, hnd⟩ := h
  inv_auto

theorem inv_ctl_cas' {cfg : Cfg} {src₀ : List (Notif α)} {s : St α} (h : Inv cfg src₀ s)
    (hpc : s.tpc = .cas) (hd : s.downOpen = false) :
    Inv cfg src₀ { s with tpc := .done } := by
  obtain ⟨hfifo, hflow, hroom, hfc, hopen, hwhole, hpre, honce, hcloses, hstops, hp, hc, ht, hterm, hhc, hhf,
    hec, hecut, heout, hedown, hop, hhd, hub, hde, hef, hnd⟩ := h
  inv_auto

theorem inv_ctl_td1 {cfg : Cfg} {src₀ : List (Notif α)} {s : St α} (h : Inv cfg src₀ s)
    (hpc : s.tpc = .td1) :
    Inv cfg src₀ { s.unsubUp cfg with tpc := .td2 } := by
  obtain ⟨hfifo, hflow, hroom, hfc, hopen, hwhole, hpre, honce, hcloses, hstops, hp, hc, ht, hterm, hhc, hhf,
    hec, hecut, heout, hedown, hop, hhd, hub, hde, hef, hnd⟩ := h
  unfold St.unsubUp
  cases hh : cfg.hot <;> (try simp only [↓reduceIte, Bool.false_eq_true]) <;> inv_auto

theorem inv_ctl_td2 {cfg : Cfg} {src₀ : List (Notif α)} {s : St α} (h : Inv cfg src₀ s)
    (hpc : s.tpc = .td2) :
    Inv cfg src₀ { s.stop with tpc := .done } := by
  obtain ⟨hfifo, hflow, hroom, hfc, hopen, hwhole, hpre, honce, hcloses, hstops, hp, hc, ht, hterm, hhc, hhf,
    hec, hecut, heout, hedown, hop, hhd, hub, hde, hef, hnd⟩ := h
  unfold St.stop
  cases ho : s.once <;> (try simp only [↓reduceIte, Bool.false_eq_true]) <;> inv_auto
  intro _
  have hf : s.fails = [] := by simp_all
  rw [hf]; cases s.ppc <;> simp

theorem inv_cons {cfg : Cfg} {src₀ : List (Notif α)} {s s' : St α} (h : Inv cfg src₀ s)
    (hs : stepCons cfg s = some s') : Inv cfg src₀ s' := by
  unfold stepCons at hs
  split at hs
  next hpc =>
    split at hs
    · simp at hs
    · split at hs
      next x q' hq => simp only [Option.some.injEq] at hs; subst hs; exact inv_cons_recv h x q' hpc hq
      next hq =>
        split at hs
        next hcl => simp only [Option.some.injEq] at hs; subst hs; exact inv_cons_exit h hpc hq hcl
        · simp at hs
  next x hpc =>
    split at hs
    next htc => simp only [Option.some.injEq] at hs; subst hs; exact inv_cons_read h x hpc htc
    next htc =>
      split at hs
      next hd => simp only [Option.some.injEq] at hs; subst hs; exact inv_cons_deliver h x hpc (by simpa using htc) hd
      next hd =>
        simp only [Option.some.injEq] at hs; subst hs
        exact inv_cons_dropped h x hpc (by simpa using htc) (by simpa using hd)
  next hpc => simp only [Option.some.injEq] at hs; subst hs; exact inv_cons_td1 h hpc
  next hpc => simp only [Option.some.injEq] at hs; subst hs; exact inv_cons_td2 h hpc
  next hpc => simp at hs

theorem inv_ctl {cfg : Cfg} {src₀ : List (Notif α)} {s s' : St α} (h : Inv cfg src₀ s)
    (hs : stepCtl cfg s = some s') : Inv cfg src₀ s' := by
  unfold stepCtl at hs
  split at hs
  next hpc =>
    split at hs
    next hd => simp only [Option.some.injEq] at hs; subst hs; exact inv_ctl_handout h hpc hd
    next hd => simp only [Option.some.injEq] at hs; subst hs; exact inv_ctl_handout' h hpc (by simpa using hd)
  next hpc =>
    split at hs
    next hd => simp only [Option.some.injEq] at hs; subst hs; exact inv_ctl_cas h hpc hd
    next hd => simp only [Option.some.injEq] at hs; subst hs; exact inv_ctl_cas' h hpc (by simpa using hd)
  next hpc => simp only [Option.some.injEq] at hs; subst hs; exact inv_ctl_td1 h hpc
  next hpc => simp only [Option.some.injEq] at hs; subst hs; exact inv_ctl_td2 h hpc
  next hpc => simp at hs

end Ro.Chan

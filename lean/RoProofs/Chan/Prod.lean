/-
  RoProofs.Chan.Prod — every step of the producer thread preserves `Inv`.
-/
import RoProofs.Chan.Inv
namespace Ro.Chan
open Ro
variable {α : Type}

theorem inv_prod_enter {cfg : Cfg} {src₀ : List (Notif α)} {s : St α} (h : Inv cfg src₀ s)
    (x : Notif α) (xs : List (Notif α)) (hpc : s.ppc = .idle) (hsrc : s.src = x :: xs) (hup : s.upOpen = true) :
    Inv cfg src₀ { s with src := xs, ppc := .send x, entered := s.entered ++ [x], upOpen := !x.isTerminal,
                          raised := s.raised || (cfg.upPanic && cfg.hot && x.isTerminal) } := by
  obtain ⟨hfifo, hflow, hroom, hfc, hopen, hwhole, hpre, honce, hcloses, hstops, hp, hc, ht, hterm, hhc, hhf,
    hec, hecut, heout, hedown, hop, hhd, hub, hde, hef, hnd⟩ := h
  cases hx : x.isTerminal <;> simp only [Bool.not_true, Bool.not_false] <;> inv_auto

theorem inv_prod_drop {cfg : Cfg} {src₀ : List (Notif α)} {s : St α} (h : Inv cfg src₀ s)
    (x : Notif α) (xs : List (Notif α)) (hpc : s.ppc = .idle) (_hsrc : s.src = x :: xs) (hup : s.upOpen = false) :
    Inv cfg src₀ { s with src := xs, dropsUp := s.dropsUp ++ [x] } := by
  obtain ⟨hfifo, hflow, hroom, hfc, hopen, hwhole, hpre, honce, hcloses, hstops, hp, hc, ht, hterm, hhc, hhf,
    hec, hecut, heout, hedown, hop, hhd, hub, hde, hef, hnd⟩ := h
  inv_auto

theorem inv_prod_fail {cfg : Cfg} {src₀ : List (Notif α)} {s : St α} (h : Inv cfg src₀ s)
    (x : Notif α) (hpc : s.ppc = .send x) (hcl : s.closed = true) :
    Inv cfg src₀ { s with ppc := .idle, fails := s.fails ++ [x] } := by
  obtain ⟨hfifo, hflow, hroom, hfc, hopen, hwhole, hpre, honce, hcloses, hstops, hp, hc, ht, hterm, hhc, hhf,
    hec, hecut, heout, hedown, hop, hhd, hub, hde, hef, hnd⟩ := h
  inv_auto

theorem inv_prod_enq {cfg : Cfg} {src₀ : List (Notif α)} {s : St α} (h : Inv cfg src₀ s)
    (x : Notif α) (hpc : s.ppc = .send x) (hcl : s.closed = false) (hq : s.q.length < cfg.cap) :
    Inv cfg src₀ { s with q := s.q ++ [x], sent := s.sent ++ [x], ppc := afterSend x } := by
  obtain ⟨hfifo, hflow, hroom, hfc, hopen, hwhole, hpre, honce, hcloses, hstops, hp, hc, ht, hterm, hhc, hhf,
    hec, hecut, heout, hedown, hop, hhd, hub, hde, hef, hnd⟩ := h
  unfold afterSend
  cases hx : x.isTerminal <;> (try simp only [↓reduceIte, Bool.false_eq_true]) <;> inv_auto

theorem inv_prod_rdv {cfg : Cfg} {src₀ : List (Notif α)} {s : St α} (h : Inv cfg src₀ s)
    (x : Notif α) (hpc : s.ppc = .send x) (hcl : s.closed = false) (hcp : s.cpc = .recv) (hq : s.q = [])
    (hh : (cfg.toChan && !s.handed) = false) :
    Inv cfg src₀ { s with cpc := .hold x, sent := s.sent ++ [x], ppc := afterSend x } := by
  obtain ⟨hfifo, hflow, hroom, hfc, hopen, hwhole, hpre, honce, hcloses, hstops, hp, hc, ht, hterm, hhc, hhf,
    hec, hecut, heout, hedown, hop, hhd, hub, hde, hef, hnd⟩ := h
  unfold afterSend
  cases hx : x.isTerminal <;> (try simp only [↓reduceIte, Bool.false_eq_true]) <;> inv_auto

theorem inv_prod_stop {cfg : Cfg} {src₀ : List (Notif α)} {s : St α} (h : Inv cfg src₀ s)
    (hpc : s.ppc = .stop) :
    Inv cfg src₀ { s.stop with ppc := if cfg.toChan then .complete else .idle } := by
  obtain ⟨hfifo, hflow, hroom, hfc, hopen, hwhole, hpre, honce, hcloses, hstops, hp, hc, ht, hterm, hhc, hhf,
    hec, hecut, heout, hedown, hop, hhd, hub, hde, hef, hnd⟩ := h
  unfold St.stop
  cases ho : s.once <;> cases htc : cfg.toChan <;> (try simp only [↓reduceIte, Bool.false_eq_true]) <;> inv_auto

theorem inv_prod_complete {cfg : Cfg} {src₀ : List (Notif α)} {s : St α} (h : Inv cfg src₀ s)
    (hpc : s.ppc = .complete) :
    Inv cfg src₀ { s with downOpen := false, destCompleted := true, ppc := .td1 } := by
  obtain ⟨hfifo, hflow, hroom, hfc, hopen, hwhole, hpre, honce, hcloses, hstops, hp, hc, ht, hterm, hhc, hhf,
    hec, hecut, heout, hedown, hop, hhd, hub, hde, hef, hnd⟩ := h
  inv_auto

theorem inv_prod_complete' {cfg : Cfg} {src₀ : List (Notif α)} {s : St α} (h : Inv cfg src₀ s)
    (hpc : s.ppc = .complete) :
    Inv cfg src₀ { s with ppc := .td1 } := by
  obtain ⟨hfifo, hflow, hroom, hfc, hopen, hwhole, hpre, honce, hcloses, hstops, hp, hc, ht, hterm, hhc, hhf,
    hec, hecut, heout, hedown, hop, hhd, hub, hde, hef, hnd⟩ := h
  inv_auto

theorem inv_prod_td1 {cfg : Cfg} {src₀ : List (Notif α)} {s : St α} (h : Inv cfg src₀ s)
    (hpc : s.ppc = .td1) :
    Inv cfg src₀ { s.unsubUp cfg with ppc := .td2 } := by
  obtain ⟨hfifo, hflow, hroom, hfc, hopen, hwhole, hpre, honce, hcloses, hstops, hp, hc, ht, hterm, hhc, hhf,
    hec, hecut, heout, hedown, hop, hhd, hub, hde, hef, hnd⟩ := h
  unfold St.unsubUp
  cases hh : cfg.hot <;> (try simp only [↓reduceIte, Bool.false_eq_true]) <;> inv_auto

theorem inv_prod_td2 {cfg : Cfg} {src₀ : List (Notif α)} {s : St α} (h : Inv cfg src₀ s)
    (hpc : s.ppc = .td2) :
    Inv cfg src₀ { s.stop with ppc := .idle } := by
  obtain ⟨hfifo, hflow, hroom, hfc, hopen, hwhole, hpre, honce, hcloses, hstops, hp, hc, ht, hterm, hhc, hhf,
    hec, hecut, heout, hedown, hop, hhd, hub, hde, hef, hnd⟩ := h
  unfold St.stop
  cases ho : s.once <;> (try simp only [↓reduceIte, Bool.false_eq_true]) <;> inv_auto

theorem inv_prod {cfg : Cfg} {src₀ : List (Notif α)} {s s' : St α} (h : Inv cfg src₀ s)
    (hs : stepProd cfg s = some s') : Inv cfg src₀ s' := by
  unfold stepProd at hs
  split at hs
  next hpc =>
    split at hs
    · simp at hs
    next x xs hsrc =>
      split at hs
      next hup => simp only [Option.some.injEq] at hs; subst hs; exact inv_prod_enter h x xs hpc hsrc hup
      next hup =>
        simp only [Option.some.injEq] at hs; subst hs
        exact inv_prod_drop h x xs hpc hsrc (by simpa using hup)
  next x hpc =>
    split at hs
    next hcl => simp only [Option.some.injEq] at hs; subst hs; exact inv_prod_fail h x hpc hcl
    next hcl =>
      split at hs
      next hq => simp only [Option.some.injEq] at hs; subst hs; exact inv_prod_enq h x hpc (by simpa using hcl) hq
      next hq =>
        split at hs
        next hcp hqe =>
          split at hs
          · simp at hs
          next hh =>
            simp only [Option.some.injEq] at hs; subst hs
            exact inv_prod_rdv h x hpc (by simpa using hcl) hcp hqe (by simpa using hh)
        · simp at hs
  next hpc => simp only [Option.some.injEq] at hs; subst hs; exact inv_prod_stop h hpc
  next hpc =>
    split at hs
    · simp only [Option.some.injEq] at hs; subst hs; exact inv_prod_complete h hpc
    · simp only [Option.some.injEq] at hs; subst hs; exact inv_prod_complete' h hpc
  next hpc => simp only [Option.some.injEq] at hs; subst hs; exact inv_prod_td1 h hpc
  next hpc => simp only [Option.some.injEq] at hs; subst hs; exact inv_prod_td2 h hpc

end Ro.Chan

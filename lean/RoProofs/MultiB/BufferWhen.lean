/-
  RoProofs.MultiB.BufferWhen — BufferWhen delivers the source's values partitioned at the boundary
  ticks, for every pair of scripts and every interleaving.
-/
import RoProofs.MultiB.Core
import RoModel.MultiB.BufferWhen
import RoModel.Spec.MultiB
namespace Ro.MultiB
open Spec
variable {α : Type}

theorem bufferWhen_allHot : AllHot (bufferWhenM (α := α)) where
  start_subs := rfl
  step_subs := by
    intro st i x
    cases x <;> rcases i with _ | i <;> rfl
  hot := rfl
  start_gated := rfl
  step_gated := by
    intro st i x
    cases x <;> rcases i with _ | i <;> rfl

/-- what the callbacks emit from buffer `buf` on -/
def bwFrom (buf : List α) : Arr α → List (Ev (List α))
  | [] => []
  | (i, .next v) :: r => if i = 0 then bwFrom (buf ++ [v]) r else .next buf :: bwFrom [] r
  | (_, .error e) :: _ => [.error e]
  | (_, .complete) :: _ => [.next buf, .complete]

theorem bufferWhen_abs_running (arr : Arr α) (a : Acc (List α) (List α)) (hrun : a.running = true) :
    (arr.foldl (bufferWhenM (α := α)).absStep a).out = a.out ++ bwFrom a.st arr := by
  induction arr generalizing a with
  | nil => simp [bwFrom]
  | cons p r ih =>
    obtain ⟨i, x⟩ := p
    simp only [List.foldl_cons]
    cases x with
    | next v =>
      by_cases hi : i = 0
      · subst hi
        have hstep : (bufferWhenM (α := α)).absStep a (0, .next v) = { st := a.st ++ [v], out := a.out, running := true } := by
          simp [Machine.absStep, hrun, bufferWhenM, bufferWhenStep, hasTerm]
        rw [hstep, ih _ rfl]
        simp [bwFrom]
      · have hstep : (bufferWhenM (α := α)).absStep a (i, .next v) = { st := [], out := a.out ++ [.next a.st], running := true } := by
          rcases i with _ | i
          · exact absurd rfl hi
          · simp [Machine.absStep, hrun, bufferWhenM, bufferWhenStep, hasTerm]
        rw [hstep, ih _ rfl]
        simp [bwFrom, hi]
    | error e =>
      have hstep : (bufferWhenM (α := α)).absStep a (i, .error e) = { st := a.st, out := a.out ++ [.error e], running := false } := by
        rcases i with _ | i <;> simp [Machine.absStep, hrun, bufferWhenM, bufferWhenStep, hasTerm]
      rw [hstep]
      rw [abs_stopped_out _ _ _ rfl]
      simp [bwFrom]
    | complete =>
      have hstep : (bufferWhenM (α := α)).absStep a (i, .complete) = { st := [], out := a.out ++ [.next a.st, .complete], running := false } := by
        rcases i with _ | i <;> simp [Machine.absStep, hrun, bufferWhenM, bufferWhenStep, hasTerm]
      rw [hstep]
      rw [abs_stopped_out _ _ _ rfl]
      simp [bwFrom]

theorem segments_ne_nil (l : Arr α) : segments l ≠ [] := by
  induction l with
  | nil => simp [segments]
  | cons p r ih =>
    obtain ⟨i, x⟩ := p
    cases x with
    | next v =>
      simp only [segments]
      split
      · split <;> simp
      · simp
    | error e => simpa [segments] using ih
    | complete => simpa [segments] using ih

/-- the segments with `buf` put in front of the first one -/
def segmentsWith (buf : List α) (l : Arr α) : List (List α) :=
  match segments l with
  | s :: ss => (buf ++ s) :: ss
  | [] => [buf]

theorem segmentsWith_nil (l : Arr α) : segmentsWith [] l = segments l := by
  unfold segmentsWith
  split
  · rename_i s ss h; simp [h]
  · rename_i h; exact absurd h (segments_ne_nil l)

theorem bwFrom_eq (buf : List α) (arr : Arr α) :
    bwFrom buf arr =
      match stop arr with
      | none => (segmentsWith buf (body arr)).dropLast.map .next
      | some (.error e) => (segmentsWith buf (body arr)).dropLast.map .next ++ [.error e]
      | some _ => (segmentsWith buf (body arr)).map .next ++ [.complete] := by
  induction arr generalizing buf with
  | nil => simp [bwFrom, stop, body, segmentsWith, segments]
  | cons p r ih =>
    obtain ⟨i, x⟩ := p
    cases x with
    | next v =>
      have hb : body ((i, Ev.next v) :: r) = (i, .next v) :: body r := by simp [body]
      have hs : stop ((i, Ev.next v) :: r) = stop r := by simp [stop]
      rw [hb, hs]
      by_cases hi : i = 0
      · subst hi
        have hseg : segmentsWith buf ((0, Ev.next v) :: body r) = segmentsWith (buf ++ [v]) (body r) := by
          unfold segmentsWith
          simp only [segments, if_true]
          cases hsg : segments (body r) with
          | nil => exact absurd hsg (segments_ne_nil _)
          | cons s ss => simp
        rw [hseg]
        simp only [bwFrom, if_true]
        exact ih (buf ++ [v])
      · have hseg : segmentsWith buf ((i, Ev.next v) :: body r) = buf :: segments (body r) := by
          unfold segmentsWith
          simp [segments, hi]
        rw [hseg]
        simp only [bwFrom, hi, if_false]
        rw [ih [], segmentsWith_nil]
        have hne := segments_ne_nil (body r)
        cases hst : stop r with
        | none => simp [List.dropLast_cons_of_ne_nil hne]
        | some t =>
          cases t with
          | next w => simp
          | error e => simp [List.dropLast_cons_of_ne_nil hne]
          | complete => simp
    | error e => simp [bwFrom, stop, body, segmentsWith, segments, List.find?, List.takeWhile]
    | complete => simp [bwFrom, stop, body, segmentsWith, segments, List.find?, List.takeWhile]

/-- **BufferWhen = Spec.bufferWhen**, for every pair of source scripts and every interleaving. -/
theorem bufferWhen_spec (scripts : List (List (Ev α))) (hlen : scripts.length ≤ 2) (order : List Nat) :
    (run bufferWhenM scripts order).out = Spec.bufferWhen (arrivals (scriptsFn scripts) order) := by
  rw [run_out_abs bufferWhenM bufferWhen_allHot scripts hlen order]
  unfold Machine.abs
  rw [bufferWhen_abs_running _ _ rfl]
  show [] ++ bwFrom [] _ = _
  rw [List.nil_append, bwFrom_eq, segmentsWith_nil]
  rfl

end Ro.MultiB

/-
  RoProofs.MultiB.GroupBy — GroupBy delivers one substream per key, in order of first occurrence,
  each carrying the values of its key and ending the way the source ends — on the inputs outside the
  two known deviations (`Known.groupByLate`, `Known.groupByErrorCompletesGroups`), which are
  witnessed below.
-/
import RoProofs.MultiB.Core
import RoModel.MultiB.GroupBy
import RoModel.Spec.MultiB
namespace Ro.MultiB
open Spec
variable {α κ : Type}

theorem groupBy_allHot [DecidableEq κ] (key : α → Nat → κ) (delay : Nat) : AllHot (groupByM key delay) where
  start_subs := rfl
  step_subs := by
    intro st i x
    cases x with
    | next v =>
      simp only [groupByM, groupByStep]
      split
      · split <;> rfl
      · split <;> rfl
    | error e => rfl
    | complete => rfl
  hot := rfl
  start_gated := rfl
  step_gated := by
    intro st i x
    cases x with
    | next v =>
      simp only [groupByM, groupByStep]
      split
      · split <;> rfl
      · split <;> rfl
    | error e => rfl
    | complete => rfl

namespace GroupByProof

/-! ### `Spec.distinct` -/

theorem distinct_snoc [DecidableEq κ] (ks : List κ) (k : κ) :
    distinct (ks ++ [k]) = if (distinct ks).contains k then distinct ks else distinct ks ++ [k] := by
  simp [distinct, List.foldl_append]

theorem gb_foldl_distinct_mem [DecidableEq κ] (l acc : List κ) (k : κ) :
    k ∈ l.foldl (fun acc k => if acc.contains k then acc else acc ++ [k]) acc ↔ k ∈ acc ∨ k ∈ l := by
  induction l generalizing acc with
  | nil => simp
  | cons x l ih =>
    simp only [List.foldl_cons]
    rw [ih]
    by_cases hx : x ∈ acc
    · have hc : acc.contains x = true := by simpa using hx
      simp only [hc, if_true, List.mem_cons]
      constructor
      · rintro (h | h)
        · exact Or.inl h
        · exact Or.inr (Or.inr h)
      · rintro (h | h | h)
        · exact Or.inl h
        · subst h; exact Or.inl hx
        · exact Or.inr h
    · have hc : acc.contains x = false := by simpa using hx
      simp only [hc, Bool.false_eq_true, if_false, List.mem_append, List.mem_cons, List.not_mem_nil, or_false]
      constructor
      · rintro ((h | h) | h)
        · exact Or.inl h
        · exact Or.inr (Or.inl h)
        · exact Or.inr (Or.inr h)
      · rintro (h | h | h)
        · exact Or.inl (Or.inl h)
        · exact Or.inl (Or.inr h)
        · exact Or.inr h

theorem mem_distinct [DecidableEq κ] (l : List κ) (k : κ) : k ∈ distinct l ↔ k ∈ l := by
  unfold distinct
  rw [gb_foldl_distinct_mem]
  simp

theorem gb_foldl_distinct_nodup [DecidableEq κ] (l acc : List κ) (h : acc.Nodup) :
    (l.foldl (fun acc k => if acc.contains k then acc else acc ++ [k]) acc).Nodup := by
  induction l generalizing acc with
  | nil => simpa using h
  | cons x l ih =>
    simp only [List.foldl_cons]
    apply ih
    by_cases hx : x ∈ acc
    · have hc : acc.contains x = true := by simpa using hx
      simpa only [hc, if_true] using h
    · have hc : acc.contains x = false := by simpa using hx
      simp only [hc, Bool.false_eq_true, if_false]
      rw [List.nodup_append]
      refine ⟨h, by simp, ?_⟩
      intro a ha b hb
      simp only [List.mem_singleton] at hb
      subst hb
      intro hab; subst hab; exact hx ha

theorem distinct_nodup [DecidableEq κ] (l : List κ) : (distinct l).Nodup :=
  gb_foldl_distinct_nodup l [] (by simp)

/-! ### lists -/

theorem modAt_getElem? {γ : Type} (l : List γ) (k : Nat) (f : γ → γ) (i : Nat) :
    (modAt l k f)[i]? = if i = k then l[i]?.map f else l[i]? := by
  unfold modAt
  cases h : l[k]? with
  | none =>
    simp only []
    by_cases hik : i = k
    · subst hik; simp [h]
    · simp [hik]
  | some x =>
    simp only []
    rw [List.getElem?_set]
    by_cases hik : i = k
    · subst hik
      have hlt : i < l.length := by
        rcases Nat.lt_or_ge i l.length with hc | hc
        · exact hc
        · rw [List.getElem?_eq_none hc] at h; cases h
      simp only [if_true, hlt, h, Option.map_some]
    · have : ¬ k = i := fun hc => hik hc.symm
      simp [hik, this]

theorem foldl_modAt_getElem? {γ : Type} (f : γ → γ) (D : List Nat) (hD : D.Nodup) (l : List γ) (i : Nat) :
    (D.foldl (fun gs g => modAt gs g f) l)[i]? = if i ∈ D then l[i]?.map f else l[i]? := by
  induction D generalizing l with
  | nil => simp
  | cons d D ih =>
    rw [List.nodup_cons] at hD
    simp only [List.foldl_cons]
    rw [ih hD.2, modAt_getElem?]
    by_cases hid : i = d
    · subst hid
      simp [hD.1]
    · simp [hid]

theorem fst_unique {β γ : Type} (l : List (β × γ)) (h : (l.map (·.1)).Nodup) (a : β) (b c : γ)
    (hb : (a, b) ∈ l) (hc : (a, c) ∈ l) : b = c := by
  induction l with
  | nil => cases hb
  | cons x l ih =>
    simp only [List.map_cons, List.nodup_cons] at h
    rcases List.mem_cons.1 hb with hb' | hb' <;> rcases List.mem_cons.1 hc with hc' | hc'
    · rw [← hb'] at hc'; exact (Prod.mk.inj hc').2.symm
    · exfalso; apply h.1; rw [← hb']; exact List.mem_map.2 ⟨_, hc', rfl⟩
    · exfalso; apply h.1; rw [← hc']; exact List.mem_map.2 ⟨_, hb', rfl⟩
    · exact ih h.2 hb' hc'

/-! ### the arrivals of a single source -/

def oneSrc (vs : List α) (t : Option (Ev α)) : Arr α :=
  vs.map (fun v => (0, Ev.next v)) ++ t.toList.map (fun x => (0, x))

theorem arrivals_empty (rest : Nat → List (Ev α)) (h : ∀ i, rest i = []) (order : List Nat) :
    arrivals rest order = [] := by
  induction order with
  | nil => rfl
  | cons i os ih => simp [arrivals, h i, ih]

theorem arrivals_single (rest : Nat → List (Ev α)) (h : ∀ i, 1 ≤ i → rest i = []) (order : List Nat) :
    ∃ vs t, arrivals rest order = oneSrc vs t ∧ ∀ x, t = some x → x.isTerminal = true := by
  induction order generalizing rest with
  | nil => exact ⟨[], none, rfl, by intro x hx; cases hx⟩
  | cons i os ih =>
    cases hr : rest i with
    | nil =>
      have : arrivals rest (i :: os) = arrivals rest os := by simp [arrivals, hr]
      rw [this]; exact ih rest h
    | cons x r =>
      have hi : i = 0 := by
        rcases Nat.eq_zero_or_pos i with h0 | h0
        · exact h0
        · rw [h i h0] at hr; cases hr
      subst hi
      have : arrivals rest (0 :: os) = (0, x) :: arrivals (upd rest 0 (if x.isTerminal then [] else r)) os := by
        simp [arrivals, hr]
      rw [this]
      cases hx : x.isTerminal
      · have h' : ∀ i, 1 ≤ i → upd rest 0 (if false = true then [] else r) i = [] := by
          intro j hj
          rw [upd_other _ _ _ _ (by omega)]; exact h j hj
        obtain ⟨vs, t, h1, h2⟩ := ih _ h'
        cases x with
        | next v => exact ⟨v :: vs, t, by rw [h1]; rfl, h2⟩
        | error e => cases hx
        | complete => cases hx
      · have h' : ∀ i, upd rest 0 (if true = true then [] else r) i = [] := by
          intro j
          by_cases hj : j = 0
          · subst hj; simp
          · rw [upd_other _ _ _ _ hj]; exact h j (by omega)
        rw [arrivals_empty _ h']
        exact ⟨[], some x, rfl, by intro y hy; cases hy; exact hx⟩

theorem scriptsFn_single (scripts : List (List (Ev α))) (hlen : scripts.length ≤ 1) (i : Nat) (hi : 1 ≤ i) :
    scriptsFn scripts i = [] := by
  simp [scriptsFn, List.getD, List.getElem?_eq_none (by omega : scripts.length ≤ i)]

theorem body_oneSrc (vs : List α) (t : Option (Ev α)) (ht : ∀ x, t = some x → x.isTerminal = true) :
    body (oneSrc vs t) = vs.map (fun v => (0, Ev.next v)) := by
  induction vs with
  | nil =>
    cases t with
    | none => rfl
    | some x => simp [oneSrc, body, ht x rfl]
  | cons v vs ih =>
    have : oneSrc (v :: vs) t = (0, Ev.next v) :: oneSrc vs t := rfl
    rw [this]
    simp only [body] at ih ⊢
    simp [ih]

theorem stop_oneSrc (vs : List α) (t : Option (Ev α)) (ht : ∀ x, t = some x → x.isTerminal = true) :
    stop (oneSrc vs t) = t := by
  induction vs with
  | nil =>
    cases t with
    | none => rfl
    | some x => simp [oneSrc, stop, ht x rfl]
  | cons v vs ih =>
    have : oneSrc (v :: vs) t = (0, Ev.next v) :: oneSrc vs t := rfl
    rw [this]
    simp only [stop] at ih ⊢
    simp [ih]

theorem valsOf_values (vs : List α) : valsOf 0 (vs.map (fun v => ((0 : Nat), Ev.next v))) = vs := by
  induction vs with
  | nil => rfl
  | cons v vs ih =>
    have : valsOf 0 ((v :: vs).map (fun v => ((0 : Nat), Ev.next v))) = v :: valsOf 0 (vs.map (fun v => ((0 : Nat), Ev.next v))) := rfl
    rw [this, ih]

/-! ### the invariant of the callbacks -/

/-- the values of key `k` -/
def gvals [DecidableEq κ] (kv : List (κ × α)) (k : κ) : List (Ev α) :=
  (kv.filter (fun p => p.1 == k)).map (fun p => Ev.next p.2)

theorem gvals_snoc [DecidableEq κ] (kv : List (κ × α)) (k k' : κ) (v : α) :
    gvals (kv ++ [(k, v)]) k' = gvals kv k' ++ (if k = k' then [Ev.next v] else []) := by
  unfold gvals
  by_cases h : k = k'
  · simp [List.filter_append, h]
  · simp [List.filter_append, h]

theorem gvals_absent [DecidableEq κ] (kv : List (κ × α)) (k : κ) (h : k ∉ kv.map (·.1)) : gvals kv k = [] := by
  unfold gvals
  rw [List.map_eq_nil_iff, List.filter_eq_nil_iff]
  intro p hp hpk
  apply h
  have : p.1 = k := by simpa using hpk
  rw [← this]; exact List.mem_map.2 ⟨p, hp, rfl⟩

/-- group number `i`, with the unsubscribed recorders `P` -/
structure GOk [DecidableEq κ] (kv : List (κ × α)) (P : List Nat) (i : Nat) (p : κ × Subj α) : Prop where
  active : p.2.status = .active
  vals : p.2.rcv ++ p.2.queue.map .next = gvals kv p.1
  pend : i ∈ P → p.2.attached = false
  att : i ∉ P → p.2.attached = true ∧ p.2.queue = []

structure GInv [DecidableEq κ] (s : GroupSt α κ) (kv : List (κ × α)) : Prop where
  mapped : s.mapped = true
  idx : s.idx = kv.length
  keys : s.groups.map (·.1) = distinct (kv.map (·.1))
  nodup : (s.pending.map (·.1)).Nodup
  bound : ∀ g, g ∈ s.pending.map (·.1) → g < s.groups.length
  ok : ∀ i p, s.groups[i]? = some p → GOk kv (s.pending.map (·.1)) i p

theorem subj_next_ok [DecidableEq κ] (kv : List (κ × α)) (P : List Nat) (i : Nat) (k : κ) (sj : Subj α) (v : α)
    (h : GOk kv P i (k, sj)) : GOk (kv ++ [(k, v)]) P i (k, (sj.next v).1) := by
  have ha := h.active
  simp only at ha
  by_cases hi : i ∈ P
  · have hat : sj.attached = false := h.pend hi
    have hn : (sj.next v).1 = { sj with queue := sj.queue ++ [v] } := by simp [Subj.next, ha, hat]
    rw [hn]
    refine ⟨ha, ?_, fun _ => hat, fun h' => absurd hi h'⟩
    have := h.vals
    simp only at this
    simp only [gvals_snoc, if_true, List.map_append, List.map_cons, List.map_nil, ← this, List.append_assoc]
  · have hat := h.att hi
    simp only at hat
    have hn : (sj.next v).1 = { sj with rcv := sj.rcv ++ [.next v] } := by simp [Subj.next, ha, hat.1]
    rw [hn]
    refine ⟨ha, ?_, fun h' => absurd h' hi, fun _ => hat⟩
    have := h.vals
    simp only [hat.2, List.map_nil, List.append_nil] at this
    simp only [gvals_snoc, if_true, hat.2, List.map_nil, List.append_nil, this]

theorem other_ok [DecidableEq κ] (kv : List (κ × α)) (P : List Nat) (i : Nat) (k : κ) (p : κ × Subj α) (v : α)
    (h : GOk kv P i p) (hk : p.1 ≠ k) : GOk (kv ++ [(k, v)]) P i p := by
  refine ⟨h.active, ?_, h.pend, h.att⟩
  have : ¬ k = p.1 := fun hc => hk hc.symm
  rw [gvals_snoc, if_neg this, List.append_nil]; exact h.vals

theorem findKey_none [DecidableEq κ] (gs : List (κ × Subj α)) (k : κ) (h : findKey gs k = none) :
    k ∉ gs.map (·.1) := by
  unfold findKey at h
  rw [List.findIdx?_eq_none_iff] at h
  intro hk
  obtain ⟨p, hp, hpk⟩ := List.mem_map.1 hk
  have := h p hp
  simp [hpk] at this

theorem findKey_some [DecidableEq κ] (gs : List (κ × Subj α)) (k : κ) (g : Nat) (h : findKey gs k = some g) :
    ∃ p, gs[g]? = some p ∧ p.1 = k := by
  unfold findKey at h
  rw [List.findIdx?_eq_some_iff_getElem] at h
  obtain ⟨hlt, hp, _⟩ := h
  exact ⟨gs[g], by simp [hlt], by simpa using hp⟩

theorem keys_inj (gs : List (κ × Subj α)) (hn : (gs.map (·.1)).Nodup) (i j : Nat) (p q : κ × Subj α)
    (hp : gs[i]? = some p) (hq : gs[j]? = some q) (hk : p.1 = q.1) : i = j := by
  have hi : i < gs.length := by
    rcases Nat.lt_or_ge i gs.length with hc | hc
    · exact hc
    · rw [List.getElem?_eq_none hc] at hp; cases hp
  have hj : j < gs.length := by
    rcases Nat.lt_or_ge j gs.length with hc | hc
    · exact hc
    · rw [List.getElem?_eq_none hc] at hq; cases hq
  rw [List.getElem?_eq_getElem hi] at hp
  rw [List.getElem?_eq_getElem hj] at hq
  cases hp; cases hq
  unfold List.Nodup at hn
  rw [List.pairwise_iff_getElem] at hn
  rcases Nat.lt_trichotomy i j with hlt | heq | hgt
  · have := hn i j (by simpa using hi) (by simpa using hj) hlt
    rw [List.getElem_map, List.getElem_map] at this
    exact absurd hk this
  · exact heq
  · have := hn j i (by simpa using hj) (by simpa using hi) hgt
    rw [List.getElem_map, List.getElem_map] at this
    exact absurd hk.symm this


theorem GOk.congrP [DecidableEq κ] {kv : List (κ × α)} {P P' : List Nat} {i : Nat} {p : κ × Subj α}
    (h : GOk kv P i p) (hP : i ∈ P' ↔ i ∈ P) : GOk kv P' i p :=
  ⟨h.active, h.vals, fun hi => h.pend (hP.1 hi), fun hi => h.att (fun hc => hi (hP.2 hc))⟩

theorem getElem?_lt {γ : Type} (l : List γ) (i : Nat) (x : γ) (h : l[i]? = some x) : i < l.length := by
  rcases Nat.lt_or_ge i l.length with hc | hc
  · exact hc
  · rw [List.getElem?_eq_none hc] at h; cases h

theorem map_fst_set (gs : List (κ × Subj α)) (g : Nat) (p : κ × Subj α) (x : Subj α) (hg : gs[g]? = some p) :
    (gs.set g (p.1, x)).map (·.1) = gs.map (·.1) := by
  apply List.ext_getElem?
  intro i
  rw [List.getElem?_map, List.getElem?_set, List.getElem?_map]
  by_cases hgi : g = i
  · subst hgi
    have hlt := getElem?_lt _ _ _ hg
    rw [List.getElem?_eq_getElem hlt] at hg
    cases hg
    simp [hlt]
  · simp [hgi]

theorem step_next_inv [DecidableEq κ] (key : α → Nat → κ) (delay : Nat) (s : GroupSt α κ) (kv : List (κ × α))
    (h : GInv s kv) (i : Nat) (v : α) :
    GInv (groupByStep key delay s i (.next v)).st (kv ++ [(key v kv.length, v)]) ∧
    (List.range s.groups.length).map Ev.next ++ (groupByStep key delay s i (.next v)).emits
      = (List.range (groupByStep key delay s i (.next v)).st.groups.length).map Ev.next ∧
    (groupByStep key delay s i (.next v)).unsubAll = false ∧
    hasTerm (groupByStep key delay s i (.next v)).emits = false ∧
    (delay ≤ 1 → s.pending = [] → (groupTick (groupByStep key delay s i (.next v)).st).pending = []) := by
  rw [← h.idx]
  generalize hk : key v s.idx = k
  cases hf : findKey s.groups k with
  | none =>
    have hnk := findKey_none _ _ hf
    have hnk' : k ∉ kv.map (·.1) := by
      rw [h.keys, mem_distinct] at hnk; exact hnk
    have hcont : (distinct (kv.map (·.1))).contains k = false := by
      rw [← h.keys]; simpa using hnk
    have hkeys : ∀ x : Subj α, (s.groups ++ [(k, x)]).map (·.1) = distinct ((kv ++ [(k, v)]).map (·.1)) := by
      intro x
      simp only [List.map_append, List.map_cons, List.map_nil]
      rw [distinct_snoc, hcont, h.keys]; rfl
    have hlen : ¬ s.groups.length ∈ s.pending.map (·.1) := fun hc => Nat.lt_irrefl _ (h.bound _ hc)
    have hold : ∀ j p, j < s.groups.length → s.groups[j]? = some p → GOk (kv ++ [(k, v)]) (s.pending.map (·.1)) j p := by
      intro j p _ hp
      apply other_ok _ _ _ _ _ _ (h.ok j p hp)
      intro hc; apply hnk; rw [← hc]
      exact List.mem_map.2 ⟨p, List.mem_of_getElem? hp, rfl⟩
    by_cases hd : delay = 0
    · have he : groupByStep key delay s i (.next v) =
          { st := { s with idx := s.idx + 1, groups := s.groups ++ [(k, { attached := true, rcv := [.next v] })] },
            emits := [.next s.groups.length] } := by
        simp [groupByStep, h.mapped, hk, hf, hd, Subj.next, Subj.subscribe]
      rw [he]
      refine ⟨⟨h.mapped, by simp [h.idx], hkeys _, h.nodup, ?_, ?_⟩, by simp [List.range_succ], rfl, rfl, ?_⟩
      · intro g hg; simp only [List.length_append, List.length_singleton]; exact Nat.lt_succ_of_lt (h.bound g hg)
      · intro j p hp
        simp only at hp
        rcases Nat.lt_trichotomy j s.groups.length with hlt | heq | hgt
        · rw [List.getElem?_append_left hlt] at hp
          exact hold j p hlt hp
        · subst heq
          simp only [List.getElem?_append_right (Nat.le_refl _), Nat.sub_self, List.getElem?_cons_zero, Option.some.injEq] at hp
          subst hp
          refine ⟨rfl, ?_, fun hc => absurd hc hlen, fun _ => ⟨rfl, rfl⟩⟩
          simp [gvals_snoc, gvals_absent kv k hnk']
        · rw [List.getElem?_eq_none (by simp; omega)] at hp; cases hp
      · intro _ hp; simp [groupTick, hp]
    · have he : groupByStep key delay s i (.next v) =
          { st := { s with idx := s.idx + 1, groups := s.groups ++ [(k, { queue := [v] })],
                           pending := s.pending ++ [(s.groups.length, delay)] },
            emits := [.next s.groups.length] } := by
        simp [groupByStep, h.mapped, hk, hf, hd, Subj.next]
      rw [he]
      refine ⟨⟨h.mapped, by simp [h.idx], hkeys _, ?_, ?_, ?_⟩, by simp [List.range_succ], rfl, rfl, ?_⟩
      · simp only [List.map_append, List.map_cons, List.map_nil]
        rw [List.nodup_append]
        refine ⟨h.nodup, by simp, ?_⟩
        intro a ha b hb hab
        simp only [List.mem_singleton] at hb
        subst hb; subst hab; exact hlen ha
      · intro g hg
        simp only [List.map_append, List.map_cons, List.map_nil, List.mem_append, List.mem_singleton] at hg
        simp only [List.length_append, List.length_singleton]
        rcases hg with hg | hg
        · exact Nat.lt_succ_of_lt (h.bound g hg)
        · omega
      · intro j p hp
        simp only at hp
        simp only [List.map_append, List.map_cons, List.map_nil]
        rcases Nat.lt_trichotomy j s.groups.length with hlt | heq | hgt
        · rw [List.getElem?_append_left hlt] at hp
          refine (hold j p hlt hp).congrP ?_
          simp only [List.mem_append, List.mem_singleton]
          constructor
          · rintro (hc | hc)
            · exact hc
            · omega
          · exact Or.inl
        · subst heq
          simp only [List.getElem?_append_right (Nat.le_refl _), Nat.sub_self, List.getElem?_cons_zero, Option.some.injEq] at hp
          subst hp
          refine ⟨rfl, ?_, fun _ => rfl, fun hc => absurd (by simp) hc⟩
          simp [gvals_snoc, gvals_absent kv k hnk']
        · rw [List.getElem?_eq_none (by simp; omega)] at hp; cases hp
      · intro hd1 hp
        have : delay = 1 := by omega
        subst this
        simp [groupTick, hp]
  | some g =>
    obtain ⟨p, hg, hpk⟩ := findKey_some _ _ _ hf
    have he : groupByStep key delay s i (.next v) =
        { st := { s with idx := s.idx + 1, groups := s.groups.set g (p.1, (p.2.next v).1) }, sdrops := (p.2.next v).2 } := by
      simp [groupByStep, h.mapped, hk, hf, hg]
    rw [he]
    have hmem : k ∈ distinct (kv.map (·.1)) := by
      rw [← h.keys, ← hpk]; exact List.mem_map.2 ⟨p, List.mem_of_getElem? hg, rfl⟩
    have hcont : (distinct (kv.map (·.1))).contains k = true := by simpa using hmem
    refine ⟨⟨h.mapped, by simp [h.idx], ?_, h.nodup, ?_, ?_⟩, by simp, rfl, rfl, ?_⟩
    · simp only
      rw [map_fst_set _ _ _ _ hg]
      simp only [List.map_append, List.map_cons, List.map_nil]
      rw [distinct_snoc, hcont, h.keys]; rfl
    · intro g' hg'; simp only [List.length_set]; exact h.bound g' hg'
    · intro j q hq
      simp only [List.getElem?_set] at hq
      by_cases hgj : g = j
      · subst hgj
        simp only [if_true, getElem?_lt _ _ _ hg, Option.some.injEq] at hq
        subst hq
        have := h.ok g p hg
        rw [← hpk]
        exact subj_next_ok kv _ g p.1 p.2 v this
      · simp only [hgj, if_false] at hq
        apply other_ok _ _ _ _ _ _ (h.ok j q hq)
        intro hc
        apply hgj
        have hn : (s.groups.map (·.1)).Nodup := by rw [h.keys]; exact distinct_nodup _
        exact keys_inj s.groups hn g j p q hg hq (by rw [hpk, hc])
    · intro _ hp; simp [groupTick, hp]


/-- the recorders `due` subscribe; `pend'` stay pending -/
theorem ginv_subscribe [DecidableEq κ] (s : GroupSt α κ) (kv : List (κ × α)) (h : GInv s kv)
    (due : List Nat) (pend' : List (Nat × Nat)) (hdue : due.Nodup) (hP' : (pend'.map (·.1)).Nodup)
    (hsplit : ∀ i, i ∈ s.pending.map (·.1) ↔ (i ∈ due ∨ i ∈ pend'.map (·.1)))
    (hdisj : ∀ i, i ∈ due → i ∉ pend'.map (·.1)) :
    GInv { s with pending := pend',
                  groups := due.foldl (fun gs g => modAt gs g (fun q => (q.1, q.2.subscribe))) s.groups } kv := by
  have hget := foldl_modAt_getElem? (fun q : κ × Subj α => (q.1, q.2.subscribe)) due hdue s.groups
  have hkeys : (due.foldl (fun gs g => modAt gs g (fun q : κ × Subj α => (q.1, q.2.subscribe))) s.groups).map (·.1)
      = s.groups.map (·.1) := by
    apply List.ext_getElem?
    intro i
    rw [List.getElem?_map, List.getElem?_map, hget]
    split
    · cases s.groups[i]? <;> rfl
    · rfl
  have hlen : (due.foldl (fun gs g => modAt gs g (fun q : κ × Subj α => (q.1, q.2.subscribe))) s.groups).length
      = s.groups.length := by
    have := congrArg List.length hkeys
    simpa using this
  refine ⟨h.mapped, h.idx, hkeys.trans h.keys, hP', ?_, ?_⟩
  · intro g hg
    simp only at hg ⊢
    rw [hlen]
    exact h.bound g ((hsplit g).2 (Or.inr hg))
  · intro i p hp
    simp only at hp ⊢
    rw [hget] at hp
    by_cases hi : i ∈ due
    · simp only [hi, if_true] at hp
      cases hq : s.groups[i]? with
      | none => rw [hq] at hp; cases hp
      | some q =>
        rw [hq] at hp
        simp only [Option.map_some, Option.some.injEq] at hp
        subst hp
        have hok := h.ok i q hq
        have hat := hok.pend ((hsplit i).2 (Or.inl hi))
        have hn : q.2.subscribe = { q.2 with rcv := q.2.rcv ++ q.2.queue.map .next, queue := [], attached := true } := by
          simp [Subj.subscribe, hok.active, hat]
        simp only [hn]
        refine ⟨hok.active, ?_, fun hc => absurd hc (hdisj i hi), fun _ => ⟨rfl, rfl⟩⟩
        simpa using hok.vals
    · simp only [hi, if_false] at hp
      refine (h.ok i p hp).congrP ?_
      rw [hsplit i]
      constructor
      · exact Or.inr
      · rintro (hc | hc)
        · exact absurd hc hi
        · exact hc

theorem groupTick_inv [DecidableEq κ] (s : GroupSt α κ) (kv : List (κ × α)) (h : GInv s kv) : GInv (groupTick s) kv := by
  unfold groupTick
  have hfst : (s.pending.map (fun x => (x.1, x.2 - 1))).map (·.1) = s.pending.map (·.1) := by
    simp [List.map_map, Function.comp_def]
  have hnd : ((s.pending.map (fun x => (x.1, x.2 - 1))).map (·.1)).Nodup := by rw [hfst]; exact h.nodup
  apply ginv_subscribe s kv h
  · exact List.Nodup.sublist (List.Sublist.map _ List.filter_sublist) hnd
  · exact List.Nodup.sublist (List.Sublist.map _ List.filter_sublist) hnd
  · intro i
    rw [← hfst]
    simp only [List.mem_map, List.mem_filter]
    constructor
    · rintro ⟨x, hx, rfl⟩
      by_cases hz : x.2 = 0
      · exact Or.inl ⟨x, ⟨hx, by simp [hz]⟩, rfl⟩
      · exact Or.inr ⟨x, ⟨hx, by simp [hz]⟩, rfl⟩
    · rintro (⟨x, ⟨hx, _⟩, rfl⟩ | ⟨x, ⟨hx, _⟩, rfl⟩)
      · exact ⟨x, hx, rfl⟩
      · exact ⟨x, hx, rfl⟩
  · intro i hi hi'
    obtain ⟨x, hx, rfl⟩ := List.mem_map.1 hi
    obtain ⟨y, hy, hxy⟩ := List.mem_map.1 hi'
    rw [List.mem_filter] at hx hy
    have := fst_unique _ hnd x.1 x.2 y.2 hx.1 (by rw [← hxy]; exact hy.1)
    have hx0 := hx.2
    have hy0 := hy.2
    rw [this] at hx0
    simp only [beq_iff_eq] at hx0
    simp [hx0] at hy0

theorem groupFinish_inv [DecidableEq κ] (s : GroupSt α κ) (kv : List (κ × α)) (h : GInv s kv) :
    GInv (groupFinish s) kv ∧ (groupFinish s).pending = [] := by
  unfold groupFinish
  refine ⟨?_, rfl⟩
  apply ginv_subscribe s kv h
  · exact h.nodup
  · simp
  · intro i; simp
  · intro i _; simp


theorem groupTick_nil (s : GroupSt α κ) (h : s.pending = []) : groupTick s = s := by
  cases s
  simp only at h
  subst h
  rfl

theorem groupFinish_nil (s : GroupSt α κ) (h : s.pending = []) : groupFinish s = s := by
  cases s
  simp only at h
  subst h
  rfl

/-! ### the fold over the values -/

structure Mid [DecidableEq κ] (delay : Nat) (a : Acc (GroupSt α κ) Nat) (kv : List (κ × α)) : Prop where
  inv : GInv a.st kv
  out : a.out = (List.range a.st.groups.length).map .next
  run : a.running = true
  eager : delay ≤ 1 → a.st.pending = []

theorem GInv.length [DecidableEq κ] {s : GroupSt α κ} {kv : List (κ × α)} (h : GInv s kv) :
    s.groups.length = (distinct (kv.map (·.1))).length := by
  rw [← h.keys, List.length_map]

theorem mid_step [DecidableEq κ] (key : α → Nat → κ) (delay : Nat) (a : Acc (GroupSt α κ) Nat) (kv : List (κ × α))
    (h : Mid delay a kv) (v : α) :
    Mid delay ((groupByM key delay).absStep a (0, .next v)) (kv ++ [(key v kv.length, v)]) := by
  have hs := step_next_inv key delay a.st kv h.inv 0 v
  have habs : (groupByM key delay).absStep a (0, .next v) =
      { st := groupTick (groupByStep key delay a.st 0 (.next v)).st,
        out := a.out ++ (groupByStep key delay a.st 0 (.next v)).emits,
        running := !((groupByStep key delay a.st 0 (.next v)).unsubAll || hasTerm (groupByStep key delay a.st 0 (.next v)).emits) } := by
    simp [Machine.absStep, h.run, groupByM]
  rw [habs]
  have hti := groupTick_inv _ _ hs.1
  refine ⟨hti, ?_, ?_, ?_⟩
  · simp only
    rw [h.out, hs.2.1, hti.length, hs.1.length]
  · simp only
    rw [hs.2.2.1, hs.2.2.2.1]; rfl
  · intro hd; exact hs.2.2.2.2 hd (h.eager hd)

theorem mid_values [DecidableEq κ] (key : α → Nat → κ) (delay : Nat) (vs : List α) (a : Acc (GroupSt α κ) Nat)
    (kv : List (κ × α)) (h : Mid delay a kv) :
    Mid delay ((vs.map (fun v => ((0 : Nat), Ev.next v))).foldl (groupByM key delay).absStep a)
      (kv ++ (vs.zipIdx kv.length).map (fun p => (key p.1 p.2, p.1))) := by
  induction vs generalizing a kv with
  | nil => simpa using h
  | cons v vs ih =>
    simp only [List.map_cons, List.foldl_cons, List.zipIdx_cons]
    have := ih _ _ (mid_step key delay a kv h v)
    simpa [List.append_assoc] using this

theorem mid_init [DecidableEq κ] (key : α → Nat → κ) (delay : Nat) :
    Mid delay (groupByM key delay).absInit ([] : List (κ × α)) := by
  refine ⟨⟨rfl, rfl, rfl, ?_, ?_, ?_⟩, rfl, rfl, fun _ => rfl⟩
  · exact List.nodup_nil
  · intro g hg; cases hg
  · intro i p hp; cases hp

/-! ### the view -/

theorem gb_viewOut_append (ws : List (Subj α)) (a b : List (Ev Nat)) :
    viewOut ws (a ++ b) = viewOut ws a ++ viewOut ws b := by
  simp [viewOut]

theorem view_groups (gs : List (κ × Subj α)) (f : κ → List (Ev α)) (h : ∀ p, p ∈ gs → p.2.rcv = f p.1) :
    viewOut (gs.map (·.2)) ((List.range gs.length).map .next) = (gs.map (·.1)).map (fun k => .next (f k)) := by
  apply List.ext_getElem
  · simp [viewOut]
  · intro i h1 h2
    have hi : i < gs.length := by simpa [viewOut] using h1
    simp [viewOut, Ev.map, hi, h gs[i] (List.getElem_mem hi)]

/-- the source's values paired with their keys -/
def kvOf (key : α → Nat → κ) (vs : List α) : List (κ × α) := vs.zipIdx.map (fun p => (key p.1 p.2, p.1))

theorem spec_oneSrc [DecidableEq κ] (key : α → Nat → κ) (vs : List α) (t : Option (Ev α))
    (ht : ∀ x, t = some x → x.isTerminal = true) :
    Spec.groupBy key (oneSrc vs t) =
      (distinct ((kvOf key vs).map (·.1))).map (fun k => .next (gvals (kvOf key vs) k ++ t.toList))
        ++ t.toList.map (fun x => x.map (fun _ => [])) := by
  unfold Spec.groupBy keyed
  rw [body_oneSrc vs t ht, stop_oneSrc vs t ht, valsOf_values]
  rfl

/-- all recorders subscribed: the view lists the values of every key -/
theorem view_attached [DecidableEq κ] (s : GroupSt α κ) (kv : List (κ × α)) (h : GInv s kv) (hp : s.pending = []) :
    ∀ p, p ∈ s.groups → p.2.status = .active ∧ p.2.attached = true ∧ p.2.rcv = gvals kv p.1 := by
  intro p hp'
  obtain ⟨i, hi⟩ := List.mem_iff_getElem?.1 hp'
  have hok := h.ok i p hi
  have hat := hok.att (by rw [hp]; simp)
  have hv := hok.vals
  rw [hat.2] at hv
  exact ⟨hok.active, hat.1, by simpa using hv⟩


end GroupByProof
open GroupByProof

/-! ### the whole run -/

/-- the source does not end: at the end of the run every recorder has subscribed and got the values
    of its key (whatever the delay) -/
theorem groupBy_never [DecidableEq κ] (key : α → Nat → κ) (delay : Nat) (vs : List α) :
    let a := (groupByM key delay).abs (oneSrc vs none)
    viewOut ((groupFinish a.st).groups.map (·.2)) a.out = Spec.groupBy key (oneSrc vs none) := by
  intro a
  have hm : Mid delay a (kvOf key vs) := by
    have := mid_values key delay vs _ _ (mid_init key delay)
    have ha : a = (vs.map (fun v => ((0 : Nat), Ev.next v))).foldl (groupByM key delay).absStep (groupByM key delay).absInit := by
      show (oneSrc vs none).foldl _ _ = _
      simp [oneSrc]
    rw [ha]
    simpa [kvOf] using this
  have hf := groupFinish_inv a.st _ hm.inv
  rw [spec_oneSrc key vs none (by intro x hx; cases hx), hm.out]
  have hlen : a.st.groups.length = (groupFinish a.st).groups.length := by rw [hm.inv.length, hf.1.length]
  rw [hlen, view_groups _ (gvals (kvOf key vs)) (fun p hp => (view_attached _ _ hf.1 hf.2 p hp).2.2), hf.1.keys]
  simp

/-- the source completes and no recorder is late -/
theorem groupBy_complete [DecidableEq κ] (key : α → Nat → κ) (delay : Nat) (hd : delay ≤ 1) (vs : List α) :
    let a := (groupByM key delay).abs (oneSrc vs (some .complete))
    viewOut ((groupFinish a.st).groups.map (·.2)) a.out = Spec.groupBy key (oneSrc vs (some .complete)) := by
  intro a
  generalize hb : (vs.map (fun v => ((0 : Nat), Ev.next v))).foldl (groupByM key delay).absStep (groupByM key delay).absInit = b
  have hm : Mid delay b (kvOf key vs) := by
    have := mid_values key delay vs _ _ (mid_init key delay)
    rw [hb] at this
    simpa [kvOf] using this
  have hpend := hm.eager hd
  have ha : a = { st := { b.st with groups := b.st.groups.map (fun p => (p.1, p.2.complete.1)), mapped := false },
                  out := b.out ++ [.complete], running := false } := by
    show (oneSrc vs (some Ev.complete)).foldl _ _ = _
    simp only [oneSrc, List.foldl_append, hb, Option.toList, List.map_cons, List.map_nil, List.foldl_cons, List.foldl_nil]
    simp only [Machine.absStep, hm.run, if_true]
    have hst : ((groupByM key delay).step b.st 0 Ev.complete) =
        { st := { b.st with groups := b.st.groups.map (fun p => (p.1, p.2.complete.1)), mapped := false },
          emits := [.complete], sdrops := b.st.groups.flatMap (fun p => p.2.complete.2) } := rfl
    rw [hst]
    simp only [groupByM]
    rw [groupTick_nil]
    · rfl
    · exact hpend
  rw [ha]
  simp only
  rw [groupFinish_nil _ (show ({ b.st with groups := b.st.groups.map (fun p => (p.1, p.2.complete.1)), mapped := false } : GroupSt α κ).pending = [] from hpend), spec_oneSrc key vs (some .complete) (by intro x hx; cases hx; rfl), hm.out,
    gb_viewOut_append]
  simp only
  have hatt := view_attached _ _ hm.inv hpend
  have hlen : b.st.groups.length = (b.st.groups.map (fun p : κ × Subj α => (p.1, p.2.complete.1))).length := by simp
  rw [hlen, view_groups _ (fun k => gvals (kvOf key vs) k ++ [.complete])]
  · have hk : (b.st.groups.map (fun p : κ × Subj α => (p.1, p.2.complete.1))).map (·.1) = b.st.groups.map (·.1) := by
      rw [List.map_map]; rfl
    rw [hk, hm.inv.keys]
    rfl
  · intro p hp
    obtain ⟨q, hq, rfl⟩ := List.mem_map.1 hp
    obtain ⟨h1, h2, h3⟩ := hatt q hq
    simp [Subj.complete, h1, h2, h3]

/-- the source ends with an error before any value -/
theorem groupBy_error_first [DecidableEq κ] (key : α → Nat → κ) (delay : Nat) (e : Err) :
    let a := (groupByM key delay).abs (oneSrc ([] : List α) (some (.error e)))
    viewOut ((groupFinish a.st).groups.map (·.2)) a.out = Spec.groupBy key (oneSrc [] (some (.error e))) := by
  rfl

/-- **GroupBy = Spec.groupBy** outside the two known deviations: every recorder subscribes before
    the source ends (`delay ≤ 1`, or the source never ends), and the source does not end with an
    error after having delivered values. -/
theorem groupBy_spec_partial {α κ : Type} [DecidableEq κ] (key : α → Nat → κ) (delay : Nat)
    (scripts : List (List (Ev α))) (hlen : scripts.length ≤ 1) (order : List Nat)
    (h1 : Known.groupByLate delay (arrivals (scriptsFn scripts) order) = false)
    (h2 : Known.groupByErrorCompletesGroups (arrivals (scriptsFn scripts) order) = false) :
    viewOut ((run (groupByM key delay) scripts order).m.groups.map (·.2)) (run (groupByM key delay) scripts order).out
      = Spec.groupBy key (arrivals (scriptsFn scripts) order) := by
  rw [run_out_abs _ (groupBy_allHot key delay) scripts hlen order,
    run_st_abs _ (groupBy_allHot key delay) scripts hlen order]
  obtain ⟨vs, t, harr, ht⟩ := arrivals_single (scriptsFn scripts) (scriptsFn_single scripts hlen) order
  rw [harr] at h1 h2 ⊢
  unfold Known.groupByLate at h1
  unfold Known.groupByErrorCompletesGroups at h2
  rw [stop_oneSrc vs t ht] at h1 h2
  rw [body_oneSrc vs t ht, valsOf_values] at h2
  cases t with
  | none => exact groupBy_never key delay vs
  | some x =>
    cases x with
    | next v => have := ht _ rfl; cases this
    | complete =>
      have hd : delay ≤ 1 := by
        simp at h1; omega
      exact groupBy_complete key delay hd vs
    | error e =>
      have : vs = [] := by simpa using h2
      subst this
      exact groupBy_error_first key delay e


/-- the special case of recorders that subscribe at once or after one notification -/
theorem groupBy_spec_eager {α κ : Type} [DecidableEq κ] (key : α → Nat → κ) (delay : Nat) (hd : delay ≤ 1)
    (scripts : List (List (Ev α))) (hlen : scripts.length ≤ 1) (order : List Nat)
    (h2 : Known.groupByErrorCompletesGroups (arrivals (scriptsFn scripts) order) = false) :
    viewOut ((run (groupByM key delay) scripts order).m.groups.map (·.2)) (run (groupByM key delay) scripts order).out
      = Spec.groupBy key (arrivals (scriptsFn scripts) order) := by
  apply groupBy_spec_partial key delay scripts hlen order ?_ h2
  have : decide (2 ≤ delay) = false := by simp; omega
  simp [Known.groupByLate, this]

/-! ### the two deviations, and a concrete instance of the theorem -/

/-- a recorder that subscribes after the source completed gets only `Complete`: the queued value is lost -/
theorem groupBy_late_witness :
    let r := run (groupByM (fun (v : Int) (_ : Nat) => v) 2) [[.next 1, .complete]] [0, 0]
    viewOut (r.m.groups.map (·.2)) r.out = [.next [.complete], .complete] ∧
    Spec.groupBy (fun (v : Int) (_ : Nat) => v) (arrivals (scriptsFn [[Ev.next (1:Int), .complete]]) [0, 0]) = [.next [.next 1, .complete], .complete] := by
  decide

/-- when the (hot) source errors, the groups are completed instead of receiving the error -/
theorem groupBy_error_witness :
    let r := run (groupByM (fun (v : Int) (_ : Nat) => v) 0) [[.next 1, .error (.user 7)]] [0, 0]
    viewOut (r.m.groups.map (·.2)) r.out = [.next [.next 1, .complete], .error (.user 7)] ∧
    Spec.groupBy (fun (v : Int) (_ : Nat) => v) (arrivals (scriptsFn [[Ev.next (1:Int), .error (.user 7)]]) [0, 0]) = [.next [.next 1, .error (.user 7)], .error (.user 7)] := by
  decide

/-- the hypotheses of `groupBy_spec_partial` hold on a run with two keys, and the result is the expected one -/
example :
    Known.groupByLate 1 (arrivals (scriptsFn [[Ev.next (1:Int), .next 2, .next 3, .complete]]) [0, 0, 0, 0]) = false ∧
    Known.groupByErrorCompletesGroups (arrivals (scriptsFn [[Ev.next (1:Int), .next 2, .next 3, .complete]]) [0, 0, 0, 0]) = false ∧
    (let r := run (groupByM (fun (v : Int) (_ : Nat) => v % 2) 1) [[.next 1, .next 2, .next 3, .complete]] [0, 0, 0, 0]
     viewOut (r.m.groups.map (·.2)) r.out) = [.next [.next 1, .next 3, .complete], .next [.next 2, .complete], .complete] ∧
    Spec.groupBy (fun (v : Int) (_ : Nat) => v % 2) (arrivals (scriptsFn [[Ev.next (1:Int), .next 2, .next 3, .complete]]) [0, 0, 0, 0])
      = [.next [.next 1, .next 3, .complete], .next [.next 2, .complete], .complete] := by
  decide

example :
    (let r := run (groupByM (fun (v : Int) (_ : Nat) => v % 2) 1) [[.next 1, .next 2, .next 3, .complete]] [0, 0, 0, 0]
     viewOut (r.m.groups.map (·.2)) r.out)
      = Spec.groupBy (fun (v : Int) (_ : Nat) => v % 2) (arrivals (scriptsFn [[Ev.next (1:Int), .next 2, .next 3, .complete]]) [0, 0, 0, 0]) :=
  groupBy_spec_partial (fun (v : Int) (_ : Nat) => v % 2) 1 [[.next 1, .next 2, .next 3, .complete]] (by decide) [0, 0, 0, 0]
    (by decide) (by decide)

end Ro.MultiB

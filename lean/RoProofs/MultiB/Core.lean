/-
  RoProofs.MultiB.Core — the run of an operator that subscribes all its sources at once and whose
  teardown releases them all ("all-hot": Zip*, CombineLatest*, BufferWhen, WindowWhen, GroupBy)
  is a fold of its callbacks over the arrivals, stopped at the first terminal emission or shared
  unsubscription. This separates the bookkeeping of `run` (gates, statuses, scripts) from the
  operator-specific reasoning, which becomes a statement about a fold over a list.
-/
import RoModel.MultiB.Core
namespace Ro.MultiB
variable {σ α β : Type}

def hasTerm (l : List (Ev β)) : Bool := l.any Ev.isTerminal

@[simp] theorem hasTerm_nil : hasTerm ([] : List (Ev β)) = false := rfl
@[simp] theorem hasTerm_cons (x : Ev β) (l : List (Ev β)) : hasTerm (x :: l) = (x.isTerminal || hasTerm l) := rfl
theorem hasTerm_append (a b : List (Ev β)) : hasTerm (a ++ b) = (hasTerm a || hasTerm b) := by
  simp [hasTerm, List.any_append]

theorem gateEv_of_noTerm (l : List (Ev β)) (h : hasTerm l = false) : gateEv l = l := by
  induction l with
  | nil => rfl
  | cons x xs ih =>
    simp only [hasTerm_cons, Bool.or_eq_false_iff] at h
    simp [gateEv, h.1, ih h.2]

theorem gateEv_append_of_noTerm (a b : List (Ev β)) (h : hasTerm a = false) : gateEv (a ++ b) = a ++ gateEv b := by
  induction a with
  | nil => rfl
  | cons x xs ih =>
    simp only [hasTerm_cons, Bool.or_eq_false_iff] at h
    simp [gateEv, h.1, ih h.2]

theorem hasTerm_gateEv (l : List (Ev β)) : hasTerm (gateEv l) = hasTerm l := by
  induction l with
  | nil => rfl
  | cons x xs ih =>
    cases hx : x.isTerminal <;> simp [gateEv, hx, ih]

/-- the abstract run: machine state, everything emitted, and whether the sources are still heard -/
structure Acc (σ β : Type) where
  st : σ
  out : List (Ev β)
  running : Bool

def Machine.absInit (m : Machine σ α β) : Acc σ β :=
  { st := m.start.st, out := m.start.emits, running := !(m.start.unsubAll || hasTerm m.start.emits) }

def Machine.absStep (m : Machine σ α β) (a : Acc σ β) (p : Nat × Ev α) : Acc σ β :=
  if a.running then
    { st := m.tick (m.step a.st p.1 p.2).st,
      out := a.out ++ (m.step a.st p.1 p.2).emits,
      running := !((m.step a.st p.1 p.2).unsubAll || hasTerm (m.step a.st p.1 p.2).emits) }
  else { a with st := m.tick a.st }

def Machine.abs (m : Machine σ α β) (arr : List (Nat × Ev α)) : Acc σ β := arr.foldl m.absStep m.absInit

theorem absStep_stopped (m : Machine σ α β) (b : Acc σ β) (q : Nat × Ev α) (hb : b.running = false) :
    (m.absStep b q).out = b.out ∧ (m.absStep b q).running = false := by
  simp [Machine.absStep, hb]

/-- once stopped, nothing more is emitted -/
theorem abs_stopped_out (m : Machine σ α β) (l : List (Nat × Ev α)) (b : Acc σ β) (hb : b.running = false) :
    (l.foldl m.absStep b).out = b.out := by
  induction l generalizing b with
  | nil => rfl
  | cons q l ih =>
    simp only [List.foldl_cons]
    have h := absStep_stopped m b q hb
    rw [ih _ h.2, h.1]

structure AllHot (m : Machine σ α β) : Prop where
  start_subs : m.start.subscribe = List.range m.n
  step_subs : ∀ st i x, (m.step st i x).subscribe = []
  hot : m.hotTeardown = true
  start_gated : gateEv m.start.emits = m.start.emits
  step_gated : ∀ st i x, gateEv (m.step st i x).emits = (m.step st i x).emits

/-! ### pushing emissions through the downstream gate -/

theorem push_fields (s : St σ α β) (x : Ev β) :
    (s.push x).m = s.m ∧ (s.push x).rest = s.rest ∧ (s.push x).status = s.status ∧
    (s.push x).subs = s.subs ∧ (s.push x).subsDone = s.subsDone := by
  unfold St.push; split <;> simp

theorem foldl_push_fields (l : List (Ev β)) (s : St σ α β) :
    (l.foldl St.push s).m = s.m ∧ (l.foldl St.push s).rest = s.rest ∧ (l.foldl St.push s).status = s.status ∧
    (l.foldl St.push s).subs = s.subs ∧ (l.foldl St.push s).subsDone = s.subsDone := by
  induction l generalizing s with
  | nil => simp
  | cons x xs ih =>
    have h := push_fields s x
    have h2 := ih (s.push x)
    simp only [List.foldl_cons]
    exact ⟨h2.1.trans h.1, h2.2.1.trans h.2.1, h2.2.2.1.trans h.2.2.1, h2.2.2.2.1.trans h.2.2.2.1, h2.2.2.2.2.trans h.2.2.2.2⟩

theorem push_open (s : St σ α β) (x : Ev β) (h : s.downOpen = true) :
    (s.push x).out = s.out ++ [x] ∧ (s.push x).downOpen = !x.isTerminal := by
  simp [St.push, h]

theorem push_closed (s : St σ α β) (x : Ev β) (h : s.downOpen = false) :
    (s.push x).out = s.out ∧ (s.push x).downOpen = false := by
  simp [St.push, h]

theorem foldl_push_closed (l : List (Ev β)) (s : St σ α β) (h : s.downOpen = false) :
    (l.foldl St.push s).out = s.out ∧ (l.foldl St.push s).downOpen = false := by
  induction l generalizing s with
  | nil => simp [h]
  | cons x xs ih =>
    simp only [List.foldl_cons]
    have hp := push_closed s x h
    have := ih (s.push x) hp.2
    exact ⟨this.1.trans hp.1, this.2⟩

theorem foldl_push_open (l : List (Ev β)) (s : St σ α β) (h : s.downOpen = true) :
    (l.foldl St.push s).out = s.out ++ gateEv l ∧ (l.foldl St.push s).downOpen = !hasTerm l := by
  induction l generalizing s with
  | nil => simp [h, gateEv]
  | cons x xs ih =>
    simp only [List.foldl_cons]
    have hp := push_open s x h
    cases hx : x.isTerminal
    · have := ih (s.push x) (by rw [hp.2, hx]; rfl)
      rw [this.1, this.2, hp.1]
      simp [gateEv, hx]
    · have := foldl_push_closed xs (s.push x) (by rw [hp.2, hx]; rfl)
      rw [this.1, this.2, hp.1]
      simp [gateEv, hx]

/-! ### subscribing and releasing -/

theorem releaseAll_noLive (s : St σ α β) (j : Nat) : (s.releaseAll).status j ≠ .live := by
  simp only [St.releaseAll]
  split
  · simp
  · assumption

theorem foldl_subscribeOne_nil (s : St σ α β) : ([] : List Nat).foldl St.subscribeOne s = s := rfl

theorem subscribeOne_fields (s : St σ α β) (k : Nat) :
    (s.subscribeOne k).m = s.m ∧ (s.subscribeOne k).rest = s.rest ∧ (s.subscribeOne k).out = s.out ∧
    (s.subscribeOne k).downOpen = s.downOpen ∧ (s.subscribeOne k).subsDone = s.subsDone := by
  unfold St.subscribeOne; split <;> simp

theorem foldl_subscribeOne_fields (l : List Nat) (s : St σ α β) :
    (l.foldl St.subscribeOne s).m = s.m ∧ (l.foldl St.subscribeOne s).rest = s.rest ∧ (l.foldl St.subscribeOne s).out = s.out ∧
    (l.foldl St.subscribeOne s).downOpen = s.downOpen ∧ (l.foldl St.subscribeOne s).subsDone = s.subsDone := by
  induction l generalizing s with
  | nil => simp
  | cons x xs ih =>
    have h := subscribeOne_fields s x
    have h2 := ih (s.subscribeOne x)
    simp only [List.foldl_cons]
    exact ⟨h2.1.trans h.1, h2.2.1.trans h.2.1, h2.2.2.1.trans h.2.2.1, h2.2.2.2.1.trans h.2.2.2.1, h2.2.2.2.2.trans h.2.2.2.2⟩

/-- subscribing a list of sources: those in the list that were idle become live (or done, when the
    shared subscription is already done); the others keep their status -/
theorem foldl_subscribeOne_status (l : List Nat) (s : St σ α β) (j : Nat) :
    (l.foldl St.subscribeOne s).status j =
      if j ∈ l ∧ s.status j = .idle then (if s.subsDone then .done else .live) else s.status j := by
  induction l generalizing s with
  | nil => simp
  | cons x xs ih =>
    simp only [List.foldl_cons]
    rw [ih]
    have hf := subscribeOne_fields s x
    rw [hf.2.2.2.2]
    unfold St.subscribeOne
    by_cases hx : s.status x = .idle
    · simp only [hx, if_true]
      by_cases hjx : j = x
      · subst hjx
        cases hd : s.subsDone <;> simp [upd, hx]
      · simp [upd, hjx]
    · simp only [hx, if_false]
      by_cases hjx : j = x
      · subst hjx; simp [hx]
      · simp [hjx]

/-! ### one callback's effects -/

/-- status of a source after a callback: released when the callback (or the teardown it triggered)
    unsubscribed everything; subscribed when the callback asked for it -/
def statusAfter (released doneBefore : Bool) (subscribe : List Nat) (st : SrcStatus) (j : Nat) : SrcStatus :=
  let base := if released && st == .live then SrcStatus.done else st
  if j ∈ subscribe ∧ base = .idle then (if released || doneBefore then .done else .live) else base

theorem apply_facts (hot : Bool) (s : St σ α β) (e : Eff σ α β) (hopen : s.downOpen = true) :
    (s.apply hot e).m = e.st ∧ (s.apply hot e).rest = s.rest ∧
    (s.apply hot e).out = s.out ++ gateEv e.emits ∧ (s.apply hot e).downOpen = !hasTerm e.emits ∧
    ∀ j, (s.apply hot e).status j =
      statusAfter (e.unsubAll || (hot && hasTerm e.emits)) s.subsDone e.subscribe (s.status j) j := by
  unfold St.apply
  generalize hs0 : ({ s with m := e.st, drops := s.drops ++ e.sdrops.map .subj } : St σ α β) = s0
  have h0 : s0.m = e.st ∧ s0.rest = s.rest ∧ s0.out = s.out ∧ s0.downOpen = true ∧ s0.status = s.status ∧ s0.subsDone = s.subsDone := by
    subst hs0; simp [hopen]
  have hp := foldl_push_open e.emits s0 h0.2.2.2.1
  have hf := foldl_push_fields e.emits s0
  generalize hs1 : e.emits.foldl St.push s0 = s1 at hp hf
  simp only []
  rw [hp.2, Bool.not_not]
  generalize hrel : (e.unsubAll || (hot && hasTerm e.emits)) = rel
  generalize hs2 : (if rel = true then s1.releaseAll else s1) = s2
  have h2 : s2.m = e.st ∧ s2.rest = s.rest ∧ s2.out = s.out ++ gateEv e.emits ∧ s2.downOpen = !hasTerm e.emits ∧
      s2.subsDone = (rel || s.subsDone) ∧ ∀ j, s2.status j = if rel && s.status j == .live then .done else s.status j := by
    subst hs2
    cases rel
    · simp [hf.1, hf.2.1, hp.1, hp.2, h0.1, h0.2.1, h0.2.2.1, hf.2.2.1, h0.2.2.2.2.1, hf.2.2.2.2, h0.2.2.2.2.2]
    · simp only [if_true, St.releaseAll]
      refine ⟨by simp [hf.1, h0.1], by simp [hf.2.1, h0.2.1], by simp [hp.1, h0.2.2.1], by simp [hp.2], by simp, ?_⟩
      intro j
      simp only [hf.2.2.1, h0.2.2.2.2.1, Bool.true_and, beq_iff_eq]
  have hff := foldl_subscribeOne_fields e.subscribe s2
  have hst := foldl_subscribeOne_status e.subscribe s2
  refine ⟨hff.1.trans h2.1, hff.2.1.trans h2.2.1, hff.2.2.1.trans h2.2.2.1, hff.2.2.2.1.trans h2.2.2.2.1, ?_⟩
  intro j
  rw [hst, h2.2.2.2.2.2, h2.2.2.2.2.1]
  simp only [statusAfter]

theorem apply_closed (hot : Bool) (s : St σ α β) (e : Eff σ α β) (hclosed : s.downOpen = false) :
    (s.apply hot e).out = s.out := by
  unfold St.apply
  generalize hs0 : ({ s with m := e.st, drops := s.drops ++ e.sdrops.map .subj } : St σ α β) = s0
  have h0 : s0.out = s.out ∧ s0.downOpen = false := by subst hs0; simp [hclosed]
  have hp := foldl_push_closed e.emits s0 h0.2
  generalize hs1 : e.emits.foldl St.push s0 = s1 at hp
  simp only []
  have hff := foldl_subscribeOne_fields e.subscribe (if (e.unsubAll || hot && !s1.downOpen) = true then s1.releaseAll else s1)
  rw [hff.2.2.1]
  split <;> simp [St.releaseAll, hp.1, h0.1]

/-! ### the run invariant -/

structure RInv (m : Machine σ α β) (s : St σ α β) (a : Acc σ β) : Prop where
  st : s.m = a.st
  out : s.out = a.out
  down : s.downOpen = !hasTerm a.out
  run_open : a.running = true → s.downOpen = true
  run_live : a.running = true → ∀ j, s.rest j ≠ [] → s.status j = .live
  stop_dead : a.running = false → ∀ j, s.status j ≠ .live
  out_of_range : ∀ j, m.n ≤ j → s.rest j = []

theorem statusAfter_nosub (rel d : Bool) (st : SrcStatus) (j : Nat) :
    statusAfter rel d [] st j = if rel && st == .live then .done else st := by
  simp [statusAfter]

theorem init_inv (m : Machine σ α β) (h : AllHot m) (rest : Nat → List (Ev α))
    (hrest : ∀ i, m.n ≤ i → rest i = []) : RInv m (m.init rest) m.absInit := by
  have hf := apply_facts m.hotTeardown ({ m := m.start.st, rest := rest } : St σ α β) m.start rfl
  have hT : m.init rest = St.apply m.hotTeardown ({ m := m.start.st, rest := rest } : St σ α β) m.start := rfl
  rw [← hT] at hf
  generalize m.init rest = T at hf
  rw [h.hot, h.start_gated, h.start_subs] at hf
  simp only [List.nil_append, Bool.true_and] at hf
  refine ⟨hf.1, hf.2.2.1, hf.2.2.2.1, ?_, ?_, ?_, ?_⟩
  · intro hr
    simp only [Machine.absInit, Bool.not_eq_true', Bool.or_eq_false_iff] at hr
    rw [hf.2.2.2.1, hr.2]; rfl
  · intro hr j hj
    simp only [Machine.absInit, Bool.not_eq_true', Bool.or_eq_false_iff] at hr
    have hjn : j < m.n := by
      rcases Nat.lt_or_ge j m.n with hc | hc
      · exact hc
      · rw [hf.2.1] at hj
        exact absurd (hrest j hc) hj
    rw [hf.2.2.2.2 j, hr.1, hr.2]
    simp [statusAfter, hjn]
  · intro hr j
    simp only [Machine.absInit, Bool.not_eq_false'] at hr
    rw [hf.2.2.2.2 j, hr]
    simp only [statusAfter]
    split
    · simp
    · simp only []; split <;> simp
  · intro j hj
    rw [hf.2.1]; exact hrest j hj

theorem feed_nil (m : Machine σ α β) (s : St σ α β) (i : Nat) (h : s.rest i = []) : s.feed m i = s := by
  simp [St.feed, St.issue, h]

theorem feed_rest (m : Machine σ α β) (s : St σ α β) (i : Nat) (x : Ev α) (r : List (Ev α)) (h : s.rest i = x :: r)
    (hopen : s.status i = .live → s.downOpen = true) :
    (s.feed m i).rest = upd s.rest i (if x.isTerminal then [] else r) := by
  simp only [St.feed, St.issue, h]
  cases hst : s.status i
  · rfl
  · simp only []
    have hop := hopen hst
    split
    · refine (apply_facts _ _ _ ?_).2.1; exact hop
    · refine (apply_facts _ _ _ ?_).2.1; exact hop
  · rfl

theorem feed_inv (m : Machine σ α β) (h : AllHot m) (s : St σ α β) (a : Acc σ β) (hinv : RInv m s a)
    (i : Nat) (x : Ev α) (r : List (Ev α)) (hr : s.rest i = x :: r) :
    RInv m (s.feed m i) (m.absStep a (i, x)) := by
  have hne : s.rest i ≠ [] := by rw [hr]; simp
  have hin : i < m.n := by
    rcases Nat.lt_or_ge i m.n with hc | hc
    · exact hc
    · exact absurd (hinv.out_of_range i hc) hne
  have hrest : (s.feed m i).rest = upd s.rest i (if x.isTerminal then [] else r) :=
    feed_rest m s i x r hr (fun hl => by
      cases hrun : a.running
      · exact absurd hl (hinv.stop_dead hrun i)
      · exact hinv.run_open hrun)
  have hoor : ∀ j, m.n ≤ j → (s.feed m i).rest j = [] := by
    intro j hj
    rw [hrest, upd_other _ _ _ _ (by omega)]
    exact hinv.out_of_range j hj
  cases hrun : a.running
  · -- the sources are not heard any more
    have hdead := hinv.stop_dead hrun
    have hfeed : (s.feed m i).m = m.tick s.m ∧ (s.feed m i).out = s.out ∧ (s.feed m i).downOpen = s.downOpen ∧
        (s.feed m i).status = s.status := by
      simp only [St.feed, St.issue, hr]
      cases hst : s.status i
      · simp
      · exact absurd hst (hdead i)
      · simp
    have habs : m.absStep a (i, x) = { a with st := m.tick a.st } := by simp [Machine.absStep, hrun]
    rw [habs]
    refine ⟨by rw [hfeed.1, hinv.st], by rw [hfeed.2.1, hinv.out], by rw [hfeed.2.2.1, hinv.down], ?_, ?_, ?_, hoor⟩
    · intro hc; simp [hrun] at hc
    · intro hc; simp [hrun] at hc
    · intro _ j; rw [hfeed.2.2.2]; exact hdead j
  · -- source `i` is live: its callback runs
    have hlive := hinv.run_live hrun i hne
    have hopen := hinv.run_open hrun
    have hnoterm : hasTerm a.out = false := by
      have := hinv.down; rw [hopen] at this; simpa using this.symm
    generalize hs1 : (if x.isTerminal then
        { ({ s with rest := upd s.rest i (if x.isTerminal then [] else r) } : St σ α β) with
          status := upd s.status i .done }
      else ({ s with rest := upd s.rest i (if x.isTerminal then [] else r) } : St σ α β)) = s1
    have h1 : s1.downOpen = true ∧ s1.out = s.out ∧ s1.subsDone = s.subsDone ∧
        (∀ j, j ≠ i → s1.status j = s.status j) ∧ (x.isTerminal = false → s1.status i = .live) := by
      subst hs1
      cases hx : x.isTerminal
      · simp [hopen, hlive]
      · simp only [if_true]
        refine ⟨hopen, by simp, by simp, ?_, by simp⟩
        intro j hj; exact upd_other _ _ _ _ hj
    have hfeed : s.feed m i = { (s1.apply m.hotTeardown (m.step s.m i x)) with m := m.tick (s1.apply m.hotTeardown (m.step s.m i x)).m } := by
      simp only [St.feed, St.issue, hr, hlive]
      subst hs1
      rfl
    have hf := apply_facts m.hotTeardown s1 (m.step s.m i x) h1.1
    generalize s1.apply m.hotTeardown (m.step s.m i x) = T at hf hfeed
    rw [h.hot, h.step_gated, h.step_subs, hinv.st] at hf
    simp only [Bool.true_and] at hf
    have habs : m.absStep a (i, x) =
        { st := m.tick (m.step a.st i x).st, out := a.out ++ (m.step a.st i x).emits,
          running := !((m.step a.st i x).unsubAll || hasTerm (m.step a.st i x).emits) } := by
      simp [Machine.absStep, hrun]
    rw [habs]
    refine ⟨?_, ?_, ?_, ?_, ?_, ?_, hoor⟩
    · rw [hfeed]; simp only []; rw [hf.1]
    · rw [hfeed]; simp only []; rw [hf.2.2.1, h1.2.1, hinv.out]
    · rw [hfeed]; simp only []; rw [hf.2.2.2.1, hasTerm_append, hnoterm, Bool.false_or]
    · intro hc
      simp only [Bool.not_eq_true', Bool.or_eq_false_iff] at hc
      rw [hfeed]; simp only []; rw [hf.2.2.2.1, hc.2]; rfl
    · intro hc j hj
      simp only [Bool.not_eq_true', Bool.or_eq_false_iff] at hc
      rw [hfeed]; simp only []
      rw [hf.2.2.2.2 j, statusAfter_nosub, hc.1, hc.2]
      simp only [Bool.false_or, Bool.false_and]
      rw [hrest] at hj
      by_cases hji : j = i
      · subst hji
        simp only [upd_same] at hj
        cases hx : x.isTerminal
        · exact h1.2.2.2.2 hx
        · simp [hx] at hj
      · rw [upd_other _ _ _ _ hji] at hj
        rw [h1.2.2.2.1 j hji]
        exact hinv.run_live hrun j hj
    · intro hc j
      simp only [Bool.not_eq_false'] at hc
      rw [hfeed]; simp only []
      rw [hf.2.2.2.2 j, statusAfter_nosub, hc]
      simp only [Bool.true_and]
      split
      · simp
      · rename_i hne'; simpa using hne'

/-- the run of an all-hot machine is the fold of its callbacks over the arrivals -/
theorem runCore_abs_aux (m : Machine σ α β) (h : AllHot m) (order : List Nat) (s : St σ α β) (a : Acc σ β)
    (hinv : RInv m s a) : RInv m (order.foldl (St.feed m) s) ((arrivals s.rest order).foldl m.absStep a) := by
  induction order generalizing s a with
  | nil => simpa [arrivals] using hinv
  | cons i os ih =>
    simp only [List.foldl_cons]
    cases hr : s.rest i with
    | nil =>
      rw [feed_nil m s i hr]
      have : arrivals s.rest (i :: os) = arrivals s.rest os := by simp [arrivals, hr]
      rw [this]
      exact ih s a hinv
    | cons x r =>
      have hinv' := feed_inv m h s a hinv i x r hr
      have hrest : (s.feed m i).rest = upd s.rest i (if x.isTerminal then [] else r) :=
        feed_rest m s i x r hr (fun hl => by
          cases hrun : a.running
          · exact absurd hl (hinv.stop_dead hrun i)
          · exact hinv.run_open hrun)
      have : arrivals s.rest (i :: os) = (i, x) :: arrivals (upd s.rest i (if x.isTerminal then [] else r)) os := by
        simp [arrivals, hr]
      rw [this, List.foldl_cons, ← hrest]
      exact ih _ _ hinv'

theorem runCore_abs (m : Machine σ α β) (h : AllHot m) (rest : Nat → List (Ev α))
    (hrest : ∀ i, m.n ≤ i → rest i = []) (order : List Nat) :
    RInv m (runCore m rest order) (m.abs (arrivals rest order)) := by
  have h0 := init_inv m h rest hrest
  have hr : (m.init rest).rest = rest := (apply_facts m.hotTeardown ({ m := m.start.st, rest := rest } : St σ α β) m.start rfl).2.1
  have := runCore_abs_aux m h order (m.init rest) m.absInit h0
  rw [hr] at this
  exact this

/-- … in particular: delivered trace and final machine state -/
theorem run_out_abs (m : Machine σ α β) (h : AllHot m) (scripts : List (List (Ev α))) (hlen : scripts.length ≤ m.n)
    (order : List Nat) : (run m scripts order).out = (m.abs (arrivals (scriptsFn scripts) order)).out := by
  have hrest : ∀ i, m.n ≤ i → scriptsFn scripts i = [] := by
    intro i hi; simp [scriptsFn, List.getD, List.getElem?_eq_none (by omega : scripts.length ≤ i)]
  exact (runCore_abs m h _ hrest order).out

theorem run_st_abs (m : Machine σ α β) (h : AllHot m) (scripts : List (List (Ev α))) (hlen : scripts.length ≤ m.n)
    (order : List Nat) : (run m scripts order).m = m.finish (m.abs (arrivals (scriptsFn scripts) order)).st := by
  have hrest : ∀ i, m.n ≤ i → scriptsFn scripts i = [] := by
    intro i hi; simp [scriptsFn, List.getD, List.getElem?_eq_none (by omega : scripts.length ≤ i)]
  show m.finish (runCore m (scriptsFn scripts) order).m = _
  rw [(runCore_abs m h _ hrest order).st]

/-- error (or any terminal) ends the output at once and releases the others: once the downstream
    has received a terminal, no source is live -/
theorem run_released (m : Machine σ α β) (h : AllHot m) (scripts : List (List (Ev α))) (hlen : scripts.length ≤ m.n)
    (order : List Nat) (hterm : hasTerm (run m scripts order).out = true) (j : Nat) :
    (run m scripts order).status j ≠ .live := by
  have hrest : ∀ i, m.n ≤ i → scriptsFn scripts i = [] := by
    intro i hi; simp [scriptsFn, List.getD, List.getElem?_eq_none (by omega : scripts.length ≤ i)]
  have hinv := runCore_abs m h _ hrest order
  show (runCore m (scriptsFn scripts) order).status j ≠ .live
  have hout : (run m scripts order).out = (runCore m (scriptsFn scripts) order).out := rfl
  rw [hout, hinv.out] at hterm
  cases hrun : (m.abs (arrivals (scriptsFn scripts) order)).running
  · exact hinv.stop_dead hrun j
  · have := hinv.run_open hrun
    rw [hinv.down, hterm] at this
    simp at this

end Ro.MultiB

/-
  RoProofs.MultiB.Arrivals — facts about `arrivals` (who can arrive, nobody after its own terminal)
  and about the history vocabulary of the specifications (`valsOf`, `completed`) under snoc.
-/
import RoProofs.MultiB.Core
import RoModel.Spec.MultiB
namespace Ro.MultiB
open Spec
variable {α : Type}

/-- only sources that have a script arrive -/
theorem arrivals_lt (n : Nat) (order : List Nat) (rest : Nat → List (Ev α)) (hrest : ∀ i, n ≤ i → rest i = []) :
    ∀ p ∈ arrivals rest order, p.1 < n := by
  induction order generalizing rest with
  | nil => simp [arrivals]
  | cons i os ih =>
    cases hr : rest i with
    | nil =>
      have : arrivals rest (i :: os) = arrivals rest os := by simp [arrivals, hr]
      rw [this]; exact ih rest hrest
    | cons x r =>
      have : arrivals rest (i :: os) = (i, x) :: arrivals (upd rest i (if x.isTerminal then [] else r)) os := by
        simp [arrivals, hr]
      rw [this]
      have hi : i < n := by
        rcases Nat.lt_or_ge i n with h | h
        · exact h
        · rw [hrest i h] at hr; cases hr
      intro p hp
      rcases List.mem_cons.mp hp with h | h
      · subst h; exact hi
      · refine ih _ ?_ p h
        intro j hj
        rw [upd_other _ _ _ _ (by omega)]
        exact hrest j hj

theorem scriptsFn_out_of_range (scripts : List (List (Ev α))) (n : Nat) (hlen : scripts.length ≤ n) :
    ∀ i, n ≤ i → scriptsFn scripts i = [] := by
  intro i hi; simp [scriptsFn, List.getD, List.getElem?_eq_none (by omega : scripts.length ≤ i)]

/-- source `i` has issued its terminal -/
def terminated (i : Nat) (h : Arr α) : Bool := h.any (fun p => p.1 == i && p.2.isTerminal)

/-- nobody arrives after its own terminal -/
def noRepeat (past : Arr α) : Arr α → Bool
  | [] => true
  | (i, x) :: r => !(terminated i past) && noRepeat (past ++ [(i, x)]) r

theorem terminated_snoc (j i : Nat) (x : Ev α) (h : Arr α) :
    terminated j (h ++ [(i, x)]) = (terminated j h || (i == j && x.isTerminal)) := by
  simp [terminated, List.any_append]

theorem arrivals_noRepeat_aux (order : List Nat) (rest : Nat → List (Ev α)) (past : Arr α)
    (h : ∀ i, terminated i past = true → rest i = []) : noRepeat past (arrivals rest order) = true := by
  induction order generalizing rest past with
  | nil => simp [arrivals, noRepeat]
  | cons i os ih =>
    cases hr : rest i with
    | nil =>
      have : arrivals rest (i :: os) = arrivals rest os := by simp [arrivals, hr]
      rw [this]; exact ih rest past h
    | cons x r =>
      have : arrivals rest (i :: os) = (i, x) :: arrivals (upd rest i (if x.isTerminal then [] else r)) os := by
        simp [arrivals, hr]
      rw [this]
      simp only [noRepeat, Bool.and_eq_true, Bool.not_eq_true']
      constructor
      · cases ht : terminated i past
        · rfl
        · rw [h i ht] at hr; cases hr
      · apply ih
        intro j hj
        rw [terminated_snoc] at hj
        by_cases hji : j = i
        · subst hji
          simp only [upd_same]
          cases hx : x.isTerminal
          · simp only [hx, Bool.and_false, Bool.or_false] at hj
            rw [h j hj] at hr; cases hr
          · rfl
        · rw [upd_other _ _ _ _ hji]
          have : (i == j) = false := by simp; omega
          simp only [this, Bool.false_and, Bool.or_false] at hj
          exact h j hj

theorem arrivals_noRepeat (order : List Nat) (rest : Nat → List (Ev α)) : noRepeat [] (arrivals rest order) = true :=
  arrivals_noRepeat_aux order rest [] (by intro i hi; simp [terminated] at hi)

/-! ### history vocabulary under snoc -/

theorem valsOf_snoc_next (j i : Nat) (v : α) (h : Arr α) :
    valsOf j (h ++ [(i, .next v)]) = if i = j then valsOf j h ++ [v] else valsOf j h := by
  unfold valsOf
  rw [List.filterMap_append]
  by_cases hij : i = j <;> simp [hij, Ev.val?]

theorem valsOf_snoc_error (j i : Nat) (e : Err) (h : Arr α) : valsOf j (h ++ [(i, .error e)]) = valsOf j h := by
  unfold valsOf
  rw [List.filterMap_append]
  by_cases hij : i = j <;> simp [hij, Ev.val?]

theorem valsOf_snoc_complete (j i : Nat) (h : Arr α) : valsOf j (h ++ [(i, .complete)]) = valsOf j h := by
  unfold valsOf
  rw [List.filterMap_append]
  by_cases hij : i = j <;> simp [hij, Ev.val?]

theorem completed_snoc_next (j i : Nat) (v : α) (h : Arr α) : completed j (h ++ [(i, .next v)]) = completed j h := by
  simp [completed, List.any_append, Ev.isComplete]

theorem completed_snoc_complete (j i : Nat) (h : Arr α) :
    completed j (h ++ [(i, .complete)]) = (completed j h || i == j) := by
  simp [completed, List.any_append, Ev.isComplete]

theorem completed_le_terminated (j : Nat) (h : Arr α) (hc : completed j h = true) : terminated j h = true := by
  simp only [completed, terminated, List.any_eq_true] at *
  obtain ⟨p, hp, hq⟩ := hc
  refine ⟨p, hp, ?_⟩
  simp only [Bool.and_eq_true] at *
  refine ⟨hq.1, ?_⟩
  cases hx : p.2 <;> simp [hx, Ev.isComplete] at hq ⊢

/-! ### congruence over `List.range n` -/

theorem all_range_congr (n : Nat) (p q : Nat → Bool) (h : ∀ j, j < n → p j = q j) :
    (List.range n).all p = (List.range n).all q := by
  induction n with
  | zero => rfl
  | succ n ih =>
    rw [List.range_succ, List.all_append, List.all_append, ih (fun j hj => h j (by omega))]
    simp [h n (by omega)]

theorem any_range_congr (n : Nat) (p q : Nat → Bool) (h : ∀ j, j < n → p j = q j) :
    (List.range n).any p = (List.range n).any q := by
  induction n with
  | zero => rfl
  | succ n ih =>
    rw [List.range_succ, List.any_append, List.any_append, ih (fun j hj => h j (by omega))]
    simp [h n (by omega)]

theorem filterMap_range_congr {γ : Type} (n : Nat) (f g : Nat → Option γ) (h : ∀ j, j < n → f j = g j) :
    (List.range n).filterMap f = (List.range n).filterMap g := by
  induction n with
  | zero => rfl
  | succ n ih =>
    rw [List.range_succ, List.filterMap_append, List.filterMap_append, ih (fun j hj => h j (by omega))]
    simp only [List.filterMap_cons, List.filterMap_nil, h n (by omega)]

end Ro.MultiB

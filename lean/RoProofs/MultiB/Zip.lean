/-
  RoProofs.MultiB.Zip — ZipWith1…5 / Zip2…6: for every arity, every tuple of source scripts and every
  interleaving the delivered trace is the zip of the k-th values, completed once a finished source's
  values are used up — outside the known deviation (a source completing while values of its own are
  still queued cancels everything), which is excluded by `Known.zipCompleteUnsub` and witnessed in
  RoProps/C05b.lean.
-/
import RoProofs.MultiB.Arrivals
import RoModel.MultiB.Zip
namespace Ro.MultiB
open Spec
variable {α : Type}

theorem zipStep_subs (n : Nat) (st : ZipSt α) (i : Nat) (x : Ev α) : (zipStep n st i x).subscribe = [] := by
  cases x <;> rfl

theorem zipStep_gated (n : Nat) (st : ZipSt α) (i : Nat) (x : Ev α) :
    gateEv (zipStep n st i x).emits = (zipStep n st i x).emits := by
  cases x with
  | next v =>
    simp only [zipStep, zipOnUpdate]
    split
    · simp only [gateEv, Ev.isTerminal_next, Bool.false_eq_true, if_false]
      split <;> rfl
    · rfl
  | error e => rfl
  | complete => simp only [zipStep]; split <;> rfl

theorem zip_allHot (n : Nat) : AllHot (zipM (α := α) n) where
  start_subs := rfl
  step_subs := zipStep_subs n
  hot := rfl
  start_gated := rfl
  step_gated := zipStep_gated n

structure ZInv (n : Nat) (a : Acc (ZipSt α) (List α)) (past : Arr α) (k : Nat) : Prop where
  running : a.running = true
  q : ∀ j, j < n → a.st.q j = (valsOf j past).drop k
  kle : ∀ j, j < n → k ≤ (valsOf j past).length
  nocomp : ∀ j, j < n → a.st.completed j = false
  noterm : ∀ j, j < n → completed j past = false
  notready : rowReady n k past = false

theorem drop_isEmpty {γ : Type} (l : List γ) (k : Nat) : (!(l.drop k).isEmpty) = decide (k < l.length) := by
  by_cases h : k < l.length
  · have : l.drop k ≠ [] := by
      intro hc
      have := congrArg List.length hc
      simp only [List.length_drop, List.length_nil] at this
      omega
    cases hd : l.drop k with
    | nil => exact absurd hd this
    | cons x xs => simp [h]
  · have : l.drop k = [] := List.drop_eq_nil_of_le (by omega)
    simp [this, h]

theorem zip_abs (n : Nat) (rest : Arr α) (a : Acc (ZipSt α) (List α)) (past : Arr α) (k : Nat)
    (hinv : ZInv n a past k) (hlt : ∀ p ∈ rest, p.1 < n)
    (hk : Known.zipCompleteUnsub n past k rest = false) :
    (rest.foldl (zipM n).absStep a).out = a.out ++ zipFrom n past k rest := by
  induction rest generalizing a past k with
  | nil => simp [zipFrom]
  | cons p r ih =>
    obtain ⟨i, x⟩ := p
    have hi : i < n := hlt (i, x) (List.mem_cons_self ..)
    have hlt' : ∀ p ∈ r, p.1 < n := fun p hp => hlt p (List.mem_cons_of_mem _ hp)
    simp only [List.foldl_cons]
    cases x with
    | next v =>
      simp only [Known.zipCompleteUnsub] at hk
      -- the queues after the append
      have hq' : ∀ j, j < n → (upd a.st.q i (a.st.q i ++ [v])) j = (valsOf j (past ++ [(i, .next v)])).drop k := by
        intro j hj
        rw [valsOf_snoc_next]
        by_cases hij : i = j
        · subst hij
          simp only [upd_same, if_true]
          rw [hinv.q i hj, List.drop_append_of_le_length (hinv.kle i hj)]
        · rw [upd_other _ _ _ _ (by omega), if_neg hij]; exact hinv.q j hj
      have hready : (List.range n).all (fun j => !((upd a.st.q i (a.st.q i ++ [v])) j).isEmpty) =
          rowReady n k (past ++ [(i, .next v)]) := by
        unfold rowReady
        apply all_range_congr
        intro j hj
        rw [hq' j hj, drop_isEmpty]
      have hcompl : ∀ j, j < n → completed j (past ++ [(i, .next v)]) = false := by
        intro j hj; rw [completed_snoc_next]; exact hinv.noterm j hj
      have hlen : ∀ j, j < n → (valsOf j past).length ≤ (valsOf j (past ++ [(i, .next v)])).length := by
        intro j _
        rw [valsOf_snoc_next]
        split <;> simp
      cases hr : rowReady n k (past ++ [(i, .next v)])
      · -- no row yet
        have hstep : (zipM n).absStep a (i, .next v) =
            { st := { a.st with q := upd a.st.q i (a.st.q i ++ [v]) }, out := a.out, running := true } := by
          simp only [Machine.absStep, hinv.running, if_true, zipM, zipStep, zipOnUpdate, hready, hr, id]
          simp [hasTerm]
        have hinv' : ZInv n ((zipM n).absStep a (i, .next v)) (past ++ [(i, .next v)]) k := by
          rw [hstep]
          exact ⟨rfl, hq', fun j hj => Nat.le_trans (hinv.kle j hj) (hlen j hj), hinv.nocomp, hcompl, hr⟩
        rw [hr] at hk
        rw [ih _ _ _ hinv' hlt' hk, hstep]
        simp [zipFrom, hr]
      · -- a row is complete: pop it
        have hrow : (List.range n).filterMap (fun j => ((upd a.st.q i (a.st.q i ++ [v])) j).head?) =
            row n k (past ++ [(i, .next v)]) := by
          unfold row
          apply filterMap_range_congr
          intro j hj
          rw [hq' j hj, List.head?_drop]
        have hnocompl : (List.range n).any (fun j => a.st.completed j && ((upd a.st.q i (a.st.q i ++ [v])) j).tail.isEmpty) = false := by
          rw [List.any_eq_false]
          intro j hj
          simp [hinv.nocomp j (List.mem_range.mp hj)]
        have hstep : (zipM n).absStep a (i, .next v) =
            { st := { a.st with q := fun j => ((upd a.st.q i (a.st.q i ++ [v])) j).tail },
              out := a.out ++ [.next (row n k (past ++ [(i, .next v)]))], running := true } := by
          simp only [Machine.absStep, hinv.running, if_true, zipM, zipStep, zipOnUpdate, hready, hr, id, hrow, hnocompl]
          simp [hasTerm]
        have hkl : ∀ j, j < n → k < (valsOf j (past ++ [(i, .next v)])).length := by
          intro j hj
          have := hr
          unfold rowReady at this
          rw [List.all_eq_true] at this
          simpa using this j (List.mem_range.mpr hj)
        have hnr : rowReady n (k + 1) (past ++ [(i, .next v)]) = false := by
          have h0 := hinv.notready
          unfold rowReady at h0 ⊢
          rw [List.all_eq_false] at h0 ⊢
          obtain ⟨j0, hj0, hnot⟩ := h0
          have hj0n : j0 < n := List.mem_range.mp hj0
          have hle : (valsOf j0 past).length ≤ k := by simpa using hnot
          refine ⟨j0, hj0, ?_⟩
          have hnow := hkl j0 hj0n
          rw [valsOf_snoc_next] at hnow ⊢
          by_cases hij : i = j0
          · simp only [hij, if_true, List.length_append, List.length_singleton] at hnow ⊢
            simp; omega
          · simp only [hij, if_false] at hnow
            omega
        have hdr : drained n (k + 1) (past ++ [(i, .next v)]) = false := by
          unfold drained
          rw [List.any_eq_false]
          intro j hj
          simp [hcompl j (List.mem_range.mp hj)]
        have hinv' : ZInv n ((zipM n).absStep a (i, .next v)) (past ++ [(i, .next v)]) (k + 1) := by
          rw [hstep]
          refine ⟨rfl, ?_, fun j hj => hkl j hj, hinv.nocomp, hcompl, hnr⟩
          intro j hj
          show ((upd a.st.q i (a.st.q i ++ [v])) j).tail = _
          rw [hq' j hj, List.tail_drop]
        rw [hr] at hk
        rw [ih _ _ _ hinv' hlt' hk, hstep]
        simp [zipFrom, hr, hdr, List.append_assoc]
    | error e =>
      have hstep : (zipM n).absStep a (i, .error e) =
          { st := { a.st with completed := upd a.st.completed i true }, out := a.out ++ [.error e], running := false } := by
        simp [Machine.absStep, hinv.running, zipM, zipStep, hasTerm]
      rw [hstep, abs_stopped_out _ _ _ rfl]
      simp [zipFrom]
    | complete =>
      simp only [Known.zipCompleteUnsub, decide_eq_false_iff_not, Nat.not_lt] at hk
      have hempty : (a.st.q i).isEmpty = true := by
        rw [hinv.q i hi]
        simp [List.drop_eq_nil_of_le hk]
      have hstep : (zipM n).absStep a (i, .complete) =
          { st := { a.st with completed := upd a.st.completed i true }, out := a.out ++ [.complete], running := false } := by
        simp [Machine.absStep, hinv.running, zipM, zipStep, hasTerm, hempty]
      rw [hstep, abs_stopped_out _ _ _ rfl]
      have hdr : drained n k (past ++ [(i, .complete)]) = true := by
        unfold drained
        rw [List.any_eq_true]
        refine ⟨i, List.mem_range.mpr hi, ?_⟩
        rw [completed_snoc_complete, valsOf_snoc_complete]
        simp [hk]
      simp [zipFrom, hdr]

/-- **Zip = Spec.zip** for every arity `n ≥ 1`, every tuple of source scripts and every interleaving
    outside the known class. Full statement (false on the pinned tree, see `zip_complete_unsub_witness`):
    `∀ scripts order, (run (zipM n) scripts order).out = Spec.zip n (arrivals (scriptsFn scripts) order)`. -/
theorem zip_spec_partial (n : Nat) (hn : 0 < n) (scripts : List (List (Ev α))) (hlen : scripts.length ≤ n)
    (order : List Nat)
    (hk : Known.zipCompleteUnsub n [] 0 (arrivals (scriptsFn scripts) order) = false) :
    (run (zipM n) scripts order).out = Spec.zip n (arrivals (scriptsFn scripts) order) := by
  have hlen' : scripts.length ≤ (zipM (α := α) n).n := hlen
  rw [run_out_abs (zipM n) (zip_allHot n) scripts hlen' order]
  unfold Machine.abs
  have hinv : ZInv n (zipM (α := α) n).absInit [] 0 := by
    refine ⟨rfl, ?_, ?_, ?_, ?_, ?_⟩
    · intro j _; rfl
    · intro j _; exact Nat.zero_le _
    · intro j _; rfl
    · intro j _; rfl
    · unfold rowReady
      rw [List.all_eq_false]
      exact ⟨0, List.mem_range.mpr hn, by simp [valsOf]⟩
  rw [zip_abs n _ _ [] 0 hinv (arrivals_lt n order _ (scriptsFn_out_of_range scripts n hlen)) hk]
  rfl

end Ro.MultiB

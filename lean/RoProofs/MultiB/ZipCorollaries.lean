/-
  RoProofs.MultiB.ZipCorollaries — zip keeps every source's order and neither loses, duplicates nor
  invents a value: the `j`-th components of the delivered tuples are a prefix of source `j`'s values.
-/
import RoProofs.MultiB.Corollaries
namespace Ro.MultiB
open Spec
variable {α γ : Type}

theorem filterMap_range_all_some (n : Nat) (f : Nat → Option γ) (h : ∀ i, i < n → (f i).isSome = true) :
    ((List.range n).filterMap f).length = n ∧ ∀ j, j < n → ((List.range n).filterMap f)[j]? = f j := by
  induction n with
  | zero => exact ⟨rfl, fun j hj => absurd hj (Nat.not_lt_zero j)⟩
  | succ n ih =>
    have ih' := ih (fun i hi => h i (by omega))
    obtain ⟨v, hv⟩ := Option.isSome_iff_exists.mp (h n (by omega))
    have hlast : List.filterMap f [n] = [v] := by simp [hv]
    rw [List.range_succ, List.filterMap_append, hlast]
    refine ⟨by simp [ih'.1], ?_⟩
    intro j hj
    by_cases hjn : j < n
    · rw [List.getElem?_append_left (by rw [ih'.1]; exact hjn)]
      exact ih'.2 j hjn
    · have : j = n := by omega
      subst this
      rw [List.getElem?_append_right (by rw [ih'.1]; exact Nat.le_refl _), ih'.1]
      simp [hv]

theorem row_component (n k : Nat) (h : Arr α) (hr : rowReady n k h = true) (j : Nat) (hj : j < n) :
    (row n k h)[j]? = (valsOf j h)[k]? := by
  unfold row
  refine (filterMap_range_all_some n (fun i => (valsOf i h)[k]?) ?_).2 j hj
  intro i hi
  unfold rowReady at hr
  rw [List.all_eq_true] at hr
  have := hr i (List.mem_range.mpr hi)
  simp only [decide_eq_true_eq] at this
  simp [this]

theorem valsOf_append (j : Nat) (a b : Arr α) : valsOf j (a ++ b) = valsOf j a ++ valsOf j b := by
  simp [valsOf, List.filterMap_append]

theorem zipFrom_component (n j : Nat) (hj : j < n) (rest : Arr α) (past : Arr α) (k : Nat)
    (hk : ∀ i, i < n → k ≤ (valsOf i past).length) :
    (outVals (zipFrom n past k rest)).filterMap (fun r => r[j]?) <+: (valsOf j (past ++ rest)).drop k := by
  induction rest generalizing past k with
  | nil => simp [zipFrom]
  | cons p r ih =>
    obtain ⟨i, x⟩ := p
    cases x with
    | next v =>
      have happ : past ++ (i, Ev.next v) :: r = (past ++ [(i, Ev.next v)]) ++ r := by simp
      have hlen : ∀ i', (valsOf i' past).length ≤ (valsOf i' (past ++ [(i, Ev.next v)])).length := by
        intro i'; rw [valsOf_snoc_next]; split <;> simp
      simp only [zipFrom]
      cases hr : rowReady n k (past ++ [(i, Ev.next v)])
      · simp only [Bool.false_eq_true, if_false]
        rw [happ]
        exact ih _ k (fun i' hi' => Nat.le_trans (hk i' hi') (hlen i'))
      · simp only [if_true]
        have hkl : ∀ i', i' < n → k < (valsOf i' (past ++ [(i, Ev.next v)])).length := by
          intro i' hi'
          have := hr
          unfold rowReady at this
          rw [List.all_eq_true] at this
          simpa using this i' (List.mem_range.mpr hi')
        have hkj := hkl j hj
        have hkj' : k < (valsOf j ((past ++ [(i, Ev.next v)]) ++ r)).length := by
          rw [valsOf_append]; simp; omega
        rw [happ, List.drop_eq_getElem_cons hkj']
        have hhead : (row n k (past ++ [(i, Ev.next v)]))[j]? = some ((valsOf j ((past ++ [(i, Ev.next v)]) ++ r))[k]) := by
          rw [row_component n k _ hr j hj, ← List.getElem?_eq_getElem hkj',
            valsOf_append j (past ++ [(i, Ev.next v)]) r, List.getElem?_append_left hkj]
        simp only [outVals_next, List.filterMap_cons, hhead]
        rw [List.cons_prefix_cons]
        refine ⟨rfl, ?_⟩
        split
        · have hc : outVals ([Ev.complete] : List (Ev (List α))) = [] := rfl
          rw [hc]; exact List.nil_prefix
        · exact ih _ (k + 1) (fun i' hi' => hkl i' hi')
    | error e =>
      have hc : outVals ([Ev.error e] : List (Ev (List α))) = [] := rfl
      simp only [zipFrom, hc]; exact List.nil_prefix
    | complete =>
      have happ : past ++ (i, Ev.complete) :: r = (past ++ [(i, Ev.complete)]) ++ r := by simp
      simp only [zipFrom]
      split
      · have hc : outVals ([Ev.complete] : List (Ev (List α))) = [] := rfl
        rw [hc]; exact List.nil_prefix
      · rw [happ]
        exact ih _ k (fun i' hi' => by rw [valsOf_snoc_complete]; exact hk i' hi')

/-- **per-source order, no duplication, no invention** for zip: the `j`-th components of the delivered
    tuples are a prefix of what source `j` delivered -/
theorem zip_component_prefix (n j : Nat) (hj : j < n) (arr : Arr α) :
    (outVals (Spec.zip n arr)).filterMap (fun r => r[j]?) <+: valsOf j arr := by
  have := zipFrom_component n j hj arr [] 0 (fun _ _ => Nat.zero_le _)
  simpa [Spec.zip] using this

/-- every delivered tuple has one component per source -/
theorem row_length (n k : Nat) (h : Arr α) (hr : rowReady n k h = true) : (row n k h).length = n := by
  unfold row
  refine (filterMap_range_all_some n (fun i => (valsOf i h)[k]?) ?_).1
  intro i hi
  unfold rowReady at hr
  rw [List.all_eq_true] at hr
  have := hr i (List.mem_range.mpr hi)
  simp only [decide_eq_true_eq] at this
  simp [this]

end Ro.MultiB

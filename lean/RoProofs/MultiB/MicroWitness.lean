/-
  RoProofs.MultiB.MicroWitness — the concurrent clause of C05 ("when sources emit truly concurrently
  the output is the definition's output for some arrival order compatible with each source's own
  order") FAILS in the micro-step model of Zip, CombineLatest, BufferWhen and WindowWhen: for each, a
  schedule whose delivered trace is the specification's value for NO compatible arrival order (and is
  not produced by the logical model either, so it is an effect of the interleaving of atomic steps,
  not of a logical deviation). The same outcomes are found on the real code by the stress
  runs of harness kind `multibc`. (The self-deadlock of Zip and the error overtaken by `Complete`
  are gone with the fix b6f7afa: see `zip_concurrent_error_scenario_ok`.)
-/
import RoModel.MultiB.Micro
namespace Ro.MultiB.Micro
open Ro Ro.MultiB

/-- Zip2, A = 1 then complete, B = 2. B pops (1,2) and releases the mutex; before it calls the
    destination, A's completion finds its queue empty and completes the destination; B's tuple is
    refused: the only tuple is lost. (Still so after the fix b6f7afa: the unlock-then-emit window of
    `onUpdate` is untouched by it.) -/
theorem zip_concurrent_lost_tuple_witness :
    let scripts : List (List (Ev Int)) := [[.next 1, .complete], [.next 2]]
    (runMicro (zipMM 2) scripts [0, 0, 1, 1, 0, 0, 0, 1, 1, 1]).out = [.complete] ∧
    (∀ π ∈ allOrders scripts, Spec.zip 2 (arrivals (scriptsFn scripts) π) ≠ [.complete]) ∧
    (∀ π ∈ allOrders scripts, (run (zipM 2) scripts π).out ≠ [.complete]) := by decide

/-- What the fix b6f7afa did repair in the concurrent behaviour, on the scenarios where the pinned
    code went wrong: over *all* schedules of the micro-step model, (i) A = 1 then error, B = 2: the
    delivered trace is always one the specification allows (the error is never overtaken by a
    `Complete` any more); (ii) A = 1 then complete, B = 2: the only traces are the specified one and
    the lost-tuple one above. No step of the model calls the destination while holding the mutex, so
    the self-deadlock of the pinned code (`destination.Complete` under the mutex, teardown locking
    it) has no counterpart. -/
theorem zip_concurrent_error_scenario_ok :
    let scripts : List (List (Ev Int)) := [[.next 1, .error (.user 1)], [.next 2]]
    ∀ s ∈ reach (zipMM 2) 40 ((zipMM 2).start scripts),
      s.out = [.error (.user 1)] ∨ s.out = [.next [1, 2], .error (.user 1)] := by decide

theorem zip_concurrent_complete_scenario_outcomes :
    let scripts : List (List (Ev Int)) := [[.next 1, .complete], [.next 2]]
    ∀ s ∈ reach (zipMM 2) 40 ((zipMM 2).start scripts),
      s.out = [.next [1, 2], .complete] ∨ s.out = [.complete] := by decide

/-- Zip2 can also deliver tuples out of order: A pops (1,3) and is delayed before calling the
    destination while B completes the next tuple (2,4) and delivers it first. -/
theorem zip_concurrent_reorder_witness :
    let scripts : List (List (Ev Int)) := [[.next 1, .next 2], [.next 3, .next 4]]
    (runMicro (zipMM 2) scripts [0, 0, 0, 1, 0, 1, 1, 1, 1, 1, 0, 0]).out = [.next [2, 4], .next [1, 3]] ∧
    (∀ π ∈ allOrders scripts, Spec.zip 2 (arrivals (scriptsFn scripts) π) = [.next [1, 3], .next [2, 4]]) := by decide

/-- CombineLatest2, A = 1, B = 2: both store their value, then each loads the other's: the first
    tuple is delivered twice. -/
theorem combineLatest_concurrent_duplicate_witness :
    let scripts : List (List (Ev Int)) := [[.next 1], [.next 2]]
    (runMicro (clMM 2) scripts [0, 1, 0, 0, 0, 1, 1, 1]).out = [.next [1, 2], .next [1, 2]] ∧
    (∀ π ∈ allOrders scripts, Spec.combineLatest 2 (arrivals (scriptsFn scripts) π) = [.next [1, 2]]) := by decide

/-- BufferWhen, source = 1 then complete, boundary = one tick: the tick takes the buffer [1] under
    the spinlock; before it delivers it, the source's completion flushes the (new, empty) buffer and
    completes; the buffer [1] is refused: the value is lost. -/
theorem bufferWhen_concurrent_lost_buffer_witness :
    let scripts : List (List (Ev Int)) := [[.next 1, .complete], [.next 0]]
    (runMicro bwMM scripts [0, 1, 0, 0, 0, 1]).out = [.next [], .complete] ∧
    (∀ π ∈ allOrders scripts, Spec.bufferWhen (arrivals (scriptsFn scripts) π) ≠ [.next [], .complete]) := by decide

/-- WindowWhen, source = 1, boundary = one tick: the source picks the current window under the
    spinlock; before it feeds it, the tick completes that window; the value is refused by the closed
    unicast subject: it appears in no window. -/
theorem windowWhen_concurrent_lost_value_witness :
    let scripts : List (List (Ev Int)) := [[.next 1], [.next 0]]
    let r := runMicro wwMM scripts [0, 1, 1, 1, 0]
    viewOut r.shared.wins r.out = [.next [.complete], .next []] ∧
    (∀ π ∈ allOrders scripts, Spec.windowWhen (arrivals (scriptsFn scripts) π) ≠ [.next [.complete], .next []]) := by decide

/-! sanity: a schedule that runs every callback to its end gives the logical model's trace -/
example : (runMicro (zipMM 2) [[Ev.next (1:Int), .complete], [.next 2]] [0, 0, 1, 1, 1, 1, 0, 0, 0]).out
    = (run (zipM 2) [[Ev.next (1:Int), .complete], [.next 2]] [0, 1, 0]).out := by decide
example : (runMicro bwMM [[Ev.next (1:Int), .complete], [.next 0]] [0, 1, 1, 0, 0, 0]).out
    = (run bufferWhenM [[Ev.next (1:Int), .complete], [.next 0]] [0, 1, 0]).out := by decide

end Ro.MultiB.Micro

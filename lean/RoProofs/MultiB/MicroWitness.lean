/-
  RoProofs.MultiB.MicroWitness — the concurrent clause of C05 ("when sources emit truly concurrently
  the output is the definition's output for some arrival order compatible with each source's own
  order") FAILS in the micro-step model of Zip, CombineLatest, BufferWhen and WindowWhen: for each, a
  schedule whose delivered trace is the specification's value for NO compatible arrival order (and is
  not produced by the logical model either, so it is an effect of the interleaving of atomic steps,
  not of the known logical deviations). The same outcomes are found on the real code by the stress
  runs of harness kind `multibc`.
-/
import RoModel.MultiB.Micro
namespace Ro.MultiB.Micro
open Ro Ro.MultiB

/-- Zip2, A = 1 then complete, B = 2. B pops (1,2) and releases the mutex; before it calls the
    destination, A's completion finds its queue empty and completes the destination; B's tuple is
    refused: the only tuple is lost. -/
theorem zip_concurrent_lost_tuple_witness :
    let scripts : List (List (Ev Int)) := [[.next 1, .complete], [.next 2]]
    (runMicro (zipMM 2) scripts [0, 1, 1, 0, 0, 0, 1, 1]).out = [.complete] ∧
    (∀ π ∈ allOrders scripts, Spec.zip 2 (arrivals (scriptsFn scripts) π) ≠ [.complete]) ∧
    (∀ π ∈ allOrders scripts, (run (zipM 2) scripts π).out ≠ [.complete]) := by decide

/-- Zip2, same scripts. A's completion marks A completed (its queue is empty) but has not yet
    called the destination; B, after delivering (1,2), re-locks the mutex, sees a finished drained
    source and completes the destination *while holding the mutex*; the teardown that runs inside
    that call locks the same mutex: self-deadlock (operator_combining.go:1183-1188, 1198-1202). -/
theorem zip_concurrent_deadlock_witness :
    let scripts : List (List (Ev Int)) := [[.next 1, .complete], [.next 2]]
    let r := runMicro (zipMM 2) scripts [0, 0, 1, 1, 1, 0, 1]
    r.out = [.next [1, 2], .complete] ∧ r.dead = true := by decide

/-- Zip2 can also deliver tuples out of order: A pops (1,3) and is delayed before calling the
    destination while B completes the next tuple (2,4) and delivers it first. -/
theorem zip_concurrent_reorder_witness :
    let scripts : List (List (Ev Int)) := [[.next 1, .next 2], [.next 3, .next 4]]
    (runMicro (zipMM 2) scripts [0, 0, 0, 1, 0, 1, 1, 1, 1, 1, 0, 0]).out = [.next [2, 4], .next [1, 3]] ∧
    (∀ π ∈ allOrders scripts, Spec.zip 2 (arrivals (scriptsFn scripts) π) = [.next [1, 3], .next [2, 4]]) := by decide

/-- CombineLatest2, A = 1, B = 2: both store their value, then each loads the other's: the first
    tuple is delivered twice. -/
theorem combineLatest_concurrent_duplicate_witness :
    let scripts : List (List (Ev Int)) := [[.next 1], [.next 2]]
    (runMicro (clMM 2) scripts [0, 1, 0, 0, 0, 1, 1, 1]).out = [.next [1, 2], .next [1, 2]] ∧
    (∀ π ∈ allOrders scripts, Spec.combineLatest 2 (arrivals (scriptsFn scripts) π) = [.next [1, 2]]) := by decide

/-- BufferWhen, source = 1 then complete, boundary = one tick: the tick takes the buffer [1] under
    the spinlock; before it delivers it, the source's completion flushes the (new, empty) buffer and
    completes; the buffer [1] is refused: the value is lost. -/
theorem bufferWhen_concurrent_lost_buffer_witness :
    let scripts : List (List (Ev Int)) := [[.next 1, .complete], [.next 0]]
    (runMicro bwMM scripts [0, 1, 0, 0, 0, 1]).out = [.next [], .complete] ∧
    (∀ π ∈ allOrders scripts, Spec.bufferWhen (arrivals (scriptsFn scripts) π) ≠ [.next [], .complete]) := by decide

/-- WindowWhen, source = 1, boundary = one tick: the source picks the current window under the
    spinlock; before it feeds it, the tick completes that window; the value is refused by the closed
    unicast subject: it appears in no window. -/
theorem windowWhen_concurrent_lost_value_witness :
    let scripts : List (List (Ev Int)) := [[.next 1], [.next 0]]
    let r := runMicro wwMM scripts [0, 1, 1, 1, 0]
    viewOut r.shared.wins r.out = [.next [.complete], .next []] ∧
    (∀ π ∈ allOrders scripts, Spec.windowWhen (arrivals (scriptsFn scripts) π) ≠ [.next [.complete], .next []]) := by decide

/-! sanity: a schedule that runs every callback to its end gives the logical model's trace -/
example : (runMicro (zipMM 2) [[Ev.next (1:Int), .complete], [.next 2]] [0, 0, 1, 1, 1, 1, 0, 0, 0]).out
    = (run (zipM 2) [[Ev.next (1:Int), .complete], [.next 2]] [0, 1, 0]).out := by decide
example : (runMicro bwMM [[Ev.next (1:Int), .complete], [.next 0]] [0, 1, 1, 0, 0, 0]).out
    = (run bufferWhenM [[Ev.next (1:Int), .complete], [.next 0]] [0, 1, 0]).out := by decide

end Ro.MultiB.Micro

/-
  RoProofs.MultiB.WindowWhen — WindowWhen delivers one window per segment of the source's values
  (partitioned at the boundary ticks), every window carrying its segment and completing at the tick
  that closes it or when the output ends, for every pair of scripts and every interleaving.
-/
import RoProofs.MultiB.BufferWhen
import RoModel.MultiB.WindowWhen
namespace Ro.MultiB
open Spec
variable {α : Type}

theorem windowWhen_allHot : AllHot (windowWhenM (α := α)) where
  start_subs := rfl
  step_subs := by
    intro st i x
    cases x <;> rcases i with _ | i <;> rfl
  hot := rfl
  start_gated := rfl
  step_gated := by
    intro st i x
    cases x <;> rcases i with _ | i <;> rfl

/-! ### the view of a downstream trace made of window ids -/

theorem viewOut_append (ws : List (Subj α)) (a b : List (Ev Nat)) :
    viewOut ws (a ++ b) = viewOut ws a ++ viewOut ws b := by
  simp [viewOut]

/-- windows `0, 1, …, n-1` emitted in order: the view lists what every recorder received -/
theorem viewOut_range (ws : List (Subj α)) :
    viewOut ws ((List.range ws.length).map .next) = ws.map (fun w => .next w.rcv) := by
  apply List.ext_getElem
  · simp [viewOut]
  · intro i h1 h2
    have hi : i < ws.length := by simpa [viewOut] using h1
    simp [viewOut, Ev.map, hi]

/-- a window whose recorder has received `r` and that has completed -/
def closedS (r : List (Ev α)) : Subj α := { status := .completed, attached := false, queue := [], rcv := r }
/-- the current window, its recorder attached, having received `r` -/
def openS (r : List (Ev α)) : Subj α := { status := .active, attached := true, queue := [], rcv := r }

theorem view_wins (done : List (List (Ev α))) (last : Subj α) :
    viewOut (done.map closedS ++ [last]) ((List.range (done.length + 1)).map .next)
      = done.map .next ++ [.next last.rcv] := by
  have h := viewOut_range (done.map closedS ++ [last])
  have hl : (done.map closedS ++ [last]).length = done.length + 1 := by simp
  rw [hl] at h
  rw [h]
  simp [closedS, Function.comp_def]

/-- what the downstream sees from the current window's values `buf` on -/
def wwFrom (buf : List α) : Arr α → List (Ev (List (Ev α)))
  | [] => [.next (openWin buf)]
  | (i, .next v) :: r => if i = 0 then wwFrom (buf ++ [v]) r else .next (closedWin buf) :: wwFrom [] r
  | (_, .error e) :: _ => [.next (closedWin buf), .error e]
  | (_, .complete) :: _ => [.next (closedWin buf), .complete]

/-- once stopped, the windows do not change any more -/
theorem windowWhen_stopped_st (l : Arr α) (b : Acc (WinSt α) Nat) (hb : b.running = false) :
    (l.foldl (windowWhenM (α := α)).absStep b).st = b.st := by
  induction l generalizing b with
  | nil => rfl
  | cons q l ih =>
    simp only [List.foldl_cons]
    have h := absStep_stopped windowWhenM b q hb
    rw [ih _ h.2]
    simp [Machine.absStep, hb, windowWhenM]

theorem windowWhen_abs_running (arr : Arr α) (a : Acc (WinSt α) Nat) (done : List (List (Ev α))) (buf : List α)
    (hrun : a.running = true)
    (hwins : a.st.wins = done.map closedS ++ [openS (openWin buf)])
    (hout : a.out = (List.range (done.length + 1)).map .next) :
    viewOut (arr.foldl (windowWhenM (α := α)).absStep a).st.wins (arr.foldl (windowWhenM (α := α)).absStep a).out
      = done.map .next ++ wwFrom buf arr := by
  induction arr generalizing a done buf with
  | nil =>
    simp only [List.foldl_nil, wwFrom]
    rw [hwins, hout, view_wins]
    rfl
  | cons p r ih =>
    obtain ⟨i, x⟩ := p
    simp only [List.foldl_cons]
    cases x with
    | next v =>
      by_cases hi : i = 0
      · subst hi
        have hstep : (windowWhenM (α := α)).absStep a (0, .next v) =
            { st := { wins := done.map closedS ++ [openS (openWin (buf ++ [v]))] },
              out := (List.range (done.length + 1)).map .next, running := true } := by
          simp [Machine.absStep, hrun, windowWhenM, windowWhenStep, WinSt.modLast, hasTerm, Subj.next, hwins, hout,
            openS, openWin]
        rw [hstep, ih _ done (buf ++ [v]) rfl rfl rfl]
        simp [wwFrom]
      · have hstep : (windowWhenM (α := α)).absStep a (i, .next v) =
            { st := { wins := (done ++ [closedWin buf]).map closedS ++ [openS (openWin [])] },
              out := (List.range ((done ++ [closedWin buf]).length + 1)).map .next, running := true } := by
          rcases i with _ | i
          · exact absurd rfl hi
          · simp [Machine.absStep, hrun, windowWhenM, windowWhenStep, winFlush, WinSt.modLast, hasTerm,
              Subj.complete, Subj.subscribe, hwins, hout, openS, closedS, openWin, closedWin,
              List.range_succ]
        rw [hstep, ih _ (done ++ [closedWin buf]) [] rfl rfl rfl]
        simp [wwFrom, hi]
    | error e =>
      have hstep : (windowWhenM (α := α)).absStep a (i, .error e) =
          { st := { wins := done.map closedS ++ [closedS (closedWin buf)] },
            out := (List.range (done.length + 1)).map .next ++ [.error e], running := false } := by
        rcases i with _ | i <;>
          simp [Machine.absStep, hrun, windowWhenM, windowWhenStep, winFlush, WinSt.modLast, hasTerm,
            Subj.complete, hwins, hout, openS, closedS, openWin, closedWin]
      rw [hstep, abs_stopped_out _ _ _ rfl, windowWhen_stopped_st _ _ rfl]
      simp only []
      rw [viewOut_append, view_wins]
      simp [wwFrom, viewOut, Ev.map, closedS]
    | complete =>
      have hstep : (windowWhenM (α := α)).absStep a (i, .complete) =
          { st := { wins := done.map closedS ++ [closedS (closedWin buf)] },
            out := (List.range (done.length + 1)).map .next ++ [.complete], running := false } := by
        rcases i with _ | i <;>
          simp [Machine.absStep, hrun, windowWhenM, windowWhenStep, winFlush, WinSt.modLast, hasTerm,
            Subj.complete, hwins, hout, openS, closedS, openWin, closedWin]
      rw [hstep, abs_stopped_out _ _ _ rfl, windowWhen_stopped_st _ _ rfl]
      simp only []
      rw [viewOut_append, view_wins]
      simp [wwFrom, viewOut, Ev.map, closedS]

theorem segmentsWith_ne_nil (buf : List α) (l : Arr α) : segmentsWith buf l ≠ [] := by
  unfold segmentsWith
  split <;> simp

theorem wwFrom_eq (buf : List α) (arr : Arr α) :
    wwFrom buf arr =
      match stop arr with
      | none => (segmentsWith buf (body arr)).dropLast.map (fun s => .next (closedWin s))
                ++ ((segmentsWith buf (body arr)).getLast?.toList.map (fun s => .next (openWin s)))
      | some (.error e) => (segmentsWith buf (body arr)).map (fun s => .next (closedWin s)) ++ [.error e]
      | some _ => (segmentsWith buf (body arr)).map (fun s => .next (closedWin s)) ++ [.complete] := by
  induction arr generalizing buf with
  | nil => simp [wwFrom, stop, body, segmentsWith, segments]
  | cons p r ih =>
    obtain ⟨i, x⟩ := p
    cases x with
    | next v =>
      have hb : body ((i, Ev.next v) :: r) = (i, .next v) :: body r := by simp [body]
      have hs : stop ((i, Ev.next v) :: r) = stop r := by simp [stop]
      rw [hb, hs]
      by_cases hi : i = 0
      · subst hi
        have hseg : segmentsWith buf ((0, Ev.next v) :: body r) = segmentsWith (buf ++ [v]) (body r) := by
          unfold segmentsWith
          simp only [segments, if_true]
          cases hsg : segments (body r) with
          | nil => exact absurd hsg (segments_ne_nil _)
          | cons s ss => simp
        rw [hseg]
        simp only [wwFrom, if_true]
        exact ih (buf ++ [v])
      · have hseg : segmentsWith buf ((i, Ev.next v) :: body r) = buf :: segments (body r) := by
          unfold segmentsWith
          simp [segments, hi]
        rw [hseg]
        simp only [wwFrom, hi, if_false]
        rw [ih [], segmentsWith_nil]
        have hne := segments_ne_nil (body r)
        cases hst : stop r with
        | none => simp [List.dropLast_cons_of_ne_nil hne, List.getLast?_cons_of_ne_nil hne]
        | some t =>
          cases t with
          | next w => simp
          | error e => simp
          | complete => simp
    | error e => simp [wwFrom, stop, body, segmentsWith, segments, List.find?, List.takeWhile]
    | complete => simp [wwFrom, stop, body, segmentsWith, segments, List.find?, List.takeWhile]

/-- **WindowWhen = Spec.windowWhen**, for every pair of source scripts and every interleaving. -/
theorem windowWhen_spec (scripts : List (List (Ev α))) (hlen : scripts.length ≤ 2) (order : List Nat) :
    viewOut (run windowWhenM scripts order).m.wins (run windowWhenM scripts order).out
      = Spec.windowWhen (arrivals (scriptsFn scripts) order) := by
  rw [run_out_abs windowWhenM windowWhen_allHot scripts hlen order,
    run_st_abs windowWhenM windowWhen_allHot scripts hlen order]
  show viewOut (windowWhenM.abs _).st.wins _ = _
  unfold Machine.abs
  rw [windowWhen_abs_running _ _ [] [] rfl rfl rfl]
  rw [List.map_nil, List.nil_append, wwFrom_eq, segmentsWith_nil]
  rfl

example :
    viewOut (run (windowWhenM (α := Int)) [[.next 1, .next 2, .next 3, .complete], [.next 0, .next 0]] [0, 1, 0, 0, 1, 0]).m.wins
        (run (windowWhenM (α := Int)) [[.next 1, .next 2, .next 3, .complete], [.next 0, .next 0]] [0, 1, 0, 0, 1, 0]).out
      = [.next [.next 1, .complete], .next [.next 2, .next 3, .complete], .next [.complete], .complete] := by
  decide

example :
    Spec.windowWhen (arrivals (scriptsFn [[Ev.next (1 : Int), .next 2, .next 3, .complete], [.next 0, .next 0]]) [0, 1, 0, 0, 1, 0])
      = [.next [.next 1, .complete], .next [.next 2, .next 3, .complete], .next [.complete], .complete] := by
  decide

end Ro.MultiB

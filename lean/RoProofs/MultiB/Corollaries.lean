/-
  RoProofs.MultiB.Corollaries — consequences of the `machine = specification` equalities that C05
  names explicitly: the delivered trace obeys the grammar; each source's values keep their order;
  nothing is lost, duplicated or invented.
-/
import RoProofs.MultiB.Arrivals
namespace Ro.MultiB
open Spec
variable {σ α β γ : Type}

/-! ### the delivered trace of *any* multi-source machine obeys the grammar -/

theorem grammar_append_of_noTerm (a : List (Ev β)) (x : Ev β) (ha : hasTerm a = false) : Grammar (a ++ [x]) := by
  induction a with
  | nil => simp [Grammar]
  | cons y ys ih =>
    simp only [hasTerm_cons, Bool.or_eq_false_iff] at ha
    simp only [List.cons_append, Grammar, ha.1]
    exact ih ha.2

theorem grammar_of_noTerm (a : List (Ev β)) (ha : hasTerm a = false) : Grammar a := by
  induction a with
  | nil => trivial
  | cons y ys ih =>
    simp only [hasTerm_cons, Bool.or_eq_false_iff] at ha
    simp only [Grammar, ha.1]
    exact ih ha.2

/-- gate invariant: while the downstream is open nothing terminal has been delivered -/
def GateInv (s : St σ α β) : Prop := Grammar s.out ∧ (s.downOpen = true → hasTerm s.out = false)

theorem push_gateInv (s : St σ α β) (x : Ev β) (h : GateInv s) : GateInv (s.push x) := by
  unfold St.push
  cases hd : s.downOpen
  · exact ⟨h.1, by intro hc; simp at hc⟩
  · have hn := h.2 hd
    refine ⟨grammar_append_of_noTerm _ _ hn, ?_⟩
    intro hc
    simp only [if_true] at hc
    simp only [if_true, hasTerm_append, hn, hasTerm_cons, hasTerm_nil, Bool.or_false, Bool.false_or]
    simpa using hc

theorem foldl_push_gateInv (l : List (Ev β)) (s : St σ α β) (h : GateInv s) : GateInv (l.foldl St.push s) := by
  induction l generalizing s with
  | nil => exact h
  | cons x xs ih => exact ih _ (push_gateInv s x h)

theorem apply_gateInv (hot : Bool) (s : St σ α β) (e : Eff σ α β) (h : GateInv s) : GateInv (s.apply hot e) := by
  unfold St.apply
  have h0 : GateInv ({ s with m := e.st, drops := s.drops ++ e.sdrops.map .subj } : St σ α β) := h
  have h1 := foldl_push_gateInv e.emits _ h0
  generalize e.emits.foldl St.push ({ s with m := e.st, drops := s.drops ++ e.sdrops.map .subj } : St σ α β) = s1 at h1
  simp only []
  have hff := foldl_subscribeOne_fields e.subscribe (if (e.unsubAll || hot && !s1.downOpen) = true then s1.releaseAll else s1)
  unfold GateInv
  rw [hff.2.2.1, hff.2.2.2.1]
  split
  · exact h1
  · exact h1

theorem feed_gateInv (m : Machine σ α β) (s : St σ α β) (i : Nat) (h : GateInv s) : GateInv (s.feed m i) := by
  simp only [St.feed, St.issue]
  cases hr : s.rest i with
  | nil => exact h
  | cons x r =>
    simp only []
    cases hst : s.status i
    · exact h
    · simp only []
      split
      · exact apply_gateInv _ _ _ h
      · exact apply_gateInv _ _ _ h
    · exact h

/-- **Grammar**: whatever the machine, the scripts and the interleaving, the delivered trace is
    values, then at most one terminal, then nothing. -/
theorem run_grammar (m : Machine σ α β) (scripts : List (List (Ev α))) (order : List Nat) :
    Grammar (run m scripts order).out := by
  have h0 : GateInv (m.init (scriptsFn scripts)) :=
    apply_gateInv _ _ _ ⟨trivial, fun _ => rfl⟩
  have : ∀ (os : List Nat) (s : St σ α β), GateInv s → GateInv (os.foldl (St.feed m) s) := by
    intro os
    induction os with
    | nil => intro s h; exact h
    | cons i os ih => intro s h; exact ih _ (feed_gateInv m s i h)
  exact (this order _ h0).1

/-! ### values of a trace -/

def outVals (l : List (Ev γ)) : List γ := l.filterMap Ev.val?

@[simp] theorem outVals_nil : outVals ([] : List (Ev γ)) = [] := rfl
@[simp] theorem outVals_next (v : γ) (l : List (Ev γ)) : outVals (.next v :: l) = v :: outVals l := rfl
@[simp] theorem outVals_error (e : Err) (l : List (Ev γ)) : outVals (.error e :: l) = outVals l := rfl
@[simp] theorem outVals_complete (l : List (Ev γ)) : outVals (.complete :: l) = outVals l := rfl
theorem outVals_append (a b : List (Ev γ)) : outVals (a ++ b) = outVals a ++ outVals b := by
  simp [outVals, List.filterMap_append]
theorem outVals_map_next (l : List γ) : outVals (l.map Ev.next) = l := by
  induction l with
  | nil => rfl
  | cons x xs ih => simp [ih]

/-! ### concat: the delivered values are a subsequence of the arrivals, in arrival order -/

theorem concat_values_sublist (n : Nat) (outer : OuterEnd) (k : Nat) (arr : Arr α) :
    (outVals (concatFrom n outer k arr)).Sublist (arr.filterMap (fun p => p.2.val?)) := by
  induction arr generalizing k with
  | nil => simp [concatFrom]
  | cons p r ih =>
    obtain ⟨i, x⟩ := p
    simp only [concatFrom]
    split
    · cases x with
      | next v =>
        simp only [outVals_next, List.filterMap_cons, Ev.val?]
        exact (ih k).cons_cons v
      | error e => simp [Ev.val?]
      | complete =>
        simp only [List.filterMap_cons, Ev.val?]
        split
        · exact ih (k + 1)
        · cases outer <;> simp [outerEmits]
    · cases x with
      | next v =>
        simp only [List.filterMap_cons, Ev.val?]
        exact (ih k).cons v
      | error e => simpa [Ev.val?] using ih k
      | complete => simpa [Ev.val?] using ih k

/-! ### bufferWhen / windowWhen: the segments are a partition of the source's values -/

theorem segments_flatten (l : Arr α) : (segments l).flatten = valsOf 0 l := by
  induction l with
  | nil => rfl
  | cons p r ih =>
    obtain ⟨i, x⟩ := p
    cases x with
    | next v =>
      simp only [segments]
      by_cases hi : i = 0
      · subst hi
        simp only [if_true]
        cases hs : segments r with
        | nil => rw [hs] at ih; simp [valsOf, Ev.val?] at ih ⊢; exact ih
        | cons s ss =>
          rw [hs] at ih
          have hv : valsOf 0 ((0, Ev.next v) :: r) = v :: valsOf 0 r := by simp [valsOf, Ev.val?]
          rw [hv, ← ih]
          simp
      · simp only [hi, if_false, List.flatten_cons, List.nil_append, ih]
        simp [valsOf, hi]
    | error e => simp only [segments, ih]; simp [valsOf, Ev.val?]
    | complete => simp only [segments, ih]; simp [valsOf, Ev.val?]

/-- no loss, no duplication, order kept: when either source completes, the delivered buffers,
    concatenated, are exactly the values the source delivered before that -/
theorem bufferWhen_partition (arr : Arr α) (h : stop arr = some .complete) :
    (outVals (Spec.bufferWhen arr)).flatten = valsOf 0 (body arr) := by
  unfold Spec.bufferWhen
  rw [h]
  simp only []
  have hc : outVals ([Ev.complete] : List (Ev (List α))) = [] := rfl
  rw [outVals_append, outVals_map_next, ← segments_flatten, hc, List.append_nil]

/-- … and in every case they are a prefix of them (nothing invented, nothing reordered) -/
theorem bufferWhen_prefix (arr : Arr α) : (outVals (Spec.bufferWhen arr)).flatten <+: valsOf 0 (body arr) := by
  unfold Spec.bufferWhen
  have hpre : ((segments (body arr)).dropLast).flatten <+: valsOf 0 (body arr) := by
    rw [← segments_flatten]
    have := List.dropLast_prefix (segments (body arr))
    obtain ⟨t, ht⟩ := this
    exact ⟨t.flatten, by rw [← List.flatten_append, ht]⟩
  have hall : (outVals ((segments (body arr)).map Ev.next ++ [Ev.complete])).flatten <+: valsOf 0 (body arr) := by
    have hc : outVals ([Ev.complete] : List (Ev (List α))) = [] := rfl
    rw [outVals_append, outVals_map_next, ← segments_flatten, hc, List.append_nil]
    exact List.prefix_refl _
  cases hs : stop arr with
  | none => simp only []; rw [outVals_map_next]; exact hpre
  | some t =>
    cases t with
    | next v => exact hall
    | error e =>
      simp only []
      have he : outVals ([Ev.error e] : List (Ev (List α))) = [] := rfl
      rw [outVals_append, outVals_map_next, he, List.append_nil]
      exact hpre
    | complete => exact hall

end Ro.MultiB

/-
  RoProofs.MultiB.All — ZipAll / Zip and CombineLatestAll / CombineLatestAny over an outer source
  that emits its `n` inner sources and ends inside `Subscribe`.
-/
import RoProofs.MultiB.Zip
import RoProofs.MultiB.CombineLatest
namespace Ro.MultiB
open Spec
variable {σ α β : Type}

/-! ### an operator that never subscribes anything delivers what its subscribe function emits -/

theorem feed_idle (m : Machine σ α β) (s : St σ α β) (i : Nat) (h : ∀ j, s.status j = .idle) :
    (s.feed m i).out = s.out ∧ ∀ j, (s.feed m i).status j = .idle := by
  cases hr : s.rest i with
  | nil => rw [feed_nil m s i hr]; exact ⟨rfl, h⟩
  | cons x r =>
    simp only [St.feed, St.issue, hr, h i]
    exact ⟨trivial, h⟩

theorem foldl_feed_idle (m : Machine σ α β) (order : List Nat) (s : St σ α β) (h : ∀ j, s.status j = .idle) :
    (order.foldl (St.feed m) s).out = s.out ∧ ∀ j, (order.foldl (St.feed m) s).status j = .idle := by
  induction order generalizing s with
  | nil => exact ⟨rfl, h⟩
  | cons i os ih =>
    simp only [List.foldl_cons]
    have h1 := feed_idle m s i h
    have h2 := ih (s.feed m i) h1.2
    exact ⟨h2.1.trans h1.1, h2.2⟩

theorem run_idle (m : Machine σ α β) (hs : m.start.subscribe = []) (scripts : List (List (Ev α))) (order : List Nat) :
    (run m scripts order).out = gateEv m.start.emits ∧ ∀ j, (run m scripts order).status j = .idle := by
  have hf := apply_facts m.hotTeardown ({ m := m.start.st, rest := scriptsFn scripts } : St σ α β) m.start rfl
  have hT : m.init (scriptsFn scripts) = St.apply m.hotTeardown ({ m := m.start.st, rest := scriptsFn scripts } : St σ α β) m.start := rfl
  rw [← hT, hs] at hf
  have hidle : ∀ j, (m.init (scriptsFn scripts)).status j = .idle := by
    intro j
    rw [hf.2.2.2.2 j, statusAfter_nosub]
    simp
  have := foldl_feed_idle m order _ hidle
  refine ⟨?_, this.2⟩
  show (runCore m (scriptsFn scripts) order).out = _
  unfold runCore
  rw [this.1, hf.2.2.1]
  rfl

/-! ### ZipAll -/

theorem zipAll_allHot (n : Nat) : AllHot (zipAllM (α := α) n .complete) where
  start_subs := rfl
  step_subs := zipStep_subs n
  hot := rfl
  start_gated := rfl
  step_gated := zipStep_gated n

/-- what ZipAll does: as soon as the outer source has completed, the destination is completed —
    whatever the inner sources say afterwards -/
theorem zipAll_out (n : Nat) (outer : OuterEnd) (scripts : List (List (Ev α))) (hlen : scripts.length ≤ n) (order : List Nat) :
    (run (zipAllM n outer) scripts order).out = Spec.outerEmits outer := by
  cases outer with
  | never => exact (run_idle (zipAllM n .never) rfl scripts order).1
  | error e => exact (run_idle (zipAllM n (.error e)) rfl scripts order).1
  | complete =>
    have hlen' : scripts.length ≤ (zipAllM (α := α) n .complete).n := hlen
    rw [run_out_abs _ (zipAll_allHot n) scripts hlen' order]
    unfold Machine.abs
    rw [abs_stopped_out _ _ _ rfl]
    rfl

/-- … and every inner source is released -/
theorem zipAll_released (n : Nat) (scripts : List (List (Ev α))) (hlen : scripts.length ≤ n) (order : List Nat) (j : Nat) :
    (run (zipAllM n .complete) scripts order).status j ≠ .live := by
  have hlen' : scripts.length ≤ (zipAllM (α := α) n .complete).n := hlen
  apply run_released _ (zipAll_allHot n) scripts hlen' order
  rw [zipAll_out n .complete scripts hlen order]
  rfl

/-- **ZipAll = Spec.zipAll** where the outer source does not complete, or has no inner sources.
    Full statement (false on the pinned tree, see `zipAll_outer_complete_witness`): for every `outer`. -/
theorem zipAll_spec_partial (n : Nat) (outer : OuterEnd) (scripts : List (List (Ev α))) (hlen : scripts.length ≤ n)
    (order : List Nat) (hk : outer ≠ .complete ∨ n = 0) :
    (run (zipAllM n outer) scripts order).out = Spec.zipAll n outer (arrivals (scriptsFn scripts) order) := by
  rw [zipAll_out n outer scripts hlen order]
  cases outer with
  | never => rfl
  | error e => rfl
  | complete =>
    rcases hk with h | h
    · exact absurd rfl h
    · subst h; rfl

/-! ### CombineLatestAll -/

/-- **CombineLatestAll = Spec.combineLatestAll**, for every number of inner sources, every ending of
    the outer source, every tuple of scripts and every interleaving. -/
theorem combineLatestAll_spec (n : Nat) (outer : OuterEnd) (scripts : List (List (Ev α))) (hlen : scripts.length ≤ n)
    (order : List Nat) :
    (run (combineLatestAllM n outer) scripts order).out = Spec.combineLatestAll n outer (arrivals (scriptsFn scripts) order) := by
  cases outer with
  | never => exact (run_idle (combineLatestAllM n .never) rfl scripts order).1
  | error e => exact (run_idle (combineLatestAllM n (.error e)) rfl scripts order).1
  | complete =>
    by_cases hn : n = 0
    · subst hn
      have : (combineLatestAllM (α := α) 0 .complete).start.subscribe = [] := rfl
      exact (run_idle (combineLatestAllM 0 .complete) this scripts order).1
    · have hm : combineLatestAllM (α := α) n .complete = combineLatestM n := by
        simp [combineLatestAllM, combineLatestM, hn]
      rw [hm, combineLatest_spec n (by omega) scripts hlen order]
      simp [Spec.combineLatestAll, hn]

end Ro.MultiB

/-
  RoProofs.MultiB.Concat — ConcatAll delivers its sources one after another, for every tuple of
  source scripts and every interleaving. ConcatAll subscribes its sources one at a time, so the
  all-hot abstraction of `RoProofs.MultiB.Core` does not apply; the run is followed directly with
  an invariant indexed by the source whose turn it is.
-/
import RoProofs.MultiB.Core
import RoModel.MultiB.Concat
import RoModel.Spec.MultiB
namespace Ro.MultiB
open Spec
variable {σ α β : Type}

/-! ### generic facts about the run that `RoProofs.MultiB.Core` does not state -/

theorem foldl_subscribeOne_subs (l : List Nat) (s : St σ α β) (j : Nat) :
    (l.foldl St.subscribeOne s).subs j =
      if j ∈ l ∧ s.status j = .idle then s.subs j + 1 else s.subs j := by
  induction l generalizing s with
  | nil => simp
  | cons x xs ih =>
    simp only [List.foldl_cons]
    rw [ih]
    unfold St.subscribeOne
    by_cases hx : s.status x = .idle
    · simp only [hx, if_true]
      by_cases hjx : j = x
      · subst hjx
        cases hd : s.subsDone <;> simp [upd, hx]
      · simp [upd, hjx]
    · simp only [hx, if_false]
      by_cases hjx : j = x
      · subst hjx; simp [hx]
      · simp [hjx]

/-- subscription counts after a callback: the idle sources it subscribes are counted once -/
theorem apply_subs (hot : Bool) (s : St σ α β) (e : Eff σ α β) (j : Nat) :
    (s.apply hot e).subs j = if j ∈ e.subscribe ∧ s.status j = .idle then s.subs j + 1 else s.subs j := by
  unfold St.apply
  generalize hs0 : ({ s with m := e.st, drops := s.drops ++ e.sdrops.map .subj } : St σ α β) = s0
  have h0 : s0.status = s.status ∧ s0.subs = s.subs := by subst hs0; simp
  have hf := foldl_push_fields e.emits s0
  generalize hs1 : e.emits.foldl St.push s0 = s1 at hf
  simp only []
  rw [foldl_subscribeOne_subs]
  split
  · simp only [St.releaseAll, hf.2.2.1, hf.2.2.2.1, h0.1, h0.2]
    by_cases hl : s.status j = .live
    · simp [hl]
    · simp only [hl, if_false]
  · simp only [hf.2.2.1, hf.2.2.2.1, h0.1, h0.2]

/-- the shared subscription after a callback of an operator without a hot teardown -/
theorem apply_subsDone (s : St σ α β) (e : Eff σ α β) :
    (s.apply false e).subsDone = (e.unsubAll || s.subsDone) := by
  unfold St.apply
  generalize hs0 : ({ s with m := e.st, drops := s.drops ++ e.sdrops.map .subj } : St σ α β) = s0
  have h0 : s0.subsDone = s.subsDone := by subst hs0; simp
  have hf := foldl_push_fields e.emits s0
  generalize hs1 : e.emits.foldl St.push s0 = s1 at hf
  simp only []
  rw [(foldl_subscribeOne_fields _ _).2.2.2.2]
  cases hu : e.unsubAll <;> simp [St.releaseAll, hf.2.2.2.2, h0]

/-- a notification of a source that is not live changes nothing but the scripts and the drops -/
theorem feed_notlive (m : Machine σ α β) (s : St σ α β) (i : Nat) (h : s.status i ≠ .live) :
    (s.feed m i).out = s.out ∧ (s.feed m i).status = s.status ∧ (s.feed m i).subs = s.subs ∧
    (s.feed m i).downOpen = s.downOpen ∧ (s.feed m i).subsDone = s.subsDone ∧
    ((s.feed m i).m = s.m ∨ (s.feed m i).m = m.tick s.m) := by
  simp only [St.feed, St.issue]
  cases hr : s.rest i with
  | nil => simp
  | cons x r =>
    cases hst : s.status i
    · simp
    · exact absurd hst h
    · simp

/-- once no source is live, nothing is delivered, subscribed or released any more -/
theorem foldl_feed_ended (m : Machine σ α β) (os : List Nat) (s : St σ α β) (h : ∀ j, s.status j ≠ .live) :
    (os.foldl (St.feed m) s).out = s.out ∧ (os.foldl (St.feed m) s).status = s.status ∧
    (os.foldl (St.feed m) s).subs = s.subs := by
  induction os generalizing s with
  | nil => simp
  | cons i os ih =>
    simp only [List.foldl_cons]
    have hf := feed_notlive m s i (h i)
    have := ih (s.feed m i) (by rw [hf.2.1]; exact h)
    exact ⟨this.1.trans hf.1, this.2.1.trans hf.2.1, this.2.2.trans hf.2.2.1⟩

/-! ### ConcatAll -/

theorem concatOuterEmits_eq (outer : OuterEnd) : concatOuterEmits (α := α) outer = outerEmits outer := by
  cases outer <;> rfl

theorem gateEv_outerEmits (outer : OuterEnd) : gateEv (outerEmits (α := α) outer) = outerEmits outer := by
  cases outer <;> rfl

/-- it is source `k`'s turn: it is the only live source, the sources before it are done, those
    after it not yet subscribed, and nothing terminal has been delivered -/
structure CRun (n : Nat) (s : St ConcatSt α α) (k : Nat) : Prop where
  cur : s.m.cur = k
  lt : k < n
  dopen : s.downOpen = true
  nd : s.subsDone = false
  noterm : hasTerm s.out = false
  live : s.status k = .live
  before : ∀ j, j < k → s.status j = .done
  after : ∀ j, k < j → s.status j = .idle
  subs : ∀ j, s.subs j = if j ≤ k then 1 else 0

theorem concat_feed_m (n : Nat) (outer : OuterEnd) (s : St ConcatSt α α) (i : Nat) (h : s.status i ≠ .live) :
    (s.feed (concatM n outer) i).m = s.m := by
  rcases (feed_notlive (concatM n outer) s i h).2.2.2.2.2 with h | h <;> exact h

theorem concat_feed_next (n : Nat) (outer : OuterEnd) (s : St ConcatSt α α) (i : Nat) (v : α) (r : List (Ev α))
    (hr : s.rest i = .next v :: r) (hl : s.status i = .live) :
    s.feed (concatM n outer) i =
      St.apply false ({ s with rest := upd s.rest i r } : St ConcatSt α α) (concatStep n outer s.m i (.next v)) := by
  simp only [St.feed, St.issue, hr, hl]
  rfl

theorem concat_feed_term (n : Nat) (outer : OuterEnd) (s : St ConcatSt α α) (i : Nat) (x : Ev α) (r : List (Ev α))
    (hr : s.rest i = x :: r) (hl : s.status i = .live) (hx : x.isTerminal = true) :
    s.feed (concatM n outer) i =
      St.apply false ({ s with rest := upd s.rest i [], status := upd s.status i .done } : St ConcatSt α α)
        (concatStep n outer s.m i x) := by
  simp only [St.feed, St.issue, hr, hl, hx]
  rfl

/-- a source whose turn it is not says something: missed or refused -/
theorem crun_other (n : Nat) (outer : OuterEnd) (s : St ConcatSt α α) (k i : Nat) (h : CRun n s k) (hi : i ≠ k) :
    CRun n (s.feed (concatM n outer) i) k ∧ (s.feed (concatM n outer) i).out = s.out := by
  have hnl : s.status i ≠ .live := by
    rcases Nat.lt_or_gt_of_ne hi with hc | hc
    · rw [h.before i hc]; decide
    · rw [h.after i hc]; decide
  have hf := feed_notlive (concatM n outer) s i hnl
  have hm := concat_feed_m n outer s i hnl
  refine ⟨⟨by rw [hm]; exact h.cur, h.lt, by rw [hf.2.2.2.1]; exact h.dopen, by rw [hf.2.2.2.2.1]; exact h.nd,
    by rw [hf.1]; exact h.noterm, by rw [hf.2.1]; exact h.live, by rw [hf.2.1]; exact h.before,
    by rw [hf.2.1]; exact h.after, by rw [hf.2.2.1]; exact h.subs⟩, hf.1⟩

/-- the source whose turn it is delivers a value -/
theorem crun_next (n : Nat) (outer : OuterEnd) (s : St ConcatSt α α) (k : Nat) (v : α) (r : List (Ev α))
    (h : CRun n s k) (hr : s.rest k = .next v :: r) :
    CRun n (s.feed (concatM n outer) k) k ∧ (s.feed (concatM n outer) k).out = s.out ++ [.next v] := by
  rw [concat_feed_next n outer s k v r hr h.live]
  generalize hs1 : ({ s with rest := upd s.rest k r } : St ConcatSt α α) = s1
  have h1 : s1.downOpen = true ∧ s1.out = s.out ∧ s1.subsDone = s.subsDone ∧ s1.status = s.status ∧ s1.subs = s.subs := by
    subst hs1; simp [h.dopen]
  have he : concatStep n outer s.m k (.next v) = { st := s.m, emits := [.next v] } := rfl
  rw [he]
  have hf := apply_facts false s1 ({ st := s.m, emits := [.next v] } : Eff ConcatSt α α) h1.1
  have hs := apply_subs false s1 ({ st := s.m, emits := [.next v] } : Eff ConcatSt α α)
  have hd := apply_subsDone s1 ({ st := s.m, emits := [.next v] } : Eff ConcatSt α α)
  generalize St.apply false s1 ({ st := s.m, emits := [.next v] } : Eff ConcatSt α α) = T at hf hs hd
  have hst : ∀ j, T.status j = s.status j := by
    intro j; rw [hf.2.2.2.2 j, statusAfter_nosub, h1.2.2.2.1]; simp
  have hout : T.out = s.out ++ [.next v] := by rw [hf.2.2.1, h1.2.1]; simp [gateEv]
  refine ⟨⟨by rw [hf.1]; exact h.cur, h.lt, by rw [hf.2.2.2.1]; simp, by rw [hd, h1.2.2.1, h.nd]; rfl, ?_, ?_, ?_, ?_, ?_⟩, hout⟩
  · rw [hout, hasTerm_append, h.noterm]; rfl
  · rw [hst]; exact h.live
  · intro j hj; rw [hst]; exact h.before j hj
  · intro j hj; rw [hst]; exact h.after j hj
  · intro j; rw [hs j, h1.2.2.2.2]; simp only [List.not_mem_nil, false_and, if_false]; exact h.subs j

/-- the source whose turn it is completes and is not the last one: the next source is subscribed -/
theorem crun_complete_more (n : Nat) (outer : OuterEnd) (s : St ConcatSt α α) (k : Nat) (r : List (Ev α))
    (h : CRun n s k) (hr : s.rest k = .complete :: r) (hk : k + 1 < n) :
    CRun n (s.feed (concatM n outer) k) (k + 1) ∧ (s.feed (concatM n outer) k).out = s.out := by
  rw [concat_feed_term n outer s k .complete r hr h.live rfl]
  generalize hs1 : ({ s with rest := upd s.rest k [], status := upd s.status k .done } : St ConcatSt α α) = s1
  have h1 : s1.downOpen = true ∧ s1.out = s.out ∧ s1.subsDone = s.subsDone ∧ s1.status = upd s.status k .done ∧ s1.subs = s.subs := by
    subst hs1; simp [h.dopen]
  have he : concatStep n outer s.m k (.complete : Ev α) = { st := { cur := k + 1 }, subscribe := [k + 1] } := by
    simp [concatStep, h.cur, hk]
  rw [he]
  have hf := apply_facts false s1 ({ st := { cur := k + 1 }, subscribe := [k + 1] } : Eff ConcatSt α α) h1.1
  have hs := apply_subs false s1 ({ st := { cur := k + 1 }, subscribe := [k + 1] } : Eff ConcatSt α α)
  have hd := apply_subsDone s1 ({ st := { cur := k + 1 }, subscribe := [k + 1] } : Eff ConcatSt α α)
  generalize St.apply false s1 ({ st := { cur := k + 1 }, subscribe := [k + 1] } : Eff ConcatSt α α) = T at hf hs hd
  have hst : ∀ j, T.status j = if j = k + 1 then .live else upd s.status k .done j := by
    intro j
    rw [hf.2.2.2.2 j, h1.2.2.2.1, h1.2.2.1, h.nd]
    by_cases hj : j = k + 1
    · subst hj
      have : upd s.status k SrcStatus.done (k + 1) = .idle := by
        rw [upd_other _ _ _ _ (by omega)]; exact h.after _ (by omega)
      simp [statusAfter, this]
    · simp [statusAfter, hj]
  have hout : T.out = s.out := by rw [hf.2.2.1, h1.2.1]; simp [gateEv]
  refine ⟨⟨by rw [hf.1], hk, by rw [hf.2.2.2.1]; simp, by rw [hd, h1.2.2.1, h.nd]; rfl, ?_, ?_, ?_, ?_, ?_⟩, hout⟩
  · rw [hout]; exact h.noterm
  · rw [hst]; simp
  · intro j hj
    rw [hst, if_neg (by omega)]
    by_cases hjk : j = k
    · subst hjk; simp
    · rw [upd_other _ _ _ _ hjk]; exact h.before j (by omega)
  · intro j hj
    rw [hst, if_neg (by omega), upd_other _ _ _ _ (by omega)]; exact h.after j (by omega)
  · intro j
    rw [hs j, h1.2.2.2.2, h1.2.2.2.1, h.subs j]
    by_cases hj : j = k + 1
    · subst hj
      have : upd s.status k SrcStatus.done (k + 1) = .idle := by
        rw [upd_other _ _ _ _ (by omega)]; exact h.after _ (by omega)
      simp [this]
    · have : (j ≤ k + 1) = (j ≤ k) := by apply propext; omega
      simp [hj, this]

/-- the last source completes in its turn: the outer source's own ending follows -/
theorem crun_complete_last (n : Nat) (outer : OuterEnd) (s : St ConcatSt α α) (k : Nat) (r : List (Ev α))
    (h : CRun n s k) (hr : s.rest k = .complete :: r) (hk : ¬ k + 1 < n) :
    (s.feed (concatM n outer) k).out = s.out ++ outerEmits outer ∧
    (∀ j, (s.feed (concatM n outer) k).status j ≠ .live) ∧
    (s.feed (concatM n outer) k).subs = s.subs := by
  rw [concat_feed_term n outer s k .complete r hr h.live rfl]
  generalize hs1 : ({ s with rest := upd s.rest k [], status := upd s.status k .done } : St ConcatSt α α) = s1
  have h1 : s1.downOpen = true ∧ s1.out = s.out ∧ s1.subsDone = s.subsDone ∧ s1.status = upd s.status k .done ∧ s1.subs = s.subs := by
    subst hs1; simp [h.dopen]
  have he : concatStep n outer s.m k (.complete : Ev α) =
      { st := { cur := n }, emits := outerEmits outer, unsubAll := concatOuterUnsub outer } := by
    simp [concatStep, h.cur, hk, concatOuterEmits_eq]
  rw [he]
  have hf := apply_facts false s1 ({ st := { cur := n }, emits := outerEmits outer, unsubAll := concatOuterUnsub outer } : Eff ConcatSt α α) h1.1
  have hs := apply_subs false s1 ({ st := { cur := n }, emits := outerEmits outer, unsubAll := concatOuterUnsub outer } : Eff ConcatSt α α)
  generalize St.apply false s1 ({ st := { cur := n }, emits := outerEmits outer, unsubAll := concatOuterUnsub outer } : Eff ConcatSt α α) = T at hf hs
  refine ⟨by rw [hf.2.2.1, h1.2.1, gateEv_outerEmits], ?_, ?_⟩
  · intro j
    rw [hf.2.2.2.2 j, statusAfter_nosub, h1.2.2.2.1]
    have hnl : upd s.status k SrcStatus.done j ≠ .live := by
      by_cases hjk : j = k
      · subst hjk; simp
      · rw [upd_other _ _ _ _ hjk]
        rcases Nat.lt_or_gt_of_ne hjk with hc | hc
        · rw [h.before j hc]; decide
        · rw [h.after j hc]; decide
    split
    · decide
    · exact hnl
  · funext j
    rw [hs j, h1.2.2.2.2]; simp

/-- the source whose turn it is fails: the error is delivered, everything is released -/
theorem crun_error (n : Nat) (outer : OuterEnd) (s : St ConcatSt α α) (k : Nat) (e : Err) (r : List (Ev α))
    (h : CRun n s k) (hr : s.rest k = .error e :: r) :
    (s.feed (concatM n outer) k).out = s.out ++ [.error e] ∧
    (∀ j, (s.feed (concatM n outer) k).status j ≠ .live) := by
  rw [concat_feed_term n outer s k (.error e) r hr h.live rfl]
  generalize hs1 : ({ s with rest := upd s.rest k [], status := upd s.status k .done } : St ConcatSt α α) = s1
  have h1 : s1.downOpen = true ∧ s1.out = s.out := by
    subst hs1; simp [h.dopen]
  have he : concatStep n outer s.m k (.error e : Ev α) =
      { st := { cur := n }, unsubAll := true, emits := .error e :: concatOuterEmits outer,
        subscribe := (List.range n).drop (s.m.cur + 1) } := rfl
  rw [he]
  have hf := apply_facts false s1 ({ st := { cur := n }, unsubAll := true, emits := .error e :: concatOuterEmits outer, subscribe := (List.range n).drop (s.m.cur + 1) } : Eff ConcatSt α α) h1.1
  generalize St.apply false s1 ({ st := { cur := n }, unsubAll := true, emits := .error e :: concatOuterEmits outer, subscribe := (List.range n).drop (s.m.cur + 1) } : Eff ConcatSt α α) = T at hf
  refine ⟨by rw [hf.2.2.1, h1.2]; simp [gateEv], ?_⟩
  intro j
  rw [hf.2.2.2.2 j]
  cases s1.status j <;> simp [statusAfter] <;> split <;> decide

theorem concatTurn_lt (n : Nat) (arr : Arr α) (k : Nat) (hk : k < n) : concatTurn n k arr < n := by
  induction arr generalizing k with
  | nil => exact hk
  | cons p rest ih =>
    obtain ⟨i, x⟩ := p
    by_cases hi : i = k
    · cases x with
      | next v => simpa [concatTurn, hi] using ih k hk
      | error e => simpa [concatTurn, hi] using hk
      | complete =>
        by_cases hm : k + 1 < n
        · simpa [concatTurn, hi, hm] using ih (k + 1) hm
        · simpa [concatTurn, hi, hm] using hk
    · simpa [concatTurn, hi] using ih k hk

/-- the run from a state in which it is source `k`'s turn: delivered trace, release at a terminal,
    subscription counts when no source fails (`p` recognises errors) -/
theorem concat_run_aux (n : Nat) (outer : OuterEnd) (p : Ev α → Bool) (hp : ∀ e, p (.error e) = true)
    (os : List Nat) (s : St ConcatSt α α) (k : Nat) (h : CRun n s k) :
    (os.foldl (St.feed (concatM n outer)) s).out = s.out ++ concatFrom n outer k (arrivals s.rest os) ∧
    (hasTerm (os.foldl (St.feed (concatM n outer)) s).out = true →
      ∀ j, (os.foldl (St.feed (concatM n outer)) s).status j ≠ .live) ∧
    ((concatFrom n .never k (arrivals s.rest os)).any p = false →
      ∀ j, (os.foldl (St.feed (concatM n outer)) s).subs j = if j ≤ concatTurn n k (arrivals s.rest os) then 1 else 0) := by
  induction os generalizing s k with
  | nil =>
    refine ⟨by simp [arrivals, concatFrom], ?_, ?_⟩
    · intro ht; simp only [List.foldl_nil] at ht; rw [h.noterm] at ht; exact absurd ht (by decide)
    · intro _ j; simpa [arrivals, concatTurn] using h.subs j
  | cons i os ih =>
    simp only [List.foldl_cons]
    cases hr : s.rest i with
    | nil =>
      rw [feed_nil _ s i hr]
      have : arrivals s.rest (i :: os) = arrivals s.rest os := by simp [arrivals, hr]
      rw [this]
      exact ih s k h
    | cons x r =>
      have hrest : (s.feed (concatM n outer) i).rest = upd s.rest i (if x.isTerminal then [] else r) :=
        feed_rest _ s i x r hr (fun _ => h.dopen)
      have harr : arrivals s.rest (i :: os) = (i, x) :: arrivals (s.feed (concatM n outer) i).rest os := by
        rw [hrest]; simp [arrivals, hr]
      rw [harr]
      by_cases hi : i = k
      · subst hi
        cases x with
        | next v =>
          obtain ⟨h', hout⟩ := crun_next n outer s i v r h hr
          have := ih _ i h'
          rw [hout] at this
          simp only [concatFrom, concatTurn, if_true, List.any_cons, Bool.or_eq_false_iff]
          refine ⟨by rw [this.1]; simp, this.2.1, fun hc => this.2.2 hc.2⟩
        | error e =>
          obtain ⟨hout, hdead⟩ := crun_error n outer s i e r h hr
          have hend := foldl_feed_ended (concatM n outer) os _ hdead
          simp only [concatFrom, concatTurn, if_true, List.any_cons, hp, Bool.true_or]
          refine ⟨by rw [hend.1, hout], ?_, fun hc => absurd hc (by decide)⟩
          intro _ j; rw [hend.2.1]; exact hdead j
        | complete =>
          by_cases hm : i + 1 < n
          · obtain ⟨h', hout⟩ := crun_complete_more n outer s i r h hr hm
            have := ih _ (i + 1) h'
            rw [hout] at this
            simp only [concatFrom, concatTurn, if_true, hm]
            exact this
          · obtain ⟨hout, hdead, hsubs⟩ := crun_complete_last n outer s i r h hr hm
            have hend := foldl_feed_ended (concatM n outer) os _ hdead
            simp only [concatFrom, concatTurn, if_true, hm, if_false]
            refine ⟨by rw [hend.1, hout], ?_, ?_⟩
            · intro _ j; rw [hend.2.1]; exact hdead j
            · intro _ j; rw [hend.2.2, hsubs]; exact h.subs j
      · obtain ⟨h', hout⟩ := crun_other n outer s k i h hi
        have := ih _ k h'
        rw [hout] at this
        simp only [concatFrom, concatTurn, hi, if_false]
        exact this

/-- with at least one source, the subscribe function subscribes source 0 and it is its turn -/
theorem concat_init_pos (n : Nat) (outer : OuterEnd) (rest : Nat → List (Ev α)) (hn : 0 < n) :
    CRun n ((concatM n outer).init rest) 0 ∧ ((concatM n outer).init rest).out = [] ∧
    ((concatM n outer).init rest).rest = rest := by
  have hstart : (concatM (α := α) n outer).start = { st := {}, subscribe := [0] } := by simp [concatM, hn]
  have hinit : (concatM n outer).init rest =
      St.apply false ({ m := {}, rest := rest } : St ConcatSt α α) ({ st := {}, subscribe := [0] } : Eff ConcatSt α α) := by
    unfold Machine.init; rw [hstart]; rfl
  rw [hinit]
  have hf := apply_facts false ({ m := {}, rest := rest } : St ConcatSt α α) ({ st := {}, subscribe := [0] } : Eff ConcatSt α α) rfl
  have hs := apply_subs false ({ m := {}, rest := rest } : St ConcatSt α α) ({ st := {}, subscribe := [0] } : Eff ConcatSt α α)
  have hd := apply_subsDone ({ m := {}, rest := rest } : St ConcatSt α α) ({ st := {}, subscribe := [0] } : Eff ConcatSt α α)
  generalize St.apply false ({ m := {}, rest := rest } : St ConcatSt α α) ({ st := {}, subscribe := [0] } : Eff ConcatSt α α) = T at hf hs hd
  have hout : T.out = [] := by rw [hf.2.2.1]; rfl
  refine ⟨⟨by rw [hf.1], hn, by rw [hf.2.2.2.1]; rfl, by rw [hd]; rfl, by rw [hout]; rfl, ?_, ?_, ?_, ?_⟩, hout, hf.2.1⟩
  · rw [hf.2.2.2.2 0]; simp [statusAfter]
  · intro j hj; omega
  · intro j hj
    rw [hf.2.2.2.2 j]
    have : j ≠ 0 := by omega
    simp [statusAfter, this]
  · intro j
    rw [hs j]
    by_cases hj : j = 0
    · subst hj; simp
    · have : ¬ j ≤ 0 := by omega
      simp [hj, this]

/-- without sources, the subscribe function delivers the outer source's ending and subscribes nothing -/
theorem concat_init_zero (outer : OuterEnd) (rest : Nat → List (Ev α)) :
    ((concatM 0 outer).init rest).out = outerEmits outer ∧
    (∀ j, ((concatM 0 outer).init rest).status j = .idle) ∧
    (∀ j, ((concatM 0 outer).init rest).subs j = 0) := by
  have hstart : (concatM (α := α) 0 outer).start =
      { st := {}, emits := outerEmits outer, unsubAll := concatOuterUnsub outer } := by
    simp [concatM, concatOuterEmits_eq]
  have hinit : (concatM 0 outer).init rest =
      St.apply false ({ m := {}, rest := rest } : St ConcatSt α α)
        ({ st := {}, emits := outerEmits outer, unsubAll := concatOuterUnsub outer } : Eff ConcatSt α α) := by
    unfold Machine.init; rw [hstart]; rfl
  rw [hinit]
  have hf := apply_facts false ({ m := {}, rest := rest } : St ConcatSt α α) ({ st := {}, emits := outerEmits outer, unsubAll := concatOuterUnsub outer } : Eff ConcatSt α α) rfl
  have hs := apply_subs false ({ m := {}, rest := rest } : St ConcatSt α α) ({ st := {}, emits := outerEmits outer, unsubAll := concatOuterUnsub outer } : Eff ConcatSt α α)
  generalize St.apply false ({ m := {}, rest := rest } : St ConcatSt α α) ({ st := {}, emits := outerEmits outer, unsubAll := concatOuterUnsub outer } : Eff ConcatSt α α) = T at hf hs
  refine ⟨by rw [hf.2.2.1, gateEv_outerEmits]; rfl, ?_, ?_⟩
  · intro j; rw [hf.2.2.2.2 j]; simp [statusAfter]
  · intro j; rw [hs j]; simp

/-- **ConcatAll = Spec.concat**, for every tuple of source scripts and every interleaving. -/
theorem concat_spec (n : Nat) (outer : OuterEnd) (scripts : List (List (Ev α))) (hlen : scripts.length ≤ n) (order : List Nat) :
    (run (concatM n outer) scripts order).out = Spec.concat n outer (arrivals (scriptsFn scripts) order) := by
  show (runCore (concatM n outer) (scriptsFn scripts) order).out = _
  unfold runCore Spec.concat
  rcases Nat.eq_zero_or_pos n with hn | hn
  · subst hn
    have h0 := concat_init_zero (α := α) outer (scriptsFn scripts)
    have hend := foldl_feed_ended (concatM 0 outer) order _ (fun j => by rw [h0.2.1 j]; decide)
    rw [hend.1, h0.1]; rfl
  · obtain ⟨h0, hout, hrest⟩ := concat_init_pos n outer (scriptsFn scripts) hn
    have := (concat_run_aux n outer Ev.isTerminal (fun _ => rfl) order _ 0 h0).1
    rw [this, hout, hrest, if_neg (by omega)]; rfl


/-- when no inner source errors, source j is subscribed exactly when every source before it completed in its turn -/
theorem concat_subs_partial (n : Nat) (outer : OuterEnd) (scripts : List (List (Ev α))) (hlen : scripts.length ≤ n) (order : List Nat)
    (hk : Known.concatInnerError n (arrivals (scriptsFn scripts) order) = false) (j : Nat) :
    (run (concatM n outer) scripts order).subs j = if Spec.concatSubscribed n (arrivals (scriptsFn scripts) order) j then 1 else 0 := by
  show (runCore (concatM n outer) (scriptsFn scripts) order).subs j = _
  unfold runCore Spec.concatSubscribed
  rcases Nat.eq_zero_or_pos n with hn | hn
  · subst hn
    have h0 := concat_init_zero (α := α) outer (scriptsFn scripts)
    have hend := foldl_feed_ended (concatM 0 outer) order _ (fun j => by rw [h0.2.1 j]; decide)
    rw [hend.2.2, h0.2.2 j]; simp
  · obtain ⟨h0, hout, hrest⟩ := concat_init_pos n outer (scriptsFn scripts) hn
    have := (concat_run_aux n outer (fun x => match x with | .error _ => true | _ => false) (fun _ => rfl) order _ 0 h0).2.2
    rw [hrest] at this
    rw [this hk j]
    have hlt := concatTurn_lt n (arrivals (scriptsFn scripts) order) 0 hn
    by_cases hj : j ≤ concatTurn n 0 (arrivals (scriptsFn scripts) order)
    · have : j < n := by omega
      simp [hj, this]
    · simp [hj]

/-- deviation witness: after an inner error the remaining sources are still subscribed (and unsubscribed at once) -/
theorem concat_subscribes_after_error_witness :
    let r := run (concatM (α := Int) 2 .complete) [[.error (.user 1)], [.next 5]] [0, 1]
    r.subs 1 = 1 ∧ Spec.concatSubscribed 2 (arrivals (scriptsFn [[Ev.error (.user 1)], [Ev.next (5:Int)]]) [0, 1]) 1 = false ∧ r.out = [.error (.user 1)] := by decide

/-- an error ends the output at once and no source stays subscribed: whenever the delivered trace contains a terminal, no source is live -/
theorem concat_released (n : Nat) (outer : OuterEnd) (scripts : List (List (Ev α))) (hlen : scripts.length ≤ n) (order : List Nat)
    (hterm : hasTerm (run (concatM n outer) scripts order).out = true) (j : Nat) :
    (run (concatM n outer) scripts order).status j ≠ .live := by
  revert hterm
  show hasTerm (runCore (concatM n outer) (scriptsFn scripts) order).out = true →
    (runCore (concatM n outer) (scriptsFn scripts) order).status j ≠ .live
  unfold runCore
  intro hterm
  rcases Nat.eq_zero_or_pos n with hn | hn
  · subst hn
    have h0 := concat_init_zero (α := α) outer (scriptsFn scripts)
    have hend := foldl_feed_ended (concatM 0 outer) order _ (fun j => by rw [h0.2.1 j]; decide)
    rw [hend.2.1, h0.2.1 j]; decide
  · obtain ⟨h0, hout, hrest⟩ := concat_init_pos n outer (scriptsFn scripts) hn
    exact (concat_run_aux n outer Ev.isTerminal (fun _ => rfl) order _ 0 h0).2.1 hterm j

/-- non-vacuity: three sources with values, interleaved; what sources 1 and 2 say before their
    turn is not part of the output -/
example :
    (run (concatM (α := Int) 3 .complete) [[.next 1, .next 2, .complete], [.next 10, .next 11, .complete], [.next 20, .next 21, .complete]]
        [1, 0, 2, 0, 0, 1, 1, 2, 2]).out = [.next 1, .next 2, .next 11, .next 21, .complete] ∧
    Spec.concat 3 .complete (arrivals (scriptsFn [[Ev.next (1:Int), .next 2, .complete], [.next 10, .next 11, .complete], [.next 20, .next 21, .complete]])
        [1, 0, 2, 0, 0, 1, 1, 2, 2]) = [.next 1, .next 2, .next 11, .next 21, .complete] := by decide

end Ro.MultiB

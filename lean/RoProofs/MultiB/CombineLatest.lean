/-
  RoProofs.MultiB.CombineLatest — CombineLatestWith1…4 / CombineLatestAll deliver, for every tuple of
  source scripts and every interleaving, the latest tuple on every update once all sources have
  emitted, and complete exactly when all sources have completed.
-/
import RoProofs.MultiB.Arrivals
import RoModel.MultiB.CombineLatest
namespace Ro.MultiB
open Spec
variable {α : Type}

theorem clStep_subs (n : Nat) (st : CLSt α) (i : Nat) (x : Ev α) : (clStep n st i x).subscribe = [] := by
  cases x <;> rfl

theorem clStep_gated (n : Nat) (st : CLSt α) (i : Nat) (x : Ev α) :
    gateEv (clStep n st i x).emits = (clStep n st i x).emits := by
  cases x with
  | next v => simp only [clStep]; split <;> rfl
  | error e => rfl
  | complete => simp only [clStep]; split <;> rfl

theorem combineLatest_allHot (n : Nat) : AllHot (combineLatestM (α := α) n) where
  start_subs := rfl
  step_subs := clStep_subs n
  hot := rfl
  start_gated := rfl
  step_gated := clStep_gated n

theorem countP_range_flip (n i : Nat) (p : Nat → Bool) (hi : i < n) (hp : p i = false) :
    (List.range n).countP (fun j => p j || i == j) = (List.range n).countP p + 1 := by
  induction n with
  | zero => omega
  | succ n ih =>
    rw [List.range_succ, List.countP_append, List.countP_append]
    by_cases hin : i = n
    · subst hin
      have h1 : (List.range i).countP (fun j => p j || i == j) = (List.range i).countP p := by
        apply List.countP_congr
        intro j hj
        have : j < i := List.mem_range.mp hj
        have hne : (i == j) = false := by simp; omega
        simp [hne]
      rw [h1]
      simp [hp]
    · have hlt : i < n := by omega
      rw [ih hlt]
      have hne : (i == n) = false := by simp; omega
      simp [List.countP_cons, hne]
      omega

structure CInv (n : Nat) (a : Acc (CLSt α) (List α)) (past : Arr α) : Prop where
  running : a.running = true
  latest : ∀ j, j < n → a.st.latest j = latestOf j past
  status : a.st.status = (List.range n).countP (fun j => completed j past)
  lt : a.st.status < n

theorem latestOf_snoc_next (j i : Nat) (v : α) (h : Arr α) :
    latestOf j (h ++ [(i, .next v)]) = if i = j then some v else latestOf j h := by
  unfold latestOf
  rw [valsOf_snoc_next]
  by_cases hij : i = j <;> simp [hij]

theorem cl_abs (n : Nat) (rest : Arr α) (a : Acc (CLSt α) (List α)) (past : Arr α) (hinv : CInv n a past)
    (hlt : ∀ p ∈ rest, p.1 < n) (hnr : noRepeat past rest = true) :
    (rest.foldl (combineLatestM n).absStep a).out = a.out ++ combineLatestFrom n past rest := by
  induction rest generalizing a past with
  | nil => simp [combineLatestFrom]
  | cons p r ih =>
    obtain ⟨i, x⟩ := p
    have hi : i < n := hlt (i, x) (List.mem_cons_self ..)
    have hlt' : ∀ p ∈ r, p.1 < n := fun p hp => hlt p (List.mem_cons_of_mem _ hp)
    simp only [noRepeat, Bool.and_eq_true, Bool.not_eq_true'] at hnr
    simp only [List.foldl_cons]
    cases x with
    | next v =>
      have hlat : ∀ j, j < n → (upd a.st.latest i (some v)) j = latestOf j (past ++ [(i, .next v)]) := by
        intro j hj
        rw [latestOf_snoc_next]
        by_cases hij : i = j
        · subst hij; simp
        · rw [upd_other _ _ _ _ (by omega), if_neg hij]; exact hinv.latest j hj
      have hall : (List.range n).all (fun j => ((upd a.st.latest i (some v)) j).isSome) =
          (List.range n).all (fun j => (latestOf j (past ++ [(i, .next v)])).isSome) := by
        apply all_range_congr
        intro j hj
        rw [hlat j hj]
      have hrow : (List.range n).filterMap (upd a.st.latest i (some v)) =
          (List.range n).filterMap (fun j => latestOf j (past ++ [(i, .next v)])) := by
        apply filterMap_range_congr
        intro j hj
        exact hlat j hj
      have hst := hinv.lt
      have hstep : (combineLatestM n).absStep a (i, .next v) =
          { st := { a.st with latest := upd a.st.latest i (some v) },
            out := a.out ++ (if (List.range n).all (fun j => (latestOf j (past ++ [(i, .next v)])).isSome)
                             then [.next ((List.range n).filterMap (fun j => latestOf j (past ++ [(i, .next v)])))] else []),
            running := true } := by
        simp only [Machine.absStep, hinv.running, if_true, combineLatestM, clStep, id]
        rw [hall, hrow]
        have : decide (a.st.status < n) = true := by simp [hst]
        simp only [this, Bool.true_and]
        congr 1
        split <;> simp [hasTerm]
      have hinv' : CInv n ((combineLatestM n).absStep a (i, .next v)) (past ++ [(i, .next v)]) := by
        rw [hstep]
        refine ⟨rfl, hlat, ?_, hinv.lt⟩
        show a.st.status = _
        rw [hinv.status]
        apply List.countP_congr
        intro j _
        rw [completed_snoc_next]
      rw [ih _ _ hinv' hlt' hnr.2, hstep]
      simp [combineLatestFrom, List.append_assoc]
    | error e =>
      have hstep : (combineLatestM n).absStep a (i, .error e) =
          { st := { a.st with status := n + 1 }, out := a.out ++ [.error e], running := false } := by
        simp [Machine.absStep, hinv.running, combineLatestM, clStep, hasTerm]
      rw [hstep, abs_stopped_out _ _ _ rfl]
      simp [combineLatestFrom]
    | complete =>
      have hnc : completed i past = false := by
        cases hc : completed i past
        · rfl
        · have := completed_le_terminated i past hc
          rw [hnr.1] at this; cases this
      have hcount : (List.range n).countP (fun j => completed j (past ++ [(i, .complete)])) = a.st.status + 1 := by
        rw [hinv.status, ← countP_range_flip n i (fun j => completed j past) hi hnc]
        apply List.countP_congr
        intro j _
        rw [completed_snoc_complete]
      have hallc : (List.range n).all (fun j => completed j (past ++ [(i, .complete)])) = decide (a.st.status + 1 = n) := by
        have hle := List.countP_le_length (p := fun j => completed j (past ++ [(i, .complete)])) (l := List.range n)
        by_cases heq : a.st.status + 1 = n
        · simp only [heq, decide_true]
          have : (List.range n).countP (fun j => completed j (past ++ [(i, .complete)])) = (List.range n).length := by
            rw [hcount, heq, List.length_range]
          rw [List.countP_eq_length] at this
          simpa [List.all_eq_true] using this
        · simp only [heq, decide_false]
          cases hall : (List.range n).all (fun j => completed j (past ++ [(i, .complete)]))
          · rfl
          · have : (List.range n).countP (fun j => completed j (past ++ [(i, .complete)])) = (List.range n).length := by
              rw [List.countP_eq_length]
              simpa [List.all_eq_true] using hall
            rw [hcount, List.length_range] at this
            exact absurd this heq
      by_cases heq : a.st.status + 1 = n
      · have hstep : (combineLatestM n).absStep a (i, .complete) =
            { st := { a.st with status := a.st.status + 1 }, out := a.out ++ [.complete], running := false } := by
          simp [Machine.absStep, hinv.running, combineLatestM, clStep, hasTerm, heq]
        rw [hstep, abs_stopped_out _ _ _ rfl]
        simp [combineLatestFrom, hallc, heq]
      · have hstep : (combineLatestM n).absStep a (i, .complete) =
            { st := { a.st with status := a.st.status + 1 }, out := a.out, running := true } := by
          simp [Machine.absStep, hinv.running, combineLatestM, clStep, hasTerm, heq]
        have hinv' : CInv n ((combineLatestM n).absStep a (i, .complete)) (past ++ [(i, .complete)]) := by
          rw [hstep]
          refine ⟨rfl, ?_, hcount.symm, ?_⟩
          · intro j hj
            show a.st.latest j = _
            rw [hinv.latest j hj]
            unfold latestOf
            rw [valsOf_snoc_complete]
          · show a.st.status + 1 < n
            have := hinv.lt
            omega
        rw [ih _ _ hinv' hlt' hnr.2, hstep]
        simp [combineLatestFrom, hallc, heq]

/-- **CombineLatestWith{n-1} = Spec.combineLatest**, for every `n ≥ 1`, every tuple of source scripts
    and every interleaving. -/
theorem combineLatest_spec (n : Nat) (hn : 0 < n) (scripts : List (List (Ev α))) (hlen : scripts.length ≤ n)
    (order : List Nat) :
    (run (combineLatestM n) scripts order).out = Spec.combineLatest n (arrivals (scriptsFn scripts) order) := by
  have hlen' : scripts.length ≤ (combineLatestM (α := α) n).n := hlen
  rw [run_out_abs (combineLatestM n) (combineLatest_allHot n) scripts hlen' order]
  unfold Machine.abs
  have hinv : CInv n (combineLatestM (α := α) n).absInit [] := by
    refine ⟨rfl, ?_, ?_, hn⟩
    · intro j _; rfl
    · show 0 = _
      rw [List.countP_eq_zero.mpr]
      intro j _; simp [completed]
  rw [cl_abs n _ _ [] hinv (arrivals_lt n order _ (scriptsFn_out_of_range scripts n hlen)) (arrivals_noRepeat order _)]
  rfl

end Ro.MultiB

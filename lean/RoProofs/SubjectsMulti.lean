/-
  RoProofs.SubjectsMulti — publish / behavior / replay / async as instances of one parametrised
  multicast step function; closed forms of every operation on a state satisfying the invariant;
  preservation of the invariant; and the per-subscriber *view*: what one subscriber and an outside
  observer see of a step, as a small pure automaton (`vstep`) that the model simulates exactly.
-/
import RoProofs.SubjectsPrim
namespace Ro.Subj
open Ro Ro.Subj.Spec

variable {α : Type}

/-- what distinguishes the four multicast subjects -/
structure MP (α : Type) where
  /-- `NextWithContext` on a live subject -/
  onNext : State α → Ctx → α → State α
  /-- values are broadcast when they arrive -/
  live : Bool
  /-- how the stored values change with a new value -/
  mem : List (Ctx × α) → Ctx × α → List (Ctx × α)
  /-- stored values are replayed to a subscriber of a live / errored / completed subject -/
  rA : Bool
  rE : Bool
  rC : Bool
  /-- stored values are broadcast just before the completion -/
  flush : Bool

def rep (b : Bool) (s : State α) (i : Nat) : State α :=
  if b then replayTo (fresh s i) i s.values else fresh s i

def flushAll (b : Bool) (s : State α) : State α :=
  if b then s.values.foldl (fun s p => broadcastNext s p.1 p.2) s else s

def multiStep (P : MP α) (s : State α) : Op α → State α
  | .subscribe i c =>
    if (s.sub i).used then s else
    match s.status with
    | .errored ec e => subTerminal .delete (rep P.rE s i) i (.error ec e)
    | .completed => subTerminal .delete (rep P.rC s i) i (.complete c)
    | .active => register (rep P.rA s i) i
  | .next c v =>
    match s.status with
    | .active => P.onNext s c v
    | _ => s.drop (.next c v)
  | .error c e =>
    unsubscribeAll (match s.status with
      | .active => broadcastTerminal { s with status := .errored c e } (.error c e)
      | _ => s.drop (.error c e))
  | .complete c =>
    unsubscribeAll (match s.status with
      | .active => broadcastTerminal (flushAll P.flush { s with status := .completed }) (.complete c)
      | _ => s.drop (.complete c))
  | .unsubscribe i => if (s.sub i).used then subUnsubscribe .delete s i else s

def publishP : MP α :=
  { onNext := broadcastNext, live := true, mem := fun m _ => m, rA := false, rE := false, rC := false, flush := false }
def behaviorP : MP α :=
  { onNext := fun s c v => broadcastNext { s with values := [(c, v)] } c v, live := true, mem := fun _ p => [p],
    rA := true, rE := false, rC := false, flush := false }
def replayP (cap : Option Nat) : MP α :=
  { onNext := fun s c v => push cap (broadcastNext s c v) c v, live := true, mem := fun m p => lastN cap (m ++ [p]),
    rA := true, rE := true, rC := true, flush := false }
def asyncP : MP α :=
  { onNext := fun s c v => { s with values := [(c, v)] }, live := false, mem := fun _ p => [p],
    rA := false, rE := false, rC := true, flush := true }

theorem publishStep_eq : (publishStep : State α → Op α → State α) = multiStep publishP := by
  funext s o; cases o <;> rfl
theorem behaviorStep_eq : (behaviorStep : State α → Op α → State α) = multiStep behaviorP := by
  funext s o; cases o <;> rfl
theorem replayStep_eq (cap : Option Nat) : (replayStep cap : State α → Op α → State α) = multiStep (replayP cap) := by
  funext s o; cases o <;> rfl
theorem asyncStep_eq : (asyncStep : State α → Op α → State α) = multiStep asyncP := by
  funext s o; cases o <;> rfl

/-- what `onNext` does on a live subject satisfying the invariant -/
def MP.Law (P : MP α) : Prop :=
  ∀ (s : State α) (c : Ctx) (v : α), Inv s → s.status = .active → ∃ d,
    P.onNext s c v =
      { s with values := P.mem s.values (c, v), drops := d,
               sub := fun j => if P.live = true ∧ j ∈ s.observers
                               then { s.sub j with got := (s.sub j).got ++ [.next c v] } else s.sub j }

theorem publishP_law : (publishP : MP α).Law := by
  intro s c v h _
  refine ⟨s.drops, ?_⟩
  show broadcastNext s c v = _
  rw [broadcastNext_eq (fun j hj => (h.live j hj).2.1) h.nodup]
  apply State.ext' <;> simp [publishP]

theorem behaviorP_law : (behaviorP : MP α).Law := by
  intro s c v h _
  refine ⟨s.drops, ?_⟩
  show broadcastNext { s with values := [(c, v)] } c v = _
  rw [broadcastNext_eq (s := { s with values := [(c, v)] }) (fun j hj => (h.live j hj).2.1) h.nodup]
  apply State.ext' <;> simp [behaviorP]

theorem push_values (cap : Option Nat) (s : State α) (c : Ctx) (v : α) :
    (push cap s c v).values = lastN cap (s.values ++ [(c, v)]) ∧ (push cap s c v).sub = s.sub ∧
    (push cap s c v).observers = s.observers ∧ (push cap s c v).status = s.status := by
  unfold push
  cases cap with
  | none => simp [lastN]
  | some n =>
    dsimp only
    split
    · simp [lastN, State.drop]
    · rename_i hlen
      refine ⟨?_, rfl, rfl, rfl⟩
      simp only [lastN]
      have : (s.values ++ [(c, v)]).length - n = 0 := by omega
      rw [this]; rfl

theorem replayP_law (cap : Option Nat) : (replayP cap : MP α).Law := by
  intro s c v h _
  refine ⟨(push cap (broadcastNext s c v) c v).drops, ?_⟩
  show push cap (broadcastNext s c v) c v = _
  have hb := broadcastNext_eq (fun j hj => (h.live j hj).2.1) h.nodup c v
  obtain ⟨h1, h2, h3, h4⟩ := push_values cap (broadcastNext s c v) c v
  apply State.ext'
  · rw [h4, hb]
  · rw [h1, hb]; rfl
  · rw [h3, hb]
  · rw [h2, hb]; simp [replayP]
  · rfl

theorem asyncP_law : (asyncP : MP α).Law := by
  intro s c v _ _
  refine ⟨s.drops, ?_⟩
  show ({ s with values := [(c, v)] } : State α) = _
  apply State.ext' <;> simp [asyncP]

/-! ### closed forms -/

theorem rep_eq (b : Bool) (s : State α) (i : Nat) :
    rep b s i = s.modSub i (fun _ => { used := true, got := if b then nexts s.values else [] }) := by
  cases b with
  | false => simp [rep, fresh]
  | true =>
    simp only [rep, if_true]
    rw [replayTo_open s.values (fresh s i) i (by simp [fresh]), fresh, modSub_modSub]
    apply modSub_congr; simp

theorem flushAll_eq (b : Bool) (s : State α) (hl : ∀ j ∈ s.observers, (s.sub j).status = 0) (hn : s.observers.Nodup) :
    flushAll b s =
      { s with sub := fun j => if j ∈ s.observers
                               then { s.sub j with got := (s.sub j).got ++ (if b then nexts s.values else []) } else s.sub j } := by
  cases b with
  | false =>
    simp only [flushAll]
    apply State.ext' <;> try rfl
    funext j; by_cases hj : j ∈ s.observers <;> simp [hj]
  | true =>
    simp only [flushAll, if_true]
    suffices H : ∀ (vs : List (Ctx × α)) (s : State α), (∀ j ∈ s.observers, (s.sub j).status = 0) → s.observers.Nodup →
        vs.foldl (fun s p => broadcastNext s p.1 p.2) s =
          { s with sub := fun j => if j ∈ s.observers then { s.sub j with got := (s.sub j).got ++ nexts vs } else s.sub j } from
      H s.values s hl hn
    intro vs
    induction vs with
    | nil =>
      intro s _ _
      apply State.ext' <;> try rfl
      funext j; by_cases hj : j ∈ s.observers <;> simp [hj, nexts]
    | cons p vs ih =>
      intro s hl hn
      rw [List.foldl_cons, broadcastNext_eq hl hn p.1 p.2]
      refine (ih _ ?_ ?_).trans ?_
      · intro j hj
        have h0 := hl j hj
        have hj' : j ∈ s.observers := hj
        simp [hj', h0]
      · exact hn
      · apply State.ext' <;> try rfl
        funext j; by_cases hj : j ∈ s.observers <;> simp [hj, nexts]

/-! ### every operation in closed form (on a state satisfying the invariant) -/

variable (P : MP α)

theorem step_subscribe_used {s : State α} {i : Nat} (c : Ctx) (hu : (s.sub i).used = true) :
    multiStep P s (.subscribe i c) = s := by
  simp [multiStep, hu]

theorem step_subscribe_active {s : State α} {i : Nat} (c : Ctx) (hu : (s.sub i).used = false) (ha : s.status = .active) :
    multiStep P s (.subscribe i c) =
      { s with observers := s.observers ++ [i],
               sub := fun j => if j = i then { used := true, status := 0, td := true, got := if P.rA then nexts s.values else [] }
                               else s.sub j } := by
  simp only [multiStep, hu, ha, rep_eq, register, Bool.false_eq_true, if_false]
  apply State.ext'
  · simp [ha]
  · rfl
  · rfl
  · funext j; by_cases hj : j = i <;> simp [hj]
  · rfl

theorem step_subscribe_errored {s : State α} {i : Nat} (c ec : Ctx) (e : Err) (hu : (s.sub i).used = false)
    (he : s.status = .errored ec e) :
    multiStep P s (.subscribe i c) =
      s.modSub i (fun _ => { used := true, status := 1, td := false, got := (if P.rE then nexts s.values else []) ++ [.error ec e] }) := by
  simp only [multiStep, hu, he, rep_eq, Bool.false_eq_true, if_false]
  rw [subTerminal_open_notd _ (by simp) (by simp), modSub_modSub]
  apply modSub_congr; simp [termCode]

theorem step_subscribe_completed {s : State α} {i : Nat} (c : Ctx) (hu : (s.sub i).used = false)
    (he : s.status = .completed) :
    multiStep P s (.subscribe i c) =
      s.modSub i (fun _ => { used := true, status := 2, td := false, got := (if P.rC then nexts s.values else []) ++ [.complete c] }) := by
  simp only [multiStep, hu, he, rep_eq, Bool.false_eq_true, if_false]
  rw [subTerminal_open_notd _ (by simp) (by simp), modSub_modSub]
  apply modSub_congr; simp [termCode]

theorem step_next_closed {s : State α} (c : Ctx) (v : α) (hc : s.status ≠ .active) :
    multiStep P s (.next c v) = s.drop (.next c v) := by
  cases hs : s.status <;> simp [multiStep, hs] at hc ⊢

theorem step_next_active {s : State α} (c : Ctx) (v : α) (ha : s.status = .active) :
    multiStep P s (.next c v) = P.onNext s c v := by
  simp [multiStep, ha]

theorem step_error_active {s : State α} (h : Inv s) (c : Ctx) (e : Err) (ha : s.status = .active) :
    multiStep P s (.error c e) =
      { s with status := .errored c e, observers := [],
               sub := fun j => if j ∈ s.observers then { s.sub j with status := 1, td := false, got := (s.sub j).got ++ [.error c e] }
                               else s.sub j } := by
  simp only [multiStep, ha, unsubscribeAll]
  rw [broadcastTerminal_eq (s := { s with status := .errored c e })
    (fun j hj => ⟨(h.live j hj).2.1, (h.live j hj).2.2⟩) h.nodup]
  rfl

theorem step_complete_active {s : State α} (h : Inv s) (c : Ctx) (ha : s.status = .active) :
    multiStep P s (.complete c) =
      { s with status := .completed, observers := [],
               sub := fun j => if j ∈ s.observers
                 then { s.sub j with status := 2, td := false,
                                     got := (s.sub j).got ++ (if P.flush then nexts s.values else []) ++ [.complete c] }
                 else s.sub j } := by
  simp only [multiStep, ha]
  rw [flushAll_eq P.flush { s with status := .completed } (fun j hj => (h.live j hj).2.1) h.nodup]
  refine (congrArg unsubscribeAll (broadcastTerminal_eq ?_ ?_ _)).trans ?_
  · intro j hj
    have hj' : j ∈ s.observers := hj
    have := h.live j hj'
    simp [hj', this]
  · exact h.nodup
  · simp only [unsubscribeAll]
    apply State.ext' <;> try rfl
    funext j; by_cases hj : j ∈ s.observers <;> simp [hj, termCode]

theorem step_terminal_closed {s : State α} (h : Inv s) (hc : s.status ≠ .active) :
    (∀ c e, multiStep P s (.error c e) = s.drop (.error c e)) ∧ (∀ c, multiStep P s (.complete c) = s.drop (.complete c)) := by
  have ho := h.closed hc
  constructor
  · intro c e
    simp only [multiStep, unsubscribeAll]
    apply State.ext' <;> simp [ho]
  · intro c
    simp only [multiStep, unsubscribeAll]
    apply State.ext' <;> simp [ho]

theorem step_unsubscribe_unused {s : State α} {i : Nat} (hu : (s.sub i).used = false) :
    multiStep P s (.unsubscribe i) = s := by
  simp [multiStep, hu]

theorem step_unsubscribe_reg {s : State α} (h : Inv s) {i : Nat} (hi : i ∈ s.observers) :
    multiStep P s (.unsubscribe i) =
      { s with observers := s.observers.filter (· != i),
               sub := fun j => if j = i then { s.sub j with status := 2, td := false } else s.sub j } := by
  have := h.live i hi
  simp only [multiStep, this.1, if_true]
  exact subUnsubscribe_delete_reg this.2.1 this.2.2

end Ro.Subj

/-
  RoProofs.SubjectsUnicastSpec — unicast: the model simulates, for every subscriber, a pure
  automaton whose bookkeeping part is literally the definition's `Spec.ustep`; folding that
  automaton gives `Spec.unicastPinned`.  Hence the refinement theorem for the pinned tree, the
  `_partial` theorem against the definition, and the deviation characterised exactly.
-/
import RoProofs.SubjectsUnicast
namespace Ro.Subj
open Ro Ro.Subj.Spec

variable {α : Type}

structure UView (α : Type) where
  phase : Phase
  got : List (Notif α)
  status : Status
  u : U α

/-- what an operation means for subscriber `i` (the bookkeeping `u` is advanced by `Spec.ustep`) -/
def ucore (i : Nat) (w : UView α) : Op α → UView α
  | .next c v =>
    match w.status with
    | .active => { w with got := if w.phase = .live then w.got ++ [.next c v] else w.got }
    | _ => w
  | .error c e =>
    match w.status with
    | .active => { w with status := .errored c e, phase := if w.phase = .live then .done else w.phase,
                          got := if w.phase = .live then w.got ++ [.error c e] else w.got }
    | _ => w
  | .complete c =>
    match w.status with
    | .active => { w with status := .completed, phase := if w.phase = .live then .done else w.phase,
                          got := if w.phase = .live then w.got ++ [.complete c] else w.got }
    | _ => w
  | .subscribe j c =>
    if j = i ∧ w.phase = .before then
      match w.status with
      | .active =>
        if w.u.holder.isSome then { w with phase := .done, got := [.error c (.sentinel 6)] }
        else { w with phase := .live, got := nexts w.u.queue }
      | .errored ec e => { w with phase := .done, got := [.error ec e] }
      | .completed => { w with phase := .done, got := [.complete c] }
    else w
  | .unsubscribe j => if j = i ∧ w.phase = .live then { w with phase := .done } else w

def vstepU (cap : Option Nat) (i : Nat) (w : UView α) (o : Op α) : UView α :=
  { ucore i w o with u := ustep cap w.u o }

/-- how a model state and an automaton state correspond -/
structure URel (s : State α) (w : UView α) (i : Nat) : Prop where
  phase : w.phase = phaseOf s i
  got : w.got = (s.sub i).got
  status : w.status = s.status
  closed : w.u.closed = true ↔ s.status ≠ .active
  holder : s.status = .active → w.u.holder = s.observers.head?
  queue : s.status = .active → w.u.queue = s.values
  seen : ∀ j, (s.sub j).used = true ↔ j ∈ w.u.seen

theorem phaseOf_congr {s t : State α} {i : Nat} (hu : (t.sub i).used = (s.sub i).used)
    (hm : i ∈ t.observers ↔ i ∈ s.observers) : phaseOf t i = phaseOf s i := by
  unfold phaseOf
  rw [hu]
  by_cases h1 : i ∈ s.observers
  · simp [h1, hm.mpr h1]
  · have h2 : i ∉ t.observers := fun h => h1 (hm.mp h)
    simp [h1, h2]

theorem phaseOf_done {s : State α} {i : Nat} (hu : (s.sub i).used = true) (hm : i ∉ s.observers) :
    phaseOf s i = .done := by
  simp [phaseOf, hu, hm]

theorem phaseOf_live {s : State α} {i : Nat} (hu : (s.sub i).used = true) (hm : i ∈ s.observers) :
    phaseOf s i = .live := by
  simp [phaseOf, hu, hm]

variable (cap : Option Nat)

theorem urel_step {s : State α} {w : UView α} {i : Nat} (hU : UInv s) (R : URel s w i) (o : Op α) :
    URel (unicastStep cap s o) (vstepU cap i w o) i := by
  have hI := hU.inv
  have hlive := phaseOf_live_iff hI i
  have hbefore := phaseOf_before_iff s i
  obtain ⟨Rp, Rg, Rs, Rc, Rh, Rq, Rn⟩ := R
  cases o with
  | subscribe j c =>
    cases hu : (s.sub j).used with
    | true =>
      have hjs : j ∈ w.u.seen := (Rn j).mp hu
      rw [ustep_subscribe_used cap c hu]
      have hnb : ¬ (j = i ∧ w.phase = .before) := by
        rintro ⟨e, hp⟩; subst e
        rw [Rp, phaseOf_before_iff, hu] at hp; cases hp
      refine ⟨?_, ?_, ?_, ?_, ?_, ?_, ?_⟩ <;>
        simp only [vstepU, ucore, hnb, if_false, ustep, hjs, if_true] <;> assumption
    | false =>
      have hjs : j ∉ w.u.seen := fun hm => by have := (Rn j).mpr hm; rw [hu] at this; cases this
      have hjo : j ∉ s.observers := hI.not_mem_of_unused hu
      have hseen : ∀ (s' : State α) (u' : U α), u'.seen = j :: w.u.seen →
          (∀ k, (s'.sub k).used = if k = j then true else (s.sub k).used) →
          ∀ k, (s'.sub k).used = true ↔ k ∈ u'.seen := by
        intro s' u' hs' hk k
        rw [hs', hk k]
        by_cases hkj : k = j
        · simp [hkj]
        · simp [hkj, Rn k]
      by_cases ha : s.status = .active
      · have hcl : w.u.closed = false := by
          cases hc : w.u.closed with
          | false => rfl
          | true => exact absurd ha (Rc.mp hc)
        rcases hU.obs_cases with ho | ⟨x, ho⟩
        · -- admitted
          have hh : w.u.holder = none := by rw [Rh ha, ho]; rfl
          rw [ustep_subscribe_admitted cap c hu ha ho]
          by_cases hji : j = i
          · subst hji
            have hp : w.phase = .before := by rw [Rp]; exact (phaseOf_before_iff s j).mpr hu
            refine ⟨?_, ?_, ?_, ?_, ?_, ?_, ?_⟩
            · simp [vstepU, ucore, hp, Rs, ha, hh, phaseOf]
            · simp [vstepU, ucore, hp, Rs, ha, hh, Rq ha]
            · simp [vstepU, ucore, hp, Rs, ha, hh]
            · simp [vstepU, ustep, hjs, hcl, hh, ha]
            · intro _; simp [vstepU, ustep, hjs, hcl, hh]
            · intro _; simp [vstepU, ustep, hjs, hcl, hh]
            · exact hseen _ _ (by simp [vstepU, ustep, hjs, hcl, hh]) (fun k => by by_cases hk : k = j <;> simp [hk])
          · have hne : i ≠ j := fun e => hji e.symm
            have hio : i ∉ s.observers := by rw [ho]; simp
            refine ⟨?_, ?_, ?_, ?_, ?_, ?_, ?_⟩
            · simp only [vstepU, ucore, hji, false_and, if_false, Rp, phaseOf, hne, ho]
              simp [hne]
            · simp [vstepU, ucore, hji, Rg, hne]
            · simp [vstepU, ucore, hji, Rs]
            · simp [vstepU, ustep, hjs, hcl, hh, ha]
            · intro _; simp [vstepU, ustep, hjs, hcl, hh]
            · intro _; simp [vstepU, ustep, hjs, hcl, hh]
            · exact hseen _ _ (by simp [vstepU, ustep, hjs, hcl, hh]) (fun k => by by_cases hk : k = j <;> simp [hk])
        · -- rejected: somebody holds the subject
          have hh : w.u.holder = some x := by rw [Rh ha, ho]; rfl
          rw [ustep_subscribe_busy cap c hu ha ho]
          by_cases hji : j = i
          · subst hji
            have hp : w.phase = .before := by rw [Rp]; exact (phaseOf_before_iff s j).mpr hu
            refine ⟨?_, ?_, ?_, ?_, ?_, ?_, ?_⟩
            · simp [vstepU, ucore, hp, Rs, ha, hh, phaseOf, hjo]
            · simp [vstepU, ucore, hp, Rs, ha, hh]
            · simp [vstepU, ucore, hp, Rs, ha, hh]
            · simp [vstepU, ustep, hjs, hcl, hh, ha]
            · intro _; simp [vstepU, ustep, hjs, hcl, hh, ho]
            · intro _; simp [vstepU, ustep, hjs, hcl, hh, Rq ha]
            · exact hseen _ _ (by simp [vstepU, ustep, hjs, hcl, hh]) (fun k => by by_cases hk : k = j <;> simp [hk])
          · have hne : i ≠ j := fun e => hji e.symm
            refine ⟨?_, ?_, ?_, ?_, ?_, ?_, ?_⟩
            · simp only [vstepU, ucore, hji, false_and, if_false, Rp]
              exact (phaseOf_congr (by simp [hne]) (by simp)).symm
            · simp [vstepU, ucore, hji, Rg, hne]
            · simp [vstepU, ucore, hji, Rs]
            · simp [vstepU, ustep, hjs, hcl, hh, ha]
            · intro _; simp [vstepU, ustep, hjs, hcl, hh, ho]
            · intro _; simp [vstepU, ustep, hjs, hcl, hh, Rq ha]
            · exact hseen _ _ (by simp [vstepU, ustep, hjs, hcl, hh]) (fun k => by by_cases hk : k = j <;> simp [hk])
      · -- late subscriber
        have hcl : w.u.closed = true := Rc.mpr ha
        rw [ustep_subscribe_late cap c hu ha]
        by_cases hji : j = i
        · subst hji
          have hp : w.phase = .before := by rw [Rp]; exact (phaseOf_before_iff s j).mpr hu
          refine ⟨?_, ?_, ?_, ?_, ?_, ?_, ?_⟩
          · cases hs : s.status <;> simp [hs] at ha <;> simp [vstepU, ucore, hp, Rs, hs, phaseOf, hjo]
          · cases hs : s.status <;> simp [hs] at ha <;> simp [vstepU, ucore, hp, Rs, hs]
          · cases hs : s.status <;> simp [hs] at ha <;> simp [vstepU, ucore, hp, Rs, hs]
          · simp [vstepU, ustep, hjs, hcl, ha]
          · intro h'; exact absurd h' ha
          · intro h'; exact absurd h' ha
          · exact hseen _ _ (by simp [vstepU, ustep, hjs, hcl]) (fun k => by by_cases hk : k = j <;> simp [hk])
        · have hne : i ≠ j := fun e => hji e.symm
          refine ⟨?_, ?_, ?_, ?_, ?_, ?_, ?_⟩
          · simp only [vstepU, ucore, hji, false_and, if_false, Rp]
            exact (phaseOf_congr (by simp [hne]) (by simp)).symm
          · simp [vstepU, ucore, hji, Rg, hne]
          · simp [vstepU, ucore, hji, Rs]
          · simp [vstepU, ustep, hjs, hcl, ha]
          · intro h'; exact absurd h' ha
          · intro h'; exact absurd h' ha
          · exact hseen _ _ (by simp [vstepU, ustep, hjs, hcl]) (fun k => by by_cases hk : k = j <;> simp [hk])
  | next c v =>
    by_cases ha : s.status = .active
    · have hcl : w.u.closed = false := by
        cases hc : w.u.closed with
        | false => rfl
        | true => exact absurd ha (Rc.mp hc)
      rcases hU.obs_cases with ho | ⟨x, ho⟩
      · have hh : w.u.holder = none := by rw [Rh ha, ho]; rfl
        have hio : i ∉ s.observers := by rw [ho]; simp
        have hnl : w.phase ≠ .live := by rw [Rp]; exact fun e => hio (hlive.mp e)
        rw [ustep_next_idle cap c v ha ho]
        obtain ⟨h1, h2, h3, h4⟩ := push_values cap s c v
        refine ⟨?_, ?_, ?_, ?_, ?_, ?_, ?_⟩
        · simp [vstepU, ucore, Rs, ha, Rp, phaseOf, h2, h3]
        · simp [vstepU, ucore, Rs, ha, hnl, Rg, h2]
        · simp [vstepU, ucore, Rs, ha, h4]
        · simp [vstepU, ustep, hcl, hh, h4, ha]
        · intro _; simp [vstepU, ustep, hcl, hh, h3, ho]
        · intro _; simp [vstepU, ustep, hcl, hh, h1, Rq ha]
        · intro k; rw [h2]; simpa [vstepU, ustep, hcl, hh] using Rn k
      · have hh : w.u.holder = some x := by rw [Rh ha, ho]; rfl
        rw [ustep_next_held cap hU c v ha ho]
        have hpx : w.phase = .live ↔ i = x := by rw [Rp, hlive, ho]; simp
        refine ⟨?_, ?_, ?_, ?_, ?_, ?_, ?_⟩
        · simp only [vstepU, ucore, Rs, ha, Rp]
          refine (phaseOf_congr ?_ (by simp)).symm
          by_cases hix : i = x <;> simp [hix]
        · simp only [vstepU, ucore, Rs, ha, modSub_sub]
          by_cases hix : i = x
          · simp [hpx.mpr hix, hix, Rg]
          · have : w.phase ≠ .live := fun e => hix (hpx.mp e)
            simp [this, hix, Rg]
        · simp [vstepU, ucore, Rs, ha]
        · simp [vstepU, ustep, hcl, hh, ha]
        · intro _; simp [vstepU, ustep, hcl, hh, ho]
        · intro _; simp [vstepU, ustep, hcl, hh, Rq ha]
        · intro k
          have : ((s.modSub x fun y => { y with got := y.got ++ [.next c v] }).sub k).used = (s.sub k).used := by
            by_cases hk : k = x <;> simp [hk]
          rw [this]; simpa [vstepU, ustep, hcl, hh] using Rn k
    · have hcl : w.u.closed = true := Rc.mpr ha
      rw [ustep_next_closed cap c v ha]
      have hw : ucore i w (.next c v) = w := by
        simp only [ucore, Rs]
      refine ⟨?_, ?_, ?_, ?_, ?_, ?_, ?_⟩
      · simp only [vstepU, hw]; exact Rp
      · simp only [vstepU, hw]; exact Rg
      · simp only [vstepU, hw]; exact Rs
      · simp [vstepU, ustep, hcl, ha]
      · intro h'; exact absurd h' ha
      · intro h'; exact absurd h' ha
      · intro k; simpa [vstepU, ustep, hcl] using Rn k
  | error c e =>
    by_cases ha : s.status = .active
    · rcases hU.obs_cases with ho | ⟨x, ho⟩
      · have hio : i ∉ s.observers := by rw [ho]; simp
        have hnl : w.phase ≠ .live := by rw [Rp]; exact fun e => hio (hlive.mp e)
        rw [ustep_error_idle cap c e ha ho]
        refine ⟨?_, ?_, ?_, ?_, ?_, ?_, ?_⟩
        · have hnl' : phaseOf s i ≠ .live := fun e => hio (hlive.mp e)
          simp only [vstepU, ucore, Rs, ha, Rp, hnl', if_false]
          exact (phaseOf_congr rfl Iff.rfl).symm
        · simp [vstepU, ucore, Rs, ha, hnl, Rg, State.drop]
        · simp [vstepU, ucore, Rs, ha, State.drop]
        · simp [vstepU, ustep, State.drop]
        · intro h'; simp [State.drop] at h'
        · intro h'; simp [State.drop] at h'
        · intro k; simpa [vstepU, ustep, State.drop] using Rn k
      · rw [ustep_error_held cap hU c e ha ho]
        have hpx : w.phase = .live ↔ i = x := by rw [Rp, hlive, ho]; simp
        refine ⟨?_, ?_, ?_, ?_, ?_, ?_, ?_⟩
        · simp only [vstepU, ucore, Rs, ha]
          by_cases hix : i = x
          · have hux := (hI.live x (by simp [ho])).1
            simp only [hpx.mpr hix, if_true]
            exact (phaseOf_done (by simp [hix, hux]) (by simp)).symm
          · have hnl : phaseOf s i ≠ .live := fun e => hix (hpx.mp (Rp.trans e))
            simp only [Rp, hnl, if_false]
            refine (phaseOf_congr ?_ ?_).symm
            · simp [hix]
            · simp [ho, hix]
        · simp only [vstepU, ucore, Rs, ha]
          by_cases hix : i = x
          · simp [hpx.mpr hix, hix, Rg]
          · have hnl : w.phase ≠ .live := fun e => hix (hpx.mp e)
            simp [hnl, hix, Rg]
        · simp [vstepU, ucore, Rs, ha]
        · simp [vstepU, ustep]
        · intro h'; simp at h'
        · intro h'; simp at h'
        · intro k
          have : ((fun j => if j = x then { s.sub j with status := 1, td := false, got := (s.sub j).got ++ [Notif.error c e] } else s.sub j) k).used = (s.sub k).used := by
            by_cases hk : k = x <;> simp [hk]
          simp only [this]; simpa [vstepU, ustep] using Rn k
    · have hcl : w.u.closed = true := Rc.mpr ha
      rw [(ustep_terminal_closed cap ha).1]
      have hw : ucore i w (.error c e) = w := by
        simp only [ucore, Rs]
      refine ⟨?_, ?_, ?_, ?_, ?_, ?_, ?_⟩
      · simp only [vstepU, hw]; exact Rp
      · simp only [vstepU, hw]; exact Rg
      · simp only [vstepU, hw]; exact Rs
      · simp [vstepU, ustep, ha]
      · intro h'; exact absurd h' ha
      · intro h'; exact absurd h' ha
      · intro k; simpa [vstepU, ustep] using Rn k
  | complete c =>
    by_cases ha : s.status = .active
    · rcases hU.obs_cases with ho | ⟨x, ho⟩
      · have hio : i ∉ s.observers := by rw [ho]; simp
        have hnl : w.phase ≠ .live := by rw [Rp]; exact fun e => hio (hlive.mp e)
        rw [ustep_complete_idle cap c ha ho]
        refine ⟨?_, ?_, ?_, ?_, ?_, ?_, ?_⟩
        · have hnl' : phaseOf s i ≠ .live := fun e => hio (hlive.mp e)
          simp only [vstepU, ucore, Rs, ha, Rp, hnl', if_false]
          exact (phaseOf_congr rfl Iff.rfl).symm
        · simp [vstepU, ucore, Rs, ha, hnl, Rg, State.drop]
        · simp [vstepU, ucore, Rs, ha, State.drop]
        · simp [vstepU, ustep, State.drop]
        · intro h'; simp [State.drop] at h'
        · intro h'; simp [State.drop] at h'
        · intro k; simpa [vstepU, ustep, State.drop] using Rn k
      · rw [ustep_complete_held cap hU c ha ho]
        have hpx : w.phase = .live ↔ i = x := by rw [Rp, hlive, ho]; simp
        refine ⟨?_, ?_, ?_, ?_, ?_, ?_, ?_⟩
        · simp only [vstepU, ucore, Rs, ha]
          by_cases hix : i = x
          · have hux := (hI.live x (by simp [ho])).1
            simp only [hpx.mpr hix, if_true]
            exact (phaseOf_done (by simp [hix, hux]) (by simp)).symm
          · have hnl : phaseOf s i ≠ .live := fun e => hix (hpx.mp (Rp.trans e))
            simp only [Rp, hnl, if_false]
            refine (phaseOf_congr ?_ ?_).symm
            · simp [hix]
            · simp [ho, hix]
        · simp only [vstepU, ucore, Rs, ha]
          by_cases hix : i = x
          · simp [hpx.mpr hix, hix, Rg]
          · have hnl : w.phase ≠ .live := fun e => hix (hpx.mp e)
            simp [hnl, hix, Rg]
        · simp [vstepU, ucore, Rs, ha]
        · simp [vstepU, ustep]
        · intro h'; simp at h'
        · intro h'; simp at h'
        · intro k
          have : ((fun j => if j = x then { s.sub j with status := 2, td := false, got := (s.sub j).got ++ [Notif.complete c] } else s.sub j) k).used = (s.sub k).used := by
            by_cases hk : k = x <;> simp [hk]
          simp only [this]; simpa [vstepU, ustep] using Rn k
    · have hcl : w.u.closed = true := Rc.mpr ha
      rw [(ustep_terminal_closed cap ha).2]
      have hw : ucore i w (.complete c) = w := by
        simp only [ucore, Rs]
      refine ⟨?_, ?_, ?_, ?_, ?_, ?_, ?_⟩
      · simp only [vstepU, hw]; exact Rp
      · simp only [vstepU, hw]; exact Rg
      · simp only [vstepU, hw]; exact Rs
      · simp [vstepU, ustep, ha]
      · intro h'; exact absurd h' ha
      · intro h'; exact absurd h' ha
      · intro k; simpa [vstepU, ustep] using Rn k
  | unsubscribe j =>
    have hseen_same : ∀ k, (s.sub k).used = true ↔ k ∈ (ustep cap w.u (.unsubscribe j)).seen := by
      intro k; simp only [ustep]; split <;> exact Rn k
    have hclosed_same : (ustep cap w.u (.unsubscribe j)).closed = w.u.closed := by
      simp only [ustep]; split <;> rfl
    have hqueue_same : (ustep cap w.u (.unsubscribe j)).queue = w.u.queue := by
      simp only [ustep]; split <;> rfl
    cases hu : (s.sub j).used with
    | false =>
      rw [ustep_unsubscribe_unused cap hu]
      have hjo : j ∉ s.observers := hI.not_mem_of_unused hu
      have hnl : ¬ (j = i ∧ w.phase = .live) := by
        rintro ⟨e, hp⟩; subst e; rw [Rp] at hp; exact hjo (hlive.mp hp)
      refine ⟨?_, ?_, ?_, ?_, ?_, ?_, hseen_same⟩
      · simp only [vstepU, ucore, hnl, if_false]; exact Rp
      · simp only [vstepU, ucore, hnl, if_false]; exact Rg
      · simp only [vstepU, ucore, hnl, if_false]; exact Rs
      · simp only [vstepU, hclosed_same]; exact Rc
      · intro ha
        have hh := Rh ha
        simp only [vstepU, ustep]
        split
        · rename_i hhj
          rw [hhj] at hh
          rcases hU.obs_cases with ho | ⟨x, ho⟩
          · rw [ho] at hh; cases hh
          · rw [ho] at hh hjo; simp at hh hjo; exact absurd hh hjo
        · exact hh
      · intro ha; simp only [vstepU, hqueue_same]; exact Rq ha
    | true =>
      by_cases hj : j ∈ s.observers
      · have ha : s.status = .active := by
          cases hs : s.status with
          | active => rfl
          | errored ec e => have := hI.closed (by rw [hs]; simp); rw [this] at hj; cases hj
          | completed => have := hI.closed (by rw [hs]; simp); rw [this] at hj; cases hj
        have ho : s.observers = [j] := by
          rcases hU.obs_cases with ho | ⟨x, ho⟩
          · rw [ho] at hj; cases hj
          · rw [ho] at hj; simp at hj; rw [ho, hj]
        have hh : w.u.holder = some j := by rw [Rh ha, ho]; rfl
        rw [ustep_unsubscribe_reg cap hU hj]
        refine ⟨?_, ?_, ?_, ?_, ?_, ?_, ?_⟩
        rotate_right
        · intro k
          have : ((fun j_2 => if j_2 = j then { s.sub j_2 with status := 2, td := false } else s.sub j_2) k).used = (s.sub k).used := by
            by_cases hk : k = j <;> simp [hk]
          simp only [this]; exact hseen_same k
        · simp only [vstepU, ucore]
          by_cases hji : j = i
          · subst hji
            simp only [Rp, hlive.mpr hj, and_self, if_true]
            exact (phaseOf_done (by simp [hu]) (by simp)).symm
          · have hne : i ≠ j := fun e => hji e.symm
            simp only [hji, false_and, if_false, Rp]
            refine (phaseOf_congr ?_ ?_).symm
            · simp [hne]
            · simp [ho, hne]
        · simp only [vstepU, ucore]
          by_cases hji : j = i
          · subst hji; simp [Rp, hlive.mpr hj, Rg]
          · have hne : i ≠ j := fun e => hji e.symm
            simp [hji, Rg, hne]
        · simp only [vstepU, ucore]; split <;> exact Rs
        · simp only [vstepU, hclosed_same]; exact Rc
        · intro _; simp [vstepU, ustep, hh]
        · intro _; simp only [vstepU, hqueue_same]; exact Rq ha
      · have ht := hI.td_false hj
        obtain ⟨h1, h2, h3, h4⟩ := subUnsubscribe_unreg (s := s) (i := j) .clear ht
        have hnl : ¬ (j = i ∧ w.phase = .live) := by
          rintro ⟨e, hp⟩; subst e; rw [Rp] at hp; exact hj (hlive.mp hp)
        simp only [unicastStep, hu, if_true]
        refine ⟨?_, ?_, ?_, ?_, ?_, ?_, ?_⟩
        · have hnl' : ¬ (j = i ∧ phaseOf s i = .live) := by rw [← Rp]; exact hnl
          simp only [vstepU, ucore, Rp, hnl', if_false]
          exact (phaseOf_congr (h4 i).2.1 (by rw [h1])).symm
        · simp only [vstepU, ucore, hnl, if_false, Rg, (h4 i).1]
        · simp only [vstepU, ucore, hnl, if_false, Rs, h2]
        · simp only [vstepU, hclosed_same, h2]; exact Rc
        · intro ha
          rw [h2] at ha
          have hh := Rh ha
          simp only [vstepU, ustep, h1]
          split
          · rename_i hhj
            rw [hhj] at hh
            rcases hU.obs_cases with ho | ⟨x, ho⟩
            · rw [ho] at hh; cases hh
            · rw [ho] at hh hj; simp at hh hj; exact absurd hh hj
          · exact hh
        · intro ha; rw [h2] at ha; simp only [vstepU, hqueue_same, h3]; exact Rq ha
        · intro k; rw [(h4 k).2.1]; exact hseen_same k

/-! ### the automaton computes the (pinned) definition -/

def vrunU (cap : Option Nat) (i : Nat) (w : UView α) (ops : List (Op α)) : UView α := ops.foldl (vstepU cap i) w

theorem uview_ext {a b : UView α} (h1 : a.phase = b.phase) (h2 : a.got = b.got) (h3 : a.status = b.status)
    (h4 : a.u = b.u) : a = b := by
  cases a; cases b; simp_all

variable (i : Nat)

theorem vrunU_closed_before : ∀ (ops : List (Op α)) (g : List (Notif α)) (st : Status) (u : U α), st ≠ .active →
    (∀ o ∈ ops, isSub i o = false) →
    vrunU cap i ⟨.before, g, st, u⟩ ops = ⟨.before, g, st, ops.foldl (ustep cap) u⟩
  | [], _, _, _, _, _ => rfl
  | o :: ops, g, st, u, hc, hno => by
    have hno' : ∀ o ∈ ops, isSub i o = false := fun o ho => hno o (by simp [ho])
    have : vstepU cap i ⟨.before, g, st, u⟩ o = ⟨.before, g, st, ustep cap u o⟩ := by
      cases o with
      | subscribe j c =>
        have : j ≠ i := by simpa [isSub] using hno (.subscribe j c) (by simp)
        simp [vstepU, ucore, this]
      | unsubscribe j => simp [vstepU, ucore]
      | next c v => cases st <;> simp [vstepU, ucore] at hc ⊢
      | error c e => cases st <;> simp [vstepU, ucore] at hc ⊢
      | complete c => cases st <;> simp [vstepU, ucore] at hc ⊢
    simp only [vrunU, List.foldl_cons, this]
    exact vrunU_closed_before ops g st _ hc hno'

theorem vrunU_before : ∀ (pre : List (Op α)) (g : List (Notif α)) (u : U α),
    (∀ o ∈ pre, isSub i o = false) →
    vrunU cap i ⟨.before, g, .active, u⟩ pre =
      ⟨.before, g, statusOf (ending (produced pre)), pre.foldl (ustep cap) u⟩
  | [], _, _, _ => rfl
  | o :: pre, g, u, hno => by
    have hno' : ∀ o ∈ pre, isSub i o = false := fun o ho => hno o (by simp [ho])
    cases o with
    | subscribe j c =>
      have : j ≠ i := by simpa [isSub] using hno (.subscribe j c) (by simp)
      simp only [vrunU, List.foldl_cons, vstepU, ucore, this, false_and, if_false, produced]
      exact vrunU_before pre g _ hno'
    | unsubscribe j =>
      have : ¬ (j = i ∧ Phase.before = Phase.live) := by simp
      simp only [vrunU, List.foldl_cons, vstepU, ucore, this, if_false, produced]
      exact vrunU_before pre g _ hno'
    | next c v =>
      have : ¬ (Phase.before = Phase.live) := by simp
      simp only [vrunU, List.foldl_cons, vstepU, ucore, this, if_false, produced, ending]
      exact vrunU_before pre g _ hno'
    | error c e =>
      have : ¬ (Phase.before = Phase.live) := by simp
      simp only [vrunU, List.foldl_cons, vstepU, ucore, this, if_false, produced, ending, statusOf]
      exact vrunU_closed_before cap i pre g _ _ (by simp) hno'
    | complete c =>
      have : ¬ (Phase.before = Phase.live) := by simp
      simp only [vrunU, List.foldl_cons, vstepU, ucore, this, if_false, produced, ending, statusOf]
      exact vrunU_closed_before cap i pre g _ _ (by simp) hno'

theorem vrunU_done : ∀ (ops : List (Op α)) (w : UView α), w.phase = .done →
    (vrunU cap i w ops).got = w.got ∧ (vrunU cap i w ops).phase = .done
  | [], _, hp => ⟨rfl, hp⟩
  | o :: ops, w, hp => by
    have h1 : (vstepU cap i w o).phase = .done ∧ (vstepU cap i w o).got = w.got := by
      cases o with
      | subscribe j c => simp [vstepU, ucore, hp]
      | unsubscribe j => simp [vstepU, ucore, hp]
      | next c v => cases hs : w.status <;> simp [vstepU, ucore, hs, hp]
      | error c e => cases hs : w.status <;> simp [vstepU, ucore, hs, hp]
      | complete c => cases hs : w.status <;> simp [vstepU, ucore, hs, hp]
    have ih := vrunU_done ops (vstepU cap i w o) h1.1
    simp only [vrunU, List.foldl_cons] at ih ⊢
    exact ⟨ih.1.trans h1.2, ih.2⟩

theorem vrunU_live : ∀ (post : List (Op α)) (g : List (Notif α)) (u : U α),
    (vrunU cap i ⟨.live, g, .active, u⟩ post).got = g ++ gate (produced (whileSubscribed i post)) ∧
    ((vrunU cap i ⟨.live, g, .active, u⟩ post).phase = .live ↔
      (post.all (fun o => !isUnsub i o) = true ∧ ending (produced post) = .never))
  | [], g, u => by simp [vrunU, whileSubscribed, produced, gate, ending]
  | o :: post, g, u => by
    cases o with
    | subscribe j c =>
      have : ¬ (j = i ∧ Phase.live = Phase.before) := by simp
      simp only [vrunU, List.foldl_cons, vstepU, ucore, this, if_false, whileSubscribed, List.takeWhile_cons, isUnsub,
        Bool.not_false, if_true, produced, List.all_cons, Bool.true_and]
      exact vrunU_live post g _
    | unsubscribe j =>
      by_cases hj : j = i
      · subst hj
        have hd := vrunU_done cap j post ⟨.done, g, .active, ustep cap u (.unsubscribe j)⟩ rfl
        simp only [vrunU, List.foldl_cons, vstepU, ucore, and_self, if_true, whileSubscribed, List.takeWhile_cons, isUnsub,
          beq_self_eq_true, Bool.not_true, Bool.false_eq_true, if_false, produced, gate, List.append_nil,
          List.all_cons, Bool.false_and, false_and, iff_false] at hd ⊢
        exact ⟨hd.1, by rw [hd.2]; simp⟩
      · have hb : (j == i) = false := by simpa using hj
        simp only [vrunU, List.foldl_cons, vstepU, ucore, hj, false_and, if_false, whileSubscribed, List.takeWhile_cons,
          isUnsub, hb, Bool.not_false, if_true, produced, List.all_cons, Bool.true_and]
        exact vrunU_live post g _
    | next c v =>
      have ih := vrunU_live post (g ++ [.next c v]) (ustep cap u (.next c v))
      simp only [vrunU, List.foldl_cons, vstepU, ucore, if_true, whileSubscribed, List.takeWhile_cons, isUnsub,
        Bool.not_false, produced, gate_cons_next, List.all_cons, Bool.true_and, ending] at ih ⊢
      refine ⟨?_, ih.2⟩
      rw [ih.1]; simp
    | error c e =>
      have hd := vrunU_done cap i post ⟨.done, g ++ [.error c e], .errored c e, ustep cap u (.error c e)⟩ rfl
      simp only [vrunU, List.foldl_cons, vstepU, ucore, if_true, whileSubscribed, List.takeWhile_cons, isUnsub,
        Bool.not_false, produced, gate_cons_error, List.all_cons, Bool.true_and, ending] at hd ⊢
      exact ⟨hd.1, by rw [hd.2]; simp⟩
    | complete c =>
      have hd := vrunU_done cap i post ⟨.done, g ++ [.complete c], .completed, ustep cap u (.complete c)⟩ rfl
      simp only [vrunU, List.foldl_cons, vstepU, ucore, if_true, whileSubscribed, List.takeWhile_cons, isUnsub,
        Bool.not_false, produced, gate_cons_complete, List.all_cons, Bool.true_and, ending] at hd ⊢
      exact ⟨hd.1, by rw [hd.2]; simp⟩

theorem vrunU_append (w : UView α) (a b : List (Op α)) : vrunU cap i w (a ++ b) = vrunU cap i (vrunU cap i w a) b := by
  simp [vrunU, List.foldl_append]

theorem vrunU_got (ops : List (Op α)) :
    (vrunU cap i ⟨.before, [], .active, {}⟩ ops).got = Spec.unicastPinned cap ops i := by
  unfold Spec.unicastPinned Spec.unicastWith
  cases hsp : splitSub i ops with
  | none => rw [vrunU_before cap i ops [] {} (splitSub_none hsp)]
  | some x =>
    obtain ⟨pre, c, post⟩ := x
    obtain ⟨hops, hno⟩ := splitSub_some hsp
    simp only
    rw [hops, vrunU_append, vrunU_before cap i pre [] {} hno]
    have hstep : ∀ w : UView α, vrunU cap i w (.subscribe i c :: post) = vrunU cap i (vstepU cap i w (.subscribe i c)) post :=
      fun _ => rfl
    rw [hstep]
    cases he : ending (produced pre) with
    | never =>
      simp only [statusOf, vstepU, ucore, and_self, if_true, ufold]
      cases hh : (List.foldl (ustep cap) {} pre).holder with
      | none =>
        simp only [Option.isSome_none, Bool.false_eq_true, if_false]
        rw [(vrunU_live cap i post _ _).1]
      | some x =>
        simp only [Option.isSome_some, if_true]
        rw [(vrunU_done cap i post _ rfl).1]
    | error ec e =>
      simp only [statusOf, vstepU, ucore, and_self, if_true, Bool.false_eq_true, if_false, List.nil_append]
      rw [(vrunU_done cap i post _ rfl).1]
    | complete cc =>
      simp only [statusOf, vstepU, ucore, and_self, if_true, Bool.false_eq_true, if_false, List.nil_append]
      rw [(vrunU_done cap i post _ rfl).1]

theorem vrunU_phase_live (ops : List (Op α)) :
    ((vrunU cap i ⟨.before, [], .active, {}⟩ ops).phase = .live) ↔ Spec.subscribed (.unicast cap) ops i = true := by
  unfold Spec.subscribed
  cases hsp : splitSub i ops with
  | none => rw [vrunU_before cap i ops [] {} (splitSub_none hsp)]; simp
  | some x =>
    obtain ⟨pre, c, post⟩ := x
    obtain ⟨hops, hno⟩ := splitSub_some hsp
    simp only
    rw [hops, vrunU_append, vrunU_before cap i pre [] {} hno]
    have hstep : ∀ w : UView α, vrunU cap i w (.subscribe i c :: post) = vrunU cap i (vstepU cap i w (.subscribe i c)) post :=
      fun _ => rfl
    rw [hstep]
    cases he : ending (produced pre) with
    | never =>
      simp only [statusOf, vstepU, ucore, and_self, if_true, ufold]
      cases hh : (List.foldl (ustep cap) {} pre).holder with
      | none =>
        simp only [Option.isSome_none, Bool.false_eq_true, if_false]
        rw [(vrunU_live cap i post _ _).2]
        cases ending (produced post) <;> simp
      | some x =>
        simp only [Option.isSome_some, if_true]
        rw [(vrunU_done cap i post _ rfl).2]; simp
    | error ec e =>
      simp only [statusOf, vstepU, ucore, and_self, if_true]
      rw [(vrunU_done cap i post _ rfl).2]; simp
    | complete cc =>
      simp only [statusOf, vstepU, ucore, and_self, if_true]
      rw [(vrunU_done cap i post _ rfl).2]; simp

theorem vstepU_status (w : UView α) (o : Op α) :
    (vstepU cap i w o).status = (match w.status, o with
        | .active, .error c e => .errored c e
        | .active, .complete _ => .completed
        | st, _ => st) := by
  cases o with
  | subscribe j c =>
    simp only [vstepU, ucore]
    split
    · cases hs : w.status <;> simp <;> split <;> rfl
    · cases hs : w.status <;> simp
  | next c v => cases hs : w.status <;> simp [vstepU, ucore, hs]
  | error c e => cases hs : w.status <;> simp [vstepU, ucore, hs]
  | complete c => cases hs : w.status <;> simp [vstepU, ucore, hs]
  | unsubscribe j => simp only [vstepU, ucore]; split <;> cases hs : w.status <;> simp

theorem vrunU_status : ∀ (ops : List (Op α)) (w : UView α),
    (vrunU cap i w ops).status = (match w.status with
      | .active => statusOf (ending (produced ops))
      | st => st)
  | [], w => by cases hs : w.status <;> simp [vrunU, produced, ending, statusOf, hs]
  | o :: ops, w => by
    have ih := vrunU_status ops (vstepU cap i w o)
    have h2 := vstepU_status cap i w o
    simp only [vrunU, List.foldl_cons] at ih ⊢
    rw [ih, h2]
    cases hs : w.status <;> cases o <;> simp [produced, ending, statusOf]

/-! ### the model against the definition -/

theorem urel_init : URel (Kind.unicast (α := α) cap).init ⟨.before, [], .active, {}⟩ i :=
  ⟨rfl, rfl, rfl, by simp [Kind.init], fun _ => rfl, fun _ => rfl, fun j => by simp [Kind.init]⟩

theorem urel_runFrom : ∀ (ops : List (Op α)) (s : State α) (w : UView α), UInv s → URel s w i →
    URel (runFrom (.unicast cap) s ops) (vrunU cap i w ops) i
  | [], _, _, _, R => R
  | o :: ops, s, w, hU, R => urel_runFrom ops _ _ (uinv_step cap hU o) (urel_step cap hU R o)

theorem urel_run (ops : List (Op α)) :
    URel (run (.unicast cap) ops) (vrunU cap i ⟨.before, [], .active, {}⟩ ops) i :=
  urel_runFrom cap i ops _ _ (uinv_init cap) (urel_init cap i)

/-- **unicast, every operation sequence, every buffer size, every subscriber**: the pinned tree
    follows the definition in which a late subscriber gets only the stored terminal -/
theorem unicast_refines_pinned (ops : List (Op α)) :
    ((run (.unicast cap) ops).sub i).got = Spec.unicastPinned cap ops i := by
  rw [← (urel_run cap i ops).got, vrunU_got]

theorem unicast_registered (ops : List (Op α)) :
    i ∈ (run (.unicast cap) ops).observers ↔ Spec.subscribed (.unicast cap) ops i = true := by
  have hU := uinv_runFrom cap ops _ (uinv_init cap)
  rw [← vrunU_phase_live, (urel_run cap i ops).phase]
  exact (phaseOf_live_iff hU.inv i).symm

theorem unicast_status (ops : List (Op α)) : (run (.unicast cap) ops).status = Spec.status ops := by
  rw [← (urel_run cap 0 ops).status, vrunU_status]
  unfold Spec.status statusOf
  cases ending (produced ops) <;> rfl

/-- the definition and its pinned variant agree except for late subscribers with a backlog -/
theorem unicastPinned_eq_of_not_late (ops : List (Op α)) (h : lateWithBacklog cap ops i = false) :
    Spec.unicastPinned cap ops i = Spec.unicast cap ops i := by
  unfold Spec.unicastPinned Spec.unicast Spec.unicastWith
  unfold lateWithBacklog at h
  cases hsp : splitSub i ops with
  | none => rfl
  | some x =>
    obtain ⟨pre, c, post⟩ := x
    rw [hsp] at h
    simp only at h ⊢
    cases he : ending (produced pre) with
    | never => rfl
    | error ec e =>
      rw [he] at h
      have : (ufold cap pre).queue = [] := by simpa using h
      simp [this, nexts]
    | complete cc =>
      rw [he] at h
      have : (ufold cap pre).queue = [] := by simpa using h
      simp [this, nexts]

/-- **unicast against the definition** (`_partial`): everywhere except for a subscriber arriving
    after termination while a backlog is queued -/
theorem unicast_refines_partial (ops : List (Op α)) (h : lateWithBacklog cap ops i = false) :
    ((run (.unicast cap) ops).sub i).got = Spec.unicast cap ops i := by
  rw [unicast_refines_pinned, unicastPinned_eq_of_not_late cap i ops h]

/-- the deviation, exactly: in the excluded class the definition promises the queued backlog
    before the terminal; the pinned tree delivers the terminal alone -/
theorem unicast_late_deviation (ops : List (Op α)) (h : lateWithBacklog cap ops i = true) :
    ∃ pre c post, splitSub i ops = some (pre, c, post) ∧ (ufold cap pre).queue ≠ [] ∧
      Spec.unicast cap ops i = nexts (ufold cap pre).queue ++ ((run (.unicast cap) ops).sub i).got := by
  rw [unicast_refines_pinned]
  unfold lateWithBacklog at h
  unfold Spec.unicastPinned Spec.unicast Spec.unicastWith
  cases hsp : splitSub i ops with
  | none => rw [hsp] at h; cases h
  | some x =>
    obtain ⟨pre, c, post⟩ := x
    rw [hsp] at h
    refine ⟨pre, c, post, rfl, ?_, ?_⟩
    · intro hq; simp [hq] at h
    · simp only
      cases he : ending (produced pre) with
      | never => simp [he] at h
      | error ec e => simp
      | complete cc => simp

end Ro.Subj

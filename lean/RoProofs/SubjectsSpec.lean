/-
  RoProofs.SubjectsSpec — the pure half of the refinement: folding the per-subscriber automaton
  `vstep` over an operation sequence gives the sequential definition (RoModel/Spec/Subjects.lean),
  for the four multicast subjects; then the model is connected through `view_multiStep`.
-/
import RoProofs.SubjectsView
namespace Ro.Subj
open Ro Ro.Subj.Spec

variable {α : Type}

def runM (P : MP α) (s : State α) (ops : List (Op α)) : State α := ops.foldl (multiStep P) s
def vrun (P : MP α) (i : Nat) (w : View α) (ops : List (Op α)) : View α := ops.foldl (vstep P i) w

theorem view_runM (P : MP α) (hP : P.Law) (i : Nat) : ∀ (ops : List (Op α)) (s : State α), Inv s →
    view (runM P s ops) i = vrun P i (view s i) ops ∧ Inv (runM P s ops)
  | [], _, h => ⟨rfl, h⟩
  | o :: ops, s, h => by
    have := view_runM P hP i ops (multiStep P s o) (inv_multiStep P hP h o)
    simp only [runM, vrun, List.foldl_cons] at this ⊢
    rw [← view_multiStep P hP h o i]
    exact this

/-! ### the generic definition -/

/-- what a registered subscriber receives from the producer notifications that follow -/
def liveSpec (P : MP α) : List (Ctx × α) → List (Notif α) → List (Notif α)
  | _, [] => []
  | m, .next c v :: r => (if P.live then [.next c v] else []) ++ liveSpec P (P.mem m (c, v)) r
  | _, .error c e :: _ => [.error c e]
  | m, .complete c :: _ => (if P.flush then nexts m else []) ++ [.complete c]

def multiSpec (P : MP α) (m0 : List (Ctx × α)) (ops : List (Op α)) (i : Nat) : List (Notif α) :=
  match splitSub i ops with
  | none => []
  | some (pre, c, post) =>
    match ending (produced pre) with
    | .never => (if P.rA then nexts ((values (produced pre)).foldl P.mem m0) else [])
                ++ liveSpec P ((values (produced pre)).foldl P.mem m0) (produced (whileSubscribed i post))
    | .error ec e => (if P.rE then nexts ((values (produced pre)).foldl P.mem m0) else []) ++ [.error ec e]
    | .complete _ => (if P.rC then nexts ((values (produced pre)).foldl P.mem m0) else []) ++ [.complete c]

def statusOf : Ending → Status
  | .never => .active
  | .error c e => .errored c e
  | .complete _ => .completed

def isSub (i : Nat) : Op α → Bool
  | .subscribe j _ => j == i
  | _ => false

/-! ### facts about splitting at the first `Subscribe i` -/

theorem splitSub_none {i : Nat} : ∀ {ops : List (Op α)}, splitSub i ops = none → ∀ o ∈ ops, isSub i o = false
  | [], _, o, ho => by cases ho
  | x :: r, h, o, ho => by
    cases x with
    | subscribe j c =>
      simp only [splitSub] at h
      split at h
      · cases h
      · rename_i hji
        simp only [Option.map_eq_none_iff] at h
        cases ho with
        | head => simp [isSub, hji]
        | tail _ ho' => exact splitSub_none h o ho'
    | next c v =>
      simp only [splitSub, Option.map_eq_none_iff] at h
      cases ho with
      | head => rfl
      | tail _ ho' => exact splitSub_none h o ho'
    | error c e =>
      simp only [splitSub, Option.map_eq_none_iff] at h
      cases ho with
      | head => rfl
      | tail _ ho' => exact splitSub_none h o ho'
    | complete c =>
      simp only [splitSub, Option.map_eq_none_iff] at h
      cases ho with
      | head => rfl
      | tail _ ho' => exact splitSub_none h o ho'
    | unsubscribe j =>
      simp only [splitSub, Option.map_eq_none_iff] at h
      cases ho with
      | head => rfl
      | tail _ ho' => exact splitSub_none h o ho'

theorem splitSub_some {i : Nat} : ∀ {ops pre : List (Op α)} {c : Ctx} {post : List (Op α)},
    splitSub i ops = some (pre, c, post) →
    ops = pre ++ .subscribe i c :: post ∧ ∀ o ∈ pre, isSub i o = false
  | [], _, _, _, h => by cases h
  | x :: r, pre, c, post, h => by
    have key : ∀ (hx : isSub i x = false),
        (splitSub i r).map (fun y => (x :: y.1, y.2.1, y.2.2)) = some (pre, c, post) →
        x :: r = pre ++ .subscribe i c :: post ∧ ∀ o ∈ pre, isSub i o = false := by
      intro hx hm
      cases hr : splitSub i r with
      | none => rw [hr] at hm; cases hm
      | some y =>
        obtain ⟨p, c', q⟩ := y
        rw [hr] at hm
        simp only [Option.map_some, Option.some.injEq, Prod.mk.injEq] at hm
        obtain ⟨h1, h2, h3⟩ := hm
        subst h1; subst h2; subst h3
        have ih := splitSub_some hr
        refine ⟨by rw [ih.1]; rfl, ?_⟩
        intro o ho
        cases ho with
        | head => exact hx
        | tail _ ho' => exact ih.2 o ho'
    cases x with
    | subscribe j c' =>
      simp only [splitSub] at h
      split at h
      · rename_i hji
        simp only [Option.some.injEq, Prod.mk.injEq] at h
        obtain ⟨h1, h2, h3⟩ := h
        subst h1; subst h2; subst h3; subst hji
        exact ⟨rfl, fun o ho => by cases ho⟩
      · rename_i hji
        exact key (by simp [isSub, hji]) h
    | next c' v => exact key rfl (by simpa only [splitSub] using h)
    | error c' e => exact key rfl (by simpa only [splitSub] using h)
    | complete c' => exact key rfl (by simpa only [splitSub] using h)
    | unsubscribe j => exact key rfl (by simpa only [splitSub] using h)

/-! ### the automaton, phase by phase -/

variable (P : MP α) (i : Nat)

theorem vstep_not_sub_before (w : View α) (o : Op α) (hp : w.phase = .before) (ho : isSub i o = false) :
    (vstep P i w o).phase = .before ∧ (vstep P i w o).got = w.got := by
  cases o with
  | subscribe j c =>
    have : j ≠ i := by simpa [isSub] using ho
    simp [vstep, this]; exact hp
  | next c v => cases hs : w.status <;> simp [vstep, hs, hp]
  | error c e => cases hs : w.status <;> simp [vstep, hs, hp]
  | complete c => cases hs : w.status <;> simp [vstep, hs, hp]
  | unsubscribe j => simp [vstep, hp]

/-- the stored state evolves the same way whatever the phase of `i` -/
theorem vstep_status_values (w : View α) (o : Op α) :
    (vstep P i w o).status = (match w.status, o with
        | .active, .error c e => .errored c e
        | .active, .complete _ => .completed
        | st, _ => st) ∧
    (vstep P i w o).values = (match w.status, o with
        | .active, .next c v => P.mem w.values (c, v)
        | _, _ => w.values) := by
  cases o with
  | subscribe j c =>
    simp only [vstep]
    split
    · cases hs : w.status <;> simp
    · cases hs : w.status <;> simp
  | next c v => cases hs : w.status <;> simp [vstep, hs]
  | error c e => cases hs : w.status <;> simp [vstep, hs]
  | complete c => cases hs : w.status <;> simp [vstep, hs]
  | unsubscribe j => simp only [vstep]; split <;> cases hs : w.status <;> simp

theorem vrun_closed_before : ∀ (ops : List (Op α)) (w : View α), w.phase = .before → w.status ≠ .active →
    (∀ o ∈ ops, isSub i o = false) → vrun P i w ops = w
  | [], _, _, _, _ => rfl
  | o :: ops, w, hp, hc, hno => by
    have h1 := vstep_not_sub_before P i w o hp (hno o (by simp))
    have h2 := vstep_status_values P i w o
    have hst : (vstep P i w o).status = w.status := by
      rw [h2.1]; cases hs : w.status <;> simp [hs] at hc ⊢
    have hv : (vstep P i w o).values = w.values := by
      rw [h2.2]; cases hs : w.status <;> simp [hs] at hc ⊢
    have : vstep P i w o = w := view_ext (h1.1.trans hp.symm) h1.2 hst hv
    simp only [vrun, List.foldl_cons, this]
    exact vrun_closed_before ops w hp hc (fun o ho => hno o (by simp [ho]))

/-- **before** `Subscribe i`: `i` has nothing; the subject's status and stored values follow the
    producer side of the prefix -/
theorem vrun_before : ∀ (pre : List (Op α)) (g : List (Notif α)) (m : List (Ctx × α)),
    (∀ o ∈ pre, isSub i o = false) →
    vrun P i ⟨.before, g, .active, m⟩ pre =
      ⟨.before, g, statusOf (ending (produced pre)), (values (produced pre)).foldl P.mem m⟩
  | [], _, _, _ => rfl
  | o :: pre, g, m, hno => by
    have hno' : ∀ o ∈ pre, isSub i o = false := fun o ho => hno o (by simp [ho])
    cases o with
    | subscribe j c =>
      have : j ≠ i := by simpa [isSub] using hno (.subscribe j c) (by simp)
      simp only [vrun, List.foldl_cons, vstep, this, false_and, if_false, produced]
      exact vrun_before pre g m hno'
    | unsubscribe j =>
      simp only [vrun, List.foldl_cons, vstep, produced]
      have : ¬ (j = i ∧ Phase.before = Phase.live) := by simp
      simp only [this, if_false]
      exact vrun_before pre g m hno'
    | next c v =>
      simp only [vrun, List.foldl_cons, vstep, produced, values, ending, List.foldl_cons]
      have : ¬ (P.live = true ∧ Phase.before = Phase.live) := by simp
      simp only [this, if_false]
      exact vrun_before pre g (P.mem m (c, v)) hno'
    | error c e =>
      simp only [vrun, List.foldl_cons, vstep, produced, values, ending, List.foldl_nil, statusOf]
      have : ¬ (Phase.before = Phase.live) := by simp
      simp only [this, if_false]
      exact vrun_closed_before P i pre _ rfl (by simp) hno'
    | complete c =>
      simp only [vrun, List.foldl_cons, vstep, produced, values, ending, List.foldl_nil, statusOf]
      have : ¬ (Phase.before = Phase.live) := by simp
      simp only [this, if_false]
      exact vrun_closed_before P i pre _ rfl (by simp) hno'

/-- **done**: nothing more is received, and `i` does not come back -/
theorem vrun_done : ∀ (ops : List (Op α)) (w : View α), w.phase = .done →
    (vrun P i w ops).got = w.got ∧ (vrun P i w ops).phase = .done
  | [], _, hp => ⟨rfl, hp⟩
  | o :: ops, w, hp => by
    have h1 : (vstep P i w o).phase = .done ∧ (vstep P i w o).got = w.got := by
      cases o with
      | subscribe j c => simp [vstep, hp]
      | unsubscribe j => simp [vstep, hp]
      | next c v => cases hs : w.status <;> simp [vstep, hs, hp]
      | error c e => cases hs : w.status <;> simp [vstep, hs, hp]
      | complete c => cases hs : w.status <;> simp [vstep, hs, hp]
    have ih := vrun_done ops (vstep P i w o) h1.1
    simp only [vrun, List.foldl_cons] at ih ⊢
    exact ⟨ih.1.trans h1.2, ih.2⟩

/-- **live**: values published while `i` stays subscribed, then the terminal -/
theorem vrun_live : ∀ (post : List (Op α)) (g : List (Notif α)) (m : List (Ctx × α)),
    (vrun P i ⟨.live, g, .active, m⟩ post).got = g ++ liveSpec P m (produced (whileSubscribed i post)) ∧
    ((vrun P i ⟨.live, g, .active, m⟩ post).phase = .live ↔
      (post.all (fun o => !isUnsub i o) = true ∧ ending (produced post) = .never))
  | [], g, m => by simp [vrun, whileSubscribed, produced, liveSpec, ending]
  | o :: post, g, m => by
    cases o with
    | subscribe j c =>
      have : ¬ (j = i ∧ Phase.live = Phase.before) := by simp
      simp only [vrun, List.foldl_cons, vstep, this, if_false, whileSubscribed, List.takeWhile_cons, isUnsub,
        Bool.not_false, if_true, produced, List.all_cons, Bool.true_and]
      exact vrun_live post g m
    | unsubscribe j =>
      by_cases hj : j = i
      · subst hj
        have hd := vrun_done P j post ⟨.done, g, .active, m⟩ rfl
        simp only [vrun, List.foldl_cons, vstep, and_self, if_true, whileSubscribed, List.takeWhile_cons, isUnsub,
          beq_self_eq_true, Bool.not_true, Bool.false_eq_true, if_false, produced, liveSpec, List.append_nil,
          List.all_cons, Bool.false_and, false_and, iff_false] at hd ⊢
        exact ⟨hd.1, by rw [hd.2]; simp⟩
      · have hb : (j == i) = false := by simpa using hj
        simp only [vrun, List.foldl_cons, vstep, hj, false_and, if_false, whileSubscribed, List.takeWhile_cons, isUnsub,
          hb, Bool.not_false, if_true, produced, List.all_cons, Bool.true_and]
        exact vrun_live post g m
    | next c v =>
      have ih := vrun_live post (if P.live = true then g ++ [.next c v] else g) (P.mem m (c, v))
      simp only [vrun, List.foldl_cons, vstep, and_true, whileSubscribed, List.takeWhile_cons, isUnsub,
        Bool.not_false, if_true, produced, liveSpec, List.all_cons, Bool.true_and, ending] at ih ⊢
      refine ⟨?_, ih.2⟩
      rw [ih.1]
      by_cases hl : P.live = true <;> simp [hl]
    | error c e =>
      have hd := vrun_done P i post ⟨.done, g ++ [.error c e], .errored c e, m⟩ rfl
      simp only [vrun, List.foldl_cons, vstep, if_true, whileSubscribed, List.takeWhile_cons, isUnsub,
        Bool.not_false, produced, liveSpec, List.all_cons, Bool.true_and, ending] at hd ⊢
      exact ⟨hd.1, by rw [hd.2]; simp⟩
    | complete c =>
      have hd := vrun_done P i post
        ⟨.done, g ++ (if P.flush = true then nexts m else []) ++ [.complete c], .completed, m⟩ rfl
      simp only [vrun, List.foldl_cons, vstep, if_true, whileSubscribed, List.takeWhile_cons, isUnsub,
        Bool.not_false, produced, liveSpec, List.all_cons, Bool.true_and, ending] at hd ⊢
      refine ⟨?_, by rw [hd.2]; simp⟩
      rw [hd.1]; simp

theorem vrun_append (w : View α) (a b : List (Op α)) : vrun P i w (a ++ b) = vrun P i (vrun P i w a) b := by
  simp [vrun, List.foldl_append]

/-- the automaton computes the definition -/
theorem vrun_got (m0 : List (Ctx × α)) (ops : List (Op α)) :
    (vrun P i ⟨.before, [], .active, m0⟩ ops).got = multiSpec P m0 ops i := by
  unfold multiSpec
  cases hsp : splitSub i ops with
  | none =>
    rw [vrun_before P i ops [] m0 (splitSub_none hsp)]
  | some x =>
    obtain ⟨pre, c, post⟩ := x
    obtain ⟨hops, hno⟩ := splitSub_some hsp
    simp only
    rw [hops, vrun_append, vrun_before P i pre [] m0 hno]
    have hstep : ∀ w : View α, vrun P i w (.subscribe i c :: post) = vrun P i (vstep P i w (.subscribe i c)) post :=
      fun _ => rfl
    rw [hstep]
    cases he : ending (produced pre) with
    | never =>
      simp only [statusOf, vstep, and_self, if_true]
      rw [(vrun_live P i post _ _).1]
    | error ec e =>
      simp only [statusOf, vstep, and_self, if_true]
      rw [(vrun_done P i post _ rfl).1]
    | complete cc =>
      simp only [statusOf, vstep, and_self, if_true]
      rw [(vrun_done P i post _ rfl).1]

/-- who is registered, by the automaton -/
theorem vrun_phase_live (m0 : List (Ctx × α)) (ops : List (Op α)) :
    ((vrun P i ⟨.before, [], .active, m0⟩ ops).phase = .live) ↔
      (match splitSub i ops with
       | none => False
       | some (pre, _, post) => ending (produced pre) = .never ∧ post.all (fun o => !isUnsub i o) = true
                                 ∧ ending (produced post) = .never) := by
  cases hsp : splitSub i ops with
  | none =>
    rw [vrun_before P i ops [] m0 (splitSub_none hsp)]; simp
  | some x =>
    obtain ⟨pre, c, post⟩ := x
    obtain ⟨hops, hno⟩ := splitSub_some hsp
    simp only
    rw [hops, vrun_append, vrun_before P i pre [] m0 hno]
    have hstep : ∀ w : View α, vrun P i w (.subscribe i c :: post) = vrun P i (vstep P i w (.subscribe i c)) post :=
      fun _ => rfl
    rw [hstep]
    cases he : ending (produced pre) with
    | never =>
      simp only [statusOf, vstep, and_self, if_true, true_and]
      exact (vrun_live P i post _ _).2
    | error ec e =>
      simp only [statusOf, vstep, and_self, if_true]
      rw [(vrun_done P i post _ rfl).2]; simp
    | complete cc =>
      simp only [statusOf, vstep, and_self, if_true]
      rw [(vrun_done P i post _ rfl).2]; simp

/-- the status, by the automaton (whatever the phase) -/
theorem vrun_status : ∀ (ops : List (Op α)) (w : View α),
    (vrun P i w ops).status = (match w.status with
      | .active => statusOf (ending (produced ops))
      | st => st)
  | [], w => by cases hs : w.status <;> simp [vrun, produced, ending, statusOf, hs]
  | o :: ops, w => by
    have ih := vrun_status ops (vstep P i w o)
    have h2 := (vstep_status_values P i w o).1
    simp only [vrun, List.foldl_cons] at ih ⊢
    rw [ih, h2]
    cases hs : w.status <;> cases o <;> simp [produced, ending, statusOf]

end Ro.Subj

/-
  RoProofs.Plugins.Strconv — round-trip laws of the decimal `strconv` model:
  `Atoi ∘ Itoa = id` on int64, ErrRange outside of it, `ParseUint ∘ digits = id` on uint64,
  `ParseBool ∘ FormatBool = id`.  Core Lean only.
-/
import RoModel.Plugins.Strconv
namespace Ro.Plugins.Strconv

/-! ### the digit printer -/

theorem decDigitsF_digits : ∀ (f n c : Nat), c ∈ decDigitsF f n → 48 ≤ c ∧ c ≤ 57
  | 0, _, c, h => by simp [decDigitsF] at h
  | f + 1, n, c, h => by
    unfold decDigitsF at h
    split at h
    · simp at h; omega
    · rw [List.mem_append] at h
      rcases h with h | h
      · exact decDigitsF_digits f _ c h
      · simp at h; omega

theorem decDigitsF_ne_nil (f n : Nat) : decDigitsF (f + 1) n ≠ [] := by
  unfold decDigitsF
  split <;> simp

theorem decDigits_ne_nil (n : Nat) : decDigits n ≠ [] := decDigitsF_ne_nil n n

/-- every printed character is an ASCII digit -/
theorem decDigits_digits (n c : Nat) (h : c ∈ decDigits n) : 48 ≤ c ∧ c ≤ 57 :=
  decDigitsF_digits _ _ _ h

/-- the fuel of `decDigitsF` is irrelevant once it exceeds the number -/
theorem decDigitsF_fuel : ∀ (f g n : Nat), n < f → n < g → decDigitsF f n = decDigitsF g n
  | 0, _, _, hf, _ => by omega
  | _ + 1, 0, _, _, hg => by omega
  | f + 1, g + 1, n, hf, hg => by
    unfold decDigitsF
    split
    · rfl
    · rw [decDigitsF_fuel f g (n / 10) (by omega) (by omega)]

/-- the recursion equation of the printer without fuel -/
theorem decDigits_step (n : Nat) (h : 10 ≤ n) :
    decDigits n = decDigits (n / 10) ++ [48 + n % 10] := by
  show decDigitsF (n + 1) n = decDigitsF (n / 10 + 1) (n / 10) ++ _
  rw [decDigitsF, if_neg (by omega), decDigitsF_fuel n (n / 10 + 1) (n / 10) (by omega) (by omega)]

theorem decDigits_small (n : Nat) (h : n < 10) : decDigits n = [48 + n] := by
  show decDigitsF (n + 1) n = _
  rw [decDigitsF, if_pos h]

/-! ### the magnitude scanner -/

theorem parseMag_append (ds rest : Bytes) : ∀ acc,
    parseMag acc (ds ++ rest) = (parseMag acc ds).bind (fun m => parseMag m rest) := by
  induction ds with
  | nil => intro acc; rfl
  | cons c ds ih =>
    intro acc
    simp only [List.cons_append, parseMag]
    split
    · rfl
    · split
      · rfl
      · split
        · rfl
        · exact ih _

/-- the scanner on printed digits: the value if it fits 64 bits, ErrRange otherwise -/
theorem parseMag_decDigitsF : ∀ (f n : Nat), n < f →
    parseMag 0 (decDigitsF f n) = if n ≤ maxU64 then .ok n else .error .range
  | 0, _, h => by omega
  | f + 1, n, h => by
    unfold decDigitsF
    split
    · next h10 =>
      have : n ≤ maxU64 := by unfold maxU64; omega
      simp only [parseMag, this, if_true]
      rw [if_neg (by omega), if_neg (by unfold cutoff; omega), if_neg (by unfold maxU64; omega)]
      congr 1; omega
    · next h10 =>
      rw [parseMag_append, parseMag_decDigitsF f (n / 10) (by omega)]
      by_cases hq : n / 10 ≤ maxU64
      · rw [if_pos hq]
        simp only [Except.bind, parseMag]
        rw [if_neg (by omega)]
        by_cases hc : n / 10 ≥ cutoff
        · rw [if_pos hc, if_neg (by unfold cutoff at hc; unfold maxU64; omega)]
        · rw [if_neg hc]
          have e : n / 10 * 10 + (48 + n % 10 - 48) = n := by omega
          rw [e]
          by_cases hn : n ≤ maxU64
          · rw [if_neg (by omega), if_pos hn]
          · rw [if_pos (by omega), if_neg hn]
      · rw [if_neg hq, if_neg (by unfold maxU64 at hq ⊢; omega)]
        rfl

theorem parseUint64_decDigits_gen (n : Nat) :
    parseUint64 (decDigits n) = if n ≤ maxU64 then .ok n else .error .range := by
  unfold parseUint64
  rw [if_neg (decDigits_ne_nil n)]
  exact parseMag_decDigitsF (n + 1) n (by omega)

/-- the unsigned parser inverts the digit printer -/
theorem parseUint64_decDigits (n : Nat) (h : n ≤ 18446744073709551615) :
    parseUint64 (decDigits n) = .ok n := by
  rw [parseUint64_decDigits_gen, if_pos (show n ≤ maxU64 from h)]

/-- and answers ErrRange beyond 64 bits -/
theorem parseUint64_decDigits_above (n : Nat) (h : 18446744073709551615 < n) :
    parseUint64 (decDigits n) = .error .range := by
  rw [parseUint64_decDigits_gen, if_neg (by unfold maxU64; omega)]

/-! ### signed -/

/-- printed digits never start with a sign, so `ParseInt` takes the unsigned branch -/
theorem parseInt64_decDigits (m : Nat) : parseInt64 (decDigits m) = signed false (decDigits m) := by
  have hne := decDigits_ne_nil m
  have hd := decDigits_digits m
  cases hds : decDigits m with
  | nil => exact absurd hds hne
  | cons c rest =>
    have := hd c (by rw [hds]; exact List.mem_cons_self)
    show (if c = 43 then signed false rest else if c = 45 then signed true rest
      else signed false (c :: rest)) = _
    rw [if_neg (by omega), if_neg (by omega)]

theorem signed_decDigits (neg : Bool) (m : Nat) :
    signed neg (decDigits m) =
      if m ≤ maxU64 then
        (if !neg ∧ m ≥ two63 then .error .range
         else if neg ∧ m > two63 then .error .range
         else .ok (if neg then -(m : Int) else (m : Int)))
      else .error .range := by
  unfold signed
  rw [parseUint64_decDigits_gen]
  by_cases h : m ≤ maxU64
  · simp only [if_pos h]
  · simp only [if_neg h]

theorem atoi_itoa_gen (n : Int) :
    atoi (itoa n) =
      if -9223372036854775808 ≤ n ∧ n < 9223372036854775808 then .ok n else .error .range := by
  unfold atoi itoa
  by_cases hneg : n < 0
  · rw [if_pos hneg]
    have e : parseInt64 (45 :: decDigits n.natAbs) = signed true (decDigits n.natAbs) := rfl
    rw [e, signed_decDigits]
    unfold maxU64 two63
    by_cases h1 : n.natAbs ≤ 18446744073709551615
    · rw [if_pos h1]
      by_cases h2 : n.natAbs > 9223372036854775808
      · rw [if_neg (by simp), if_pos ⟨rfl, h2⟩, if_neg (by omega)]
      · have hr : -9223372036854775808 ≤ n ∧ n < 9223372036854775808 := ⟨by omega, by omega⟩
        rw [if_neg (by simp), if_neg (by simp [h2]), if_pos hr, if_pos rfl]
        congr 1; omega
    · rw [if_neg h1, if_neg (by omega)]
  · rw [if_neg hneg, parseInt64_decDigits, signed_decDigits]
    unfold maxU64 two63
    by_cases h1 : n.natAbs ≤ 18446744073709551615
    · rw [if_pos h1]
      by_cases h2 : n.natAbs ≥ 9223372036854775808
      · rw [if_pos ⟨rfl, h2⟩, if_neg (by omega)]
      · have hr : -9223372036854775808 ≤ n ∧ n < 9223372036854775808 := ⟨by omega, by omega⟩
        rw [if_neg (by simp [h2]), if_neg (by simp), if_pos hr, if_neg (by simp)]
        congr 1; omega
    · rw [if_neg h1, if_neg (by omega)]

/-- Atoi ∘ Itoa = id on every Go int (64 bit) -/
theorem atoi_itoa (n : Int) (hlo : -9223372036854775808 ≤ n) (hhi : n < 9223372036854775808) :
    atoi (itoa n) = .ok n := by
  rw [atoi_itoa_gen, if_pos ⟨hlo, hhi⟩]

/-- outside the int64 range the parser answers ErrRange (so the hypothesis above is sharp) -/
theorem atoi_itoa_above (n : Int) (h : 9223372036854775808 ≤ n) :
    atoi (itoa n) = .error .range := by
  rw [atoi_itoa_gen, if_neg (by omega)]

theorem atoi_itoa_below (n : Int) (h : n < -9223372036854775808) :
    atoi (itoa n) = .error .range := by
  rw [atoi_itoa_gen, if_neg (by omega)]

/-! ### booleans -/

theorem parseBool_formatBool (b : Bool) : parseBool (formatBool b) = some b := by
  cases b <;> decide

/-! ### behaviour / non-vacuity -/

example : itoa 0 = [48] := by decide
example : itoa (-120) = [45, 49, 50, 48] := by decide
example : atoi [43, 49, 50] = .ok 12 := by rfl                 -- "+12"
example : atoi [45, 48] = .ok 0 := by rfl                      -- "-0"
example : atoi [] = .error .syntax := by rfl
example : atoi [43] = .error .syntax := by rfl                 -- "+"
example : atoi [45] = .error .syntax := by rfl                 -- "-"
example : atoi [49, 95, 48] = .error .syntax := by rfl         -- "1_0"
example : atoi [32, 49] = .error .syntax := by rfl             -- " 1"
example : atoi [43, 45, 49] = .error .syntax := by rfl         -- "+-1"
/-- twenty nines then `x`: the overflow is seen before the bad character (scan order of ParseUint) -/
example : atoi (List.replicate 20 57 ++ [120]) = .error .range := by rfl
/-- nineteen nines then `x`: no overflow yet, so the bad character wins -/
example : atoi (List.replicate 19 57 ++ [120]) = .error .syntax := by rfl
example : atoi (itoa (-9223372036854775808)) = .ok (-9223372036854775808) :=
  atoi_itoa _ (by decide) (by decide)
example : atoi (itoa 9223372036854775807) = .ok 9223372036854775807 :=
  atoi_itoa _ (by decide) (by decide)
example : atoi (itoa 9223372036854775808) = .error .range := atoi_itoa_above _ (by decide)
example : atoi (itoa (-9223372036854775809)) = .error .range := atoi_itoa_below _ (by decide)
example : parseUint64 (decDigits 18446744073709551615) = .ok 18446744073709551615 :=
  parseUint64_decDigits _ (by decide)
example : parseUint64 (decDigits 18446744073709551616) = .error .range :=
  parseUint64_decDigits_above _ (by decide)
example : parseUint64 [] = .error .syntax := by rfl
example : parseBool [116, 114, 117, 69] = none := by decide        -- "truE"
example : parseBool [84] = some true := by decide                  -- "T"
example : parseBool [] = none := by decide

end Ro.Plugins.Strconv

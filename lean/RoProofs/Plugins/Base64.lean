/-
  RoProofs.Plugins.Base64 — round trip of the `encoding/base64` model:
  `decode e (encode e bs) = some bs` for the four predefined encodings and every byte string,
  rejection of malformed input, CR/LF skipping, and the length of an encoding.
-/
import RoModel.Plugins.Base64
namespace Ro.Plugins.Base64

/-! ### the alphabets -/

theorem decChar_encChar_all (u p : Bool) :
    (List.range 64).all (fun i => decChar ⟨u, p⟩ (encChar ⟨u, p⟩ i) == some i) = true := by
  cases u <;> cases p <;> decide

/-- `decodeMap[encode[i]] = i` for both alphabets -/
theorem decChar_encChar (e : Enc) (i : Nat) (h : i < 64) : decChar e (encChar e i) = some i := by
  obtain ⟨u, p⟩ := e
  have hall := decChar_encChar_all u p
  rw [List.all_eq_true] at hall
  simpa using hall i (List.mem_range.2 h)

theorem encChar_ne_all (u p : Bool) :
    (List.range 64).all (fun i =>
      encChar ⟨u, p⟩ i != 10 && encChar ⟨u, p⟩ i != 13 && encChar ⟨u, p⟩ i != 61) = true := by
  cases u <;> cases p <;> decide

/-- no alphabet character is LF, CR or the padding character `=` -/
theorem encChar_ne (e : Enc) (i : Nat) (h : i < 64) :
    encChar e i ≠ 10 ∧ encChar e i ≠ 13 ∧ encChar e i ≠ 61 := by
  obtain ⟨u, p⟩ := e
  have hall := encChar_ne_all u p
  rw [List.all_eq_true] at hall
  simpa [and_assoc] using hall i (List.mem_range.2 h)

/-- `=` is in neither alphabet -/
theorem decChar_pad (e : Enc) : decChar e 61 = none := by
  obtain ⟨u, p⟩ := e
  cases u <;> cases p <;> decide

/-! ### stepping the decoder -/

/-- a full quantum: four alphabet characters give three bytes -/
theorem decodeGo_quad (e : Enc) (rest : Bytes) (i0 i1 i2 i3 : Nat)
    (h0 : i0 < 64) (h1 : i1 < 64) (h2 : i2 < 64) (h3 : i3 < 64) :
    decodeGo e [] (encChar e i0 :: encChar e i1 :: encChar e i2 :: encChar e i3 :: rest)
      = (decodeGo e [] rest).map ([i0 * 4 + i1 / 16, i1 % 16 * 16 + i2 / 4, i2 % 4 * 64 + i3] ++ ·) := by
  simp [decodeGo, decChar_encChar, h0, h1, h2, h3, quantumBytes]

/-- tail of one byte: two characters, then `==` or nothing -/
theorem decodeGo_tail1 (e : Enc) (i0 i1 : Nat) (h0 : i0 < 64) (h1 : i1 < 64) :
    decodeGo e [] ([encChar e i0, encChar e i1] ++ padding e 2)
      = some [i0 * 4 + i1 / 16] := by
  obtain ⟨u, p⟩ := e
  cases p <;>
    simp [decodeGo, decChar_encChar, decChar_pad, h0, h1, quantumBytes, padding, skipNL,
      List.replicate]

/-- tail of two bytes: three characters, then `=` or nothing -/
theorem decodeGo_tail2 (e : Enc) (i0 i1 i2 : Nat)
    (h0 : i0 < 64) (h1 : i1 < 64) (h2 : i2 < 64) :
    decodeGo e [] ([encChar e i0, encChar e i1, encChar e i2] ++ padding e 1)
      = some [i0 * 4 + i1 / 16, i1 % 16 * 16 + i2 / 4] := by
  obtain ⟨u, p⟩ := e
  cases p <;>
    simp [decodeGo, decChar_encChar, decChar_pad, h0, h1, h2, quantumBytes, padding, skipNL,
      List.replicate]

/-! ### the round trip -/

theorem decodeGo_encode (e : Enc) :
    ∀ (bs : Bytes), IsBytes bs → decodeGo e [] (encode e bs) = some bs
  | [], _ => by simp [encode, decodeGo]
  | [a], h => by
    have ha : a < 256 := h a (by simp)
    rw [encode, decodeGo_tail1 e _ _ (by omega) (by omega)]
    have : a / 4 * 4 + a % 4 * 16 / 16 = a := by omega
    rw [this]
  | [a, b], h => by
    have ha : a < 256 := h a (by simp)
    have hb : b < 256 := h b (by simp)
    rw [encode, decodeGo_tail2 e _ _ _ (by omega) (by omega) (by omega)]
    have h1 : a / 4 * 4 + (a % 4 * 16 + b / 16) / 16 = a := by omega
    have h2 : (a % 4 * 16 + b / 16) % 16 * 16 + b % 16 * 4 / 4 = b := by omega
    rw [h1, h2]
  | a :: b :: c :: rest, h => by
    have ha : a < 256 := h a (by simp)
    have hb : b < 256 := h b (by simp)
    have hc : c < 256 := h c (by simp)
    have hrest : IsBytes rest := fun x hx => h x (by simp [hx])
    rw [encode, decodeGo_quad e _ _ _ _ _ (by omega) (by omega) (by omega) (by omega),
      decodeGo_encode e rest hrest]
    have h1 : a / 4 * 4 + (a % 4 * 16 + b / 16) / 16 = a := by omega
    have h2 : (a % 4 * 16 + b / 16) % 16 * 16 + (b % 16 * 4 + c / 64) / 4 = b := by omega
    have h3 : (b % 16 * 4 + c / 64) % 4 * 64 + c % 64 = c := by omega
    rw [h1, h2, h3]
    simp

/-- `DecodeString(EncodeToString(bs)) = bs, nil` for Std, URL, RawStd, RawURL -/
theorem decode_encode (e : Enc) (bs : Bytes) (h : IsBytes bs) :
    decode e (encode e bs) = some bs := by
  simpa [decode] using decodeGo_encode e bs h

theorem isBytes_map_toNat (bs : List UInt8) : IsBytes (bs.map UInt8.toNat) := by
  intro b hb
  obtain ⟨x, _, rfl⟩ := List.mem_map.1 hb
  exact x.toNat_lt

/-- the round trip over real bytes (no side condition) -/
theorem decode_encode_uint8 (e : Enc) (bs : List UInt8) :
    decode e (encode e (bs.map UInt8.toNat)) = some (bs.map UInt8.toNat) :=
  decode_encode e _ (isBytes_map_toNat bs)

/-! ### length of an encoding (`EncodedLen`, base64.go) -/

theorem encode_length (e : Enc) :
    ∀ bs : Bytes, (encode e bs).length =
      if e.pad then (bs.length + 2) / 3 * 4 else (bs.length * 8 + 5) / 6
  | [] => by simp [encode]
  | [a] => by cases hp : e.pad <;> simp [encode, padding, hp]
  | [a, b] => by cases hp : e.pad <;> simp [encode, padding, hp]
  | a :: b :: c :: rest => by
    have ih := encode_length e rest
    cases hp : e.pad <;> simp [encode, hp] at ih ⊢ <;> omega

/-! ### non-vacuity: concrete round trips (bytes 251..255 exercise `+/` vs `-_`) -/

example : encode std [251, 252, 253, 254, 255] = [43, 47, 122, 57, 47, 118, 56, 61] := by decide
example : encode urlEnc [251, 252, 253, 254, 255] = [45, 95, 122, 57, 95, 118, 56, 61] := by decide
example : encode rawStd [251, 252, 253, 254, 255] = [43, 47, 122, 57, 47, 118, 56] := by decide
example : encode rawUrl [251, 252, 253, 254, 255] = [45, 95, 122, 57, 95, 118, 56] := by decide

example : decode std (encode std [251, 252, 253, 254, 255]) = some [251, 252, 253, 254, 255] := by
  decide
example : decode urlEnc (encode urlEnc [251, 252, 253, 254, 255]) = some [251, 252, 253, 254, 255] := by
  decide
example : decode rawStd (encode rawStd [251, 252, 253, 254, 255]) = some [251, 252, 253, 254, 255] := by
  decide
example : decode rawUrl (encode rawUrl [251, 252, 253, 254, 255]) = some [251, 252, 253, 254, 255] := by
  decide
-- "Man" / "Ma" / "M" (RFC 4648 §9 style vectors), and a 4-byte input with a 1-byte tail
example : encode std [77, 97, 110] = [84, 87, 70, 117] := by decide
example : decode std [84, 87, 70, 117] = some [77, 97, 110] := by decide
example : decode std [84, 87, 69, 61] = some [77, 97] := by decide
example : decode std [84, 81, 61, 61] = some [77] := by decide
example : decode rawUrl (encode rawUrl [0, 255, 16, 251]) = some [0, 255, 16, 251] := by decide
-- the alphabets are not interchangeable
example : decode std (encode urlEnc [251, 252, 253]) = none := by decide
example : decode urlEnc (encode std [251, 252, 253]) = none := by decide

/-! ### malformed input is rejected (`CorruptInputError`), never accepted silently -/

example : decode std [65] = none := by decide                    -- a single character
example : decode rawStd [65] = none := by decide
example : decode std [65, 65, 65] = none := by decide            -- missing padding, padded encoding
example : decode std [65, 65] = none := by decide
example : decode rawStd [65, 65, 61, 61] = none := by decide     -- padding in a raw encoding
example : decode rawUrl [65, 65, 65, 61] = none := by decide
example : decode std [65, 65, 61, 65] = none := by decide        -- data after padding
example : decode std [65, 65, 61] = none := by decide            -- `xx=` instead of `xx==`
example : decode std [65, 61, 61, 61] = none := by decide        -- padding too early
example : decode std [61] = none := by decide
example : decode std [65, 65, 65, 61, 65] = none := by decide    -- trailing garbage after `xxx=`
example : decode std [33, 33, 33, 33] = none := by decide        -- characters outside the alphabet
example : decode std [65, 65, 45, 95] = none := by decide        -- URL characters under Std
example : decode urlEnc [65, 65, 43, 47] = none := by decide     -- Std characters under URL

/-! ### CR / LF are skipped anywhere -/

example : decode std [81, 81, 10, 61, 13, 61, 10] = some [65] := by decide
example : decode std [10, 84, 13, 87, 10, 70, 13, 10, 117, 10] = some [77, 97, 110] := by decide
example : decode rawStd [81, 13, 10, 81] = some [65] := by decide

end Ro.Plugins.Base64

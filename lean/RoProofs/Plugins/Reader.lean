/-
  RoProofs.Plugins.Reader — `NewIOReader` (plugins/stdio/source.go): for EVERY script of `Read`
  results (data together with an error included) the chunks handed to the observer are exactly the
  data of the reads, in order — a later `Read` into the shared buffer changes none of them — and
  their concatenation is everything the reader produced; the terminal follows the first error.
-/
import RoModel.Plugins.Reader
namespace Ro.Plugins.Reader

theorem take_overwrite (buf data : Bytes) : (overwrite buf data).take data.length = data := by
  simp [overwrite]

/-- each chunk is the data of its read, whatever the buffer held before and whatever is read later -/
theorem ioReader_chunks (r : Run) (script : List Read) :
    (ioReader r script).chunks = r.chunks ++ handedOn script := by
  induction script generalizing r with
  | nil => simp [ioReader, handedOn]
  | cons rd rest ih =>
    obtain ⟨data, err⟩ := rd
    cases err with
    | none =>
      have hstep : ioReader r (⟨data, none⟩ :: rest) =
          ioReader { buf := overwrite r.buf data, chunks := r.chunks ++ [(overwrite r.buf data).take data.length],
                     term := r.term } rest := by
        simp [ioReader]
      rw [hstep, ih, take_overwrite]
      simp [handedOn]
    | some e =>
      cases e <;> cases data <;> simp [ioReader, handedOn, overwrite]

/-- the chunks an observer keeps are the data of the reads: no chunk is touched after delivery -/
theorem runIOReader_chunks (script : List Read) : (runIOReader script).chunks = handedOn script := by
  simp [runIOReader, ioReader_chunks]

theorem handedOn_flatten (script : List Read) : (handedOn script).flatten = produced script := by
  induction script with
  | nil => rfl
  | cons rd rest ih =>
    obtain ⟨data, err⟩ := rd
    cases err with
    | none => simp [handedOn, produced, ih]
    | some e => cases data <;> simp [handedOn, produced]

/-- concatenation of the emitted chunks = the bytes produced, for every script -/
theorem runIOReader_concat (script : List Read) : (runIOReader script).chunks.flatten = produced script := by
  rw [runIOReader_chunks, handedOn_flatten]

/-- the first error the reader returns -/
def firstErr (script : List Read) : Option RErr := script.findSome? (fun rd => rd.err)

/-- how a script ends -/
def termOf (script : List Read) : Term :=
  match firstErr script with
  | some RErr.eof => Term.complete
  | some (RErr.other k) => Term.error k
  | none => Term.none

theorem termOf_cons_none (data : Bytes) (rest : List Read) :
    termOf (⟨data, none⟩ :: rest) = termOf rest := by
  simp [termOf, firstErr]

theorem ioReader_term (r : Run) (script : List Read) (hr : r.term = .none) :
    (ioReader r script).term = termOf script := by
  induction script generalizing r with
  | nil => simpa [ioReader, termOf, firstErr] using hr
  | cons rd rest ih =>
    obtain ⟨data, err⟩ := rd
    cases err with
    | none =>
      have hstep : ioReader r (⟨data, none⟩ :: rest) =
          ioReader { buf := overwrite r.buf data, chunks := r.chunks ++ [(overwrite r.buf data).take data.length],
                     term := r.term } rest := by
        simp [ioReader]
      rw [hstep, ih _ (by exact hr), termOf_cons_none]
    | some e => cases e <;> simp [ioReader, termOf, firstErr]

/-- Complete iff the first error is EOF, Error k iff it is another error -/
theorem runIOReader_term (script : List Read) : (runIOReader script).term = termOf script :=
  ioReader_term _ script rfl

-- non-vacuity: two chunks survive a third read; bytes that come with EOF are delivered; nothing after it
example : (runIOReader [⟨[1, 2], none⟩, ⟨[3], none⟩, ⟨[], some .eof⟩]).chunks = [[1, 2], [3]] := by decide
example : (runIOReader [⟨[1, 2], none⟩, ⟨[3, 4], some .eof⟩, ⟨[5], none⟩]).chunks = [[1, 2], [3, 4]] ∧
    (runIOReader [⟨[1, 2], none⟩, ⟨[3, 4], some .eof⟩, ⟨[5], none⟩]).term = .complete ∧
    produced [⟨[1, 2], none⟩, ⟨[3, 4], some .eof⟩, ⟨[5], none⟩] = [1, 2, 3, 4] := by decide
example : (runIOReader [⟨[], none⟩, ⟨[7, 8, 9], none⟩, ⟨[], some (.other 3)⟩]).chunks = [[], [7, 8, 9]] ∧
    (runIOReader [⟨[], none⟩, ⟨[7, 8, 9], none⟩, ⟨[], some (.other 3)⟩]).term = .error 3 := by decide

/-! ### the line reader -/

theorem lineReader_eq (lines : List Bytes) : lineReader lines = lines := by
  simp [lineReader]

example : lineReader [[104, 105], [], [33]] = [[104, 105], [], [33]] := by decide

end Ro.Plugins.Reader

/-
  RoProofs.Plugins.Reader — `NewIOReader` / `NewIOReaderLine` (plugins/stdio/source.go).

  Documented meaning: the chunks delivered, concatenated, are the bytes the reader produced, and
  each delivered chunk keeps showing the bytes it was delivered with.

  * `ioReader_delivered_concat` : at delivery time the concatenation is right, PROVIDED no read
    returns data together with an error (those bytes are never looked at: witness `eof_data_lost`);
  * `retained_ne_delivered` : the chunks are windows on ONE buffer, so a kept chunk shows later
    data (witness); `ioReader_retained_partial`: no difference when at most one read carries data;
  * `ioReaderFixed_concat` : the repaired reader delivers exactly `produced script`, for ALL scripts;
  * `lineReader_eq` : the line reader hands out the lines unchanged.
  Core Lean only.
-/
import RoModel.Plugins.Reader
namespace Ro.Plugins.Reader
open Ro Ro.Plugins

/-! ### 1. the delivered chunks at delivery time -/

theorem ioReader_delivered_flatten (r : Run) (script : List Read)
    (h : ∀ rd ∈ script, rd.err.isSome → rd.data = []) :
    (ioReader r script).delivered.flatten = r.delivered.flatten ++ produced script := by
  induction script generalizing r with
  | nil => simp [ioReader, produced]
  | cons rd rest ih =>
    obtain ⟨data, err⟩ := rd
    cases err with
    | none =>
      have hstep : ioReader r (⟨data, none⟩ :: rest) =
          ioReader { r with buf := overwrite r.buf data, lens := r.lens ++ [data.length],
                            delivered := r.delivered ++ [data] } rest := rfl
      rw [hstep, ih _ (fun x hx => h x (List.mem_cons_of_mem _ hx))]
      simp [produced]
    | some e =>
      have hd : data = [] := h ⟨data, some e⟩ (by simp) rfl
      subst hd
      cases e <;> simp [ioReader, produced]

theorem ioReader_delivered_concat (script : List Read)
    (h : ∀ rd ∈ script, rd.err.isSome → rd.data = []) :
    (runIOReader script).delivered.flatten = produced script := by
  unfold runIOReader
  rw [ioReader_delivered_flatten _ _ h]
  rfl

example : (runIOReader [⟨[1, 2], none⟩, ⟨[3], none⟩, ⟨[], some .eof⟩, ⟨[9], none⟩]).delivered.flatten = [1, 2, 3] ∧
    produced [⟨[1, 2], none⟩, ⟨[3], none⟩, ⟨[], some .eof⟩, ⟨[9], none⟩] = [1, 2, 3] := by
  decide

/-! ### 2. / 3. the two deviations of the pinned reader -/

/-- a kept chunk is a window on the shared buffer: after the second read the first chunk shows `3, 2` -/
theorem retained_ne_delivered :
    (runIOReader [⟨[1, 2], none⟩, ⟨[3], none⟩, ⟨[], some .eof⟩]).delivered = [[1, 2], [3]] ∧
    (runIOReader [⟨[1, 2], none⟩, ⟨[3], none⟩, ⟨[], some .eof⟩]).retained = [[3, 2], [3]] ∧
    (runIOReader [⟨[1, 2], none⟩, ⟨[3], none⟩, ⟨[], some .eof⟩]).term = .complete := by
  decide

/-- `n > 0` together with `io.EOF` (allowed by the io.Reader contract): the `n` bytes are lost -/
theorem eof_data_lost :
    (runIOReader [⟨[1, 2], none⟩, ⟨[3, 4], some .eof⟩]).delivered.flatten = [1, 2] ∧
    produced [⟨[1, 2], none⟩, ⟨[3, 4], some .eof⟩] = [1, 2, 3, 4] ∧
    (runIOReader [⟨[1, 2], none⟩, ⟨[3, 4], some .eof⟩]).delivered.flatten ≠
      produced [⟨[1, 2], none⟩, ⟨[3, 4], some .eof⟩] := by
  decide

/-- … and even without being delivered they overwrite what the kept chunk shows -/
example : (runIOReader [⟨[1, 2], none⟩, ⟨[3, 4], some .eof⟩]).retained = [[3, 4]] := by decide

/-! ### 4. when keeping the chunks is harmless: at most one read carries data -/

@[simp] theorem overwrite_nil (buf : Bytes) : overwrite buf [] = buf := by simp [overwrite]

theorem take_overwrite (buf data : Bytes) : (overwrite buf data).take data.length = data := by
  simp [overwrite]

/-- reads without data leave the buffer alone -/
theorem ioReader_dataless (r : Run) (script : List Read) (h : ∀ rd ∈ script, rd.data = [])
    (hr : r.retained = r.delivered) :
    (ioReader r script).retained = (ioReader r script).delivered := by
  induction script generalizing r with
  | nil => exact hr
  | cons rd rest ih =>
    obtain ⟨data, err⟩ := rd
    have hd : data = [] := h ⟨data, err⟩ (by simp)
    subst hd
    cases err with
    | none =>
      have hstep : ioReader r (⟨[], none⟩ :: rest) =
          ioReader { r with buf := overwrite r.buf [], lens := r.lens ++ [0],
                            delivered := r.delivered ++ [[]] } rest := rfl
      rw [hstep]
      apply ih _ (fun x hx => h x (List.mem_cons_of_mem _ hx))
      simp only [Run.retained, overwrite_nil, List.map_append, List.map_cons, List.map_nil,
        List.take_zero]
      rw [← hr]; rfl
    | some e =>
      cases e <;> simpa [ioReader, Run.retained] using hr

/-- while only empty windows are out, the first read with data is shown correctly, and so is
    everything after it as long as no further data arrives -/
theorem ioReader_one_data (r : Run) (pre : List Read) (rd : Read) (rest : List Read)
    (hpre : ∀ x ∈ pre, x.data = []) (hrest : ∀ x ∈ rest, x.data = [])
    (h0 : ∀ n ∈ r.lens, n = 0) (hr : r.retained = r.delivered) :
    (ioReader r (pre ++ rd :: rest)).retained = (ioReader r (pre ++ rd :: rest)).delivered := by
  induction pre generalizing r with
  | nil =>
    obtain ⟨data, err⟩ := rd
    -- the empty windows show nothing whatever the buffer holds
    have hkeep : ∀ buf : Bytes, r.lens.map (fun n => buf.take n) = r.delivered := by
      intro buf
      rw [← hr]
      simp only [Run.retained]
      apply List.map_congr_left
      intro n hn
      rw [h0 n hn]; simp
    cases err with
    | none =>
      have hstep : ioReader r ([] ++ ⟨data, none⟩ :: rest) =
          ioReader { r with buf := overwrite r.buf data, lens := r.lens ++ [data.length],
                            delivered := r.delivered ++ [data] } rest := rfl
      rw [hstep]
      apply ioReader_dataless _ _ hrest
      simp only [Run.retained, List.map_append, List.map_cons, List.map_nil, take_overwrite, hkeep]
    | some e =>
      cases e <;> simpa [ioReader, Run.retained] using hkeep _
  | cons p pre ih =>
    obtain ⟨data, err⟩ := p
    have hd : data = [] := hpre ⟨data, err⟩ (by simp)
    subst hd
    cases err with
    | none =>
      have hstep : ioReader r ((⟨[], none⟩ :: pre) ++ rd :: rest) =
          ioReader { r with buf := overwrite r.buf [], lens := r.lens ++ [0],
                            delivered := r.delivered ++ [[]] } (pre ++ rd :: rest) := rfl
      rw [hstep]
      apply ih _ (fun x hx => hpre x (List.mem_cons_of_mem _ hx))
      · intro n hn
        simp only [List.mem_append, List.mem_singleton] at hn
        rcases hn with hn | hn
        · exact h0 n hn
        · exact hn
      · simp only [Run.retained, overwrite_nil, List.map_append, List.map_cons, List.map_nil,
          List.take_zero]
        rw [← hr]; rfl
    | some e =>
      cases e <;> simpa [ioReader, Run.retained] using hr

/-
  Full statement (does NOT hold, `retained_ne_delivered`):
      ∀ script, (runIOReader script).retained = (runIOReader script).delivered
-/
/-- **partial**: if at most one read of the script carries data (`script = pre ++ rd :: rest` with
    `pre` and `rest` dataless), the kept chunks show what was delivered. -/
theorem ioReader_retained_partial (pre : List Read) (rd : Read) (rest : List Read)
    (hpre : ∀ x ∈ pre, x.data = []) (hrest : ∀ x ∈ rest, x.data = []) :
    (runIOReader (pre ++ rd :: rest)).retained = (runIOReader (pre ++ rd :: rest)).delivered :=
  ioReader_one_data _ pre rd rest hpre hrest (fun _ h => by cases h) rfl

/-- the usual shape: one chunk, then the end of the stream -/
theorem ioReader_retained_single (d : Bytes) (e : RErr) :
    (runIOReader [⟨d, none⟩, ⟨[], some e⟩]).retained = [d] ∧
    (runIOReader [⟨d, none⟩, ⟨[], some e⟩]).delivered = [d] := by
  have h := ioReader_retained_partial [] ⟨d, none⟩ [⟨[], some e⟩] (fun _ h => by cases h)
    (fun x hx => by simp only [List.mem_singleton] at hx; rw [hx])
  have hd : (runIOReader [⟨d, none⟩, ⟨[], some e⟩]).delivered = [d] := by
    cases e <;> rfl
  exact ⟨by rw [← hd]; exact h, hd⟩

example : (runIOReader [⟨[], none⟩, ⟨[7, 8, 9], none⟩, ⟨[], none⟩, ⟨[], some (.other 3)⟩]).retained = [[], [7, 8, 9], []] ∧
    (runIOReader [⟨[], none⟩, ⟨[7, 8, 9], none⟩, ⟨[], none⟩, ⟨[], some (.other 3)⟩]).delivered = [[], [7, 8, 9], []] ∧
    (runIOReader [⟨[], none⟩, ⟨[7, 8, 9], none⟩, ⟨[], none⟩, ⟨[], some (.other 3)⟩]).term = .error 3 := by
  decide

/-! ### 5. the repaired reader -/

theorem ioReaderFixed_flatten (acc : List Bytes) (script : List Read) :
    (ioReaderFixed acc script).1.flatten = acc.flatten ++ produced script := by
  induction script generalizing acc with
  | nil => simp [ioReaderFixed, produced]
  | cons rd rest ih =>
    obtain ⟨data, err⟩ := rd
    cases err with
    | none =>
      have hstep : ioReaderFixed acc (⟨data, none⟩ :: rest) = ioReaderFixed (acc ++ [data]) rest := rfl
      rw [hstep, ih]
      simp [produced]
    | some e =>
      have hacc : (if data.length > 0 then acc ++ [data] else acc).flatten = acc.flatten ++ data := by
        cases data with
        | nil => simp
        | cons b bs => simp
      cases e <;> simpa [ioReaderFixed, produced] using hacc

/-- the repaired reader delivers exactly the bytes produced, for every script -/
theorem ioReaderFixed_concat (script : List Read) :
    (ioReaderFixed [] script).1.flatten = produced script := by
  rw [ioReaderFixed_flatten]; rfl

/-- the first error the reader returns -/
def firstErr (script : List Read) : Option RErr := script.findSome? (fun rd => rd.err)

/-- how a script ends -/
def termOf (script : List Read) : Term :=
  match firstErr script with
  | some RErr.eof => Term.complete
  | some (RErr.other k) => Term.error k
  | none => Term.none

theorem termOf_cons_none (data : Bytes) (rest : List Read) :
    termOf (⟨data, none⟩ :: rest) = termOf rest := by
  simp [termOf, firstErr]

theorem ioReaderFixed_term (acc : List Bytes) (script : List Read) :
    (ioReaderFixed acc script).2 = termOf script := by
  induction script generalizing acc with
  | nil => simp [ioReaderFixed, termOf, firstErr]
  | cons rd rest ih =>
    obtain ⟨data, err⟩ := rd
    cases err with
    | none =>
      have hstep : ioReaderFixed acc (⟨data, none⟩ :: rest) = ioReaderFixed (acc ++ [data]) rest := rfl
      rw [hstep, ih, termOf_cons_none]
    | some e => cases e <;> simp [ioReaderFixed, termOf, firstErr]

/-- the repaired reader completes iff the first error is EOF -/
theorem ioReaderFixed_complete_iff (script : List Read) :
    (ioReaderFixed [] script).2 = .complete ↔ firstErr script = some .eof := by
  rw [ioReaderFixed_term]
  unfold termOf
  cases h : firstErr script with
  | none => simp
  | some e => cases e <;> simp

/-- the pinned reader ends the same way (its terminal is not affected by the buffer sharing) -/
theorem ioReader_term (r : Run) (script : List Read) (hr : r.term = .none) :
    (ioReader r script).term = termOf script := by
  induction script generalizing r with
  | nil => simpa [ioReader, termOf, firstErr] using hr
  | cons rd rest ih =>
    obtain ⟨data, err⟩ := rd
    cases err with
    | none =>
      have hstep : ioReader r (⟨data, none⟩ :: rest) =
          ioReader { r with buf := overwrite r.buf data, lens := r.lens ++ [data.length],
                            delivered := r.delivered ++ [data] } rest := rfl
      rw [hstep, ih _ (by exact hr), termOf_cons_none]
    | some e => cases e <;> simp [ioReader, termOf, firstErr]

theorem runIOReader_term (script : List Read) : (runIOReader script).term = termOf script :=
  ioReader_term _ script rfl

example : ioReaderFixed [] [⟨[1, 2], none⟩, ⟨[3, 4], some .eof⟩, ⟨[5], none⟩] = ([[1, 2], [3, 4]], .complete) ∧
    produced [⟨[1, 2], none⟩, ⟨[3, 4], some .eof⟩, ⟨[5], none⟩] = [1, 2, 3, 4] := by
  decide

/-! ### 6. the line reader -/

theorem lineReader_eq (lines : List Bytes) : lineReader lines = lines := by
  simp [lineReader]

example : lineReader [[104, 105], [], [33]] = [[104, 105], [], [33]] := by decide

end Ro.Plugins.Reader
